import Thm.C06
import Thm.C06Core
import Thm.C06RecL
import Thm.AoRSim
/-!
C06 over the layer AoR (`RbModel.AoR.Ref`: core language + TYPE records with nesting + `STRING * n` + arrays whose elements
are scalars, fixed-length strings or records; `a(i…).f.g` as a value and as an assignment target; LBOUND / UBOUND).

`Thm/AoRPropsTyping.lean` has the tag / length half of the invariant (`AoRProps.Good`: every variable that exists has its
declared type, and EVERY element of every dimensioned array — stored or never touched — has the array's element type;
`HasTy`: a numeric field at any nesting depth holds a scalar of the field's tag).  Here the RANGE half is added — every
scalar leaf of every value, at any depth, of every variable and of every array element is in range for its tag, the
declared bounds of every array are INTEGERs (so LBOUND / UBOUND are in range), the DATA items are in range (`Range`) — and
proved to hold in every state the reference run reaches, whatever the outcome.

The range half needs NO typing premise: `exec_range` is over ANY statement of the reference syntax whose stored literals
are values of their own types (`rangeB`, decidable).  Typing comes from `AoRProps.execOk_all` under the layer's static
premise `ProgWf` (decidable: `progWfB`).  Together (`Good`):

* `exec_range` / `exec_inrange` — every statement, any fuel, **any outcome** (`illFormed`, `tooBig` included);
* `var_inrange`, `elem_inrange`, `every_element_inrange`, `bounds_inrange` — what `Good` says about a numeric variable /
  field `x.f.g…`, about an element / element field `a(i…).f.g…` with ANY subscripts that evaluate, about every element of
  every dimensioned array (whether or not it was ever stored to), about the declared bounds;
* `elem_store_converts` — `a(i…).f.g = e` into a numeric location stores the conversion of the value of `e` to the
  location's type (`fieldCast`: identity at the same static type, else `Num.cast`, which range-checks), or stops with the
  conversion's error (Overflow = 6) at the position of `e` and stores nothing;
* `run_inrange`, `run_inrange_checked` — whole programs, every fuel, every outcome: `Good` of the state the run ends in
  (and, the statement holding for every fuel, of every state it passes through at a statement boundary);
* `ToVm.aor_run_inrange(_checked)` — through `AoR.compile_correct` to the VM model: what transfers is stated there.
-/
namespace RbThm.C06AoR
set_option linter.unusedVariables false
set_option linter.unusedSimpArgs false
open RbModel RbModel.Num RbModel.AoR
open RbModel.Ast (Pos)
open RbModel.RecL (ETy FTy FFields expand zeroOf)
open RbModel.RecL.Spec (HasTy EnvTyped TypesWf PathTyped)
open RbModel.RecL.Ref (RV RFs)
open RbThm.C06 RbThm.ArrLNum
open RbThm.RecLTy (eres_bind_ok lift_ok asScalar_ok hasTy_sc hasTy_getPath)
open RbThm.AoRTy (ExprTyped ElemTyped ArrsTyped)
open RbThm.C06RecL (RangeRV RangeFs RangeEnv range_getPath range_setPath range_fresh conv_range rangeEnv_set
  zeroOf_inRange fieldCast)

abbrev St := RbModel.AoR.Ref.St
abbrev RArr := RbModel.AoR.Ref.RArr
abbrev Outcome := RbModel.AoR.Ref.Outcome

/-! ### hypotheses: literals of the stored expressions and DATA items are values of their own types (decidable) -/

/-- every literal that can reach a store is in range for its own tag: an element or a bound read from an array needs
nothing of its subscripts (the value comes from the array, which the invariant covers) -/
def litsE : AoR.Expr → Bool
  | .lit v _ => decide v.InRange
  | .var _ _ _ _ => true
  | .un _ e _ => litsE e
  | .bin _ l r _ _ => litsE l && litsE r
  | .paren e _ => litsE e
  | .elem _ _ _ _ _ => true
  | .bound _ _ _ _ => true
  | .boundD _ _ _ _ _ => true

/-- the bound expressions of a DIM (their values become the declared bounds) -/
def litsD : Dims → Bool
  | .nil => true
  | .cons none hi rest => litsE hi && litsD rest
  | .cons (some lo) hi rest => litsE lo && litsE hi && litsD rest

mutual
/-- the expressions whose values are stored (assigned expressions, FOR start values, DIM bounds) have in-range literals -/
def rangeB : Stmt → Bool
  | .skip => true
  | .seq a b => rangeB a && rangeB b
  | .dim _ _ _ => true
  | .dimArr _ _ dims _ => litsD dims
  | .assign _ _ _ e _ => litsE e
  | .assignElem _ _ _ _ e _ => litsE e
  | .print _ _ => true
  | .read _ _ => true
  | .ifs _ thn els _ => rangeB thn && rangeB els
  | .select _ cases _ => rangeCB cases
  | .forLoop _ _ lo _ _ body _ => litsE lo && rangeB body
  | .while _ body _ => rangeB body
  | .doLoop _ _ _ body _ => rangeB body
  | .end_ _ => true
def rangeCB : Cases → Bool
  | .nil => true
  | .else_ body => rangeB body
  | .case _ body rest => rangeB body && rangeCB rest
end

/-- **the range premise of a whole program** (decidable) -/
def progRangeB (P : Program) : Bool := rangeB P.body && P.data.all (fun v => decide v.InRange)

/-! ### the range half of the invariant -/

/-- an array: EVERY element — stored or never touched, inside or outside the index box — holds in-range scalars only, at
any depth; the declared bounds are INTEGERs -/
structure RangeArr (A : RArr) : Prop where
  elems : ∀ is, RangeRV (A.get is)
  bounds : ∀ b ∈ A.bounds, inIntRange b.1 = true ∧ inIntRange b.2 = true

def RangeArrs (arrs : List (Option RArr)) : Prop := ∀ (a : Nat) (A : RArr), arrs[a]? = some (some A) → RangeArr A

/-- **the range half of the invariant**: every scalar anywhere inside a variable or an array element is in range for its
tag, the bounds of every array are INTEGERs, every DATA item is in range -/
structure Range (s : St) : Prop where
  env : RangeEnv s.env
  arrs : RangeArrs s.arrs
  data : ∀ v ∈ s.data, v.InRange

theorem rangeArrs_set {arrs : List (Option RArr)} (h : RangeArrs arrs) (a : Nat) {A : RArr} (hA : RangeArr A) :
    RangeArrs (arrs.set a (some A)) := by
  intro b B hB
  by_cases hab : a = b
  · subst hab
    by_cases hlt : a < arrs.length
    · rw [List.getElem?_set_self hlt] at hB
      injection hB with hB; injection hB with hB; subst hB; exact hA
    · rw [List.getElem?_eq_none (by rw [List.length_set]; omega)] at hB; cases hB
  · rw [List.getElem?_set_ne hab] at hB
    exact h b B hB

theorem Range.congr {s s' : St} (h : Range s) (he : s'.env = s.env) (ha : s'.arrs = s.arrs) (hd : s'.data = s.data) :
    Range s' :=
  ⟨by rw [he]; exact h.env, by rw [ha]; exact h.arrs, by rw [hd]; exact h.data⟩

theorem Range.setRV {s : St} (h : Range s) (x : Nat) {w : RV} (hw : RangeRV w) : Range (s.setRV x w) :=
  ⟨rangeEnv_set h.env x hw, h.arrs, h.data⟩

theorem Range.set {s : St} (h : Range s) (x : Nat) {w : Val} (hw : w.InRange) : Range (s.set x w) :=
  ⟨rangeEnv_set h.env x (by simpa only [RangeRV] using hw), h.arrs, h.data⟩

theorem Range.setArr {s : St} (h : Range s) (a : Nat) {A : RArr} (hA : RangeArr A) : Range (s.setArr a A) :=
  ⟨h.env, rangeArrs_set h.arrs a hA, h.data⟩

/-- a store into one element keeps the array in range: that element is the new value, every other one is what it was, the
bounds are untouched -/
theorem RangeArr.set {A : RArr} (h : RangeArr A) (is : List Int) {v : RV} (hv : RangeRV v) : RangeArr (A.set is v) := by
  refine ⟨?_, h.bounds⟩
  intro js
  by_cases hj : js = is
  · subst hj; rw [RbThm.AoRProps.get_set_same]; exact hv
  · rw [RbThm.AoRProps.get_set_other _ _ _ _ hj]; exact h.elems js

/-! ### expressions -/

theorem boundOf_range {up : Bool} {A : RArr} {k : Int} {p : Pos} {v : RV} (hA : RangeArr A)
    (h : AoR.Ref.boundOf up A k p = .ok v) : RangeRV v := by
  unfold AoR.Ref.boundOf at h
  split at h
  · cases h
  · split at h
    · next lo hi hb =>
      injection h with h; subst h
      have := hA.bounds (lo, hi) (List.mem_of_getElem? hb)
      simp only [RangeRV, Val.InRange]
      cases up
      · simpa using this.1
      · simpa using this.2
    · cases h

/-- the value of an expression whose literals are in range, in a state whose values are, is in range — operator results by
the value-level theorems of `Thm/C06.lean`, an element / element field by the array invariant whatever the subscripts,
LBOUND / UBOUND by the bounds being INTEGERs; no typing premise is needed for this half -/
theorem eval_range {env : AoR.Ref.Env} {arrs : List (Option RArr)} (hn : RangeEnv env) (ha : RangeArrs arrs)
    (e : AoR.Expr) (v : RV) (hl : litsE e = true) (h : AoR.Ref.eval env arrs e = .ok v) : RangeRV v := by
  cases e with
  | lit a q =>
    simp only [AoR.Ref.eval] at h; injection h with h; subst h
    simpa [litsE, RangeRV] using hl
  | var x path t q =>
    simp only [AoR.Ref.eval] at h
    cases hx : env[x]? with
    | none => simp [hx] at h
    | some o =>
      cases o with
      | none => simp [hx] at h
      | some rv =>
        simp only [hx] at h
        cases hp : rv.getPath path with
        | none => simp [hp] at h
        | some v' =>
          simp only [hp] at h; injection h with h; subst h
          exact range_getPath path rv v' (hn x rv hx) hp
  | un op e p =>
    simp only [litsE] at hl
    cases op with
    | neg =>
      simp only [AoR.Ref.eval] at h
      obtain ⟨v1, h1, h⟩ := eres_bind_ok h
      obtain ⟨a, h2, h⟩ := eres_bind_ok h
      obtain ⟨r, h3, h⟩ := eres_bind_ok h
      injection h with h; subst h
      have hr := eval_range hn ha e v1 hl h1
      rw [asScalar_ok h2] at hr
      simp only [RangeRV] at hr ⊢
      exact (negate_typed a r hr (lift_ok h3)).2
    | not =>
      simp only [AoR.Ref.eval] at h
      obtain ⟨v1, h1, h⟩ := eres_bind_ok h
      obtain ⟨a, h2, h⟩ := eres_bind_ok h
      obtain ⟨r, h3, h⟩ := eres_bind_ok h
      injection h with h; subst h
      have hr := eval_range hn ha e v1 hl h1
      rw [asScalar_ok h2] at hr
      simp only [RangeRV] at hr ⊢
      exact (unaryNot_typed a r hr (lift_ok h3)).2
  | bin op l r t p =>
    simp only [litsE, Bool.and_eq_true] at hl
    simp only [AoR.Ref.eval] at h
    obtain ⟨v1, h1, h⟩ := eres_bind_ok h
    obtain ⟨a, h2, h⟩ := eres_bind_ok h
    obtain ⟨v2, h3, h⟩ := eres_bind_ok h
    obtain ⟨b, h4, h⟩ := eres_bind_ok h
    obtain ⟨w, h5, h⟩ := eres_bind_ok h
    injection h with h; subst h
    have n1 := eval_range hn ha l v1 hl.1 h1
    have n2 := eval_range hn ha r v2 hl.2 h3
    rw [asScalar_ok h2] at n1
    rw [asScalar_ok h4] at n2
    simp only [RangeRV] at n1 n2 ⊢
    exact RbThm.C06Core.binStep_inRange op t a b w n1 n2 (lift_ok h5)
  | paren e q =>
    simp only [litsE] at hl
    simp only [AoR.Ref.eval] at h
    exact eval_range hn ha e v hl h
  | elem a idx path t p =>
    simp only [AoR.Ref.eval] at h
    obtain ⟨is, _, h⟩ := eres_bind_ok h
    obtain ⟨A, hA, h⟩ := eres_bind_ok h
    by_cases hb : A.inBounds is = true
    · simp only [hb, if_true] at h
      cases hp : (A.get is).getPath path with
      | none => simp [hp] at h
      | some v' =>
        simp only [hp] at h; injection h with h; subst h
        exact range_getPath path _ v' ((ha a A (RbThm.AoRTy.getArr_ok hA)).elems is) hp
    · simp [hb] at h
  | bound up a ap p =>
    simp only [AoR.Ref.eval] at h
    obtain ⟨A, hA, h⟩ := eres_bind_ok h
    exact boundOf_range (ha a A (RbThm.AoRTy.getArr_ok hA)) h
  | boundD up a ap d p =>
    simp only [AoR.Ref.eval] at h
    obtain ⟨A, hA, h⟩ := eres_bind_ok h
    obtain ⟨dv, _, h⟩ := eres_bind_ok h
    obtain ⟨dv', _, h⟩ := eres_bind_ok h
    obtain ⟨k, _, h⟩ := eres_bind_ok h
    exact boundOf_range (ha a A (RbThm.AoRTy.getArr_ok hA)) h
termination_by sizeOf e

theorem evalS_range {env : AoR.Ref.Env} {arrs : List (Option RArr)} (hn : RangeEnv env) (ha : RangeArrs arrs)
    {e : AoR.Expr} {a : Val} (hl : litsE e = true) (h : AoR.Ref.evalS env arrs e = .ok a) : a.InRange := by
  simp only [AoR.Ref.evalS] at h
  obtain ⟨w, h1, h2⟩ := eres_bind_ok h
  have := eval_range hn ha e w hl h1
  rw [asScalar_ok h2] at this
  simpa only [RangeRV] using this

theorem evalTo_range {env : AoR.Ref.Env} {arrs : List (Option RArr)} (hn : RangeEnv env) (ha : RangeArrs arrs)
    {e : AoR.Expr} {t : ETy} {v : RV} (hl : litsE e = true) (h : AoR.Ref.evalTo env arrs e t = .ok v) : RangeRV v := by
  simp only [AoR.Ref.evalTo] at h
  obtain ⟨v0, h1, h2⟩ := eres_bind_ok h
  exact conv_range (eval_range hn ha e v0 hl h1) h2

theorem evalToS_range {env : AoR.Ref.Env} {arrs : List (Option RArr)} (hn : RangeEnv env) (ha : RangeArrs arrs)
    {e : AoR.Expr} {t : Ty} {a : Val} (hl : litsE e = true) (h : AoR.Ref.evalToS env arrs e t = .ok a) : a.InRange := by
  simp only [AoR.Ref.evalToS] at h
  obtain ⟨w, h1, h2⟩ := eres_bind_ok h
  have := evalTo_range hn ha hl h1
  rw [asScalar_ok h2] at this
  simpa only [RangeRV] using this

/-! ### DIM of an array: the bounds are INTEGERs, every element is fresh -/

theorem toIndex_ok {p : Pos} {r : Res Val} {i : Int} (h : AoR.Ref.toIndex p r = .ok i) : r = .ok (.int i) := by
  unfold AoR.Ref.toIndex at h
  split at h
  · injection h with h; subst h; rfl
  · cases h
  · cases h
  · cases h

theorem evalDims_range {env : AoR.Ref.Env} {arrs : List (Option RArr)} (hn : RangeEnv env) (ha : RangeArrs arrs) :
    ∀ (dims : Dims) (ds : List (Val × Val)), litsD dims = true → AoR.Ref.evalDims env arrs dims = .ok ds →
      ∀ d ∈ ds, d.1.InRange ∧ d.2.InRange
  | .nil, ds, _, h => by
    simp only [AoR.Ref.evalDims] at h; injection h with h; subst h
    intro d hd; cases hd
  | .cons lo hi rest, ds, hl, h => by
    simp only [AoR.Ref.evalDims] at h
    obtain ⟨l, h1, h⟩ := eres_bind_ok h
    obtain ⟨u, h2, h⟩ := eres_bind_ok h
    obtain ⟨ds', h3, h⟩ := eres_bind_ok h
    injection h with h; subst h
    have hlr : l.InRange ∧ litsE hi = true ∧ litsD rest = true := by
      cases lo with
      | none =>
        simp only [litsD, Bool.and_eq_true] at hl
        simp only at h1; injection h1 with h1; subst h1
        exact ⟨by decide, hl.1, hl.2⟩
      | some e =>
        simp only [litsD, Bool.and_eq_true] at hl
        simp only at h1
        exact ⟨evalS_range hn ha hl.1.1 h1, hl.1.2, hl.2⟩
    intro d hd
    rcases List.mem_cons.mp hd with rfl | hd
    · exact ⟨hlr.1, evalS_range hn ha hlr.2.1 h2⟩
    · exact evalDims_range hn ha rest ds' hlr.2.2 h3 d hd

theorem convDims_range (p : Pos) : ∀ (ds : List (Val × Val)) (bs : List (Int × Int)),
    (∀ d ∈ ds, d.1.InRange ∧ d.2.InRange) → AoR.Ref.convDims p ds = .ok bs →
      ∀ b ∈ bs, inIntRange b.1 = true ∧ inIntRange b.2 = true
  | [], bs, _, h => by
    simp only [AoR.Ref.convDims] at h; injection h with h; subst h
    intro b hb; cases hb
  | (l, u) :: rest, bs, hr, h => by
    simp only [AoR.Ref.convDims] at h
    obtain ⟨lo, h1, h⟩ := eres_bind_ok h
    obtain ⟨hi, h2, h⟩ := eres_bind_ok h
    obtain ⟨bs', h3, h⟩ := eres_bind_ok h
    injection h with h; subst h
    have hlu := hr (l, u) (List.mem_cons_self ..)
    have r1 := (cast_sound l .int (.int lo) hlu.1 (toIndex_ok h1)).2
    have r2 := (cast_sound u .int (.int hi) hlu.2 (toIndex_ok h2)).2
    intro b hb
    rcases List.mem_cons.mp hb with rfl | hb
    · exact ⟨by simpa only [Val.InRange] using r1, by simpa only [Val.InRange] using r2⟩
    · exact convDims_range p rest bs' (fun d hd => hr d (List.mem_cons_of_mem _ hd)) h3 b hb

/-- a `DIM` that succeeds yields an array all of whose elements are fresh — numeric leaves zero — and whose bounds are
INTEGERs -/
theorem dimArray_range {s : St} {t : ETy} {dims : Dims} {p : Pos} {A : RArr} (hs : Range s) (hl : litsD dims = true)
    (h : AoR.Ref.dimArray s t dims p = .ok A) : RangeArr A := by
  obtain ⟨ft, _, _, hfresh⟩ := RbThm.AoRProps.dimArray_fresh h
  refine ⟨fun is => by rw [hfresh is]; exact range_fresh ft, ?_⟩
  unfold AoR.Ref.dimArray at h
  cases hexp : expand s.types t with
  | none => simp [hexp] at h
  | some ft' =>
    simp only [hexp] at h
    cases hb : (AoR.Ref.evalDims s.env s.arrs dims).bind (AoR.Ref.convDims p) with
    | ok bounds =>
      simp only [hb] at h
      obtain ⟨ds, h1, h2⟩ := eres_bind_ok hb
      have hbr := convDims_range p ds bounds (evalDims_range hs.env hs.arrs dims ds hl h1) h2
      split at h
      · cases h
      · split at h
        · cases h
        · injection h with h; subst h; exact hbr
    | err c q => simp [hb] at h
    | inexact => simp [hb] at h
    | illFormed => simp [hb] at h

/-! ### the range half along every run -/

theorem readItem_range {s : St} (hg : Range s) (t : Ty) (p : Pos) (w : Val)
    (h : AoR.Ref.readItem s t p = .ok w) : w.InRange := by
  unfold AoR.Ref.readItem at h
  split at h
  · cases h
  · next v hd =>
    split at h
    · next w' hc =>
      injection h with h; subst h
      exact (cast_sound v t w' (hg.data v (List.mem_of_getElem? hd)) hc).2
    · cases h
    · cases h

theorem printItems_data : ∀ (items : List PrintItem) (s : St), (AoR.Ref.printItems s items).1.data = s.data
  | [], s => rfl
  | .comma :: rest, s => by
    simp only [AoR.Ref.printItems]
    exact printItems_data rest _
  | .semicolon :: rest, s => by
    simp only [AoR.Ref.printItems]
    exact printItems_data rest _
  | .expr e :: rest, s => by
    simp only [AoR.Ref.printItems]
    cases AoR.Ref.evalS s.env s.arrs e with
    | ok v =>
      simp only
      cases AoR.Ref.printValue v with
      | none => rfl
      | some pv => exact printItems_data rest _
    | err c p => rfl
    | inexact => rfl
    | illFormed => rfl

/-- preservation at a given amount of fuel, for the three mutually recursive functions, for every outcome -/
def Pres (fuel : Nat) : Prop :=
  (∀ (st : Stmt) (s : St), rangeB st = true → Range s → Range (AoR.Ref.exec fuel st s).1) ∧
  (∀ (p : Pos) (subj : Val) (cs : Cases) (s : St), rangeCB cs = true → Range s →
    Range (AoR.Ref.execCases fuel p subj cs s).1) ∧
  (∀ (x : Nat) (t : Ty) (h sv : Val) (up : Bool) (body : Stmt) (p : Pos) (s : St),
    rangeB body = true → Range s → Range (AoR.Ref.forIter fuel x t h sv up body p s).1)

theorem pres_zero : Pres 0 :=
  ⟨fun _ _ _ hg => by simpa only [AoR.Ref.exec] using hg,
   fun _ _ _ _ _ hg => by simpa only [AoR.Ref.execCases] using hg,
   fun _ _ _ _ _ _ _ _ _ hg => by simpa only [AoR.Ref.forIter] using hg⟩

theorem exec_succ {fuel : Nat} (ih : Pres fuel) (st : Stmt) (s : St) (hr : rangeB st = true) (hg : Range s) :
    Range (AoR.Ref.exec (fuel + 1) st s).1 := by
  cases st with
  | skip => simpa only [AoR.Ref.exec] using hg
  | end_ p => simpa only [AoR.Ref.exec] using hg
  | seq a b =>
    simp only [rangeB, Bool.and_eq_true] at hr
    simp only [AoR.Ref.exec]
    have h1 := ih.1 a s hr.1 hg
    generalize AoR.Ref.exec fuel a s = ra at h1 ⊢
    obtain ⟨s1, o1⟩ := ra
    cases o1 <;> first | exact ih.1 b s1 hr.2 h1 | exact h1
  | dim x t p =>
    simp only [AoR.Ref.exec]
    cases hexp : expand s.types t with
    | none => exact hg
    | some ft => exact hg.setRV x (range_fresh ft)
  | dimArr a t dims p =>
    simp only [rangeB] at hr
    simp only [AoR.Ref.exec]
    cases hd : AoR.Ref.dimArray s t dims p with
    | error o => exact hg
    | ok A => exact hg.setArr a (dimArray_range hg hr hd)
  | assign x path t e p =>
    simp only [rangeB] at hr
    simp only [AoR.Ref.exec]
    cases hev : AoR.Ref.evalTo s.env s.arrs e t with
    | err c q => exact hg
    | inexact => exact hg
    | illFormed => exact hg
    | ok v =>
      simp only
      have hvr := evalTo_range hg.env hg.arrs hr hev
      cases path with
      | nil =>
        cases hx : s.env[x]? with
        | none => exact hg
        | some o => exact hg.setRV x hvr
      | cons f rest =>
        cases hx : s.env[x]? with
        | none => exact hg
        | some o =>
          cases o with
          | none => exact hg
          | some old =>
            simp only
            cases hs : old.setPath (f :: rest) v with
            | none => exact hg
            | some new => exact hg.setRV x (range_setPath (f :: rest) old v new (hg.env x old hx) hvr hs)
  | assignElem a idx path t e p =>
    simp only [rangeB] at hr
    cases hx : AoR.Ref.exec (fuel + 1) (.assignElem a idx path t e p) s with
    | mk s' o =>
      cases o with
      | normal =>
        obtain ⟨v, is, A, new, hv, hi, hA, hb, hs, rfl⟩ := RbThm.AoRProps.assignElem_normal hx
        have hvr := evalTo_range hg.env hg.arrs hr hv
        have hAr := hg.arrs a A hA
        exact hg.setArr a (hAr.set is (range_setPath path (A.get is) v new (hAr.elems is) hvr hs))
      | halted => rw [RbThm.AoRProps.assignElem_keeps hx (by simp)]; exact hg
      | error c q => rw [RbThm.AoRProps.assignElem_keeps hx (by simp)]; exact hg
      | inexact => rw [RbThm.AoRProps.assignElem_keeps hx (by simp)]; exact hg
      | outOfFuel => rw [RbThm.AoRProps.assignElem_keeps hx (by simp)]; exact hg
      | illFormed => rw [RbThm.AoRProps.assignElem_keeps hx (by simp)]; exact hg
      | tooBig => rw [RbThm.AoRProps.assignElem_keeps hx (by simp)]; exact hg
  | print items p =>
    simp only [AoR.Ref.exec]
    have hk := RbThm.AoRProps.printItems_keeps items s
    have hd := printItems_data items s
    generalize AoR.Ref.printItems s items = r at hk hd ⊢
    obtain ⟨s1, o1⟩ := r
    have hg1 : Range s1 := hg.congr hk.1 hk.2.2 hd
    cases o1 with
    | normal =>
      simp only
      split
      · exact hg1
      · exact hg1.congr rfl rfl rfl
    | halted => exact hg1
    | error c q => exact hg1
    | inexact => exact hg1
    | outOfFuel => exact hg1
    | illFormed => exact hg1
    | tooBig => exact hg1
  | read tg p =>
    simp only [AoR.Ref.exec]
    cases hri : AoR.Ref.readItem s tg.t p with
    | error o => exact hg
    | ok w => exact (hg.set tg.x (readItem_range hg tg.t p w hri)).congr rfl rfl rfl
  | ifs c thn els p =>
    simp only [rangeB, Bool.and_eq_true] at hr
    simp only [AoR.Ref.exec]
    cases AoR.Ref.evalCond s c with
    | error o => exact hg
    | ok b =>
      cases b with
      | true => exact ih.1 thn s hr.1 hg
      | false => exact ih.1 els s hr.2 hg
  | select e cases p =>
    simp only [rangeB] at hr
    simp only [AoR.Ref.exec]
    cases AoR.Ref.evalE s e with
    | error o => exact hg
    | ok subj => exact ih.2.1 p subj cases s hr hg
  | forLoop x t lo hi step body p =>
    simp only [rangeB, Bool.and_eq_true] at hr
    simp only [AoR.Ref.exec]
    cases hl : AoR.Ref.evalToS s.env s.arrs lo t with
    | err c q => exact hg
    | inexact => exact hg
    | illFormed => exact hg
    | ok l =>
      simp only
      have hg1 : Range (s.set x l) := hg.set x (evalToS_range hg.env hg.arrs hr.1 hl)
      cases AoR.Ref.evalToS (s.set x l).env (s.set x l).arrs hi t with
      | err c q => exact hg1
      | inexact => exact hg1
      | illFormed => exact hg1
      | ok h =>
        simp only
        cases step with
        | none => exact ih.2.2 x t h (.int 1) true body p _ hr.2 hg1
        | some se =>
          simp only
          cases AoR.Ref.evalE (s.set x l) se with
          | error o => exact hg1
          | ok sv =>
            simp only
            cases AoR.Ref.stepSign p sv with
            | error o => exact hg1
            | ok sg =>
              cases sg with
              | neg => exact ih.2.2 x t h sv false body p _ hr.2 hg1
              | pos => exact ih.2.2 x t h sv true body p _ hr.2 hg1
              | zero => exact hg1
  | «while» c body p =>
    have hr' := hr
    simp only [rangeB] at hr
    simp only [AoR.Ref.exec]
    cases AoR.Ref.evalCond s c with
    | error o => exact hg
    | ok b =>
      cases b with
      | false => exact hg
      | true =>
        simp only
        have h1 := ih.1 body s hr hg
        generalize AoR.Ref.exec fuel body s = rb at h1 ⊢
        obtain ⟨s1, o1⟩ := rb
        cases o1 <;> first | exact ih.1 (.while c body p) s1 hr' h1 | exact h1
  | doLoop c top until_ body p =>
    have hr' := hr
    simp only [rangeB] at hr
    simp only [AoR.Ref.exec]
    cases top with
    | true =>
      simp only [if_true]
      cases AoR.Ref.evalCond s c with
      | error o => exact hg
      | ok b =>
        simp only
        split
        · have h1 := ih.1 body s hr hg
          generalize AoR.Ref.exec fuel body s = rb at h1 ⊢
          obtain ⟨s1, o1⟩ := rb
          cases o1 <;> first | exact ih.1 (.doLoop c true until_ body p) s1 hr' h1 | exact h1
        · exact hg
    | false =>
      simp only [Bool.false_eq_true, if_false]
      have h1 := ih.1 body s hr hg
      generalize AoR.Ref.exec fuel body s = rb at h1 ⊢
      obtain ⟨s1, o1⟩ := rb
      cases o1 with
      | normal =>
        simp only
        cases AoR.Ref.evalCond s1 c with
        | error o => exact h1
        | ok b =>
          simp only
          split
          · exact ih.1 (.doLoop c false until_ body p) s1 hr' h1
          · exact h1
      | halted => exact h1
      | error c q => exact h1
      | inexact => exact h1
      | outOfFuel => exact h1
      | illFormed => exact h1
      | tooBig => exact h1

theorem pres_succ {fuel : Nat} (ih : Pres fuel) : Pres (fuel + 1) := by
  refine ⟨fun st s hr hg => exec_succ ih st s hr hg, ?_, ?_⟩
  · intro p subj cs s hr hg
    cases cs with
    | nil => simpa only [AoR.Ref.execCases] using hg
    | else_ body =>
      simp only [rangeCB] at hr
      simp only [AoR.Ref.execCases]
      exact ih.1 body s hr hg
    | case conds body rest =>
      simp only [rangeCB, Bool.and_eq_true] at hr
      simp only [AoR.Ref.execCases]
      cases AoR.Ref.anyMatches s p subj conds with
      | error o => exact hg
      | ok b =>
        cases b with
        | true => exact ih.1 body s hr.1 hg
        | false => exact ih.2.1 p subj rest s hr.2 hg
  · intro x t h sv up body p s hrb hg
    simp only [AoR.Ref.forIter]
    cases AoR.Ref.relTest p (if up then .lessOrEqual else .greaterOrEqual) (s.getS x t) h with
    | error o => exact hg
    | ok b =>
      cases b with
      | false => exact hg
      | true =>
        simp only
        have h1 := ih.1 body s hrb hg
        generalize AoR.Ref.exec fuel body s = rb at h1 ⊢
        obtain ⟨s1, o1⟩ := rb
        cases o1 with
        | normal =>
          simp only
          cases hinc : (plus (s1.getS x t) sv).bind (fun v => Num.cast v t) with
          | ok v =>
            simp only
            exact ih.2.2 x t h sv up body p _ hrb (h1.set x (RbThm.C06Core.increment_good _ sv v t hinc).2)
          | err e => exact h1
          | inexact => exact h1
        | halted => exact h1
        | error c q => exact h1
        | inexact => exact h1
        | outOfFuel => exact h1
        | illFormed => exact h1
        | tooBig => exact h1

theorem pres_all : ∀ fuel, Pres fuel
  | 0 => pres_zero
  | fuel + 1 => pres_succ (pres_all fuel)

/-- **`exec_range`** — the range half, for EVERY statement of the reference syntax (no typing premise), any amount of fuel,
**any outcome** (normal end, END, BASIC error, out of the exact float domain, out of fuel, a record / array used before its
DIM ran, an array beyond the size limit): if before the statement every scalar inside every variable and every array
element — at any nesting depth, stored or never touched — is within the range of its tag and the bounds of every array are
INTEGERs, then so it is afterwards.  Hypotheses: the literals of the stored expressions are values of their own types
(`rangeB`), the DATA items are in range (part of `Range`). -/
theorem exec_range (fuel : Nat) (st : Stmt) (s s' : St) (o : Outcome) (hr : rangeB st = true) (hg : Range s)
    (h : AoR.Ref.exec fuel st s = (s', o)) : Range s' := by
  have := (pres_all fuel).1 st s hr hg
  rw [h] at this
  exact this

/-! ### both halves together -/

/-- **the invariant**: every variable that exists and EVERY element of every dimensioned array has its declared type
(`AoRProps.Good`: a numeric field at any depth a scalar of the declared tag, a `STRING * n` location `n` characters), and
every scalar anywhere inside them is in range for its tag (`Range`) -/
structure Good (types : List FFields) (slots al : List ETy) (s : St) : Prop where
  typed : RbThm.AoRProps.Good types slots al s
  range : Range s

/-- **`exec_inrange`** — one statically typed statement keeps both halves, however it ends -/
theorem exec_inrange (fuel : Nat) (types : List FFields) (slots al : List ETy) (st : Stmt) (s s' : St) (o : Outcome)
    (hw : TypesWf types) (ht : RbThm.AoRProps.StmtTyped types slots al st) (hr : rangeB st = true)
    (hg : Good types slots al s) (h : AoR.Ref.exec fuel st s = (s', o)) : Good types slots al s' :=
  ⟨RbThm.AoRProps.exec_preserves_typing fuel types slots al st s s' o hw ht hg.typed h,
   exec_range fuel st s s' o hr hg.range h⟩

theorem range_init (P : Program) (hr : progRangeB P = true) : Range (AoR.Ref.St.init P) := by
  refine ⟨?_, ?_, ?_⟩
  · intro x v hx
    simp only [AoR.Ref.St.init, List.getElem?_map] at hx
    cases hs : P.slots[x]? with
    | none => simp [hs] at hx
    | some st =>
      cases st with
      | sc t =>
        simp only [hs, Option.map_some, AoR.Ref.initVar] at hx
        injection hx with hx; injection hx with hx; subst hx
        simp only [RangeRV]; exact zeroOf_inRange t
      | fix n => simp [hs, AoR.Ref.initVar] at hx
      | udt k => simp [hs, AoR.Ref.initVar] at hx
  · intro a A hA
    simp only [AoR.Ref.St.init, List.getElem?_map] at hA
    cases hx : P.arrs[a]? <;> simp [hx] at hA
  · simp only [progRangeB, Bool.and_eq_true, List.all_eq_true, decide_eq_true_eq] at hr
    exact hr.2

/-- **`run_inrange`** — whole programs with records, fixed-length strings and arrays of any declared element type: for
every fuel and **however the run ends** (normally, END, a BASIC error, `inexact`, `outOfFuel`, `illFormed`, `tooBig`), in
the state the run has reached every variable that exists and every element of every dimensioned array has its declared
type, and every numeric location — variable, record field at any depth, array element, field of an array element — holds a
value within the range of its type.  Since the statement holds for every fuel and the reference semantics is monotone in
fuel, it holds in every state the run passes through at a statement boundary. -/
theorem run_inrange (prog : SProgram) (fuel : Nat) (hw : RbThm.AoRSim.ProgWf prog)
    (hr : progRangeB prog.toAst = true) :
    Good prog.types prog.slots prog.arrs (AoR.Ref.run fuel prog.toAst).1 := by
  obtain ⟨htw, hst⟩ := RbThm.AoRSim.progWf_typed prog hw
  have hrb : rangeB (desugar prog.body) = true := by
    simp only [progRangeB, Bool.and_eq_true] at hr
    exact hr.1
  exact ⟨(RbThm.AoRProps.execOk_all (slots := prog.slots) (al := prog.arrs) htw fuel).1 (desugar prog.body)
      (AoR.Ref.St.init prog.toAst) hst (RbThm.AoRProps.good_init prog.toAst),
    (pres_all fuel).1 (desugar prog.body) (AoR.Ref.St.init prog.toAst) hrb (range_init prog.toAst hr)⟩

/-- `run_inrange` with both premises in their decidable forms (`aor.wf` is evaluated by the driver on every explored
program) -/
theorem run_inrange_checked (prog : SProgram) (fuel : Nat) (hw : AoR.progWfB prog = true)
    (hr : progRangeB prog.toAst = true) :
    Good prog.types prog.slots prog.arrs (AoR.Ref.run fuel prog.toAst).1 :=
  run_inrange prog fuel (RbThm.AoRSim.progWfB_sound prog hw) hr

/-! ### what `Good` says about the numeric locations -/

/-- **`var_inrange`** — a numeric variable / field `x`, `x.f`, `x.f.g`, … of declared type `t` (at any nesting depth):
whenever it can be read, it holds a scalar of type `t` within the range of `t` -/
theorem var_inrange {types : List FFields} {slots al : List ETy} {s : St} (hw : TypesWf types)
    (hg : Good types slots al s) {x : Nat} {path : List String} {t : Ty} {q : Pos} {v : RV}
    (hp : PathTyped types slots x path (.sc t))
    (hev : AoR.Ref.eval s.env s.arrs (.var x path (.sc t) q) = .ok v) : ∃ a, v = .sc a ∧ a.tag = t ∧ a.InRange := by
  obtain ⟨ft, hft, hv⟩ := RbThm.AoRTy.eval_typed hw hg.typed.2.1 hg.typed.2.2 (.var x path (.sc t) q) v
    (by simpa only [ExprTyped] using hp) hev
  simp only [AoR.Expr.ty, expand] at hft
  injection hft with hft; subst hft
  obtain ⟨a, rfl, hat⟩ := hasTy_sc hv
  have hr := eval_range hg.range.env hg.range.arrs (.var x path (.sc t) q) (.sc a) rfl hev
  exact ⟨a, rfl, hat, by simpa only [RangeRV] using hr⟩

/-- **`elem_inrange`** — a numeric array element / field of an array element `a(i…)`, `a(i…).f`, `a(i…).f.g`, … of declared
type `t`: whenever it can be read — WHATEVER the subscript expressions, also an element no statement ever stored to — it
holds a scalar of type `t` within the range of `t` -/
theorem elem_inrange {types : List FFields} {slots al : List ETy} {s : St} (hw : TypesWf types)
    (hg : Good types slots al s) {a : Nat} {idx : Exprs} {path : List String} {t : Ty} {q : Pos} {v : RV}
    (hp : ElemTyped types al a path (.sc t))
    (hev : AoR.Ref.eval s.env s.arrs (.elem a idx path (.sc t) q) = .ok v) :
    ∃ w, v = .sc w ∧ w.tag = t ∧ w.InRange := by
  have hr := eval_range hg.range.env hg.range.arrs (.elem a idx path (.sc t) q) v rfl hev
  obtain ⟨et, root, ft, h1, h2, h3, h4⟩ := hp
  simp only [AoR.Ref.eval] at hev
  obtain ⟨is, _, hev⟩ := eres_bind_ok hev
  obtain ⟨A, hA, hev⟩ := eres_bind_ok hev
  by_cases hb : A.inBounds is = true
  · simp only [hb, if_true] at hev
    obtain ⟨et', he1, he2, hty⟩ := hg.typed.2.2.2 a A (RbThm.AoRTy.getArr_ok hA)
    rw [h1] at he1; injection he1 with he1; subst he1
    rw [h2] at he2; injection he2 with he2
    obtain ⟨v', hv', hvt⟩ := hasTy_getPath path root ft (A.get is) (by rw [he2]; exact hty is) h3
    simp only [hv'] at hev
    injection hev with hev; subst hev
    cases ft with
    | sc t' =>
      simp only [FTy.flat] at h4; injection h4 with h4; subst h4
      obtain ⟨w, rfl, hwt⟩ := hasTy_sc hvt
      exact ⟨w, rfl, hwt, by simpa only [RangeRV] using hr⟩
    | fix m => simp [FTy.flat] at h4
    | udt k fs => simp [FTy.flat] at h4
  · simp [hb] at hev

/-- **`every_element_inrange`** — every element of every dimensioned array, at every index tuple (stored or never touched,
inside the box or not), is a value of the array's element type all of whose scalars are in range -/
theorem every_element_inrange {types : List FFields} {slots al : List ETy} {s : St} (hg : Good types slots al s)
    {a : Nat} {A : RArr} (hA : s.arrs[a]? = some (some A)) (is : List Int) :
    HasTy A.ty (A.get is) ∧ RangeRV (A.get is) := by
  obtain ⟨_, _, _, hty⟩ := hg.typed.2.2.2 a A hA
  exact ⟨hty is, (hg.range.arrs a A hA).elems is⟩

/-- **`bounds_inrange`** — the declared bounds of every dimensioned array are INTEGERs: what LBOUND / UBOUND return is in
range -/
theorem bounds_inrange {types : List FFields} {slots al : List ETy} {s : St} (hg : Good types slots al s)
    {a : Nat} {A : RArr} (hA : s.arrs[a]? = some (some A)) :
    ∀ b ∈ A.bounds, inIntRange b.1 = true ∧ inIntRange b.2 = true :=
  (hg.range.arrs a A hA).bounds

/-! ### what is stored in an element field is the conversion of the source value, or the run stops with the error -/

/-- **`elem_store_converts`** — `a(i…).f.g… = e` into a numeric location of type `t` (the element itself when the path is
empty, a field at any nesting depth otherwise), the subscripts evaluating to `is` inside the bounds of the dimensioned
array `A`: with `av` the (scalar) value of `e`, either the conversion of `av` to the location's type yields `w`, the array
with exactly that location of exactly that element replaced by `w` is what `a` is afterwards, and the location reads back
as `w`; or the conversion fails with `er` and the statement ends with the error code of `er` (Overflow = 6) at the position
of `e`, nothing stored; or the execution leaves the exact domain -/
theorem elem_store_converts (fuel a : Nat) (idx : Exprs) (path : List String) (t : Ty) (e : AoR.Expr) (p : Pos) (s : St)
    (av : Val) (is : List Int) (A : RArr) (hev : AoR.Ref.eval s.env s.arrs e = .ok (.sc av))
    (hi : AoR.Ref.evalIdx s.env s.arrs idx = .ok is) (hA : s.arrs[a]? = some (some A)) (hb : A.inBounds is = true) :
    (∃ w, fieldCast e.ty t av = .ok w ∧
      ∀ new, (A.get is).setPath path (.sc w) = some new →
        AoR.Ref.exec (fuel + 1) (.assignElem a idx path (.sc t) e p) s = (s.setArr a (A.set is new), .normal) ∧
        ((A.set is new).get is).getPath path = some (.sc w)) ∨
    (∃ er, fieldCast e.ty t av = .err er ∧
      AoR.Ref.exec (fuel + 1) (.assignElem a idx path (.sc t) e p) s = (s, .error (AoR.Ref.codeOf er) e.pos)) ∨
    (fieldCast e.ty t av = .inexact ∧
      AoR.Ref.exec (fuel + 1) (.assignElem a idx path (.sc t) e p) s = (s, .inexact)) := by
  have hga : AoR.Ref.getArr s.arrs a = .ok A := by simp [AoR.Ref.getArr, hA]
  unfold fieldCast
  by_cases hst : e.ty = .sc t
  · refine .inl ⟨av, by simp [hst], ?_⟩
    intro new hnew
    refine ⟨?_, ?_⟩
    · simp [AoR.Ref.exec, AoR.Ref.evalTo, hev, RecL.Ref.ERes.bind, RecL.Ref.conv, hst, hi, hga, hb, hnew]
    · rw [RbThm.AoRProps.get_set_same]
      exact RbThm.RecLProps.getPath_setPath_same _ _ _ _ hnew
  · simp only [hst, if_false]
    cases hc : Num.cast av t with
    | ok w =>
      refine .inl ⟨w, rfl, ?_⟩
      intro new hnew
      refine ⟨?_, ?_⟩
      · simp [AoR.Ref.exec, AoR.Ref.evalTo, hev, RecL.Ref.ERes.bind, RecL.Ref.conv, hst, hc, RecL.Ref.lift, hi, hga,
          hb, hnew]
      · rw [RbThm.AoRProps.get_set_same]
        exact RbThm.RecLProps.getPath_setPath_same _ _ _ _ hnew
    | err er =>
      exact .inr (.inl ⟨er, rfl, by
        simp [AoR.Ref.exec, AoR.Ref.evalTo, hev, RecL.Ref.ERes.bind, RecL.Ref.conv, hst, hc, RecL.Ref.lift,
          AoR.Ref.outcomeOf]⟩)
    | inexact =>
      exact .inr (.inr ⟨rfl, by
        simp [AoR.Ref.exec, AoR.Ref.evalTo, hev, RecL.Ref.ERes.bind, RecL.Ref.conv, hst, hc, RecL.Ref.lift,
          AoR.Ref.outcomeOf]⟩)

/-- the value an element store stores is of the location's type and in range (given the invariant) -/
theorem elem_store_typed {types : List FFields} {slots al : List ETy} {s : St} (hw : TypesWf types)
    (hg : Good types slots al s) (t : Ty) (e : AoR.Expr) (v : RV) (hwe : ExprTyped types slots al e)
    (hl : litsE e = true) (h : AoR.Ref.evalTo s.env s.arrs e (.sc t) = .ok v) :
    ∃ w, v = .sc w ∧ w.tag = t ∧ w.InRange := by
  have hvt := RbThm.AoRTy.evalTo_typed (ft := .sc t) hw hg.typed.2.1 hg.typed.2.2 hwe rfl h
  obtain ⟨w, rfl, hwt⟩ := hasTy_sc hvt
  have hr := evalTo_range hg.range.env hg.range.arrs hl h
  exact ⟨w, rfl, hwt, by simpa only [RangeRV] using hr⟩

/-- **Overflow instead of storing**: assigning a numeric value `q` of another static type to an INTEGER or LONG element /
element field stops with Overflow (6) at the expression exactly when `q` rounded to the nearest whole number (ties away from
zero) lies outside the location type's range — wherever the location sits, BEFORE the subscripts are looked at; otherwise
exactly that rounded number is the value the conversion yields -/
theorem elem_overflow_iff (fuel a : Nat) (idx : Exprs) (path : List String) (t : Ty) (e : AoR.Expr) (p : Pos) (s : St)
    (av : Val) (q : Rat) (lo hi : Int) (ht : tyBounds t = some (lo, hi)) (hne : e.ty ≠ .sc t)
    (hev : AoR.Ref.eval s.env s.arrs e = .ok (.sc av)) (hq : av.toRat? = some q) (hv : av.InRange) :
    (AoR.Ref.evalTo s.env s.arrs e (.sc t) = .err 6 e.pos ↔ ¬ (lo ≤ roundHA q ∧ roundHA q ≤ hi)) ∧
    (AoR.Ref.evalTo s.env s.arrs e (.sc t) = .err 6 e.pos →
      AoR.Ref.exec (fuel + 1) (.assignElem a idx path (.sc t) e p) s = (s, .error 6 e.pos)) ∧
    ((lo ≤ roundHA q ∧ roundHA q ≤ hi) →
      ∃ w, AoR.Ref.evalTo s.env s.arrs e (.sc t) = .ok (.sc w) ∧ w.tag = t ∧
        w.toRat? = some ((roundHA q : Int) : Rat)) := by
  have hov := cast_overflow_iff av t q lo hi ht hq hv
  have hto : AoR.Ref.evalTo s.env s.arrs e (.sc t) =
      (RecL.Ref.lift e.pos (Num.cast av t)).bind fun r => .ok (.sc r) := by
    simp [AoR.Ref.evalTo, hev, RecL.Ref.ERes.bind, RecL.Ref.conv, hne]
  refine ⟨?_, fun h => by simp [AoR.Ref.exec, h, AoR.Ref.outcomeOf], ?_⟩
  · rw [hto]
    cases hc : Num.cast av t with
    | ok w =>
      have hnot : ¬ Num.cast av t = .err .overflow := by rw [hc]; simp
      have hin : lo ≤ roundHA q ∧ roundHA q ≤ hi := Classical.not_not.mp (fun hn => hnot (hov.mpr hn))
      exact ⟨fun h => by simp [RecL.Ref.lift, RecL.Ref.ERes.bind] at h, fun h => absurd hin h⟩
    | err er =>
      by_cases hov' : er = .overflow
      · subst hov'
        exact ⟨fun _ => hov.mp hc, fun _ => rfl⟩
      · have hno : ¬ Num.cast av t = .err .overflow := by rw [hc]; simpa using hov'
        have hin : lo ≤ roundHA q ∧ roundHA q ≤ hi := Classical.not_not.mp (fun hn => hno (hov.mpr hn))
        exfalso
        cases t <;> simp only [tyBounds, reduceCtorEq] at ht <;>
          cases av <;> simp only [Val.toRat?, reduceCtorEq] at hq <;>
          simp only [Num.cast, castRound, Res.bind] at hc <;>
          (repeat' split at hc) <;> simp_all
    | inexact =>
      refine ⟨fun h => by simp [RecL.Ref.lift, RecL.Ref.ERes.bind] at h, fun h => ?_⟩
      have := hov.mpr h; rw [hc] at this; cases this
  · intro hin
    rw [hto]
    cases hc : Num.cast av t with
    | ok w => exact ⟨w, rfl, (cast_sound av t w hv hc).1, (cast_rounds av t w q lo hi ht hq hv hc).1⟩
    | err er =>
      exfalso
      by_cases hov' : er = .overflow
      · subst hov'; exact (hov.mp hc) hin
      · cases t <;> simp only [tyBounds, reduceCtorEq] at ht <;>
          cases av <;> simp only [Val.toRat?, reduceCtorEq] at hq <;>
          simp only [Num.cast, castRound, Res.bind] at hc <;>
          (repeat' split at hc) <;> simp_all
    | inexact =>
      exfalso
      cases t <;> simp only [tyBounds, reduceCtorEq] at ht <;>
        cases av <;> simp only [Val.toRat?, reduceCtorEq] at hq <;>
        simp only [Val.InRange] at hv <;>
        simp only [Num.cast, castRound, Res.bind, hv, if_true] at hc <;>
        (repeat' split at hc) <;> simp_all

/-! ### non-vacuity: an array of records with a nested record and a fixed-length string

    TYPE P : X AS INTEGER : Y AS LONG : END TYPE
    TYPE T : N AS INTEGER : S AS STRING * 3 : P AS P : END TYPE
    DIM A(1 TO 3) AS T
    A(2).P.Y = 70000.5     ' stores 70001 (ties away from zero) two levels below the element
    A(1).N = 2.5           ' stores 3
    A(3) = A(2)            ' whole-record element copy
    A(3).N = A(3).P.Y      ' 70001 into an INTEGER field of an element: Overflow (6), nothing stored
-/

def demoP : FFields := .cons "X" (.sc .int) (.cons "Y" (.sc .long) .nil)
def demoT : FFields := .cons "N" (.sc .int) (.cons "S" (.fix 3) (.cons "P" (.udt 0 demoP) .nil))

def demoHead (tail : SStmt) : SStmt :=
  .seq (.dimArr 0 (.udt 1) (.cons (some (.lit (.int 1) ⟨3, 7⟩)) (.lit (.int 3) ⟨3, 12⟩) .nil) ⟨3, 5⟩)
  (.seq (.assignElem 0 (.cons (.lit (.int 2) ⟨4, 3⟩) .nil) ["P", "Y"] (.sc .long) (.lit (.sgl (140001 / 2)) ⟨4, 12⟩) ⟨4, 1⟩)
  (.seq (.assignElem 0 (.cons (.lit (.int 1) ⟨5, 3⟩) .nil) ["N"] (.sc .int) (.lit (.sgl (5 / 2)) ⟨5, 10⟩) ⟨5, 1⟩)
  (.seq (.assignElem 0 (.cons (.lit (.int 3) ⟨6, 3⟩) .nil) [] (.udt 1)
          (.elem 0 (.cons (.lit (.int 2) ⟨6, 10⟩) .nil) [] (.udt 1) ⟨6, 8⟩) ⟨6, 1⟩)
    tail)))

/-- the whole program: ends with Overflow in line 7 -/
def demo : SProgram :=
  { types := [demoP, demoT], slots := [], arrs := [.udt 1],
    body := demoHead (.seq (.assignElem 0 (.cons (.lit (.int 3) ⟨7, 3⟩) .nil) ["N"] (.sc .int)
              (.elem 0 (.cons (.lit (.int 3) ⟨7, 12⟩) .nil) ["P", "Y"] (.sc .long) ⟨7, 10⟩) ⟨7, 1⟩) .skip) }

/-- without its last statement: ends normally -/
def demoOk : SProgram := { demo with body := demoHead .skip }

/-- the hypotheses of `run_inrange_checked` / `aor_run_inrange_checked` hold for both (both are decidable) -/
example : AoR.progWfB demo = true ∧ progRangeB demo.toAst = true := by constructor <;> decide +kernel
example : AoR.progWfB demoOk = true ∧ progRangeB demoOk.toAst = true := by constructor <;> decide +kernel

def isOverflowAt (o : Outcome) (row : Nat) : Bool :=
  match o with
  | .error 6 p => p.row == row
  | _ => false

def elemOf (s : St) (a : Nat) (is : List Int) (path : List String) : Option RV :=
  match s.arrs[a]? with
  | some (some A) => (A.get is).getPath path
  | _ => none

/-- the run of `demo` ends with Overflow at line 7 with `A(2).P.Y = 70001`, `A(1).N = 3`, `A(3).P.Y = 70001` (the copy),
`A(3).N = 0` (nothing stored) and the never-touched `A(1).P.Y = 0` -/
example : isOverflowAt (AoR.Ref.run 40 demo.toAst).2 7 = true ∧
    RbThm.C06RecL.isSc (elemOf (AoR.Ref.run 40 demo.toAst).1 0 [2] ["P", "Y"]) (.long 70001) = true ∧
    RbThm.C06RecL.isSc (elemOf (AoR.Ref.run 40 demo.toAst).1 0 [1] ["N"]) (.int 3) = true ∧
    RbThm.C06RecL.isSc (elemOf (AoR.Ref.run 40 demo.toAst).1 0 [3] ["P", "Y"]) (.long 70001) = true ∧
    RbThm.C06RecL.isSc (elemOf (AoR.Ref.run 40 demo.toAst).1 0 [3] ["N"]) (.int 0) = true ∧
    RbThm.C06RecL.isSc (elemOf (AoR.Ref.run 40 demo.toAst).1 0 [1] ["P", "Y"]) (.long 0) = true := by
  decide +kernel

example : (AoR.Ref.run 40 demoOk.toAst).2 matches .normal := by decide +kernel

end RbThm.C06AoR

/-! ### to the VM model, through the simulation theorem of the layer

**What transfers.**  `AoR.compile_correct` states the OUTPUT of the VM run for the outcomes normal / END / error.  The
statement-level theorem behind it (`StmtPost`) carries the full state relation `Rel` to the end of a statement that ends
NORMALLY only; for END and for a BASIC error it gives `HaltsWith` / `ErrsWith` (steps, the final step's answer, the output)
and no relation between the stores.  So: for a run whose reference outcome is `normal`, the VM model reaches the final
`Halt` in a state related to the reference's final state, and the invariant transfers to it — every VM variable and every
element of the index box of every VM array is a `Variant` tree that represents a typed, in-range value (`VmGood`).  For
runs that end with END or with an error the invariant is proved for the reference state (`run_inrange`) and only the
output is known to agree on the VM side. -/
namespace RbThm.C06AoR.ToVm
set_option linter.unusedVariables false
set_option linter.unusedSimpArgs false
open RbModel RbModel.Num RbModel.AoR RbModel.AoR.Compile RbModel.AoR.Vm
open RbModel.Ast (Pos)
open RbModel.RecL (ETy FTy FFields expand zeroOf)
open RbModel.RecL.Vm (allocTy defaultVar)
open RbThm.AoRSim RbThm.AoRLen
open RbThm.C06RecL (RangeRV)
open RbThm.C06RecL.ToVm (RangeV rangeV_of_rel)

/-- the invariant read on a state of the VM model: every variable is either still what `get_or_create` makes of a name
whose DIM has not run, or a `Variant` tree that represents (`ValRel`) a value of the variable's declared type all of whose
scalar leaves are in range; every array is either not dimensioned, or its dimensions are INTEGERs and every index tuple
of its box reads (through `abs_index`) a tree that represents a value of the element type all of whose scalar leaves —
the element itself, its fields at any nesting depth — are in range -/
structure VmGood (prog : SProgram) (τ : Vm) : Prop where
  vars : ∀ (x : Nat) (st : ETy), prog.slots[x]? = some st →
    τ.vars[x]? = some (defaultVar st) ∨
    ∃ (rv : RecL.Ref.RV) (w : ArrPath.Val) (ft : FTy), τ.vars[x]? = some w ∧ ValRel rv w ∧
      expand prog.types st = some ft ∧ HasTy ft rv ∧ RangeRV rv ∧ RangeV w
  arrs : ∀ (a : Nat) (et : ETy), prog.arrs[a]? = some et →
    τ.arrs[a]? = some none ∨
    ∃ (V : VArr) (ft : FTy), τ.arrs[a]? = some (some V) ∧ expand prog.types et = some ft ∧
      (∀ b ∈ V.dims, inIntRange b.1 = true ∧ inIntRange b.2 = true) ∧
      ∀ idx, InBox V.dims idx → ∃ (rv : RecL.Ref.RV) (w : ArrPath.Val), Arr.getElem V idx = some w ∧ ValRel rv w ∧
        HasTy ft rv ∧ RangeRV rv ∧ RangeV w

/-- `AoR.compile_correct` for a run that ends normally, keeping the state relation at the final `Halt` (the proof of
`AoRSim.compile_correct_of`, which states the output only) -/
theorem compile_correct_rel (prog : SProgram) (fuel : Nat) (hw : ProgWf prog) (s' : AoR.Ref.St)
    (hrun : AoR.Ref.run fuel prog.toAst = (s', .normal)) :
    ∃ τ, Steps (compile prog) (Vm.init prog.types prog.slots prog.arrs) τ ∧ Vm.step (compile prog) τ = .halt τ ∧
      Rel (progScope prog) s' τ := by
  have hst : ∀ fuel, StmtIH (compile prog) fuel := fun f => (ih_all (compile prog) f).stmt
  have hall2 : CodeAt (compile prog) 0
      (compileStmt "" 0 (seqOf (datas prog.body ++ others prog.body)) ++ [(.halt, maxPos)]) := by
    intro i _; rw [Nat.zero_add]; rfl
  have hbody := hall2.append_left
  rw [code_seqOf_append] at hbody
  have hcd := hbody.append_left
  have hco := hbody.append_right
  rw [len_stmt, Nat.zero_add] at hco
  have hhalt := hall2.append_right.head
  rw [len_stmt, size_seqOf_append, Nat.zero_add] at hhalt
  obtain ⟨σ1, st1, hp1, hd1, hcx1, hk1⟩ :=
    data_list (compile prog) "" (datas prog.body) (datas_isData prog.body) 0 (Vm.init prog.types prog.slots prog.arrs) hcd rfl
  rw [Nat.zero_add] at hp1
  have hdata : σ1.data = dataOf prog.body := by
    rw [hd1, ← dataOf_eq]; simp [Vm.init]
  have hrel : Rel (progScope prog) (AoR.Ref.St.init prog.toAst) σ1 := by
    refine ⟨hw.1, rfl, by rw [hk1.types]; rfl, by rw [hk1.vars]; exact varsRel_init prog.slots,
      by rw [hk1.arrs]; exact arrsRel_init prog.types prog.arrs,
      RbThm.RecLTy.typed_init prog.types prog.slots, RbThm.RecLTy.nonul_init prog.slots, by rw [hk1.out]; rfl, ?_,
      by rw [hk1.dataIdx]; rfl, by rw [hk1.queue]; rfl, by rw [hk1.funRes]; rfl, hw.2.2⟩
    rw [hdata]; rfl
  have hact : ActInv σ1 := ⟨by rw [hk1.skipNewline]; rfl⟩
  have hs : StmtPost (compile prog) (progScope prog) _ _ σ1
      (AoR.Ref.exec fuel (desugar prog.body) (AoR.Ref.St.init prog.toAst)) :=
    top_spec (compile prog) (progScope prog) hst prog.body hw.2.1 fuel _ (AoR.Ref.St.init prog.toAst) σ1 hco hp1 hrel hact
  rw [run_eq] at hrun
  rw [hrun] at hs
  obtain ⟨τ, st, hp, hrel', _⟩ := hs
  refine ⟨τ, st1.trans st, ?_, hrel'⟩
  have : (compile prog)[τ.pc]? = some (CInstr.halt, maxPos) := by rw [hp]; exact hhalt
  simp only [Vm.step, this]

/-- the state relation of the simulation carries the invariant over -/
theorem vmGood_of_rel (prog : SProgram) (s' : AoR.Ref.St) (τ : Vm) (hrel : Rel (progScope prog) s' τ)
    (hg : RbThm.C06AoR.Good prog.types prog.slots prog.arrs s') : VmGood prog τ := by
  refine ⟨?_, ?_⟩
  · intro x st hx
    rcases hrel.vars.at_ x st hx with ⟨_, h2⟩ | ⟨rv, w, h1, h2, h3⟩
    · exact .inl h2
    · obtain ⟨st', ft, hs1, hs2, hs3⟩ := hg.typed.2.1.2 x rv h1
      have : st' = st := by
        rw [hx] at hs1; injection hs1 with hs1; exact hs1.symm
      subst this
      have hr := hg.range.env x rv h1
      exact .inr ⟨rv, w, ft, h2, h3, hs2, hs3, hr, rangeV_of_rel rv w h3 hr⟩
  · intro a et ha
    rcases hrel.arrs.at_ a et ha with ⟨_, h2⟩ | ⟨A, V, ft, h1, h2, h3, h4⟩
    · exact .inl h2
    · have hA := hg.range.arrs a A h1
      refine .inr ⟨V, ft, h2, h3, by rw [h4.dims]; exact hA.bounds, ?_⟩
      intro idx hidx
      obtain ⟨w, hw1, hw2⟩ := h4.get idx (by rw [← h4.dims]; exact hidx)
      exact ⟨A.get idx, w, hw1, hw2, h4.typed idx, hA.elems idx, rangeV_of_rel _ w hw2 (hA.elems idx)⟩

/-- **`aor_run_inrange`** — corollary over the simulation theorem of the layer (`AoR.compile_correct`, `Thm/AoRSim.lean`):
when the reference run of a well-formed program ends normally, the VM model running the code the generator model emits
reaches `Halt` with the same output, and in that state every variable and every element of every array is a `Variant`
tree whose numeric leaves — variables, record fields at any depth, array elements, fields of array elements — have their
declared type and are within that type's range -/
theorem aor_run_inrange (prog : SProgram) (fuel : Nat) (hw : ProgWf prog)
    (hr : RbThm.C06AoR.progRangeB prog.toAst = true) :
    match AoR.Ref.run fuel prog.toAst with
    | (s', .normal) => ∃ τ, Steps (compile prog) (Vm.init prog.types prog.slots prog.arrs) τ ∧
        Vm.step (compile prog) τ = .halt τ ∧ τ.out = s'.out ∧ VmGood prog τ
    | _ => True := by
  have h2 := RbThm.C06AoR.run_inrange prog fuel hw hr
  generalize hrun : AoR.Ref.run fuel prog.toAst = r at h2
  obtain ⟨s', o⟩ := r
  cases o with
  | normal =>
    obtain ⟨τ, st, hh, hrel⟩ := compile_correct_rel prog fuel hw s' hrun
    exact ⟨τ, st, hh, hrel.out, vmGood_of_rel prog s' τ hrel h2⟩
  | halted => trivial
  | error c p => trivial
  | inexact => trivial
  | outOfFuel => trivial
  | illFormed => trivial
  | tooBig => trivial

/-- `aor_run_inrange` for the bounded interpreter `AoR.Vm.run` the correspondence check executes against the real VM, with
the premises in their decidable forms -/
theorem aor_run_inrange_checked (prog : SProgram) (fuel : Nat) (hw : AoR.progWfB prog = true)
    (hr : RbThm.C06AoR.progRangeB prog.toAst = true) :
    match AoR.Ref.run fuel prog.toAst with
    | (s', .normal) => ∃ n υ, (∀ m, n ≤ m →
          Vm.run (compile prog) m (Vm.init prog.types prog.slots prog.arrs) = .halted υ) ∧
        υ.out = s'.out ∧ VmGood prog υ
    | _ => True := by
  have h := aor_run_inrange prog fuel (progWfB_sound prog hw) hr
  generalize AoR.Ref.run fuel prog.toAst = r at h ⊢
  obtain ⟨s', o⟩ := r
  cases o with
  | normal =>
    obtain ⟨τ, st, hh, ho, hg⟩ := h
    obtain ⟨n, hn⟩ := run_of_steps _ st hh
    exact ⟨n, τ, hn, ho, hg⟩
  | halted => trivial
  | error c p => trivial
  | inexact => trivial
  | outOfFuel => trivial
  | illFormed => trivial
  | tooBig => trivial

/-- non-vacuity: `demoOk` is in the `normal` branch, so its VM run halts in a `VmGood` state -/
example : ∃ n υ, (∀ m, n ≤ m → Vm.run (compile RbThm.C06AoR.demoOk) m
      (Vm.init RbThm.C06AoR.demoOk.types RbThm.C06AoR.demoOk.slots RbThm.C06AoR.demoOk.arrs) = .halted υ) ∧
    VmGood RbThm.C06AoR.demoOk υ := by
  have h := aor_run_inrange_checked RbThm.C06AoR.demoOk 40 (by decide +kernel) (by decide +kernel)
  generalize hr : AoR.Ref.run 40 RbThm.C06AoR.demoOk.toAst = r at h
  have h2 : r.2 matches .normal := by rw [← hr]; decide +kernel
  obtain ⟨s', o⟩ := r
  cases o <;> simp at h2
  obtain ⟨n, υ, hn, _, hg⟩ := h
  exact ⟨n, υ, hn, hg⟩

end RbThm.C06AoR.ToVm
