import Thm.C06ProcArrBase
/-!
C06 over the combined layer: the invariant along every run — one induction on fuel over the whole mutual block of
`RbModel.ProcArr.Ref` (fifteen functions), every outcome.
-/
namespace RbThm.C06ProcArr
set_option linter.unusedVariables false
set_option linter.unusedSimpArgs false
open RbModel RbModel.Num RbModel.ProcArr RbModel.ProcArr.Ref
open RbModel.Ast (Pos)
open RbThm.C06
open RbThm.ProcArrSim (EWf IdxWf AWf DimsWf ItemsWf CaseWf CondsWf SelRelOp Typed)
open RbThm.C06ArrL (GoodArr GoodArrs)

/-- preservation at a given amount of fuel, for the fifteen mutually recursive functions, for every outcome -/
structure Pres (P : Program) (sg : Sigs) (n : Nat) : Prop where
  eval : ∀ (sl al : List Ty) (e : ProcArr.Expr) (s : St), Good P sl al s → EWf sg (tabs P sl al) e → litsE e = true →
    PostE P sl al (fun v => v.tag = e.ty ∧ v.InRange) (ProcArr.Ref.eval P n e s)
  evalIdx : ∀ (sl al : List Ty) (idx : Exprs) (s : St), Good P sl al s → IdxWf sg (tabs P sl al) idx →
    litsX idx = true → PostE P sl al (fun _ => True) (evalIdx P n idx s)
  evalElem : ∀ (sl al : List Ty) (a : Nat) (t : Ty) (idx : Exprs) (p : Pos) (s : St), Good P sl al s →
    al[a]? = some t → IdxWf sg (tabs P sl al) idx → litsX idx = true →
    PostE P sl al (fun r => r.1.tag = t ∧ r.1.InRange) (evalElem P n a idx p s)
  evalTo : ∀ (sl al : List Ty) (e : ProcArr.Expr) (t : Ty) (s : St), Good P sl al s → EWf sg (tabs P sl al) e →
    litsE e = true → PostE P sl al (fun v => v.tag = t ∧ v.InRange) (evalTo P n e t s)
  evalArg : ∀ (sl al : List Ty) (e : ProcArr.Expr) (pt : Ty) (s : St), Good P sl al s → EWf sg (tabs P sl al) e →
    (e.isRef = true → e.ty = pt) → litsE e = true →
    PostE P sl al (fun av => av.1.tag = pt ∧ av.1.InRange ∧ LocA e av.2) (evalArg P n e pt s)
  evalArgs : ∀ (sl al : List Ty) (cs : Bool) (a : Args) (s : St), Good P sl al s → AWf sg (tabs P sl al) cs a →
    litsA a = true →
    PostE P sl al (fun avs => avs.map (fun av => av.1.tag) = a.params.map (·.2) ∧ (∀ av ∈ avs, av.1.InRange) ∧
      LocsA a avs) (evalArgs P n a s)
  evalDims : ∀ (sl al : List Ty) (dims : Dims) (s : St), Good P sl al s → DimsWf sg (tabs P sl al) dims →
    litsD dims = true → PostE P sl al (fun bs => ∀ b ∈ bs, b.1.InRange ∧ b.2.InRange) (evalDims P n dims s)
  call : ∀ (sl al : List Ty) (f : Nat) (a : Args) (cs : Bool) (res : Option Ty) (s : St), Good P sl al s →
    sg[f]? = some (res, a.params) → AWf sg (tabs P sl al) cs a → litsA a = true →
    PostE P sl al (fun v => ∀ t, res = some t → v.tag = t ∧ v.InRange) (call P n f a s)
  printItems : ∀ (sl al : List Ty) (items : List PrintItem) (s : St), Good P sl al s →
    ItemsWf sg (tabs P sl al) items → items.all litsItem = true → PostO P sl al (printItems P n items s)
  evalCond : ∀ (sl al : List Ty) (c : ProcArr.Expr) (s : St), Good P sl al s → EWf sg (tabs P sl al) c →
    litsE c = true → PostE P sl al (fun _ => True) (evalCond P n c s)
  caseMatches : ∀ (sl al : List Ty) (p : Pos) (subj : Val) (c : CaseExpr) (s : St), Good P sl al s →
    CaseWf sg (tabs P sl al) c → litsCase c = true → PostE P sl al (fun _ => True) (caseMatches P n p subj c s)
  anyMatches : ∀ (sl al : List Ty) (p : Pos) (subj : Val) (cs : List CaseExpr) (s : St), Good P sl al s →
    CondsWf sg (tabs P sl al) cs → cs.all litsCase = true → PostE P sl al (fun _ => True) (anyMatches P n p subj cs s)
  exec : ∀ (sl al : List Ty) (st : Stmt) (s : St), Good P sl al s → WfA sg (tabs P sl al) st → rangeB st = true →
    PostO P sl al (exec P n st s)
  execCases : ∀ (sl al : List Ty) (p : Pos) (subj : Val) (cs : Cases) (s : St), Good P sl al s →
    WfAC sg (tabs P sl al) cs → rangeCB cs = true → PostO P sl al (execCases P n p subj cs s)
  forIter : ∀ (sl al : List Ty) (x : Var) (t : Ty) (hh sv : Val) (up : Bool) (body : Stmt) (p : Pos) (s : St),
    Good P sl al s → (tabs P sl al).get? x = some t → WfA sg (tabs P sl al) body → rangeB body = true →
    PostO P sl al (forIter P n x t hh sv up body p s)

theorem pres_zero (P : Program) (sg : Sigs) : Pres P sg 0 := by
  constructor
  · intro sl al e s hg _ _; simp only [ProcArr.Ref.eval]; exact ⟨hg.anyScope, rfl⟩
  · intro sl al idx s hg _ _; simp only [evalIdx]; exact ⟨hg.anyScope, rfl⟩
  · intro sl al a t idx p s hg _ _ _; simp only [evalElem]; exact ⟨hg.anyScope, rfl⟩
  · intro sl al e t s hg _ _; simp only [evalTo]; exact ⟨hg.anyScope, rfl⟩
  · intro sl al e pt s hg _ _ _; simp only [evalArg]; exact ⟨hg.anyScope, rfl⟩
  · intro sl al cs a s hg _ _; simp only [evalArgs]; exact ⟨hg.anyScope, rfl⟩
  · intro sl al dims s hg _ _; simp only [evalDims]; exact ⟨hg.anyScope, rfl⟩
  · intro sl al f a cs res s hg _ _ _; simp only [call]; exact ⟨hg.anyScope, rfl⟩
  · intro sl al items s hg _ _; simp only [printItems]; exact hg.anyScope
  · intro sl al c s hg _ _; simp only [evalCond]; exact ⟨hg.anyScope, rfl⟩
  · intro sl al p subj c s hg _ _; simp only [caseMatches]; exact ⟨hg.anyScope, rfl⟩
  · intro sl al p subj cs s hg _ _; simp only [anyMatches]; exact ⟨hg.anyScope, rfl⟩
  · intro sl al st s hg _ _; simp only [exec]; exact hg.anyScope
  · intro sl al p subj cs s hg _ _; simp only [execCases]; exact hg.anyScope
  · intro sl al x t hh sv up body p s hg _ _ _; simp only [forIter]; exact hg.anyScope

section step
variable {P : Program} {sg : Sigs} {n : Nat}

theorem step_eval (ih : Pres P sg n) : ∀ (sl al : List Ty) (e : ProcArr.Expr) (s : St), Good P sl al s →
    EWf sg (tabs P sl al) e → litsE e = true →
    PostE P sl al (fun v => v.tag = e.ty ∧ v.InRange) (ProcArr.Ref.eval P (n + 1) e s) := by
  intro sl al e s hg hw hl
  cases e with
  | lit v p =>
    simp only [litsE, decide_eq_true_eq] at hl
    simp only [ProcArr.Ref.eval]
    exact ⟨hg, rfl, hl⟩
  | var x t p =>
    simp only [EWf] at hw
    simp only [ProcArr.Ref.eval]
    exact ⟨hg, hg.get hw⟩
  | un op e p =>
    simp only [EWf] at hw
    simp only [litsE] at hl
    have h1 := ih.eval sl al e s hg hw hl
    simp only [ProcArr.Ref.eval]
    generalize ProcArr.Ref.eval P n e s = r at h1 ⊢
    obtain ⟨s1, r1⟩ := r
    cases r1 with
    | error o => exact h1
    | ok v =>
      obtain ⟨hg1, ht, hr⟩ := h1
      refine postE_liftR hg1 p _ ?_
      intro w hw'
      cases op with
      | neg => obtain ⟨a, b⟩ := negate_typed v w hr hw'; exact ⟨by rw [a]; exact ht, b⟩
      | not => obtain ⟨a, b⟩ := unaryNot_typed v w hr hw'; exact ⟨by rw [a]; exact ht, b⟩
  | bin op l r t p =>
    simp only [EWf] at hw
    simp only [litsE, Bool.and_eq_true] at hl
    obtain ⟨hwl, hwr, hop⟩ := hw
    have h1 := ih.eval sl al l s hg hwl hl.1
    simp only [ProcArr.Ref.eval]
    generalize ProcArr.Ref.eval P n l s = r1 at h1 ⊢
    obtain ⟨s1, r1⟩ := r1
    cases r1 with
    | error o => exact h1
    | ok a =>
      obtain ⟨hg1, hta, hra⟩ := h1
      have h2 := ih.eval sl al r s1 hg1 hwr hl.2
      simp only
      generalize ProcArr.Ref.eval P n r s1 = r2 at h2 ⊢
      obtain ⟨s2, r2⟩ := r2
      cases r2 with
      | error o => exact h2
      | ok b =>
        obtain ⟨hg2, htb, hrb⟩ := h2
        refine postE_liftR hg2 p _ ?_
        intro w hw'
        exact ⟨RbThm.ProcArrSim.binStep_tag op l r t a b w hta htb hop hw',
          RbThm.C06Core.binStep_inRange op t a b w hra hrb hw'⟩
  | paren e p =>
    simp only [EWf] at hw
    simp only [litsE] at hl
    simp only [ProcArr.Ref.eval]
    exact ih.eval sl al e s hg hw hl
  | callFn f args t p =>
    simp only [EWf] at hw
    simp only [litsE] at hl
    simp only [ProcArr.Ref.eval]
    exact (ih.call sl al f args _ (some t) s hg hw.1 hw.2 hl).mono (fun v hv => hv t rfl)
  | elem a idx t p =>
    simp only [EWf] at hw
    simp only [litsE] at hl
    have h1 := ih.evalElem sl al a t idx p s hg hw.1 hw.2.2 hl
    simp only [ProcArr.Ref.eval]
    generalize evalElem P n a idx p s = r at h1 ⊢
    obtain ⟨s1, r1⟩ := r
    cases r1 with
    | error o => exact h1
    | ok vi => obtain ⟨v, is⟩ := vi; exact h1

theorem step_evalIdx (ih : Pres P sg n) : ∀ (sl al : List Ty) (idx : Exprs) (s : St), Good P sl al s →
    IdxWf sg (tabs P sl al) idx → litsX idx = true → PostE P sl al (fun _ => True) (evalIdx P (n + 1) idx s) := by
  intro sl al idx s hg hw hl
  cases idx with
  | nil => simp only [evalIdx]; exact ⟨hg, trivial⟩
  | cons e rest =>
    simp only [IdxWf] at hw
    simp only [litsX, Bool.and_eq_true] at hl
    have h1 := ih.evalTo sl al e .int s hg hw.1 hl.1
    simp only [evalIdx]
    generalize evalTo P n e .int s = r at h1 ⊢
    obtain ⟨s1, r1⟩ := r
    cases r1 with
    | error o => exact h1
    | ok v =>
      cases v with
      | int i =>
        have h2 := ih.evalIdx sl al rest s1 h1.1 hw.2.2 hl.2
        simp only
        generalize evalIdx P n rest s1 = r2 at h2 ⊢
        obtain ⟨s2, r2⟩ := r2
        cases r2 with
        | error o => exact h2
        | ok is => exact ⟨h2.1, trivial⟩
      | long _ => exact ⟨h1.1.anyScope, rfl⟩
      | sgl _ => exact ⟨h1.1.anyScope, rfl⟩
      | dbl _ => exact ⟨h1.1.anyScope, rfl⟩
      | str _ => exact ⟨h1.1.anyScope, rfl⟩

theorem step_evalElem (ih : Pres P sg n) : ∀ (sl al : List Ty) (a : Nat) (t : Ty) (idx : Exprs) (p : Pos) (s : St),
    Good P sl al s → al[a]? = some t → IdxWf sg (tabs P sl al) idx → litsX idx = true →
    PostE P sl al (fun r => r.1.tag = t ∧ r.1.InRange) (evalElem P (n + 1) a idx p s) := by
  intro sl al a t idx p s hg ha hw hl
  have h1 := ih.evalIdx sl al idx s hg hw hl
  simp only [evalElem]
  generalize evalIdx P n idx s = r at h1 ⊢
  obtain ⟨s1, r1⟩ := r
  cases r1 with
  | error o => exact h1
  | ok is =>
    simp only
    cases hre : s1.readElem a is p with
    | ok v => exact ⟨h1.1, h1.1.readElem ha is p v hre⟩
    | error o => exact ⟨h1.1.anyScope, RbThm.ProcArrProps.readElem_err hre⟩

theorem step_evalTo (ih : Pres P sg n) : ∀ (sl al : List Ty) (e : ProcArr.Expr) (t : Ty) (s : St), Good P sl al s →
    EWf sg (tabs P sl al) e → litsE e = true →
    PostE P sl al (fun v => v.tag = t ∧ v.InRange) (evalTo P (n + 1) e t s) := by
  intro sl al e t s hg hw hl
  have h1 := ih.eval sl al e s hg hw hl
  simp only [evalTo]
  generalize ProcArr.Ref.eval P n e s = r at h1 ⊢
  obtain ⟨s1, r1⟩ := r
  cases r1 with
  | error o => exact h1
  | ok v =>
    obtain ⟨hg1, ht, hr⟩ := h1
    exact postE_liftR hg1 e.pos _ (fun w hw' => storeCast_typed e.ty t v w ht hr hw')

/-- the by-value route of `evalArg` (everything but an array element) -/
theorem evalArg_byTo (ih : Pres P sg n) (sl al : List Ty) (e : ProcArr.Expr) (pt : Ty) (s : St) (hg : Good P sl al s)
    (hw : EWf sg (tabs P sl al) e) (hl : litsE e = true) (hne : e.isElem = false) :
    PostE P sl al (fun av => av.1.tag = pt ∧ av.1.InRange ∧ LocA e av.2)
      (match evalTo P n e pt s with
        | (s1, .error o) => (s1, .error o)
        | (s1, .ok v) => (s1, .ok (v, none))) := by
  have h1 := ih.evalTo sl al e pt s hg hw hl
  generalize evalTo P n e pt s = r at h1 ⊢
  obtain ⟨s1, r1⟩ := r
  cases r1 with
  | error o => exact h1
  | ok v =>
    refine ⟨h1.1, h1.2.1, h1.2.2, ?_⟩
    cases e <;> first | trivial | (simp [Expr.isElem] at hne)

theorem step_evalArg (ih : Pres P sg n) : ∀ (sl al : List Ty) (e : ProcArr.Expr) (pt : Ty) (s : St), Good P sl al s →
    EWf sg (tabs P sl al) e → (e.isRef = true → e.ty = pt) → litsE e = true →
    PostE P sl al (fun av => av.1.tag = pt ∧ av.1.InRange ∧ LocA e av.2) (evalArg P (n + 1) e pt s) := by
  intro sl al e pt s hg hw href hl
  cases e with
  | elem a idx t p =>
    simp only [EWf] at hw
    simp only [litsE] at hl
    have h1 := ih.evalElem sl al a t idx p s hg hw.1 hw.2.2 hl
    simp only [evalArg]
    generalize evalElem P n a idx p s = r at h1 ⊢
    obtain ⟨s1, r1⟩ := r
    cases r1 with
    | error o => exact h1
    | ok vi =>
      obtain ⟨v, is⟩ := vi
      obtain ⟨hg1, ht, hr⟩ := h1
      simp only
      cases hsc : storeCast t pt v with
      | ok w =>
        simp only [liftR]
        obtain ⟨a1, a2⟩ := storeCast_typed t pt v w ht hr hsc
        exact ⟨hg1, a1, a2, rfl⟩
      | err er => simp only [liftR]; exact ⟨hg1.anyScope, rfl⟩
      | inexact => simp only [liftR]; exact ⟨hg1.anyScope, rfl⟩
  | lit v p => simp only [evalArg]; exact evalArg_byTo ih sl al _ pt s hg hw hl rfl
  | var x t p => simp only [evalArg]; exact evalArg_byTo ih sl al _ pt s hg hw hl rfl
  | un op e p => simp only [evalArg]; exact evalArg_byTo ih sl al _ pt s hg hw hl rfl
  | bin op l r t p => simp only [evalArg]; exact evalArg_byTo ih sl al _ pt s hg hw hl rfl
  | paren e p => simp only [evalArg]; exact evalArg_byTo ih sl al _ pt s hg hw hl rfl
  | callFn f a t p => simp only [evalArg]; exact evalArg_byTo ih sl al _ pt s hg hw hl rfl

theorem step_evalArgs (ih : Pres P sg n) : ∀ (sl al : List Ty) (cs : Bool) (a : Args) (s : St), Good P sl al s →
    AWf sg (tabs P sl al) cs a → litsA a = true →
    PostE P sl al (fun avs => avs.map (fun av => av.1.tag) = a.params.map (·.2) ∧ (∀ av ∈ avs, av.1.InRange) ∧
      LocsA a avs) (evalArgs P (n + 1) a s) := by
  intro sl al cs a s hg hw hl
  cases a with
  | nil => simp only [evalArgs]; exact ⟨hg, rfl, (fun v hv => by cases hv), trivial⟩
  | cons e pn pt rest =>
    simp only [AWf] at hw
    simp only [litsA, Bool.and_eq_true] at hl
    have h1 := ih.evalArg sl al e pt s hg hw.1 hw.2.1 hl.1
    simp only [evalArgs]
    generalize evalArg P n e pt s = r at h1 ⊢
    obtain ⟨s1, r1⟩ := r
    cases r1 with
    | error o => exact h1
    | ok v =>
      obtain ⟨hg1, ht, hr, hla⟩ := h1
      have h2 := ih.evalArgs sl al cs rest s1 hg1 hw.2.2.2 hl.2
      simp only
      generalize evalArgs P n rest s1 = r2 at h2 ⊢
      obtain ⟨s2, r2⟩ := r2
      cases r2 with
      | error o => exact h2
      | ok vs =>
        obtain ⟨hg2, hts, hrs, hlas⟩ := h2
        refine ⟨hg2, ?_, ?_, ⟨hla, hlas⟩⟩
        · simp only [List.map_cons, Args.params, ht, hts]
        · intro w hw'
          rcases List.mem_cons.mp hw' with rfl | hw'
          · exact hr
          · exact hrs w hw'

theorem step_evalDims (ih : Pres P sg n) : ∀ (sl al : List Ty) (dims : Dims) (s : St), Good P sl al s →
    DimsWf sg (tabs P sl al) dims → litsD dims = true →
    PostE P sl al (fun bs => ∀ b ∈ bs, b.1.InRange ∧ b.2.InRange) (evalDims P (n + 1) dims s) := by
  intro sl al dims s hg hw hl
  -- the part after the lower bound, common to both forms
  have tail : ∀ (hi : ProcArr.Expr) (rest : Dims) (s1 : St) (l : Val), Good P sl al s1 → l.InRange →
      EWf sg (tabs P sl al) hi → litsE hi = true → DimsWf sg (tabs P sl al) rest → litsD rest = true →
      PostE P sl al (fun bs => ∀ b ∈ bs, b.1.InRange ∧ b.2.InRange)
        (match ProcArr.Ref.eval P n hi s1 with
          | (s2, .error o) => (s2, .error o)
          | (s2, .ok h) =>
            match evalDims P n rest s2 with
            | (s3, .error o) => (s3, .error o)
            | (s3, .ok ds) => (s3, .ok ((l, h) :: ds))) := by
    intro hi rest s1 l hg1 hlr hwhi hlhi hwr hlr'
    have h2 := ih.eval sl al hi s1 hg1 hwhi hlhi
    generalize ProcArr.Ref.eval P n hi s1 = r2 at h2 ⊢
    obtain ⟨s2, r2⟩ := r2
    cases r2 with
    | error o => exact h2
    | ok h =>
      obtain ⟨hg2, _, hhr⟩ := h2
      have h3 := ih.evalDims sl al rest s2 hg2 hwr hlr'
      simp only
      generalize evalDims P n rest s2 = r3 at h3 ⊢
      obtain ⟨s3, r3⟩ := r3
      cases r3 with
      | error o => exact h3
      | ok ds =>
        refine ⟨h3.1, ?_⟩
        intro b hb
        rcases List.mem_cons.mp hb with rfl | hb
        · exact ⟨hlr, hhr⟩
        · exact h3.2 b hb
  cases dims with
  | nil => simp only [evalDims]; exact ⟨hg, fun b hb => by cases hb⟩
  | cons lo hi rest =>
    cases lo with
    | none =>
      simp only [DimsWf] at hw
      simp only [litsD, Bool.and_eq_true] at hl
      simp only [evalDims]
      exact tail hi rest s (.int 0) hg (by decide) hw.1 hl.1.2 hw.2.2 hl.2
    | some lo =>
      simp only [DimsWf] at hw
      simp only [litsD, Bool.and_eq_true] at hl
      have h1 := ih.eval sl al lo s hg hw.1 hl.1.1
      simp only [evalDims]
      generalize ProcArr.Ref.eval P n lo s = r1 at h1 ⊢
      obtain ⟨s1, r1⟩ := r1
      cases r1 with
      | error o => exact h1
      | ok l => exact tail hi rest s1 l h1.1 h1.2.2 hw.2.2.1 hl.1.2 hw.2.2.2.2 hl.2

theorem sig_of_proc {P : Program} {sg : Sigs} (hP : ProcsGood P sg) {f : Nat} {d : ProcDecl Stmt}
    (hd : P.procs[f]? = some d) {res : Option Ty} {ps : List (String × Ty)} (h : sg[f]? = some (res, ps)) :
    res = d.result ∧ ps = d.params := by
  rw [hP.sgEq] at h
  simp only [sigsOf, List.getElem?_map, hd, Option.map_some, Option.some.injEq, Prod.mk.injEq] at h
  exact ⟨h.1.symm, h.2.symm⟩

theorem step_call (hP : ProcsGood P sg) (ih : Pres P sg n) : ∀ (sl al : List Ty) (f : Nat) (a : Args) (cs : Bool)
    (res : Option Ty) (s : St), Good P sl al s → sg[f]? = some (res, a.params) → AWf sg (tabs P sl al) cs a →
    litsA a = true →
    PostE P sl al (fun v => ∀ t, res = some t → v.tag = t ∧ v.InRange) (call P (n + 1) f a s) := by
  intro sl al f a cs res s hg hsg haw hl
  simp only [call]
  cases hd : P.procs[f]? with
  | none => exact ⟨hg.anyScope, rfl⟩
  | some d =>
    obtain ⟨hso, hwb, hrb⟩ := hP.procs f d hd
    obtain ⟨hres, hps⟩ := sig_of_proc hP hd hsg
    have h1 := ih.evalArgs sl al cs a s hg haw hl
    simp only
    generalize evalArgs P n a s = r at h1 ⊢
    obtain ⟨s1, r1⟩ := r
    cases r1 with
    | error o => exact h1
    | ok avs =>
      obtain ⟨hg1, htags, hrs, hlas⟩ := h1
      have htags' : (avs.map (·.1)).map Val.tag = d.params.map (·.2) := by
        rw [List.map_map, ← hps, ← htags]; rfl
      have hrs' : ∀ v ∈ avs.map (·.1), v.InRange := by
        intro v hv
        simp only [List.mem_map] at hv
        obtain ⟨av, hav, rfl⟩ := hv
        exact hrs av hav
      have hgE := good_enter hP hg1 hd (avs.map (·.1)) htags' hrs'
      have h2 := ih.exec d.slots d.arrs d.body _ hgE hwb hrb
      simp only
      generalize exec P n d.body (enter d f (avs.map (·.1)) s1) = r2 at h2 ⊢
      obtain ⟨s2, o⟩ := r2
      simp only
      by_cases hret : returns o = true
      · rw [if_pos hret]
        have hg2 : Good P d.slots d.arrs s2 := by
          cases o <;> first | exact h2 | (simp [returns] at hret)
        have hg3 := good_return hg1 hg2
        refine ⟨byref_writeback_inrange (sg := sg) hg2.loc a avs 0 _ hg3 haw hlas ?_, ?_⟩
        · intro j pn pt hj
          rw [hps] at hj
          simpa using hso.1 j pn pt hj
        · intro t ht
          rw [hres] at ht
          simp only [ht]
          exact hg2.loc.getD (hso.2 t ht) _
      · rw [if_neg hret]
        exact ⟨h2.any, by simpa using hret⟩

theorem step_printItems (ih : Pres P sg n) : ∀ (sl al : List Ty) (items : List PrintItem) (s : St), Good P sl al s →
    ItemsWf sg (tabs P sl al) items → items.all litsItem = true → PostO P sl al (printItems P (n + 1) items s) := by
  intro sl al items s hg hw hl
  match items with
  | [] => simp only [printItems]; exact hg
  | .comma :: rest =>
    simp only [ItemsWf] at hw
    simp only [List.all_cons, Bool.and_eq_true] at hl
    simp only [printItems]
    exact ih.printItems sl al rest _ (hg.congr rfl rfl rfl rfl rfl rfl) hw hl.2
  | .semicolon :: rest =>
    simp only [ItemsWf] at hw
    simp only [List.all_cons, Bool.and_eq_true] at hl
    simp only [printItems]
    exact ih.printItems sl al rest s hg hw hl.2
  | .expr e :: rest =>
    simp only [ItemsWf] at hw
    simp only [List.all_cons, Bool.and_eq_true, litsItem] at hl
    have h1 := ih.eval sl al e s hg hw.1 hl.1
    simp only [printItems]
    generalize ProcArr.Ref.eval P n e s = r at h1 ⊢
    obtain ⟨s1, r1⟩ := r
    cases r1 with
    | error o => exact PostO.of_some h1.1 h1.2
    | ok v =>
      obtain ⟨hg1, _, _⟩ := h1
      simp only
      cases hpv : printValue v with
      | none => exact hg1.anyScope
      | some pv => exact ih.printItems sl al rest _ (hg1.congr rfl rfl rfl rfl rfl rfl) hw.2 hl.2

theorem step_evalCond (ih : Pres P sg n) : ∀ (sl al : List Ty) (c : ProcArr.Expr) (s : St), Good P sl al s →
    EWf sg (tabs P sl al) c → litsE c = true → PostE P sl al (fun _ => True) (evalCond P (n + 1) c s) := by
  intro sl al c s hg hw hl
  have h1 := ih.eval sl al c s hg hw hl
  simp only [evalCond]
  generalize ProcArr.Ref.eval P n c s = r at h1 ⊢
  obtain ⟨s1, r1⟩ := r
  cases r1 with
  | error o => exact h1
  | ok v =>
    obtain ⟨hg1, _, _⟩ := h1
    simp only
    cases truthy v with
    | none => exact ⟨hg1.anyScope, rfl⟩
    | some b => exact ⟨hg1, trivial⟩

theorem postE_relTest {P : Program} {sl al : List Ty} {s : St} (hg : Good P sl al s) (p : Pos) (op : Op) (a b : Val) :
    PostE P sl al (fun _ => True) (s, relTest p op a b) := by
  cases h : relTest p op a b with
  | ok v => exact ⟨hg, trivial⟩
  | error o => exact ⟨hg.anyScope, RbThm.ProcArrProps.relTest_err h⟩

theorem step_caseMatches (ih : Pres P sg n) : ∀ (sl al : List Ty) (p : Pos) (subj : Val) (c : CaseExpr) (s : St),
    Good P sl al s → CaseWf sg (tabs P sl al) c → litsCase c = true →
    PostE P sl al (fun _ => True) (caseMatches P (n + 1) p subj c s) := by
  intro sl al p subj c s hg hw hl
  cases c with
  | simple e =>
    simp only [CaseWf] at hw
    simp only [litsCase] at hl
    have h1 := ih.eval sl al e s hg hw hl
    simp only [caseMatches]
    generalize ProcArr.Ref.eval P n e s = r at h1 ⊢
    obtain ⟨s1, r1⟩ := r
    cases r1 with
    | error o => exact h1
    | ok v => exact postE_relTest h1.1 _ _ _ _
  | is op e =>
    simp only [CaseWf] at hw
    simp only [litsCase] at hl
    have h1 := ih.eval sl al e s hg hw.2 hl
    simp only [caseMatches]
    generalize ProcArr.Ref.eval P n e s = r at h1 ⊢
    obtain ⟨s1, r1⟩ := r
    cases r1 with
    | error o => exact h1
    | ok v => exact postE_relTest h1.1 _ _ _ _
  | range lo hi =>
    simp only [CaseWf] at hw
    simp only [litsCase, Bool.and_eq_true] at hl
    have h1 := ih.eval sl al lo s hg hw.1 hl.1
    simp only [caseMatches]
    generalize ProcArr.Ref.eval P n lo s = r at h1 ⊢
    obtain ⟨s1, r1⟩ := r
    cases r1 with
    | error o => exact h1
    | ok l =>
      obtain ⟨hg1, _, _⟩ := h1
      simp only
      cases hrt : relTest p .greaterOrEqual subj l with
      | error o => exact ⟨hg1.anyScope, RbThm.ProcArrProps.relTest_err hrt⟩
      | ok b =>
        cases b with
        | false => exact ⟨hg1, trivial⟩
        | true =>
          have h2 := ih.eval sl al hi s1 hg1 hw.2 hl.2
          simp only
          generalize ProcArr.Ref.eval P n hi s1 = r2 at h2 ⊢
          obtain ⟨s2, r2⟩ := r2
          cases r2 with
          | error o => exact h2
          | ok h => exact postE_relTest h2.1 _ _ _ _

theorem step_anyMatches (ih : Pres P sg n) : ∀ (sl al : List Ty) (p : Pos) (subj : Val) (cs : List CaseExpr) (s : St),
    Good P sl al s → CondsWf sg (tabs P sl al) cs → cs.all litsCase = true →
    PostE P sl al (fun _ => True) (anyMatches P (n + 1) p subj cs s) := by
  intro sl al p subj cs s hg hw hl
  cases cs with
  | nil => simp only [anyMatches]; exact ⟨hg, trivial⟩
  | cons c rest =>
    simp only [CondsWf] at hw
    simp only [List.all_cons, Bool.and_eq_true] at hl
    have h1 := ih.caseMatches sl al p subj c s hg hw.1 hl.1
    simp only [anyMatches]
    generalize caseMatches P n p subj c s = r at h1 ⊢
    obtain ⟨s1, r1⟩ := r
    cases r1 with
    | error o => exact h1
    | ok b =>
      cases b with
      | true => exact ⟨h1.1, trivial⟩
      | false => exact ih.anyMatches sl al p subj rest s1 h1.1 hw.2 hl.2

theorem step_exec (ih : Pres P sg n) : ∀ (sl al : List Ty) (st : Stmt) (s : St), Good P sl al s →
    WfA sg (tabs P sl al) st → rangeB st = true → PostO P sl al (exec P (n + 1) st s) := by
  intro sl al st s hg hw hr
  cases st with
  | skip => simp only [exec]; exact hg
  | seq a b =>
    simp only [WfA] at hw
    simp only [rangeB, Bool.and_eq_true] at hr
    have h1 := ih.exec sl al a s hg hw.1 hr.1
    simp only [exec]
    generalize exec P n a s = r at h1 ⊢
    obtain ⟨s1, o1⟩ := r
    cases o1 with
    | normal => exact ih.exec sl al b s1 h1 hw.2 hr.2
    | exited => exact h1
    | halted => exact h1
    | error c q => exact h1
    | inexact => exact h1
    | outOfFuel => exact h1
    | illFormed => exact h1
    | tooBig => exact h1
  | assign x t e p =>
    simp only [WfA] at hw
    simp only [rangeB] at hr
    have h1 := ih.evalTo sl al e t s hg hw.2 hr
    simp only [exec]
    generalize evalTo P n e t s = r at h1 ⊢
    obtain ⟨s1, r1⟩ := r
    cases r1 with
    | error o => exact PostO.of_some h1.1 h1.2
    | ok v => exact h1.1.set hw.1 h1.2.1 h1.2.2
  | dimArr a t dims p =>
    simp only [WfA] at hw
    simp only [rangeB] at hr
    have h1 := ih.evalDims sl al dims s hg hw.2 hr
    simp only [exec]
    generalize evalDims P n dims s = r at h1 ⊢
    obtain ⟨s1, r1⟩ := r
    cases r1 with
    | error o => exact PostO.of_some h1.1 h1.2
    | ok bs =>
      simp only
      cases hda : dimArray t bs p with
      | ok A => exact h1.1.setArr hw.1 (dimArray_good t bs p A h1.2 hda)
      | error o => exact PostO.of_some h1.1.anyScope (RbThm.ProcArrProps.dimArray_err hda)
  | assignElem a t idx e p =>
    simp only [WfA] at hw
    simp only [rangeB, Bool.and_eq_true] at hr
    have h1 := ih.evalTo sl al e t s hg hw.2.2 hr.2
    simp only [exec]
    generalize evalTo P n e t s = r at h1 ⊢
    obtain ⟨s1, r1⟩ := r
    cases r1 with
    | error o => exact PostO.of_some h1.1 h1.2
    | ok v =>
      obtain ⟨hg1, hvt, hvr⟩ := h1
      have h2 := ih.evalIdx sl al idx s1 hg1 hw.2.1 hr.1
      simp only
      generalize evalIdx P n idx s1 = r2 at h2 ⊢
      obtain ⟨s2, r2⟩ := r2
      cases r2 with
      | error o => exact PostO.of_some h2.1 h2.2
      | ok is =>
        simp only
        cases hre : s2.readElem a is p with
        | ok w => exact h2.1.setElem hw.1 is hvt hvr
        | error o => exact PostO.of_some h2.1.anyScope (RbThm.ProcArrProps.readElem_err hre)
  | print items p =>
    simp only [WfA] at hw
    simp only [rangeB] at hr
    have h1 := ih.printItems sl al items s hg hw hr
    simp only [exec]
    generalize printItems P n items s = r at h1 ⊢
    obtain ⟨s1, o1⟩ := r
    cases o1 with
    | normal =>
      simp only
      split
      · exact h1
      · exact Good.congr h1 rfl rfl rfl rfl rfl rfl
    | exited => exact h1
    | halted => exact h1
    | error c q => exact h1
    | inexact => exact h1
    | outOfFuel => exact h1
    | illFormed => exact h1
    | tooBig => exact h1
  | read x t p =>
    simp only [WfA] at hw
    simp only [exec]
    cases hd : s.data[s.dataIdx]? with
    | none => exact hg.anyScope
    | some v =>
      have hv : v.InRange := hg.data v (List.mem_of_getElem? hd)
      simp only
      cases hc : Num.cast v t with
      | err e => exact hg.anyScope
      | inexact => exact hg.anyScope
      | ok w =>
        obtain ⟨h1, h2⟩ := cast_sound v t w hv hc
        exact Good.congr (hg.set hw h1 h2) rfl rfl rfl rfl rfl rfl
  | ifs c thn els p =>
    simp only [WfA] at hw
    simp only [rangeB, Bool.and_eq_true] at hr
    have h1 := ih.evalCond sl al c s hg hw.1 hr.1.1
    simp only [exec]
    generalize evalCond P n c s = r at h1 ⊢
    obtain ⟨s1, r1⟩ := r
    cases r1 with
    | error o => exact PostO.of_some h1.1 h1.2
    | ok b =>
      cases b with
      | true => exact ih.exec sl al thn s1 h1.1 hw.2.1 hr.1.2
      | false => exact ih.exec sl al els s1 h1.1 hw.2.2 hr.2
  | select e cases p =>
    simp only [WfA] at hw
    simp only [rangeB, Bool.and_eq_true] at hr
    have h1 := ih.eval sl al e s hg hw.1 hr.1
    simp only [exec]
    generalize ProcArr.Ref.eval P n e s = r at h1 ⊢
    obtain ⟨s1, r1⟩ := r
    cases r1 with
    | error o => exact PostO.of_some h1.1 h1.2
    | ok subj => exact ih.execCases sl al p subj cases s1 h1.1 hw.2 hr.2
  | forLoop x t lo hi step body p =>
    simp only [WfA] at hw
    simp only [rangeB, Bool.and_eq_true] at hr
    obtain ⟨hx, hwlo, hwhi, hwst, hwb⟩ := hw
    obtain ⟨⟨⟨hrlo, hrhi⟩, hrst⟩, hrb⟩ := hr
    have h1 := ih.evalTo sl al lo t s hg hwlo hrlo
    simp only [exec]
    generalize evalTo P n lo t s = r at h1 ⊢
    obtain ⟨s1, r1⟩ := r
    cases r1 with
    | error o => exact PostO.of_some h1.1 h1.2
    | ok l =>
      have hg1 : Good P sl al (s1.set x l) := h1.1.set hx h1.2.1 h1.2.2
      have h2 := ih.evalTo sl al hi t _ hg1 hwhi hrhi
      simp only
      generalize evalTo P n hi t (s1.set x l) = r2 at h2 ⊢
      obtain ⟨s2, r2⟩ := r2
      cases r2 with
      | error o => exact PostO.of_some h2.1 h2.2
      | ok hv =>
        cases step with
        | none => exact ih.forIter sl al x t hv (.int 1) true body p s2 h2.1 hx hwb hrb
        | some se =>
          have h3 := ih.eval sl al se s2 h2.1 (hwst se rfl) hrst
          simp only
          generalize ProcArr.Ref.eval P n se s2 = r3 at h3 ⊢
          obtain ⟨s3, r3⟩ := r3
          cases r3 with
          | error o => exact PostO.of_some h3.1 h3.2
          | ok sv =>
            simp only
            cases hsg : stepSign p sv with
            | error o => exact PostO.of_some h3.1.anyScope (RbThm.ProcArrProps.stepSign_err hsg)
            | ok sgn =>
              cases sgn with
              | neg => exact ih.forIter sl al x t hv sv false body p s3 h3.1 hx hwb hrb
              | pos => exact ih.forIter sl al x t hv sv true body p s3 h3.1 hx hwb hrb
              | zero => exact h3.1.anyScope
  | «while» c body p =>
    have hw0 := hw
    have hr0 := hr
    simp only [WfA] at hw
    simp only [rangeB, Bool.and_eq_true] at hr
    have h1 := ih.evalCond sl al c s hg hw.1 hr.1
    simp only [exec]
    generalize evalCond P n c s = r at h1 ⊢
    obtain ⟨s1, r1⟩ := r
    cases r1 with
    | error o => exact PostO.of_some h1.1 h1.2
    | ok b =>
      cases b with
      | false => exact h1.1
      | true =>
        have h2 := ih.exec sl al body s1 h1.1 hw.2 hr.2
        simp only
        generalize exec P n body s1 = r2 at h2 ⊢
        obtain ⟨s2, o2⟩ := r2
        cases o2 with
        | normal => exact ih.exec sl al _ s2 h2 hw0 hr0
        | exited => exact h2
        | halted => exact h2
        | error c q => exact h2
        | inexact => exact h2
        | outOfFuel => exact h2
        | illFormed => exact h2
        | tooBig => exact h2
  | doLoop c top until_ body p =>
    have hw0 := hw
    have hr0 := hr
    simp only [WfA] at hw
    simp only [rangeB, Bool.and_eq_true] at hr
    simp only [exec]
    cases top with
    | true =>
      simp only [if_true]
      have h1 := ih.evalCond sl al c s hg hw.1 hr.1
      generalize evalCond P n c s = r at h1 ⊢
      obtain ⟨s1, r1⟩ := r
      cases r1 with
      | error o => exact PostO.of_some h1.1 h1.2
      | ok b =>
        simp only
        split
        · have h2 := ih.exec sl al body s1 h1.1 hw.2 hr.2
          generalize exec P n body s1 = r2 at h2 ⊢
          obtain ⟨s2, o2⟩ := r2
          cases o2 with
          | normal => exact ih.exec sl al _ s2 h2 hw0 hr0
          | exited => exact h2
          | halted => exact h2
          | error c q => exact h2
          | inexact => exact h2
          | outOfFuel => exact h2
          | illFormed => exact h2
          | tooBig => exact h2
        · exact h1.1
    | false =>
      simp only [Bool.false_eq_true, if_false]
      have h2 := ih.exec sl al body s hg hw.2 hr.2
      generalize exec P n body s = r2 at h2 ⊢
      obtain ⟨s2, o2⟩ := r2
      cases o2 with
      | normal =>
        have h1 := ih.evalCond sl al c s2 h2 hw.1 hr.1
        simp only
        generalize evalCond P n c s2 = r at h1 ⊢
        obtain ⟨s1, r1⟩ := r
        cases r1 with
        | error o => exact PostO.of_some h1.1 h1.2
        | ok b =>
          simp only
          split
          · exact ih.exec sl al _ s1 h1.1 hw0 hr0
          · exact h1.1
      | exited => exact h2
      | halted => exact h2
      | error c q => exact h2
      | inexact => exact h2
      | outOfFuel => exact h2
      | illFormed => exact h2
      | tooBig => exact h2
  | end_ p => simp only [exec]; exact hg.anyScope
  | callSub f args p =>
    simp only [WfA] at hw
    simp only [rangeB] at hr
    have h1 := ih.call sl al f args _ none s hg hw.1 hw.2 hr
    simp only [exec]
    generalize call P n f args s = r at h1 ⊢
    obtain ⟨s1, r1⟩ := r
    cases r1 with
    | error o => exact PostO.of_some h1.1 h1.2
    | ok v => exact h1.1
  | exitProc p => simp only [exec]; exact hg

theorem step_execCases (ih : Pres P sg n) : ∀ (sl al : List Ty) (p : Pos) (subj : Val) (cs : Cases) (s : St),
    Good P sl al s → WfAC sg (tabs P sl al) cs → rangeCB cs = true →
    PostO P sl al (execCases P (n + 1) p subj cs s) := by
  intro sl al p subj cs s hg hw hr
  cases cs with
  | nil => simp only [execCases]; exact hg
  | else_ body =>
    simp only [WfAC] at hw
    simp only [rangeCB] at hr
    simp only [execCases]
    exact ih.exec sl al body s hg hw hr
  | case conds body rest =>
    simp only [WfAC] at hw
    simp only [rangeCB, Bool.and_eq_true] at hr
    have h1 := ih.anyMatches sl al p subj conds s hg hw.1 hr.1.1
    simp only [execCases]
    generalize anyMatches P n p subj conds s = r at h1 ⊢
    obtain ⟨s1, r1⟩ := r
    cases r1 with
    | error o => exact PostO.of_some h1.1 h1.2
    | ok b =>
      cases b with
      | true => exact ih.exec sl al body s1 h1.1 hw.2.1 hr.1.2
      | false => exact ih.execCases sl al p subj rest s1 h1.1 hw.2.2 hr.2

theorem step_forIter (ih : Pres P sg n) : ∀ (sl al : List Ty) (x : Var) (t : Ty) (hh sv : Val) (up : Bool)
    (body : Stmt) (p : Pos) (s : St), Good P sl al s → (tabs P sl al).get? x = some t →
    WfA sg (tabs P sl al) body → rangeB body = true → PostO P sl al (forIter P (n + 1) x t hh sv up body p s) := by
  intro sl al x t hh sv up body p s hg hx hwb hrb
  simp only [forIter]
  cases hrt : relTest p (if up = true then Op.lessOrEqual else Op.greaterOrEqual) (s.get x t) hh with
  | error o => exact PostO.of_some hg.anyScope (RbThm.ProcArrProps.relTest_err hrt)
  | ok b =>
    cases b with
    | false => exact hg
    | true =>
      have h1 := ih.exec sl al body s hg hwb hrb
      simp only
      generalize exec P n body s = r at h1 ⊢
      obtain ⟨s1, o1⟩ := r
      cases o1 with
      | normal =>
        simp only
        cases hp : (plus (s1.get x t) sv).bind (fun v => Num.cast v t) with
        | ok v =>
          obtain ⟨a, b⟩ := RbThm.C06Core.increment_good _ sv v t hp
          exact ih.forIter sl al x t hh sv up body p _ (Good.set h1 hx a b) hx hwb hrb
        | err e => exact Good.anyScope h1
        | inexact => exact Good.anyScope h1
      | exited => exact h1
      | halted => exact h1
      | error c q => exact h1
      | inexact => exact h1
      | outOfFuel => exact h1
      | illFormed => exact h1
      | tooBig => exact h1

end step

theorem pres_all {P : Program} {sg : Sigs} (hP : ProcsGood P sg) : ∀ n, Pres P sg n
  | 0 => pres_zero P sg
  | n + 1 =>
    have ih := pres_all hP n
    ⟨step_eval ih, step_evalIdx ih, step_evalElem ih, step_evalTo ih, step_evalArg ih, step_evalArgs ih,
      step_evalDims ih, step_call hP ih, step_printItems ih, step_evalCond ih, step_caseMatches ih,
      step_anyMatches ih, step_exec ih, step_execCases ih, step_forIter ih⟩

end RbThm.C06ProcArr
