import RbModel.Core
import RbModel.CoreVm
/-!
C11 (run-time half) — `instr_pos_within_stmt` for the generator model `RbModel.Core.compileStmt`
(the model is compared with the real `generate_instructions`, instruction for instruction and position for
position, by the C01 correspondence run), and `runtime_error_pos_is_instr_pos` for the VM model
`RbModel.CoreVm`: the position a run-time error carries is the position of an emitted instruction (or the
position of the last `PushStack`, for a failing built-in).

Together: the position of a run-time error raised while executing the code of a core statement `S` is one
of the positions that occur in `S` (the statement's own position, or the position of one of its
sub-expressions, DATA items, READ variables or nested statements).  Whether those positions lie inside the
statement's *text* is a fact about the parser (`PosNested`), checked by the fault-injection run, not proved.
-/
namespace RbThm.C11Gen
open RbModel RbModel.Num RbModel.Ast RbModel.Src RbModel.Core

/-! ## positions that occur in a piece of syntax -/

def exprPosns : Ast.Expr → List Pos
  | .lit _ p => [p]
  | .var _ _ p => [p]
  | .un _ e p => p :: exprPosns e
  | .bin _ l r _ p => p :: (exprPosns l ++ exprPosns r)
  | .paren e p => p :: exprPosns e

def itemPosns : PrintItem → List Pos
  | .expr e => exprPosns e
  | _ => []

def caseExprPosns : CaseExpr → List Pos
  | .simple e => exprPosns e
  | .is _ e => exprPosns e
  | .range lo hi => exprPosns lo ++ exprPosns hi

def optExprPosns : Option Ast.Expr → List Pos
  | none => []
  | some e => exprPosns e

mutual
/-- every position that occurs in a statement: its own, its expressions', its nested statements' -/
def stmtPosns : SStmt → List Pos
  | .skip => []
  | .seq a b => stmtPosns a ++ stmtPosns b
  | .comment => []
  | .dim _ _ p => [p]
  | .assign _ _ e p => p :: exprPosns e
  | .print items p => p :: items.flatMap itemPosns
  | .data items p => p :: items.map (·.2)
  | .read vars p => p :: vars.map (·.2.2)
  | .ifBlock c thn elifs _ els p => p :: (exprPosns c ++ stmtPosns thn ++ elifsPosns elifs ++ stmtPosns els)
  | .select e cases _ els p => p :: (exprPosns e ++ casesPosns cases ++ stmtPosns els)
  | .forLoop _ _ lo hi step body p => p :: (exprPosns lo ++ exprPosns hi ++ optExprPosns step ++ stmtPosns body)
  | .while c body p => p :: (exprPosns c ++ stmtPosns body)
  | .doLoop c _ _ body p => p :: (exprPosns c ++ stmtPosns body)
  | .end_ p => [p]
def elifsPosns : ElseIfs → List Pos
  | .nil => []
  | .cons c body rest => exprPosns c ++ stmtPosns body ++ elifsPosns rest
def casesPosns : SCases → List Pos
  | .nil => []
  | .cons conds body rest => conds.flatMap caseExprPosns ++ stmtPosns body ++ casesPosns rest
end

/-- every instruction of the code carries a position satisfying `P` -/
def AllP (P : Pos → Prop) (c : Code) : Prop := ∀ ip ∈ c, P ip.2

/-! ## helper lemmas -/

theorem allP_nil (P : Pos → Prop) : AllP P [] := by intro ip h; cases h

theorem allP_cons (P : Pos → Prop) (i : CInstr) (q : Pos) (c : Code) :
    AllP P ((i, q) :: c) ↔ P q ∧ AllP P c := by
  constructor
  · intro h; exact ⟨h (i, q) (by simp), fun ip hip => h ip (by simp [hip])⟩
  · rintro ⟨h1, h2⟩ ip hip
    rcases List.mem_cons.mp hip with rfl | hip
    · exact h1
    · exact h2 ip hip

theorem allP_append (P : Pos → Prop) (a b : Code) : AllP P (a ++ b) ↔ AllP P a ∧ AllP P b := by
  constructor
  · intro h; exact ⟨fun ip hip => h ip (by simp [hip]), fun ip hip => h ip (by simp [hip])⟩
  · rintro ⟨h1, h2⟩ ip hip
    rcases List.mem_append.mp hip with hip | hip
    · exact h1 ip hip
    · exact h2 ip hip

theorem allP_ite (P : Pos → Prop) (b : Prop) [Decidable b] (x y : Code) (hx : AllP P x) (hy : AllP P y) :
    AllP P (if b then x else y) := by
  split <;> assumption

theorem pos_mem_exprPosns (e : Ast.Expr) : e.pos ∈ exprPosns e := by
  cases e <;> simp [Ast.Expr.pos, exprPosns]

theorem allP_expr (P : Pos → Prop) (e : Ast.Expr) (h : ∀ q ∈ exprPosns e, P q) : AllP P (compileExpr e) := by
  induction e with
  | lit v p => simp [compileExpr, allP_cons, allP_nil, h p (by simp [exprPosns])]
  | var x t p => simp [compileExpr, allP_cons, allP_nil, h p (by simp [exprPosns])]
  | un op e p ih =>
    have hp := h p (by simp [exprPosns])
    have he := ih (fun q hq => h q (by simp [exprPosns, hq]))
    cases op <;> simp [compileExpr, allP_append, allP_cons, allP_nil, hp, he]
  | bin op l r t p ihl ihr =>
    have hp := h p (by simp [exprPosns])
    have hl := ihl (fun q hq => h q (by simp [exprPosns, hq]))
    have hr := ihr (fun q hq => h q (by simp [exprPosns, hq]))
    simp only [compileExpr, allP_append, allP_cons]
    refine ⟨⟨⟨⟨hl, hp, allP_nil P⟩, hr⟩, hp, hp, hp, allP_nil P⟩, ?_⟩
    split
    · simp [allP_cons, allP_nil, hp]
    · exact allP_nil P
  | paren e p ih =>
    simpa [compileExpr] using ih (fun q hq => h q (by simp [exprPosns, hq]))

theorem allP_exprTo (P : Pos → Prop) (e : Ast.Expr) (t : Ty) (h : ∀ q ∈ exprPosns e, P q) :
    AllP P (compileExprTo e t) := by
  unfold compileExprTo
  rw [allP_append]
  refine ⟨allP_expr P e h, ?_⟩
  split
  · exact allP_nil P
  · simp [allP_cons, allP_nil, h _ (pos_mem_exprPosns e)]

theorem allP_loadVar (P : Pos → Prop) (x : Nat) (p : Pos) (hp : P p) : AllP P (loadVar x p) := by
  simp [loadVar, allP_cons, allP_nil, hp]

theorem allP_storeVar (P : Pos → Prop) (x : Nat) (p : Pos) (hp : P p) : AllP P (storeVar x p) := by
  simp [storeVar, allP_cons, allP_nil, hp]

theorem allP_items (P : Pos → Prop) (p : Pos) (hp : P p) (items : List PrintItem)
    (h : ∀ q ∈ items.flatMap itemPosns, P q) : AllP P (compileItems p items) := by
  induction items with
  | nil => simp [compileItems, allP_nil]
  | cons it rest ih =>
    have hrest := ih (fun q hq => h q (by simp [List.flatMap_cons, hq]))
    cases it with
    | expr e =>
      have he : ∀ q ∈ exprPosns e, P q := fun q hq => h q (by simp [List.flatMap_cons, itemPosns, hq])
      simp [compileItems, compileItem, allP_append, allP_cons, allP_nil, allP_expr P e he,
        he _ (pos_mem_exprPosns e), hrest]
    | comma => simp [compileItems, compileItem, allP_append, allP_cons, allP_nil, hp, hrest]
    | semicolon => simp [compileItems, compileItem, allP_append, allP_cons, allP_nil, hp, hrest]

theorem allP_caseExpr (P : Pos → Prop) (p : Pos) (hp : P p) (next : Nat) (c : CaseExpr)
    (h : ∀ q ∈ caseExprPosns c, P q) : AllP P (compileCaseExpr p next c) := by
  cases c with
  | simple e =>
    simp [compileCaseExpr, allP_append, allP_cons, allP_nil, hp, allP_expr P e (fun q hq => h q (by simp [caseExprPosns, hq]))]
  | is op e =>
    simp [compileCaseExpr, allP_append, allP_cons, allP_nil, hp, allP_expr P e (fun q hq => h q (by simp [caseExprPosns, hq]))]
  | range lo hi =>
    simp [compileCaseExpr, allP_append, allP_cons, allP_nil, hp,
      allP_expr P lo (fun q hq => h q (by simp [caseExprPosns, hq])),
      allP_expr P hi (fun q hq => h q (by simp [caseExprPosns, hq]))]

theorem allP_conds (P : Pos → Prop) (p : Pos) (hp : P p) (sfx : String) (bi nextCase stmts : Nat) :
    ∀ (conds : List CaseExpr) (off ei : Nat), (∀ q ∈ conds.flatMap caseExprPosns, P q) →
      AllP P (compileConds p sfx bi nextCase stmts off ei conds)
  | [], _, _, _ => by simp [compileConds, allP_nil]
  | [c], _, _, h => by
    simpa [compileConds] using allP_caseExpr P p hp nextCase c (fun q hq => h q (by simp [hq]))
  | c :: d :: rest, off, ei, h => by
    have ih := allP_conds P p hp sfx bi nextCase stmts (d :: rest) (off + sizeCaseExpr c + 1 + 1) (ei + 1)
      (fun q hq => h q (by rw [List.flatMap_cons]; exact List.mem_append_right _ hq))
    have hc := allP_caseExpr P p hp (off + sizeCaseExpr c + 1) c
      (fun q hq => h q (by rw [List.flatMap_cons]; exact List.mem_append_left _ hq))
    simp only [compileConds, allP_append, allP_cons]
    exact ⟨⟨⟨hc, hp, allP_nil P⟩, hp, allP_nil P⟩, ih⟩

theorem allP_forBody (P : Pos → Prop) (sfx : String) (x : Nat) (t : Ty) (bodyCode : Code) (up : Bool) (p : Pos)
    (off outOff : Nat) (hp : P p) (hb : AllP P bodyCode) : AllP P (forBody sfx x t bodyCode up p off outOff) := by
  simp [forBody, allP_append, allP_cons, allP_nil, hp, hb, allP_loadVar P x p hp, allP_storeVar P x p hp]

/-! ## the generator -/

mutual
theorem allP_stmt (P : Pos → Prop) : ∀ (s : SStmt) (sfx : String) (off : Nat),
    (∀ q ∈ stmtPosns s, P q) → AllP P (compileStmt sfx off s)
  | .skip, _, _, _ => by simp [compileStmt, allP_nil]
  | .seq a b, sfx, off, h => by
    have ha := allP_stmt P a sfx off (fun q hq => h q (by simp [stmtPosns, hq]))
    have hb := allP_stmt P b sfx (off + sizeStmt a) (fun q hq => h q (by simp [stmtPosns, hq]))
    simp [compileStmt, allP_append, ha, hb]
  | .comment, _, _, _ => by simp [compileStmt, allP_nil]
  | .dim x t p, _, _, h => by
    have hp := h p (by simp [stmtPosns])
    simp [compileStmt, allP_cons, allP_nil, hp]
  | .assign x t e p, _, _, h => by
    have hp := h p (by simp [stmtPosns])
    have he := allP_exprTo P e t (fun q hq => h q (by simp [stmtPosns, hq]))
    simp [compileStmt, allP_append, he, allP_storeVar P x p hp]
  | .print items p, _, _, h => by
    have hp := h p (by simp [stmtPosns])
    have hi := allP_items P p hp items (fun q hq => h q (by simp only [stmtPosns]; exact List.mem_cons_of_mem _ hq))
    simp [compileStmt, allP_append, allP_cons, allP_nil, hp, hi]
  | .data items p, _, _, h => by
    have hp := h p (by simp [stmtPosns])
    have hi : AllP P (items.flatMap (fun (v, q) => [(CInstr.loadA v, q), (CInstr.pushByVal, q)])) := by
      intro ip hip
      obtain ⟨⟨v, q⟩, hmem, hin⟩ := List.mem_flatMap.mp hip
      have hq : P q := h q (by simp only [stmtPosns]; exact List.mem_cons_of_mem _ (List.mem_map.mpr ⟨(v, q), hmem, rfl⟩))
      simp at hin
      rcases hin with rfl | rfl <;> exact hq
    simp [compileStmt, allP_append, allP_cons, allP_nil, hp, hi]
  | .read vars p, _, _, h => by
    have hp := h p (by simp [stmtPosns])
    have hv : ∀ x t q, (x, t, q) ∈ vars → P q := fun x t q hm =>
      h q (by simp only [stmtPosns]; exact List.mem_cons_of_mem _ (List.mem_map.mpr ⟨(x, t, q), hm, rfl⟩))
    simp only [compileStmt]
    split
    · simp [allP_cons, allP_nil, hp]
    · intro ip hip
      obtain ⟨⟨x, t, q⟩, hmem, hin⟩ := List.mem_flatMap.mp hip
      have hq := hv x t q hmem
      simp at hin
      rcases hin with rfl | rfl | rfl | rfl | rfl | rfl | rfl | rfl | rfl | rfl | rfl <;> first | exact hp | exact hq
  | .ifBlock c thn elifs hasElse els p, sfx, off, h => by
    have hp := h p (by simp [stmtPosns])
    have hc := allP_expr P c (fun q hq => h q (by simp [stmtPosns, hq]))
    have ht := fun o => allP_stmt P thn sfx o (fun q hq => h q (by simp [stmtPosns, hq]))
    have he := fun o => allP_stmt P els sfx o (fun q hq => h q (by simp [stmtPosns, hq]))
    have hl := fun a b c' d => allP_elifs P elifs sfx p a b c' d hp (fun q hq => h q (by simp [stmtPosns, hq]))
    simp only [compileStmt, allP_append, allP_cons]
    refine ⟨⟨⟨⟨⟨⟨hc, hp, allP_nil P⟩, ht _⟩, hp, allP_nil P⟩, hl _ _ _ _⟩, ?_⟩, hp, allP_nil P⟩
    split
    · rw [allP_append, allP_cons]; exact ⟨⟨hp, allP_nil P⟩, he _⟩
    · exact allP_nil P
  | .select e cases hasElse els p, sfx, off, h => by
    have hp := h p (by simp [stmtPosns])
    have hc := allP_expr P e (fun q hq => h q (by simp [stmtPosns, hq]))
    have he := fun o => allP_stmt P els sfx o (fun q hq => h q (by simp [stmtPosns, hq]))
    have hl := fun a b c' d => allP_cases P cases sfx p a b c' d hp (fun q hq => h q (by simp [stmtPosns, hq]))
    simp only [compileStmt, allP_append, allP_cons]
    refine ⟨⟨⟨⟨⟨hc, hp, allP_nil P⟩, hp, hp, hp, allP_nil P⟩, hl _ _ _ _⟩, ?_⟩, hp, hp, hp, allP_nil P⟩
    split
    · rw [allP_append, allP_cons]; exact ⟨⟨hp, allP_nil P⟩, he _⟩
    · exact allP_nil P
  | .forLoop x t lo hi step body p, sfx, off, h => by
    have hp := h p (by simp [stmtPosns])
    have hlo := allP_exprTo P lo t (fun q hq => h q (by simp [stmtPosns, hq]))
    have hhi := allP_exprTo P hi t (fun q hq => h q (by simp [stmtPosns, hq]))
    have hb := fun s' o => allP_stmt P body s' o (fun q hq => h q (by simp [stmtPosns, hq]))
    have hst := allP_storeVar P x p hp
    cases step with
    | none =>
      simp only [compileStmt, allP_append, allP_cons]
      exact ⟨⟨⟨hlo, hst⟩, hhi⟩, ⟨⟨hp, hp, hp, hp, hp, hp, allP_nil P⟩,
        allP_forBody P sfx x t _ true p _ _ hp (hb _ _)⟩, hp, allP_nil P⟩
    | some s =>
      have hs := allP_expr P s (fun q hq => h q (by simp [stmtPosns, optExprPosns, hq]))
      have hsp : P s.pos := h _ (by simp [stmtPosns, optExprPosns, pos_mem_exprPosns s])
      simp only [compileStmt, allP_append, allP_cons]
      exact ⟨⟨⟨hlo, hst⟩, hhi⟩, ⟨⟨⟨⟨⟨⟨hp, allP_nil P⟩, hs⟩, hp, hp, hp, hp, hp, hp, hp, hp, hp, hp, hp, allP_nil P⟩,
        allP_forBody P sfx x t _ false p _ _ hp (hb _ _)⟩, hp, hp, hp, hp, hp, allP_nil P⟩,
        allP_forBody P sfx x t _ true p _ _ hp (hb _ _)⟩, hp, hp, hsp, hp, allP_nil P⟩
  | .while c body p, sfx, off, h => by
    have hp := h p (by simp [stmtPosns])
    have hc := allP_expr P c (fun q hq => h q (by simp [stmtPosns, hq]))
    have hb := fun o => allP_stmt P body sfx o (fun q hq => h q (by simp [stmtPosns, hq]))
    simp [compileStmt, allP_append, allP_cons, allP_nil, hp, hc, hb]
  | .doLoop c top u body p, sfx, off, h => by
    have hp := h p (by simp [stmtPosns])
    have hc := allP_expr P c (fun q hq => h q (by simp [stmtPosns, hq]))
    have hb := fun o => allP_stmt P body sfx o (fun q hq => h q (by simp [stmtPosns, hq]))
    cases top <;> cases u <;> simp [compileStmt, allP_append, allP_cons, allP_nil, hp, hc, hb]
  | .end_ p, _, _, h => by simp [compileStmt, allP_cons, allP_nil, h p (by simp [stmtPosns])]
theorem allP_elifs (P : Pos → Prop) : ∀ (e : ElseIfs) (sfx : String) (p : Pos) (endOff elseOff off i : Nat),
    P p → (∀ q ∈ elifsPosns e, P q) → AllP P (compileElifs sfx p endOff elseOff off i e)
  | .nil, _, _, _, _, _, _, _, _ => by simp [compileElifs, allP_nil]
  | .cons c body rest, sfx, p, endOff, elseOff, off, i, hp, h => by
    have hc := allP_expr P c (fun q hq => h q (by simp [elifsPosns, hq]))
    have hb := fun o => allP_stmt P body sfx o (fun q hq => h q (by simp [elifsPosns, hq]))
    have hr := fun o j => allP_elifs P rest sfx p endOff elseOff o j hp (fun q hq => h q (by simp [elifsPosns, hq]))
    simp [compileElifs, allP_append, allP_cons, allP_nil, hp, hc, hb, hr]
theorem allP_cases (P : Pos → Prop) : ∀ (cs : SCases) (sfx : String) (p : Pos) (endOff elseOff off i : Nat),
    P p → (∀ q ∈ casesPosns cs, P q) → AllP P (compileCases sfx p endOff elseOff off i cs)
  | .nil, _, _, _, _, _, _, _, _ => by simp [compileCases, allP_nil]
  | .cons conds body rest, sfx, p, endOff, elseOff, off, i, hp, h => by
    have hc := fun a b c' d e' => allP_conds P p hp sfx a b c' conds d e'
      (fun q hq => h q (by simp only [casesPosns]; exact List.mem_append_left _ (List.mem_append_left _ hq)))
    have hb := fun o => allP_stmt P body sfx o (fun q hq => h q (by simp [casesPosns, hq]))
    have hr := fun o j => allP_cases P rest sfx p endOff elseOff o j hp (fun q hq => h q (by simp [casesPosns, hq]))
    simp only [compileCases, allP_append, allP_cons]
    refine ⟨⟨⟨⟨⟨⟨hp, allP_nil P⟩, hc _ _ _ _ _⟩, ?_⟩, hb _⟩, hp, allP_nil P⟩, hr _ _⟩
    split
    · simp [allP_cons, allP_nil, hp]
    · exact allP_nil P
end

/-! ## property theorems -/

/-- **`instr_pos_within_stmt`.** Every instruction the generator model emits for a statement `S` carries a
position that occurs in `S`: the position of `S` itself, of one of its sub-expressions / DATA items / READ
variables, or of a statement nested in it (to which the theorem applies again). -/
theorem instr_pos_within_stmt (s : SStmt) (sfx : String) (off : Nat) (i : CInstr) (q : Pos)
    (h : (i, q) ∈ compileStmt sfx off s) : q ∈ stmtPosns s :=
  allP_stmt (· ∈ stmtPosns s) s sfx off (fun _ hq => hq) (i, q) h

/-- The same with the parser premise made explicit: if every position that occurs in `S` has property `P`
(e.g. "lies in the span of `S`'s text", "is on `S`'s row"), every emitted instruction has it. -/
theorem instr_pos_inherits (P : Pos → Prop) (s : SStmt) (sfx : String) (off : Nat)
    (nested : ∀ q ∈ stmtPosns s, P q) (i : CInstr) (q : Pos) (h : (i, q) ∈ compileStmt sfx off s) : P q :=
  allP_stmt P s sfx off nested (i, q) h

/-- Every instruction of a compiled core program carries a position of the program's text, except the
final `Halt` (`Position::new(u32::MAX, u32::MAX)` in the code, which never fails). -/
theorem compile_pos (prog : SProgram) (i : CInstr) (q : Pos) (h : (i, q) ∈ compile prog) :
    q ∈ stmtPosns (reorder prog.body) ∨ (i = .halt ∧ q = maxPos) := by
  simp only [compile, List.mem_append, List.mem_singleton, Prod.mk.injEq] at h
  rcases h with h | h
  · exact Or.inl (instr_pos_within_stmt _ _ _ i q h)
  · exact Or.inr h

open RbModel.CoreVm in
/-- One VM step that fails reports the position of the instruction at `pc`, or (a failing `READ`, the one
built-in of the core language) the position recorded by the last `PushStack`. -/
theorem step_error_pos (code : Code) (σ σ' : Vm) (c : Nat) (p : Pos) (h : step code σ = .error c p σ') :
    (∃ i, code[σ.pc]? = some (i, p) ∧ i ≠ .halt) ∨ p = σ.callPos := by
  unfold step at h
  cases hc : code[σ.pc]? with
  | none => simp [hc] at h
  | some ip =>
    obtain ⟨i, q⟩ := ip
    simp only [hc] at h
    cases i <;> simp only [resA] at h <;> (repeat' split at h) <;>
      (first
        | (cases h; done)
        | (simp only [StepRes.error.injEq] at h
           obtain ⟨_, rfl, _⟩ := h
           first | exact Or.inr rfl | exact Or.inl ⟨_, rfl, by simp⟩))

open RbModel.CoreVm in
theorem step_next_callPos (code : Code) (σ σ' : Vm) (h : step code σ = .next σ') :
    σ'.callPos = σ.callPos ∨ ∃ i, code[σ.pc]? = some (i, σ'.callPos) ∧ i ≠ .halt := by
  unfold step at h
  cases hc : code[σ.pc]? with
  | none => simp [hc] at h
  | some ip =>
    obtain ⟨i, q⟩ := ip
    simp only [hc] at h
    cases i <;> simp only [resA] at h <;>
      (try (split at h <;> (try (split at h)) <;> simp_all [advance, setA] <;> (try (subst_vars; simp)))) <;>
      (try (simp_all [advance, setA]; try (subst_vars; simp)))

open RbModel.CoreVm in
/-- **`runtime_error_pos_is_instr_pos`.** The position a bounded run of the VM model reports for a run-time
error is the position of an instruction of the code (not the final `Halt`), or the `callPos` the run started
with (a `READ` failing before any `PushStack` — the generator never emits that). -/
theorem runtime_error_pos_is_instr_pos (code : Code) : ∀ (fuel : Nat) (σ σ' : Vm) (c : Nat) (p : Pos),
    run code fuel σ = .error c p σ' → (∃ i, (i, p) ∈ code ∧ i ≠ .halt) ∨ p = σ.callPos
  | 0, _, _, _, _, h => by simp [run] at h
  | fuel + 1, σ, σ', c, p, h => by
    simp only [run] at h
    cases hs : step code σ with
    | next τ =>
      simp only [hs] at h
      rcases runtime_error_pos_is_instr_pos code fuel τ σ' c p h with h1 | h1
      · exact Or.inl h1
      · rcases step_next_callPos code σ τ hs with h2 | ⟨i, h2, h3⟩
        · exact Or.inr (h1.trans h2)
        · exact Or.inl ⟨i, by rw [h1]; exact List.mem_of_getElem? h2, h3⟩
    | halt τ => simp [hs] at h
    | stuck => simp [hs] at h
    | error c2 p2 τ =>
      simp only [hs, RunRes.error.injEq] at h
      obtain ⟨rfl, rfl, rfl⟩ := h
      rcases step_error_pos code σ τ c2 p2 hs with ⟨i, h2, h3⟩ | h2
      · exact Or.inl ⟨i, List.mem_of_getElem? h2, h3⟩
      · exact Or.inr h2

open RbModel.CoreVm in
/-- Run-time errors of a compiled core program: the reported position occurs in the program's statements
(or is the initial `callPos` `(0, 0)`, see above).  With `instr_pos_inherits`, any property of all node
positions of the program (e.g. "row between the first and the last line of the text") is a property of
every reported run-time error position. -/
theorem runtime_error_pos_within_program (prog : SProgram) (fuel c : Nat) (p : Pos) (σ' : Vm)
    (h : run (compile prog) fuel (Vm.init prog.slots) = .error c p σ') :
    p ∈ stmtPosns (reorder prog.body) ∨ p = ⟨0, 0⟩ := by
  rcases runtime_error_pos_is_instr_pos (compile prog) fuel _ σ' c p h with ⟨i, hm, hne⟩ | h1
  · rcases compile_pos prog i p hm with h2 | ⟨h2, _⟩
    · exact Or.inl h2
    · exact absurd h2 hne
  · exact Or.inr (by simpa [Vm.init] using h1)

/-! ## the hypotheses are satisfiable, the statements are not vacuous -/

/-- `FOR x = 1 TO 3 STEP (2): y = 10 / x: NEXT` with distinct positions everywhere: 84 instructions, each
at one of the nine positions that occur in the statement; the zero-step error is at the STEP expression. -/
example :
    let s : SStmt := .forLoop 0 .int (.lit (.int 1) ⟨3, 9⟩) (.lit (.int 3) ⟨3, 14⟩) (some (.paren (.lit (.int 2) ⟨3, 22⟩) ⟨3, 21⟩))
      (.assign 1 .sgl (.bin .divide (.lit (.int 10) ⟨4, 7⟩) (.var 0 .int ⟨4, 12⟩) .sgl ⟨4, 10⟩) ⟨4, 3⟩) ⟨3, 1⟩
    (compileStmt "" 0 s).length = 84 ∧
    ((compileStmt "" 0 s).map (·.2)).eraseDups.length = 9 ∧
    (CInstr.throwZeroStep, (⟨3, 21⟩ : Pos)) ∈ compileStmt "" 0 s ∧
    (∀ ip ∈ compileStmt "" 0 s, ip.2 ∈ stmtPosns s) := by
  refine ⟨by decide, by decide, by decide, ?_⟩
  intro ip hip
  exact instr_pos_within_stmt _ _ _ ip.1 ip.2 hip

end RbThm.C11Gen
