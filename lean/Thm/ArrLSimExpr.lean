import Thm.ArrLSimCall
/-!
Arrays layer, simulation part — the expression cases: literal, variable, unary and binary operators, parentheses (ports
of `Thm/ProcSimExpr.lean`), element read `a(i…)`, `LBOUND` / `UBOUND` with and without a dimension argument (the whole
array travels through register A, the argument list, the by-reference queue and back into the variable), and the
structural induction `expr_correct` / `idx_correct` that puts them together.
-/
namespace RbThm.ArrLSim
set_option linter.unusedVariables false
set_option linter.unusedSimpArgs false
open RbModel RbModel.Num RbModel.ArrL RbModel.ArrL.Compile RbModel.ArrL.Vm
open RbModel.Ast (Pos)
open RbThm.ArrLLen RbThm.ArrLNum

theorem case_lit (code : Code) (sc : Scope) (v : Val) (p : Pos) : ExprSpec code sc (.lit v p) := by
  intro off s σ hc hpc hr hw
  simp only [compileExpr] at hc
  have h0 : code[σ.pc]? = some (CInstr.loadA v, p) := by rw [hpc]; exact hc.head
  simp only [ArrL.Ref.eval, ExprPost, compileExpr, List.length_singleton, ArrL.Expr.ty]
  refine ⟨Vm.advance (Vm.setA σ v), Steps.one ?_, by simp [Vm.advance, Vm.setA, hpc], rfl, (hr.setA v).advance,
    ⟨rfl, rfl, rfl, rfl, rfl, id⟩, trivial⟩
  simp only [Vm.step, h0]

theorem case_var (code : Code) (sc : Scope) (x : Nat) (t : Ty) (p : Pos) : ExprSpec code sc (.var x t p) := by
  intro off s σ hc hpc hr hw
  simp only [EWf] at hw
  have hc' : CodeAt code σ.pc (loadVar x p) := by rw [hpc]; exact hc
  have st := var_steps code sc s x t p σ hc' hr hw
  simp only [ArrL.Ref.eval, ExprPost, compileExpr, ArrL.Expr.ty]
  exact ⟨_, st, by simp [loadSt, hpc], rfl, hr.loadSt _, SameStacks.loadSt σ _, typed_getD_tag hr.typed hw _⟩

/-- an instruction that rewrites A by a `Res`-valued operation, after an expression whose value is in A -/
theorem after_resA (code : Code) (sc : Scope) (σ τ : Vm) (s : St) (p : Pos)
    (r : Res Val) (n : Nat) (off : Nat) (ty : Ty) (st : Steps code σ τ) (hp : τ.pc = off + n)
    (hrel : Rel sc s τ) (hss : SameStacks σ τ) (hs : Vm.step code τ = Vm.resA τ p r)
    (htag : ∀ w, r = .ok w → w.tag = ty) :
    ExprPost code sc (n + 1) ty off s σ (ArrL.Ref.lift p r) := by
  cases hr : r with
  | ok w =>
    simp only [ArrL.Ref.lift, ExprPost]
    exact ⟨_, st.trans (resA_ok hs hr), by simp [Vm.advance, Vm.setA, hp]; omega, rfl, (hrel.setA w).advance,
      hss.trans ⟨rfl, rfl, rfl, rfl, rfl, id⟩, htag w hr⟩
  | err e =>
    simp only [ArrL.Ref.lift, ExprPost]
    rw [← hrel.out]
    exact ErrsWith.of_steps st (resA_err hs hr)
  | inexact => simp only [ArrL.Ref.lift, ExprPost]

theorem case_un (code : Code) (sc : Scope) (op : UnOp) (e : ArrL.Expr) (p : Pos) (hE : ExprSpec code sc e) :
    ExprSpec code sc (.un op e p) := by
  intro off s σ hc hpc hr hw
  simp only [EWf] at hw
  have hce : CodeAt code off (compileExpr e) := by
    cases op <;> (simp only [compileExpr] at hc; exact hc.append_left)
  have he := hE off s σ hce hpc hr hw
  cases op with
  | neg =>
    simp only [compileExpr] at hc
    simp only [ArrL.Ref.eval, compileExpr, List.length_append, List.length_singleton, ArrL.Expr.ty]
    generalize ArrL.Ref.eval s.env s.arrs e = r at he ⊢
    cases r with
    | err c q => exact he
    | inexact => trivial
    | illFormed => trivial
    | ok v =>
      obtain ⟨τ, st, hp, ha, hrel, hss, htag⟩ := he
      have hi : code[τ.pc]? = some (CInstr.negateA, p) := by
        have := hc.append_right.head
        rw [hp]; exact this
      refine after_resA code sc σ τ s p (negate v) _ off e.ty st hp hrel hss ?_ ?_
      · simp only [Vm.step, hi, onA, ha]
      · intro w hw'
        rw [negate_tag v w hw']; exact htag
  | not =>
    simp only [compileExpr] at hc
    simp only [ArrL.Ref.eval, compileExpr, List.length_append, List.length_singleton, ArrL.Expr.ty]
    generalize ArrL.Ref.eval s.env s.arrs e = r at he ⊢
    cases r with
    | err c q => exact he
    | inexact => trivial
    | illFormed => trivial
    | ok v =>
      obtain ⟨τ, st, hp, ha, hrel, hss, htag⟩ := he
      have hi : code[τ.pc]? = some (CInstr.notA, p) := by
        have := hc.append_right.head
        rw [hp]; exact this
      refine after_resA code sc σ τ s p (unaryNot v) _ off e.ty st hp hrel hss ?_ ?_
      · simp only [Vm.step, hi, onA, ha]
      · intro w hw'
        rw [unaryNot_tag v w hw']; exact htag

theorem case_paren (code : Code) (sc : Scope) (e : ArrL.Expr) (p : Pos) (hE : ExprSpec code sc e) :
    ExprSpec code sc (.paren e p) := by
  intro off s σ hc hpc hr hw
  simp only [EWf] at hw
  simp only [compileExpr] at hc
  simp only [ArrL.Ref.eval, compileExpr, ArrL.Expr.ty]
  exact hE off s σ hc hpc hr hw

/-- `binStep` of the reference semantics is the VM's operator instruction followed, for `/`, by the `Cast` the generator
emits -/
theorem binStep_eq (op : Op) (t : Ty) (a b : Val) :
    ArrL.Ref.binStep op t a b =
      (if op = .divide then (Vm.binInstr op a b).bind (fun q => cast q t) else Vm.binInstr op a b) := by
  cases op <;> simp [ArrL.Ref.binStep, RbModel.Ref.binStep, Vm.binInstr]

/-- the value of an operator node has the node's static type -/
theorem binStep_tag (op : Op) (l r : ArrL.Expr) (t : Ty) (a b w : Val) (hta : a.tag = l.ty) (htb : b.tag = r.ty)
    (hop : op = .divide ∨ Gen.NumTables.binType op l.ty r.ty = some t) (h : ArrL.Ref.binStep op t a b = .ok w) :
    w.tag = t := by
  by_cases hd : op = .divide
  · subst hd
    simp only [ArrL.Ref.binStep, RbModel.Ref.binStep] at h
    obtain ⟨q, _, hc⟩ := res_bind_ok h
    exact cast_tag q t w hc
  · have hb' : ArrL.Ref.binStep op t a b = vmBin Gen.NumTables.binType op a b := by
      cases op <;> first | rfl | exact absurd rfl hd
    rw [hb'] at h
    rcases hop with hop | hop
    · exact absurd hop hd
    · exact vmBin_tag op a b w t hd (by rw [hta, htb]; exact hop) h

/-- the operator tail of a binary expression: `CopyAToB; PopValueStackIntoA; <op>; [Cast t]` -/
theorem bin_tail (code : Code) (op : Op) (t : Ty) (p : Pos) (q : Nat) (τ : Vm) (a bv : Val) (vs : List RV)
    (hc : CodeAt code q ([(CInstr.copyAToB, p), (CInstr.popA, p), (CInstr.bin op, p)] ++
      (if op = .divide then [(CInstr.cast t, p)] else [])))
    (hpc : τ.pc = q) (ha : τ.regs.a = .sc bv) (hv : τ.vals = .sc a :: vs) :
    match ArrL.Ref.binStep op t a bv with
    | .ok w => Steps code τ { τ with pc := q + 3 + (if op = .divide then 1 else 0),
                                      regs := { τ.regs with a := .sc w, b := bv }, vals := vs }
    | .err e => ErrsWith code τ (ArrL.Ref.codeOf e) p τ.out
    | .inexact => True := by
  have h0 : code[τ.pc]? = some (CInstr.copyAToB, p) := by rw [hpc]; exact hc.append_left.head
  have h1 : code[τ.pc + 1]? = some (CInstr.popA, p) := by rw [hpc]; exact hc.append_left.tail.head
  have h2 : code[τ.pc + 1 + 1]? = some (CInstr.bin op, p) := by rw [hpc]; exact hc.append_left.tail.tail.head
  let τ1 : Vm := Vm.advance { τ with regs := { τ.regs with a := .sc bv, b := bv } }
  let τ2 : Vm := Vm.advance { Vm.setRA τ1 (.sc a) with vals := vs }
  have s1 : Vm.step code τ = .next τ1 := by simp only [Vm.step, h0, onA, ha]; rfl
  have s2 : Vm.step code τ1 = .next τ2 := by
    simp only [Vm.step, τ1, Vm.advance, h1, hv]; rfl
  have s3 : Vm.step code τ2 = Vm.resA τ2 p (Vm.binInstr op a bv) := by
    simp only [Vm.step, τ2, τ1, Vm.advance, Vm.setRA, h2, onA]
  have st : Steps code τ τ2 := Steps.cons s1 (Steps.one s2)
  rw [binStep_eq]
  by_cases hd : op = .divide
  · simp only [hd, if_true] at hc ⊢
    have h3 : code[τ.pc + 1 + 1 + 1]? = some (CInstr.cast t, p) := by
      rw [hpc]; exact hc.append_right.head
    subst hd
    cases hb : Vm.binInstr .divide a bv with
    | ok qv =>
      let τ3 : Vm := Vm.advance (Vm.setA τ2 qv)
      have s3' : Vm.step code τ2 = .next τ3 := by rw [s3, hb]; rfl
      have s4 : Vm.step code τ3 = Vm.resA τ3 p (cast qv t) := by
        simp only [Vm.step, τ3, τ2, τ1, Vm.advance, Vm.setA, Vm.setRA, h3, onA]
      simp only [Res.bind]
      cases hcst : cast qv t with
      | ok w =>
        simp only
        refine st.trans (Steps.cons s3' (Steps.one ?_))
        rw [s4, hcst]
        simp only [Vm.resA, τ3, τ2, τ1, Vm.advance, Vm.setA, Vm.setRA, hpc]
      | err e =>
        simp only
        refine ⟨τ3, τ3, st.trans (Steps.one s3'), ?_, rfl⟩
        rw [s4, hcst]; rfl
      | inexact => simp
    | err e =>
      simp only [Res.bind]
      refine ⟨τ2, τ2, st, ?_, rfl⟩
      rw [s3, hb]; rfl
    | inexact => simp [Res.bind]
  · simp only [hd, if_false]
    cases hb : Vm.binInstr op a bv with
    | ok w =>
      simp only
      refine st.trans (Steps.one ?_)
      rw [s3, hb]
      simp only [Vm.resA, τ2, τ1, Vm.advance, Vm.setA, Vm.setRA, hpc, Nat.add_zero]
    | err e =>
      simp only
      refine ⟨τ2, τ2, st, ?_, rfl⟩
      rw [s3, hb]; rfl
    | inexact => simp

theorem case_bin (code : Code) (sc : Scope) (op : Op) (l r : ArrL.Expr) (t : Ty) (p : Pos)
    (hL : ExprSpec code sc l) (hR : ExprSpec code sc r) : ExprSpec code sc (.bin op l r t p) := by
  intro off s σ hc hpc hr hw
  simp only [EWf] at hw
  obtain ⟨hwl, hwr, hop⟩ := hw
  simp only [compileExpr] at hc
  have hcl : CodeAt code off (compileExpr l) := hc.append_left.append_left.append_left.append_left
  have hpush : code[off + (compileExpr l).length]? = some (CInstr.pushA, p) :=
    hc.append_left.append_left.append_left.append_right.head
  have hcr : CodeAt code (off + (compileExpr l).length + 1) (compileExpr r) := by
    have := hc.append_left.append_left.append_right
    simp only [List.length_append, List.length_singleton] at this
    exact this.at (by omega)
  have hct : CodeAt code (off + (compileExpr l).length + 1 + (compileExpr r).length)
      ([(CInstr.copyAToB, p), (CInstr.popA, p), (CInstr.bin op, p)] ++
        (if op = .divide then [(CInstr.cast t, p)] else [])) := by
    have h1 := hc.append_left.append_right
    have h2 := hc.append_right
    intro i hi
    by_cases h3 : i < 3
    · have := h1 i (by simpa using h3)
      simp only [List.length_append, List.length_singleton] at this
      rw [List.getElem?_append_left (by simpa using h3)]
      rw [← this]; congr 1; omega
    · have := h2 (i - 3) (by simp at hi ⊢; omega)
      simp only [List.length_append, List.length_cons, List.length_nil] at this
      rw [List.getElem?_append_right (by simp; omega)]
      simp only [List.length_cons, List.length_nil]
      rw [← this]; congr 1; omega
  have hl := hL off s σ hcl hpc hr hwl
  have hlen : (compileExpr (.bin op l r t p)).length =
      (compileExpr l).length + 1 + (compileExpr r).length + 3 + (if op = .divide then 1 else 0) := by
    simp only [compileExpr, List.length_append, List.length_singleton, List.length_cons, List.length_nil]
    by_cases hd : op = .divide <;> simp [hd]
  rw [hlen]
  simp only [ArrL.Ref.eval, ArrL.Expr.ty]
  generalize ArrL.Ref.eval s.env s.arrs l = rl at hl ⊢
  cases rl with
  | err c q => exact hl
  | inexact => trivial
  | illFormed => trivial
  | ok a =>
    obtain ⟨τ1, st1, hp1, ha1, hrel1, hss1, htag1⟩ := hl
    -- push the left value
    let τ2 : Vm := Vm.advance { τ1 with vals := τ1.regs.a :: τ1.vals }
    have spush : Vm.step code τ1 = .next τ2 := by
      have : code[τ1.pc]? = some (CInstr.pushA, p) := by rw [hp1]; exact hpush
      simp only [Vm.step, this]; rfl
    have hrel2 : Rel sc s τ2 := hrel1.same rfl rfl rfl rfl rfl rfl rfl
    have hrr := hR (off + (compileExpr l).length + 1) s τ2 hcr (by simp [τ2, Vm.advance, hp1]) hrel2 hwr
    simp only [ArrL.Ref.ERes.bind]
    generalize ArrL.Ref.eval s.env s.arrs r = rr at hrr ⊢
    have pre12 : Steps code σ τ2 := st1.trans (Steps.one spush)
    cases rr with
    | err c q => exact ErrsWith.of_steps pre12 hrr
    | inexact => trivial
    | illFormed => trivial
    | ok bv =>
      obtain ⟨τ3, st3, hp3, ha3, hrel3, hss3, htag3⟩ := hrr
      have hv3 : τ3.vals = .sc a :: σ.vals := by
        rw [hss3.vals]; simp only [τ2, Vm.advance]; rw [ha1, hss1.vals]
      have tail := bin_tail code op t p _ τ3 a bv σ.vals hct hp3 ha3 hv3
      have pre13 : Steps code σ τ3 := pre12.trans st3
      simp only
      cases hb : ArrL.Ref.binStep op t a bv with
      | ok w =>
        simp only [hb] at tail
        simp only [ArrL.Ref.lift, ExprPost]
        refine ⟨_, pre13.trans tail, ?_, rfl, hrel3.same rfl rfl rfl rfl rfl rfl rfl, ?_,
          binStep_tag op l r t a bv w htag1 htag3 hop hb⟩
        · simp only; omega
        · refine ⟨by simp [hss1.vals], ?_, ?_, ?_, ?_, ?_⟩
          · simp only; rw [hss3.paths]; simp only [τ2, Vm.advance]; exact hss1.paths
          · simp only; rw [hss3.regStack]; simp only [τ2, Vm.advance]; exact hss1.regStack
          · simp only; rw [hss3.ctx]; simp only [τ2, Vm.advance]; exact hss1.ctx
          · simp only; rw [hss3.trace]; simp only [τ2, Vm.advance]; exact hss1.trace
          · intro hk; exact hss3.skip (hss1.skip hk)
      | err e =>
        simp only [hb] at tail
        simp only [ArrL.Ref.lift, ExprPost]
        rw [← hrel3.out]
        exact ErrsWith.of_steps pre13 tail
      | inexact => simp only [ArrL.Ref.lift, ExprPost]

/-- element read `a(i…)`: `VarPathName a · ⟦i…⟧path · CopyVarPathToA · PopVarPath` -/
theorem case_elem (code : Code) (sc : Scope) (a : Nat) (idx : Exprs) (t : Ty) (p : Pos) (hI : IdxSpec code sc idx) :
    ExprSpec code sc (.elem a idx t p) := by
  intro off s σ hc hpc hr hw
  simp only [EWf] at hw
  obtain ⟨hwa, hne, hwi⟩ := hw
  simp only [compileExpr] at hc
  have hpath := path_correct code sc a idx p hI off s σ hc.append_left hpc hr hwi
  have hlen : (compileExpr (.elem a idx t p)).length = 1 + (compileIdx idx).length + 2 := by
    simp only [compileExpr, List.length_append, List.length_singleton, List.length_cons, List.length_nil]
  rw [hlen]
  simp only [ArrL.Ref.eval, ArrL.Expr.ty]
  cases hev : ArrL.Ref.evalIdx s.env s.arrs idx with
  | err c q => rw [hev] at hpath; exact hpath
  | inexact => trivial
  | illFormed => trivial
  | ok is =>
    rw [hev] at hpath
    obtain ⟨τ, st, hp, ha, hrel, hpaths, hvals, hregs, hctx, htr, hsk⟩ := hpath
    simp only [ArrL.Ref.ERes.bind, ArrL.Ref.getArr]
    cases hA : s.arrs[a]? with
    | none => trivial
    | some oA =>
      cases oA with
      | none => trivial
      | some A =>
        simp only
        have hcv : code[τ.pc]? = some (CInstr.copyVarPathToA, p) := by
          have := hc.append_right.head
          simp only [List.length_append, List.length_singleton] at this
          rw [hp, ← this]
        have hpop : code[τ.pc + 1]? = some (CInstr.popVarPath, p) := by
          have := hc.append_right.tail.head
          simp only [List.length_append, List.length_singleton] at this
          rw [hp, ← this]
        have hpaths' : τ.paths = ⟨.arr a, is⟩ :: σ.paths := by simpa using hpaths
        have hstep := elem_read_step code sc s τ a t is A σ.paths p hrel hwa hA (evalIdx_ne_nil hev hne) hpaths' hcv
        by_cases hb : A.inBounds is = true
        · simp only [hb, if_true] at hstep ⊢
          obtain ⟨s1, htag⟩ := hstep
          let τ1 : Vm := Vm.advance (Vm.setRA τ (.sc (A.get is)))
          have s2 : Vm.step code τ1 = .next (Vm.advance { τ1 with paths := σ.paths }) := by
            simp only [Vm.step, τ1, Vm.advance, Vm.setRA, hpop, hpaths']
          refine ⟨_, st.trans (Steps.cons s1 (Steps.one s2)), ?_, rfl, hrel.same rfl rfl rfl rfl rfl rfl rfl,
            ⟨hvals, rfl, hregs, hctx, htr, hsk⟩, htag⟩
          simp only [τ1, Vm.advance, Vm.setRA, hp]; omega
        · simp only [hb] at hstep ⊢
          simp only [ExprPost]
          rw [← hrel.out]
          exact ⟨τ, τ, st, hstep, rfl⟩

/-! ### LBOUND / UBOUND -/

/-- the bound the reference semantics reports is the one the VM's built-in computes from the dimensions -/
theorem boundOf_eq (up : Bool) (A : RArr) (V : VArr) (hd : V.dims = A.bounds) (k : Int) (p : Pos) (hk : k > 0) :
    ArrL.Ref.boundOf up A k p =
      match (if up then Arr.ubound V k else Arr.lbound V k) with
      | some b => .ok (.int b)
      | none => .err ArrL.Ref.codeSubscript p := by
  have hk' : ¬ (k ≤ 0) := by omega
  simp only [ArrL.Ref.boundOf, hk', if_false, Arr.ubound, Arr.lbound, Arr.dimBounds, hk, if_true, hd]
  cases hb : A.bounds[k.toNat - 1]? with
  | none => cases up <;> simp
  | some b => obtain ⟨lo, hi⟩ := b; cases up <;> simp

theorem boundOf_nonpos (up : Bool) (A : RArr) (k : Int) (p : Pos) (hk : ¬ k > 0) :
    ArrL.Ref.boundOf up A k p = .err ArrL.Ref.codeSubscript p := by
  have hk' : k ≤ 0 := by omega
  simp only [ArrL.Ref.boundOf, hk', if_true]

/-- `LBOUND(a)` / `UBOUND(a)`: the array goes into A, into the argument list, into the by-reference queue and back
into the variable; the result is stashed over `PopStack` and ends up in A -/
theorem case_bound (code : Code) (sc : Scope) (up : Bool) (a : Nat) (t : Ty) (ap p : Pos) :
    ExprSpec code sc (.bound up a t ap p) := by
  intro off s σ hc hpc hr hw
  simp only [EWf] at hw
  simp only [compileExpr] at hc
  simp only [ArrL.Ref.eval, ArrL.Expr.ty, ArrL.Ref.getArr, compileExpr, List.length_cons, List.length_nil]
  cases hA : s.arrs[a]? with
  | none => trivial
  | some oA =>
    cases oA with
    | none => trivial
    | some A =>
      simp only [ArrL.Ref.ERes.bind]
      obtain ⟨V, hV, hAV⟩ := hr.arrs.lookup hw hA
      have halt := hr.arrLt hw
      subst hpc
      have h0 : code[σ.pc]? = some (CInstr.beginArgs, p) := hc.head
      have h1 : code[σ.pc + 1]? = some (CInstr.arrPath a, ap) := hc.tail.head
      have h2 : code[σ.pc + 1 + 1]? = some (CInstr.copyVarPathToA, ap) := hc.tail.tail.head
      have h3 : code[σ.pc + 1 + 1 + 1]? = some (CInstr.pushByRef, ap) := hc.tail.tail.tail.head
      have h4 : code[σ.pc + 1 + 1 + 1 + 1]? = some (CInstr.pushStack, p) := hc.tail.tail.tail.tail.head
      have h5 : code[σ.pc + 1 + 1 + 1 + 1 + 1]? = some (CInstr.builtInBound up, p) :=
        hc.tail.tail.tail.tail.tail.head
      have h6 : code[σ.pc + 1 + 1 + 1 + 1 + 1 + 1]? = some (CInstr.enqueue 0, ap) :=
        hc.tail.tail.tail.tail.tail.tail.head
      have h7 : code[σ.pc + 1 + 1 + 1 + 1 + 1 + 1 + 1]? = some (CInstr.stashBound up, p) :=
        hc.tail.tail.tail.tail.tail.tail.tail.head
      have h8 : code[σ.pc + 1 + 1 + 1 + 1 + 1 + 1 + 1 + 1]? = some (CInstr.popStack, p) :=
        hc.tail.tail.tail.tail.tail.tail.tail.tail.head
      have h9 : code[σ.pc + 1 + 1 + 1 + 1 + 1 + 1 + 1 + 1 + 1]? = some (CInstr.dequeue, ap) :=
        hc.tail.tail.tail.tail.tail.tail.tail.tail.tail.head
      have h10 : code[σ.pc + 1 + 1 + 1 + 1 + 1 + 1 + 1 + 1 + 1 + 1]? = some (CInstr.arrPath a, ap) :=
        hc.tail.tail.tail.tail.tail.tail.tail.tail.tail.tail.head
      have h11 : code[σ.pc + 1 + 1 + 1 + 1 + 1 + 1 + 1 + 1 + 1 + 1 + 1]? = some (CInstr.copyAToVarPath, ap) :=
        hc.tail.tail.tail.tail.tail.tail.tail.tail.tail.tail.tail.head
      have h12 : code[σ.pc + 1 + 1 + 1 + 1 + 1 + 1 + 1 + 1 + 1 + 1 + 1 + 1]? = some (CInstr.unStash, p) :=
        hc.tail.tail.tail.tail.tail.tail.tail.tail.tail.tail.tail.tail.head
      let arg : RV × Option Path := (.arr V, some ⟨.arr a, []⟩)
      let σ1 : Vm := Vm.advance { σ with ctx := ⟨[], none⟩ :: σ.ctx }
      let σ2 : Vm := Vm.advance { σ1 with paths := ⟨.arr a, []⟩ :: σ.paths }
      let σ3 : Vm := Vm.advance (Vm.setRA σ2 (.arr V))
      let σ4 : Vm := Vm.advance { σ3 with ctx := ⟨[arg], none⟩ :: σ.ctx, paths := σ.paths }
      let σ5 : Vm := Vm.advance { σ4 with trace := p :: σ.trace }
      have s1 : Vm.step code σ = .next σ1 := by simp only [Vm.step, h0]; rfl
      have s2 : Vm.step code σ1 = .next σ2 := by simp only [Vm.step, σ1, Vm.advance, h1]; rfl
      have s3 : Vm.step code σ2 = .next σ3 := by
        simp only [Vm.step, σ2, σ1, Vm.advance, h2, readPath, hV]; rfl
      have s4 : Vm.step code σ3 = .next σ4 := by
        simp only [Vm.step, σ3, σ2, σ1, Vm.advance, Vm.setRA, h3]; rfl
      have s5 : Vm.step code σ4 = .next σ5 := by
        simp only [Vm.step, σ4, σ3, σ2, σ1, Vm.advance, Vm.setRA, h4]; rfl
      have pre5 : Steps code σ σ5 := Steps.cons s1 (Steps.cons s2 (Steps.cons s3 (Steps.cons s4 (Steps.one s5))))
      have hrun : boundRun up [arg] =
          match (if up then Arr.ubound V 1 else Arr.lbound V 1) with
          | some b => .inl (.ok (.int b))
          | none => .inl (.error ArrL.Ref.codeSubscript) := by
        simp only [boundRun, arg, List.getElem?_cons_zero, List.getElem?_cons_succ, List.getElem?_nil]
        cases (if up then Arr.ubound V 1 else Arr.lbound V 1) <;> rfl
      rw [boundOf_eq up A V hAV.dims 1 p (by omega)]
      cases hb : (if up then Arr.ubound V 1 else Arr.lbound V 1) with
      | none =>
        simp only [ExprPost]
        rw [hb] at hrun
        refine ⟨σ5, σ5, pre5, ?_, hr.out⟩
        simp only [Vm.step, σ5, σ4, σ3, σ2, σ1, Vm.advance, Vm.setRA, h5, hrun]
        rfl
      | some b =>
        rw [hb] at hrun
        let σ6 : Vm := Vm.advance { σ5 with ctx := ⟨[arg], some (.int b)⟩ :: σ.ctx }
        let σ7 : Vm := Vm.advance { σ6 with queue := [arg] }
        let σ8 : Vm := Vm.advance { σ7 with funRes := some (.int b) }
        let σ9 : Vm := Vm.advance { σ8 with ctx := σ.ctx, trace := σ.trace }
        let σ10 : Vm := Vm.advance { Vm.setRA σ9 (.arr V) with queue := [] }
        let σ11 : Vm := Vm.advance { σ10 with paths := ⟨.arr a, []⟩ :: σ.paths }
        let σ12 : Vm := Vm.advance { σ11 with arrs := σ.arrs.set a (some V), paths := σ.paths }
        let σ13 : Vm := Vm.advance { Vm.setA σ12 (.int b) with funRes := none }
        have s6 : Vm.step code σ5 = .next σ6 := by
          simp only [Vm.step, σ5, σ4, σ3, σ2, σ1, Vm.advance, Vm.setRA, h5, hrun]; rfl
        have s7 : Vm.step code σ6 = .next σ7 := by
          simp only [Vm.step, σ6, σ5, σ4, σ3, σ2, σ1, Vm.advance, Vm.setRA, h6, hr.queue,
            List.getElem?_cons_zero, List.nil_append]; rfl
        have s8 : Vm.step code σ7 = .next σ8 := by
          simp only [Vm.step, σ7, σ6, σ5, σ4, σ3, σ2, σ1, Vm.advance, Vm.setRA, h7]; rfl
        have s9 : Vm.step code σ8 = .next σ9 := by
          simp only [Vm.step, σ8, σ7, σ6, σ5, σ4, σ3, σ2, σ1, Vm.advance, Vm.setRA, h8]; rfl
        have s10 : Vm.step code σ9 = .next σ10 := by
          simp only [Vm.step, σ9, σ8, σ7, σ6, σ5, σ4, σ3, σ2, σ1, Vm.advance, Vm.setRA, h9]; rfl
        have s11 : Vm.step code σ10 = .next σ11 := by
          simp only [Vm.step, σ10, σ9, σ8, σ7, σ6, σ5, σ4, σ3, σ2, σ1, Vm.advance, Vm.setRA, h10]; rfl
        have s12 : Vm.step code σ11 = .next σ12 := by
          simp only [Vm.step, σ11, σ10, σ9, σ8, σ7, σ6, σ5, σ4, σ3, σ2, σ1, Vm.advance, Vm.setRA, h11,
            writePath, halt, if_true]; rfl
        have s13 : Vm.step code σ12 = .next σ13 := by
          simp only [Vm.step, σ12, σ11, σ10, σ9, σ8, σ7, σ6, σ5, σ4, σ3, σ2, σ1, Vm.advance, Vm.setRA, h12]; rfl
        have hset : σ.arrs.set a (some V) = σ.arrs := set_getElem?_self hV
        simp only [ExprPost]
        refine ⟨σ13, pre5.trans (Steps.cons s6 (Steps.cons s7 (Steps.cons s8 (Steps.cons s9 (Steps.cons s10
          (Steps.cons s11 (Steps.cons s12 (Steps.one s13)))))))), rfl, rfl, ?_, ⟨rfl, rfl, rfl, rfl, rfl, id⟩, rfl⟩
        exact hr.same rfl hset rfl rfl rfl hr.queue.symm hr.funRes.symm

/-- the code of `LBOUND(a, d)` / `UBOUND(a, d)`, regrouped -/
theorem compile_boundD (up : Bool) (a : Nat) (t : Ty) (ap : Pos) (d : ArrL.Expr) (p : Pos) :
    compileExpr (.boundD up a t ap d p) =
      [(CInstr.beginArgs, p), (CInstr.arrPath a, ap), (CInstr.copyVarPathToA, ap), (CInstr.pushByRef, ap)] ++
      ((if d.isRef then (compileExpr d).dropLast ++ [(CInstr.pushByRef, d.pos)]
        else compileExpr d ++ [(CInstr.pushByVal, d.pos)]) ++
      (([(CInstr.pushStack, p), (CInstr.builtInBound up, p), (CInstr.enqueue 0, ap)] ++
        (if d.isRef then [(CInstr.enqueue 1, d.pos)] else []) ++
        [(CInstr.stashBound up, p), (CInstr.popStack, p), (CInstr.dequeue, ap), (CInstr.arrPath a, ap),
         (CInstr.copyAToVarPath, ap)]) ++
      (writeBackOf d ++ [(CInstr.unStash, p)]))) := by
  simp only [compileExpr, List.append_assoc]

/-- the end of `LBOUND(a, d)` / `UBOUND(a, d)`: what the reference semantics prescribes for the converted dimension,
from the state in which both arguments are collected; `finish` runs the write-back of `d` and `UnStash` -/
theorem boundD_finish (code : Code) (sc : Scope) (up : Bool) (a : Nat) (t : Ty) (p : Pos) (n off : Nat) (s : St)
    (σ τ : Vm) (A : RArr) (V : VArr) (o1 o2 : Option Path) (dv : Val)
    (pre : Steps code σ τ) (hcall : CodeAt code τ.pc [(CInstr.pushStack, p), (CInstr.builtInBound up, p)])
    (hctx : τ.ctx = ⟨[(.arr V, o1), (.sc dv, o2)], none⟩ :: σ.ctx) (hout : τ.out = s.out) (hAV : ArrRel t A V)
    (finish : ∀ v, boundRun up [(.arr V, o1), (.sc dv, o2)] = .inl (.ok v) →
      ∃ υ, Steps code τ υ ∧ υ.pc = off + n ∧ υ.regs.a = .sc v ∧ Rel sc s υ ∧ SameStacks σ υ) :
    ExprPost code sc n .int off s σ
      ((ArrL.Ref.toIndex p (cast dv .int)).bind fun k => ArrL.Ref.boundOf up A k p) := by
  have hrun := boundRun_two up V o1 o2 dv A p hAV.dims
  generalize ((ArrL.Ref.toIndex p (cast dv .int)).bind fun k => ArrL.Ref.boundOf up A k p) = r at hrun ⊢
  cases r with
  | inexact => trivial
  | illFormed => trivial
  | err c q =>
    obtain ⟨hq, hrun⟩ := hrun
    subst hq
    simp only [ExprPost]
    rw [← hout]
    exact ErrsWith.of_steps pre (bound_call_error code up q τ _ σ.ctx c hcall hctx hrun)
  | ok v =>
    obtain ⟨υ, st, hp, ha, hrel, hss⟩ := finish v hrun
    have hvt : v.tag = .int := by
      simp only [boundRun] at hrun
      split at hrun
      · cases hrun
      · cases hrun
      · split at hrun
        · split at hrun
          · injection hrun with h; injection h with h; rw [← h]; rfl
          · cases hrun
        · cases hrun
        · cases hrun
    exact ⟨υ, pre.trans st, hp, ha, hrel, hss, hvt⟩

/-- `LBOUND(a, d)` / `UBOUND(a, d)` with a by-value dimension argument -/
theorem case_boundD_val (code : Code) (sc : Scope) (up : Bool) (a : Nat) (t : Ty) (ap : Pos) (d : ArrL.Expr) (p : Pos)
    (hD : ExprSpec code sc d) (hnr : d.isRef = false) : ExprSpec code sc (.boundD up a t ap d p) := by
  intro off s σ hc hpc hr hw
  simp only [EWf] at hw
  obtain ⟨hwa, hwd⟩ := hw
  have hwb : writeBackOf d = [] := by
    cases d <;> first | rfl | (simp [ArrL.Expr.isRef] at hnr)
  rw [compile_boundD] at hc ⊢
  simp only [hnr, Bool.false_eq_true, if_false, hwb, List.nil_append, List.append_nil] at hc ⊢
  simp only [ArrL.Ref.eval, ArrL.Expr.ty, ArrL.Ref.getArr]
  cases hA : s.arrs[a]? with
  | none => trivial
  | some oA =>
    cases oA with
    | none => trivial
    | some A =>
      simp only [ArrL.Ref.ERes.bind]
      obtain ⟨V, hV, hAV⟩ := hr.arrs.lookup hwa hA
      subst hpc
      have st0 := bound_head_steps code a p ap σ V hc.append_left hV
      let σ4 : Vm := { σ with pc := σ.pc + 4, regs := { σ.regs with a := .arr V },
                              ctx := ⟨[(.arr V, some ⟨.arr a, []⟩)], none⟩ :: σ.ctx }
      have hr4 : Rel sc s σ4 := hr.same rfl rfl rfl rfl rfl rfl rfl
      have hcd : CodeAt code (σ.pc + 4) (compileExpr d) := hc.append_right.append_left.append_left
      have hd := hD (σ.pc + 4) s σ4 hcd rfl hr4 hwd
      generalize ArrL.Ref.eval s.env s.arrs d = rd at hd ⊢
      cases rd with
      | err c q => exact ErrsWith.of_steps st0 hd
      | inexact => trivial
      | illFormed => trivial
      | ok dv =>
        obtain ⟨τ, st, hp, ha, hrel, hss, htag⟩ := hd
        have hctxτ : τ.ctx = ⟨[(.arr V, some ⟨.arr a, []⟩)], none⟩ :: σ.ctx := hss.ctx
        have hpv : code[τ.pc]? = some (CInstr.pushByVal, d.pos) := by
          have := hc.append_right.append_left.append_right.head
          rw [hp, ← this]; rfl
        let τ1 : Vm := Vm.advance { τ with ctx := ⟨[(.arr V, some ⟨.arr a, []⟩), (.sc dv, none)], none⟩ :: σ.ctx }
        have s1 : Vm.step code τ = .next τ1 := by
          simp only [Vm.step, hpv, hctxτ, ha]; rfl
        have hmid : CodeAt code τ1.pc [(CInstr.pushStack, p), (CInstr.builtInBound up, p), (CInstr.enqueue 0, ap),
            (CInstr.stashBound up, p), (CInstr.popStack, p), (CInstr.dequeue, ap), (CInstr.arrPath a, ap),
            (CInstr.copyAToVarPath, ap)] := by
          have := hc.append_right.append_right.append_left
          refine this.cast ?_ rfl
          simp only [τ1, Vm.advance, hp, List.length_append, List.length_cons, List.length_nil]; omega
        have hun : code[τ1.pc + 8]? = some (CInstr.unStash, p) := by
          have := hc.append_right.append_right.append_right.head
          rw [← this]; congr 1
          simp only [τ1, Vm.advance, hp, List.length_append, List.length_cons, List.length_nil]; omega
        refine boundD_finish code sc up a t p _ σ.pc s σ τ1 A V _ _ dv (st0.trans (st.trans (Steps.one s1)))
          (CodeAt.append_left (b := [(CInstr.enqueue 0, ap), (CInstr.stashBound up, p), (CInstr.popStack, p),
            (CInstr.dequeue, ap), (CInstr.arrPath a, ap), (CInstr.copyAToVarPath, ap)]) hmid) rfl hrel.out hAV ?_
        intro v hrun
        have stM := bound_mid_val code up a p ap τ1 _ σ.ctx V _ v hmid rfl hrel.queue rfl hrun (hrel.arrLt hwa)
        let υ : Vm := { τ1 with pc := τ1.pc + 8, regs := { τ1.regs with a := .arr V }, funRes := some v,
                                ctx := σ.ctx, arrs := τ1.arrs.set a (some V) }
        have stU := unstash_step code p υ v hun rfl
        refine ⟨_, stM.trans stU, ?_, rfl, ?_, ?_⟩
        · simp only [υ, τ1, Vm.advance, hp, List.length_append, List.length_cons, List.length_nil]; omega
        · exact ⟨hrel.env, hrel.typed, hrel.arrs.set_same hwa hA hAV, hrel.out, hrel.data, hrel.dataIdx, hrel.queue, rfl⟩
        · exact ⟨hss.vals, hss.paths, hss.regStack, rfl, hss.trace, hss.skip⟩

/-- `LBOUND(a, x)` / `UBOUND(a, x)` with a variable as the dimension argument (by reference: written back unchanged) -/
theorem case_boundD_var (code : Code) (sc : Scope) (up : Bool) (a : Nat) (t : Ty) (ap : Pos) (x : Nat) (tx : Ty)
    (q p : Pos) : ExprSpec code sc (.boundD up a t ap (.var x tx q) p) := by
  intro off s σ hc hpc hr hw
  simp only [EWf] at hw
  obtain ⟨hwa, hwx⟩ := hw
  rw [compile_boundD] at hc ⊢
  simp only [ArrL.Expr.isRef, if_true, writeBackOf, compileExpr, List.dropLast, ArrL.Expr.pos] at hc ⊢
  simp only [ArrL.Ref.eval, ArrL.Expr.ty, ArrL.Ref.getArr]
  cases hA : s.arrs[a]? with
  | none => trivial
  | some oA =>
    cases oA with
    | none => trivial
    | some A =>
      simp only [ArrL.Ref.ERes.bind]
      obtain ⟨V, hV, hAV⟩ := hr.arrs.lookup hwa hA
      subst hpc
      have st0 := bound_head_steps code a p ap σ V hc.append_left hV
      let σ4 : Vm := { σ with pc := σ.pc + 4, regs := { σ.regs with a := .arr V },
                              ctx := ⟨[(.arr V, some ⟨.arr a, []⟩)], none⟩ :: σ.ctx }
      have hr4 : Rel sc s σ4 := hr.same rfl rfl rfl rfl rfl rfl rfl
      have hxv : σ4.env[x]? = some (s.env.getD x (zeroOf tx)) := hr4.getVar hwx
      have st1 := push_var_steps code x q σ4 _ σ.ctx _ hc.append_right.append_left rfl hxv
      let dv : Val := s.env.getD x (zeroOf tx)
      let τ1 : Vm := { σ4 with pc := σ4.pc + 3, regs := { σ4.regs with a := .sc dv },
                               ctx := ⟨[(.arr V, some ⟨.arr a, []⟩), (.sc dv, some ⟨.var x, []⟩)], none⟩ :: σ.ctx }
      have hmid : CodeAt code τ1.pc [(CInstr.pushStack, p), (CInstr.builtInBound up, p), (CInstr.enqueue 0, ap),
          (CInstr.enqueue 1, q),
          (CInstr.stashBound up, p), (CInstr.popStack, p), (CInstr.dequeue, ap), (CInstr.arrPath a, ap),
          (CInstr.copyAToVarPath, ap)] := hc.append_right.append_right.append_left
      have hwbk : CodeAt code (τ1.pc + 9) [(CInstr.dequeue, q), (CInstr.varPath x, q), (CInstr.copyAToVarPath, q)] :=
        hc.append_right.append_right.append_right.append_left
      have hun : code[τ1.pc + 9 + 3]? = some (CInstr.unStash, p) :=
        hc.append_right.append_right.append_right.append_right.head
      refine boundD_finish code sc up a t p _ σ.pc s σ τ1 A V _ _ dv (st0.trans st1)
        (CodeAt.append_left (b := [(CInstr.enqueue 0, ap), (CInstr.enqueue 1, q), (CInstr.stashBound up, p),
          (CInstr.popStack, p), (CInstr.dequeue, ap), (CInstr.arrPath a, ap), (CInstr.copyAToVarPath, ap)]) hmid)
        rfl hr.out hAV ?_
      intro v hrun
      have stM := bound_mid_ref code up a p ap q τ1 _ σ.ctx V _ _ v hmid rfl hr.queue rfl rfl hrun (hr.arrLt hwa)
      let υ : Vm := { τ1 with pc := τ1.pc + 9, regs := { τ1.regs with a := .arr V }, funRes := some v,
                              ctx := σ.ctx, queue := [(.sc dv, some ⟨.var x, []⟩)], arrs := τ1.arrs.set a (some V) }
      have stW := deq_var_steps code x q υ dv _ [] hwbk rfl (hr.lt hwx)
      let φ : Vm := { υ with pc := υ.pc + 3, regs := { υ.regs with a := .sc dv }, queue := [],
                             env := υ.env.set x dv }
      have stU := unstash_step code p φ v hun rfl
      refine ⟨_, stM.trans (stW.trans stU), ?_, rfl, ?_, ?_⟩
      · simp only [φ, υ, τ1, σ4, List.length_append, List.length_cons, List.length_nil]
      · refine ⟨?_, hr.typed, hr.arrs.set_same hwa hA hAV, hr.out, hr.data, hr.dataIdx, rfl, rfl⟩
        show σ.env.set x dv = s.env
        rw [set_getElem?_self (hr.getVar hwx)]; exact hr.env
      · exact ⟨rfl, rfl, rfl, rfl, rfl, id⟩

/-- `LBOUND(a, b(i…))` / `UBOUND(a, b(i…))` with an array element as the dimension argument (by reference: the path
resolved before the call is queued and the value written back unchanged) -/
theorem case_boundD_elem (code : Code) (sc : Scope) (up : Bool) (a : Nat) (t : Ty) (ap : Pos) (a' : Nat) (idx : Exprs)
    (td : Ty) (q p : Pos) (hI : IdxSpec code sc idx) :
    ExprSpec code sc (.boundD up a t ap (.elem a' idx td q) p) := by
  intro off s σ hc hpc hr hw
  simp only [EWf] at hw
  obtain ⟨hwa, hwa', hne, hwi⟩ := hw
  have hdl : (compileExpr (.elem a' idx td q)).dropLast =
      [(CInstr.arrPath a', q)] ++ compileIdx idx ++ [(CInstr.copyVarPathToA, q)] := by
    have : compileExpr (.elem a' idx td q) =
        ([(CInstr.arrPath a', q)] ++ compileIdx idx ++ [(CInstr.copyVarPathToA, q)]) ++ [(CInstr.popVarPath, q)] := by
      simp [compileExpr]
    rw [this, List.dropLast_concat]
  rw [compile_boundD] at hc ⊢
  simp only [ArrL.Expr.isRef, if_true, writeBackOf, hdl, ArrL.Expr.pos] at hc ⊢
  simp only [ArrL.Ref.eval, ArrL.Expr.ty, ArrL.Ref.getArr]
  cases hA : s.arrs[a]? with
  | none => trivial
  | some oA =>
    cases oA with
    | none => trivial
    | some A =>
      simp only [ArrL.Ref.ERes.bind]
      obtain ⟨V, hV, hAV⟩ := hr.arrs.lookup hwa hA
      subst hpc
      have st0 := bound_head_steps code a p ap σ V hc.append_left hV
      let σ4 : Vm := { σ with pc := σ.pc + 4, regs := { σ.regs with a := .arr V },
                              ctx := ⟨[(.arr V, some ⟨.arr a, []⟩)], none⟩ :: σ.ctx }
      have hr4 : Rel sc s σ4 := hr.same rfl rfl rfl rfl rfl rfl rfl
      have hpath := path_correct code sc a' idx q hI (σ.pc + 4) s σ4 hc.append_right.append_left.append_left.append_left
        rfl hr4 hwi
      cases hev : ArrL.Ref.evalIdx s.env s.arrs idx with
      | err c r => rw [hev] at hpath; exact ErrsWith.of_steps st0 hpath
      | inexact => trivial
      | illFormed => trivial
      | ok is =>
        rw [hev] at hpath
        obtain ⟨τ, st, hp, ha, hrel, hpaths, hvals, hregs, hctx, htr, hsk⟩ := hpath
        simp only [ArrL.Ref.ERes.bind]
        cases hA' : s.arrs[a']? with
        | none => trivial
        | some oA' =>
          cases oA' with
          | none => trivial
          | some A' =>
            simp only
            have hisne := evalIdx_ne_nil hev hne
            have hpaths' : τ.paths = ⟨.arr a', is⟩ :: σ.paths := by simpa using hpaths
            have hcv : CodeAt code τ.pc [(CInstr.copyVarPathToA, q), (CInstr.pushByRef, q)] := by
              have h1 := hc.append_right.append_left
              have e : ([(CInstr.arrPath a', q)] ++ compileIdx idx ++ [(CInstr.copyVarPathToA, q)]) ++
                  [(CInstr.pushByRef, q)] =
                  ([(CInstr.arrPath a', q)] ++ compileIdx idx) ++ [(CInstr.copyVarPathToA, q), (CInstr.pushByRef, q)] := by
                simp
              rw [e] at h1
              refine h1.append_right.cast ?_ rfl
              rw [hp]; simp only [List.length_append, List.length_cons, List.length_nil] <;> omega
            obtain ⟨V', hV', hAV'⟩ := hrel.arrs.lookup hwa' hA'
            by_cases hb : A'.inBounds is = true
            · simp only [hb, if_true]
              have hg : Arr.getElem V' is = some (A'.get is) := hAV'.get is ((inBox_iff _ _).mp hb)
              have st1 := push_elem_steps code a' is q τ _ σ.ctx σ.paths V' (A'.get is) hcv hctx hpaths' hV' hisne hg
              let dv : Val := A'.get is
              let τ1 : Vm := { τ with pc := τ.pc + 2, regs := { τ.regs with a := .sc dv }, paths := σ.paths,
                                      ctx := ⟨[(.arr V, some ⟨.arr a, []⟩), (.sc dv, some ⟨.arr a', is⟩)], none⟩ :: σ.ctx }
              have hτ1pc : τ1.pc = σ.pc + 4 + (1 + (compileIdx idx).length + 1 + 1) := by
                simp only [τ1, hp]; omega
              have hmid : CodeAt code τ1.pc [(CInstr.pushStack, p), (CInstr.builtInBound up, p),
                  (CInstr.enqueue 0, ap), (CInstr.enqueue 1, q),
                  (CInstr.stashBound up, p), (CInstr.popStack, p), (CInstr.dequeue, ap), (CInstr.arrPath a, ap),
                  (CInstr.copyAToVarPath, ap)] := by
                have := hc.append_right.append_right.append_left
                refine this.cast ?_ rfl
                rw [hτ1pc]; simp only [List.length_append, List.length_cons, List.length_nil] <;> omega
              have hwbk : CodeAt code (τ1.pc + 9) [(CInstr.dequeuePath, q), (CInstr.copyAToVarPath, q)] := by
                have := hc.append_right.append_right.append_right.append_left
                refine this.cast ?_ rfl
                rw [hτ1pc]; simp only [List.length_append, List.length_cons, List.length_nil] <;> omega
              have hun : code[τ1.pc + 9 + 2]? = some (CInstr.unStash, p) := by
                have := hc.append_right.append_right.append_right.append_right.head
                rw [← this]; congr 1
                rw [hτ1pc]; simp only [List.length_append, List.length_cons, List.length_nil] <;> omega
              refine boundD_finish code sc up a t p _ σ.pc s σ τ1 A V _ _ dv (st0.trans (st.trans st1))
                (CodeAt.append_left (b := [(CInstr.enqueue 0, ap), (CInstr.enqueue 1, q), (CInstr.stashBound up, p),
                  (CInstr.popStack, p), (CInstr.dequeue, ap), (CInstr.arrPath a, ap), (CInstr.copyAToVarPath, ap)]) hmid)
                rfl hrel.out hAV ?_
              intro v hrun
              have stM := bound_mid_ref code up a p ap q τ1 _ σ.ctx V _ _ v hmid rfl hrel.queue rfl rfl hrun
                (hrel.arrLt hwa)
              let υ : Vm := { τ1 with pc := τ1.pc + 9, regs := { τ1.regs with a := .arr V }, funRes := some v,
                                      ctx := σ.ctx, queue := [(.sc dv, some ⟨.arr a', is⟩)],
                                      arrs := τ1.arrs.set a (some V) }
              have harrs : ArrsRel sc.arrs s.arrs υ.arrs := hrel.arrs.set_same hwa hA hAV
              obtain ⟨V1, hV1, hAV1⟩ := harrs.lookup hwa' hA'
              have hg1 : Arr.getElem V1 is = some dv := hAV1.get is ((inBox_iff _ _).mp hb)
              have stW := deq_elem_steps code a' is q υ dv [] V1 V1 hwbk rfl hV1 hisne (setElem_get_self hg1)
              let φ : Vm := { υ with pc := υ.pc + 2, regs := { υ.regs with a := .sc dv }, queue := [],
                                     arrs := υ.arrs.set a' (some V1) }
              have stU := unstash_step code p φ v hun rfl
              refine ⟨_, stM.trans (stW.trans stU), ?_, rfl, ?_, ?_⟩
              · show τ1.pc + 9 + 2 + 1 = _
                rw [hτ1pc]; simp only [List.length_append, List.length_cons, List.length_nil] <;> omega
              · refine ⟨hrel.env, hrel.typed, ?_, hrel.out, hrel.data, hrel.dataIdx, rfl, rfl⟩
                show ArrsRel sc.arrs s.arrs (υ.arrs.set a' (some V1))
                rw [set_getElem?_self hV1]; exact harrs
              · exact ⟨hvals, rfl, hregs, rfl, htr, hsk⟩
            · simp only [hb]
              have hstep := elem_read_step code sc s τ a' td is A' σ.paths q hrel hwa' hA' hisne hpaths' hcv.head
              simp only [hb] at hstep
              simp only [ExprPost]
              rw [← hrel.out]
              exact ⟨τ, τ, st0.trans st, hstep, rfl⟩

/-! ### all expressions, all subscript lists -/

mutual
/-- **expressions**: the code of every well-formed expression leaves `Ref.eval` of it in register A (as a scalar of the
expression's static type), or ends the run with the error the reference semantics reports, at the same position -/
theorem expr_correct (code : Code) (sc : Scope) : (e : ArrL.Expr) → ExprSpec code sc e
  | .lit v p => case_lit code sc v p
  | .var x t p => case_var code sc x t p
  | .un op e p => case_un code sc op e p (expr_correct code sc e)
  | .bin op l r t p => case_bin code sc op l r t p (expr_correct code sc l) (expr_correct code sc r)
  | .paren e p => case_paren code sc e p (expr_correct code sc e)
  | .elem a idx t p => case_elem code sc a idx t p (idx_correct code sc idx)
  | .bound up a t ap p => case_bound code sc up a t ap p
  | .boundD up a t ap (.var x tx q) p => case_boundD_var code sc up a t ap x tx q p
  | .boundD up a t ap (.elem a' idx td q) p => case_boundD_elem code sc up a t ap a' idx td q p (idx_correct code sc idx)
  | .boundD up a t ap (.lit v q) p =>
    case_boundD_val code sc up a t ap (.lit v q) p (case_lit code sc v q) rfl
  | .boundD up a t ap (.un op e q) p =>
    case_boundD_val code sc up a t ap (.un op e q) p (case_un code sc op e q (expr_correct code sc e)) rfl
  | .boundD up a t ap (.bin op l r tb q) p =>
    case_boundD_val code sc up a t ap (.bin op l r tb q) p
      (case_bin code sc op l r tb q (expr_correct code sc l) (expr_correct code sc r)) rfl
  | .boundD up a t ap (.paren e q) p =>
    case_boundD_val code sc up a t ap (.paren e q) p (case_paren code sc e q (expr_correct code sc e)) rfl
  | .boundD up a t ap (.bound up' a' t' ap' q) p =>
    case_boundD_val code sc up a t ap (.bound up' a' t' ap' q) p (case_bound code sc up' a' t' ap' q) rfl
  | .boundD up a t ap (.boundD up' a' t' ap' d' q) p =>
    case_boundD_val code sc up a t ap (.boundD up' a' t' ap' d' q) p
      (expr_correct code sc (.boundD up' a' t' ap' d' q)) rfl
/-- **subscript lists**: the code of the subscripts extends the path on top of the path stack by `Ref.evalIdx` of them -/
theorem idx_correct (code : Code) (sc : Scope) : (idx : Exprs) → IdxSpec code sc idx
  | .nil => case_idx_nil code sc
  | .cons e rest => case_idx_cons code sc e rest (expr_correct code sc e) (idx_correct code sc rest)
end

/-- `exprTo_correct` for every expression -/
theorem exprTo_correct' (code : Code) (sc : Scope) (e : ArrL.Expr) (t : Ty) (off : Nat) (s : St) (σ : Vm)
    (hc : CodeAt code off (compileExprTo e t)) (hpc : σ.pc = off) (hr : Rel sc s σ) (hw : EWf sc e) :
    ExprPost code sc (compileExprTo e t).length t off s σ (ArrL.Ref.evalTo s.env s.arrs e t) :=
  exprTo_correct code sc e (expr_correct code sc e) t off s σ hc hpc hr hw

/-- `cond_correct` for every condition -/
theorem cond_correct' (code : Code) (sc : Scope) (c : ArrL.Expr) (target : Nat) (p : Pos) (off : Nat) (s : St) (σ : Vm)
    (hc : CodeAt code off (compileExpr c ++ [(CInstr.jumpIfFalse target, p)])) (hpc : σ.pc = off)
    (hr : Rel sc s σ) (hw : EWf sc c) (hn : c.ty ≠ .str) :
    CondPost code sc (off + (compileExpr c).length + 1) target s σ (ArrL.Ref.evalCond s c) :=
  cond_correct code sc c (expr_correct code sc c) target p off s σ hc hpc hr hw hn

/-- `evalE_correct` for every expression -/
theorem evalE_correct' (code : Code) (sc : Scope) (e : ArrL.Expr) (off : Nat) (s : St) (σ : Vm)
    (hc : CodeAt code off (compileExpr e)) (hpc : σ.pc = off) (hr : Rel sc s σ) (hw : EWf sc e) :
    ValPost code sc (compileExpr e).length e.ty off s σ (ArrL.Ref.evalE s e) :=
  evalE_correct code sc e (expr_correct code sc e) off s σ hc hpc hr hw

end RbThm.ArrLSim
