import RbModel.ProcJ.Ref
import RbModel.ProcJ.Vm
import Thm.ProcJLen
import Thm.ProcSimBase
import RbModel.ProcJ.WfB
/-!
Layer "procedures ∪ jumps" (SUB / FUNCTION + labels, GOTO, GOSUB, RETURN in every scope), simulation part — the infrastructure.

The design is the union of `Thm/ProcSimBase.lean` (ONE induction on fuel whose hypothesis `IH W fuel` bundles expressions,
argument lists, calls and statements, because expressions thread the state) and `Thm/JmpLSimBase.lean` (a statement
specification that is *relative* in the register stack, the value stack and the GOSUB stack; two entry forms `run` / `seek L`;
`jump` and `ret` clauses).  What is new:

* `BodyCtx`: the body a statement belongs to (main module or one procedure) with its placement — what a GOSUB re-enters, and
  what follows the body in the code (`Halt` / the final `PopRet`);
* `ActInv`: the invariant of the running activation relative to the marks of its `PushRet` (heights of register stack, GOSUB
  stack, value stack, path stack): the activation never reaches below them, so `PopRet` (END SUB, EXIT SUB — also from inside
  GOSUB routines and their loops) and the `Return` test "only GOSUBs of the running procedure" are decided by the marks;
* `ExitedTo`: the state after the activation's `PopRet`, anchored at the bottom of the stacks (`truncTop`), so that it is the same
  fact from wherever inside the activation the exit was taken.

Reused from `Thm/ProcSimBase.lean` by import (they do not mention code or VM states): `Scope`, the frame lemmas (`getVar` /
`setVar`, `Collecting`, `curVars_pre …`), `TabRel`, `FrameRel`, `topState`, `StatRel`, `EWf`, `AWf`, `ItemsWf`, `CaseWf`,
`CondsWf`, `SelRelOp`.
-/
namespace RbThm.ProcJSim
set_option linter.unusedVariables false
set_option linter.unusedSimpArgs false
open RbModel RbModel.ProcJ RbModel.ProcJ.Compile RbModel.ProcJ.Vm
open RbModel.Num hiding Expr
open RbModel.Ast (Pos)
open RbModel.Proc (Var SlotTabs Expr Args PrintItem CaseExpr ProcDecl zeroOf Sigs sigsOf)
open RbModel.Proc.Compile (Layout Layout.addr sizeExpr sizePush refCount sizeExprTo sizeSubCall sizeItems sizeCaseExpr sizeConds
  sizeExit labelName stepSuffix maxPos)
open RbModel.Proc.Vm (Regs Regs.new Frame CtxState getVar setVar curVars modCur curStatic applyArgs readVars binInstr)
open RbModel.ProcJ.Ref (Outcome Mode Act)
open RbThm.ProcJLen
open RbThm.ProcSim (Scope Collecting curVars_pre curVars_pre_s curStatic_pre curStatic_pre_s modCur_pre TabRel TabRel.set
  FrameRel FrameRel.set topState ogetVar StatRel getVar_setVar_same getVar_setVar_ne getElem?_setVar_ne created_setVar
  EWf AWf ItemsWf SelRelOp CaseWf CondsWf lslot list_set_getD_self truthy_of_tag)

abbrev St := RbModel.Proc.Ref.St
abbrev Typed := RbThm.C01Sim.Typed

/-- what the whole proof is relative to: the program of the reference semantics, the code the VM runs, the layout
(addresses of the procedures' labels and their STATIC flags) and the label environment (depths and addresses of the user
labels of every scope) the generator used, and the signature table of the procedures -/
structure World where
  P : Program
  code : Code
  lay : Layout
  env : LEnv
  sg : Sigs

/-! ### code placement -/

/-- the fragment `frag` sits in `code` at address `off` -/
def CodeAt (code : Code) (off : Nat) (frag : Code) : Prop :=
  ∀ i, i < frag.length → code[off + i]? = frag[i]?

theorem CodeAt.nil (code : Code) (off : Nat) : CodeAt code off [] := by
  intro i hi; simp at hi

theorem CodeAt.append_left {code : Code} {off : Nat} {a b : Code} (h : CodeAt code off (a ++ b)) :
    CodeAt code off a := by
  intro i hi
  have := h i (by simp; omega)
  rw [this, List.getElem?_append_left hi]

theorem CodeAt.append_right {code : Code} {off : Nat} {a b : Code} (h : CodeAt code off (a ++ b)) :
    CodeAt code (off + a.length) b := by
  intro i hi
  have := h (a.length + i) (by simp; omega)
  rw [Nat.add_assoc, this, List.getElem?_append_right (by omega)]
  congr 1; omega

theorem CodeAt.head {code : Code} {off : Nat} {x : CInstr × Pos} {rest : Code}
    (h : CodeAt code off (x :: rest)) : code[off]? = some x := by
  have := h 0 (by simp)
  simpa using this

theorem CodeAt.tail {code : Code} {off : Nat} {x : CInstr × Pos} {rest : Code}
    (h : CodeAt code off (x :: rest)) : CodeAt code (off + 1) rest := by
  have := CodeAt.append_right (a := [x]) (b := rest) (by simpa using h)
  simpa using this

/-- re-addressing: the same fragment at a provably equal address -/
theorem CodeAt.at {code : Code} {off off' : Nat} {frag : Code} (h : CodeAt code off frag) (e : off = off') :
    CodeAt code off' frag := e ▸ h

/-- re-addressing with a provably equal fragment -/
theorem CodeAt.cast {code : Code} {off off' : Nat} {frag frag' : Code} (h : CodeAt code off frag) (e : off = off')
    (e' : frag = frag') : CodeAt code off' frag' := e ▸ e' ▸ h

/-! ### execution -/

/-- zero or more successful steps -/
inductive Steps (code : Code) : Vm → Vm → Prop
  | refl (σ : Vm) : Steps code σ σ
  | cons {σ τ υ : Vm} : Vm.step code σ = .next τ → Steps code τ υ → Steps code σ υ

theorem Steps.trans {code : Code} {a b c : Vm} (h₁ : Steps code a b) (h₂ : Steps code b c) : Steps code a c := by
  induction h₁ with
  | refl => exact h₂
  | cons hs _ ih => exact Steps.cons hs (ih h₂)

theorem Steps.one {code : Code} {σ τ : Vm} (h : Vm.step code σ = .next τ) : Steps code σ τ :=
  Steps.cons h (Steps.refl τ)

theorem Steps.cast {code : Code} {σ τ τ' : Vm} (h : Steps code σ τ) (e : τ = τ') : Steps code σ τ' := e ▸ h

/-- the run reaches a state whose next step raises the BASIC error `(c, p)`, with the output `out` -/
def ErrsWith (code : Code) (σ : Vm) (c : Nat) (p : Pos) (out : Print.WritePrinter) : Prop :=
  ∃ τ υ, Steps code σ τ ∧ Vm.step code τ = .error c p υ ∧ υ.out = out

/-- the run reaches a `Halt` (END / SYSTEM, also inside a procedure) with the output `out` -/
def HaltsWith (code : Code) (σ : Vm) (out : Print.WritePrinter) : Prop :=
  ∃ τ υ, Steps code σ τ ∧ Vm.step code τ = .halt υ ∧ υ.out = out

theorem ErrsWith.of_steps {code : Code} {σ τ : Vm} {c : Nat} {p : Pos} {out}
    (h₁ : Steps code σ τ) (h₂ : ErrsWith code τ c p out) : ErrsWith code σ c p out := by
  obtain ⟨a, b, h, hs, ho⟩ := h₂
  exact ⟨a, b, h₁.trans h, hs, ho⟩

theorem HaltsWith.of_steps {code : Code} {σ τ : Vm} {out}
    (h₁ : Steps code σ τ) (h₂ : HaltsWith code τ out) : HaltsWith code σ out := by
  obtain ⟨a, b, h, hs, ho⟩ := h₂
  exact ⟨a, b, h₁.trans h, hs, ho⟩

/-! ### frames: lazily created variables -/

/-! ### the state relation -/

structure Rel (W : World) (sc : Scope) (pre below : List CtxState) (s : St) (σ : Vm) : Prop where
  coll : Collecting pre
  self : s.self = sc.self
  ctx : ∃ fr, σ.ctx = pre ++ topState sc fr :: below ∧ σ.curFrame = some fr ∧ FrameRel sc fr s.locals
  /-- every variable of the activation holds a value of its declared type -/
  typed : Typed sc.slots.loc s.locals
  gl : sc.slots.glob = W.P.gslots
  glob : TabRel W.P.gslots σ.glob s.glob
  gtyped : Typed W.P.gslots s.glob
  stat : ∀ f d, W.P.procs[f]? = some d → d.static = true → StatRel d.slots (σ.statics f) (s.statics f)
  scok : ∀ f, sc.self = some f → ∃ d, W.P.procs[f]? = some d ∧ d.static = true ∧ sc.slots.loc = d.slots
  out : σ.out = s.out
  data : σ.data = s.data
  dataIdx : σ.dataIdx = s.dataIdx
  /-- nothing is waiting in the by-reference return queue, no function result is stashed -/
  queue : σ.queue = []
  funRes : σ.funRes = none

theorem locals_congr {s s' : St} (he : s'.env = s.env) (hs : s'.self = s.self) (hst : s'.statics = s.statics) :
    s'.locals = s.locals := by
  unfold RbModel.Proc.Ref.St.locals
  rw [hs, he, hst]

theorem curFrame_congr {σ τ : Vm} (hc : τ.ctx = σ.ctx) (hs : τ.statics = σ.statics) : τ.curFrame = σ.curFrame := by
  unfold Vm.curFrame
  rw [hc, hs]

/-- a VM state that agrees with a related one on the context stack and the global components is related to a reference
state that agrees with the old one on the variables -/
theorem Rel.congr {W : World} {sc : Scope} {pre below : List CtxState} {s s' : St} {σ τ : Vm} (h : Rel W sc pre below s σ)
    (hc : τ.ctx = σ.ctx) (he : s'.env = s.env) (ho : τ.out = s'.out) (hd : τ.data = s'.data)
    (hi : τ.dataIdx = s'.dataIdx) (hq : τ.queue = []) (hf : τ.funRes = none)
    (hself : s'.self = s.self := by rfl) (hg : s'.glob = s.glob := by rfl) (hst : s'.statics = s.statics := by rfl)
    (hcg : τ.glob = σ.glob := by rfl) (hcs : τ.statics = σ.statics := by rfl) : Rel W sc pre below s' τ := by
  obtain ⟨fr, h1, h2, h3⟩ := h.ctx
  have hl := locals_congr he hself hst
  exact ⟨h.coll, by rw [hself]; exact h.self, ⟨fr, by rw [hc, h1], by rw [curFrame_congr hc hcs]; exact h2, by rw [hl]; exact h3⟩,
    by rw [hl]; exact h.typed, h.gl, by rw [hcg, hg]; exact h.glob, by rw [hg]; exact h.gtyped,
    by rw [hcs, hst]; exact h.stat, h.scok, ho, hd, hi, hq, hf⟩

/-- only the program counter, the registers and the stacks differ -/
theorem Rel.same {W : World} {sc : Scope} {pre below : List CtxState} {s : St} {σ τ : Vm} (h : Rel W sc pre below s σ)
    (hc : τ.ctx = σ.ctx) (ho : τ.out = σ.out) (hd : τ.data = σ.data) (hi : τ.dataIdx = σ.dataIdx)
    (hq : τ.queue = σ.queue) (hf : τ.funRes = σ.funRes)
    (hcg : τ.glob = σ.glob := by rfl) (hcs : τ.statics = σ.statics := by rfl) : Rel W sc pre below s τ :=
  h.congr hc rfl (by rw [ho, h.out]) (by rw [hd, h.data]) (by rw [hi, h.dataIdx]) (by rw [hq, h.queue])
    (by rw [hf, h.funRes]) rfl rfl rfl hcg hcs

theorem Rel.advance {W : World} {sc : Scope} {pre below : List CtxState} {s : St} {σ : Vm} (h : Rel W sc pre below s σ) :
    Rel W sc pre below s (advance σ) := h.same rfl rfl rfl rfl rfl rfl

theorem Rel.setPc {W : World} {sc : Scope} {pre below : List CtxState} {s : St} {σ : Vm} (h : Rel W sc pre below s σ) (a : Nat) :
    Rel W sc pre below s { σ with pc := a } := h.same rfl rfl rfl rfl rfl rfl

theorem Rel.setA {W : World} {sc : Scope} {pre below : List CtxState} {s : St} {σ : Vm} (h : Rel W sc pre below s σ) (v : Val) :
    Rel W sc pre below s (setA σ v) := h.same rfl rfl rfl rfl rfl rfl

theorem Rel.curVars {W : World} {sc : Scope} {pre below : List CtxState} {s : St} {σ : Vm} (h : Rel W sc pre below s σ) :
    ∃ fr, σ.curFrame = some fr ∧ FrameRel sc fr s.locals := by
  obtain ⟨fr, _, h2, h3⟩ := h.ctx
  exact ⟨fr, h2, h3⟩

/-- the type of a shared reference is its entry in the program's table of DIM SHARED variables -/
theorem Rel.gslot {W : World} {sc : Scope} {pre below : List CtxState} {s : St} {σ : Vm} (h : Rel W sc pre below s σ)
    {x : Var} {t : Ty} (hx : sc.slots.get? x = some t) (hsh : x.shared = true) : W.P.gslots[x.slot]? = some t := by
  rw [← h.gl]
  simpa [SlotTabs.get?, hsh] using hx

/-- reading a variable: the VM finds the value the reference semantics reads -/
theorem Rel.getV {W : World} {sc : Scope} {pre below : List CtxState} {s : St} {σ : Vm} (h : Rel W sc pre below s σ)
    {x : Var} {t : Ty} (hx : sc.slots.get? x = some t) : σ.getV x t = some (s.get x t) := by
  unfold Vm.getV RbModel.Proc.Ref.St.get
  cases hsh : x.shared with
  | true =>
    simp only [if_true]
    rw [h.glob x.slot t (h.gslot hx hsh)]
  | false =>
    obtain ⟨fr, h2, h3⟩ := h.curVars
    simp only [Bool.false_eq_true, if_false, h2]
    rw [h3.get x.slot t (lslot hx hsh)]

/-- a variable holds a value of its declared type -/
theorem Rel.get_tag {W : World} {sc : Scope} {pre below : List CtxState} {s : St} {σ : Vm} (h : Rel W sc pre below s σ)
    {x : Var} {t : Ty} (hx : sc.slots.get? x = some t) : (s.get x t).tag = t := by
  unfold RbModel.Proc.Ref.St.get
  cases hsh : x.shared with
  | true =>
    simp only [if_true]
    exact RbThm.C01Sim.SimRead.typed_getD_tag h.gtyped (h.gslot hx hsh) _
  | false =>
    simp only [Bool.false_eq_true, if_false]
    exact RbThm.C01Sim.SimRead.typed_getD_tag h.typed (lslot hx hsh) _

/-- writing back the value a variable already has changes nothing -/
theorem set_get_self {W : World} {sc : Scope} {pre below : List CtxState} {s : St} {σ : Vm} (h : Rel W sc pre below s σ)
    {x : Var} {t : Ty} (hx : sc.slots.get? x = some t) : s.set x (s.get x t) = s := by
  unfold RbModel.Proc.Ref.St.set RbModel.Proc.Ref.St.get
  cases hsh : x.shared with
  | true =>
    simp only [if_true]
    rw [list_set_getD_self _ _ _ (h.gtyped.lt (h.gslot hx hsh))]
  | false =>
    simp only [Bool.false_eq_true, if_false]
    have hlt := h.typed.lt (lslot hx hsh)
    unfold RbModel.Proc.Ref.St.setLocal
    unfold RbModel.Proc.Ref.St.locals at hlt ⊢
    cases hs : s.self with
    | none =>
      simp only [hs] at hlt ⊢
      rw [list_set_getD_self _ _ _ hlt]
      cases s; simp only at hs; subst hs; rfl
    | some f =>
      simp only [hs] at hlt ⊢
      have : (fun g => if g = f then (s.statics f).set x.slot ((s.statics f).getD x.slot (zeroOf t)) else s.statics g)
          = s.statics := by
        funext g
        by_cases hg : g = f
        · subst hg; simp only [if_true]; exact list_set_getD_self _ _ _ hlt
        · simp only [hg, if_false]
      rw [this]
      cases s; simp only at hs; subst hs; rfl

/-- storing a value of the slot's type into a variable (of the current activation, or a DIM SHARED one) -/
theorem Rel.store {W : World} {sc : Scope} {pre below : List CtxState} {s : St} {σ τ : Vm} (h : Rel W sc pre below s σ)
    {x : Var} {t : Ty} {v : Val} (hx : sc.slots.get? x = some t) (hv : v.tag = t)
    (hc : τ.ctx = (σ.setV x v).ctx) (ho : τ.out = σ.out) (hd : τ.data = σ.data)
    (hi : τ.dataIdx = σ.dataIdx) (hq : τ.queue = σ.queue) (hf : τ.funRes = σ.funRes)
    (hcg : τ.glob = (σ.setV x v).glob := by rfl) (hcs : τ.statics = (σ.setV x v).statics := by rfl) :
    Rel W sc pre below (s.set x v) τ := by
  obtain ⟨fr, h1, h2, h3⟩ := h.ctx
  cases hsh : x.shared with
  | true =>
    have hxg := h.gslot hx hsh
    have e1 : s.set x v = { s with glob := s.glob.set x.slot v } := by simp [RbModel.Proc.Ref.St.set, hsh]
    have e2 : σ.setV x v = { σ with glob := setVar σ.glob x.slot v } := by simp [Vm.setV, hsh]
    rw [e2] at hc hcg hcs
    rw [e1]
    exact ⟨h.coll, h.self, ⟨fr, by rw [hc, h1], by rw [curFrame_congr hc hcs]; exact h2, h3⟩, h.typed, h.gl,
      by rw [hcg]; exact TabRel.set h.glob hxg h.gtyped.1 v, RbThm.C01Sim.SimRead.typed_set h.gtyped hxg hv,
      by rw [hcs]; exact h.stat, h.scok, by rw [ho, h.out], by rw [hd, h.data], by rw [hi, h.dataIdx],
      by rw [hq, h.queue], by rw [hf, h.funRes]⟩
  | false =>
    have hxl := lslot hx hsh
    cases hself : sc.self with
    | none =>
      have hs0 : s.self = none := by rw [h.self, hself]
      have hloc : s.locals = s.env := by simp [RbModel.Proc.Ref.St.locals, hs0]
      have e1 : s.set x v = { s with env := s.env.set x.slot v } := by
        simp [RbModel.Proc.Ref.St.set, hsh, RbModel.Proc.Ref.St.setLocal, hs0]
      have htop : topState sc fr = .frame fr := by simp [topState, hself]
      rw [htop] at h1
      have e2 : σ.setV x v = { σ with ctx := pre ++ .frame (setVar fr x.slot v) :: below } := by
        simp only [Vm.setV, hsh, Bool.false_eq_true, if_false, Vm.setLocal, h1, curStatic_pre h.coll]
        rw [modCur_pre _ h.coll]
      rw [e2] at hc hcg hcs
      rw [e1]
      have hl' : ({ s with env := s.env.set x.slot v } : St).locals = s.env.set x.slot v := by
        simp [RbModel.Proc.Ref.St.locals, hs0]
      rw [hloc] at h3
      refine ⟨h.coll, h.self, ⟨setVar fr x.slot v, by rw [hc, topState, hself], ?_, ?_⟩, ?_, h.gl,
        by rw [hcg]; exact h.glob, h.gtyped, by rw [hcs]; exact h.stat, h.scok, by rw [ho, h.out],
        by rw [hd, h.data], by rw [hi, h.dataIdx], by rw [hq, h.queue], by rw [hf, h.funRes]⟩
      · unfold Vm.curFrame; rw [hc]; exact curVars_pre _ h.coll _ _
      · rw [hl']; exact h3.set hxl (by rw [← hloc]; exact h.typed.1) v
      · rw [hl']; exact RbThm.C01Sim.SimRead.typed_set (by rw [← hloc]; exact h.typed) hxl hv
    | some f =>
      have hs0 : s.self = some f := by rw [h.self, hself]
      have hloc : s.locals = s.statics f := by simp [RbModel.Proc.Ref.St.locals, hs0]
      have e1 : s.set x v =
          { s with statics := fun g => if g = f then (s.statics f).set x.slot v else s.statics g } := by
        simp [RbModel.Proc.Ref.St.set, hsh, RbModel.Proc.Ref.St.setLocal, hs0]
      have htop : topState sc fr = .sframe f := by simp [topState, hself]
      rw [htop] at h1
      have hsf : σ.statics f = some fr := by
        have := h2; unfold Vm.curFrame at this; rw [h1, curVars_pre_s _ h.coll] at this; exact this
      have e2 : σ.setV x v =
          { σ with statics := fun g => if g = f then some (setVar fr x.slot v) else σ.statics g } := by
        simp only [Vm.setV, hsh, Bool.false_eq_true, if_false, Vm.setLocal, h1, curStatic_pre_s h.coll, hsf, Option.map]
      rw [e2] at hc hcg hcs
      rw [e1]
      have hl' : ({ s with statics := fun g => if g = f then (s.statics f).set x.slot v else s.statics g } : St).locals
          = (s.statics f).set x.slot v := by
        simp [RbModel.Proc.Ref.St.locals, hs0]
      rw [hloc] at h3
      have hty : Typed sc.slots.loc ((s.statics f).set x.slot v) :=
        RbThm.C01Sim.SimRead.typed_set (by rw [← hloc]; exact h.typed) hxl hv
      have hfr : FrameRel sc (setVar fr x.slot v) ((s.statics f).set x.slot v) :=
        h3.set hxl (by rw [← hloc]; exact h.typed.1) v
      refine ⟨h.coll, h.self, ⟨setVar fr x.slot v, by rw [hc, h1, topState, hself], ?_, ?_⟩, ?_, h.gl,
        by rw [hcg]; exact h.glob, h.gtyped, ?_, h.scok, by rw [ho, h.out],
        by rw [hd, h.data], by rw [hi, h.dataIdx], by rw [hq, h.queue], by rw [hf, h.funRes]⟩
      · unfold Vm.curFrame; rw [hc, hcs, h1, curVars_pre_s _ h.coll]; simp
      · rw [hl']; exact hfr
      · rw [hl']; exact hty
      · intro g d hd' hst
        rw [hcs]
        by_cases hg : g = f
        · subst hg
          obtain ⟨d0, hd0, _, hsl⟩ := h.scok g hself
          have : d = d0 := by rw [hd0] at hd'; exact (Option.some.inj hd').symm
          subst this
          simp only [if_true]
          exact ⟨by rw [← hsl]; exact hty, fun y u hy => by rw [← hsl] at hy; exact hfr.get y u hy⟩
        · simp only [hg, if_false]
          exact h.stat g d hd' hst

/-- what a construct leaves alone: value stack, path stack, register stack below the current frame of registers,
return addresses and marks, the GOSUB stack, stack trace; and it does not raise the "skip the newline" flag of PRINT -/
structure SameStacks (σ τ : Vm) : Prop where
  vals : τ.vals = σ.vals
  paths : τ.paths = σ.paths
  regStack : τ.regStack = σ.regStack
  rets : τ.rets = σ.rets
  marks : τ.marks = σ.marks
  gosubs : τ.gosubs = σ.gosubs
  trace : τ.trace = σ.trace
  skip : σ.skipNewline = false → τ.skipNewline = false

theorem SameStacks.refl (σ : Vm) : SameStacks σ σ := ⟨rfl, rfl, rfl, rfl, rfl, rfl, rfl, id⟩

theorem SameStacks.trans {a b c : Vm} (h₁ : SameStacks a b) (h₂ : SameStacks b c) : SameStacks a c :=
  ⟨h₂.vals.trans h₁.vals, h₂.paths.trans h₁.paths, h₂.regStack.trans h₁.regStack, h₂.rets.trans h₁.rets,
    h₂.marks.trans h₁.marks, h₂.gosubs.trans h₁.gosubs, h₂.trace.trans h₁.trace, fun h => h₂.skip (h₁.skip h)⟩

/-- the states agree on everything `SameStacks` mentions -/
theorem SameStacks.of_eq {σ τ : Vm} (h1 : τ.vals = σ.vals) (h2 : τ.paths = σ.paths) (h3 : τ.regStack = σ.regStack)
    (h4 : τ.rets = σ.rets) (h5 : τ.marks = σ.marks) (h5' : τ.gosubs = σ.gosubs) (h6 : τ.trace = σ.trace)
    (h7 : τ.skipNewline = σ.skipNewline) :
    SameStacks σ τ := ⟨h1, h2, h3, h4, h5, h5', h6, fun h => by rw [h7]; exact h⟩

/-! ### `Vec::truncate` on stacks kept top first -/

theorem truncTop_of_le {α : Type} (n : Nat) (l : List α) (h : l.length ≤ n) : truncTop n l = l := by
  unfold truncTop
  have : l.length - n = 0 := by omega
  rw [this]; rfl

theorem truncTop_length {α : Type} (n : Nat) (l : List α) (h : n ≤ l.length) : (truncTop n l).length = n := by
  unfold truncTop; simp; omega

/-- entries pushed on top do not matter for what stays at the bottom -/
theorem truncTop_append {α : Type} (n : Nat) (X l : List α) (h : n ≤ l.length) : truncTop n (X ++ l) = truncTop n l := by
  unfold truncTop
  rw [List.length_append, show X.length + l.length - n = X.length + (l.length - n) by omega, ← List.drop_drop,
    List.drop_left]

theorem truncTop_cons {α : Type} (n : Nat) (x : α) (l : List α) (h : n ≤ l.length) : truncTop n (x :: l) = truncTop n l :=
  truncTop_append n [x] l h

/-- … nor do entries dropped from the top, as long as the bottom `n` stay -/
theorem truncTop_drop {α : Type} (n k : Nat) (l : List α) (h : n + k ≤ l.length) : truncTop n (l.drop k) = truncTop n l := by
  unfold truncTop
  rw [List.drop_drop, List.length_drop]
  congr 1; omega

/-! ### the invariant of the running activation -/

/-- the invariant of an activation whose current statement sits at FOR depth `fd` and SELECT depth `sd` *of its body's text*.
Main module: no `PushRet` is pending (`marks = []`: every GOSUB on the stack is the main module's), at least `fd` register frames
and `sd` values are on the stacks, and between statements the PRINT flag is down.  Procedure: the marks `m` of the activation's
`PushRet` are on top of `marks`; at least `fd` register frames lie above `m.regs`, at least `sd` values above `m.vals` (more when
the statement belongs to a GOSUB routine called from inside FOR loops / SELECT blocks of the same body); the GOSUB stack is not
below `m.gosubs`; the path stack is exactly as high as at the call. -/
structure ActInv (sc : Scope) (fd sd : Nat) (σ : Vm) : Prop where
  quiet : sc.inProc = false → σ.skipNewline = false
  main : sc.inProc = false → σ.marks = [] ∧ fd ≤ σ.regStack.length ∧ sd ≤ σ.vals.length
  act : sc.inProc = true → ∃ a rets m marks, σ.rets = a :: rets ∧ σ.marks = m :: marks ∧
    m.regs + fd ≤ σ.regStack.length + 1 ∧ 1 ≤ m.regs ∧ m.vals + sd ≤ σ.vals.length ∧ m.gosubs ≤ σ.gosubs.length ∧
    σ.paths.length = m.paths

theorem ActInv.fd_le {sc : Scope} {fd sd : Nat} {σ : Vm} (h : ActInv sc fd sd σ) : fd ≤ σ.regStack.length := by
  cases hp : sc.inProc with
  | false => exact (h.main hp).2.1
  | true => obtain ⟨a, rets, m, marks, _, _, h3, h4, _⟩ := h.act hp; omega

theorem ActInv.sd_le {sc : Scope} {fd sd : Nat} {σ : Vm} (h : ActInv sc fd sd σ) : sd ≤ σ.vals.length := by
  cases hp : sc.inProc with
  | false => exact (h.main hp).2.2
  | true => obtain ⟨a, rets, m, marks, _, _, _, _, h5, _⟩ := h.act hp; omega

theorem ActInv.of_same {sc : Scope} {fd sd : Nat} {σ τ : Vm} (h : ActInv sc fd sd σ) (hs : SameStacks σ τ) :
    ActInv sc fd sd τ := by
  refine ⟨fun hp => hs.skip (h.quiet hp), fun hp => ?_, fun hp => ?_⟩
  · obtain ⟨h1, h2, h3⟩ := h.main hp
    exact ⟨by rw [hs.marks, h1], by rw [hs.regStack]; exact h2, by rw [hs.vals]; exact h3⟩
  · obtain ⟨a, rets, m, marks, h1, h2, h3, h4, h5, h6, h7⟩ := h.act hp
    exact ⟨a, rets, m, marks, by rw [hs.rets, h1], by rw [hs.marks, h2], by rw [hs.regStack]; exact h3, h4,
      by rw [hs.vals]; exact h5, by rw [hs.gosubs]; exact h6, by rw [hs.paths]; exact h7⟩

/-- a shallower statement of the same activation on the same stacks -/
theorem ActInv.weaken {sc : Scope} {fd sd fd' sd' : Nat} {σ : Vm} (h : ActInv sc fd sd σ) (hf : fd' ≤ fd) (hsd : sd' ≤ sd) :
    ActInv sc fd' sd' σ := by
  refine ⟨h.quiet, fun hp => ?_, fun hp => ?_⟩
  · obtain ⟨h1, h2, h3⟩ := h.main hp
    exact ⟨h1, by omega, by omega⟩
  · obtain ⟨a, rets, m, marks, h1, h2, h3, h4, h5, h6, h7⟩ := h.act hp
    exact ⟨a, rets, m, marks, h1, h2, by omega, h4, by omega, h6, h7⟩

/-- entering a FOR body: `PushRegisters` -/
theorem ActInv.enterFor {sc : Scope} {fd sd : Nat} {σ τ : Vm} (h : ActInv sc fd sd σ) (r : Regs)
    (hreg : τ.regStack = r :: σ.regStack) (hv : τ.vals = σ.vals) (hp : τ.paths = σ.paths) (hrets : τ.rets = σ.rets)
    (hm : τ.marks = σ.marks) (hg : τ.gosubs = σ.gosubs) (hk : σ.skipNewline = false → τ.skipNewline = false) :
    ActInv sc (fd + 1) sd τ := by
  refine ⟨fun hp => hk (h.quiet hp), fun hq => ?_, fun hq => ?_⟩
  · obtain ⟨h1, h2, h3⟩ := h.main hq
    exact ⟨by rw [hm, h1], by rw [hreg, List.length_cons]; omega, by rw [hv]; exact h3⟩
  · obtain ⟨a, rets, m, marks, h1, h2, h3, h4, h5, h6, h7⟩ := h.act hq
    exact ⟨a, rets, m, marks, by rw [hrets, h1], by rw [hm, h2], by rw [hreg, List.length_cons]; omega, h4,
      by rw [hv]; exact h5, by rw [hg]; exact h6, by rw [hp]; exact h7⟩

/-- entering a SELECT CASE: the subject is pushed on the value stack -/
theorem ActInv.enterSelect {sc : Scope} {fd sd : Nat} {σ τ : Vm} (h : ActInv sc fd sd σ) (v : Val)
    (hv : τ.vals = v :: σ.vals) (hreg : τ.regStack = σ.regStack) (hp : τ.paths = σ.paths) (hrets : τ.rets = σ.rets)
    (hm : τ.marks = σ.marks) (hg : τ.gosubs = σ.gosubs) (hk : σ.skipNewline = false → τ.skipNewline = false) :
    ActInv sc fd (sd + 1) τ := by
  refine ⟨fun hp => hk (h.quiet hp), fun hq => ?_, fun hq => ?_⟩
  · obtain ⟨h1, h2, h3⟩ := h.main hq
    exact ⟨by rw [hm, h1], by rw [hreg]; exact h2, by rw [hv, List.length_cons]; omega⟩
  · obtain ⟨a, rets, m, marks, h1, h2, h3, h4, h5, h6, h7⟩ := h.act hq
    exact ⟨a, rets, m, marks, by rw [hrets, h1], by rw [hm, h2], by rw [hreg]; exact h3, h4,
      by rw [hv, List.length_cons]; omega, by rw [hg]; exact h6, by rw [hp]; exact h7⟩

/-- a GOSUB has been executed: one more entry on the GOSUB stack, the routine starts at depths 0 / 0 of the body's text on top
of whatever frames and subjects the GOSUB statement had around it -/
theorem ActInv.enterGosub {sc : Scope} {fd sd : Nat} {σ τ : Vm} (h : ActInv sc fd sd σ) (g : Nat × Nat × Nat)
    (hg : τ.gosubs = g :: σ.gosubs) (hreg : τ.regStack = σ.regStack) (hv : τ.vals = σ.vals) (hp : τ.paths = σ.paths)
    (hrets : τ.rets = σ.rets) (hm : τ.marks = σ.marks) (hk : τ.skipNewline = σ.skipNewline) : ActInv sc 0 0 τ := by
  refine ⟨fun hp => by rw [hk]; exact h.quiet hp, fun hq => ?_, fun hq => ?_⟩
  · obtain ⟨h1, h2, h3⟩ := h.main hq
    exact ⟨by rw [hm, h1], Nat.zero_le _, Nat.zero_le _⟩
  · obtain ⟨a, rets, m, marks, h1, h2, h3, h4, h5, h6, h7⟩ := h.act hq
    exact ⟨a, rets, m, marks, by rw [hrets, h1], by rw [hm, h2], by rw [hreg]; omega, h4,
      by rw [hv]; omega, by rw [hg, List.length_cons]; omega, by rw [hp]; exact h7⟩

/-- the activation's `PopRet` has run from a state with the stacks of `σ` (END SUB, or `EXIT SUB / FUNCTION` after its
`PopRegisters` / `PopValueStackIntoA` runs): the four stacks are cut back to the marks of the activation's `PushRet` — whatever
FOR frames, SELECT subjects and GOSUBs of the activation were on top of them —, the return address and the marks are popped,
control is at the return address (the callee's frame is still on the context stack: the caller's epilogue pops it).  Anchored
at the bottom of the stacks: the same fact from wherever inside the activation the exit was taken. -/
structure ExitedTo (σ τ : Vm) : Prop where
  ret : ∃ a m, σ.rets = a :: τ.rets ∧ σ.marks = m :: τ.marks ∧ τ.pc = a ∧
    τ.regStack = truncTop (m.regs - 1) σ.regStack ∧ τ.vals = truncTop m.vals σ.vals ∧
    τ.gosubs = truncTop m.gosubs σ.gosubs
  paths : τ.paths = σ.paths
  trace : τ.trace = σ.trace
  skip : σ.skipNewline = false → τ.skipNewline = false

/-- the exit was taken from a state `σ'` reached inside a construct started at `σ`: the two states agree on what lies at the
bottom of the stacks -/
theorem ExitedTo.mono {σ σ' τ : Vm} (h : ExitedTo σ' τ) (hrets : σ'.rets = σ.rets) (hm : σ'.marks = σ.marks)
    (hreg : ∀ n, n + 1 ≤ (σ.marks.head?.map (·.regs)).getD 0 → truncTop n σ'.regStack = truncTop n σ.regStack)
    (hv : ∀ n, n ≤ (σ.marks.head?.map (·.vals)).getD 0 → truncTop n σ'.vals = truncTop n σ.vals)
    (hg : ∀ n, n ≤ (σ.marks.head?.map (·.gosubs)).getD 0 → truncTop n σ'.gosubs = truncTop n σ.gosubs)
    (hp : σ'.paths = σ.paths) (ht : σ'.trace = σ.trace)
    (hk : σ.skipNewline = false → σ'.skipNewline = false) : ExitedTo σ τ := by
  obtain ⟨a, m, h1, h2, h3, h4, h5, h6⟩ := h.ret
  have hm' : σ.marks = m :: τ.marks := by rw [← hm, h2]
  refine ⟨⟨a, m, by rw [← hrets, h1], hm', h3, ?_, ?_, ?_⟩, by rw [h.paths, hp], by rw [h.trace, ht],
    fun hh => h.skip (hk hh)⟩
  · rw [h4]
    by_cases h0 : m.regs = 0
    · -- nothing stays
      rw [h0]; simp [truncTop]
    · exact hreg _ (by simp only [hm', List.head?_cons, Option.map_some, Option.getD_some]; omega)
  · rw [h5]; exact hv _ (by simp [hm'])
  · rw [h6]; exact hg _ (by simp [hm'])

theorem ExitedTo.of_same {σ σ' τ : Vm} (h : ExitedTo σ' τ) (hs : SameStacks σ σ') : ExitedTo σ τ :=
  h.mono hs.rets hs.marks (fun _ _ => by rw [hs.regStack]) (fun _ _ => by rw [hs.vals]) (fun _ _ => by rw [hs.gosubs])
    hs.paths hs.trace hs.skip

/-! ### well-formedness -/

/-- a GOTO that leaves a construct (its label is not among `inner`) names a label that is not deeper than the construct -/
def Leaves (depthOf : Nat → Nat) (depth : Nat) (inner gotos : List Nat) : Prop :=
  ∀ L ∈ gotos, L ∈ inner ∨ depthOf L ≤ depth

mutual
/-- well-formed statements of a scope at FOR depth `d` and SELECT depth `e` of the body's text: the conditions of
`ProcSim.Wf` (slots, typing, conditions, guarded DIM in STATIC procedures, call annotations, EXIT only in procedures, no DATA)
and the jump discipline of `JmpLSim.Wf` (a GOTO names a label that is not deeper than itself; a GOTO that leaves a FOR body /
the blocks of a SELECT names a label that is not deeper than the FOR / SELECT; a GOSUB names a label at depths 0 / 0; the body
of a `FOR … STEP` defines no label); `labs` = the labels of the body the statement belongs to: every GOTO / GOSUB target is one of them
(labels are per procedure) -/
def Wf (sg : Sigs) (sc : Scope) (dp : Dp) (labs : List Nat) : Nat → Nat → SStmt → Prop
  | _, _, .skip => True
  | _, _, .comment => True
  | d, e, .seq a b => Wf sg sc dp labs d e a ∧ Wf sg sc dp labs d e b
  | _, _, .dim x t _ => sc.slots.get? x = some t ∧ sc.self = none
  | _, _, .sdim x t _ => sc.slots.loc[x]? = some t ∧ sc.self.isSome = true
  | _, _, .assign x t ex _ => sc.slots.get? x = some t ∧ EWf sg sc.slots ex
  | _, _, .print items _ => ItemsWf sg sc.slots items
  | d, e, .ifBlock c thn elifs hasElse els _ =>
    EWf sg sc.slots c ∧ c.ty ≠ .str ∧ Wf sg sc dp labs d e thn ∧ WfElifs sg sc dp labs d e elifs ∧ Wf sg sc dp labs d e els ∧
      (hasElse = false → els = .skip)
  | d, e, .while c body _ => EWf sg sc.slots c ∧ c.ty ≠ .str ∧ Wf sg sc dp labs d e body
  | d, e, .doLoop c _ _ body _ => EWf sg sc.slots c ∧ c.ty ≠ .str ∧ Wf sg sc dp labs d e body
  | _, _, .end_ _ => True
  | _, _, .data _ _ => False
  | _, _, .read vars _ => ∀ v ∈ vars, sc.slots.get? v.1 = some v.2.1
  | d, e, .select sel cases hasElse els _ =>
    EWf sg sc.slots sel ∧ WfCases sg sc dp labs d (e + 1) cases ∧ Wf sg sc dp labs d (e + 1) els ∧ (hasElse = false → els = .skip) ∧
      Leaves dp.sd e (cases.labels ++ els.labels) (cases.gotos ++ els.gotos)
  | d, e, .forLoop x t lo hi step body _ =>
    sc.slots.get? x = some t ∧ EWf sg sc.slots lo ∧ EWf sg sc.slots hi ∧
      (∀ se, step = some se → EWf sg sc.slots se ∧ body.labels = []) ∧ Wf sg sc dp labs (d + 1) e body ∧
      Leaves dp.fd d body.labels body.gotos
  | _, _, .callSub f args _ => sg[f]? = some (none, args.params) ∧ AWf sg sc.slots args
  | _, _, .exitProc _ => sc.inProc = true
  | _, _, .label _ _ _ => True
  | d, e, .goto L _ => dp.fd L ≤ d ∧ dp.sd L ≤ e ∧ L ∈ labs
  | _, _, .gosub L _ => dp.fd L = 0 ∧ dp.sd L = 0 ∧ L ∈ labs
  | _, _, .ret _ => True
def WfElifs (sg : Sigs) (sc : Scope) (dp : Dp) (labs : List Nat) : Nat → Nat → ElseIfs → Prop
  | _, _, .nil => True
  | d, e, .cons c body rest => EWf sg sc.slots c ∧ c.ty ≠ .str ∧ Wf sg sc dp labs d e body ∧ WfElifs sg sc dp labs d e rest
def WfCases (sg : Sigs) (sc : Scope) (dp : Dp) (labs : List Nat) : Nat → Nat → SCases → Prop
  | _, _, .nil => True
  | d, e, .cons conds body rest => conds ≠ [] ∧ CondsWf sg sc.slots conds ∧ Wf sg sc dp labs d e body ∧ WfCases sg sc dp labs d e rest
end

/-- the scope of procedure `f` -/
def procScope (gl : List Ty) (f : Nat) (d : ProcDecl SStmt) : Scope :=
  ⟨⟨d.slots, gl⟩, d.params.length, true, if d.static then some f else none⟩

/-- the parameter types (and the result type of a FUNCTION) are the first entries of the slot table -/
def SlotsOk (d : ProcDecl SStmt) : Prop :=
  (∀ (i : Nat) (pn : String) (pt : Ty), d.params[i]? = some (pn, pt) → d.slots[i]? = some pt) ∧
  (∀ rt : Ty, d.result = some rt → d.slots[d.params.length]? = some rt)

/-! ### the labels of a statement placed in the code -/

/-- the generator's label environment is right about the labels inside the statement `s` placed at `off` at depths `d` /
`e`: their resolved addresses are those of the layout, their recorded depths are the real ones -/
def LabAt (env : LEnv) (d e off : Nat) (s : SStmt) : Prop :=
  (∀ L a, (L, a) ∈ addrTable env.dp d e off s → env.addr L = a) ∧
  (∀ L d' e', (L, d', e') ∈ depthTable d e s → env.dp.fd L = d' ∧ env.dp.sd L = e')

def LabAtElifs (env : LEnv) (d e off : Nat) (el : ElseIfs) : Prop :=
  (∀ L a, (L, a) ∈ addrElifs env.dp d e off el → env.addr L = a) ∧
  (∀ L d' e', (L, d', e') ∈ depthElifs d e el → env.dp.fd L = d' ∧ env.dp.sd L = e')

def LabAtCases (env : LEnv) (d e off : Nat) (cs : SCases) : Prop :=
  (∀ L a, (L, a) ∈ addrCases env.dp d e off cs → env.addr L = a) ∧
  (∀ L d' e', (L, d', e') ∈ depthCases d e cs → env.dp.fd L = d' ∧ env.dp.sd L = e')

theorem LabAt.seq {env : LEnv} {d e off : Nat} {a b : SStmt} (h : LabAt env d e off (.seq a b)) :
    LabAt env d e off a ∧ LabAt env d e (off + sizeStmt env.dp d e a) b := by
  obtain ⟨h1, h2⟩ := h
  simp only [addrTable, depthTable, List.mem_append] at h1 h2
  exact ⟨⟨fun L a hm => h1 L a (Or.inl hm), fun L d' e' hm => h2 L d' e' (Or.inl hm)⟩,
    ⟨fun L a hm => h1 L a (Or.inr hm), fun L d' e' hm => h2 L d' e' (Or.inr hm)⟩⟩

theorem LabAt.label {env : LEnv} {d e off : Nat} {L : Nat} {name : String} {p : Pos}
    (h : LabAt env d e off (.label L name p)) : env.addr L = off ∧ env.dp.fd L = d ∧ env.dp.sd L = e := by
  obtain ⟨h1, h2⟩ := h
  exact ⟨h1 L off (by simp [addrTable]), h2 L d e (by simp [depthTable])⟩

/-! ### the body a statement belongs to -/

/-- the body (of the main module or of one procedure) the current statement belongs to: what a GOSUB re-enters.  `base` is the
address of its first instruction; `sc` its scope -/
structure BodyCtx where
  sc : Scope
  body : SStmt
  base : Nat

/-- the activation text of the reference semantics -/
def BodyCtx.act (B : BodyCtx) : Act := ⟨B.sc.inProc, desugar B.body⟩

/-- the body's code is in place, followed by `Halt` (main module) or by the final `PopRet` (procedure); the body is well formed
in its scope (every GOTO / GOSUB target is a label of this body); the label environment is right about its labels -/
structure BodyCtx.Ok (W : World) (B : BodyCtx) : Prop where
  hcode : CodeAt W.code B.base (compileStmt W.lay W.env "" 0 0 B.base B.body)
  hend : ∃ p, W.code[B.base + sizeStmt W.env.dp 0 0 B.body]? = some (if B.sc.inProc then .popRet else .halt, p)
  wf : Wf W.sg B.sc W.env.dp B.body.labels 0 0 B.body
  lab : LabAt W.env 0 0 B.base B.body
  gl : B.sc.slots.glob = W.P.gslots

/-- the procedures of the world: the reference program runs their desugared bodies, the code of each lies at its layout
address, the signature table is theirs, every body is well formed in its own scope and the label environment is right about its
labels -/
structure ProcsOk (W : World) (procs : List (ProcDecl SStmt)) : Prop where
  ref : W.P.procs = procs.map fun d => { d with body := desugar d.body }
  sg : W.sg = sigsOf procs
  at_ : ∀ (f : Nat) (d : ProcDecl SStmt), procs[f]? = some d →
    CodeAt W.code (W.lay.addr f) (compileProc W.lay W.env (W.lay.addr f) d)
  st : ∀ (f : Nat) (d : ProcDecl SStmt), procs[f]? = some d → (W.lay.getD f (0, false)).2 = d.static
  wf : ∀ (f : Nat) (d : ProcDecl SStmt), procs[f]? = some d → SlotsOk d ∧
    Wf W.sg (procScope W.P.gslots f d) W.env.dp d.body.labels 0 0 d.body ∧
    LabAt W.env 0 0 (W.lay.addr f + headerSize d) d.body

/-- the body context of procedure `f` -/
def procBody (W : World) (f : Nat) (d : ProcDecl SStmt) : BodyCtx :=
  ⟨procScope W.P.gslots f d, d.body, W.lay.addr f + headerSize d⟩

/-! ### specifications -/

/-- an evaluation that does not yield a value: the run ends with the error / at the `Halt`; `illFormed` (a call whose callee's
body answered `jump` / `notHere` / `illFormed`: `callFail`) claims nothing, as in `StmtPost` -/
def ErrPost (code : Code) (σ : Vm) (s' : St) : Outcome → Prop
  | .error c p => ErrsWith code σ c p s'.out
  | .halted => HaltsWith code σ s'.out
  | .inexact => True
  | .outOfFuel => True
  | .normal => False
  | .exited => False
  | .jump _ => False
  | .ret _ => False
  | .notHere => False
  | .illFormed => True

theorem ErrPost.of_steps {code : Code} {σ τ : Vm} {s' : St} {o : Outcome} (h₁ : Steps code σ τ)
    (h₂ : ErrPost code τ s' o) : ErrPost code σ s' o := by
  cases o with
  | error c p => exact ErrsWith.of_steps h₁ h₂
  | halted => exact HaltsWith.of_steps h₁ h₂
  | inexact => trivial
  | outOfFuel => trivial
  | normal => exact h₂
  | exited => exact h₂
  | jump L => exact h₂
  | ret p => exact h₂
  | notHere => exact h₂
  | illFormed => exact h₂

/-- code that leaves a value in A: `n` instructions starting at `off`; the value has type `ty` -/
def ExprPost (W : World) (sc : Scope) (pre below : List CtxState) (n : Nat) (ty : Ty) (off : Nat) (σ : Vm) :
    St × Except Outcome Val → Prop
  | (s', .ok v) => ∃ τ, Steps W.code σ τ ∧ τ.pc = off + n ∧ τ.regs.a = v ∧ Rel W sc pre below s' τ ∧ SameStacks σ τ ∧
      v.tag = ty
  | (s', .error o) => ErrPost W.code σ s' o

/-- what an expression needs of the activation it is evaluated in: the GOSUB stack is not below the marks of the activation's
`PushRet` (so that a callee's `PushRet` records a height its `PopRet` can cut back to) — part of `ActInv`, kept separately
because expressions are also evaluated while operands are pending (`pre ≠ []`, values on the value stack) -/
def ExprIH (W : World) (fuel : Nat) : Prop :=
  ∀ (sc : Scope) (e : Expr) (off : Nat) (pre below : List CtxState) (s : St) (σ : Vm),
    CodeAt W.code off (compileExpr W.lay off e) → σ.pc = off → Rel W sc pre below s σ → EWf W.sg sc.slots e →
    ExprPost W sc pre below (sizeExpr e) e.ty off σ (ProcJ.Ref.eval W.P fuel e s)

/-- argument evaluation: the collecting state on top of `pre` receives the values, each of its parameter's type -/
def ArgsPost (W : World) (sc : Scope) (pre below : List CtxState) (vs0 : List Val) (args : Args) (off : Nat) (σ : Vm) :
    St × Except Outcome (List Val) → Prop
  | (s', .ok vals) => ∃ τ, Steps W.code σ τ ∧ τ.pc = off + sizePush args ∧
      Rel W sc (.args (vs0 ++ vals) :: pre) below s' τ ∧ SameStacks σ τ ∧
      vals.map Val.tag = args.params.map (·.2)
  | (s', .error o) => ErrPost W.code σ s' o

def ArgsIH (W : World) (fuel : Nat) : Prop :=
  ∀ (sc : Scope) (args : Args) (off : Nat) (pre below : List CtxState) (vs0 : List Val) (s : St) (σ : Vm),
    CodeAt W.code off (pushArgs W.lay off args) → σ.pc = off → Rel W sc (.args vs0 :: pre) below s σ →
    AWf W.sg sc.slots args →
    ArgsPost W sc pre below vs0 args off σ (ProcJ.Ref.evalArgs W.P fuel args s)

/-- the code of a call of procedure `f`: `res = some t` for a FUNCTION with result type `t` -/
def callCode (lay : Layout) (off f : Nat) (args : Args) (p : Pos) (res : Option Ty) : Code :=
  [(.beginArgs, p)] ++ pushArgs lay (off + 1) args ++
    [(pushStackInstr lay f, p), (.pushRet (off + 1 + sizePush args + 3), p), (.jump (lay.addr f), p)] ++
    enqueues 0 args ++ (match res with | some t => [(.stashResult args.length t, p)] | none => []) ++
    [(.popStack, p)] ++ writeBacks args ++ (match res with | some _ => [(.unStash, p)] | none => [])

def sizeCall (args : Args) (res : Option Ty) : Nat :=
  1 + sizePush args + 3 + refCount args + (if res.isSome then 1 else 0) + 1 + 3 * refCount args +
    (if res.isSome then 1 else 0)

theorem callCode_fn (lay : Layout) (off f : Nat) (args : Args) (t : Ty) (p : Pos) :
    compileExpr lay off (.callFn f args t p) = callCode lay off f args p (some t) := by
  simp [compileExpr, callCode, List.append_assoc]

theorem callCode_sub (lay : Layout) (off f : Nat) (args : Args) (p : Pos) :
    compileSubCall lay off f args p = callCode lay off f args p none := by
  simp [compileSubCall, callCode, List.append_assoc]

theorem sizeCall_fn (f : Nat) (args : Args) (t : Ty) (p : Pos) : sizeExpr (.callFn f args t p) = sizeCall args (some t) := by
  simp [sizeExpr, sizeCall] <;> omega

theorem sizeCall_sub (args : Args) : sizeSubCall args = sizeCall args none := by
  simp [sizeSubCall, sizeCall]

/-- a call: for a FUNCTION the result is in A and has the result type -/
def CallPost (W : World) (sc : Scope) (pre below : List CtxState) (n : Nat) (res : Option Ty) (off : Nat) (σ : Vm) :
    St × Except Outcome Val → Prop
  | (s', .ok v) => ∃ τ, Steps W.code σ τ ∧ τ.pc = off + n ∧ Rel W sc pre below s' τ ∧ SameStacks σ τ ∧
      ∀ t, res = some t → τ.regs.a = v ∧ v.tag = t
  | (s', .error o) => ErrPost W.code σ s' o

def CallIH (W : World) (fuel : Nat) : Prop :=
  ∀ (sc : Scope) (f : Nat) (args : Args) (p : Pos) (res : Option Ty) (off : Nat) (pre below : List CtxState) (s : St)
    (σ : Vm),
    CodeAt W.code off (callCode W.lay off f args p res) → σ.pc = off → Rel W sc pre below s σ →
    W.sg[f]? = some (res, args.params) → AWf W.sg sc.slots args →
    CallPost W sc pre below (sizeCall args res) res off σ (ProcJ.Ref.call W.P fuel f args s)

/-- how a statement is entered: from its first instruction, or — in seek mode — at the `Label` instruction of a label
defined inside it -/
def Entry (env : LEnv) (off : Nat) (stmt : SStmt) : Mode → Vm → Prop
  | .run, σ => σ.pc = off
  | .seek L, σ => L ∈ stmt.labels ∧ σ.pc = env.addr L

/-- what the code of a statement does, given what the reference semantics says the statement does.  The statement sits at FOR
depth `fd` and SELECT depth `sd` of its body's text and ends at address `fin`; everything is *relative* to the stacks of the entry
state `σ`:

* `normal`: the run reaches `fin` with all stacks as they were;
* `exited`: the activation's `PopRet` has run (`ExitedTo`);
* `jump L`: the run reaches the `Label` instruction of `L` with the `fd − fd L` register frames and the `sd − sd L` subjects of
  the constructs it leaves removed, everything else as it was;
* `ret p`: the run reaches the `Return` instruction at `p` with the GOSUB stack as it was and the stacks *below* the statement's
  own depth intact (whatever frames / subjects of the routine are still on top of them: `Return` cuts them);
* `halted` / `error`: the run ends that way with the same output; `illFormed` and `notHere` do not occur under the premise in
  the positions where they would matter: they claim nothing here (`True`) and are excluded at the top (`ProcJSim.lean`). -/
def StmtPost (W : World) (sc : Scope) (below : List CtxState) (fd sd fin : Nat) (σ : Vm) : St × Outcome → Prop
  | (s', .normal) => ∃ τ, Steps W.code σ τ ∧ τ.pc = fin ∧ Rel W sc [] below s' τ ∧ SameStacks σ τ
  | (s', .exited) => ∃ τ, Steps W.code σ τ ∧ ExitedTo σ τ ∧ Rel W sc [] below s' τ
  | (s', .jump L) => ∃ τ, Steps W.code σ τ ∧ τ.pc = W.env.addr L ∧ Rel W sc [] below s' τ ∧
      τ.regStack = σ.regStack.drop (fd - W.env.dp.fd L) ∧ τ.vals = σ.vals.drop (sd - W.env.dp.sd L) ∧
      τ.paths = σ.paths ∧ τ.gosubs = σ.gosubs ∧ τ.rets = σ.rets ∧ τ.marks = σ.marks ∧ τ.trace = σ.trace ∧
      (σ.skipNewline = false → τ.skipNewline = false)
  | (s', .ret p) => ∃ τ, Steps W.code σ τ ∧ W.code[τ.pc]? = some (.ret, p) ∧ Rel W sc [] below s' τ ∧
      (∃ X, τ.regStack = X ++ σ.regStack.drop fd) ∧ (∃ Y, τ.vals = Y ++ σ.vals.drop sd) ∧
      τ.paths = σ.paths ∧ τ.gosubs = σ.gosubs ∧ τ.rets = σ.rets ∧ τ.marks = σ.marks ∧ τ.trace = σ.trace ∧
      (σ.skipNewline = false → τ.skipNewline = false)
  | (s', .halted) => HaltsWith W.code σ s'.out
  | (s', .error c p) => ErrsWith W.code σ c p s'.out
  | (_, .inexact) => True
  | (_, .outOfFuel) => True
  | (_, .illFormed) => True
  | (_, .notHere) => True

/-- the statement theorem at a given amount of fuel: for every statement of every body, placed anywhere in the code, at any
depths, entered in either way, on top of any stacks the activation's invariant allows -/
def StmtIH (W : World) (fuel : Nat) : Prop :=
  ∀ (B : BodyCtx) (stmt : SStmt) (sfx : String) (fd sd off : Nat) (m : Mode) (below : List CtxState) (s : St) (σ : Vm),
    B.Ok W → CodeAt W.code off (compileStmt W.lay W.env sfx fd sd off stmt) → LabAt W.env fd sd off stmt →
    Wf W.sg B.sc W.env.dp B.body.labels fd sd stmt → Entry W.env off stmt m σ → Rel W B.sc [] below s σ → ActInv B.sc fd sd σ →
    StmtPost W B.sc below fd sd (off + sizeStmt W.env.dp fd sd stmt) σ (ProcJ.Ref.exec W.P fuel B.act (desugar stmt) m s)

/-- the induction hypothesis at a given amount of fuel: expressions, argument lists, calls and statements -/
structure IH (W : World) (fuel : Nat) : Prop where
  expr : ExprIH W fuel
  args : ArgsIH W fuel
  call : CallIH W fuel
  stmt : StmtIH W fuel

/-- the induction hypothesis at every smaller or equal amount of fuel -/
def IHle (W : World) (fuel : Nat) : Prop := ∀ f, f ≤ fuel → IH W f

theorem IHle.self {W : World} {fuel : Nat} (h : IHle W fuel) : IH W fuel := h fuel (Nat.le_refl _)

theorem IHle.mono {W : World} {fuel f : Nat} (h : IHle W fuel) (hf : f ≤ fuel) : IHle W f :=
  fun g hg => h g (Nat.le_trans hg hf)

/-- an evaluation that ended the run ends the statement the same way -/
theorem StmtPost.of_err {W : World} {sc : Scope} {below : List CtxState} {fd sd fin : Nat} {σ : Vm} {s' : St}
    {o : Outcome} (h : ErrPost W.code σ s' o) : StmtPost W sc below fd sd fin σ (s', o) := by
  cases o with
  | error c p => exact h
  | halted => exact h
  | inexact => trivial
  | outOfFuel => trivial
  | normal => exact h.elim
  | exited => exact h.elim
  | jump L => exact h.elim
  | ret p => exact h.elim
  | notHere => trivial
  | illFormed => trivial

/-- the statement's code is reached after some steps that leave the stacks alone -/
theorem StmtPost.of_steps {W : World} {sc : Scope} {below : List CtxState} {fd sd fin : Nat} {σ τ : Vm}
    {r : St × Outcome} (h₁ : Steps W.code σ τ) (hs : SameStacks σ τ)
    (h₂ : StmtPost W sc below fd sd fin τ r) : StmtPost W sc below fd sd fin σ r := by
  obtain ⟨s', o⟩ := r
  cases o with
  | normal =>
    obtain ⟨υ, st, hp, hr, hss⟩ := h₂
    exact ⟨υ, h₁.trans st, hp, hr, hs.trans hss⟩
  | exited =>
    obtain ⟨υ, st, hx, hr⟩ := h₂
    exact ⟨υ, h₁.trans st, hx.of_same hs, hr⟩
  | jump L =>
    obtain ⟨υ, st, hp, hr, h1, h2, h3, h4, h5, h6, h7, h8⟩ := h₂
    exact ⟨υ, h₁.trans st, hp, hr, by rw [h1, hs.regStack], by rw [h2, hs.vals], by rw [h3, hs.paths],
      by rw [h4, hs.gosubs], by rw [h5, hs.rets], by rw [h6, hs.marks], by rw [h7, hs.trace], fun hh => h8 (hs.skip hh)⟩
  | ret p =>
    obtain ⟨υ, st, hp, hr, ⟨X, h1⟩, ⟨Y, h2⟩, h3, h4, h5, h6, h7, h8⟩ := h₂
    exact ⟨υ, h₁.trans st, hp, hr, ⟨X, by rw [h1, hs.regStack]⟩, ⟨Y, by rw [h2, hs.vals]⟩, by rw [h3, hs.paths],
      by rw [h4, hs.gosubs], by rw [h5, hs.rets], by rw [h6, hs.marks], by rw [h7, hs.trace], fun hh => h8 (hs.skip hh)⟩
  | halted => exact HaltsWith.of_steps h₁ h₂
  | error c p => exact ErrsWith.of_steps h₁ h₂
  | inexact => trivial
  | outOfFuel => trivial
  | illFormed => trivial
  | notHere => trivial

/-- the same specification with the end address written differently -/
theorem StmtPost.addr {W : World} {sc : Scope} {below : List CtxState} {fd sd fin fin' : Nat} {σ : Vm}
    {r : St × Outcome} (e : fin = fin') (h : StmtPost W sc below fd sd fin σ r) :
    StmtPost W sc below fd sd fin' σ r := e ▸ h

/-! ### loads, stores, conversions, conditions -/

def loadSt (τ : Vm) (v : Val) : Vm := { τ with pc := τ.pc + 3, regs := { τ.regs with a := v } }

/-- reading a variable of the current activation into A: only A and the program counter change -/
theorem var_steps (W : World) (sc : Scope) (pre below : List CtxState) (s : St) (x : Var) (t : Ty) (p : Pos)
    (τ : Vm) (hc : CodeAt W.code τ.pc (loadVar x t p)) (hr : Rel W sc pre below s τ) (hx : sc.slots.get? x = some t) :
    Steps W.code τ (loadSt τ (s.get x t)) := by
  have hgv := hr.getV hx
  have h0 : W.code[τ.pc]? = some (CInstr.varPath x t, p) := hc.head
  have h1 : W.code[τ.pc + 1]? = some (CInstr.copyVarPathToA, p) := hc.tail.head
  have h2 : W.code[τ.pc + 1 + 1]? = some (CInstr.popVarPath, p) := hc.tail.tail.head
  let τ1 : Vm := Vm.advance { τ with paths := (x, t) :: τ.paths }
  let τ2 : Vm := Vm.advance (Vm.setA τ1 (s.get x t))
  have hgv1 : τ1.getV x t = some (s.get x t) := hgv
  have s1 : Vm.step W.code τ = .next τ1 := by simp only [Vm.step, h0]; rfl
  have s2 : Vm.step W.code τ1 = .next τ2 := by
    have h1' : W.code[τ1.pc]? = some (CInstr.copyVarPathToA, p) := h1
    have hp : τ1.paths = (x, t) :: τ.paths := rfl
    simp only [Vm.step, h1', hp, hgv1]; rfl
  have s3 : Vm.step W.code τ2 = .next (loadSt τ (s.get x t)) := by
    simp only [Vm.step, τ2, τ1, Vm.advance, Vm.setA, h2, loadSt]
  exact Steps.cons s1 (Steps.cons s2 (Steps.one s3))

theorem Rel.loadSt {W : World} {sc : Scope} {pre below : List CtxState} {s : St} {τ : Vm} (h : Rel W sc pre below s τ) (v : Val) :
    Rel W sc pre below s (loadSt τ v) := h.same rfl rfl rfl rfl rfl rfl

theorem SameStacks.loadSt (τ : Vm) (v : Val) : SameStacks τ (loadSt τ v) := ⟨rfl, rfl, rfl, rfl, rfl, rfl, rfl, id⟩

/-- the state after `VarPathName x; CopyAToVarPath` -/
def storeSt (τ : Vm) (x : Var) : Vm :=
  { τ.setV x τ.regs.a with pc := τ.pc + 2 }

/-- a store changes only the variable blocks -/
theorem setV_same (τ : Vm) (x : Var) (v : Val) :
    (τ.setV x v).pc = τ.pc ∧ (τ.setV x v).regs = τ.regs ∧ (τ.setV x v).regStack = τ.regStack ∧
    (τ.setV x v).vals = τ.vals ∧ (τ.setV x v).paths = τ.paths ∧ (τ.setV x v).out = τ.out ∧
    (τ.setV x v).skipNewline = τ.skipNewline ∧ (τ.setV x v).data = τ.data ∧ (τ.setV x v).dataIdx = τ.dataIdx ∧
    (τ.setV x v).queue = τ.queue ∧ (τ.setV x v).funRes = τ.funRes ∧ (τ.setV x v).rets = τ.rets ∧
    (τ.setV x v).marks = τ.marks ∧ (τ.setV x v).trace = τ.trace ∧ (τ.setV x v).gosubs = τ.gosubs := by
  unfold Vm.setV Vm.setLocal
  cases x.shared <;> simp only [Bool.false_eq_true, if_true, if_false]
  · cases curStatic τ.ctx <;> simp
  · simp

/-- `VarPathName x; CopyAToVarPath`: store A into variable `x` of the current activation; the registers and the
stacks are as they were -/
theorem store_steps (code : Code) (x : Var) (t : Ty) (p : Pos) (τ : Vm) (hc : CodeAt code τ.pc (storeVar x t p)) :
    Steps code τ (storeSt τ x) := by
  have h0 : code[τ.pc]? = some (CInstr.varPath x t, p) := hc.head
  have h1 : code[τ.pc + 1]? = some (CInstr.copyAToVarPath, p) := hc.tail.head
  refine Steps.cons (τ := Vm.advance { τ with paths := (x, t) :: τ.paths }) ?_ (Steps.one ?_)
  · simp only [Vm.step, h0]
  · simp only [Vm.step, Vm.advance, h1, storeSt]
    unfold Vm.setV Vm.setLocal
    cases x.shared <;> simp only [Bool.false_eq_true, if_true, if_false]
    cases curStatic τ.ctx <;> rfl

theorem Rel.storeSt {W : World} {sc : Scope} {pre below : List CtxState} {s : St} {τ : Vm} (h : Rel W sc pre below s τ) {x : Var}
    {t : Ty} (hx : sc.slots.get? x = some t) (hv : τ.regs.a.tag = t) : Rel W sc pre below (s.set x τ.regs.a) (storeSt τ x) := by
  obtain ⟨_, _, _, _, _, h6, _, h8, h9, h10, h11, _, _, _, _⟩ := setV_same τ x τ.regs.a
  exact h.store hx hv rfl h6 h8 h9 h10 h11

theorem SameStacks.storeSt (τ : Vm) (x : Var) : SameStacks τ (storeSt τ x) := by
  obtain ⟨_, _, h3, h4, h5, _, h7, _, _, _, _, h12, h13, h14, h15⟩ := setV_same τ x τ.regs.a
  exact ⟨h4, h5, h3, h12, h13, h15, h14, fun h => by show (τ.setV x τ.regs.a).skipNewline = false; rw [h7]; exact h⟩

theorem storeSt_pc (τ : Vm) (x : Var) : (storeSt τ x).pc = τ.pc + 2 := rfl

theorem storeSt_regs (τ : Vm) (x : Var) : (storeSt τ x).regs = τ.regs := (setV_same τ x τ.regs.a).2.1

/-- one instruction that rewrites A by a `Res`-valued operation -/
theorem resA_ok {code : Code} {σ : Vm} {p : Pos} {r : Res Val} {w : Val} (hstep : Vm.step code σ = Vm.resA σ p r)
    (h : r = .ok w) : Steps code σ (Vm.advance (Vm.setA σ w)) := by
  subst h; exact Steps.one (by rw [hstep]; rfl)

theorem resA_err {code : Code} {σ : Vm} {p : Pos} {r : Res Val} {e : Err} (hstep : Vm.step code σ = Vm.resA σ p r)
    (h : r = .err e) : ErrsWith code σ (RbModel.Proc.Ref.codeOf e) p σ.out := by
  subst h; exact ⟨σ, σ, Steps.refl _, (by rw [hstep]; rfl), rfl⟩

/-- the optional `Cast t` after an expression whose static type is `ty` (`generate_expression_instructions_casting`,
by-value arguments) -/
theorem cast_tail (W : World) (sc : Scope) (pre below : List CtxState) (s : St) (ty t : Ty) (p : Pos) (τ : Vm)
    (hc : CodeAt W.code τ.pc (if ty = t then [] else [(CInstr.cast t, p)])) (hr : Rel W sc pre below s τ)
    (hv : τ.regs.a.tag = ty) :
    match ProcJ.Ref.liftV s p (storeCast ty t τ.regs.a) with
    | (s', .ok w) => ∃ υ, Steps W.code τ υ ∧ υ.pc = τ.pc + (if ty = t then 0 else 1) ∧ υ.regs.a = w ∧
        Rel W sc pre below s' υ ∧ SameStacks τ υ ∧ w.tag = t
    | (s', .error o) => ErrPost W.code τ s' o := by
  unfold storeCast
  by_cases hty : ty = t
  · simp only [hty, if_true, ProcJ.Ref.liftV, Nat.add_zero]
    exact ⟨τ, Steps.refl τ, rfl, rfl, hr, SameStacks.refl τ, by rw [hv, hty]⟩
  · simp only [hty, if_false] at hc ⊢
    have h0 : W.code[τ.pc]? = some (CInstr.cast t, p) := hc.head
    have hs : Vm.step W.code τ = Vm.resA τ p (cast τ.regs.a t) := by simp only [Vm.step, h0]
    cases hcst : cast τ.regs.a t with
    | ok w =>
      simp only [ProcJ.Ref.liftV]
      exact ⟨_, resA_ok hs hcst, rfl, rfl, (hr.setA w).advance, ⟨rfl, rfl, rfl, rfl, rfl, rfl, rfl, id⟩,
        RbThm.C01Sim.SimRead.cast_tag _ _ _ hcst⟩
    | err e =>
      simp only [ProcJ.Ref.liftV, ErrPost]
      rw [← hr.out]; exact resA_err hs hcst
    | inexact => simp only [ProcJ.Ref.liftV, ErrPost]

/-- evaluating an expression and converting it to the type of the receiving location:
`generate_expression_instructions_casting` -/
theorem exprTo_correct (W : World) (fuel : Nat) (hE : ExprIH W fuel) (sc : Scope) (e : Expr) (t : Ty) (off : Nat)
    (pre below : List CtxState) (s : St) (σ : Vm)
    (hc : CodeAt W.code off (compileExprTo W.lay off e t)) (hpc : σ.pc = off) (hr : Rel W sc pre below s σ)
    (hw : EWf W.sg sc.slots e) :
    ExprPost W sc pre below (sizeExprTo e t) t off σ (ProcJ.Ref.evalTo W.P (fuel + 1) e t s) := by
  simp only [compileExprTo] at hc
  have he := hE sc e off pre below s σ hc.append_left hpc hr hw
  simp only [ProcJ.Ref.evalTo]
  generalize hev : ProcJ.Ref.eval W.P fuel e s = r at he ⊢
  obtain ⟨s1, rv⟩ := r
  cases rv with
  | error o => exact he
  | ok v =>
    obtain ⟨τ, st, hp, ha, hrel, hss, htag⟩ := he
    have hct : CodeAt W.code τ.pc (if e.ty = t then [] else [(CInstr.cast t, e.pos)]) := by
      have := hc.append_right
      rw [len_expr] at this
      rw [hp]; exact this
    have := cast_tail W sc pre below s1 e.ty t e.pos τ hct hrel (by rw [ha]; exact htag)
    rw [ha] at this
    simp only
    generalize hl : ProcJ.Ref.liftV s1 e.pos (storeCast e.ty t v) = r2 at this ⊢
    obtain ⟨s2, rv2⟩ := r2
    cases rv2 with
    | error o => exact ErrPost.of_steps st this
    | ok w =>
      obtain ⟨υ, st2, hp2, ha2, hrel2, hss2, htag2⟩ := this
      exact ⟨υ, st.trans st2, by rw [hp2, hp]; simp only [sizeExprTo]; omega, ha2, hrel2, hss.trans hss2, htag2⟩

/-- a condition followed by `JumpIfFalse no`: control arrives at `yes` (true) or `no` (false) -/
def CondPost (W : World) (sc : Scope) (pre below : List CtxState) (yes no : Nat) (σ : Vm) :
    St × Except Outcome Bool → Prop
  | (s', .ok true) => ∃ τ, Steps W.code σ τ ∧ τ.pc = yes ∧ Rel W sc pre below s' τ ∧ SameStacks σ τ
  | (s', .ok false) => ∃ τ, Steps W.code σ τ ∧ τ.pc = no ∧ Rel W sc pre below s' τ ∧ SameStacks σ τ
  | (s', .error o) => ErrPost W.code σ s' o

/-- `<cond>; JumpIfFalse target` -/
theorem cond_correct (W : World) (fuel : Nat) (hE : ExprIH W fuel) (sc : Scope) (c : Expr) (target : Nat) (p : Pos)
    (off : Nat) (pre below : List CtxState) (s : St) (σ : Vm)
    (hc : CodeAt W.code off (compileExpr W.lay off c ++ [(CInstr.jumpIfFalse target, p)])) (hpc : σ.pc = off)
    (hr : Rel W sc pre below s σ) (hw : EWf W.sg sc.slots c) (hn : c.ty ≠ .str) :
    CondPost W sc pre below (off + sizeExpr c + 1) target σ (ProcJ.Ref.evalCond W.P (fuel + 1) c s) := by
  have he := hE sc c off pre below s σ hc.append_left hpc hr hw
  have hj : W.code[off + sizeExpr c]? = some (CInstr.jumpIfFalse target, p) := by
    have := hc.append_right.head
    rwa [len_expr] at this
  simp only [ProcJ.Ref.evalCond]
  generalize hev : ProcJ.Ref.eval W.P fuel c s = r at he ⊢
  obtain ⟨s1, rv⟩ := r
  cases rv with
  | error o => exact he
  | ok v =>
    obtain ⟨τ, st, hp, ha, hrel, hss, htag⟩ := he
    obtain ⟨b, hb⟩ := truthy_of_tag (v := v) (by rw [htag]; exact hn)
    have hj' : W.code[τ.pc]? = some (CInstr.jumpIfFalse target, p) := by rw [hp]; exact hj
    simp only [hb]
    cases b with
    | true =>
      refine ⟨Vm.advance τ, st.trans (Steps.one ?_), by simp [Vm.advance, hp], hrel.advance,
        hss.trans ⟨rfl, rfl, rfl, rfl, rfl, rfl, rfl, id⟩⟩
      simp only [Vm.step, hj', ha, hb]
    | false =>
      refine ⟨{ τ with pc := target }, st.trans (Steps.one ?_), rfl, hrel.setPc target,
        hss.trans ⟨rfl, rfl, rfl, rfl, rfl, rfl, rfl, id⟩⟩
      simp only [Vm.step, hj', ha, hb]

/-- `exprTo_correct` at any amount of fuel, from the hypothesis at all smaller amounts -/
theorem exprTo_correct' (W : World) (fuel : Nat) (ih : IHle W fuel) (sc : Scope) (e : Expr) (t : Ty) (off : Nat)
    (pre below : List CtxState) (s : St) (σ : Vm)
    (hc : CodeAt W.code off (compileExprTo W.lay off e t)) (hpc : σ.pc = off) (hr : Rel W sc pre below s σ)
    (hw : EWf W.sg sc.slots e) :
    ExprPost W sc pre below (sizeExprTo e t) t off σ (ProcJ.Ref.evalTo W.P fuel e t s) := by
  cases fuel with
  | zero => simp only [ProcJ.Ref.evalTo, ExprPost, ErrPost]
  | succ n => exact exprTo_correct W n (ih n (Nat.le_succ n)).expr sc e t off pre below s σ hc hpc hr hw

/-- `cond_correct` at any amount of fuel, from the hypothesis at all smaller amounts -/
theorem cond_correct' (W : World) (fuel : Nat) (ih : IHle W fuel) (sc : Scope) (c : Expr) (target : Nat) (p : Pos)
    (off : Nat) (pre below : List CtxState) (s : St) (σ : Vm)
    (hc : CodeAt W.code off (compileExpr W.lay off c ++ [(CInstr.jumpIfFalse target, p)])) (hpc : σ.pc = off)
    (hr : Rel W sc pre below s σ) (hw : EWf W.sg sc.slots c) (hn : c.ty ≠ .str) :
    CondPost W sc pre below (off + sizeExpr c + 1) target σ (ProcJ.Ref.evalCond W.P fuel c s) := by
  cases fuel with
  | zero => simp only [ProcJ.Ref.evalCond, CondPost, ErrPost]
  | succ n => exact cond_correct W n (ih n (Nat.le_succ n)).expr sc c target p off pre below s σ hc hpc hr hw hn


/-- a statement that defines no label is only ever entered from its first instruction -/
theorem Entry.of_nolabels {env : LEnv} {off : Nat} {stmt : SStmt} {m : Mode} {σ : Vm} (h : Entry env off stmt m σ)
    (hl : stmt.labels = []) : m = .run ∧ σ.pc = off := by
  cases m with
  | run => exact ⟨rfl, h⟩
  | seek L => obtain ⟨h1, _⟩ := h; rw [hl] at h1; exact absurd h1 (by simp)

/-- a state that differs from a related one only in program counter, registers and the four stacks is related -/
theorem Rel.stacks {W : World} {sc : Scope} {pre below : List CtxState} {s : St} {σ τ : Vm} (h : Rel W sc pre below s σ)
    (hc : τ.ctx = σ.ctx) (hg : τ.glob = σ.glob) (hs : τ.statics = σ.statics) (ho : τ.out = σ.out) (hd : τ.data = σ.data)
    (hi : τ.dataIdx = σ.dataIdx) (hq : τ.queue = σ.queue) (hf : τ.funRes = σ.funRes) : Rel W sc pre below s τ :=
  h.same hc ho hd hi hq hf hg hs

/-- with no fuel every specification holds (the reference semantics says `outOfFuel`) -/
theorem ih_zero (W : World) : IH W 0 := by
  refine ⟨?_, ?_, ?_, ?_⟩
  · intro sc e off pre below s σ _ _ _ _; simp only [ProcJ.Ref.eval, ExprPost, ErrPost]
  · intro sc args off pre below vs0 s σ _ _ _ _; simp only [ProcJ.Ref.evalArgs, ArgsPost, ErrPost]
  · intro sc f args p res off pre below s σ _ _ _ _ _; simp only [ProcJ.Ref.call, CallPost, ErrPost]
  · intro B stmt sfx fd sd off m below s σ _ _ _ _ _ _ _; simp only [ProcJ.Ref.exec, StmtPost]

end RbThm.ProcJSim
