import Thm.C08Layers2
import Thm.C11ProcArr
import Thm.C11Gen
/-!
# C11 (run-time half) for the jump layer — the reported position is the prescribed one, error 3 names a RETURN

`Thm/C11ProcArr.lean` (imported, namespace `RbThm.C11Layers2.ProcArrs`) does this for the combined procedures + arrays
layer; this file does it for the jump layer `RbModel.JmpL` (core language + `label`, `GOTO`, `GOSUB`, `RETURN` in the
main module), namespace `RbThm.C11Layers2.Jumps`.  Importing this module brings both.

* `ref_error_pos_within_program` — the position the reference semantics `JmpL.Ref.run` prescribes for an error is a
  position carried by a node of the source tree (`SStmt`).  No premise.  By induction on fuel over `exec`, `execCases`,
  `seekCases`, `selectSeek`, `forIter` in every mode (`inv_all`; a GOSUB runs the whole body again, whence the standing
  hypothesis on the body `P`), for the outcomes `error c p` **and** `ret p` together (`run` turns a `ret p` that reaches
  the top into `error 3 p`), then through `desugar` (`desugar_posns`).
* `return_without_gosub_at_return` — error 3 is reported at the position of a RETURN statement of the program
  (`retPosns`).  No premise.  No other source of code 3 exists in this layer: the same induction shows that an `error`
  outcome of a statement has its code among `stmtCodes` = 4, 6, 11, 13, 258 (`exec_error_code`, `ref_error_code`).
* `runtime_error_pos_is_ref_pos`, `runtime_error_pos_within_program`, `vm_error3_at_return` — for a program the premise
  checker `progWfB` accepts on which the reference run finishes, whatever error the VM model stops with, at any step
  budget, is the reference's (corollary of `JmpLSim.compile_correct_checked` through `C08Layers2.Jumps.ends`), hence at
  a node of the program, and at a RETURN if the code is 3.

The invariant is stated with two predicates (`Good Q R`: an error has a statement code and a position with `Q`, a
`ret` a position with `R`) over two position lists (`stmtPosns`, `stmtRetPosns`) so that one induction gives all three
facts; `inv_pos`, `exec_error_pos`, `exec_ret_pos` are the instance `R = Q` ("every position of the piece has `Q`").

Whether a node's position lies inside the node's *text* is the parser fact `PosNested` (checked by the fault-injection
run, not proved), as for the other layers.
-/

namespace RbThm.C11Layers2.Jumps
set_option linter.unusedVariables false
open RbModel RbModel.Num RbModel.JmpL RbModel.JmpL.Compile RbModel.JmpL.Vm RbModel.JmpL.Ref
open RbModel.Ast (Pos PrintItem CaseExpr)
open RbModel.Ref (St ERes eval evalTo lift codeOf codeOutOfData codeZeroStep)
open RbThm.C11Gen (exprPosns itemPosns caseExprPosns optExprPosns pos_mem_exprPosns)

/-! ### positions that occur in a piece of syntax -/

mutual
/-- every position that occurs in a statement of the reference syntax (`label`, `goto`, `gosub` carry none there) -/
def stmtPosns : Stmt → List Pos
  | .skip => []
  | .seq a b => stmtPosns a ++ stmtPosns b
  | .assign _ _ e p => p :: exprPosns e
  | .print items p => p :: items.flatMap itemPosns
  | .read _ _ p => [p]
  | .ifs c thn els p => p :: (exprPosns c ++ stmtPosns thn ++ stmtPosns els)
  | .select e cs p => p :: (exprPosns e ++ casesPosns cs)
  | .forLoop _ _ lo hi step body p => p :: (exprPosns lo ++ exprPosns hi ++ optExprPosns step ++ stmtPosns body)
  | .while c body p => p :: (exprPosns c ++ stmtPosns body)
  | .doLoop c _ _ body p => p :: (exprPosns c ++ stmtPosns body)
  | .end_ p => [p]
  | .label _ => []
  | .goto _ => []
  | .gosub _ => []
  | .ret p => [p]
def casesPosns : Cases → List Pos
  | .nil => []
  | .else_ body => stmtPosns body
  | .case conds body rest => conds.flatMap caseExprPosns ++ stmtPosns body ++ casesPosns rest
end

mutual
/-- the positions of the RETURN statements only -/
def stmtRetPosns : Stmt → List Pos
  | .seq a b => stmtRetPosns a ++ stmtRetPosns b
  | .ifs _ thn els _ => stmtRetPosns thn ++ stmtRetPosns els
  | .select _ cs _ => casesRetPosns cs
  | .forLoop _ _ _ _ _ body _ => stmtRetPosns body
  | .while _ body _ => stmtRetPosns body
  | .doLoop _ _ _ body _ => stmtRetPosns body
  | .ret p => [p]
  | .skip => []
  | .assign .. => []
  | .print .. => []
  | .read .. => []
  | .end_ _ => []
  | .label _ => []
  | .goto _ => []
  | .gosub _ => []
def casesRetPosns : Cases → List Pos
  | .nil => []
  | .else_ body => stmtRetPosns body
  | .case _ body rest => stmtRetPosns body ++ casesRetPosns rest
end

mutual
/-- a RETURN's position is one of the statement's positions -/
theorem stmtRetPosns_sub (q : Pos) : ∀ st : Stmt, q ∈ stmtRetPosns st → q ∈ stmtPosns st
  | .seq a b, h => by
    simp only [stmtRetPosns, List.mem_append] at h
    rcases h with h | h
    · simp [stmtPosns, stmtRetPosns_sub q a h]
    · simp [stmtPosns, stmtRetPosns_sub q b h]
  | .ifs _ thn els _, h => by
    simp only [stmtRetPosns, List.mem_append] at h
    rcases h with h | h
    · simp [stmtPosns, stmtRetPosns_sub q thn h]
    · simp [stmtPosns, stmtRetPosns_sub q els h]
  | .select _ cs _, h => by
    simp only [stmtRetPosns] at h
    simp [stmtPosns, casesRetPosns_sub q cs h]
  | .forLoop _ _ _ _ _ body _, h => by
    simp only [stmtRetPosns] at h
    simp [stmtPosns, stmtRetPosns_sub q body h]
  | .while _ body _, h => by
    simp only [stmtRetPosns] at h
    simp [stmtPosns, stmtRetPosns_sub q body h]
  | .doLoop _ _ _ body _, h => by
    simp only [stmtRetPosns] at h
    simp [stmtPosns, stmtRetPosns_sub q body h]
  | .ret p, h => by simpa [stmtRetPosns, stmtPosns] using h
  | .skip, h => by simp [stmtRetPosns] at h
  | .assign .., h => by simp [stmtRetPosns] at h
  | .print .., h => by simp [stmtRetPosns] at h
  | .read .., h => by simp [stmtRetPosns] at h
  | .end_ _, h => by simp [stmtRetPosns] at h
  | .label _, h => by simp [stmtRetPosns] at h
  | .goto _, h => by simp [stmtRetPosns] at h
  | .gosub _, h => by simp [stmtRetPosns] at h
theorem casesRetPosns_sub (q : Pos) : ∀ cs : Cases, q ∈ casesRetPosns cs → q ∈ casesPosns cs
  | .nil, h => by simp [casesRetPosns] at h
  | .else_ body, h => by
    simp only [casesRetPosns] at h
    simp [casesPosns, stmtRetPosns_sub q body h]
  | .case _ body rest, h => by
    simp only [casesRetPosns, List.mem_append] at h
    rcases h with h | h
    · simp [casesPosns, stmtRetPosns_sub q body h]
    · simp [casesPosns, casesRetPosns_sub q rest h]
end

/-! ### error codes -/

/-- the error codes a statement of this layer can fail with (3 is not among them: it only arises in `run`, from a
RETURN that reaches the top) -/
def stmtCodes : List Nat := [4, 6, 11, 13, 258]

theorem codeOf_mem (e : Err) : codeOf e ∈ stmtCodes := by cases e <;> decide

theorem three_not_stmtCode : 3 ∉ stmtCodes := by decide

/-! ### expressions -/

theorem bind_err {r : ERes} {f : Val → ERes} {c : Nat} {p : Pos} (h : r.bind f = .err c p) :
    r = .err c p ∨ ∃ v, r = .ok v ∧ f v = .err c p := by
  cases r with
  | ok v => exact .inr ⟨v, rfl, h⟩
  | err c' p' => exact .inl (by simpa [ERes.bind] using h)
  | inexact => cases h

theorem lift_err {q : Pos} {r : Res Val} {c : Nat} {p : Pos} (h : lift q r = .err c p) :
    c ∈ stmtCodes ∧ p = q := by
  cases r <;> simp [lift] at h
  obtain ⟨rfl, rfl⟩ := h
  exact ⟨codeOf_mem _, rfl⟩

/-- an error of the core's expression evaluator: the code is an arithmetic one, the position is that of a node of the
expression -/
theorem eval_err' (env : List Val) (c : Nat) (p : Pos) :
    ∀ e, eval env e = .err c p → c ∈ stmtCodes ∧ p ∈ exprPosns e
  | .lit _ _, h => by simp [eval] at h
  | .var _ _ _, h => by simp [eval] at h
  | .un .neg e q, h => by
    simp only [eval] at h
    rcases bind_err h with h | ⟨v, _, h⟩
    · have := eval_err' env c p e h
      exact ⟨this.1, by simp [exprPosns, this.2]⟩
    · exact ⟨(lift_err h).1, by simp [exprPosns, (lift_err h).2]⟩
  | .un .not e q, h => by
    simp only [eval] at h
    rcases bind_err h with h | ⟨v, _, h⟩
    · have := eval_err' env c p e h
      exact ⟨this.1, by simp [exprPosns, this.2]⟩
    · exact ⟨(lift_err h).1, by simp [exprPosns, (lift_err h).2]⟩
  | .bin op l r t q, h => by
    simp only [eval] at h
    rcases bind_err h with h | ⟨a, _, h⟩
    · have := eval_err' env c p l h
      exact ⟨this.1, by simp [exprPosns, this.2]⟩
    · rcases bind_err h with h | ⟨b, _, h⟩
      · have := eval_err' env c p r h
        exact ⟨this.1, by simp [exprPosns, this.2]⟩
      · exact ⟨(lift_err h).1, by simp [exprPosns, (lift_err h).2]⟩
  | .paren e q, h => by
    simp only [eval] at h
    have := eval_err' env c p e h
    exact ⟨this.1, by simp [exprPosns, this.2]⟩

theorem eval_err {env : List Val} {e : Ast.Expr} {c : Nat} {p : Pos} (h : eval env e = .err c p) :
    p ∈ exprPosns e := (eval_err' env c p e h).2

theorem eval_code {env : List Val} {e : Ast.Expr} {c : Nat} {p : Pos} (h : eval env e = .err c p) :
    c ∈ stmtCodes := (eval_err' env c p e h).1

theorem evalTo_err' {env : List Val} {e : Ast.Expr} {t : Ty} {c : Nat} {p : Pos} (h : evalTo env e t = .err c p) :
    c ∈ stmtCodes ∧ p ∈ exprPosns e := by
  unfold evalTo at h
  rcases bind_err h with h | ⟨v, _, h⟩
  · exact eval_err' env c p e h
  · exact ⟨(lift_err h).1, by rw [(lift_err h).2]; exact pos_mem_exprPosns e⟩

theorem evalTo_err {env : List Val} {e : Ast.Expr} {t : Ty} {c : Nat} {p : Pos} (h : evalTo env e t = .err c p) :
    p ∈ exprPosns e := (evalTo_err' h).2

/-! ### the pieces of a statement

The statement-independent pieces answer `Except Outcome _`; what they answer on the error side is `inexact` or an
error with an arithmetic code at one of the listed positions — never `ret`. -/

/-- what a statement-independent piece may answer on its error side -/
def LeafOut (ps : List Pos) (o : Outcome) : Prop :=
  o = .inexact ∨ ∃ c p, o = .error c p ∧ c ∈ stmtCodes ∧ p ∈ ps

theorem LeafOut.mono {ps ps' : List Pos} {o : Outcome} (h : LeafOut ps o) (hs : ∀ q ∈ ps, q ∈ ps') : LeafOut ps' o := by
  rcases h with h | ⟨c, p, h1, h2, h3⟩
  · exact .inl h
  · exact .inr ⟨c, p, h1, h2, hs p h3⟩

theorem LeafOut.err {ps : List Pos} {c : Nat} {p : Pos} (h : LeafOut ps (.error c p)) : c ∈ stmtCodes ∧ p ∈ ps := by
  rcases h with h | ⟨c', p', h1, h2, h3⟩
  · cases h
  · cases h1; exact ⟨h2, h3⟩

theorem evalCond_out {env : List Val} {e : Ast.Expr} {o : Outcome} (h : evalCond env e = .error o) :
    LeafOut (exprPosns e) o := by
  unfold evalCond at h
  split at h
  · rename_i c p he
    cases h
    exact .inr ⟨c, p, rfl, eval_err' env c p e he⟩
  · cases h; exact .inl rfl
  · split at h
    · cases h
    · cases h
      exact .inr ⟨13, _, rfl, by decide, pos_mem_exprPosns e⟩

theorem evalE_out {env : List Val} {e : Ast.Expr} {o : Outcome} (h : evalE env e = .error o) :
    LeafOut (exprPosns e) o := by
  unfold evalE at h
  split at h
  · cases h
  · rename_i c p he
    cases h
    exact .inr ⟨c, p, rfl, eval_err' env c p e he⟩
  · cases h; exact .inl rfl

theorem relTest_out {q : Pos} {op : Op} {a b : Val} {o : Outcome} (h : relTest q op a b = .error o) :
    LeafOut [q] o := by
  unfold relTest at h
  split at h
  · cases h
  · cases h
    exact .inr ⟨_, _, rfl, codeOf_mem _, by simp⟩
  · cases h; exact .inl rfl

theorem except_bind_err {α β : Type} {x : Except Outcome α} {f : α → Except Outcome β} {o : Outcome}
    (h : (x >>= f) = .error o) : x = .error o ∨ ∃ a, x = .ok a ∧ f a = .error o := by
  cases x with
  | error o' => exact .inl (by simpa [bind, Except.bind] using h)
  | ok a => exact .inr ⟨a, rfl, by simpa [bind, Except.bind] using h⟩

theorem stepSign_out {q : Pos} {v : Val} {o : Outcome} (h : stepSign q v = .error o) : LeafOut [q] o := by
  unfold stepSign at h
  rcases except_bind_err h with h | ⟨b, _, h⟩
  · exact relTest_out h
  · skip
    split at h
    · simp [pure, Except.pure] at h
    · rcases except_bind_err h with h | ⟨b', _, h⟩
      · exact relTest_out h
      · skip
        split at h <;> simp [pure, Except.pure] at h

theorem caseMatches_out {env : List Val} {q : Pos} {subj : Val} {ce : CaseExpr} {o : Outcome}
    (h : caseMatches env q subj ce = .error o) : LeafOut (q :: caseExprPosns ce) o := by
  cases ce with
  | simple e =>
    simp only [caseMatches] at h
    rcases except_bind_err h with h | ⟨v, _, h⟩
    · exact (evalE_out h).mono (by simp +contextual [caseExprPosns])
    · exact (relTest_out h).mono (by simp)
  | is op e =>
    simp only [caseMatches] at h
    rcases except_bind_err h with h | ⟨v, _, h⟩
    · exact (evalE_out h).mono (by simp +contextual [caseExprPosns])
    · exact (relTest_out h).mono (by simp)
  | range lo hi =>
    simp only [caseMatches] at h
    rcases except_bind_err h with h | ⟨l, _, h⟩
    · exact (evalE_out h).mono (by simp +contextual [caseExprPosns])
    · rcases except_bind_err h with h | ⟨b1, _, h⟩
      · exact (relTest_out h).mono (by simp)
      · skip
        split at h
        · rcases except_bind_err h with h | ⟨hv, _, h⟩
          · exact (evalE_out h).mono (by simp +contextual [caseExprPosns])
          · exact (relTest_out h).mono (by simp)
        · simp [pure, Except.pure] at h

theorem anyMatches_out {env : List Val} {q : Pos} {subj : Val} {o : Outcome} :
    ∀ conds : List CaseExpr, anyMatches env q subj conds = .error o →
      LeafOut (q :: conds.flatMap caseExprPosns) o
  | [], h => by simp [anyMatches, pure, Except.pure] at h
  | ce :: rest, h => by
    simp only [anyMatches] at h
    rcases except_bind_err h with h | ⟨b, _, h⟩
    · exact (caseMatches_out h).mono (by
        intro a ha
        simp only [List.mem_cons] at ha
        rcases ha with ha | ha <;> simp [ha])
    · skip
      split at h
      · simp [pure, Except.pure] at h
      · exact (anyMatches_out rest h).mono (by
          intro a ha
          simp only [List.mem_cons] at ha
          rcases ha with ha | ha <;> simp [ha])

/-! the same in the form "an error of the piece is at …" -/

theorem LeafOut.mem1 {q : Pos} {c : Nat} {p : Pos} (h : LeafOut [q] (.error c p)) : p = q := by
  simpa using h.err.2

theorem evalCond_err {env : List Val} {e : Ast.Expr} {c : Nat} {p : Pos}
    (h : evalCond env e = .error (.error c p)) : p ∈ exprPosns e := (evalCond_out h).err.2

theorem evalE_err {env : List Val} {e : Ast.Expr} {c : Nat} {p : Pos}
    (h : evalE env e = .error (.error c p)) : p ∈ exprPosns e := (evalE_out h).err.2

theorem relTest_err {q : Pos} {op : Op} {a b : Val} {c : Nat} {p : Pos}
    (h : relTest q op a b = .error (.error c p)) : p = q := (relTest_out h).mem1

theorem stepSign_err {q : Pos} {v : Val} {c : Nat} {p : Pos}
    (h : stepSign q v = .error (.error c p)) : p = q := (stepSign_out h).mem1

theorem caseMatches_err {env : List Val} {q : Pos} {subj : Val} {ce : CaseExpr} {c : Nat} {p : Pos}
    (h : caseMatches env q subj ce = .error (.error c p)) : p = q ∨ p ∈ caseExprPosns ce := by
  simpa using (caseMatches_out h).err.2

theorem anyMatches_err {env : List Val} {q : Pos} {subj : Val} {conds : List CaseExpr} {c : Nat} {p : Pos}
    (h : anyMatches env q subj conds = .error (.error c p)) : p = q ∨ p ∈ conds.flatMap caseExprPosns :=
  List.mem_cons.mp (anyMatches_out conds h).err.2

/-- none of them answers `ret` -/
theorem LeafOut.not_ret {ps : List Pos} {p : Pos} (h : LeafOut ps (.ret p)) : False := by
  rcases h with h | ⟨_, _, h, _⟩ <;> cases h

/-! ### statements -/

/-- what the invariant says of an outcome: an error has a statement code and a position with `Q`, a `ret` has a
position with `R`; nothing about the other outcomes -/
def Good (Q R : Pos → Prop) : Outcome → Prop
  | .error c p => c ∈ stmtCodes ∧ Q p
  | .ret p => R p
  | _ => True

theorem LeafOut.good {Q R : Pos → Prop} {ps : List Pos} {o : Outcome} (h : LeafOut ps o) (hq : ∀ q ∈ ps, Q q) :
    Good Q R o := by
  rcases h with rfl | ⟨c, p, rfl, h2, h3⟩
  · simp [Good]
  · exact ⟨h2, hq p h3⟩

/-- every position of the statement has `Q`, every position of a RETURN in it has `R` -/
def Cov (Q R : Pos → Prop) (st : Stmt) : Prop := (∀ q ∈ stmtPosns st, Q q) ∧ (∀ q ∈ stmtRetPosns st, R q)

def CovC (Q R : Pos → Prop) (cs : Cases) : Prop := (∀ q ∈ casesPosns cs, Q q) ∧ (∀ q ∈ casesRetPosns cs, R q)

theorem printItems_good {Q R : Pos → Prop} : ∀ (items : List PrintItem) (s : St),
    (∀ q ∈ items.flatMap itemPosns, Q q) → Good Q R (printItems s items).2
  | [], s, h => by simp [printItems, Good]
  | .comma :: rest, s, h => by
    simp only [printItems]
    exact printItems_good rest _ (fun q hq => h q (by simp [hq]))
  | .semicolon :: rest, s, h => by
    simp only [printItems]
    exact printItems_good rest _ (fun q hq => h q (by simp [hq]))
  | .expr e :: rest, s, h => by
    simp only [printItems]
    split
    · rename_i c p he
      exact ⟨eval_code he, h p (by simp [itemPosns, eval_err he])⟩
    · simp [Good]
    · split
      · simp [Good]
      · exact printItems_good rest _ (fun q hq => h q (by simp [hq]))

theorem printItems_err {c : Nat} {p : Pos} {items : List PrintItem} {s s' : St}
    (h : printItems s items = (s', .error c p)) : p ∈ items.flatMap itemPosns := by
  have := printItems_good (Q := (· ∈ items.flatMap itemPosns)) (R := fun _ => True) items s (fun q hq => hq)
  rw [h] at this
  exact this.2

structure Inv (P : Stmt) (Q R : Pos → Prop) (fuel : Nat) : Prop where
  exec : ∀ st m s, Cov Q R st → Good Q R (exec fuel P st m s).2
  execCases : ∀ q subj cs s, Q q → CovC Q R cs → Good Q R (execCases fuel P q subj cs s).2
  seekCases : ∀ cs L s, CovC Q R cs → Good Q R (seekCases fuel P cs L s).2
  selectSeek : ∀ cs L s, CovC Q R cs → Good Q R (selectSeek fuel P cs L s).2
  forIter : ∀ x t h sv up body q m s, Q q → Cov Q R body →
    Good Q R (forIter fuel P x t h sv up body q m s).2

theorem inv_zero (P : Stmt) (Q R : Pos → Prop) : Inv P Q R 0 := by
  refine ⟨?_, ?_, ?_, ?_, ?_⟩ <;> intros <;> simp [exec, execCases, seekCases, selectSeek, forIter, Good]

theorem good_err {Q R : Pos → Prop} {c : Nat} {p : Pos} (h1 : c ∈ stmtCodes) (h2 : Q p) : Good Q R (.error c p) :=
  ⟨h1, h2⟩

theorem good_of_mem1 {Q : Pos → Prop} {p : Pos} (h : Q p) : ∀ q ∈ [p], Q q := by
  intro q hq; simp at hq; exact hq ▸ h

/-- positions of a sub-piece from those of the piece -/
local macro "sub" h:ident : term =>
  `(⟨fun q hq => ($h).1 q (by simp [stmtPosns, casesPosns, hq]),
     fun q hq => ($h).2 q (by simp [stmtRetPosns, casesRetPosns, hq])⟩)

theorem inv_succ (P : Stmt) (Q R : Pos → Prop) (hP : Cov Q R P) (n : Nat) (ih : Inv P Q R n) : Inv P Q R (n + 1) := by
  refine ⟨?_, ?_, ?_, ?_, ?_⟩
  · intro st m s hc
    cases st with
    | skip => simp only [exec]; split <;> simp [Good]
    | end_ p => simp only [exec]; split <;> simp [Good]
    | label L =>
      simp only [exec]
      split
      · simp [Good]
      · split <;> simp [Good]
    | goto L => simp only [exec]; split <;> simp [Good]
    | ret p =>
      simp only [exec]
      split
      · exact hc.2 p (by simp [stmtRetPosns])
      · simp [Good]
    | gosub L =>
      have i1 := fun m s => ih.exec P m s hP
      simp only [exec]
      split
      · simp [Good]
      · split
        all_goals first | (simp [Good]; done) | exact i1 _ _
    | seq a b =>
      have ha : Cov Q R a := sub hc
      have hb : Cov Q R b := sub hc
      have i1 := fun m s => ih.exec a m s ha
      have i2 := fun m s => ih.exec b m s hb
      have i3 := fun m s => ih.exec (.seq a b) m s hc
      simp only [exec]
      repeat' split
      all_goals first | exact i1 _ _ | exact i2 _ _ | exact i3 _ _ | simp [Good]
    | assign x t e p =>
      simp only [exec]
      repeat' split
      all_goals first
        | (simp [Good]; done)
        | exact good_err (evalTo_err' (by assumption)).1
            (hc.1 _ (by simp [stmtPosns, (evalTo_err' (by assumption)).2]))
    | print items p =>
      have := printItems_good (Q := Q) (R := R) items s (fun q hq => hc.1 q (by simp [stmtPosns, hq]))
      simp only [exec]
      split
      · simp [Good]
      · split
        · split <;> simp [Good]
        · exact this
    | read x t p =>
      simp only [exec]
      repeat' split
      all_goals first
        | (simp [Good]; done)
        | exact good_err (by decide) (hc.1 _ (by simp [stmtPosns]))
        | exact good_err (codeOf_mem _) (hc.1 _ (by simp [stmtPosns]))
    | ifs c thn els p =>
      have hthn : Cov Q R thn := sub hc
      have hels : Cov Q R els := sub hc
      have i1 := fun m s => ih.exec thn m s hthn
      have i2 := fun m s => ih.exec els m s hels
      have i3 := fun m s => ih.exec (.ifs c thn els p) m s hc
      simp only [exec]
      repeat' split
      all_goals first
        | exact i1 _ _ | exact i2 _ _ | exact i3 _ _
        | (simp [Good]; done)
        | exact (evalCond_out (by assumption)).good (fun q hq => hc.1 q (by simp [stmtPosns, hq]))
    | select e cs p =>
      have hcs : CovC Q R cs := sub hc
      have hp : Q p := hc.1 p (by simp [stmtPosns])
      have i1 := fun subj s => ih.execCases p subj cs s hp hcs
      have i2 := fun L s => ih.selectSeek cs L s hcs
      simp only [exec]
      repeat' split
      all_goals first
        | exact i1 _ _ | exact i2 _ _
        | (simp [Good]; done)
        | exact (evalE_out (by assumption)).good (fun q hq => hc.1 q (by simp [stmtPosns, hq]))
    | forLoop x t lo hi step body p =>
      have hbody : Cov Q R body := sub hc
      have hp : Q p := hc.1 p (by simp [stmtPosns])
      have i1 := fun h sv up m s => ih.forIter x t h sv up body p m s hp hbody
      simp only [exec]
      repeat' split
      all_goals first
        | exact i1 _ _ _ _ _
        | (simp [Good]; done)
        | exact good_err (evalTo_err' (by assumption)).1
            (hc.1 _ (by simp [stmtPosns, (evalTo_err' (by assumption)).2]))
        | exact (evalE_out (by assumption)).good (fun q hq => hc.1 q (by simp [stmtPosns, optExprPosns, hq]))
        | exact (stepSign_out (by assumption)).good (good_of_mem1 hp)
        | exact good_err (by decide) (hc.1 _ (by simp [stmtPosns, optExprPosns, pos_mem_exprPosns]))
    | «while» c body p =>
      have hbody : Cov Q R body := sub hc
      have i1 := fun m s => ih.exec body m s hbody
      have i3 := fun m s => ih.exec (.while c body p) m s hc
      simp only [exec]
      split
      · split
        · rename_i o heq
          split at heq
          · exact (evalCond_out heq).good (fun q hq => hc.1 q (by simp [stmtPosns, hq]))
          · cases heq
        · simp [Good]
        · repeat' split
          all_goals first | exact i1 _ _ | exact i3 _ _ | simp [Good]
      · simp [Good]
    | doLoop c top u body p =>
      have hbody : Cov Q R body := sub hc
      have i1 := fun m s => ih.exec body m s hbody
      have i3 := fun m s => ih.exec (.doLoop c top u body p) m s hc
      simp only [exec]
      split
      · split
        · split
          · rename_i o heq
            split at heq
            · exact (evalCond_out heq).good (fun q hq => hc.1 q (by simp [stmtPosns, hq]))
            · cases heq
          · repeat' split
            all_goals first | exact i1 _ _ | exact i3 _ _ | simp [Good]
        · repeat' split
          all_goals first
            | exact i1 _ _ | exact i3 _ _
            | (simp [Good]; done)
            | exact (evalCond_out (by assumption)).good (fun q hq => hc.1 q (by simp [stmtPosns, hq]))
      · simp [Good]
  · intro q subj cs s hq hc
    cases cs with
    | nil => simp [execCases, Good]
    | else_ body =>
      simp only [execCases]
      exact ih.exec body _ _ (sub hc)
    | case conds body rest =>
      have hbody : Cov Q R body := sub hc
      have hrest : CovC Q R rest := sub hc
      simp only [execCases]
      split
      · refine (anyMatches_out conds (by assumption)).good ?_
        intro r hr
        simp only [List.mem_cons] at hr
        rcases hr with rfl | hr
        · exact hq
        · exact hc.1 r (by simp [casesPosns, hr])
      · exact ih.exec body _ _ hbody
      · exact ih.execCases q subj rest s hq hrest
  · intro cs L s hc
    cases cs with
    | nil => simp [seekCases, Good]
    | else_ body =>
      simp only [seekCases]
      exact ih.exec body _ _ (sub hc)
    | case conds body rest =>
      have hbody : Cov Q R body := sub hc
      have hrest : CovC Q R rest := sub hc
      simp only [seekCases]
      split
      · exact ih.exec body _ _ hbody
      · exact ih.seekCases rest L s hrest
  · intro cs L s hc
    simp only [selectSeek]
    repeat' split
    all_goals first | exact ih.selectSeek cs _ _ hc | exact ih.seekCases cs _ _ hc | simp [Good]
  · intro x t h sv up body q m s hq hc
    have i1 := fun m s => ih.exec body m s hc
    have i2 := fun m s => ih.forIter x t h sv up body q m s hq hc
    simp only [forIter]
    split
    · rename_i o heq
      split at heq
      · exact (relTest_out heq).good (good_of_mem1 hq)
      · cases heq
    · simp [Good]
    · repeat' split
      all_goals first
        | exact i1 _ _ | exact i2 _ _
        | (simp [Good]; done)
        | exact good_err (codeOf_mem _) hq

theorem inv_all (P : Stmt) (Q R : Pos → Prop) (hP : Cov Q R P) : ∀ n, Inv P Q R n
  | 0 => inv_zero P Q R
  | n + 1 => inv_succ P Q R hP n (inv_all P Q R hP n)

/-! ### the source tree (`SStmt`, what the front end delivers) and its desugaring -/

mutual
/-- every position that occurs in a statement of the source syntax (there `label`, `GOTO`, `GOSUB` carry one too) -/
def sstmtPosns : SStmt → List Pos
  | .skip => []
  | .seq a b => sstmtPosns a ++ sstmtPosns b
  | .comment => []
  | .dim _ _ p => [p]
  | .assign _ _ e p => p :: exprPosns e
  | .print items p => p :: items.flatMap itemPosns
  | .data items p => p :: items.map (·.2)
  | .read vars p => p :: vars.map (·.2.2)
  | .ifBlock c thn elifs _ els p => p :: (exprPosns c ++ sstmtPosns thn ++ elifsPosns elifs ++ sstmtPosns els)
  | .select e cases _ els p => p :: (exprPosns e ++ scasesPosns cases ++ sstmtPosns els)
  | .forLoop _ _ lo hi step body p => p :: (exprPosns lo ++ exprPosns hi ++ optExprPosns step ++ sstmtPosns body)
  | .while c body p => p :: (exprPosns c ++ sstmtPosns body)
  | .doLoop c _ _ body p => p :: (exprPosns c ++ sstmtPosns body)
  | .end_ p => [p]
  | .label _ _ p => [p]
  | .goto _ p => [p]
  | .gosub _ p => [p]
  | .ret p => [p]
def elifsPosns : ElseIfs → List Pos
  | .nil => []
  | .cons c body rest => exprPosns c ++ sstmtPosns body ++ elifsPosns rest
def scasesPosns : SCases → List Pos
  | .nil => []
  | .cons conds body rest => conds.flatMap caseExprPosns ++ sstmtPosns body ++ scasesPosns rest
end

mutual
/-- the positions of the RETURN statements of the source tree -/
def retPosns : SStmt → List Pos
  | .seq a b => retPosns a ++ retPosns b
  | .ifBlock _ thn elifs _ els _ => retPosns thn ++ elifsRetPosns elifs ++ retPosns els
  | .select _ cases _ els _ => scasesRetPosns cases ++ retPosns els
  | .forLoop _ _ _ _ _ body _ => retPosns body
  | .while _ body _ => retPosns body
  | .doLoop _ _ _ body _ => retPosns body
  | .ret p => [p]
  | .skip => []
  | .comment => []
  | .dim .. => []
  | .assign .. => []
  | .print .. => []
  | .data .. => []
  | .read .. => []
  | .end_ _ => []
  | .label .. => []
  | .goto .. => []
  | .gosub .. => []
def elifsRetPosns : ElseIfs → List Pos
  | .nil => []
  | .cons _ body rest => retPosns body ++ elifsRetPosns rest
def scasesRetPosns : SCases → List Pos
  | .nil => []
  | .cons _ body rest => retPosns body ++ scasesRetPosns rest
end

theorem readSeq_posns (p q : Pos) : ∀ vars : List (Nat × Ty × Pos), q ∈ stmtPosns (readSeq p vars) → q = p
  | [], h => by simp [readSeq, stmtPosns] at h
  | (x, t, r) :: rest, h => by
    simp only [readSeq, stmtPosns, List.mem_append, List.mem_cons] at h
    rcases h with (h | h) | h
    · exact h
    · cases h
    · exact readSeq_posns p q rest h

theorem readSeq_retPosns (p : Pos) : ∀ vars : List (Nat × Ty × Pos), stmtRetPosns (readSeq p vars) = []
  | [] => by simp [readSeq, stmtRetPosns]
  | (x, t, r) :: rest => by simp [readSeq, stmtRetPosns, readSeq_retPosns p rest]

mutual
/-- desugaring adds no positions -/
theorem desugar_posns (q : Pos) : ∀ s : SStmt, q ∈ stmtPosns (desugar s) → q ∈ sstmtPosns s
  | .skip, h => by simp [desugar, stmtPosns] at h
  | .comment, h => by simp [desugar, stmtPosns] at h
  | .data _ _, h => by simp [desugar, stmtPosns] at h
  | .label _ _ _, h => by simp [desugar, stmtPosns] at h
  | .goto _ _, h => by simp [desugar, stmtPosns] at h
  | .gosub _ _, h => by simp [desugar, stmtPosns] at h
  | .seq a b, h => by
    simp only [desugar, stmtPosns, List.mem_append] at h
    rcases h with h | h
    · simp [sstmtPosns, desugar_posns q a h]
    · simp [sstmtPosns, desugar_posns q b h]
  | .dim x t p, h => by simpa [desugar, stmtPosns, exprPosns, sstmtPosns] using h
  | .assign x t e p, h => by simpa [desugar, stmtPosns, sstmtPosns] using h
  | .print items p, h => by simpa [desugar, stmtPosns, sstmtPosns] using h
  | .read vars p, h => by
    simp only [desugar] at h
    simp [sstmtPosns, readSeq_posns p q vars h]
  | .ifBlock c thn elifs he els p, h => by
    simp only [desugar, stmtPosns, List.mem_append, List.mem_cons] at h
    rcases h with h | (h | h) | h
    · simp [sstmtPosns, h]
    · simp [sstmtPosns, h]
    · simp [sstmtPosns, desugar_posns q thn h]
    · rcases desugarElifs_posns q elifs (desugar els) p h with h1 | h1 | h1
      · simp [sstmtPosns, h1]
      · simp [sstmtPosns, h1]
      · simp [sstmtPosns, desugar_posns q els h1]
  | .select e cases he els p, h => by
    simp only [desugar, stmtPosns, List.mem_append, List.mem_cons] at h
    rcases h with h | h | h
    · simp [sstmtPosns, h]
    · simp [sstmtPosns, h]
    · rcases desugarCases_posns q cases _ h with h1 | h1
      · simp [sstmtPosns, h1]
      · cases he with
        | true =>
          simp only [if_true, casesPosns] at h1
          simp [sstmtPosns, desugar_posns q els h1]
        | false => simp [casesPosns] at h1
  | .forLoop x t lo hi step body p, h => by
    simp only [desugar, stmtPosns, List.mem_append, List.mem_cons] at h
    rcases h with h | ((h | h) | h) | h
    · simp [sstmtPosns, h]
    · simp [sstmtPosns, h]
    · simp [sstmtPosns, h]
    · simp [sstmtPosns, h]
    · simp [sstmtPosns, desugar_posns q body h]
  | .while c body p, h => by
    simp only [desugar, stmtPosns, List.mem_append, List.mem_cons] at h
    rcases h with h | h | h
    · simp [sstmtPosns, h]
    · simp [sstmtPosns, h]
    · simp [sstmtPosns, desugar_posns q body h]
  | .doLoop c top u body p, h => by
    simp only [desugar, stmtPosns, List.mem_append, List.mem_cons] at h
    rcases h with h | h | h
    · simp [sstmtPosns, h]
    · simp [sstmtPosns, h]
    · simp [sstmtPosns, desugar_posns q body h]
  | .end_ p, h => by simpa [desugar, stmtPosns, sstmtPosns] using h
  | .ret p, h => by simpa [desugar, stmtPosns, sstmtPosns] using h
theorem desugarElifs_posns (q : Pos) : ∀ (e : ElseIfs) (els : Stmt) (p : Pos),
    q ∈ stmtPosns (desugarElifs e els p) → q = p ∨ q ∈ elifsPosns e ∨ q ∈ stmtPosns els
  | .nil, els, p, h => by simp only [desugarElifs] at h; exact .inr (.inr h)
  | .cons c body rest, els, p, h => by
    simp only [desugarElifs, stmtPosns, List.mem_append, List.mem_cons] at h
    rcases h with h | (h | h) | h
    · exact .inl h
    · exact .inr (.inl (by simp [elifsPosns, h]))
    · exact .inr (.inl (by simp [elifsPosns, desugar_posns q body h]))
    · rcases desugarElifs_posns q rest els p h with h1 | h1 | h1
      · exact .inl h1
      · exact .inr (.inl (by simp [elifsPosns, h1]))
      · exact .inr (.inr h1)
theorem desugarCases_posns (q : Pos) : ∀ (cs : SCases) (tail : Cases),
    q ∈ casesPosns (desugarCases cs tail) → q ∈ scasesPosns cs ∨ q ∈ casesPosns tail
  | .nil, tail, h => by simp only [desugarCases] at h; exact .inr h
  | .cons conds body rest, tail, h => by
    simp only [desugarCases, casesPosns, List.mem_append] at h
    rcases h with (h | h) | h
    · exact .inl (by simp [scasesPosns, h])
    · exact .inl (by simp [scasesPosns, desugar_posns q body h])
    · rcases desugarCases_posns q rest tail h with h1 | h1
      · exact .inl (by simp [scasesPosns, h1])
      · exact .inr h1
end

mutual
/-- desugaring adds no RETURN -/
theorem desugar_retPosns (q : Pos) : ∀ s : SStmt, q ∈ stmtRetPosns (desugar s) → q ∈ retPosns s
  | .skip, h => by simp [desugar, stmtRetPosns] at h
  | .comment, h => by simp [desugar, stmtRetPosns] at h
  | .data _ _, h => by simp [desugar, stmtRetPosns] at h
  | .label _ _ _, h => by simp [desugar, stmtRetPosns] at h
  | .goto _ _, h => by simp [desugar, stmtRetPosns] at h
  | .gosub _ _, h => by simp [desugar, stmtRetPosns] at h
  | .dim x t p, h => by simp [desugar, stmtRetPosns] at h
  | .assign x t e p, h => by simp [desugar, stmtRetPosns] at h
  | .print items p, h => by simp [desugar, stmtRetPosns] at h
  | .end_ p, h => by simp [desugar, stmtRetPosns] at h
  | .read vars p, h => by simp [desugar, readSeq_retPosns] at h
  | .ret p, h => by simpa [desugar, stmtRetPosns, retPosns] using h
  | .seq a b, h => by
    simp only [desugar, stmtRetPosns, List.mem_append] at h
    rcases h with h | h
    · simp [retPosns, desugar_retPosns q a h]
    · simp [retPosns, desugar_retPosns q b h]
  | .ifBlock c thn elifs he els p, h => by
    simp only [desugar, stmtRetPosns, List.mem_append] at h
    rcases h with h | h
    · simp [retPosns, desugar_retPosns q thn h]
    · rcases desugarElifs_retPosns q elifs (desugar els) p h with h1 | h1
      · simp [retPosns, h1]
      · simp [retPosns, desugar_retPosns q els h1]
  | .select e cases he els p, h => by
    simp only [desugar, stmtRetPosns] at h
    rcases desugarCases_retPosns q cases _ h with h1 | h1
    · simp [retPosns, h1]
    · cases he with
      | true =>
        simp only [if_true, casesRetPosns] at h1
        simp [retPosns, desugar_retPosns q els h1]
      | false => simp [casesRetPosns] at h1
  | .forLoop x t lo hi step body p, h => by
    simp only [desugar, stmtRetPosns] at h
    simp [retPosns, desugar_retPosns q body h]
  | .while c body p, h => by
    simp only [desugar, stmtRetPosns] at h
    simp [retPosns, desugar_retPosns q body h]
  | .doLoop c top u body p, h => by
    simp only [desugar, stmtRetPosns] at h
    simp [retPosns, desugar_retPosns q body h]
theorem desugarElifs_retPosns (q : Pos) : ∀ (e : ElseIfs) (els : Stmt) (p : Pos),
    q ∈ stmtRetPosns (desugarElifs e els p) → q ∈ elifsRetPosns e ∨ q ∈ stmtRetPosns els
  | .nil, els, p, h => by simp only [desugarElifs] at h; exact .inr h
  | .cons c body rest, els, p, h => by
    simp only [desugarElifs, stmtRetPosns, List.mem_append] at h
    rcases h with h | h
    · exact .inl (by simp [elifsRetPosns, desugar_retPosns q body h])
    · rcases desugarElifs_retPosns q rest els p h with h1 | h1
      · exact .inl (by simp [elifsRetPosns, h1])
      · exact .inr h1
theorem desugarCases_retPosns (q : Pos) : ∀ (cs : SCases) (tail : Cases),
    q ∈ casesRetPosns (desugarCases cs tail) → q ∈ scasesRetPosns cs ∨ q ∈ casesRetPosns tail
  | .nil, tail, h => by simp only [desugarCases] at h; exact .inr h
  | .cons conds body rest, tail, h => by
    simp only [desugarCases, casesRetPosns, List.mem_append] at h
    rcases h with h | h
    · exact .inl (by simp [scasesRetPosns, desugar_retPosns q body h])
    · rcases desugarCases_retPosns q rest tail h with h1 | h1
      · exact .inl (by simp [scasesRetPosns, h1])
      · exact .inr h1
end

/-! ### the invariant in the form "every position of the piece has `Q`" -/

theorem cov_of_posns {Q : Pos → Prop} {st : Stmt} (h : ∀ q ∈ stmtPosns st, Q q) : Cov Q Q st :=
  ⟨h, fun q hq => h q (stmtRetPosns_sub q st hq)⟩

/-- with `Q` a property of every position of the whole body `P` (a GOSUB runs `P` again), at every amount of fuel,
for `exec`, `execCases`, `seekCases`, `selectSeek`, `forIter` in every mode: an outcome `error c p` **or** `ret p` of
a piece all of whose positions have `Q` has `Q p` (`Good Q Q`) -/
theorem inv_pos (P : Stmt) (Q : Pos → Prop) (hP : ∀ q ∈ stmtPosns P, Q q) (fuel : Nat) : Inv P Q Q fuel :=
  inv_all P Q Q (cov_of_posns hP) fuel

theorem exec_error_pos (P : Stmt) (Q : Pos → Prop) (hP : ∀ q ∈ stmtPosns P, Q q) (fuel : Nat) (st : Stmt) (m : Mode)
    (s s' : St) (c : Nat) (p : Pos) (hst : ∀ q ∈ stmtPosns st, Q q)
    (h : JmpL.Ref.exec fuel P st m s = (s', .error c p)) : Q p := by
  have := (inv_pos P Q hP fuel).exec st m s (cov_of_posns hst)
  rw [h] at this
  exact this.2

theorem exec_ret_pos (P : Stmt) (Q : Pos → Prop) (hP : ∀ q ∈ stmtPosns P, Q q) (fuel : Nat) (st : Stmt) (m : Mode)
    (s s' : St) (p : Pos) (hst : ∀ q ∈ stmtPosns st, Q q)
    (h : JmpL.Ref.exec fuel P st m s = (s', .ret p)) : Q p := by
  have := (inv_pos P Q hP fuel).exec st m s (cov_of_posns hst)
  rw [h] at this
  exact this

/-- no statement fails with code 3: the codes of `exec` are Out of DATA (4), Overflow (6), Division by zero (11),
Type mismatch (13) and the zero-STEP code (258) -/
theorem exec_error_code (P : Stmt) (fuel : Nat) (st : Stmt) (m : Mode) (s s' : St) (c : Nat) (p : Pos)
    (h : JmpL.Ref.exec fuel P st m s = (s', .error c p)) : c ∈ stmtCodes ∧ c ≠ 3 := by
  have := (inv_all P (fun _ => True) (fun _ => True) ⟨fun _ _ => trivial, fun _ _ => trivial⟩ fuel).exec st m s
    ⟨fun _ _ => trivial, fun _ _ => trivial⟩
  rw [h] at this
  exact ⟨this.1, fun h3 => three_not_stmtCode (h3 ▸ this.1)⟩

/-- a `ret p` that comes out of a statement is the position of a RETURN of that statement or (through a GOSUB) of the
whole body -/
theorem exec_ret_at_return (P : Stmt) (fuel : Nat) (st : Stmt) (m : Mode) (s s' : St) (p : Pos)
    (h : JmpL.Ref.exec fuel P st m s = (s', .ret p)) : p ∈ stmtRetPosns st ∨ p ∈ stmtRetPosns P := by
  have := (inv_all P (fun _ => True) (fun q => q ∈ stmtRetPosns st ∨ q ∈ stmtRetPosns P)
    ⟨fun _ _ => trivial, fun q hq => .inr hq⟩ fuel).exec st m s ⟨fun _ _ => trivial, fun q hq => .inl hq⟩
  rw [h] at this
  exact this

/-! ### the property theorems -/

open RbThm.C08Layers2.Jumps (Finished finished run_of_steps_halt run_of_steps_err ends demo demoRet)

/-- where an error of `run` comes from: an error of the body, passed on, or — code 3 — a `ret` that reached the top -/
theorem run_error (prog : Program) (fuel c : Nat) (p : Pos) (h : (JmpL.Ref.run fuel prog).2 = .error c p) :
    (∃ s', JmpL.Ref.exec fuel prog.body prog.body .run (St.init prog) = (s', .error c p)) ∨
    (c = 3 ∧ ∃ s', JmpL.Ref.exec fuel prog.body prog.body .run (St.init prog) = (s', .ret p)) := by
  unfold JmpL.Ref.run at h
  generalize hr : JmpL.Ref.exec fuel prog.body prog.body .run (St.init prog) = r at h
  obtain ⟨s', o⟩ := r
  cases o <;> simp only [Outcome.error.injEq, reduceCtorEq] at h
  · obtain ⟨rfl, rfl⟩ := h
    exact .inr ⟨rfl, s', rfl⟩
  · obtain ⟨rfl, rfl⟩ := h
    exact .inl ⟨s', rfl⟩

/-- **`ref_error_pos_within_program`** (jump layer) — the position the reference semantics prescribes for a run-time
error — error 3 of a RETURN that no GOSUB is waiting for included — is a position carried by a node of the program's
tree.  No premise. -/
theorem ref_error_pos_within_program (prog : SProgram) (fuel c : Nat) (p : Pos)
    (h : (JmpL.Ref.run fuel prog.toAst).2 = .error c p) : p ∈ sstmtPosns prog.body := by
  apply desugar_posns p prog.body
  rcases run_error _ fuel c p h with ⟨s', hr⟩ | ⟨_, s', hr⟩
  · exact exec_error_pos _ (· ∈ stmtPosns (desugar prog.body)) (fun q hq => hq) fuel _ _ _ _ c p (fun q hq => hq) hr
  · exact exec_ret_pos _ (· ∈ stmtPosns (desugar prog.body)) (fun q hq => hq) fuel _ _ _ _ p (fun q hq => hq) hr

/-- the error codes of a reference run -/
theorem ref_error_code (prog : SProgram) (fuel c : Nat) (p : Pos)
    (h : (JmpL.Ref.run fuel prog.toAst).2 = .error c p) : c ∈ 3 :: stmtCodes := by
  rcases run_error _ fuel c p h with ⟨s', hr⟩ | ⟨rfl, _⟩
  · exact List.mem_cons_of_mem _ (exec_error_code _ fuel _ _ _ _ c p hr).1
  · exact List.mem_cons_self ..

/-- **`return_without_gosub_at_return`** (jump layer) — error 3 (RETURN without GOSUB) is reported at the position of
a RETURN statement of the program, wherever it stands (inside loops, IF / SELECT blocks), and by nothing else: no
expression and no other statement of the layer fails with code 3 (`exec_error_code`).  No premise. -/
theorem return_without_gosub_at_return (prog : SProgram) (fuel : Nat) (p : Pos)
    (h : (JmpL.Ref.run fuel prog.toAst).2 = .error 3 p) : p ∈ retPosns prog.body := by
  apply desugar_retPosns p prog.body
  rcases run_error _ fuel 3 p h with ⟨s', hr⟩ | ⟨_, s', hr⟩
  · exact absurd rfl (exec_error_code _ fuel _ _ _ _ 3 p hr).2
  · rcases exec_ret_at_return _ fuel _ _ _ _ p hr with h1 | h1 <;> exact h1

/-- … and conversely a `ret p` that reaches the top is answered with error 3 at `p` -/
theorem run_of_ret (prog : Program) (fuel : Nat) (s' : St) (p : Pos)
    (h : JmpL.Ref.exec fuel prog.body prog.body .run (St.init prog) = (s', .ret p)) :
    JmpL.Ref.run fuel prog = (s', .error 3 p) := by
  simp [JmpL.Ref.run, h, JmpL.Ref.codeReturnWithoutGoSub]

/-- **`runtime_error_pos_is_ref_pos`** (jump layer) — for a program the premise checker accepts on which the
reference run finishes, whatever error the VM model stops with — at any step budget — is the reference's: same code,
same position. -/
theorem runtime_error_pos_is_ref_pos (prog : SProgram) (fuel : Nat) (hw : progWfB prog = true)
    (hfin : Finished (JmpL.Ref.run fuel prog.toAst).2) :
    ∀ (m c : Nat) (p : Pos) (ω : Vm), Vm.run (compile prog) m (Vm.init prog.slots) = .error c p ω →
      (JmpL.Ref.run fuel prog.toAst).2 = .error c p := by
  intro m c p ω hrun
  rcases ends prog fuel hw hfin with ⟨τ, υ, hs, hh, _⟩ | ⟨τ, υ, c', p', hs, hh, _, hr⟩
  · rcases run_of_steps_halt _ hs hh m with h1 | h1 <;> rw [h1] at hrun <;> cases hrun
  · rcases run_of_steps_err _ hs hh m with h1 | h1 <;> rw [h1] at hrun <;> cases hrun
    exact hr

/-- **`runtime_error_pos_within_program`** (jump layer) — hence the position reported with a run-time error of the VM
run is a position carried by a node of the program. -/
theorem runtime_error_pos_within_program (prog : SProgram) (fuel : Nat) (hw : progWfB prog = true)
    (hfin : Finished (JmpL.Ref.run fuel prog.toAst).2) :
    ∀ (m c : Nat) (p : Pos) (ω : Vm), Vm.run (compile prog) m (Vm.init prog.slots) = .error c p ω →
      p ∈ sstmtPosns prog.body :=
  fun m c p ω hrun =>
    ref_error_pos_within_program prog fuel c p (runtime_error_pos_is_ref_pos prog fuel hw hfin m c p ω hrun)

/-- **`vm_error3_at_return`** (jump layer) — … and error 3 of the VM run is reported at a RETURN statement. -/
theorem vm_error3_at_return (prog : SProgram) (fuel : Nat) (hw : progWfB prog = true)
    (hfin : Finished (JmpL.Ref.run fuel prog.toAst).2) :
    ∀ (m : Nat) (p : Pos) (ω : Vm), Vm.run (compile prog) m (Vm.init prog.slots) = .error 3 p ω →
      p ∈ retPosns prog.body :=
  fun m p ω hrun =>
    return_without_gosub_at_return prog fuel p (runtime_error_pos_is_ref_pos prog fuel hw hfin m 3 p ω hrun)

/-! ### non-vacuity -/

/-- `demoRet` = `FOR I% = 1 TO 3 : RETURN : NEXT`: accepted, finishes with error 3 at ⟨2, 3⟩, the RETURN inside the
FOR body — the only RETURN position of the program (the FOR itself is at ⟨1, 1⟩) -/
example : progWfB demoRet = true ∧ (JmpL.Ref.run 30 demoRet.toAst).2 = .error 3 ⟨2, 3⟩ ∧
    retPosns demoRet.body = [⟨2, 3⟩] ∧ (⟨1, 1⟩ : Pos) ∈ sstmtPosns demoRet.body := by decide +kernel

example : (⟨2, 3⟩ : Pos) ∈ retPosns demoRet.body :=
  return_without_gosub_at_return demoRet 30 _ (by decide +kernel)

/-- whatever error the VM model reports on `demoRet`, at any budget, is error 3 at ⟨2, 3⟩, a RETURN of the program -/
example (m c : Nat) (p : Pos) (ω : Vm) (h : Vm.run (compile demoRet) m (Vm.init demoRet.slots) = .error c p ω) :
    c = 3 ∧ p = ⟨2, 3⟩ ∧ p ∈ sstmtPosns demoRet.body ∧ p ∈ retPosns demoRet.body := by
  have h1 := runtime_error_pos_is_ref_pos demoRet 30 (by decide +kernel) (by decide +kernel) m c p ω h
  have h2 : (JmpL.Ref.run 30 demoRet.toAst).2 = .error 3 ⟨2, 3⟩ := by decide +kernel
  rw [h2] at h1
  simp only [Outcome.error.injEq] at h1
  obtain ⟨rfl, rfl⟩ := h1
  exact ⟨rfl, rfl, runtime_error_pos_within_program demoRet 30 (by decide +kernel) (by decide +kernel) m _ _ ω h,
    vm_error3_at_return demoRet 30 (by decide +kernel) (by decide +kernel) m _ ω h⟩

/-- `demo 32767`: accepted, finishes with Overflow (6) at ⟨7, 11⟩ — the `+` inside the routine's FOR body, reached
through `GOSUB` (a nested run of the whole body), while that GOSUB is pending; not the GOSUB at ⟨2, 1⟩, not a RETURN -/
example : progWfB (demo 32767) = true ∧ (JmpL.Ref.run 60 (demo 32767).toAst).2 = .error 6 ⟨7, 11⟩ ∧
    (⟨7, 11⟩ : Pos) ∈ sstmtPosns (demo 32767).body ∧ (⟨7, 11⟩ : Pos) ∉ retPosns (demo 32767).body ∧
    retPosns (demo 32767).body = [⟨8, 18⟩, ⟨10, 1⟩] := by decide +kernel

example (m c : Nat) (p : Pos) (ω : Vm)
    (h : Vm.run (compile (demo 32767)) m (Vm.init (demo 32767).slots) = .error c p ω) :
    c = 6 ∧ p = ⟨7, 11⟩ ∧ p ∈ sstmtPosns (demo 32767).body := by
  have h1 := runtime_error_pos_is_ref_pos (demo 32767) 60 (by decide +kernel) (by decide +kernel) m c p ω h
  have h2 : (JmpL.Ref.run 60 (demo 32767).toAst).2 = .error 6 ⟨7, 11⟩ := by decide +kernel
  rw [h2] at h1
  simp only [Outcome.error.injEq] at h1
  obtain ⟨rfl, rfl⟩ := h1
  exact ⟨rfl, rfl, runtime_error_pos_within_program (demo 32767) 60 (by decide +kernel) (by decide +kernel) m _ _ ω h⟩

/-- the hypotheses of `exec_ret_pos` / `run_of_ret` are met: the body of `demoRet` answers `ret ⟨2, 3⟩` -/
example : (JmpL.Ref.exec 30 demoRet.toAst.body demoRet.toAst.body .run (St.init demoRet.toAst)).2 = .ret ⟨2, 3⟩ := by
  decide +kernel

end RbThm.C11Layers2.Jumps
