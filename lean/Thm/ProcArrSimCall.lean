import Thm.ProcArrSimBase
import Thm.ProcArrSimStmt
import Thm.ProcArrSimArgs
/-!
Combined layer, simulation part — calls.

`call_correct`: the whole call protocol — `BeginCollectArguments`, the arguments (`case_args`: an element actual travels
with the path resolved then), `PushStack` (the callee's block: parameters bound, no arrays, the argument paths) /
`PushStaticStack`, `PushRet`, `Jump` to the procedure's label (a STATIC FUNCTION then resets its result variable), the body
(by the statement hypothesis at the fuel the reference semantics uses, ended by the final `PopRet` or by `EXIT SUB /
FUNCTION`), then the epilogue: `EnqueueToReturnStack` for every by-reference actual (the queue receives the callee's final
value of the parameter AND the argument's path: `enq_phase`), `StashFunctionReturnValue`, `PopStack` (`rel_back`: the
caller's block — its arrays included — is as it was at the call), the write-backs left to right (`wb_phase`: a variable by
`DequeueFromReturnStack · VarPathName · CopyAToVarPath`, an ELEMENT by `DequeueFromReturnStackWithPath · CopyAToVarPath` =
`St.setElem` at the location resolved before the call; the store cannot fail because that location is still inside the
box of a dimensioned array: `LocsOk`), `UnStashFunctionReturnValue`.
-/
namespace RbThm.ProcArrSim
set_option linter.unusedVariables false
set_option linter.unusedSimpArgs false
open RbModel RbModel.Num RbModel.ProcArr RbModel.ProcArr.Compile RbModel.ProcArr.Vm
open RbModel.Ast (Pos)
open RbThm.ProcArrLen
open RbThm.ProcArrBounds (SameBounds)

/-! ### the epilogue -/

/-- everything but the program counter, the registers, the context stack, the by-reference queue and the function result
is as it was -/
structure Frozen (σ τ : Vm) : Prop where
  regStack : τ.regStack = σ.regStack
  vals : τ.vals = σ.vals
  paths : τ.paths = σ.paths
  out : τ.out = σ.out
  skipNewline : τ.skipNewline = σ.skipNewline
  data : τ.data = σ.data
  dataIdx : τ.dataIdx = σ.dataIdx
  rets : τ.rets = σ.rets
  marks : τ.marks = σ.marks
  trace : τ.trace = σ.trace

theorem Frozen.refl (σ : Vm) : Frozen σ σ := ⟨rfl, rfl, rfl, rfl, rfl, rfl, rfl, rfl, rfl, rfl⟩

theorem Frozen.trans {a b c : Vm} (h₁ : Frozen a b) (h₂ : Frozen b c) : Frozen a c :=
  ⟨h₂.regStack.trans h₁.regStack, h₂.vals.trans h₁.vals, h₂.paths.trans h₁.paths, h₂.out.trans h₁.out,
    h₂.skipNewline.trans h₁.skipNewline, h₂.data.trans h₁.data, h₂.dataIdx.trans h₁.dataIdx,
    h₂.rets.trans h₁.rets, h₂.marks.trans h₁.marks, h₂.trace.trans h₁.trace⟩

/-- the entries the epilogue queues: for every by-reference actual (a variable or an element) the callee's final value of
its parameter and the path the argument came with (`cp` = the argument paths of the callee's block) -/
def refQ : Nat → Args → List Val → List (Option Path) → List (Val × Option Path)
  | _, .nil, _, _ => []
  | i, .cons e _ _ rest, callee, cp =>
    (if e.isRef then [(callee.getD i (zeroOf e.ty), cp[i]?.join)] else []) ++ refQ (i + 1) rest callee cp

/-- the callee's frame holds, created, the final value of every by-reference parameter -/
def RefsOk (fr : Frame) (callee : List Val) : Nat → Args → Prop
  | _, .nil => True
  | i, .cons e _ _ rest =>
    (e.isRef = true → fr[i]? = some (some (callee.getD i (zeroOf e.ty)))) ∧ RefsOk fr callee (i + 1) rest

/-- every by-reference variable is a variable of the caller's scope (or a DIM SHARED one) at the variable's type, every
element actual comes back with the path of the location it denoted when it was evaluated, and the value that comes back
has the type of the variable / element -/
def WbOk (sc : Scope) (callee : List Val) (cp : List (Option Path)) : Nat → Args → List (Val × Option Loc) → Prop
  | _, .nil, _ => True
  | _, .cons _ _ _ _, [] => False
  | i, .cons e _ _ rest, av :: avs =>
    (∀ x t q, e = .var x t q → sc.slots.get? x = some t ∧ (callee.getD i (zeroOf t)).tag = t) ∧
    (∀ a idx t q, e = .elem a idx t q → (callee.getD i (zeroOf t)).tag = t ∧ cp[i]?.join = locPath av.2) ∧
    WbOk sc callee cp (i + 1) rest avs

theorem params_length : ∀ (args : Args), args.params.length = args.length
  | .nil => rfl
  | .cons _ _ _ rest => by simp [Args.params, Args.length, params_length rest]

theorem refsOk_of (scd : Scope) (fr : Frame) (callee : List Val) (hfr : FrameRel scd fr callee) (sg : Sigs) (sl : SlotTabs)
    (cs : Bool) :
    ∀ (args : Args) (i : Nat), AWf sg sl cs args →
      (∀ (k : Nat) (pn : String) (pt : Ty), args.params[k]? = some (pn, pt) → scd.slots.loc[i + k]? = some pt) →
      i + args.length ≤ scd.np → RefsOk fr callee i args
  | .nil, _, _, _, _ => trivial
  | .cons e pn pt rest, i, hw, hsl, hnp => by
    simp only [AWf] at hw
    obtain ⟨hwe, hwr, hwel, hwrest⟩ := hw
    refine ⟨?_, refsOk_of scd fr callee hfr sg sl cs rest (i + 1) hwrest ?_ ?_⟩
    · intro he
      have ht : e.ty = pt := hwr he
      have hs : scd.slots.loc[i]? = some e.ty := by
        have := hsl 0 pn pt (by simp [Args.params])
        rw [ht]; simpa using this
      obtain ⟨v, hv⟩ := hfr.created i (by simp only [Args.length] at hnp; omega)
      have hg := hfr.get i e.ty hs
      simp only [getVar, hv] at hg
      rw [hv, hg]
    · intro k pn' pt' hk
      have := hsl (k + 1) pn' pt' (by simpa [Args.params] using hk)
      rw [show i + 1 + k = i + (k + 1) by omega]; exact this
    · simp only [Args.length] at hnp; omega

theorem wbOk_of (sc : Scope) (dslots : List Ty) (callee : List Val) (hty : Typed dslots callee) (sg : Sigs) (cs : Bool)
    (cp : List (Option Path)) :
    ∀ (args : Args) (avs : List (Val × Option Loc)) (i : Nat), AWf sg sc.slots cs args → args.length = avs.length →
      (∀ (k : Nat) (pn : String) (pt : Ty), args.params[k]? = some (pn, pt) → dslots[i + k]? = some pt) →
      (cs = false → ∀ (k : Nat) (av : Val × Option Loc), avs[k]? = some av → cp[i + k]?.join = locPath av.2) →
      WbOk sc callee cp i args avs
  | .nil, _, _, _, _, _, _ => trivial
  | .cons e pn pt rest, [], i, hw, hlen, hsl, hcp => by simp [Args.length] at hlen
  | .cons e pn pt rest, av :: avs, i, hw, hlen, hsl, hcp => by
    simp only [AWf] at hw
    obtain ⟨hwe, hwr, hwel, hwrest⟩ := hw
    have hs : dslots[i]? = some pt := by
      have := hsl 0 pn pt (by simp [Args.params])
      simpa using this
    refine ⟨?_, ?_, wbOk_of sc dslots callee hty sg cs cp rest avs (i + 1) hwrest
      (by simp only [Args.length, List.length_cons] at hlen; omega) ?_ ?_⟩
    · intro x t q he
      subst he
      have ht : t = pt := hwr rfl
      subst ht
      simp only [EWf] at hwe
      exact ⟨hwe, RbThm.C01Sim.SimRead.typed_getD_tag hty hs _⟩
    · intro a idx t q he
      subst he
      have ht : t = pt := hwr rfl
      subst ht
      refine ⟨RbThm.C01Sim.SimRead.typed_getD_tag hty hs _, ?_⟩
      have := hcp (hwel rfl) 0 av (by simp)
      simpa using this
    · intro k pn' pt' hk
      have := hsl (k + 1) pn' pt' (by simpa [Args.params] using hk)
      rw [show i + 1 + k = i + (k + 1) by omega]; exact this
    · intro hcs k av' hk
      have := hcp hcs (k + 1) av' (by simpa using hk)
      rw [show i + 1 + k = i + (k + 1) by omega]; exact this

/-- `EnqueueToReturnStack i` for every by-reference actual, left to right: the queue receives the final value of the
parameter and the path of the argument -/
theorem enq_phase (code : Code) (fr : Frame) (callee : List Val) (cp : List (Option Path)) : ∀ (args : Args) (i : Nat) (τ : Vm),
    CodeAt code τ.pc (enqueues i args) → τ.curFrame = some fr → curPaths τ.ctx = cp → RefsOk fr callee i args →
    ∃ υ, Steps code τ υ ∧ υ.pc = τ.pc + refCount args ∧ υ.queue = τ.queue ++ refQ i args callee cp ∧
      υ.ctx = τ.ctx ∧ υ.glob = τ.glob ∧ υ.statics = τ.statics ∧ υ.funRes = τ.funRes ∧ υ.regs = τ.regs ∧
      υ.arrA = τ.arrA ∧ Frozen τ υ
  | .nil, i, τ, _, _, _, _ =>
    ⟨τ, Steps.refl τ, by simp [refCount], by simp [refQ], rfl, rfl, rfl, rfl, rfl, rfl, Frozen.refl τ⟩
  | .cons e pn pt rest, i, τ, hc, hcv, hcp, hok => by
    obtain ⟨hok1, hok2⟩ := hok
    cases hre : e.isRef with
    | true =>
      simp only [enqueues, hre, if_true] at hc
      have h0 : code[τ.pc]? = some (CInstr.enqueue i, e.pos) := hc.append_left.head
      have hv := hok1 hre
      let τ1 : Vm := Vm.advance { τ with queue := τ.queue ++ [(callee.getD i (zeroOf e.ty), cp[i]?.join)] }
      have s1 : Vm.step code τ = .next τ1 := by simp only [Vm.step, h0, hcv, hv, hcp]; rfl
      obtain ⟨υ, st, hp, hq, hcx, hgl, hst, hf, hrg, hA, hfz⟩ := enq_phase code fr callee cp rest (i + 1) τ1 (by
        have := hc.append_right
        exact (by simpa using this : CodeAt code (τ.pc + 1) _)) hcv hcp hok2
      refine ⟨υ, Steps.cons s1 st, ?_, ?_, hcx, hgl, hst, hf, hrg, hA,
        Frozen.trans (show Frozen τ τ1 from ⟨rfl, rfl, rfl, rfl, rfl, rfl, rfl, rfl, rfl, rfl⟩) hfz⟩
      · rw [hp]; simp only [τ1, Vm.advance, refCount, hre, if_true]; omega
      · rw [hq]; simp only [τ1, Vm.advance, refQ, hre, if_true, List.append_assoc]
    | false =>
      simp only [enqueues, hre, Bool.false_eq_true, if_false, List.nil_append] at hc
      simpa [refCount, refQ, hre] using enq_phase code fr callee cp rest (i + 1) τ hc hcv hcp hok2

/-- a store depends on the machine only through the context stack and the variable blocks -/
theorem setV_cgs (σ σ' : Vm) (x : Var) (v : Val) (hc : σ'.ctx = σ.ctx) (hg : σ'.glob = σ.glob)
    (hs : σ'.statics = σ.statics) :
    (σ'.setV x v).ctx = (σ.setV x v).ctx ∧ (σ'.setV x v).glob = (σ.setV x v).glob ∧
      (σ'.setV x v).statics = (σ.setV x v).statics := by
  unfold Vm.setV Vm.setLocal
  rw [hc]
  cases x.shared <;> simp only [Bool.false_eq_true, if_true, if_false]
  · cases curStatic σ.ctx <;> simp [hc, hg, hs]
  · simp [hc, hg, hs]

/-- the machine with an empty by-reference queue and no stashed result -/
def clr (τ : Vm) : Vm := { τ with queue := [], funRes := none }

/-- `CopyAToVarPath` through the path of a valid location, in a machine whose queue / stashed result are still in use:
`St.setElem` -/
theorem elem_store_clr (W : World) (sc : Scope) (pre below : List CtxState) (s : St) (τ : Vm) (a : Nat) (t : Ty)
    (is : List Int) (rest : List Path) (p : Pos) (A : RArr)
    (hr : Rel W sc pre below s (clr τ)) (ha : sc.slots.arrs[a]? = some t) (hv : τ.regs.a.tag = t)
    (h0 : W.code[τ.pc]? = some (CInstr.copyAToVarPath, p)) (hp : τ.paths = .elem a is :: rest) (hne : is ≠ [])
    (hA : s.arrs[a]? = some (some A)) (hin : A.inBounds is = true) :
    ∃ υ, Vm.step W.code τ = .next υ ∧ υ.pc = τ.pc + 1 ∧ υ.paths = rest ∧ υ.queue = τ.queue ∧ υ.funRes = τ.funRes ∧
      Rel W sc pre below (s.setElem a is τ.regs.a) (clr υ) ∧
      υ.regStack = τ.regStack ∧ υ.vals = τ.vals ∧ υ.out = τ.out ∧ υ.skipNewline = τ.skipNewline ∧ υ.data = τ.data ∧
      υ.dataIdx = τ.dataIdx ∧ υ.rets = τ.rets ∧ υ.marks = τ.marks ∧ υ.trace = τ.trace := by
  obtain ⟨i, is', rfl⟩ : ∃ i is', is = i :: is' := by
    cases is with
    | nil => exact absurd rfl hne
    | cons i is' => exact ⟨i, is', rfl⟩
  rcases hr.curArr ha with ⟨e1, _⟩ | ⟨A', V, e1, e2, e3⟩
  · rw [e1] at hA; cases hA
  · have : A' = A := by rw [e1] at hA; injection hA with hA; injection hA with hA
    subst this
    have hst := e3.store (i :: is') τ.regs.a hv
    simp only [hin, if_true] at hst
    obtain ⟨V', hs, hrel'⟩ := hst
    have e2' : Vm.curArr τ.ctx a = some (some V) := e2
    refine ⟨Vm.advance { τ with ctx := modArr a V' τ.ctx, paths := rest }, by simp only [Vm.step, h0, hp, e2', hs],
      rfl, rfl, rfl, rfl, ?_, rfl, rfl, rfl, rfl, rfl, rfl, rfl, rfl, rfl⟩
    rw [setElem_eq e1]
    exact hr.storeArr ha hrel' rfl rfl rfl rfl rfl rfl hr.arrA

/-- the write-backs, left to right: `DequeueFromReturnStack; VarPathName x; CopyAToVarPath` for a variable,
`DequeueFromReturnStackWithPath; CopyAToVarPath` for an element — the caller's variables (its own, or DIM SHARED ones) and
array elements receive what `Ref.writeBack` prescribes -/
theorem wb_phase (W : World) (sc : Scope) (pre below : List CtxState) (callee : List Val) (cp : List (Option Path)) :
    ∀ (args : Args) (avs : List (Val × Option Loc)) (i : Nat) (τ : Vm) (sB : St) (tail : List (Val × Option Path)),
    CodeAt W.code τ.pc (writeBacks args) → Rel W sc pre below sB (clr τ) →
    τ.queue = refQ i args callee cp ++ tail → WbOk sc callee cp i args avs → LocsOk sc.slots sB args avs →
    ∃ υ, Steps W.code τ υ ∧ υ.pc = τ.pc + sizeWb args ∧
      Rel W sc pre below (ProcArr.Ref.writeBack args avs i callee sB) (clr υ) ∧
      υ.queue = tail ∧ υ.funRes = τ.funRes ∧ Frozen τ υ
  | .nil, avs, i, τ, sB, tail, _, hrel, hq, _, _ =>
    ⟨τ, Steps.refl τ, by simp [sizeWb], by simpa [ProcArr.Ref.writeBack] using hrel, by simpa [refQ] using hq, rfl,
      Frozen.refl τ⟩
  | .cons e pn pt rest, [], i, τ, sB, tail, hc, hrel, hq, hok, _ => hok.elim
  | .cons e pn pt rest, av :: avs, i, τ, sB, tail, hc, hrel, hq, hok, hlok => by
    obtain ⟨hok1, hok2, hok3⟩ := hok
    obtain ⟨hlok1, hlok2⟩ := hlok
    have other : e.isRef = false → (∀ sB', ProcArr.Ref.writeOne e av.2 (callee.getD i (zeroOf e.ty)) sB' = sB') →
        writeBacks (.cons e pn pt rest) = writeBacks rest → sizeWb (.cons e pn pt rest) = sizeWb rest →
        ∃ υ, Steps W.code τ υ ∧ υ.pc = τ.pc + sizeWb (.cons e pn pt rest) ∧
          Rel W sc pre below (ProcArr.Ref.writeBack (.cons e pn pt rest) (av :: avs) i callee sB) (clr υ) ∧
          υ.queue = tail ∧ υ.funRes = τ.funRes ∧ Frozen τ υ := by
      intro hre hw1 hwb hsz
      rw [hwb] at hc
      have hq' : τ.queue = refQ (i + 1) rest callee cp ++ tail := by simpa [refQ, hre] using hq
      have := wb_phase W sc pre below callee cp rest avs (i + 1) τ sB tail hc hrel hq' hok3 hlok2
      rw [hsz]
      simp only [ProcArr.Ref.writeBack, hw1]
      exact this
    cases e with
    | var x t q =>
      obtain ⟨hx, hvt⟩ := hok1 x t q rfl
      simp only [writeBacks] at hc
      simp only [refQ, ProcArr.Expr.isRef, if_true, ProcArr.Expr.ty, List.cons_append, List.nil_append] at hq
      have h0 : W.code[τ.pc]? = some (CInstr.dequeue, q) := hc.append_left.head
      let v := callee.getD i (zeroOf t)
      let τ1 : Vm := Vm.advance { Vm.setA τ v with queue := refQ (i + 1) rest callee cp ++ tail }
      have s1 : Vm.step W.code τ = .next τ1 := by simp only [Vm.step, h0, hq]; rfl
      have hcs : CodeAt W.code τ1.pc (storeVar x t q) := by
        have := hc.append_left.tail
        exact this
      have st2 := store_steps W.code x t q τ1 hcs
      obtain ⟨_, _, k3, k4, k5, k6, k7, k8, k9, k10, k11, k12, k13, k14, k15⟩ := setV_same τ1 x τ1.regs.a
      obtain ⟨c1, c2, c3⟩ := setV_cgs (clr τ) τ1 x v rfl rfl rfl
      have hrel3 : Rel W sc pre below (sB.set x v) (clr (storeSt τ1 x)) :=
        hrel.store hx hvt c1 k6 k8 k9 rfl rfl c2 c3 k15
      obtain ⟨υ, st, hp, hrelυ, hq', hf', hfz⟩ :=
        wb_phase W sc pre below callee cp rest avs (i + 1) (storeSt τ1 x) (sB.set x v) tail
          (by
            have := hc.append_right
            rw [storeSt_pc]
            exact this.at (by simp [τ1, Vm.advance, Vm.setA])) hrel3 k10 hok3
          (LocsOk.mono (RbThm.ProcArrBounds.set_bounds sB x v) hlok2)
      refine ⟨υ, Steps.cons s1 (st2.trans st), ?_, ?_, hq', ?_, Frozen.trans ?_ hfz⟩
      · rw [hp, storeSt_pc]; simp only [τ1, Vm.advance, Vm.setA, sizeWb]; omega
      · simp only [ProcArr.Ref.writeBack, ProcArr.Ref.writeOne, ProcArr.Expr.ty]; exact hrelυ
      · rw [hf']; exact k11
      · exact ⟨k3, k4, k5, k6, k7, k8, k9, k12, k13, k14⟩
    | elem a idx t q =>
      obtain ⟨hvt, hcpi⟩ := hok2 a idx t q rfl
      obtain ⟨is, A, hl, hne, hat, hA, hin⟩ := hlok1
      simp only [writeBacks] at hc
      simp only [refQ, ProcArr.Expr.isRef, if_true, ProcArr.Expr.ty, List.cons_append, List.nil_append, hcpi, hl, locPath] at hq
      have h0 : W.code[τ.pc]? = some (CInstr.dequeuePath, q) := hc.append_left.head
      have h1 : W.code[τ.pc + 1]? = some (CInstr.copyAToVarPath, q) := hc.append_left.tail.head
      let v := callee.getD i (zeroOf t)
      let τ1 : Vm := Vm.advance { Vm.setA τ v with queue := refQ (i + 1) rest callee cp ++ tail, paths := .elem a is :: τ.paths }
      have s1 : Vm.step W.code τ = .next τ1 := by simp only [Vm.step, h0, hq]; rfl
      have hrel1 : Rel W sc pre below sB (clr τ1) := hrel.same rfl rfl rfl rfl rfl rfl
      obtain ⟨τ2, s2, hp2, hpa2, hq2, hf2, hrel2, g1, g2, g3, g4, g5, g6, g7, g8, g9⟩ :=
        elem_store_clr W sc pre below sB τ1 a t is τ.paths q A hrel1 hat hvt h1 rfl hne hA hin
      obtain ⟨υ, st, hp, hrelυ, hq', hf', hfz⟩ :=
        wb_phase W sc pre below callee cp rest avs (i + 1) τ2 (sB.setElem a is v) tail
          (by
            have := hc.append_right
            rw [hp2]
            exact this.at (by simp [τ1, Vm.advance, Vm.setA])) hrel2 (by rw [hq2]; rfl) hok3
          (LocsOk.mono (RbThm.ProcArrBounds.setElem_bounds sB a is v) hlok2)
      refine ⟨υ, Steps.cons s1 (Steps.cons s2 st), ?_, ?_, hq', ?_, Frozen.trans ?_ hfz⟩
      · rw [hp, hp2]; simp only [τ1, Vm.advance, Vm.setA, sizeWb]; omega
      · simp only [ProcArr.Ref.writeBack, ProcArr.Ref.writeOne, ProcArr.Expr.ty, hl]; exact hrelυ
      · rw [hf', hf2]; rfl
      · exact ⟨g1, g2, hpa2, g3, g4, g5, g6, g7, g8, g9⟩
    | lit v q => exact other rfl (fun _ => rfl) rfl (by simp [sizeWb])
    | un op e' q => exact other rfl (fun _ => rfl) rfl (by simp [sizeWb])
    | bin op l r t q => exact other rfl (fun _ => rfl) rfl (by simp [sizeWb])
    | paren e' q => exact other rfl (fun _ => rfl) rfl (by simp [sizeWb])
    | callFn f a t q => exact other rfl (fun _ => rfl) rfl (by simp [sizeWb])

/-! ### the callee's activation environment -/

theorem freshEnv_get_lt (slots : List Ty) (vals : List Val) (x : Nat) (h : x < vals.length) :
    (ProcArr.Ref.freshEnv slots vals)[x]? = vals[x]? := by
  simp only [ProcArr.Ref.freshEnv]
  rw [List.getElem?_append_left h]

theorem freshEnv_get_ge (slots : List Ty) (vals : List Val) (x : Nat) (t : Ty) (h : vals.length ≤ x)
    (hs : slots[x]? = some t) : (ProcArr.Ref.freshEnv slots vals)[x]? = some (zeroOf t) := by
  simp only [ProcArr.Ref.freshEnv]
  rw [List.getElem?_append_right h, List.getElem?_map, List.getElem?_drop]
  have : vals.length + (x - vals.length) = x := by omega
  rw [this, hs]; rfl

theorem slots_ge_params (d : ProcDecl SStmt) (hs : SlotsOk d) : d.params.length ≤ d.slots.length := by
  by_cases h : d.params.length = 0
  · omega
  · have hlt : d.params.length - 1 < d.params.length := by omega
    obtain ⟨pn, pt⟩ := d.params[d.params.length - 1]
    have := hs.1 (d.params.length - 1) _ _ (List.getElem?_eq_getElem hlt)
    have := (List.getElem?_eq_some_iff.mp this).1
    omega

theorem frameRel_fresh (gl : List Ty) (stat : List Bool) (ap : List (Option Path)) (f : Nat) (d : ProcDecl SStmt)
    (vals : List Val) (hlen : vals.length = d.params.length) :
    FrameRel (procScope gl stat f d ap) (vals.map some) (ProcArr.Ref.freshEnv d.slots vals) := by
  refine ⟨?_, ?_⟩
  · intro x t hs
    simp only [procScope] at hs
    by_cases hx : x < vals.length
    · have h1 : (vals.map some)[x]? = some (some vals[x]) := by
        rw [List.getElem?_map, List.getElem?_eq_getElem hx]; rfl
      simp only [getVar, h1, List.getD, freshEnv_get_lt _ _ _ hx, List.getElem?_eq_getElem hx, Option.getD_some]
    · have h1 : (vals.map some)[x]? = none := List.getElem?_eq_none (by simp; omega)
      simp only [getVar, h1, List.getD, freshEnv_get_ge d.slots vals x t (by omega) hs, Option.getD_some]
  · intro i hi
    simp only [procScope] at hi
    have hx : i < vals.length := by omega
    exact ⟨vals[i], by rw [List.getElem?_map, List.getElem?_eq_getElem hx]; rfl⟩

theorem typed_fresh (d : ProcDecl SStmt) (vals : List Val) (hs : SlotsOk d)
    (htags : vals.map Val.tag = d.params.map (·.2)) : Typed d.slots (ProcArr.Ref.freshEnv d.slots vals) := by
  have hlen : vals.length = d.params.length := by
    have := congrArg List.length htags
    simpa using this
  have hle := slots_ge_params d hs
  refine ⟨by simp only [ProcArr.Ref.freshEnv, List.length_append, List.length_map, List.length_drop]; omega, ?_⟩
  intro x t hx
  by_cases hxv : x < vals.length
  · refine ⟨vals[x], by rw [freshEnv_get_lt _ _ _ hxv, List.getElem?_eq_getElem hxv], ?_⟩
    have hxp : x < d.params.length := by omega
    have h1 : (vals.map Val.tag)[x]? = some vals[x].tag := by
      rw [List.getElem?_map, List.getElem?_eq_getElem hxv]; rfl
    have h2 : (d.params.map (·.2))[x]? = some (d.params[x]).2 := by
      rw [List.getElem?_map, List.getElem?_eq_getElem hxp]; rfl
    rw [htags, h2] at h1
    have h3 := hs.1 x (d.params[x]).1 (d.params[x]).2 (by rw [List.getElem?_eq_getElem hxp])
    rw [hx] at h3
    injection h1 with h1
    injection h3 with h3
    rw [← h1, h3]
  · exact ⟨zeroOf t, freshEnv_get_ge _ _ _ t (by omega) hx, zeroOf_tag t⟩

/-! ### the persistent environment of a STATIC procedure at the start of a call -/

theorem rebind_get_lt (old vals : List Val) (x : Nat) (h : x < vals.length) :
    (ProcArr.Ref.rebind old vals)[x]? = vals[x]? := by
  simp only [ProcArr.Ref.rebind]
  rw [List.getElem?_append_left h]

theorem rebind_get_ge (old vals : List Val) (x : Nat) (h : vals.length ≤ x) :
    (ProcArr.Ref.rebind old vals)[x]? = old[x]? := by
  simp only [ProcArr.Ref.rebind]
  rw [List.getElem?_append_right h, List.getElem?_drop]
  congr 1; omega

theorem applyArgs_get_lt (fr : Frame) (vals : List Val) (x : Nat) (h : x < vals.length) :
    (applyArgs fr vals)[x]? = some (some vals[x]) := by
  simp only [applyArgs]
  rw [List.getElem?_append_left (by simpa using h), List.getElem?_map, List.getElem?_eq_getElem h]; rfl

theorem applyArgs_get_ge (fr : Frame) (vals : List Val) (x : Nat) (h : vals.length ≤ x) :
    (applyArgs fr vals)[x]? = fr[x]? := by
  simp only [applyArgs]
  rw [List.getElem?_append_right (by simpa using h), List.getElem?_drop]
  simp only [List.length_map]
  congr 1; omega

/-- the block of a STATIC procedure after `PushStaticStack` -/
def newBlock (ofr : Option Frame) (vals : List Val) : Frame :=
  match ofr with
  | some fr => applyArgs fr vals
  | none => vals.map some

theorem newBlock_get_lt (ofr : Option Frame) (vals : List Val) (x : Nat) (h : x < vals.length) :
    (newBlock ofr vals)[x]? = some (some vals[x]) := by
  cases ofr with
  | some fr => exact applyArgs_get_lt fr vals x h
  | none => simp only [newBlock]; rw [List.getElem?_map, List.getElem?_eq_getElem h]; rfl

theorem newBlock_getVar_ge (ofr : Option Frame) (vals : List Val) (x : Nat) (t : Ty) (h : vals.length ≤ x) :
    getVar (newBlock ofr vals) x t = ogetVar ofr x t := by
  cases ofr with
  | some fr => simp only [newBlock, ogetVar, getVar, applyArgs_get_ge fr vals x h]
  | none =>
    have : (vals.map some)[x]? = none := List.getElem?_eq_none (by simpa using h)
    simp only [newBlock, ogetVar, getVar, this]

theorem frameRel_rebind (gl : List Ty) (stat : List Bool) (ap : List (Option Path)) (f : Nat) (d : ProcDecl SStmt)
    (ofr : Option Frame) (old vals : List Val)
    (hlen : vals.length = d.params.length) (hst : StatRel d.slots ofr old) :
    FrameRel (procScope gl stat f d ap) (newBlock ofr vals) (ProcArr.Ref.rebind old vals) := by
  refine ⟨?_, ?_⟩
  · intro x t hs
    simp only [procScope] at hs
    by_cases hx : x < vals.length
    · simp only [getVar, newBlock_get_lt ofr vals x hx, List.getD, rebind_get_lt _ _ _ hx, List.getElem?_eq_getElem hx,
        Option.getD_some]
    · rw [newBlock_getVar_ge ofr vals x t (by omega), hst.get x t hs]
      simp only [List.getD, rebind_get_ge old vals x (by omega)]
  · intro i hi
    simp only [procScope] at hi
    exact ⟨vals[i]'(by omega), newBlock_get_lt ofr vals i (by omega)⟩

theorem typed_rebind (d : ProcDecl SStmt) (old vals : List Val) (hs : SlotsOk d)
    (htags : vals.map Val.tag = d.params.map (·.2)) (hold : Typed d.slots old) :
    Typed d.slots (ProcArr.Ref.rebind old vals) := by
  have hlen : vals.length = d.params.length := by
    have := congrArg List.length htags
    simpa using this
  have hle := slots_ge_params d hs
  have hol := hold.1
  refine ⟨by simp only [ProcArr.Ref.rebind, List.length_append, List.length_drop]; omega, ?_⟩
  intro x t hx
  by_cases hxv : x < vals.length
  · refine ⟨vals[x], by rw [rebind_get_lt _ _ _ hxv, List.getElem?_eq_getElem hxv], ?_⟩
    have hxp : x < d.params.length := by omega
    have h1 : (vals.map Val.tag)[x]? = some vals[x].tag := by
      rw [List.getElem?_map, List.getElem?_eq_getElem hxv]; rfl
    have h2 : (d.params.map (·.2))[x]? = some (d.params[x]).2 := by
      rw [List.getElem?_map, List.getElem?_eq_getElem hxp]; rfl
    rw [htags, h2] at h1
    have h3 := hs.1 x (d.params[x]).1 (d.params[x]).2 (by rw [List.getElem?_eq_getElem hxp])
    rw [hx] at h3
    injection h1 with h1
    injection h3 with h3
    rw [← h1, h3]
  · obtain ⟨w, hw, hwt⟩ := hold.2 x t hx
    exact ⟨w, by rw [rebind_get_ge old vals x (by omega)]; exact hw, hwt⟩

/-- the label of a procedure and, for a FUNCTION, the default result (loaded into A; a STATIC function also stores it into
its result variable: the result of the previous call does not persist): control arrives at the body in the state
`Ref.enter` prescribes, the stacks as they were -/
theorem body_entry (W : World) (scd : Scope) (below' : List CtxState) (tgt : Nat) (d : ProcDecl SStmt) (sE : St) (τ : Vm)
    (hc : CodeAt W.code tgt (compileProc W.lay tgt d)) (hpc : τ.pc = tgt) (hrel : Rel W scd [] below' sE τ)
    (hres : ∀ rt, d.result = some rt → scd.slots.loc[d.params.length]? = some rt) :
    ∃ k σb, Steps W.code τ σb ∧ σb.pc = tgt + k ∧
      CodeAt W.code (tgt + k) (compileStmt W.lay "" 0 0 (tgt + k) d.body) ∧
      W.code[tgt + k + sizeStmt 0 0 d.body]? = some (CInstr.popRet, d.pos) ∧
      Rel W scd [] below'
        (match d.static, d.result with
         | true, some rt => sE.set ⟨false, d.params.length⟩ (zeroOf rt)
         | _, _ => sE) σb ∧
      SameStacks τ σb := by
  subst hpc
  unfold compileProc at hc
  cases hr : d.result with
  | none =>
    simp only [hr] at hc
    have h0 : W.code[τ.pc]? = some (CInstr.label (":sub:" ++ d.name), d.pos) := hc.append_left.append_left.head
    refine ⟨1, Vm.advance τ, Steps.one ?_, rfl, ?_, ?_, ?_, ⟨rfl, rfl, rfl, rfl, rfl, rfl, id⟩⟩
    · simp only [Vm.step, h0]
    · have := hc.append_left.append_right
      simpa using this
    · have := hc.append_right.head
      simp only [List.length_append, List.length_singleton, len_stmt] at this
      rw [← this]; congr 1; omega
    · have : (match d.static, (none : Option Ty) with
          | true, some rt => sE.set ⟨false, d.params.length⟩ (zeroOf rt)
          | _, _ => sE) = sE := by cases d.static <;> rfl
      rw [this]; exact hrel.advance
  | some t =>
    simp only [hr] at hc
    by_cases hst : d.static = true
    case neg =>
      have hsf : d.static = false := by simpa using hst
      simp only [hsf, Bool.false_eq_true, if_false] at hc
      have h0 : W.code[τ.pc]? = some (CInstr.label (":fun:" ++ d.name), d.pos) := hc.append_left.append_left.head
      have h1 : W.code[τ.pc + 1]? = some (CInstr.allocate t, d.pos) := hc.append_left.append_left.tail.head
      refine ⟨2, Vm.advance (Vm.setA (Vm.advance τ) (zeroOf t)),
        Steps.cons (τ := Vm.advance τ) ?_ (Steps.one ?_), rfl, ?_, ?_, ?_, ⟨rfl, rfl, rfl, rfl, rfl, rfl, id⟩⟩
      · simp only [Vm.step, h0]
      · simp only [Vm.step, Vm.advance, h1]
      · have := hc.append_left.append_right
        simpa using this
      · have := hc.append_right.head
        simp only [List.length_append, List.length_cons, List.length_nil, len_stmt] at this
        rw [← this]; congr 1; omega
      · simp only [hsf]
        exact ((hrel.advance).setA _).advance
    case pos =>
      simp only [hst, if_true] at hc
      have h0 : W.code[τ.pc]? = some (CInstr.label (":fun:" ++ d.name), d.pos) := hc.append_left.append_left.head
      have h1 : W.code[τ.pc + 1]? = some (CInstr.allocate t, d.pos) := hc.append_left.append_left.tail.head
      let τ2 : Vm := Vm.advance (Vm.setA (Vm.advance τ) (zeroOf t))
      have s1 : Vm.step W.code τ = .next (Vm.advance τ) := by simp only [Vm.step, h0]
      have s2 : Vm.step W.code (Vm.advance τ) = .next τ2 := by simp only [Vm.step, Vm.advance, h1]; rfl
      have hcs : CodeAt W.code τ2.pc (storeVar ⟨false, d.resultSlot⟩ t d.pos) := by
        have := hc.append_left.append_left.tail.tail
        exact this.at (by simp [τ2, Vm.advance, Vm.setA])
      have st3 := store_steps W.code ⟨false, d.resultSlot⟩ t d.pos τ2 hcs
      have hx : scd.slots.get? ⟨false, d.resultSlot⟩ = some t := by
        simpa [SlotTabs.get?, ProcDecl.resultSlot] using hres t hr
      have hrel2 : Rel W scd [] below' sE τ2 := ((hrel.advance).setA _).advance
      have hrel3 := hrel2.storeSt hx (show τ2.regs.a.tag = t from zeroOf_tag t)
      refine ⟨4, storeSt τ2 ⟨false, d.resultSlot⟩, Steps.cons s1 (Steps.cons s2 st3), ?_, ?_, ?_, ?_,
        SameStacks.trans (show SameStacks τ τ2 from ⟨rfl, rfl, rfl, rfl, rfl, rfl, id⟩) (SameStacks.storeSt τ2 _)⟩
      · rw [storeSt_pc]; simp [τ2, Vm.advance, Vm.setA]
      · have := hc.append_left.append_right
        simpa using this
      · have := hc.append_right.head
        simp only [List.length_append, List.length_cons, List.length_nil, len_stmt] at this
        rw [← this]; congr 1; omega
      · simp only [hst]
        exact hrel3

/-! ### back in the caller -/

/-- after `PopStack` the machine is again in the caller's activation: its own environment AND ITS ARRAYS are the ones it had
at the call (an ordinary block below the callee's state is untouched), or — when the caller is a STATIC procedure — the
current content of its block; the DIM SHARED variables and the STATIC blocks are as the callee left them -/
theorem rel_back (W : World) (sc scd : Scope) (pre below : List CtxState) (s1 s2 : St) (τ υ : Vm) (b1 : Block)
    (hrel : Rel W scd [] (pre ++ topState sc b1 :: below) s2 τ) (hcoll : Collecting pre)
    (hs1 : s1.self = sc.self) (hgl : sc.slots.glob = W.P.gslots) (hstt : sc.slots.stat = W.P.procs.map (·.static))
    (hscok : ∀ f, sc.self = some f → ∃ d, W.P.procs[f]? = some d ∧ d.static = true ∧ sc.slots.loc = d.slots ∧ sc.slots.arrs = [])
    (harr : ArrsRel sc.slots.arrs s1.arrs b1.arrs) (hap : b1.apaths = sc.ap)
    (hns : sc.self = none → FrameRel sc b1.vars s1.env ∧ Typed sc.slots.loc s1.env)
    (hst : ∀ g, sc.self = some g → ∃ fr, τ.statics g = some fr ∧ ∀ i, i < sc.np → ∃ w, fr[i]? = some (some w))
    (hctx : υ.ctx = pre ++ topState sc b1 :: below) (hg : υ.glob = τ.glob) (hs : υ.statics = τ.statics)
    (ho : υ.out = τ.out) (hd : υ.data = τ.data) (hi : υ.dataIdx = τ.dataIdx) (hq : υ.queue = [])
    (hf : υ.funRes = none) (hA : υ.arrA = none) :
    Rel W sc pre below { s2 with env := s1.env, self := s1.self, arrs := s1.arrs } υ := by
  cases hself : sc.self with
  | none =>
    obtain ⟨hfr, hty⟩ := hns hself
    have hs0 : s1.self = none := by rw [hs1, hself]
    have hloc : ({ s2 with env := s1.env, self := s1.self, arrs := s1.arrs } : St).locals = s1.env := by
      simp [ProcArr.Ref.St.locals, hs0]
    have htop : topState sc b1 = .frame b1 := by simp [topState, hself]
    refine ⟨hcoll, by simp [hs0, hself], ⟨b1, hctx, ?_, by rw [hloc]; exact hfr, harr, hap⟩, by rw [hloc]; exact hty, hgl, hstt,
      by rw [hg]; exact hrel.glob, hrel.gtyped, by rw [hs]; exact hrel.stat, hscok, by rw [ho, hrel.out],
      by rw [hd, hrel.data], by rw [hi, hrel.dataIdx], hq, hf, hA⟩
    unfold Vm.curFrame; rw [hctx, htop]; exact curVars_pre _ hcoll _ _
  | some g =>
    obtain ⟨fr, hfr, hcr⟩ := hst g hself
    obtain ⟨d, hd', hdst, hsl, _⟩ := hscok g hself
    have hs0 : s1.self = some g := by rw [hs1, hself]
    have hloc : ({ s2 with env := s1.env, self := s1.self, arrs := s1.arrs } : St).locals = s2.statics g := by
      simp [ProcArr.Ref.St.locals, hs0]
    have htop : topState sc b1 = .sframe g := by simp [topState, hself]
    have hsr := hrel.stat g d hd' hdst
    have hfrel : FrameRel sc fr (s2.statics g) := by
      refine ⟨fun x t hx => ?_, hcr⟩
      rw [hsl] at hx
      have := hsr.get x t hx
      simpa [ogetVar, hfr] using this
    refine ⟨hcoll, by simp [hs0, hself],
      ⟨⟨fr, b1.arrs, b1.apaths⟩, by rw [hctx, htop, topState, hself], ?_, by rw [hloc]; exact hfrel, harr, hap⟩,
      by rw [hloc, hsl]; exact hsr.typed, hgl, hstt,
      by rw [hg]; exact hrel.glob, hrel.gtyped, by rw [hs]; exact hrel.stat, hscok, by rw [ho, hrel.out],
      by rw [hd, hrel.data], by rw [hi, hrel.dataIdx], hq, hf, hA⟩
    unfold Vm.curFrame; rw [hctx, htop, hs, curVars_pre_s _ hcoll]; exact hfr

/-- `PopStack` on the callee's normal state (an ordinary block or a state on a STATIC block) -/
theorem popStack_step (code : Code) (scd : Scope) (b2 : Block) (c : CtxState) (rest : List CtxState) (p p' : Pos)
    (tr : List Pos) (υ : Vm) (hi : code[υ.pc]? = some (CInstr.popStack, p))
    (hctx : υ.ctx = topState scd b2 :: c :: rest) (htr : υ.trace = p' :: tr) :
    Vm.step code υ = .next (Vm.advance { υ with ctx := c :: rest, trace := tr }) := by
  cases hsd : scd.self with
  | none =>
    have e : υ.ctx = .frame b2 :: c :: rest := by rw [hctx]; simp [topState, hsd]
    simp only [Vm.step, hi, e, htr]
  | some g =>
    have e : υ.ctx = .sframe g :: c :: rest := by rw [hctx]; simp [topState, hsd]
    simp only [Vm.step, hi, e, htr]

theorem getElem?_map_join {α β : Type} (f : α → Option β) (l : List α) (k : Nat) (x : α) (h : l[k]? = some x) :
    (l.map f)[k]?.join = f x := by
  rw [List.getElem?_map, h]; rfl

/-- the epilogue of a call, from the state in which the callee has returned (its normal state still on top) -/
theorem epilogue (W : World) (sc scd : Scope) (pre below : List CtxState) (args : Args) (avs : List (Val × Option Loc))
    (cs : Bool) (p p' : Pos) (res : Option Ty)
    (ra : Nat) (τ : Vm) (s1 s2 : St) (b1 : Block) (tr : List Pos)
    (hc : CodeAt W.code ra (enqueues 0 args ++
      (match res with | some t => [(CInstr.stashResult args.length t, p)] | none => []) ++
      [(CInstr.popStack, p)] ++ writeBacks args ++ (match res with | some _ => [(CInstr.unStash, p)] | none => [])))
    (hpc : τ.pc = ra) (hrel : Rel W scd [] (pre ++ topState sc b1 :: below) s2 τ) (hcoll : Collecting pre)
    (hs1 : s1.self = sc.self) (hgl : sc.slots.glob = W.P.gslots) (hstt : sc.slots.stat = W.P.procs.map (·.static))
    (hscok : ∀ f, sc.self = some f → ∃ d, W.P.procs[f]? = some d ∧ d.static = true ∧ sc.slots.loc = d.slots ∧ sc.slots.arrs = [])
    (harr : ArrsRel sc.slots.arrs s1.arrs b1.arrs) (hap : b1.apaths = sc.ap)
    (hns : sc.self = none → FrameRel sc b1.vars s1.env ∧ Typed sc.slots.loc s1.env)
    (hst : ∀ g, sc.self = some g → ∃ fr, τ.statics g = some fr ∧ ∀ i, i < sc.np → ∃ w, fr[i]? = some (some w))
    (htr : τ.trace = p' :: tr) (haw : AWf W.sg sc.slots cs args) (hlen : args.length = avs.length)
    (hloks : LocsOk sc.slots s1 args avs)
    (hcs : cs = false → scd.self = none ∧ scd.ap = avs.map (fun av => locPath av.2))
    (hsl : ∀ (k : Nat) (pn : String) (pt : Ty), args.params[k]? = some (pn, pt) → scd.slots.loc[0 + k]? = some pt)
    (hnp : 0 + args.length ≤ scd.np)
    (hrs : ∀ t, res = some t → scd.slots.loc[args.length]? = some t) :
    ∃ υ, Steps W.code τ υ ∧
      υ.pc = ra + (refCount args + (if res.isSome then 1 else 0) + 1 + sizeWb args +
        (if res.isSome then 1 else 0)) ∧
      Rel W sc pre below
        (ProcArr.Ref.writeBack args avs 0 s2.locals { s2 with env := s1.env, self := s1.self, arrs := s1.arrs }) υ ∧
      υ.trace = tr ∧
      υ.regStack = τ.regStack ∧ υ.vals = τ.vals ∧ υ.paths = τ.paths ∧ υ.rets = τ.rets ∧ υ.marks = τ.marks ∧
      υ.skipNewline = τ.skipNewline ∧
      ∀ t, res = some t → υ.regs.a = s2.locals.getD args.length (zeroOf t) ∧
        (s2.locals.getD args.length (zeroOf t)).tag = t := by
  subst hpc
  obtain ⟨b2, hctx, hcf2, hfr2, harr2, hap2⟩ := hrel.ctx
  simp only [List.nil_append] at hctx
  have hrefs := refsOk_of scd b2.vars s2.locals hfr2 W.sg sc.slots cs args 0 haw hsl hnp
  have hcp : cs = false → ∀ (k : Nat) (av : Val × Option Loc), avs[k]? = some av →
      (curPaths τ.ctx)[0 + k]?.join = locPath av.2 := by
    intro h k av hk
    obtain ⟨hsn, hapd⟩ := hcs h
    have htop : topState scd b2 = .frame b2 := by simp [topState, hsn]
    rw [hctx, htop]
    simp only [curPaths, Nat.zero_add]
    rw [hap2, hapd]
    exact getElem?_map_join _ _ _ _ hk
  have hwb := wbOk_of sc scd.slots.loc s2.locals hrel.typed W.sg cs (curPaths τ.ctx) args avs 0 haw hlen hsl hcp
  have hloks' : LocsOk sc.slots { s2 with env := s1.env, self := s1.self, arrs := s1.arrs } args avs :=
    LocsOk.mono (SameBounds.of_arrs (s := s1) (s' := { s2 with env := s1.env, self := s1.self, arrs := s1.arrs }) rfl) hloks
  obtain ⟨c, rest, hcr⟩ : ∃ c rest, pre ++ topState sc b1 :: below = c :: rest := by
    cases pre with
    | nil => exact ⟨_, _, rfl⟩
    | cons a l => exact ⟨_, _, rfl⟩
  cases res with
  | none =>
    simp only [List.append_nil] at hc
    obtain ⟨υ1, st1, hp1, hq1, hcx1, hgl1, hst1, hf1, hrg1, hA1, hfz1⟩ :=
      enq_phase W.code b2.vars s2.locals (curPaths τ.ctx) args 0 τ hc.append_left.append_left hcf2 rfl hrefs
    have hpop : W.code[υ1.pc]? = some (CInstr.popStack, p) := by
      have := hc.append_left.append_right.head
      rw [len_enqueues] at this
      rw [hp1]; exact this
    let υ2 : Vm := Vm.advance { υ1 with ctx := c :: rest, trace := tr }
    have s2' : Vm.step W.code υ1 = .next υ2 :=
      popStack_step W.code scd b2 c rest p p' tr υ1 hpop (by rw [hcx1, hctx, hcr]) (by rw [hfz1.trace, htr])
    have hq2 : υ2.queue = refQ 0 args s2.locals (curPaths τ.ctx) ++ [] := by
      simp only [υ2, Vm.advance, hq1, hrel.queue, List.nil_append, List.append_nil]
    have hcw : CodeAt W.code υ2.pc (writeBacks args) := by
      have := hc.append_right
      simp only [List.length_append, List.length_singleton, len_enqueues] at this
      simp only [υ2, Vm.advance, hp1]
      exact this.at (by omega)
    have hback : Rel W sc pre below { s2 with env := s1.env, self := s1.self, arrs := s1.arrs } (clr υ2) :=
      rel_back W sc scd pre below s1 s2 τ (clr υ2) b1 hrel hcoll hs1 hgl hstt hscok harr hap hns hst
        (by simp only [clr, υ2, Vm.advance, hcr]) (by simp only [clr, υ2, Vm.advance, hgl1])
        (by simp only [clr, υ2, Vm.advance, hst1]) (by simp only [clr, υ2, Vm.advance]; exact hfz1.out)
        (by simp only [clr, υ2, Vm.advance]; exact hfz1.data) (by simp only [clr, υ2, Vm.advance]; exact hfz1.dataIdx)
        rfl rfl (by simp only [clr, υ2, Vm.advance]; rw [hA1]; exact hrel.arrA)
    obtain ⟨υ3, st3, hp3, hrel3, hq3, hf3, hfz3⟩ :=
      wb_phase W sc pre below s2.locals (curPaths τ.ctx) args avs 0 υ2
        { s2 with env := s1.env, self := s1.self, arrs := s1.arrs } [] hcw hback hq2 hwb hloks'
    have hf3' : υ3.funRes = none := by rw [hf3]; simp only [υ2, Vm.advance]; rw [hf1, hrel.funRes]
    refine ⟨υ3, (st1.trans (Steps.one s2')).trans st3, ?_, ?_, ?_, ?_, ?_, ?_, ?_, ?_, ?_, ?_⟩
    · rw [hp3]; simp only [υ2, Vm.advance, hp1, Option.isSome_none, Bool.false_eq_true, if_false]; omega
    · exact hrel3.same rfl rfl rfl rfl hq3 hf3'
    · exact hfz3.trace
    · rw [hfz3.regStack]; simp only [υ2, Vm.advance]; exact hfz1.regStack
    · rw [hfz3.vals]; simp only [υ2, Vm.advance]; exact hfz1.vals
    · rw [hfz3.paths]; simp only [υ2, Vm.advance]; exact hfz1.paths
    · rw [hfz3.rets]; simp only [υ2, Vm.advance]; exact hfz1.rets
    · rw [hfz3.marks]; simp only [υ2, Vm.advance]; exact hfz1.marks
    · rw [hfz3.skipNewline]; simp only [υ2, Vm.advance]; exact hfz1.skipNewline
    · intro t ht; cases ht
  | some t =>
    simp only at hc
    obtain ⟨υ1, st1, hp1, hq1, hcx1, hgl1, hst1, hf1, hrg1, hA1, hfz1⟩ :=
      enq_phase W.code b2.vars s2.locals (curPaths τ.ctx) args 0 τ hc.append_left.append_left.append_left.append_left hcf2 rfl hrefs
    have hstash : W.code[υ1.pc]? = some (CInstr.stashResult args.length t, p) := by
      have := hc.append_left.append_left.append_left.append_right.head
      rw [len_enqueues] at this
      rw [hp1]; exact this
    have hrt := hrs t rfl
    let rv := s2.locals.getD args.length (zeroOf t)
    let υ1' : Vm := Vm.advance { υ1 with funRes := some rv }
    have s1' : Vm.step W.code υ1 = .next υ1' := by
      have e1 : υ1.curFrame = some b2.vars := by rw [curFrame_congr hcx1 hst1]; exact hcf2
      simp only [Vm.step, hstash, e1, hfr2.get _ t hrt]; rfl
    have hpop : W.code[υ1'.pc]? = some (CInstr.popStack, p) := by
      have := hc.append_left.append_left.append_right.head
      simp only [List.length_append, List.length_singleton, len_enqueues] at this
      simp only [υ1', Vm.advance, hp1]; exact this
    let υ2 : Vm := Vm.advance { υ1' with ctx := c :: rest, trace := tr }
    have s2' : Vm.step W.code υ1' = .next υ2 :=
      popStack_step W.code scd b2 c rest p p' tr υ1' hpop (by simp only [υ1', Vm.advance]; rw [hcx1, hctx, hcr])
        (by simp only [υ1', Vm.advance]; rw [hfz1.trace, htr])
    have hq2 : υ2.queue = refQ 0 args s2.locals (curPaths τ.ctx) ++ [] := by
      simp only [υ2, υ1', Vm.advance, hq1, hrel.queue, List.nil_append, List.append_nil]
    have hcw : CodeAt W.code υ2.pc (writeBacks args) := by
      have := hc.append_left.append_right
      simp only [List.length_append, List.length_singleton, len_enqueues] at this
      simp only [υ2, υ1', Vm.advance, hp1]
      exact this.at (by omega)
    have hback : Rel W sc pre below { s2 with env := s1.env, self := s1.self, arrs := s1.arrs } (clr υ2) :=
      rel_back W sc scd pre below s1 s2 τ (clr υ2) b1 hrel hcoll hs1 hgl hstt hscok harr hap hns hst
        (by simp only [clr, υ2, υ1', Vm.advance, hcr]) (by simp only [clr, υ2, υ1', Vm.advance, hgl1])
        (by simp only [clr, υ2, υ1', Vm.advance, hst1]) (by simp only [clr, υ2, υ1', Vm.advance]; exact hfz1.out)
        (by simp only [clr, υ2, υ1', Vm.advance]; exact hfz1.data)
        (by simp only [clr, υ2, υ1', Vm.advance]; exact hfz1.dataIdx) rfl rfl
        (by simp only [clr, υ2, υ1', Vm.advance]; rw [hA1]; exact hrel.arrA)
    obtain ⟨υ3, st3, hp3, hrel3, hq3, hf3, hfz3⟩ :=
      wb_phase W sc pre below s2.locals (curPaths τ.ctx) args avs 0 υ2
        { s2 with env := s1.env, self := s1.self, arrs := s1.arrs } [] hcw hback hq2 hwb hloks'
    have hun : W.code[υ3.pc]? = some (CInstr.unStash, p) := by
      have := hc.append_right.head
      simp only [List.length_append, List.length_singleton, len_enqueues, len_writeBacks] at this
      rw [hp3]; simp only [υ2, υ1', Vm.advance, hp1]
      rw [← this]; congr 1; omega
    let υ4 : Vm := Vm.advance { Vm.setA υ3 rv with funRes := none }
    have s4 : Vm.step W.code υ3 = .next υ4 := by
      have e1 : υ3.funRes = some rv := hf3
      simp only [Vm.step, hun, e1]; rfl
    refine ⟨υ4, ((st1.trans (Steps.cons s1' (Steps.one s2'))).trans st3).trans (Steps.one s4),
      ?_, ?_, ?_, ?_, ?_, ?_, ?_, ?_, ?_, ?_⟩
    · simp only [υ4, Vm.advance, Vm.setA, hp3, υ2, υ1', hp1, Option.isSome_some, if_true]; omega
    · exact hrel3.same rfl rfl rfl rfl hq3 rfl
    · exact hfz3.trace
    · simp only [υ4, Vm.advance, Vm.setA]; rw [hfz3.regStack]; simp only [υ2, υ1', Vm.advance]; exact hfz1.regStack
    · simp only [υ4, Vm.advance, Vm.setA]; rw [hfz3.vals]; simp only [υ2, υ1', Vm.advance]; exact hfz1.vals
    · simp only [υ4, Vm.advance, Vm.setA]; rw [hfz3.paths]; simp only [υ2, υ1', Vm.advance]; exact hfz1.paths
    · simp only [υ4, Vm.advance, Vm.setA]; rw [hfz3.rets]; simp only [υ2, υ1', Vm.advance]; exact hfz1.rets
    · simp only [υ4, Vm.advance, Vm.setA]; rw [hfz3.marks]; simp only [υ2, υ1', Vm.advance]; exact hfz1.marks
    · simp only [υ4, Vm.advance, Vm.setA]; rw [hfz3.skipNewline]; simp only [υ2, υ1', Vm.advance]
      exact hfz1.skipNewline
    · intro t' ht'
      cases ht'
      exact ⟨rfl, RbThm.C01Sim.SimRead.typed_getD_tag hrel.typed hrt _⟩

/-! ### entering the callee -/

/-- the STATIC flags of the reference program are the declarations' -/
theorem stat_eq {W : World} {procs : List (ProcDecl SStmt)} (hp : ProcsOk W procs) :
    W.P.procs.map (·.static) = procs.map (·.static) := by
  rw [hp.ref, List.map_map]; rfl

/-- the arrays of a fresh activation: none is dimensioned, the block has no array yet -/
theorem arrsRel_fresh (al : List Ty) : ArrsRel al (al.map fun _ => none) [] := by
  refine ⟨by simp, ?_⟩
  intro a t ha
  have hlt : a < al.length := (List.getElem?_eq_some_iff.mp ha).1
  exact Or.inl ⟨by rw [List.getElem?_map, ha]; rfl, rfl⟩

/-- `PushStack` / `PushStaticStack f`: the collected values become the callee's parameters — in a fresh block (no arrays,
the argument paths), or in the persistent block of the STATIC procedure `f` (every other variable of the block keeps its
value) — and the machine is in the callee's activation, in the state `Ref.enter` prescribes -/
theorem entry_step (W : World) (procs : List (ProcDecl SStmt)) (hp : ProcsOk W procs) (sc : Scope) (f : Nat)
    (d : ProcDecl SStmt) (hd : procs[f]? = some d) (pre below : List CtxState) (s1 : St) (τ2 : Vm)
    (qs : List (Val × Option Path))
    (p : Pos) (hrel2 : Rel W sc (.args qs :: pre) below s1 τ2)
    (hi : W.code[τ2.pc]? = some (pushStackInstr W.lay f, p))
    (htags : (qs.map (·.1)).map Val.tag = d.params.map (·.2)) :
    ∃ τ3 b1, τ2.ctx = .args qs :: (pre ++ topState sc b1 :: below) ∧ τ2.curFrame = some b1.vars ∧
      FrameRel sc b1.vars s1.locals ∧ ArrsRel sc.slots.arrs s1.arrs b1.arrs ∧ b1.apaths = sc.ap ∧
      Vm.step W.code τ2 = .next τ3 ∧ τ3.pc = τ2.pc + 1 ∧
      Rel W (procScope W.P.gslots (procs.map (·.static)) f d (qs.map (·.2))) [] (pre ++ topState sc b1 :: below)
        (ProcArr.Ref.enterCore { d with body := desugar d.body } f (qs.map (·.1)) s1) τ3 ∧
      τ3.trace = p :: τ2.trace ∧ τ3.regs = τ2.regs ∧ τ3.regStack = τ2.regStack ∧ τ3.vals = τ2.vals ∧
      τ3.paths = τ2.paths ∧ τ3.rets = τ2.rets ∧ τ3.marks = τ2.marks ∧ τ3.skipNewline = τ2.skipNewline := by
  obtain ⟨b1, hctx2, hcf1, hfr1, harr1, hap1⟩ := hrel2.ctx
  have hctx2' : τ2.ctx = .args qs :: (pre ++ topState sc b1 :: below) := by simpa using hctx2
  obtain ⟨hslots, hnoarr, hwfb⟩ := hp.wf f d hd
  have hPf : W.P.procs[f]? = some { d with body := desugar d.body } := by
    rw [hp.ref, List.getElem?_map, hd]; rfl
  have hvlen : (qs.map (·.1)).length = d.params.length := by
    have := congrArg List.length htags
    simpa using this
  have hflag : (W.lay[f]?.getD (0, false)).snd = d.static := by
    have := hp.st f d hd
    simpa [List.getD] using this
  have hstt : (procScope W.P.gslots (procs.map (·.static)) f d (qs.map (·.2))).slots.stat = W.P.procs.map (·.static) := by
    rw [stat_eq hp]; rfl
  by_cases hdt : d.static = true
  case neg =>
    have hds : d.static = false := by simpa using hdt
    have hi' : W.code[τ2.pc]? = some (CInstr.pushStack, p) := by
      rw [hi]; simp [pushStackInstr, hflag, hds]
    let nb : Block := ⟨qs.map (fun a => some a.1), [], qs.map (·.2)⟩
    let τ3 : Vm := Vm.advance { τ2 with ctx := .frame nb :: (pre ++ topState sc b1 :: below), trace := p :: τ2.trace }
    have s3 : Vm.step W.code τ2 = .next τ3 := by simp only [Vm.step, hi', hctx2']; rfl
    have hent : ProcArr.Ref.enterCore { d with body := desugar d.body } f (qs.map (·.1)) s1 =
        { s1 with self := none, env := ProcArr.Ref.freshEnv d.slots (qs.map (·.1)), arrs := d.arrs.map fun _ => none } := by
      simp [ProcArr.Ref.enterCore, hds]
    have hself : (procScope W.P.gslots (procs.map (·.static)) f d (qs.map (·.2))).self = none := by simp [procScope, hds]
    have hvars : nb.vars = (qs.map (·.1)).map some := by simp [nb, List.map_map]
    refine ⟨τ3, b1, hctx2', hcf1, hfr1, harr1, hap1, s3, rfl, ?_, rfl, rfl, rfl, rfl, rfl, rfl, rfl, rfl⟩
    rw [hent]
    refine ⟨trivial, hself.symm, ⟨nb, by simp [τ3, Vm.advance, topState, hself], rfl, ?_, ?_, rfl⟩, ?_, rfl, hstt,
      hrel2.glob, hrel2.gtyped, hrel2.stat, ?_, hrel2.out, hrel2.data, hrel2.dataIdx, hrel2.queue, hrel2.funRes, hrel2.arrA⟩
    · rw [hvars]; exact frameRel_fresh W.P.gslots _ _ f d (qs.map (·.1)) hvlen
    · exact arrsRel_fresh d.arrs
    · exact typed_fresh d (qs.map (·.1)) hslots htags
    · intro g hg; rw [hself] at hg; cases hg
  case pos =>
    have hds : d.static = true := hdt
    have hi' : W.code[τ2.pc]? = some (CInstr.pushStatic f, p) := by
      rw [hi]; simp [pushStackInstr, hflag, hds]
    let blk : Frame := newBlock (τ2.statics f) (qs.map (·.1))
    let τ3 : Vm := Vm.advance { τ2 with ctx := .sframe f :: (pre ++ topState sc b1 :: below), trace := p :: τ2.trace,
                                        statics := fun g => if g = f then some blk else τ2.statics g }
    have s3 : Vm.step W.code τ2 = .next τ3 := by
      simp only [Vm.step, hi', hctx2']
      cases hsf : τ2.statics f <;> simp [τ3, blk, newBlock, hsf, List.map_map] <;> rfl
    have hda : d.arrs = [] := hnoarr hds
    have hent : ProcArr.Ref.enterCore { d with body := desugar d.body } f (qs.map (·.1)) s1 =
        { s1 with self := some f,
                  statics := fun g => if g = f then ProcArr.Ref.rebind (s1.statics f) (qs.map (·.1)) else s1.statics g,
                  arrs := [] } := by
      simp [ProcArr.Ref.enterCore, hds, hda]
    have hself : (procScope W.P.gslots (procs.map (·.static)) f d (qs.map (·.2))).self = some f := by simp [procScope, hds]
    have hsr := hrel2.stat f { d with body := desugar d.body } hPf hds
    have hfrb : FrameRel (procScope W.P.gslots (procs.map (·.static)) f d (qs.map (·.2))) blk
        (ProcArr.Ref.rebind (s1.statics f) (qs.map (·.1))) :=
      frameRel_rebind W.P.gslots _ _ f d (τ2.statics f) (s1.statics f) (qs.map (·.1)) hvlen hsr
    have htyb : Typed d.slots (ProcArr.Ref.rebind (s1.statics f) (qs.map (·.1))) :=
      typed_rebind d (s1.statics f) (qs.map (·.1)) hslots htags hsr.typed
    refine ⟨τ3, b1, hctx2', hcf1, hfr1, harr1, hap1, s3, rfl, ?_, rfl, rfl, rfl, rfl, rfl, rfl, rfl, rfl⟩
    rw [hent]
    refine ⟨trivial, hself.symm, ⟨⟨blk, [], qs.map (·.2)⟩, by simp [τ3, Vm.advance, topState, hself], ?_, ?_, ?_, rfl⟩, ?_, rfl,
      hstt, hrel2.glob, hrel2.gtyped, ?_, ?_, hrel2.out, hrel2.data, hrel2.dataIdx, hrel2.queue, hrel2.funRes, hrel2.arrA⟩
    · simp [Vm.curFrame, τ3, Vm.advance, curVars]
    · simpa [ProcArr.Ref.St.locals] using hfrb
    · have := arrsRel_fresh d.arrs
      rw [hda] at this
      simpa [procScope, hda] using this
    · simpa [ProcArr.Ref.St.locals, procScope] using htyb
    · intro g dg hdg hst
      by_cases hg : g = f
      · subst hg
        have : dg = { d with body := desugar d.body } := by rw [hPf] at hdg; exact (Option.some.inj hdg).symm
        subst this
        simp only [τ3, Vm.advance, if_true]
        exact ⟨htyb, fun x t hx => by simpa [ogetVar] using hfrb.get x t hx⟩
      · simp only [τ3, Vm.advance, hg, if_false]
        exact hrel2.stat g dg hdg hst
    · intro g hg
      rw [hself] at hg
      cases hg
      exact ⟨_, hPf, hds, rfl, by simp [procScope, hda]⟩

/-- the code of a call: prologue (up to the `Jump`) and epilogue (from the return address) -/
theorem callCode_split (lay : Layout) (off f : Nat) (args : Args) (p : Pos) (res : Option Ty) :
    callCode lay off f args p res =
      ([(CInstr.beginArgs, p)] ++ pushArgs lay (off + 1) args ++
        [(pushStackInstr lay f, p), (CInstr.pushRet (off + 1 + sizePush args + 3), p),
         (CInstr.jump (lay.addr f), p)]) ++
      (enqueues 0 args ++ (match res with | some t => [(CInstr.stashResult args.length t, p)] | none => []) ++
        [(CInstr.popStack, p)] ++ writeBacks args ++
        (match res with | some _ => [(CInstr.unStash, p)] | none => [])) := by
  cases res <;> simp only [callCode, List.append_assoc]

theorem locsOk_length {sl : SlotTabs} {s : St} : ∀ {args : Args} {avs : List (Val × Option Loc)},
    LocsOk sl s args avs → args.length = avs.length
  | .nil, [], _ => rfl
  | .nil, _ :: _, h => h.elim
  | .cons _ _ _ _, [], h => h.elim
  | .cons e _ _ rest, av :: avs, h => by
    simp only [Args.length, List.length_cons]; rw [locsOk_length h.2]

/-- **`call_correct`** — a call of procedure `f` with actual arguments `args` does what `Ref.call` prescribes -/
theorem call_correct (W : World) (procs : List (ProcDecl SStmt)) (hp : ProcsOk W procs) (fuel : Nat)
    (ih : IHle W fuel) : CallIH W (fuel + 1) := by
  intro sc f args p res off pre below s σ hc hpc hr hsg haw
  -- the declaration of the callee
  have hsg' : (sigsOf procs)[f]? = some (res, args.params) := by rw [← hp.sg]; exact hsg
  simp only [sigsOf, List.getElem?_map] at hsg'
  cases hd : procs[f]? with
  | none => simp [hd] at hsg'
  | some d =>
    simp only [hd, Option.map_some, Option.some.injEq, Prod.mk.injEq] at hsg'
    obtain ⟨hres, hpar⟩ := hsg'
    have hPf : W.P.procs[f]? = some { d with body := desugar d.body } := by
      rw [hp.ref, List.getElem?_map, hd]; rfl
    obtain ⟨hslots, hnoarr, hwfb⟩ := hp.wf f d hd
    have hat := hp.at_ f d hd
    have hplen : d.params.length = args.length := by rw [hpar, params_length]
    -- the STATIC flag the caller's tables carry for `f` is the declaration's
    have hcsf : sc.slots.stat.getD f false = d.static := by
      rw [hr.st]
      simp only [List.getD, List.getElem?_map, hPf, Option.map_some, Option.getD_some]
    rw [hcsf] at haw
    subst hpc
    -- pieces of the code
    rw [callCode_split] at hc
    have hcPro := hc.append_left
    have hcEpi := hc.append_right
    simp only [List.length_append, List.length_singleton, List.length_cons, List.length_nil, len_pushArgs] at hcEpi
    -- BeginCollectArguments
    have h0 : W.code[σ.pc]? = some (CInstr.beginArgs, p) := hcPro.append_left.append_left.head
    let σ1 : Vm := Vm.advance { σ with ctx := .args [] :: σ.ctx }
    have s1 : Vm.step W.code σ = .next σ1 := by simp only [Vm.step, h0]; rfl
    have hrel1 : Rel W sc (.args [] :: pre) below s σ1 :=
      hr.repre (pre' := .args [] :: pre) hr.coll (fun fr hfr => by simp [σ1, Vm.advance, hfr]) rfl rfl rfl rfl rfl rfl rfl rfl
    have hcArgs : CodeAt W.code (σ.pc + 1) (pushArgs W.lay (σ.pc + 1) args) := by
      have := hcPro.append_left.append_right
      simpa using this
    have hA := ih.self.args sc args d.static (σ.pc + 1) pre below [] s σ1 hcArgs rfl hrel1 haw
    simp only [ProcArr.Ref.call, hPf]
    generalize hevA : ProcArr.Ref.evalArgs W.P fuel args s = rA at hA ⊢
    obtain ⟨s1', rv⟩ := rA
    cases rv with
    | error o => exact ErrPost.of_steps (Steps.one s1) hA
    | ok avs =>
      obtain ⟨τ2, st2, hp2, hrel2, hss2, htags, hloks⟩ := hA
      simp only [List.nil_append] at hrel2
      have hq1 : (avs.map argEntry).map (·.1) = avs.map (·.1) := by
        rw [List.map_map]; rfl
      have hq2 : (avs.map argEntry).map (·.2) = avs.map (fun av => locPath av.2) := by
        rw [List.map_map]; rfl
      have htags' : ((avs.map argEntry).map (·.1)).map Val.tag = d.params.map (·.2) := by
        rw [hpar, hq1, List.map_map]; exact htags
      -- PushStack / PushStaticStack, PushRet, Jump
      have hM := hcPro.append_right
      simp only [List.length_append, List.length_singleton, len_pushArgs] at hM
      have hm0 : W.code[τ2.pc]? = some (pushStackInstr W.lay f, p) := by
        rw [hp2]; have := hM.head; rw [← this]; congr 1; omega
      have hm1 : W.code[τ2.pc + 1]? = some (CInstr.pushRet (σ.pc + 1 + sizePush args + 3), p) := by
        rw [hp2]; have := hM.tail.head; rw [← this]; congr 1; omega
      have hm2 : W.code[τ2.pc + 1 + 1]? = some (CInstr.jump (W.lay.addr f), p) := by
        rw [hp2]; have := hM.tail.tail.head; rw [← this]; congr 1; omega
      obtain ⟨τ3, b1, hctx2', hcf1, hfr1, harr1, hap1, s3, hp3, hrel3, htr3, hrg3, hrs3, hv3, hpa3, hrt3, hmk3, hsk3⟩ :=
        entry_step W procs hp sc f d hd pre below s1' τ2 (avs.map argEntry) p hrel2 hm0 htags'
      rw [hq1, hq2] at hrel3
      let below' : List CtxState := pre ++ topState sc b1 :: below
      let τ4 : Vm := Vm.advance { τ3 with rets := (σ.pc + 1 + sizePush args + 3) :: τ3.rets,
                                          marks := (τ3.regStack.length + 1) :: τ3.marks }
      let τ5 : Vm := { τ4 with pc := W.lay.addr f }
      have s4 : Vm.step W.code τ3 = .next τ4 := by
        have : W.code[τ3.pc]? = some (CInstr.pushRet (σ.pc + 1 + sizePush args + 3), p) := by rw [hp3]; exact hm1
        simp only [Vm.step, this]; rfl
      have s5 : Vm.step W.code τ4 = .next τ5 := by
        have : W.code[τ4.pc]? = some (CInstr.jump (W.lay.addr f), p) := by
          simp only [τ4, Vm.advance, hp3]; exact hm2
        simp only [Vm.step, this]; rfl
      -- the label (and the default result)
      let scd := procScope W.P.gslots (procs.map (·.static)) f d (avs.map (fun av => locPath av.2))
      let dP : ProcDecl Stmt := { d with body := desugar d.body }
      let vals : List Val := avs.map (·.1)
      have h5rets : τ5.rets = (σ.pc + 1 + sizePush args + 3) :: τ2.rets := by simp [τ5, τ4, Vm.advance, hrt3]
      have h5marks : τ5.marks = (τ2.regStack.length + 1) :: τ2.marks := by simp [τ5, τ4, Vm.advance, hmk3, hrs3]
      have h5reg : τ5.regStack = τ2.regStack := by simp [τ5, τ4, Vm.advance, hrs3]
      have h5vals : τ5.vals = τ2.vals := by simp [τ5, τ4, Vm.advance, hv3]
      have h5paths : τ5.paths = τ2.paths := by simp [τ5, τ4, Vm.advance, hpa3]
      have h5trace : τ5.trace = p :: τ2.trace := by simp [τ5, τ4, Vm.advance, htr3]
      have h5skip : τ5.skipNewline = τ2.skipNewline := by simp [τ5, τ4, Vm.advance, hsk3]
      have hrel5 : Rel W scd [] below' (ProcArr.Ref.enterCore dP f vals s1') τ5 := hrel3.same rfl rfl rfl rfl rfl rfl
      obtain ⟨k, σb, stE, hpb0, hcBody, hpopret, hrelb0, hkb⟩ :=
        body_entry W scd below' (W.lay.addr f) d (ProcArr.Ref.enterCore dP f vals s1') τ5 hat rfl hrel5
          (by
            intro rt hrt
            simpa [scd, procScope] using hslots.2 rt hrt)
      have hrelb : Rel W scd [] below' (ProcArr.Ref.enter dP f vals s1') σb := hrelb0
      have preB : Steps W.code σ σb :=
        ((Steps.cons s1 st2).trans (Steps.cons s3 (Steps.cons s4 (Steps.one s5)))).trans stE
      -- the body
      have hactb : ActInv scd 0 0 σb :=
        ⟨fun h => by simp [scd, procScope] at h, fun _ => ⟨σ.pc + 1 + sizePush args + 3, τ2.rets, τ2.regStack.length + 1, τ2.marks,
          by rw [hkb.rets, h5rets], by rw [hkb.marks, h5marks],
          by rw [hkb.regStack, h5reg],
          Nat.le_add_left _ _, Nat.zero_le _⟩⟩
      have hB := ih.self.stmt scd d.body "" 0 0 (W.lay.addr f + k) below'
        (ProcArr.Ref.enter dP f vals s1') σb hcBody hpb0 hrelb (hwfb _) hactb
      simp only
      generalize ProcArr.Ref.exec W.P fuel (desugar d.body) (ProcArr.Ref.enter dP f vals s1') = rb at hB ⊢
      obtain ⟨s2, o⟩ := rb
      -- the callee returns: by the final `PopRet` or by `EXIT SUB / FUNCTION`
      have hret : ProcArr.Ref.returns o = true →
          ∃ τr, Steps W.code σb τr ∧ ExitedTo 0 0 σb τr ∧ Rel W scd [] below' s2 τr := by
        intro hro
        cases o with
        | normal =>
          obtain ⟨τb, stb, hpb, hrelbb, hssb⟩ := hB
          have hpr : W.code[τb.pc]? = some (CInstr.popRet, d.pos) := by rw [hpb]; exact hpopret
          have htrunc : truncRegs τb (τ2.regStack.length + 1) = some τb :=
            truncRegs_full τb _ (by rw [hssb.regStack, hkb.regStack, h5reg])
          let τr : Vm := { τb with pc := σ.pc + 1 + sizePush args + 3, rets := τ2.rets, marks := τ2.marks }
          have sr : Vm.step W.code τb = .next τr := by
            have e1 : τb.rets = (σ.pc + 1 + sizePush args + 3) :: τ2.rets := by
              rw [hssb.rets, hkb.rets, h5rets]
            have e2 : τb.marks = (τ2.regStack.length + 1) :: τ2.marks := by
              rw [hssb.marks, hkb.marks, h5marks]
            simp only [Vm.step, hpr, e1, e2, htrunc]; rfl
          refine ⟨τr, stb.trans (Steps.one sr), ?_, hrelbb.same rfl rfl rfl rfl rfl rfl⟩
          exact ⟨⟨σ.pc + 1 + sizePush args + 3, τ2.regStack.length + 1, by rw [hkb.rets, h5rets],
              by rw [hkb.marks, h5marks], rfl⟩,
            hssb.regStack, hssb.vals, hssb.paths, hssb.trace, hssb.skip⟩
        | exited => exact hB
        | halted => cases hro
        | error c q => cases hro
        | inexact => cases hro
        | outOfFuel => cases hro
        | tooBig => cases hro
        | illFormed => cases hro
      cases hro : ProcArr.Ref.returns o with
      | false =>
        simp only [Bool.false_eq_true, if_false, CallPost]
        refine ErrPost.of_steps preB ?_
        cases o with
        | normal => cases hro
        | exited => cases hro
        | halted => exact hB
        | error c q => exact hB
        | inexact => trivial
        | outOfFuel => trivial
        | tooBig => trivial
        | illFormed => exact hB
      | true =>
        obtain ⟨τr, str, hx, hrelr⟩ := hret hro
        obtain ⟨a', m', hxr, hxm, hxp⟩ := hx.ret
        have hσbr : σb.rets = (σ.pc + 1 + sizePush args + 3) :: τ2.rets := by rw [hkb.rets, h5rets]
        have hσbm : σb.marks = (τ2.regStack.length + 1) :: τ2.marks := by rw [hkb.marks, h5marks]
        have hra : a' = σ.pc + 1 + sizePush args + 3 ∧ τr.rets = τ2.rets := by
          have : (σ.pc + 1 + sizePush args + 3) :: τ2.rets = a' :: τr.rets := by rw [← hσbr]; exact hxr
          injection this with h1 h2
          exact ⟨h1.symm, h2.symm⟩
        have hrm : τr.marks = τ2.marks := by
          have : (τ2.regStack.length + 1) :: τ2.marks = m' :: τr.marks := by rw [← hσbm]; exact hxm
          injection this with h1 h2
          exact h2.symm
        -- the caller's block, if it is a STATIC one, still exists with its parameters
        have hgrow : Grows τ2 τr := steps_grows (((Steps.cons s3 (Steps.cons s4 (Steps.one s5))).trans stE).trans str)
        have hst : ∀ g, sc.self = some g → ∃ fr, τr.statics g = some fr ∧ ∀ i, i < sc.np → ∃ w, fr[i]? = some (some w) := by
          intro g hg
          have hsf : τ2.statics g = some b1.vars := by
            have e := hcf1
            unfold Vm.curFrame at e
            have hc' : τ2.ctx = (.args (avs.map argEntry) :: pre) ++ topState sc b1 :: below := by simpa using hctx2'
            rw [hc', curVars_coll _ hrel2.coll] at e
            simpa [topState, hg, curVars] using e
          obtain ⟨fr', e1, k1⟩ := hgrow g b1.vars hsf
          exact ⟨fr', e1, fun i hi => k1 i (hfr1.created i hi)⟩
        have hns : sc.self = none → FrameRel sc b1.vars s1'.env ∧ Typed sc.slots.loc s1'.env := by
          intro hn
          have hs0 : s1'.self = none := by rw [hrel2.self, hn]
          have hloc : s1'.locals = s1'.env := by simp [ProcArr.Ref.St.locals, hs0]
          exact ⟨by rw [← hloc]; exact hfr1, by rw [← hloc]; exact hrel2.typed⟩
        have hepi := epilogue W sc scd pre below args avs d.static p p res (σ.pc + 1 + sizePush args + 3) τr
          s1' s2 b1 τ2.trace (hcEpi.at (by omega)) (by rw [hxp, hra.1]) hrelr hr.coll hrel2.self hrel2.gl hrel2.st hrel2.scok
          harr1 hap1 hns hst (by rw [hx.trace, hkb.trace, h5trace]) haw (locsOk_length hloks) hloks
          (by
            intro hcs
            exact ⟨by simp [scd, procScope, hcs], rfl⟩)
          (by
            intro k' pn pt hk
            rw [← hpar] at hk
            simpa [scd, procScope] using hslots.1 k' pn pt hk)
          (by simp only [scd, procScope]; omega)
          (by
            intro t ht
            rw [← hres] at ht
            simpa [scd, procScope, hplen] using hslots.2 t ht)
        obtain ⟨υ, stυ, hpυ, hrelυ, htrυ, hrgυ, hvυ, hpaυ, hrtυ, hmkυ, hskυ, hresυ⟩ := hepi
        simp only [if_true, CallPost]
        refine ⟨υ, (preB.trans str).trans stυ, ?_, hrelυ, ?_, ?_⟩
        · rw [hpυ]; simp only [sizeCall]; omega
        · refine ⟨?_, ?_, ?_, ?_, ?_, ?_, ?_⟩
          · rw [hvυ, hx.vals, List.drop_zero, hkb.vals, h5vals]; exact hss2.vals
          · rw [hpaυ, hx.paths, hkb.paths, h5paths]; exact hss2.paths
          · rw [hrgυ, hx.regStack, List.drop_zero, hkb.regStack, h5reg]; exact hss2.regStack
          · rw [hrtυ, hra.2]; exact hss2.rets
          · rw [hmkυ, hrm]; exact hss2.marks
          · rw [htrυ]; exact hss2.trace
          · intro hk; rw [hskυ]; exact hx.skip (hkb.skip (by rw [h5skip]; exact hss2.skip hk))
        · intro t ht
          obtain ⟨h1, h2⟩ := hresυ t ht
          have hdr : d.result = some t := by rw [hres]; exact ht
          simp only [hdr, ProcDecl.resultSlot, hplen]
          exact ⟨h1, h2⟩

end RbThm.ProcArrSim
