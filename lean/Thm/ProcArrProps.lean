import RbModel.ProcArr.Spec
import Thm.ProcArrBounds
/-!
Combined layer (procedures + arrays): property-level facts proved from the reference semantics `RbModel.ProcArr.Ref`
alone (no VM, no simulation relation).  (A), (B), (C) are the statements of `Thm/ProcProps.lean` re-proved for this layer.

(E) `element_byref_writeback : Spec.ElementByrefWriteback` — an array element passed to a procedure is passed by
    reference: the location `(array, index tuple)` is resolved once, when the argument is evaluated; after the call it
    holds the callee's final value of the (last) parameter bound to it; nothing else of the caller's arrays changes; no
    array is re-dimensioned; the own scalars of an ordinary caller that are not by-reference actuals are untouched.
    Uses `Thm/ProcArrBounds.lean` (evaluation never re-dimensions an array of the current activation).
(A) `shared_is_one_object`: the DIM SHARED variables are ONE store for all scopes.
(B) `static_persists` (`enter_static_locals`, `rebind_keeps`, `static_exit`, `self_preserved`, `statics_other`),
    `locals_fresh_per_activation` / `enter_fresh_locals` / `freshEnv_zero` / `enter_arrs` (an ordinary procedure starts
    every activation on fresh variables and undimensioned arrays), `function_result_default`.
(C) the frame theorem `statics_frame` and `static_persists_between`: what does not call `f` does not touch `f`'s block.
-/
namespace RbThm.ProcArrProps
set_option linter.unusedVariables false
set_option linter.unusedSimpArgs false
open RbModel RbModel.Num RbModel.ProcArr RbModel.ProcArr.Ref
open RbModel.ProcArr.Spec (elemAt elemLocs refVars argTy)
open RbModel.Ast (Pos)
open RbThm.ProcArrBounds (SameBounds bnds)

/-! ## (E) an array element as by-reference actual -/

/-- the location is a dimensioned array of the current activation and an index tuple inside its box -/
def ValidLoc (s : St) (l : Loc) : Prop := ∃ A : RArr, s.arrs[l.1]? = some (some A) ∧ A.inBounds l.2 = true

theorem ValidLoc.of_bounds {s s' : St} {l : Loc} (hb : SameBounds s s') (h : ValidLoc s l) : ValidLoc s' l := by
  obtain ⟨A, hA, hin⟩ := h
  obtain ⟨A', hA', hbd⟩ := hb.lookup hA
  exact ⟨A', hA', by rw [RbThm.ProcArrBounds.inBounds_congr hbd]; exact hin⟩

theorem liftR_ok {s s' : St} {p : Pos} {r : Res Val} {v : Val} (h : liftR s p r = (s', .ok v)) : s' = s :=
  RbThm.ProcArrBounds.liftR_ok h

theorem readElem_ok {s : St} {a : Nat} {is : List Int} {p : Pos} {v : Val} (h : s.readElem a is p = .ok v) :
    ValidLoc s (a, is) := by
  unfold St.readElem at h
  split at h
  · next A hA =>
    split at h
    · next hin => exact ⟨A, hA, hin⟩
    · simp at h
  · simp at h

/-- the location of an element read is valid in the state the read ends in -/
theorem evalElem_loc {P : Program} {fuel a : Nat} {idx : Exprs} {p : Pos} {s s' : St} {v : Val} {is : List Int}
    (h : evalElem P fuel a idx p s = (s', .ok (v, is))) : ValidLoc s' (a, is) := by
  cases fuel with
  | zero => simp [evalElem] at h
  | succ n =>
    simp only [evalElem] at h
    split at h
    · simp at h
    · next s1 is1 hi =>
      split at h
      · next w hr =>
        simp only [Prod.mk.injEq, Except.ok.injEq] at h
        obtain ⟨rfl, -, rfl⟩ := h
        exact readElem_ok hr
      · simp at h

/-- the location that comes with an evaluated argument is valid in the state the evaluation ends in -/
theorem evalArg_loc {P : Program} {fuel : Nat} {e : ProcArr.Expr} {pt : Ty} {s s' : St} {v : Val} {l : Loc}
    (h : evalArg P fuel e pt s = (s', .ok (v, some l))) : ValidLoc s' l := by
  cases fuel with
  | zero => simp [evalArg] at h
  | succ n =>
    cases e with
    | elem a idx t p =>
      simp only [evalArg] at h
      split at h
      · simp at h
      · next s1 w is he =>
        split at h
        · next s2 w' hl =>
          simp only [Prod.mk.injEq, Except.ok.injEq, Option.some.injEq] at h
          obtain ⟨rfl, -, rfl⟩ := h
          have := liftR_ok hl; subst this
          exact evalElem_loc he
        · simp at h
    | lit _ _ => simp only [evalArg] at h; split at h <;> simp at h
    | var _ _ _ => simp only [evalArg] at h; split at h <;> simp at h
    | un _ _ _ => simp only [evalArg] at h; split at h <;> simp at h
    | bin _ _ _ _ _ => simp only [evalArg] at h; split at h <;> simp at h
    | paren _ _ => simp only [evalArg] at h; split at h <;> simp at h
    | callFn _ _ _ _ => simp only [evalArg] at h; split at h <;> simp at h

/-- the location an actual contributes: an element actual evaluated to a location -/
def locOf : ProcArr.Expr → Option Loc → Option Loc
  | .elem _ _ _ _, some l => some l
  | _, _ => none

theorem elemLocs_cons (e : ProcArr.Expr) (n : String) (pt : Ty) (rest : Args) (av : Val × Option Loc)
    (avs : List (Val × Option Loc)) (k : Nat) :
    elemLocs (.cons e n pt rest) (av :: avs) k =
      (match locOf e av.2 with | some l => [(k, l)] | none => []) ++ elemLocs rest avs (k + 1) := by
  obtain ⟨w, ol⟩ := av
  cases e <;> cases ol <;> simp [elemLocs, locOf]

theorem elemLocs_nil_right (args : Args) (k : Nat) : elemLocs args [] k = [] := by
  cases args <;> simp [elemLocs]

theorem elemLocs_nil_left (avs : List (Val × Option Loc)) (k : Nat) : elemLocs .nil avs k = [] := by
  simp [elemLocs]

theorem elemLocs_ge : ∀ (args : Args) (avs : List (Val × Option Loc)) (k i : Nat) (l : Loc),
    (i, l) ∈ elemLocs args avs k → k ≤ i
  | .nil, avs, k, i, l, h => by simp [elemLocs_nil_left] at h
  | .cons e n pt rest, [], k, i, l, h => by simp [elemLocs_nil_right] at h
  | .cons e n pt rest, av :: avs, k, i, l, h => by
    rw [elemLocs_cons, List.mem_append] at h
    rcases h with h | h
    · cases hl : locOf e av.2 with
      | none => rw [hl] at h; simp at h
      | some l' => rw [hl] at h; simp at h; omega
    · have := elemLocs_ge rest avs (k + 1) i l h; omega

/-- every location `evalArgs` yields is valid in the state after ALL the arguments -/
theorem evalArgs_locs {P : Program} : ∀ (fuel : Nat) (args : Args) (s s1 : St) (avs : List (Val × Option Loc)) (k : Nat),
    evalArgs P fuel args s = (s1, .ok avs) → ∀ i l, (i, l) ∈ elemLocs args avs k → ValidLoc s1 l
  | 0, args, s, s1, avs, k, h => by simp [evalArgs] at h
  | fuel + 1, .nil, s, s1, avs, k, h => by intro i l hm; simp [elemLocs_nil_left] at hm
  | fuel + 1, .cons e n pt rest, s, s1, avs, k, h => by
    simp only [evalArgs] at h
    split at h
    · simp at h
    · next sa av ha =>
      split at h
      · simp at h
      · next sb vs hb =>
        simp only [Prod.mk.injEq, Except.ok.injEq] at h
        obtain ⟨rfl, rfl⟩ := h
        intro i l hm
        rw [elemLocs_cons, List.mem_append] at hm
        rcases hm with hm | hm
        · obtain ⟨w, ol⟩ := av
          cases ol with
          | none => cases e <;> simp [locOf] at hm
          | some l' =>
            have hv : ValidLoc sa l' := evalArg_loc ha
            have : l = l' := by
              cases e <;> simp [locOf] at hm
              exact hm.2
            subst this
            exact hv.of_bounds (RbThm.ProcArrBounds.evalArgs_bounds P fuel hb)
        · exact evalArgs_locs fuel rest sa sb vs (k + 1) hb i l hm

/-! ### what a store into an element does to `elemAt` -/

theorem elemAt_congr {s s' : St} (h : s'.arrs = s.arrs) (a : Nat) (is : List Int) : elemAt s' a is = elemAt s a is := by
  unfold elemAt; rw [h]

theorem lookupCell_filter_ne (cells : List (List Int × Val)) (is js : List Int) (h : is ≠ js) :
    ArrL.Ref.lookupCell (cells.filter (fun c => !(c.1 == is))) js = ArrL.Ref.lookupCell cells js := by
  induction cells with
  | nil => rfl
  | cons c rest ih =>
    obtain ⟨k, v⟩ := c
    by_cases hk : k = is
    · subst hk
      simp only [List.filter, beq_self_eq_true, Bool.not_true, ArrL.Ref.lookupCell, if_neg h]
      exact ih
    · have : (!(k == is)) = true := by simp [hk]
      simp only [List.filter, this, ArrL.Ref.lookupCell]
      rw [ih]

theorem rget_set_self (A : RArr) (is : List Int) (v : Val) : (A.set is v).get is = v := by
  simp [ArrL.Ref.RArr.get, ArrL.Ref.RArr.set, ArrL.Ref.lookupCell]

theorem rget_set_ne (A : RArr) (is js : List Int) (v : Val) (h : is ≠ js) : (A.set is v).get js = A.get js := by
  simp only [ArrL.Ref.RArr.get, ArrL.Ref.RArr.set, ArrL.Ref.lookupCell, if_neg h]
  rw [lookupCell_filter_ne _ _ _ h]

theorem rinBounds_set (A : RArr) (is js : List Int) (v : Val) : (A.set is v).inBounds js = A.inBounds js := rfl

/-- a store into a valid location is read back -/
theorem elemAt_setElem_self {s : St} {a : Nat} {is : List Int} (v : Val) (h : ValidLoc s (a, is)) :
    elemAt (s.setElem a is v) a is = some v := by
  obtain ⟨A, hA, hin⟩ := h
  have hlt : a < s.arrs.length := (List.getElem?_eq_some_iff.mp hA).1
  simp only [elemAt, St.setElem, hA, St.setArr, List.getElem?_set_self hlt, Option.join_some]
  rw [rinBounds_set, hin, rget_set_self]; rfl

/-- a store into an element does not change any other element -/
theorem elemAt_setElem_ne (s : St) (a b : Nat) (is js : List Int) (v : Val) (h : (a, is) ≠ (b, js)) :
    elemAt (s.setElem a is v) b js = elemAt s b js := by
  unfold St.setElem
  split
  · next A hA =>
    have hlt : a < s.arrs.length := (List.getElem?_eq_some_iff.mp hA).1
    by_cases hab : a = b
    · subst hab
      have hij : is ≠ js := fun e => h (by rw [e])
      simp only [elemAt, St.setArr, List.getElem?_set_self hlt, hA, Option.join_some]
      rw [rinBounds_set, rget_set_ne _ _ _ _ hij]
    · simp only [elemAt, St.setArr, List.getElem?_set_ne hab]
  · rfl

/-! ### the write-back, one actual at a time -/

theorem setElem_self (s : St) (a : Nat) (is : List Int) (v : Val) : (s.setElem a is v).self = s.self := by
  unfold St.setElem; split <;> rfl

theorem setElem_env (s : St) (a : Nat) (is : List Int) (v : Val) : (s.setElem a is v).env = s.env := by
  unfold St.setElem; split <;> rfl

theorem set_self (s : St) (x : Var) (v : Val) : (s.set x v).self = s.self := by
  unfold St.set St.setLocal
  split
  · rfl
  · split <;> simp [*]

theorem writeOne_self (e : ProcArr.Expr) (ol : Option Loc) (v : Val) (s : St) : (writeOne e ol v s).self = s.self := by
  cases e with
  | var x t p => exact set_self s x v
  | elem a idx t p =>
    cases ol with
    | none => rfl
    | some l => exact setElem_self s l.1 l.2 v
  | lit _ _ => rfl
  | un _ _ _ => rfl
  | bin _ _ _ _ _ => rfl
  | paren _ _ => rfl
  | callFn _ _ _ _ => rfl

/-- on the arrays, `writeOne` is a store into the location of an element actual and nothing otherwise -/
theorem elemAt_writeOne (e : ProcArr.Expr) (ol : Option Loc) (v : Val) (s : St) (b : Nat) (js : List Int) :
    elemAt (writeOne e ol v s) b js =
      (match locOf e ol with
       | some l => elemAt (s.setElem l.1 l.2 v) b js
       | none => elemAt s b js) := by
  cases e with
  | var x t p =>
    cases ol <;> exact elemAt_congr (RbThm.ProcArrBounds.set_arrs s x v) b js
  | elem a idx t p =>
    cases ol with
    | none => rfl
    | some l => rfl
  | lit _ _ => cases ol <;> rfl
  | un _ _ _ => cases ol <;> rfl
  | bin _ _ _ _ _ => cases ol <;> rfl
  | paren _ _ => cases ol <;> rfl
  | callFn _ _ _ _ => cases ol <;> rfl

/-- clause 2, for the write-back alone: an element no location denotes is unchanged -/
theorem writeBack_other (b : Nat) (js : List Int) :
    ∀ (args : Args) (avs : List (Val × Option Loc)) (k : Nat) (callee : List Val) (s : St),
      (∀ j l, (j, l) ∈ elemLocs args avs k → l ≠ (b, js)) →
      elemAt (writeBack args avs k callee s) b js = elemAt s b js
  | .nil, avs, k, callee, s, h => by simp only [writeBack]
  | .cons e n pt rest, [], k, callee, s, h => by simp only [writeBack]
  | .cons e n pt rest, av :: avs, k, callee, s, h => by
    simp only [writeBack]
    have hrest : ∀ j l, (j, l) ∈ elemLocs rest avs (k + 1) → l ≠ (b, js) := by
      intro j l hm
      exact h j l (by rw [elemLocs_cons, List.mem_append]; exact Or.inr hm)
    rw [writeBack_other b js rest avs (k + 1) callee _ hrest, elemAt_writeOne]
    cases hl : locOf e av.2 with
    | none => rfl
    | some l =>
      have hne : l ≠ (b, js) := h k l (by rw [elemLocs_cons, hl]; simp)
      exact elemAt_setElem_ne s l.1 b l.2 js _ hne

/-- clause 1, for the write-back alone: a valid location holds the callee's value of the LAST parameter bound to it -/
theorem writeBack_hit (b : Nat) (js : List Int) :
    ∀ (args : Args) (avs : List (Val × Option Loc)) (k : Nat) (callee : List Val) (s : St) (j : Nat),
      (k + j, (b, js)) ∈ elemLocs args avs k →
      (∀ j' l, (j', l) ∈ elemLocs args avs k → k + j < j' → l ≠ (b, js)) →
      ValidLoc s (b, js) →
      elemAt (writeBack args avs k callee s) b js = some (callee.getD (k + j) (zeroOf (argTy args j)))
  | .nil, avs, k, callee, s, j, hm, hl, hv => by simp [elemLocs_nil_left] at hm
  | .cons e n pt rest, [], k, callee, s, j, hm, hl, hv => by simp [elemLocs_nil_right] at hm
  | .cons e n pt rest, av :: avs, k, callee, s, j, hm, hlast, hv => by
    simp only [writeBack]
    have hsub : ∀ j' l, (j', l) ∈ elemLocs rest avs (k + 1) → (j', l) ∈ elemLocs (.cons e n pt rest) (av :: avs) k := by
      intro j' l h; rw [elemLocs_cons, List.mem_append]; exact Or.inr h
    cases j with
    | zero =>
      -- this actual is the last one bound to the location
      rw [elemLocs_cons, List.mem_append] at hm
      have hhead : locOf e av.2 = some (b, js) := by
        rcases hm with hm | hm
        · cases hl : locOf e av.2 with
          | none => rw [hl] at hm; simp at hm
          | some l' =>
            rw [hl] at hm
            simp only [List.mem_singleton, Prod.mk.injEq] at hm
            rw [hm.2]
        · have := elemLocs_ge rest avs (k + 1) _ _ hm; omega
      have hrest : ∀ j' l, (j', l) ∈ elemLocs rest avs (k + 1) → l ≠ (b, js) := by
        intro j' l h
        have := elemLocs_ge rest avs (k + 1) _ _ h
        exact hlast j' l (hsub j' l h) (by omega)
      rw [writeBack_other b js rest avs (k + 1) callee _ hrest, elemAt_writeOne, hhead]
      simp only [Nat.add_zero, argTy]
      exact elemAt_setElem_self _ hv
    | succ j =>
      have hm' : (k + 1 + j, (b, js)) ∈ elemLocs rest avs (k + 1) := by
        rw [elemLocs_cons, List.mem_append] at hm
        rcases hm with hm | hm
        · cases hl : locOf e av.2 with
          | none => rw [hl] at hm; simp at hm
          | some l' => rw [hl] at hm; simp at hm
        · have e1 : k + 1 + j = k + (j + 1) := by omega
          rw [e1]; exact hm
      have hlast' : ∀ j' l, (j', l) ∈ elemLocs rest avs (k + 1) → k + 1 + j < j' → l ≠ (b, js) := by
        intro j' l h hlt
        exact hlast j' l (hsub j' l h) (by omega)
      have hv' : ValidLoc (writeOne e av.2 (callee.getD k (zeroOf e.ty)) s) (b, js) :=
        hv.of_bounds (RbThm.ProcArrBounds.writeOne_bounds e av.2 _ s)
      have := writeBack_hit b js rest avs (k + 1) callee _ j hm' hlast' hv'
      rw [this]
      have e1 : k + 1 + j = k + (j + 1) := by omega
      rw [e1]
      simp only [argTy]

/-- clause 4, for the write-back alone: in an ordinary activation only the by-reference variables are stored into -/
theorem writeBack_env (x : Nat) :
    ∀ (args : Args) (avs : List (Val × Option Loc)) (k : Nat) (callee : List Val) (s : St),
      s.self = none → x ∉ refVars args → (writeBack args avs k callee s).env[x]? = s.env[x]?
  | .nil, avs, k, callee, s, hs, hx => by simp only [writeBack]
  | .cons e n pt rest, [], k, callee, s, hs, hx => by simp only [writeBack]
  | .cons e n pt rest, av :: avs, k, callee, s, hs, hx => by
    simp only [writeBack]
    have hx' : x ∉ refVars rest := by
      intro hm; apply hx
      cases e <;> simp only [refVars, List.mem_append] <;> first | exact hm | exact Or.inr hm
    rw [writeBack_env x rest avs (k + 1) callee _ (by rw [writeOne_self]; exact hs) hx']
    cases e with
    | var y t p =>
      simp only [writeOne]
      unfold St.set
      split
      · rfl
      · next hsh =>
        have hne : y.slot ≠ x := by
          intro e1; apply hx
          simp only [refVars, hsh, Bool.false_eq_true, if_false, List.mem_append, List.mem_singleton]
          exact Or.inl e1.symm
        unfold St.setLocal
        rw [hs]
        simp only [List.getElem?_set_ne hne]
    | elem a idx t p =>
      cases hl : av.2 with
      | none => simp only [writeOne]
      | some l => simp only [writeOne]; rw [setElem_env]
    | lit _ _ => rfl
    | un _ _ _ => rfl
    | bin _ _ _ _ _ => rfl
    | paren _ _ => rfl
    | callFn _ _ _ _ => rfl

/-- a call that returns, unfolded -/
theorem call_ok_unfold {P : Program} {fuel f : Nat} {args : Args} {s s' : St} {v : Val}
    (h : call P (fuel + 1) f args s = (s', .ok v)) :
    ∃ d s1 avs s2 o, P.procs[f]? = some d ∧ evalArgs P fuel args s = (s1, .ok avs) ∧
      exec P fuel d.body (enter d f (avs.map (·.1)) s1) = (s2, o) ∧ returns o = true ∧
      s' = writeBack args avs 0 s2.locals { s2 with env := s1.env, self := s1.self, arrs := s1.arrs } ∧
      v = (match d.result with
           | some rt => s2.locals.getD d.resultSlot (zeroOf rt)
           | none => .int 0) := by
  simp only [call] at h
  split at h
  · simp at h
  · next d hd =>
    split at h
    · simp at h
    · next s1 avs ha =>
      split at h
      · next ho =>
        have h1 := (Prod.mk.inj h).1
        have h2 := Except.ok.inj (Prod.mk.inj h).2
        exact ⟨d, s1, avs, _, _, hd, ha, rfl, ho, h1.symm, h2.symm⟩
      · simp at h

/-- **element_byref_writeback** (`Spec.ElementByrefWriteback`) -/
theorem element_byref_writeback : RbModel.ProcArr.Spec.ElementByrefWriteback := by
  intro P fuel f args s s' r h
  obtain ⟨d, s1, avs, s2, o, hd, ha, hb, ho, hs', -⟩ := call_ok_unfold h
  refine ⟨d, s1, avs, s2, o, hd, ha, hb, ho, ?_, ?_, ?_, ?_⟩
  · intro i a is hm hlast
    have hv : ValidLoc s1 (a, is) := evalArgs_locs fuel args s s1 avs 0 ha i (a, is) hm
    have := writeBack_hit a is args avs 0 s2.locals { s2 with env := s1.env, self := s1.self, arrs := s1.arrs } i
      (by rw [Nat.zero_add]; exact hm) (by intro j' l h1 h2; exact hlast j' l h1 (by omega)) hv
    rw [hs', this, Nat.zero_add]
  · intro a is hno
    rw [hs', writeBack_other a is args avs 0 s2.locals _ hno]
    rfl
  · intro a
    have := RbThm.ProcArrBounds.writeBack_bounds args avs 0 s2.locals
      { s2 with env := s1.env, self := s1.self, arrs := s1.arrs } a
    rw [← hs'] at this
    unfold bnds at this
    change Option.map (Option.map fun A : RArr => A.bounds) s'.arrs[a]? =
      Option.map (Option.map fun A : RArr => A.bounds) s1.arrs[a]? at this
    cases h1 : s'.arrs[a]? <;> cases h2 : s1.arrs[a]? <;> rw [h1, h2] at this <;> simp at this ⊢
    rename_i x y
    cases x <;> cases y <;> simp at this ⊢
    exact this
  · intro hself x hx
    rw [hs']
    exact writeBack_env x args avs 0 s2.locals { s2 with env := s1.env, self := s1.self, arrs := s1.arrs } hself hx


/-! ## (A) the DIM SHARED variables are one object -/

theorem get_set_shared (s : St) (i : Nat) (t : Ty) (v : Val) (h : i < s.glob.length) :
    (s.set ⟨true, i⟩ v).get ⟨true, i⟩ t = v := by
  simp [St.set, St.get, List.getD, h]

/-- the value of a shared variable does not depend on the activation -/
theorem get_shared_indep (s : St) (env : List Val) (self : Option Nat) (i : Nat) (t : Ty) :
    ({ s with env := env, self := self } : St).get ⟨true, i⟩ t = s.get ⟨true, i⟩ t := by
  simp [St.get]

theorem set_shared_glob (s : St) (i : Nat) (v : Val) :
    (s.set ⟨true, i⟩ v).glob = s.glob.set i v ∧ (s.set ⟨true, i⟩ v).env = s.env ∧
      (s.set ⟨true, i⟩ v).self = s.self ∧ (s.set ⟨true, i⟩ v).statics = s.statics := by
  simp [St.set]

/-- entering a procedure keeps the shared store -/
theorem enterCore_glob (d : ProcDecl Stmt) (f : Nat) (vals : List Val) (s : St) :
    (enterCore d f vals s).glob = s.glob := by
  unfold enterCore; split <;> rfl

theorem enter_glob (d : ProcDecl Stmt) (f : Nat) (vals : List Val) (s : St) : (enter d f vals s).glob = s.glob := by
  unfold enter
  split
  · simp only [St.set, Bool.false_eq_true, if_false]
    unfold St.setLocal
    split <;> exact enterCore_glob d f vals s
  · exact enterCore_glob d f vals s

theorem setLocal_glob (s : St) (i : Nat) (v : Val) : (s.setLocal i v).glob = s.glob := by
  unfold St.setLocal; split <;> rfl

/-- a store into a local never changes a shared variable -/
theorem set_local_glob (s : St) (i : Nat) (v : Val) : (s.set ⟨false, i⟩ v).glob = s.glob := by
  simp [St.set, setLocal_glob]

theorem set_glob_of_not_shared (s : St) (x : Var) (v : Val) (h : x.shared = false) : (s.set x v).glob = s.glob := by
  simp [St.set, h, setLocal_glob]

/-- the argument is a by-reference actual that is a DIM SHARED variable -/
def isSharedRef : ProcArr.Expr → Bool
  | .var x _ _ => x.shared
  | _ => false

/-- no argument is a DIM SHARED variable passed by reference -/
def NoSharedRef : Args → Prop
  | .nil => True
  | .cons e _ _ rest => isSharedRef e = false ∧ NoSharedRef rest

/-- leaving a procedure: the write-back changes the shared store only at by-reference actuals that are shared
variables -/
theorem setElem_glob (s : St) (a : Nat) (is : List Int) (v : Val) : (s.setElem a is v).glob = s.glob := by
  unfold St.setElem; split <;> rfl

theorem setElem_statics (s : St) (a : Nat) (is : List Int) (v : Val) : (s.setElem a is v).statics = s.statics := by
  unfold St.setElem; split <;> rfl

theorem writeOne_glob_of_not_shared (e : ProcArr.Expr) (ol : Option Loc) (v : Val) (s : St) (h : isSharedRef e = false) :
    (writeOne e ol v s).glob = s.glob := by
  cases e with
  | var x t p => exact set_glob_of_not_shared s x v h
  | elem a idx t p =>
    cases ol with
    | none => rfl
    | some l => exact setElem_glob s l.1 l.2 v
  | lit _ _ => rfl
  | un _ _ _ => rfl
  | bin _ _ _ _ _ => rfl
  | paren _ _ => rfl
  | callFn _ _ _ _ => rfl

theorem writeBack_glob_of_no_shared_ref :
    ∀ (args : Args) (avs : List (Val × Option Loc)) (i : Nat) (callee : List Val) (s : St), NoSharedRef args →
      (writeBack args avs i callee s).glob = s.glob
  | .nil, avs, i, callee, s, h => by simp only [writeBack]
  | .cons e n pt rest, [], i, callee, s, h => by simp only [writeBack]
  | .cons e n pt rest, av :: avs, i, callee, s, h => by
    obtain ⟨he, hr⟩ := h
    simp only [writeBack]
    rw [writeBack_glob_of_no_shared_ref rest avs _ _ _ hr]
    exact writeOne_glob_of_not_shared e av.2 _ s he

/-- a value stored into a shared variable in any activation is what any other activation (any `env`, any `self`)
reads -/
theorem shared_is_one_object (s : St) (i : Nat) (t : Ty) (v : Val) (h : i < s.glob.length) (env' : List Val)
    (self' : Option Nat) : ({ (s.set ⟨true, i⟩ v) with env := env', self := self' } : St).get ⟨true, i⟩ t = v := by
  rw [get_shared_indep]; exact get_set_shared s i t v h

/-- the same across a call: what the caller stored is what the callee's start state reads -/
theorem shared_seen_by_callee (s : St) (i : Nat) (t : Ty) (v : Val) (h : i < s.glob.length) (d : ProcDecl Stmt)
    (f : Nat) (vals : List Val) : (enter d f vals (s.set ⟨true, i⟩ v)).get ⟨true, i⟩ t = v := by
  have := get_set_shared s i t v h
  simp only [St.get, if_true] at this ⊢
  rw [enter_glob]; exact this

/-! ## (B) STATIC procedures -/

theorem enterCore_static_locals (d : ProcDecl Stmt) (f : Nat) (vals : List Val) (s : St) (h : d.static = true) :
    (enterCore d f vals s).locals = rebind (s.statics f) vals := by
  simp [enterCore, h, St.locals]

theorem enterCore_static_self (d : ProcDecl Stmt) (f : Nat) (vals : List Val) (s : St) (h : d.static = true) :
    (enterCore d f vals s).self = some f := by
  simp [enterCore, h]

/-- a store into a variable of the current activation, on the activation's variables -/
theorem locals_set_local (s : St) (i : Nat) (v : Val) : (s.set ⟨false, i⟩ v).locals = s.locals.set i v := by
  simp only [St.set, Bool.false_eq_true, if_false]
  unfold St.setLocal St.locals
  cases s.self <;> simp

theorem self_set_local (s : St) (i : Nat) (v : Val) : (s.set ⟨false, i⟩ v).self = s.self := by
  simp only [St.set, Bool.false_eq_true, if_false]
  unfold St.setLocal
  cases s.self <;> rfl

/-- a STATIC FUNCTION starts on its block with the parameters rebound and the result variable at zero -/
theorem enter_static_function_locals (d : ProcDecl Stmt) (f : Nat) (vals : List Val) (s : St) (h : d.static = true)
    (rt : Ty) (hr : d.result = some rt) :
    (enter d f vals s).locals = (rebind (s.statics f) vals).set d.resultSlot (zeroOf rt) := by
  simp only [enter, h, hr]
  rw [locals_set_local, enterCore_static_locals d f vals s h]

/-- a STATIC SUB starts on its block with the parameters rebound -/
theorem enter_static_sub_locals (d : ProcDecl Stmt) (f : Nat) (vals : List Val) (s : St) (h : d.static = true)
    (hr : d.result = none) : (enter d f vals s).locals = rebind (s.statics f) vals := by
  simp only [enter, h, hr]
  exact enterCore_static_locals d f vals s h

/-- a STATIC procedure starts on its block with the parameters rebound — except for the result variable of a FUNCTION,
which starts at zero (`enter_static_function_locals`) -/
theorem enter_static_locals (d : ProcDecl Stmt) (f : Nat) (vals : List Val) (s : St) (h : d.static = true) (x : Nat)
    (hx : x ≠ d.resultSlot ∨ d.result = none) :
    (enter d f vals s).locals[x]? = (rebind (s.statics f) vals)[x]? := by
  cases hr : d.result with
  | none => rw [enter_static_sub_locals d f vals s h hr]
  | some rt =>
    have hne : x ≠ d.resultSlot := by
      rcases hx with hx | hx
      · exact hx
      · rw [hr] at hx; exact absurd hx (by simp)
    rw [enter_static_function_locals d f vals s h rt hr, List.getElem?_set_ne (fun e => hne e.symm)]

theorem enter_static_self (d : ProcDecl Stmt) (f : Nat) (vals : List Val) (s : St) (h : d.static = true) :
    (enter d f vals s).self = some f := by
  unfold enter
  split
  · rw [self_set_local]; exact enterCore_static_self d f vals s h
  · exact enterCore_static_self d f vals s h

/-- at the start of a call every non-parameter slot has the value stored in the block -/
theorem rebind_keeps (old vals : List Val) (x : Nat) (h : vals.length ≤ x) : (rebind old vals)[x]? = old[x]? := by
  unfold rebind
  rw [List.getElem?_append_right h, List.getElem?_drop]
  congr 1; omega

/-- the parameters are rebound -/
theorem rebind_param (old vals : List Val) (x : Nat) (h : x < vals.length) : (rebind old vals)[x]? = vals[x]? := by
  unfold rebind
  rw [List.getElem?_append_left h]

/-- a store in an activation that is not `f`'s does not change `f`'s block -/
theorem statics_other (s : St) (x : Var) (v : Val) (f : Nat) (h : x.shared = true ∨ s.self ≠ some f) :
    (s.set x v).statics f = s.statics f := by
  unfold St.set
  split
  · rfl
  · next hx =>
    have hs : s.self ≠ some f := by
      rcases h with h | h
      · exact absurd h hx
      · exact h
    unfold St.setLocal
    split
    · rfl
    · next g hg =>
      have : f ≠ g := fun e => hs (by rw [hg, e])
      simp [this]

/-! ### an evaluation / execution that does not end the run ends in the activation it started in -/

theorem writeBack_self : ∀ (args : Args) (avs : List (Val × Option Loc)) (i : Nat) (callee : List Val) (s : St),
    (writeBack args avs i callee s).self = s.self
  | .nil, avs, i, callee, s => by simp only [writeBack]
  | .cons e n pt rest, [], i, callee, s => by simp only [writeBack]
  | .cons e n pt rest, av :: avs, i, callee, s => by
    simp only [writeBack]; rw [writeBack_self rest, writeOne_self]

theorem liftR_err {s s' : St} {p : Pos} {r : Res Val} {o : Outcome} (h : liftR s p r = (s', .error o)) :
    returns o = false := by
  cases r <;> simp [liftR] at h <;> simp [← h.2, returns]

theorem relTest_err {p : Pos} {op : Op} {a b : Val} {o : Outcome} (h : relTest p op a b = .error o) :
    returns o = false := by
  unfold relTest at h
  split at h <;> simp at h <;> simp [← h, returns]

theorem stepSign_err {p : Pos} {v : Val} {o : Outcome} (h : stepSign p v = .error o) : returns o = false := by
  unfold stepSign at h
  split at h
  · next o' he => simp at h; subst h; exact relTest_err he
  · simp at h
  · split at h
    · next o' he => simp at h; subst h; exact relTest_err he
    · simp at h
    · simp at h

theorem readElem_err {s : St} {a : Nat} {is : List Int} {p : Pos} {o : Outcome} (h : s.readElem a is p = .error o) :
    returns o = false := by
  unfold St.readElem at h
  split at h
  · split at h <;> simp at h; simp [← h, returns]
  · simp at h; simp [← h, returns]

theorem convDims_err {p : Pos} : ∀ {bs : List (Val × Val)} {o : Outcome}, convDims p bs = .error o → returns o = false
  | [], o, h => by simp [convDims] at h
  | (l, hh) :: rest, o, h => by
    simp only [convDims] at h
    split at h
    · simp at h; simp [← h, returns]
    · simp at h; simp [← h, returns]
    · split at h
      · simp at h; simp [← h, returns]
      · simp at h; simp [← h, returns]
      · split at h
        · simp at h
        · next o' he => simp at h; subst h; exact convDims_err he
      · simp at h; simp [← h, returns]
    · simp at h; simp [← h, returns]

theorem dimArray_err {t : Ty} {bs : List (Val × Val)} {p : Pos} {o : Outcome} (h : dimArray t bs p = .error o) :
    returns o = false := by
  unfold dimArray at h
  split at h
  · next o' he => simp at h; subst h; exact convDims_err he
  · split at h
    · simp at h; simp [← h, returns]
    · split at h
      · simp at h; simp [← h, returns]
      · simp at h

theorem setArr_self (s : St) (a : Nat) (A : RArr) : (s.setArr a A).self = s.self := rfl

/-- the statement for one amount of fuel: a result that lets the run go on is in the activation the evaluation
started in; a result that ends the run never is `normal` / `exited` -/
structure SelfIH (P : Program) (n : Nat) : Prop where
  eval : ∀ e s s' v, ProcArr.Ref.eval P n e s = (s', .ok v) → s'.self = s.self
  evalE : ∀ e s s' o, ProcArr.Ref.eval P n e s = (s', .error o) → returns o = false
  evalIdx : ∀ idx s s' v, ProcArr.Ref.evalIdx P n idx s = (s', .ok v) → s'.self = s.self
  evalIdxE : ∀ idx s s' o, ProcArr.Ref.evalIdx P n idx s = (s', .error o) → returns o = false
  evalElem : ∀ a idx p s s' v, ProcArr.Ref.evalElem P n a idx p s = (s', .ok v) → s'.self = s.self
  evalElemE : ∀ a idx p s s' o, ProcArr.Ref.evalElem P n a idx p s = (s', .error o) → returns o = false
  evalTo : ∀ e t s s' v, ProcArr.Ref.evalTo P n e t s = (s', .ok v) → s'.self = s.self
  evalToE : ∀ e t s s' o, ProcArr.Ref.evalTo P n e t s = (s', .error o) → returns o = false
  evalArg : ∀ e t s s' v, ProcArr.Ref.evalArg P n e t s = (s', .ok v) → s'.self = s.self
  evalArgE : ∀ e t s s' o, ProcArr.Ref.evalArg P n e t s = (s', .error o) → returns o = false
  evalArgs : ∀ a s s' v, ProcArr.Ref.evalArgs P n a s = (s', .ok v) → s'.self = s.self
  evalArgsE : ∀ a s s' o, ProcArr.Ref.evalArgs P n a s = (s', .error o) → returns o = false
  evalDims : ∀ d s s' v, ProcArr.Ref.evalDims P n d s = (s', .ok v) → s'.self = s.self
  evalDimsE : ∀ d s s' o, ProcArr.Ref.evalDims P n d s = (s', .error o) → returns o = false
  call : ∀ f a s s' v, ProcArr.Ref.call P n f a s = (s', .ok v) → s'.self = s.self
  callE : ∀ f a s s' o, ProcArr.Ref.call P n f a s = (s', .error o) → returns o = false
  printItems : ∀ items s s' o, ProcArr.Ref.printItems P n items s = (s', o) → returns o = true → s'.self = s.self
  evalCond : ∀ c s s' v, ProcArr.Ref.evalCond P n c s = (s', .ok v) → s'.self = s.self
  evalCondE : ∀ c s s' o, ProcArr.Ref.evalCond P n c s = (s', .error o) → returns o = false
  caseMatches : ∀ p subj c s s' v, ProcArr.Ref.caseMatches P n p subj c s = (s', .ok v) → s'.self = s.self
  caseMatchesE : ∀ p subj c s s' o, ProcArr.Ref.caseMatches P n p subj c s = (s', .error o) → returns o = false
  anyMatches : ∀ p subj cs s s' v, ProcArr.Ref.anyMatches P n p subj cs s = (s', .ok v) → s'.self = s.self
  anyMatchesE : ∀ p subj cs s s' o, ProcArr.Ref.anyMatches P n p subj cs s = (s', .error o) → returns o = false
  exec : ∀ st s s' o, ProcArr.Ref.exec P n st s = (s', o) → returns o = true → s'.self = s.self
  execCases : ∀ p subj cs s s' o, ProcArr.Ref.execCases P n p subj cs s = (s', o) → returns o = true → s'.self = s.self
  forIter : ∀ x t hh sv up body p s s' o, ProcArr.Ref.forIter P n x t hh sv up body p s = (s', o) → returns o = true → s'.self = s.self

set_option hygiene false in
local macro "self_open" : tactic => `(tactic|
  obtain ⟨i1, i2, i3, i4, i5, i6, i7, i8, i9, i10, i11, i12, i13, i14, i15, i16, i17, i18, i19, i20, i21, i22, i23, i24, i25, i26⟩ := ih)

local macro "self_grind" : tactic => `(tactic|
  grind [liftR_ok, liftR_err, relTest_err, stepSign_err, writeBack_self, set_self, returns, readElem_err, dimArray_err,
    setElem_self, setArr_self])

theorem step_eval {P : Program} {n : Nat} (ih : SelfIH P n) :
    ∀ e s s' v, ProcArr.Ref.eval P (n + 1) e s = (s', .ok v) → s'.self = s.self := by
  intro e s s' v h
  self_open
  cases e <;> simp only [ProcArr.Ref.eval] at h <;> self_grind

theorem step_evalE {P : Program} {n : Nat} (ih : SelfIH P n) :
    ∀ e s s' o, ProcArr.Ref.eval P (n + 1) e s = (s', .error o) → returns o = false := by
  intro e s s' o h
  self_open
  cases e <;> simp only [ProcArr.Ref.eval] at h <;> self_grind

theorem step_evalIdx {P : Program} {n : Nat} (ih : SelfIH P n) :
    ∀ idx s s' v, evalIdx P (n + 1) idx s = (s', .ok v) → s'.self = s.self := by
  intro idx s s' v h
  self_open
  cases idx <;> simp only [evalIdx] at h <;> self_grind

theorem step_evalIdxE {P : Program} {n : Nat} (ih : SelfIH P n) :
    ∀ idx s s' o, evalIdx P (n + 1) idx s = (s', .error o) → returns o = false := by
  intro idx s s' o h
  self_open
  cases idx <;> simp only [evalIdx] at h <;> self_grind

theorem step_evalElem {P : Program} {n : Nat} (ih : SelfIH P n) :
    ∀ a idx p s s' v, evalElem P (n + 1) a idx p s = (s', .ok v) → s'.self = s.self := by
  intro a idx p s s' v h
  self_open
  simp only [evalElem] at h
  self_grind

theorem step_evalElemE {P : Program} {n : Nat} (ih : SelfIH P n) :
    ∀ a idx p s s' o, evalElem P (n + 1) a idx p s = (s', .error o) → returns o = false := by
  intro a idx p s s' o h
  self_open
  simp only [evalElem] at h
  self_grind

theorem step_evalTo {P : Program} {n : Nat} (ih : SelfIH P n) :
    ∀ e t s s' v, evalTo P (n + 1) e t s = (s', .ok v) → s'.self = s.self := by
  intro e t s s' v h
  self_open
  simp only [evalTo] at h
  self_grind

theorem step_evalToE {P : Program} {n : Nat} (ih : SelfIH P n) :
    ∀ e t s s' o, evalTo P (n + 1) e t s = (s', .error o) → returns o = false := by
  intro e t s s' o h
  self_open
  simp only [evalTo] at h
  self_grind

theorem step_evalArg {P : Program} {n : Nat} (ih : SelfIH P n) :
    ∀ e t s s' v, evalArg P (n + 1) e t s = (s', .ok v) → s'.self = s.self := by
  intro e t s s' v h
  self_open
  cases e <;> simp only [evalArg] at h <;> self_grind

theorem step_evalArgE {P : Program} {n : Nat} (ih : SelfIH P n) :
    ∀ e t s s' o, evalArg P (n + 1) e t s = (s', .error o) → returns o = false := by
  intro e t s s' o h
  self_open
  cases e <;> simp only [evalArg] at h <;> self_grind

theorem step_evalArgs {P : Program} {n : Nat} (ih : SelfIH P n) :
    ∀ a s s' v, evalArgs P (n + 1) a s = (s', .ok v) → s'.self = s.self := by
  intro a s s' v h
  self_open
  cases a <;> simp only [evalArgs] at h <;> self_grind

theorem step_evalArgsE {P : Program} {n : Nat} (ih : SelfIH P n) :
    ∀ a s s' o, evalArgs P (n + 1) a s = (s', .error o) → returns o = false := by
  intro a s s' o h
  self_open
  cases a <;> simp only [evalArgs] at h <;> self_grind

theorem step_evalDims {P : Program} {n : Nat} (ih : SelfIH P n) :
    ∀ d s s' v, evalDims P (n + 1) d s = (s', .ok v) → s'.self = s.self := by
  intro d s s' v h
  self_open
  cases d with
  | nil => simp only [evalDims] at h; self_grind
  | cons lo hi rest => cases lo <;> simp only [evalDims] at h <;> self_grind

theorem step_evalDimsE {P : Program} {n : Nat} (ih : SelfIH P n) :
    ∀ d s s' o, evalDims P (n + 1) d s = (s', .error o) → returns o = false := by
  intro d s s' o h
  self_open
  cases d with
  | nil => simp only [evalDims] at h; self_grind
  | cons lo hi rest => cases lo <;> simp only [evalDims] at h <;> self_grind

theorem step_call {P : Program} {n : Nat} (ih : SelfIH P n) :
    ∀ f a s s' v, call P (n + 1) f a s = (s', .ok v) → s'.self = s.self := by
  intro f a s s' v h
  self_open
  simp only [call] at h
  self_grind

theorem step_callE {P : Program} {n : Nat} (ih : SelfIH P n) :
    ∀ f a s s' o, call P (n + 1) f a s = (s', .error o) → returns o = false := by
  intro f a s s' o h
  self_open
  simp only [call] at h
  self_grind

theorem step_printItems {P : Program} {n : Nat} (ih : SelfIH P n) :
    ∀ items s s' o, printItems P (n + 1) items s = (s', o) → returns o = true → s'.self = s.self := by
  intro items s s' o h ho
  self_open
  match items with
  | [] => simp only [printItems] at h; self_grind
  | .comma :: rest => simp only [printItems] at h; self_grind
  | .semicolon :: rest => simp only [printItems] at h; self_grind
  | .expr e :: rest => simp only [printItems] at h; self_grind

theorem step_evalCond {P : Program} {n : Nat} (ih : SelfIH P n) :
    ∀ c s s' v, evalCond P (n + 1) c s = (s', .ok v) → s'.self = s.self := by
  intro c s s' v h
  self_open
  simp only [evalCond] at h
  self_grind

theorem step_evalCondE {P : Program} {n : Nat} (ih : SelfIH P n) :
    ∀ c s s' o, evalCond P (n + 1) c s = (s', .error o) → returns o = false := by
  intro c s s' o h
  self_open
  simp only [evalCond] at h
  self_grind

theorem step_caseMatches {P : Program} {n : Nat} (ih : SelfIH P n) :
    ∀ p subj c s s' v, caseMatches P (n + 1) p subj c s = (s', .ok v) → s'.self = s.self := by
  intro p subj c s s' v h
  self_open
  cases c <;> simp only [caseMatches] at h <;> self_grind

theorem step_caseMatchesE {P : Program} {n : Nat} (ih : SelfIH P n) :
    ∀ p subj c s s' o, caseMatches P (n + 1) p subj c s = (s', .error o) → returns o = false := by
  intro p subj c s s' o h
  self_open
  cases c <;> simp only [caseMatches] at h <;> self_grind

theorem step_anyMatches {P : Program} {n : Nat} (ih : SelfIH P n) :
    ∀ p subj cs s s' v, anyMatches P (n + 1) p subj cs s = (s', .ok v) → s'.self = s.self := by
  intro p subj cs s s' v h
  self_open
  cases cs <;> simp only [anyMatches] at h <;> self_grind

theorem step_anyMatchesE {P : Program} {n : Nat} (ih : SelfIH P n) :
    ∀ p subj cs s s' o, anyMatches P (n + 1) p subj cs s = (s', .error o) → returns o = false := by
  intro p subj cs s s' o h
  self_open
  cases cs <;> simp only [anyMatches] at h <;> self_grind

theorem step_exec {P : Program} {n : Nat} (ih : SelfIH P n) :
    ∀ st s s' o, exec P (n + 1) st s = (s', o) → returns o = true → s'.self = s.self := by
  intro st s s' o h ho
  cases st with
  | forLoop x t lo hi step body p =>
    simp only [exec] at h
    split at h
    · next s1 o1 h1 => have := ih.evalToE _ _ _ _ _ h1; grind
    · next s1 l h1 =>
      split at h
      · next s2 o2 h2 => have := ih.evalToE _ _ _ _ _ h2; grind
      · next s2 hv h2 =>
        have e1 : s2.self = s.self := by rw [ih.evalTo _ _ _ _ _ h2, set_self, ih.evalTo _ _ _ _ _ h1]
        split at h
        · rw [ih.forIter _ _ _ _ _ _ _ _ _ _ h ho, e1]
        · next se =>
          split at h
          · next s3 o3 h3 => have := ih.evalE _ _ _ _ h3; grind
          · next s3 sv h3 =>
            have e2 : s3.self = s.self := by rw [ih.eval _ _ _ _ h3, e1]
            split at h
            · next o4 h4 => have := stepSign_err h4; grind
            · rw [ih.forIter _ _ _ _ _ _ _ _ _ _ h ho, e2]
            · rw [ih.forIter _ _ _ _ _ _ _ _ _ _ h ho, e2]
            · grind [returns]
  | _ =>
    self_open
    simp only [exec] at h
    self_grind

theorem step_execCases {P : Program} {n : Nat} (ih : SelfIH P n) :
    ∀ p subj cs s s' o, execCases P (n + 1) p subj cs s = (s', o) → returns o = true → s'.self = s.self := by
  intro p subj cs s s' o h ho
  self_open
  cases cs <;> simp only [execCases] at h <;> self_grind

theorem step_forIter {P : Program} {n : Nat} (ih : SelfIH P n) :
    ∀ x t hh sv up body p s s' o, forIter P (n + 1) x t hh sv up body p s = (s', o) → returns o = true → s'.self = s.self := by
  intro x t hh sv up body p s s' o h ho
  self_open
  simp only [forIter] at h
  self_grind

theorem selfIH_all (P : Program) : ∀ n, SelfIH P n
  | 0 => by
    constructor <;> intros <;> simp only [ProcArr.Ref.eval, evalIdx, evalElem, evalTo, evalArg, evalArgs, evalDims, call,
      printItems, evalCond, caseMatches, anyMatches, exec, execCases, forIter] at * <;> grind [returns]
  | n + 1 =>
    have ih := selfIH_all P n
    ⟨step_eval ih, step_evalE ih, step_evalIdx ih, step_evalIdxE ih, step_evalElem ih, step_evalElemE ih,
     step_evalTo ih, step_evalToE ih, step_evalArg ih, step_evalArgE ih, step_evalArgs ih, step_evalArgsE ih,
     step_evalDims ih, step_evalDimsE ih, step_call ih, step_callE ih, step_printItems ih, step_evalCond ih,
     step_evalCondE ih, step_caseMatches ih, step_caseMatchesE ih, step_anyMatches ih, step_anyMatchesE ih,
     step_exec ih, step_execCases ih, step_forIter ih⟩

/-- `self_preserved`: every function of the reference semantics' mutual block, at every amount of fuel: a result that
lets the run go on (`.ok _`; outcome `normal` / `exited`) comes with a state whose `self` is the one it started with
(a result that ends the run — END, an error, `inexact`, `outOfFuel`, `tooBig` — may come from inside a callee: then `self`
is the callee's, which is why the statement is conditional) -/
theorem self_preserved (P : Program) (fuel : Nat) : SelfIH P fuel := selfIH_all P fuel

theorem exec_self {P : Program} {fuel : Nat} {st : Stmt} {s s' : St} {o : Outcome} (h : exec P fuel st s = (s', o))
    (ho : returns o = true) : s'.self = s.self := (selfIH_all P fuel).exec _ _ _ _ h ho

theorem eval_self {P : Program} {fuel : Nat} {e : ProcArr.Expr} {s s' : St} {v : Val}
    (h : ProcArr.Ref.eval P fuel e s = (s', .ok v)) : s'.self = s.self := (selfIH_all P fuel).eval _ _ _ _ h

theorem evalArgs_self {P : Program} {fuel : Nat} {a : Args} {s s' : St} {vs : List (Val × Option Loc)}
    (h : evalArgs P fuel a s = (s', .ok vs)) : s'.self = s.self := (selfIH_all P fuel).evalArgs _ _ _ _ h

theorem call_self {P : Program} {fuel f : Nat} {a : Args} {s s' : St} {v : Val}
    (h : call P fuel f a s = (s', .ok v)) : s'.self = s.self := (selfIH_all P fuel).call _ _ _ _ _ h

/-! ### the block of a STATIC procedure when a call returns -/

/-- the argument is a by-reference actual that is a variable of the caller's own scope -/
def isLocalRef : ProcArr.Expr → Bool
  | .var x _ _ => !x.shared
  | _ => false

/-- no argument is a non-shared variable passed by reference -/
def NoLocalRef : Args → Prop
  | .nil => True
  | .cons e _ _ rest => isLocalRef e = false ∧ NoLocalRef rest

theorem set_statics_of_shared (s : St) (x : Var) (v : Val) (h : x.shared = true) : (s.set x v).statics = s.statics := by
  simp [St.set, h]

theorem writeOne_statics_of_not_local (e : ProcArr.Expr) (ol : Option Loc) (v : Val) (s : St) (h : isLocalRef e = false) :
    (writeOne e ol v s).statics = s.statics := by
  cases e with
  | var x t p => exact set_statics_of_shared s x v (by simpa [isLocalRef] using h)
  | elem a idx t p =>
    cases ol with
    | none => rfl
    | some l => exact setElem_statics s l.1 l.2 v
  | lit _ _ => rfl
  | un _ _ _ => rfl
  | bin _ _ _ _ _ => rfl
  | paren _ _ => rfl
  | callFn _ _ _ _ => rfl

theorem writeBack_statics_of_no_local_ref :
    ∀ (args : Args) (avs : List (Val × Option Loc)) (i : Nat) (callee : List Val) (s : St), NoLocalRef args →
      (writeBack args avs i callee s).statics = s.statics
  | .nil, avs, i, callee, s, h => by simp only [writeBack]
  | .cons e n pt rest, [], i, callee, s, h => by simp only [writeBack]
  | .cons e n pt rest, av :: avs, i, callee, s, h => by
    obtain ⟨he, hr⟩ := h
    simp only [writeBack]
    rw [writeBack_statics_of_no_local_ref rest avs _ _ _ hr]
    exact writeOne_statics_of_not_local e av.2 _ s he

theorem writeOne_statics_other (f : Nat) (e : ProcArr.Expr) (ol : Option Loc) (v : Val) (s : St) (h : s.self ≠ some f) :
    (writeOne e ol v s).statics f = s.statics f := by
  cases e with
  | var x t p => exact statics_other s x v f (Or.inr h)
  | elem a idx t p =>
    cases ol with
    | none => rfl
    | some l => simp only [writeOne]; rw [setElem_statics]
  | lit _ _ => rfl
  | un _ _ _ => rfl
  | bin _ _ _ _ _ => rfl
  | paren _ _ => rfl
  | callFn _ _ _ _ => rfl

/-- a write-back in an activation that is not `f`'s does not change `f`'s block -/
theorem writeBack_statics_other (f : Nat) :
    ∀ (args : Args) (avs : List (Val × Option Loc)) (i : Nat) (callee : List Val) (s : St), s.self ≠ some f →
      (writeBack args avs i callee s).statics f = s.statics f
  | .nil, avs, i, callee, s, h => by simp only [writeBack]
  | .cons e n pt rest, [], i, callee, s, h => by simp only [writeBack]
  | .cons e n pt rest, av :: avs, i, callee, s, h => by
    simp only [writeBack]
    rw [writeBack_statics_other f rest avs _ _ _ (by rw [writeOne_self]; exact h)]
    exact writeOne_statics_other f e av.2 _ s h

/-- when a call of the STATIC procedure `f` returns: the body ended in `f`'s activation (`s2.self = some f`, so its
environment `s2.locals` IS the block `s2.statics f`), and unless the write-back stores into `f`'s own block (only
possible for a by-reference actual that is a variable of the caller's scope, when the caller is an activation of `f`
itself) the block after the call is the callee's environment at the end of its body -/
theorem static_exit {P : Program} {fuel f : Nat} {args : Args} {s s' : St} {v : Val} {d : ProcDecl Stmt}
    (hd : P.procs[f]? = some d) (hst : d.static = true) (h : call P (fuel + 1) f args s = (s', .ok v)) :
    ∃ s1 avs s2 o, evalArgs P fuel args s = (s1, .ok avs) ∧
      exec P fuel d.body (enter d f (avs.map (·.1)) s1) = (s2, o) ∧ returns o = true ∧
      s' = writeBack args avs 0 s2.locals { s2 with env := s1.env, self := s1.self, arrs := s1.arrs } ∧
      s1.self = s.self ∧ s2.self = some f ∧ s2.locals = s2.statics f ∧
      (NoLocalRef args ∨ s.self ≠ some f → s'.statics f = s2.locals) := by
  obtain ⟨d', s1, avs, s2, o, hd', ha, hb, ho, hs', -⟩ := call_ok_unfold h
  have : d' = d := by rw [hd] at hd'; exact (Option.some.inj hd').symm
  subst this
  have h1 : s1.self = s.self := evalArgs_self ha
  have h2 : s2.self = some f := by rw [exec_self hb ho, enter_static_self d' f _ s1 hst]
  have h3 : s2.locals = s2.statics f := by simp [St.locals, h2]
  refine ⟨s1, avs, s2, o, ha, hb, ho, hs', h1, h2, h3, ?_⟩
  intro hc
  rw [hs', h3]
  rcases hc with hc | hc
  · rw [writeBack_statics_of_no_local_ref _ _ _ _ _ hc]
  · exact writeBack_statics_other f _ _ _ _ _ (by simpa [h1] using hc)

/-- `static_persists`: the next call of `f` (from any state whose block of `f` is still the one the previous call left,
with any argument values) starts with every non-parameter variable — other than the result variable of a FUNCTION, which
starts at zero — holding the value it had when the body of the previous call ended -/
theorem static_persists {P : Program} {fuel f : Nat} {args : Args} {s s' : St} {v : Val} {d : ProcDecl Stmt}
    (hd : P.procs[f]? = some d) (hst : d.static = true) (h : call P (fuel + 1) f args s = (s', .ok v))
    (hc : NoLocalRef args ∨ s.self ≠ some f) :
    ∃ s1 avs s2 o, evalArgs P fuel args s = (s1, .ok avs) ∧
      exec P fuel d.body (enter d f (avs.map (·.1)) s1) = (s2, o) ∧ returns o = true ∧
      ∀ (t : St) (vals' : List Val) (x : Nat), t.statics f = s'.statics f → vals'.length ≤ x →
        (x ≠ d.resultSlot ∨ d.result = none) → (enter d f vals' t).locals[x]? = s2.locals[x]? := by
  obtain ⟨s1, avs, s2, o, ha, hb, ho, hs', h1, h2, h3, h4⟩ := static_exit hd hst h
  refine ⟨s1, avs, s2, o, ha, hb, ho, ?_⟩
  intro t vals' x ht hx hxr
  rw [enter_static_locals d f vals' t hst x hxr, rebind_keeps _ _ _ hx, ht, h4 hc]

/-! ### an ordinary procedure: fresh variables and fresh arrays for every activation -/

/-- an ordinary (non-STATIC) procedure starts every activation — a recursive one too — on a fresh environment: the
parameters hold the argument values, every other slot zero / the empty string; the activation is not a STATIC one -/
theorem enter_fresh_locals (d : ProcDecl Stmt) (f : Nat) (vals : List Val) (s : St) (h : d.static = false) :
    (enter d f vals s).locals = freshEnv d.slots vals ∧ (enter d f vals s).self = none := by
  have he : enter d f vals s = enterCore d f vals s := by simp [enter, h]
  rw [he]
  simp [enterCore, h, St.locals]

/-- the parameters are bound to the argument values -/
theorem freshEnv_param (slots : List Ty) (vals : List Val) (x : Nat) (h : x < vals.length) :
    (freshEnv slots vals)[x]? = vals[x]? := by
  unfold freshEnv
  rw [List.getElem?_append_left h]

/-- every non-parameter variable of a fresh environment is zero / the empty string — whatever the previous activation
of the same procedure left -/
theorem freshEnv_zero (slots : List Ty) (vals : List Val) (x : Nat) (t : Ty) (h : vals.length ≤ x)
    (ht : slots[x]? = some t) : (freshEnv slots vals)[x]? = some (zeroOf t) := by
  unfold freshEnv
  rw [List.getElem?_append_right h, List.getElem?_map, List.getElem?_drop]
  have : vals.length + (x - vals.length) = x := by omega
  rw [this, ht]; rfl

/-- `locals_fresh_per_activation` at the level of the reference semantics: the start state of an ordinary procedure does
not depend on the caller's variables, on the STATIC blocks or on any earlier activation: it is a function of the
declaration and the argument values alone -/
theorem locals_fresh_per_activation (d : ProcDecl Stmt) (f : Nat) (vals : List Val) (s t : St) (h : d.static = false) :
    (enter d f vals s).locals = (enter d f vals t).locals ∧ (enter d f vals s).arrs = (enter d f vals t).arrs := by
  have he : ∀ u : St, enter d f vals u = enterCore d f vals u := by intro u; simp [enter, h]
  rw [he, he]
  simp [enterCore, h, St.locals]

/-- every array of a procedure is undimensioned when an activation starts (STATIC or not): a callee cannot name an array
of its caller -/
theorem enter_arrs (d : ProcDecl Stmt) (f : Nat) (vals : List Val) (s : St) :
    (enter d f vals s).arrs = d.arrs.map fun _ => none := by
  have hc : (enterCore d f vals s).arrs = d.arrs.map fun _ => none := by
    unfold enterCore; split <;> rfl
  unfold enter
  split
  · rw [RbThm.ProcArrBounds.set_arrs]; exact hc
  · exact hc

/-! ### the result of a FUNCTION that assigns nothing to its name -/

/-- the result variable of a FUNCTION at the start of the body: zero / the empty string, or (slot table too short) not
there at all — for a STATIC function by the reset in `enter`, for an ordinary one because the fresh environment is
zero outside the parameters (`hsl`: the slot after the parameters is the result variable, of the result type) -/
theorem enter_result_slot (d : ProcDecl Stmt) (f : Nat) (vals : List Val) (s : St) (rt : Ty) (hr : d.result = some rt)
    (hsl : d.slots[d.params.length]? = some rt) (hlen : vals.length = d.params.length) :
    (enter d f vals s).locals[d.resultSlot]? = some (zeroOf rt) ∨ (enter d f vals s).locals[d.resultSlot]? = none := by
  cases hs : d.static with
  | true =>
    rw [enter_static_function_locals d f vals s hs rt hr]
    by_cases hlt : d.resultSlot < (rebind (s.statics f) vals).length
    · left; exact List.getElem?_set_self hlt
    · right; simp only [List.getElem?_eq_none_iff, List.length_set]; omega
  | false =>
    left
    rw [(enter_fresh_locals d f vals s hs).1]
    exact freshEnv_zero d.slots vals d.resultSlot rt (by simp only [ProcDecl.resultSlot]; omega) hsl

/-- `function_result_default`: a call of a FUNCTION (STATIC or not) whose body leaves the result variable as it found
it ("assigns nothing to its name", stated semantically: `hkeep`) yields zero / the empty string.  `hsl`: the slot after
the parameters is the result variable (`SlotsOk`); `hlen`: as many argument values as parameters -/
theorem function_result_default {P : Program} {fuel f : Nat} {args : Args} {s s' : St} {v : Val} {d : ProcDecl Stmt}
    {rt : Ty} (hd : P.procs[f]? = some d) (hr : d.result = some rt) (hsl : d.slots[d.params.length]? = some rt)
    (h : call P (fuel + 1) f args s = (s', .ok v))
    (hlen : ∀ s1 avs, evalArgs P fuel args s = (s1, .ok avs) → avs.length = d.params.length)
    (hkeep : ∀ s1 avs s2 o, evalArgs P fuel args s = (s1, .ok avs) →
      exec P fuel d.body (enter d f (avs.map (·.1)) s1) = (s2, o) →
      s2.locals[d.resultSlot]? = (enter d f (avs.map (·.1)) s1).locals[d.resultSlot]?) :
    v = zeroOf rt := by
  obtain ⟨d', s1, avs, s2, o, hd', ha, hb, ho, -, hv⟩ := call_ok_unfold h
  have : d' = d := by rw [hd] at hd'; exact (Option.some.inj hd').symm
  subst this
  rw [hr] at hv
  simp only at hv
  rw [hv, List.getD_eq_getElem?_getD, hkeep s1 avs s2 o ha hb]
  rcases enter_result_slot d' f (avs.map (·.1)) s1 rt hr hsl (by rw [List.length_map]; exact hlen s1 avs ha) with e | e <;>
    rw [e] <;> rfl


/-! ## the frame theorem: what does not call `f` does not touch `f`'s block -/

mutual
/-- every call inside the expression is a call of a procedure of `N` -/
def callsOnlyE (N : Nat → Bool) : ProcArr.Expr → Bool
  | .lit _ _ => true
  | .var _ _ _ => true
  | .un _ e _ => callsOnlyE N e
  | .bin _ l r _ _ => callsOnlyE N l && callsOnlyE N r
  | .paren e _ => callsOnlyE N e
  | .callFn g args _ _ => N g && callsOnlyA N args
  | .elem _ idx _ _ => callsOnlyX N idx
def callsOnlyX (N : Nat → Bool) : Exprs → Bool
  | .nil => true
  | .cons e rest => callsOnlyE N e && callsOnlyX N rest
def callsOnlyA (N : Nat → Bool) : Args → Bool
  | .nil => true
  | .cons e _ _ rest => callsOnlyE N e && callsOnlyA N rest
end


def callsOnlyItem (N : Nat → Bool) : PrintItem → Bool
  | .expr e => callsOnlyE N e
  | .comma => true
  | .semicolon => true

def callsOnlyItems (N : Nat → Bool) : List PrintItem → Bool
  | [] => true
  | i :: rest => callsOnlyItem N i && callsOnlyItems N rest

def callsOnlyCase (N : Nat → Bool) : CaseExpr → Bool
  | .simple e => callsOnlyE N e
  | .is _ e => callsOnlyE N e
  | .range lo hi => callsOnlyE N lo && callsOnlyE N hi

def callsOnlyConds (N : Nat → Bool) : List CaseExpr → Bool
  | [] => true
  | c :: rest => callsOnlyCase N c && callsOnlyConds N rest

def callsOnlyStep (N : Nat → Bool) : Option ProcArr.Expr → Bool
  | none => true
  | some se => callsOnlyE N se

def callsOnlyD (N : Nat → Bool) : Dims → Bool
  | .nil => true
  | .cons lo hi rest => callsOnlyStep N lo && callsOnlyE N hi && callsOnlyD N rest

mutual
def callsOnlyS (N : Nat → Bool) : Stmt → Bool
  | .skip => true
  | .seq a b => callsOnlyS N a && callsOnlyS N b
  | .assign _ _ e _ => callsOnlyE N e
  | .dimArr _ _ dims _ => callsOnlyD N dims
  | .assignElem _ _ idx e _ => callsOnlyX N idx && callsOnlyE N e
  | .print items _ => callsOnlyItems N items
  | .read _ _ _ => true
  | .ifs c thn els _ => callsOnlyE N c && callsOnlyS N thn && callsOnlyS N els
  | .select e cases _ => callsOnlyE N e && callsOnlyC N cases
  | .forLoop _ _ lo hi step body _ => callsOnlyE N lo && callsOnlyE N hi && callsOnlyStep N step && callsOnlyS N body
  | .while c body _ => callsOnlyE N c && callsOnlyS N body
  | .doLoop c _ _ body _ => callsOnlyE N c && callsOnlyS N body
  | .end_ _ => true
  | .callSub g args _ => N g && callsOnlyA N args
  | .exitProc _ => true
def callsOnlyC (N : Nat → Bool) : Cases → Bool
  | .nil => true
  | .else_ body => callsOnlyS N body
  | .case conds body rest => callsOnlyConds N conds && callsOnlyS N body && callsOnlyC N rest
end

/-- the bodies of the procedures of `N` call only procedures of `N` -/
def ClosedUnder (P : Program) (N : Nat → Bool) : Prop :=
  ∀ g d, N g = true → P.procs[g]? = some d → callsOnlyS N d.body = true

/-- the invariant the frame theorem propagates: `f`'s block is `B` and the activation is not `f`'s -/
def Inv (f : Nat) (B : List Val) (s : St) : Prop := s.statics f = B ∧ s.self ≠ some f

theorem liftR_fst (s : St) (p : Pos) (r : Res Val) : (liftR s p r).1 = s := by
  cases r <;> rfl

theorem Inv.set {f : Nat} {B : List Val} {s : St} (h : Inv f B s) (x : Var) (v : Val) : Inv f B (s.set x v) :=
  ⟨by rw [statics_other s x v f (Or.inr h.2)]; exact h.1, by rw [set_self]; exact h.2⟩

theorem Inv.setElem {f : Nat} {B : List Val} {s : St} (h : Inv f B s) (a : Nat) (is : List Int) (v : Val) :
    Inv f B (s.setElem a is v) := ⟨by rw [setElem_statics]; exact h.1, by rw [setElem_self]; exact h.2⟩

theorem Inv.setArr {f : Nat} {B : List Val} {s : St} (h : Inv f B s) (a : Nat) (A : RArr) : Inv f B (s.setArr a A) := h

theorem inv_setArr {f : Nat} {B : List Val} {s : St} (a : Nat) (A : RArr) : Inv f B (s.setArr a A) ↔ Inv f B s := Iff.rfl

theorem inv_setElem {f : Nat} {B : List Val} {s : St} (a : Nat) (is : List Int) (v : Val) :
    Inv f B (s.setElem a is v) ↔ Inv f B s := by
  unfold Inv; rw [setElem_statics, setElem_self]

theorem Inv.out {f : Nat} {B : List Val} {s : St} (h : Inv f B s) (o : Print.WritePrinter) :
    Inv f B { s with out := o } := h

theorem Inv.dataIdx {f : Nat} {B : List Val} {s : St} (h : Inv f B s) (i : Nat) : Inv f B { s with dataIdx := i } := h

theorem Inv.writeBack {f : Nat} {B : List Val} {s : St} (h : Inv f B s) (args : Args) (avs : List (Val × Option Loc))
    (i : Nat) (callee : List Val) : Inv f B (writeBack args avs i callee s) :=
  ⟨by rw [writeBack_statics_other f args avs i callee s h.2]; exact h.1, by rw [writeBack_self]; exact h.2⟩

/-- entering another procedure keeps `f`'s block and does not make the activation `f`'s -/
theorem Inv.enterCore {f : Nat} {B : List Val} {s : St} (h : Inv f B s) (d : ProcDecl Stmt) (g : Nat) (vals : List Val)
    (hg : g ≠ f) : Inv f B (enterCore d g vals s) := by
  have hfg : f ≠ g := fun e => hg e.symm
  unfold RbModel.ProcArr.Ref.enterCore
  split
  · exact ⟨by simp [hfg]; exact h.1, by simp [hg]⟩
  · exact ⟨h.1, by simp⟩

/-- entering another procedure keeps `f`'s block and does not make the activation `f`'s -/
theorem Inv.enter {f : Nat} {B : List Val} {s : St} (h : Inv f B s) (d : ProcDecl Stmt) (g : Nat) (vals : List Val)
    (hg : g ≠ f) : Inv f B (enter d g vals s) := by
  unfold RbModel.ProcArr.Ref.enter
  split
  · exact (h.enterCore d g vals hg).set _ _
  · exact h.enterCore d g vals hg

/-- the frame statement for one amount of fuel: started in an activation that is not `f`'s with `f`'s block = `B`, on
syntax that calls only procedures of `N`, every function of the reference semantics ends — whatever the result — in
such a state -/
structure FrameIH (P : Program) (N : Nat → Bool) (f : Nat) (B : List Val) (n : Nat) : Prop where
  eval : ∀ e s, callsOnlyE N e = true → Inv f B s → Inv f B (ProcArr.Ref.eval P n e s).1
  evalTo : ∀ e t s, callsOnlyE N e = true → Inv f B s → Inv f B (ProcArr.Ref.evalTo P n e t s).1
  evalIdx : ∀ idx s, callsOnlyX N idx = true → Inv f B s → Inv f B (ProcArr.Ref.evalIdx P n idx s).1
  evalElem : ∀ a idx p s, callsOnlyX N idx = true → Inv f B s → Inv f B (ProcArr.Ref.evalElem P n a idx p s).1
  evalArg : ∀ e t s, callsOnlyE N e = true → Inv f B s → Inv f B (ProcArr.Ref.evalArg P n e t s).1
  evalDims : ∀ d s, callsOnlyD N d = true → Inv f B s → Inv f B (ProcArr.Ref.evalDims P n d s).1
  evalArgs : ∀ a s, callsOnlyA N a = true → Inv f B s → Inv f B (ProcArr.Ref.evalArgs P n a s).1
  call : ∀ g a s, N g = true → callsOnlyA N a = true → Inv f B s → Inv f B (ProcArr.Ref.call P n g a s).1
  printItems : ∀ items s, callsOnlyItems N items = true → Inv f B s → Inv f B (ProcArr.Ref.printItems P n items s).1
  evalCond : ∀ c s, callsOnlyE N c = true → Inv f B s → Inv f B (ProcArr.Ref.evalCond P n c s).1
  caseMatches : ∀ p subj c s, callsOnlyCase N c = true → Inv f B s → Inv f B (ProcArr.Ref.caseMatches P n p subj c s).1
  anyMatches : ∀ p subj cs s, callsOnlyConds N cs = true → Inv f B s → Inv f B (ProcArr.Ref.anyMatches P n p subj cs s).1
  exec : ∀ st s, callsOnlyS N st = true → Inv f B s → Inv f B (ProcArr.Ref.exec P n st s).1
  execCases : ∀ p subj cs s, callsOnlyC N cs = true → Inv f B s → Inv f B (ProcArr.Ref.execCases P n p subj cs s).1
  forIter : ∀ x t hh sv up body p s, callsOnlyS N body = true → Inv f B s → Inv f B (ProcArr.Ref.forIter P n x t hh sv up body p s).1

theorem FrameIH.evalq {P : Program} {N : Nat → Bool} {f n : Nat} {B : List Val} (ih : FrameIH P N f B n) :
    ∀ e s s' r, ProcArr.Ref.eval P n e s = (s', r) → callsOnlyE N e = true → Inv f B s → Inv f B s' := by
  intro e s s' r h hc hs
  have := ih.eval e s hc hs
  rw [h] at this; exact this

theorem FrameIH.evalToq {P : Program} {N : Nat → Bool} {f n : Nat} {B : List Val} (ih : FrameIH P N f B n) :
    ∀ e t s s' r, ProcArr.Ref.evalTo P n e t s = (s', r) → callsOnlyE N e = true → Inv f B s → Inv f B s' := by
  intro e t s s' r h hc hs
  have := ih.evalTo e t s hc hs
  rw [h] at this; exact this

theorem FrameIH.evalIdxq {P : Program} {N : Nat → Bool} {f n : Nat} {B : List Val} (ih : FrameIH P N f B n) :
    ∀ idx s s' r, ProcArr.Ref.evalIdx P n idx s = (s', r) → callsOnlyX N idx = true → Inv f B s → Inv f B s' := by
  intro idx s s' r h hc hs
  have := ih.evalIdx idx s hc hs
  rw [h] at this; exact this

theorem FrameIH.evalElemq {P : Program} {N : Nat → Bool} {f n : Nat} {B : List Val} (ih : FrameIH P N f B n) :
    ∀ a idx p s s' r, ProcArr.Ref.evalElem P n a idx p s = (s', r) → callsOnlyX N idx = true → Inv f B s → Inv f B s' := by
  intro a idx p s s' r h hc hs
  have := ih.evalElem a idx p s hc hs
  rw [h] at this; exact this

theorem FrameIH.evalArgq {P : Program} {N : Nat → Bool} {f n : Nat} {B : List Val} (ih : FrameIH P N f B n) :
    ∀ e t s s' r, ProcArr.Ref.evalArg P n e t s = (s', r) → callsOnlyE N e = true → Inv f B s → Inv f B s' := by
  intro e t s s' r h hc hs
  have := ih.evalArg e t s hc hs
  rw [h] at this; exact this

theorem FrameIH.evalDimsq {P : Program} {N : Nat → Bool} {f n : Nat} {B : List Val} (ih : FrameIH P N f B n) :
    ∀ d s s' r, ProcArr.Ref.evalDims P n d s = (s', r) → callsOnlyD N d = true → Inv f B s → Inv f B s' := by
  intro d s s' r h hc hs
  have := ih.evalDims d s hc hs
  rw [h] at this; exact this

theorem FrameIH.evalArgsq {P : Program} {N : Nat → Bool} {f n : Nat} {B : List Val} (ih : FrameIH P N f B n) :
    ∀ a s s' r, ProcArr.Ref.evalArgs P n a s = (s', r) → callsOnlyA N a = true → Inv f B s → Inv f B s' := by
  intro a s s' r h hc hs
  have := ih.evalArgs a s hc hs
  rw [h] at this; exact this

theorem FrameIH.callq {P : Program} {N : Nat → Bool} {f n : Nat} {B : List Val} (ih : FrameIH P N f B n) :
    ∀ g a s s' r, ProcArr.Ref.call P n g a s = (s', r) → N g = true → callsOnlyA N a = true → Inv f B s → Inv f B s' := by
  intro g a s s' r h hg hc hs
  have := ih.call g a s hg hc hs
  rw [h] at this; exact this

theorem FrameIH.printItemsq {P : Program} {N : Nat → Bool} {f n : Nat} {B : List Val} (ih : FrameIH P N f B n) :
    ∀ items s s' r, ProcArr.Ref.printItems P n items s = (s', r) → callsOnlyItems N items = true → Inv f B s → Inv f B s' := by
  intro items s s' r h hc hs
  have := ih.printItems items s hc hs
  rw [h] at this; exact this

theorem FrameIH.evalCondq {P : Program} {N : Nat → Bool} {f n : Nat} {B : List Val} (ih : FrameIH P N f B n) :
    ∀ c s s' r, ProcArr.Ref.evalCond P n c s = (s', r) → callsOnlyE N c = true → Inv f B s → Inv f B s' := by
  intro c s s' r h hc hs
  have := ih.evalCond c s hc hs
  rw [h] at this; exact this

theorem FrameIH.caseMatchesq {P : Program} {N : Nat → Bool} {f n : Nat} {B : List Val} (ih : FrameIH P N f B n) :
    ∀ p subj c s s' r, ProcArr.Ref.caseMatches P n p subj c s = (s', r) → callsOnlyCase N c = true → Inv f B s → Inv f B s' := by
  intro p subj c s s' r h hc hs
  have := ih.caseMatches p subj c s hc hs
  rw [h] at this; exact this

theorem FrameIH.anyMatchesq {P : Program} {N : Nat → Bool} {f n : Nat} {B : List Val} (ih : FrameIH P N f B n) :
    ∀ p subj cs s s' r, ProcArr.Ref.anyMatches P n p subj cs s = (s', r) → callsOnlyConds N cs = true → Inv f B s → Inv f B s' := by
  intro p subj cs s s' r h hc hs
  have := ih.anyMatches p subj cs s hc hs
  rw [h] at this; exact this

theorem FrameIH.execq {P : Program} {N : Nat → Bool} {f n : Nat} {B : List Val} (ih : FrameIH P N f B n) :
    ∀ st s s' r, ProcArr.Ref.exec P n st s = (s', r) → callsOnlyS N st = true → Inv f B s → Inv f B s' := by
  intro st s s' r h hc hs
  have := ih.exec st s hc hs
  rw [h] at this; exact this

theorem FrameIH.execCasesq {P : Program} {N : Nat → Bool} {f n : Nat} {B : List Val} (ih : FrameIH P N f B n) :
    ∀ p subj cs s s' r, ProcArr.Ref.execCases P n p subj cs s = (s', r) → callsOnlyC N cs = true → Inv f B s → Inv f B s' := by
  intro p subj cs s s' r h hc hs
  have := ih.execCases p subj cs s hc hs
  rw [h] at this; exact this

theorem FrameIH.forIterq {P : Program} {N : Nat → Bool} {f n : Nat} {B : List Val} (ih : FrameIH P N f B n) :
    ∀ x t hh sv up body p s s' r, ProcArr.Ref.forIter P n x t hh sv up body p s = (s', r) → callsOnlyS N body = true → Inv f B s → Inv f B s' := by
  intro x t hh sv up body p s s' r h hc hs
  have := ih.forIter x t hh sv up body p s hc hs
  rw [h] at this; exact this

/- after unfolding one step: split every `match` / `if`, then chain the invariant through the equations (`ih` is the
induction hypothesis of the enclosing step lemma) -/
set_option hygiene false in
local macro "frame_tac" : tactic => `(tactic|
  ((repeat' split) <;> (try dsimp only) <;> (try simp only [liftR_fst, inv_setArr, inv_setElem]) <;>
    solve_by_elim (maxDepth := 16) [ih.eval, ih.evalTo, ih.evalIdx, ih.evalElem, ih.evalArg, ih.evalDims, ih.evalIdxq, ih.evalElemq, ih.evalArgq, ih.evalDimsq, ih.evalArgs, ih.call, ih.printItems, ih.evalCond, ih.caseMatches, ih.anyMatches, ih.exec, ih.execCases, ih.forIter,
      ih.evalq, ih.evalToq, ih.evalArgsq, ih.callq, ih.printItemsq, ih.evalCondq, ih.caseMatchesq, ih.anyMatchesq, ih.execq, ih.execCasesq, ih.forIterq,
      Inv.set, Inv.out, Inv.dataIdx]))

theorem fstep_eval {P : Program} {N : Nat → Bool} {f n : Nat} {B : List Val} (hN : N f = false)
    (hcl : ClosedUnder P N) (ih : FrameIH P N f B n) :
    ∀ e s, callsOnlyE N e = true → Inv f B s → Inv f B (ProcArr.Ref.eval P (n + 1) e s).1 := by
  intro e s hc hs
  have hc0 := hc
  cases e <;> simp only [ProcArr.Ref.eval] <;> (revert hc; simp only [callsOnlyE, callsOnlyX, callsOnlyD, callsOnlyA, callsOnlyItem, callsOnlyItems, callsOnlyCase, callsOnlyConds, callsOnlyStep, callsOnlyS, callsOnlyC, Bool.and_eq_true, and_imp]; intros) <;> frame_tac

theorem fstep_evalTo {P : Program} {N : Nat → Bool} {f n : Nat} {B : List Val} (hN : N f = false)
    (hcl : ClosedUnder P N) (ih : FrameIH P N f B n) :
    ∀ e t s, callsOnlyE N e = true → Inv f B s → Inv f B (ProcArr.Ref.evalTo P (n + 1) e t s).1 := by
  intro e t s hc hs
  have hc0 := hc
  simp only [evalTo]
  frame_tac

theorem fstep_evalIdx {P : Program} {N : Nat → Bool} {f n : Nat} {B : List Val} (hN : N f = false)
    (hcl : ClosedUnder P N) (ih : FrameIH P N f B n) :
    ∀ idx s, callsOnlyX N idx = true → Inv f B s → Inv f B (ProcArr.Ref.evalIdx P (n + 1) idx s).1 := by
  intro idx s hc hs
  have hc0 := hc
  cases idx <;> simp only [evalIdx] <;> (revert hc; simp only [callsOnlyE, callsOnlyX, callsOnlyD, callsOnlyA, callsOnlyItem, callsOnlyItems, callsOnlyCase, callsOnlyConds, callsOnlyStep, callsOnlyS, callsOnlyC, Bool.and_eq_true, and_imp]; intros) <;> frame_tac

theorem fstep_evalElem {P : Program} {N : Nat → Bool} {f n : Nat} {B : List Val} (hN : N f = false)
    (hcl : ClosedUnder P N) (ih : FrameIH P N f B n) :
    ∀ a idx p s, callsOnlyX N idx = true → Inv f B s → Inv f B (ProcArr.Ref.evalElem P (n + 1) a idx p s).1 := by
  intro a idx p s hc hs
  have hc0 := hc
  simp only [evalElem]
  frame_tac

theorem fstep_evalArg {P : Program} {N : Nat → Bool} {f n : Nat} {B : List Val} (hN : N f = false)
    (hcl : ClosedUnder P N) (ih : FrameIH P N f B n) :
    ∀ e t s, callsOnlyE N e = true → Inv f B s → Inv f B (ProcArr.Ref.evalArg P (n + 1) e t s).1 := by
  intro e t s hc hs
  have hc0 := hc
  cases e with
  | elem a idx t' p =>
    simp only [evalArg]
    have hc' : callsOnlyX N idx = true := by simpa only [callsOnlyE] using hc
    split
    · next s1 o he => exact ih.evalElemq _ _ _ _ _ _ he hc' hs
    · next s1 v is he =>
      have h1 := ih.evalElemq _ _ _ _ _ _ he hc' hs
      split
      · next s2 w hl =>
        have := liftR_fst s1 p (storeCast t' t v); rw [hl] at this; dsimp only at this; subst this; exact h1
      · next s2 o hl =>
        have := liftR_fst s1 p (storeCast t' t v); rw [hl] at this; dsimp only at this; subst this; exact h1
  | lit _ _ => simp only [evalArg]; frame_tac
  | var _ _ _ => simp only [evalArg]; frame_tac
  | un _ _ _ => simp only [evalArg]; frame_tac
  | bin _ _ _ _ _ => simp only [evalArg]; frame_tac
  | paren _ _ => simp only [evalArg]; frame_tac
  | callFn _ _ _ _ => simp only [evalArg]; frame_tac

theorem fstep_evalDims {P : Program} {N : Nat → Bool} {f n : Nat} {B : List Val} (hN : N f = false)
    (hcl : ClosedUnder P N) (ih : FrameIH P N f B n) :
    ∀ d s, callsOnlyD N d = true → Inv f B s → Inv f B (ProcArr.Ref.evalDims P (n + 1) d s).1 := by
  intro d s hc hs
  have hc0 := hc
  cases d with
  | nil => simp only [evalDims]; exact hs
  | cons lo hi rest =>
    cases lo <;> simp only [evalDims] <;> (revert hc; simp only [callsOnlyE, callsOnlyX, callsOnlyD, callsOnlyA, callsOnlyItem, callsOnlyItems, callsOnlyCase, callsOnlyConds, callsOnlyStep, callsOnlyS, callsOnlyC, Bool.and_eq_true, and_imp]; intros) <;> frame_tac

theorem fstep_evalArgs {P : Program} {N : Nat → Bool} {f n : Nat} {B : List Val} (hN : N f = false)
    (hcl : ClosedUnder P N) (ih : FrameIH P N f B n) :
    ∀ a s, callsOnlyA N a = true → Inv f B s → Inv f B (ProcArr.Ref.evalArgs P (n + 1) a s).1 := by
  intro a s hc hs
  have hc0 := hc
  cases a <;> simp only [evalArgs] <;> (revert hc; simp only [callsOnlyE, callsOnlyX, callsOnlyD, callsOnlyA, callsOnlyItem, callsOnlyItems, callsOnlyCase, callsOnlyConds, callsOnlyStep, callsOnlyS, callsOnlyC, Bool.and_eq_true, and_imp]; intros) <;> frame_tac

theorem fstep_call {P : Program} {N : Nat → Bool} {f n : Nat} {B : List Val} (hN : N f = false)
    (hcl : ClosedUnder P N) (ih : FrameIH P N f B n) :
    ∀ g a s, N g = true → callsOnlyA N a = true → Inv f B s → Inv f B (ProcArr.Ref.call P (n + 1) g a s).1 := by
  intro g a s hg hc hs
  have hgf : g ≠ f := by intro e; subst e; rw [hN] at hg; exact absurd hg (by simp)
  simp only [call]
  split
  · exact hs
  · next d hd =>
    split
    · next s1 o ha => exact ih.evalArgsq _ _ _ _ ha hc hs
    · next s1 vals ha =>
      have a1 : Inv f B s1 := ih.evalArgsq _ _ _ _ ha hc hs
      have b1 := ih.exec d.body _ (hcl g d hg hd) (a1.enter d g (vals.map (·.1)) hgf)
      generalize exec P n d.body (enter d g (vals.map (·.1)) s1) = rb at b1 ⊢
      obtain ⟨s2, o⟩ := rb
      dsimp only at b1 ⊢
      split
      · exact Inv.writeBack (s := { s2 with env := s1.env, self := s1.self, arrs := s1.arrs }) ⟨b1.1, a1.2⟩ _ _ _ _
      · exact b1

theorem fstep_printItems {P : Program} {N : Nat → Bool} {f n : Nat} {B : List Val} (hN : N f = false)
    (hcl : ClosedUnder P N) (ih : FrameIH P N f B n) :
    ∀ items s, callsOnlyItems N items = true → Inv f B s → Inv f B (ProcArr.Ref.printItems P (n + 1) items s).1 := by
  intro items s hc hs
  have hc0 := hc
  match items with
  | [] => simp only [printItems]; revert hc; simp only [callsOnlyE, callsOnlyX, callsOnlyD, callsOnlyA, callsOnlyItem, callsOnlyItems, callsOnlyCase, callsOnlyConds, callsOnlyStep, callsOnlyS, callsOnlyC, Bool.and_eq_true, and_imp]; intros; frame_tac
  | .comma :: rest => simp only [printItems]; revert hc; simp only [callsOnlyE, callsOnlyX, callsOnlyD, callsOnlyA, callsOnlyItem, callsOnlyItems, callsOnlyCase, callsOnlyConds, callsOnlyStep, callsOnlyS, callsOnlyC, Bool.and_eq_true, and_imp]; intros; frame_tac
  | .semicolon :: rest => simp only [printItems]; revert hc; simp only [callsOnlyE, callsOnlyX, callsOnlyD, callsOnlyA, callsOnlyItem, callsOnlyItems, callsOnlyCase, callsOnlyConds, callsOnlyStep, callsOnlyS, callsOnlyC, Bool.and_eq_true, and_imp]; intros; frame_tac
  | .expr e :: rest => simp only [printItems]; revert hc; simp only [callsOnlyE, callsOnlyX, callsOnlyD, callsOnlyA, callsOnlyItem, callsOnlyItems, callsOnlyCase, callsOnlyConds, callsOnlyStep, callsOnlyS, callsOnlyC, Bool.and_eq_true, and_imp]; intros; frame_tac

theorem fstep_evalCond {P : Program} {N : Nat → Bool} {f n : Nat} {B : List Val} (hN : N f = false)
    (hcl : ClosedUnder P N) (ih : FrameIH P N f B n) :
    ∀ c s, callsOnlyE N c = true → Inv f B s → Inv f B (ProcArr.Ref.evalCond P (n + 1) c s).1 := by
  intro c s hc hs
  have hc0 := hc
  simp only [evalCond]
  frame_tac

theorem fstep_caseMatches {P : Program} {N : Nat → Bool} {f n : Nat} {B : List Val} (hN : N f = false)
    (hcl : ClosedUnder P N) (ih : FrameIH P N f B n) :
    ∀ p subj c s, callsOnlyCase N c = true → Inv f B s → Inv f B (ProcArr.Ref.caseMatches P (n + 1) p subj c s).1 := by
  intro p subj c s hc hs
  have hc0 := hc
  cases c <;> simp only [caseMatches] <;> (revert hc; simp only [callsOnlyE, callsOnlyX, callsOnlyD, callsOnlyA, callsOnlyItem, callsOnlyItems, callsOnlyCase, callsOnlyConds, callsOnlyStep, callsOnlyS, callsOnlyC, Bool.and_eq_true, and_imp]; intros) <;> frame_tac

theorem fstep_anyMatches {P : Program} {N : Nat → Bool} {f n : Nat} {B : List Val} (hN : N f = false)
    (hcl : ClosedUnder P N) (ih : FrameIH P N f B n) :
    ∀ p subj cs s, callsOnlyConds N cs = true → Inv f B s → Inv f B (ProcArr.Ref.anyMatches P (n + 1) p subj cs s).1 := by
  intro p subj cs s hc hs
  have hc0 := hc
  cases cs <;> simp only [anyMatches] <;> (revert hc; simp only [callsOnlyE, callsOnlyX, callsOnlyD, callsOnlyA, callsOnlyItem, callsOnlyItems, callsOnlyCase, callsOnlyConds, callsOnlyStep, callsOnlyS, callsOnlyC, Bool.and_eq_true, and_imp]; intros) <;> frame_tac

theorem fstep_exec {P : Program} {N : Nat → Bool} {f n : Nat} {B : List Val} (hN : N f = false)
    (hcl : ClosedUnder P N) (ih : FrameIH P N f B n) :
    ∀ st s, callsOnlyS N st = true → Inv f B s → Inv f B (ProcArr.Ref.exec P (n + 1) st s).1 := by
  intro st s hc hs
  have hc0 := hc
  cases st <;> simp only [exec] <;> (revert hc; simp only [callsOnlyE, callsOnlyX, callsOnlyD, callsOnlyA, callsOnlyItem, callsOnlyItems, callsOnlyCase, callsOnlyConds, callsOnlyStep, callsOnlyS, callsOnlyC, Bool.and_eq_true, and_imp]; intros) <;> frame_tac

theorem fstep_execCases {P : Program} {N : Nat → Bool} {f n : Nat} {B : List Val} (hN : N f = false)
    (hcl : ClosedUnder P N) (ih : FrameIH P N f B n) :
    ∀ p subj cs s, callsOnlyC N cs = true → Inv f B s → Inv f B (ProcArr.Ref.execCases P (n + 1) p subj cs s).1 := by
  intro p subj cs s hc hs
  have hc0 := hc
  cases cs <;> simp only [execCases] <;> (revert hc; simp only [callsOnlyE, callsOnlyX, callsOnlyD, callsOnlyA, callsOnlyItem, callsOnlyItems, callsOnlyCase, callsOnlyConds, callsOnlyStep, callsOnlyS, callsOnlyC, Bool.and_eq_true, and_imp]; intros) <;> frame_tac

theorem fstep_forIter {P : Program} {N : Nat → Bool} {f n : Nat} {B : List Val} (hN : N f = false)
    (hcl : ClosedUnder P N) (ih : FrameIH P N f B n) :
    ∀ x t hh sv up body p s, callsOnlyS N body = true → Inv f B s → Inv f B (ProcArr.Ref.forIter P (n + 1) x t hh sv up body p s).1 := by
  intro x t hh sv up body p s hc hs
  have hc0 := hc
  simp only [forIter]
  frame_tac

theorem frameIH_all {P : Program} {N : Nat → Bool} {f : Nat} (B : List Val) (hN : N f = false) (hcl : ClosedUnder P N) :
    ∀ n, FrameIH P N f B n
  | 0 => by
    constructor <;> intros <;> simp only [ProcArr.Ref.eval, evalTo, evalIdx, evalElem, evalArg, evalDims, evalArgs, call, printItems, evalCond,
      caseMatches, anyMatches, exec, execCases, forIter] <;> assumption
  | n + 1 =>
    have ih := frameIH_all B hN hcl n
    ⟨fstep_eval hN hcl ih, fstep_evalTo hN hcl ih, fstep_evalIdx hN hcl ih, fstep_evalElem hN hcl ih, fstep_evalArg hN hcl ih, fstep_evalDims hN hcl ih, fstep_evalArgs hN hcl ih, fstep_call hN hcl ih, fstep_printItems hN hcl ih, fstep_evalCond hN hcl ih, fstep_caseMatches hN hcl ih, fstep_anyMatches hN hcl ih, fstep_exec hN hcl ih, fstep_execCases hN hcl ih, fstep_forIter hN hcl ih⟩

/-- the frame theorem: a statement that calls only procedures of `N` (closed under calls, `f ∉ N`), run in an
activation that is not `f`'s, leaves `f`'s block as it is — whatever the outcome -/
theorem statics_frame (P : Program) (N : Nat → Bool) (f : Nat) (hN : N f = false) (hcl : ClosedUnder P N) (fuel : Nat)
    (st : Stmt) (s s' : St) (o : Outcome) (hs : s.self ≠ some f) (hc : callsOnlyS N st = true)
    (h : exec P fuel st s = (s', o)) : s'.statics f = s.statics f :=
  ((frameIH_all (s.statics f) hN hcl fuel).execq st s s' o h hc ⟨rfl, hs⟩).1

/-- … and ends in an activation that is not `f`'s -/
theorem self_frame (P : Program) (N : Nat → Bool) (f : Nat) (hN : N f = false) (hcl : ClosedUnder P N) (fuel : Nat)
    (st : Stmt) (s s' : St) (o : Outcome) (hs : s.self ≠ some f) (hc : callsOnlyS N st = true)
    (h : exec P fuel st s = (s', o)) : s'.self ≠ some f :=
  ((frameIH_all (s.statics f) hN hcl fuel).execq st s s' o h hc ⟨rfl, hs⟩).2

theorem statics_frame_eval (P : Program) (N : Nat → Bool) (f : Nat) (hN : N f = false) (hcl : ClosedUnder P N)
    (fuel : Nat) (e : ProcArr.Expr) (s s' : St) (r : Except Outcome Val) (hs : s.self ≠ some f)
    (hc : callsOnlyE N e = true) (h : ProcArr.Ref.eval P fuel e s = (s', r)) : s'.statics f = s.statics f :=
  ((frameIH_all (s.statics f) hN hcl fuel).evalq e s s' r h hc ⟨rfl, hs⟩).1

theorem statics_frame_call (P : Program) (N : Nat → Bool) (f : Nat) (hN : N f = false) (hcl : ClosedUnder P N)
    (fuel g : Nat) (args : Args) (s s' : St) (r : Except Outcome Val) (hs : s.self ≠ some f) (hg : N g = true)
    (hc : callsOnlyA N args = true) (h : call P fuel g args s = (s', r)) : s'.statics f = s.statics f :=
  ((frameIH_all (s.statics f) hN hcl fuel).callq g args s s' r h hg hc ⟨rfl, hs⟩).1

/-- `static_persists_between`: a call of the STATIC procedure `f` from an activation that is not `f`'s returns; then
ANY statement that (transitively) does not call `f` runs, with any amount of fuel and any outcome; then `f` is entered
again, with any argument values: every non-parameter variable of `f` (other than the result variable of a FUNCTION,
which starts at zero) starts with the value it had when the body of the first call ended -/
theorem static_persists_between {P : Program} {N : Nat → Bool} {fuel f : Nat} {args : Args} {s s' : St} {v : Val}
    {d : ProcDecl Stmt} (hd : P.procs[f]? = some d) (hst : d.static = true)
    (h : call P (fuel + 1) f args s = (s', .ok v)) (hs : s.self ≠ some f)
    (hN : N f = false) (hcl : ClosedUnder P N)
    {k : Nat} {st : Stmt} {t : St} {o' : Outcome} (hc : callsOnlyS N st = true) (hk : exec P k st s' = (t, o')) :
    ∃ s1 avs s2 o, evalArgs P fuel args s = (s1, .ok avs) ∧
      exec P fuel d.body (enter d f (avs.map (·.1)) s1) = (s2, o) ∧ returns o = true ∧
      ∀ (vals' : List Val) (x : Nat), vals'.length ≤ x → (x ≠ d.resultSlot ∨ d.result = none) →
        (enter d f vals' t).locals[x]? = s2.locals[x]? := by
  obtain ⟨s1, vals, s2, o, ha, hb, ho, hp⟩ := static_persists hd hst h (Or.inr hs)
  refine ⟨s1, vals, s2, o, ha, hb, ho, ?_⟩
  intro vals' x hx hxr
  have hs' : s'.self ≠ some f := by rw [call_self h]; exact hs
  exact hp t vals' x (statics_frame P N f hN hcl k st s' t o' hs' hc hk) hx hxr



/-! ## non-vacuity

#### `element_byref_writeback`

    DIM SHARED I% : DIM A%(1 TO 3) : I% = 2 : A%(2) = 7        (the state `demoS`)
    Inc A%(I%)
    SUB Inc (X%) : I% = 3 : X% = X% + 1 : END SUB

The location is resolved when the argument is evaluated (`A%(2)`), the callee then moves `I%`: after the call `A%(2)` is 8
and `A%(3)` is untouched.
-/

private def demoE : Program :=
  { slots := [], gslots := [.int], arrs := [.int], data := [], body := .skip,
    procs :=
      [ { result := none, name := "INC", params := [("X%", .int)], slots := [.int],
          body := .seq (.assign ⟨true, 0⟩ .int (.lit (.int 3) ⟨3, 20⟩) ⟨3, 16⟩)
                    (.assign ⟨false, 0⟩ .int (.bin .plus (.var ⟨false, 0⟩ .int ⟨3, 30⟩) (.lit (.int 1) ⟨3, 35⟩) .int ⟨3, 33⟩) ⟨3, 25⟩),
          pos := ⟨3, 1⟩ } ] }

private def demoArgs : Args :=
  .cons (.elem 0 (.cons (.var ⟨true, 0⟩ .int ⟨2, 7⟩) .nil) .int ⟨2, 5⟩) "X%" .int .nil

private def demoS : St :=
  { St.init demoE with glob := [.int 2], arrs := [some ⟨.int, [(1, 3)], [([2], .int 7)]⟩] }

/-- the hypothesis of `element_byref_writeback` is satisfiable with a non-empty list of element locations (so clause 1
says something), and the call does what the clauses say -/
example : ∃ s' r, call demoE 10 0 demoArgs demoS = (s', .ok r) ∧
    (∃ s1 avs, evalArgs demoE 9 demoArgs demoS = (s1, .ok avs) ∧ elemLocs demoArgs avs 0 = [(0, (0, [2]))]) ∧
    s'.glob = [.int 3] ∧ elemAt demoS 0 [2] = some (.int 7) ∧
    elemAt s' 0 [2] = some (.int 8) ∧ elemAt s' 0 [3] = elemAt demoS 0 [3] :=
  ⟨_, _, rfl, ⟨_, _, rfl, rfl⟩, rfl, rfl, rfl, rfl⟩

/-- … and clause 1 of the theorem itself, instantiated: the location `(0, [2])` holds the callee's final `X%` -/
example : ∃ s' r, call demoE 10 0 demoArgs demoS = (s', .ok r) ∧
    ∃ s2 o, exec demoE 9 (demoE.procs[0]).body (enter (demoE.procs[0]) 0 [.int 7] demoS) = (s2, o) ∧
      elemAt s' 0 [2] = some (s2.locals.getD 0 (zeroOf .int)) := by
  refine ⟨_, _, rfl, ?_⟩
  obtain ⟨d, s1, avs, s2, o, hd, ha, hb, ho, h1, -, -, -⟩ :=
    element_byref_writeback demoE 9 0 demoArgs demoS _ _ rfl
  have e1 : (s1, Except.ok avs) = (demoS, Except.ok [(Val.int 7, some (0, [2]))]) := ha.symm.trans rfl
  obtain ⟨rfl, e2⟩ := Prod.mk.inj e1
  have e3 := Except.ok.inj e2; subst e3
  have e4 : d = demoE.procs[0] := Option.some.inj (hd.symm.trans rfl)
  subst e4
  exact ⟨s2, o, hb, h1 0 0 [2] (by simp [elemLocs, demoArgs]) (by simp [elemLocs, demoArgs])⟩

/-! #### `static_persists_between`

    S : T : S            (main module; T is an ordinary SUB that does not call S)
    SUB S STATIC : C% = C% + 1 : END SUB
    SUB T : D% = 5 : END SUB
-/

private def demoP : Program :=
  { slots := [], gslots := [], arrs := [], data := [],
    body := .skip,
    procs :=
      [ { result := none, name := "S", params := [], slots := [.int],
          body := .assign ⟨false, 0⟩ .int (.bin .plus (.var ⟨false, 0⟩ .int ⟨2, 8⟩) (.lit (.int 1) ⟨2, 13⟩) .int ⟨2, 11⟩) ⟨2, 3⟩,
          pos := ⟨1, 1⟩, static := true },
        { result := none, name := "T", params := [], slots := [.int],
          body := .assign ⟨false, 0⟩ .int (.lit (.int 5) ⟨4, 8⟩) ⟨4, 3⟩, pos := ⟨3, 1⟩ } ] }

/-- the set of procedures that cannot reach `S` (procedure 0): only `T` -/
private def demoN : Nat → Bool := fun g => g == 1

theorem demo_closed : ClosedUnder demoP demoN := by
  intro g d hg hd
  have : g = 1 := by simpa [demoN] using hg
  subst this
  have : d = { result := none, name := "T", params := [], slots := [.int],
               body := .assign ⟨false, 0⟩ .int (.lit (.int 5) ⟨4, 8⟩) ⟨4, 3⟩, pos := ⟨3, 1⟩ } := by
    simpa [demoP] using hd.symm
  subst this
  rfl

/-- the hypotheses of `static_persists_between` are satisfiable: a first call of the STATIC `S` from the main module
returns, then `T` runs, and the theorem yields the persistence statement for every later entry of `S` -/
example : ∃ s' v t o', call demoP 10 0 .nil (St.init demoP) = (s', .ok v) ∧
    exec demoP 10 (.callSub 1 .nil ⟨5, 1⟩) s' = (t, o') ∧
    ∃ s1 avs s2 o, evalArgs demoP 9 .nil (St.init demoP) = (s1, .ok avs) ∧
      exec demoP 9 (.assign ⟨false, 0⟩ .int (.bin .plus (.var ⟨false, 0⟩ .int ⟨2, 8⟩) (.lit (.int 1) ⟨2, 13⟩) .int ⟨2, 11⟩) ⟨2, 3⟩)
        (enter (demoP.procs[0]) 0 (avs.map (·.1)) s1) = (s2, o) ∧ returns o = true ∧
      ∀ (vals' : List Val) (x : Nat), vals'.length ≤ x →
        (x ≠ (demoP.procs[0]).resultSlot ∨ (demoP.procs[0]).result = none) →
        (enter (demoP.procs[0]) 0 vals' t).locals[x]? = s2.locals[x]? := by
  refine ⟨_, _, _, _, rfl, rfl, ?_⟩
  exact static_persists_between (P := demoP) (N := demoN) (f := 0) (d := demoP.procs[0]) rfl rfl rfl (by simp [St.init])
    rfl demo_closed (k := 10) (st := .callSub 1 .nil ⟨5, 1⟩) rfl rfl

/-! #### `function_result_default`

    FUNCTION F% STATIC : END FUNCTION      (assigns nothing to its name)
-/

private def demoF : Program :=
  { slots := [], gslots := [], arrs := [], data := [], body := .skip,
    procs := [ { result := some .int, name := "F%", params := [], slots := [.int], body := .skip, pos := ⟨1, 1⟩,
                 static := true } ] }

example : ∃ s' v, call demoF 5 0 .nil (St.init demoF) = (s', .ok v) ∧ v = .int 0 := by
  refine ⟨_, _, rfl, ?_⟩
  refine function_result_default (P := demoF) (f := 0) (d := demoF.procs[0]) (rt := .int) (fuel := 4) (args := .nil)
    (s := St.init demoF) rfl rfl rfl rfl ?_ ?_
  · intro s1 avs ha
    simp only [evalArgs] at ha
    rw [← (Except.ok.inj (Prod.mk.inj ha).2)]; rfl
  · intro s1 avs s2 o ha hb
    have : s2 = enter (demoF.procs[0]) 0 (avs.map (·.1)) s1 := by
      simp only [demoF, List.getElem_cons_zero, exec] at hb
      exact (Prod.mk.inj hb).1.symm
    rw [this]

/-! #### fresh variables of an ordinary procedure

    SUB T : D% = 5 : END SUB      called twice: the second activation starts with D% = 0 again
-/

example : ∃ s' v, call demoP 10 1 .nil (St.init demoP) = (s', .ok v) ∧
    (enter (demoP.procs[1]) 1 [] s').locals = [.int 0] ∧ (enter (demoP.procs[1]) 1 [] s').self = none := by
  refine ⟨_, _, rfl, ?_⟩
  exact enter_fresh_locals (demoP.procs[1]) 1 [] _ rfl

end RbThm.ProcArrProps
