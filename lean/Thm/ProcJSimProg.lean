import Thm.ProcJProgWf
import Thm.ProcJSimJump
import Thm.ProcJSimStmt
import Thm.ProcJSimSeq
import Thm.ProcJSimExpr
import Thm.ProcJSimCall
import Thm.ProcJSimIf
import Thm.ProcJSimWhile
import Thm.ProcJSimDo
import Thm.ProcJSimSelect
import Thm.ProcJSimFor
import Thm.ProcJSimRead
import Thm.ProcJSimPrint
import Thm.ProcSimProg
/-!
Layer "procedures ∪ jumps", simulation part — the assembly.

1. `stmt_correct`: the statement theorem of the layer.  In a world whose procedures are well formed and placed at their layout
   addresses (`ProcsOk`), for every amount of fuel the hypothesis `IH W fuel` holds: expressions, argument lists, calls and
   statements of every body (main module or procedure), placed anywhere, entered from the first instruction or at a label
   inside, on top of any stacks the activation's invariant allows.  Strong induction on the fuel; every construct is one of the
   case lemmas of the other `Thm/ProcJSim*.lean` files; the one fact of the reference semantics the jump-handling rules need
   (`JumpDepths`) is `jump_depths` of `Thm/ProcJDepths.lean`.

2. Whole programs: `compile` emits the top-level DATA statements of the main module first, then the other top-level statements,
   then `Halt`, then the procedures at their layout addresses; ONE label environment (`envOf prog`: depths from `depthProg`,
   addresses from `addrProg`) serves all scopes.  As in `Thm/JmpLSimProg.lean` the main body of the statement theorem is
   `strip prog.body` (top-level DATA replaced by comments: same desugaring, same code as the hoisted remainder, same tables) placed
   behind the DATA prefix; as in `Thm/ProcSimProg.lean` the procedures' code is where `layout` says (`procs_at`).  The label
   environment is right about the labels of the main body and of every procedure body (`LabAt`) because the keys of both tables
   are the labels of the program (`addrProg_keys`, `depthProg_keys`), which are pairwise distinct (`ProgWf.nodup`).
-/
namespace RbThm.ProcJSim
set_option linter.unusedVariables false
set_option linter.unusedSimpArgs false
open RbModel RbModel.ProcJ RbModel.ProcJ.Compile RbModel.ProcJ.Vm
open RbModel.Num hiding Expr
open RbModel.Ast (Pos)
open RbModel.Proc (Var SlotTabs Expr Args PrintItem CaseExpr ProcDecl zeroOf Sigs sigsOf)
open RbModel.Proc.Compile (Layout Layout.addr sizeExpr sizePush refCount sizeExprTo sizeSubCall sizeItems sizeCaseExpr sizeConds
  sizeExit labelName stepSuffix maxPos)
open RbModel.Proc.Vm (Regs Regs.new Frame CtxState getVar setVar curVars modCur curStatic applyArgs readVars binInstr)
open RbModel.ProcJ.Ref (Outcome Mode Act)
open RbThm.ProcJLen
open RbThm.ProcSim (Scope Collecting TabRel FrameRel topState StatRel)

/-! ### the statement theorem -/

/-- the fact of the reference semantics the jump-handling rules of the compound constructs take as a hypothesis holds in every
world -/
theorem jumpDepths_all (W : World) : JumpDepths W :=
  fun sc labs stmt d e hw fuel A m s s' L h => jump_depths hw h

/-- one more unit of fuel: every statement of the layer, given the hypothesis at all smaller amounts -/
theorem stmt_succ (W : World) (procs : List (ProcDecl SStmt)) (hP : ProcsOk W procs) (fuel : Nat) (ih : IHle W fuel) :
    StmtIH W (fuel + 1) := by
  intro B stmt sfx fd sd off m below s σ hB hc hl hw hen hr hinv
  have ih0 : StmtIH W fuel := ih.self.stmt
  have hjd := jumpDepths_all W
  cases stmt with
  | skip => exact case_skip W B fuel sfx fd sd off m below s σ hen hr
  | comment => exact case_comment W B fuel sfx fd sd off m below s σ hen hr
  | seq a b => exact case_seq W hjd B hB fuel ih0 a b sfx fd sd off m below s σ hc hl hw hen hr hinv
  | dim x t p => exact case_dim W B fuel ih x t p sfx fd sd off m below s σ hc hen hr hw hinv
  | sdim x t p => exact case_sdim W B fuel x t p sfx fd sd off m below s σ hc hen hr hw hinv
  | assign x t e p => exact case_assign W B fuel ih x t e p sfx fd sd off m below s σ hc hen hr hw hinv
  | print items p => exact case_print W B fuel ih items p sfx fd sd off m below s σ hc hw hen hr
  | data items p => simp only [Wf] at hw
  | read vars p => exact case_read W B fuel vars p sfx fd sd off m below s σ hc hw hen hr
  | ifBlock c thn elifs hasElse els p =>
    exact case_if W procs hP B hB fuel ih c thn elifs hasElse els p sfx fd sd off m below s σ hc hl hw hen hr hinv
  | select sel cases hasElse els p =>
    exact case_select W B hB fuel ih hjd sel cases hasElse els p sfx fd sd off m below s σ hc hl hw hen hr hinv
  | forLoop x t lo hi step body p =>
    exact case_for W hjd B hB fuel ih x t lo hi step body p sfx fd sd off m below s σ hc hl hw hen hr hinv
  | «while» c body p => exact case_while W procs hP B hB fuel ih c body p sfx fd sd off m below s σ hc hl hw hen hr hinv
  | doLoop c top u body p => exact case_do W B hB fuel ih c top u body p sfx fd sd off m below s σ hc hl hw hen hr hinv
  | end_ p => exact case_end W B fuel p sfx fd sd off m below s σ hc hen hr
  | callSub f args p => exact case_callSub W B fuel ih f args p sfx fd sd off m below s σ hc hen hr hw hinv
  | exitProc p => exact case_exit W B fuel p sfx fd sd off m below s σ hc hw hen hr hinv
  | label L name p => exact case_label W B fuel L name p sfx fd sd off m below s σ hc hl hen hr
  | goto L p => exact case_goto W B fuel L p sfx fd sd off m below s σ hc hen hr hinv
  | gosub L p => exact case_gosub W B hB fuel ih0 L p sfx fd sd off m below s σ hc hw hen hr hinv
  | ret p => exact case_ret W B fuel p sfx fd sd off m below s σ hc hen hr

/-- one more unit of fuel: expressions, argument lists, calls and statements -/
theorem ih_succ (W : World) (procs : List (ProcDecl SStmt)) (hP : ProcsOk W procs) (fuel : Nat) (ih : IHle W fuel) :
    IH W (fuel + 1) :=
  ⟨expr_correct W fuel ih, args_correct W fuel ih, call_correct W procs hP fuel ih, stmt_succ W procs hP fuel ih⟩

theorem ihle_all (W : World) (procs : List (ProcDecl SStmt)) (hP : ProcsOk W procs) : ∀ fuel, IHle W fuel := by
  intro fuel
  induction fuel with
  | zero =>
    intro f hf
    have : f = 0 := by omega
    subst this
    exact ih_zero W
  | succ n ih =>
    intro f hf
    by_cases h : f ≤ n
    · exact ih f h
    · have : f = n + 1 := by omega
      subst this
      exact ih_succ W procs hP n ih

/-- **the statement theorem of the layer "procedures ∪ jumps"**: in a world whose procedures are well formed and placed at their
layout addresses, for every amount of fuel the code of every well-formed expression, argument list, call and statement — of the
main module or of a procedure body, at any FOR / SELECT depth, entered from its first instruction or at a label inside it, on
top of any stacks the invariant of the running activation allows — does on the VM model what `ProcJ.Ref` prescribes (`ExprPost`,
`ArgsPost`, `CallPost`, `StmtPost`).  No bound on program size, nesting, recursion depth, pending GOSUBs or run length. -/
theorem stmt_correct (W : World) (procs : List (ProcDecl SStmt)) (hP : ProcsOk W procs) : ∀ fuel, IH W fuel :=
  fun fuel => (ihle_all W procs hP fuel).self

/-! ### the top-level structure of the main module -/

/-- the top-level DATA statements, in program order -/
def datas (body : SStmt) : List SStmt := (topLevel body).filter isData

/-- the other top-level statements, in program order -/
def others (body : SStmt) : List SStmt := (topLevel body).filter (fun s => !isData s)

/-- the body with its top-level DATA statements replaced by comments -/
def strip : SStmt → SStmt
  | .seq a b => .seq (strip a) (strip b)
  | .data _ _ => .comment
  | st => st

theorem compile_eq (prog : SProgram) :
    compile prog =
      compileStmt (layout prog) (envOf prog) "" 0 0 0 (seqOf (datas prog.body ++ others prog.body)) ++ [(.halt, maxPos)] ++
        compileProcs (layout prog) (envOf prog) (sizeStmt (dpOf prog) 0 0 (seqOf (datas prog.body ++ others prog.body)) + 1)
          prog.procs := rfl

/-- induction over the top-level sequence structure of a statement: `seq` nodes, and everything else -/
theorem top_induction {P : SStmt → Prop} (hseq : ∀ a b, P a → P b → P (.seq a b))
    (hatom : ∀ st, (∀ a b, st ≠ .seq a b) → P st) : ∀ st, P st
  | .seq a b => hseq a b (top_induction hseq hatom a) (top_induction hseq hatom b)
  | .skip => hatom _ (by intro a b h; cases h)
  | .comment => hatom _ (by intro a b h; cases h)
  | .dim _ _ _ => hatom _ (by intro a b h; cases h)
  | .sdim _ _ _ => hatom _ (by intro a b h; cases h)
  | .assign _ _ _ _ => hatom _ (by intro a b h; cases h)
  | .print _ _ => hatom _ (by intro a b h; cases h)
  | .data _ _ => hatom _ (by intro a b h; cases h)
  | .read _ _ => hatom _ (by intro a b h; cases h)
  | .ifBlock _ _ _ _ _ _ => hatom _ (by intro a b h; cases h)
  | .select _ _ _ _ _ => hatom _ (by intro a b h; cases h)
  | .forLoop _ _ _ _ _ _ _ => hatom _ (by intro a b h; cases h)
  | .while _ _ _ => hatom _ (by intro a b h; cases h)
  | .doLoop _ _ _ _ _ => hatom _ (by intro a b h; cases h)
  | .end_ _ => hatom _ (by intro a b h; cases h)
  | .callSub _ _ _ => hatom _ (by intro a b h; cases h)
  | .exitProc _ => hatom _ (by intro a b h; cases h)
  | .label _ _ _ => hatom _ (by intro a b h; cases h)
  | .goto _ _ => hatom _ (by intro a b h; cases h)
  | .gosub _ _ => hatom _ (by intro a b h; cases h)
  | .ret _ => hatom _ (by intro a b h; cases h)

theorem others_seq (a b : SStmt) : others (.seq a b) = others a ++ others b := by
  simp only [others, topLevel, List.filter_append]

theorem datas_seq (a b : SStmt) : datas (.seq a b) = datas a ++ datas b := by
  simp only [datas, topLevel, List.filter_append]

/-- an atom of the top-level structure that is neither `skip` nor DATA is its own list of "other" statements -/
theorem atom_cases (st : SStmt) (hns : ∀ a b, st ≠ .seq a b) :
    (st = .skip ∧ others st = [] ∧ datas st = []) ∨ ((∃ items p, st = .data items p) ∧ others st = [] ∧ datas st = [st]) ∨
      (others st = [st] ∧ datas st = [] ∧ strip st = st ∧ isData st = false) := by
  cases st with
  | seq a b => exact absurd rfl (hns a b)
  | skip => left; simp [others, datas, topLevel]
  | data items p => right; left; exact ⟨⟨items, p, rfl⟩, by simp [others, datas, topLevel, isData]⟩
  | _ => right; right; simp [others, datas, topLevel, isData, strip]

/-! ### `seqOf` of an append: code, sizes, tables -/

theorem size_seqOf_append (dp : Dp) (l1 l2 : List SStmt) :
    sizeStmt dp 0 0 (seqOf (l1 ++ l2)) = sizeStmt dp 0 0 (seqOf l1) + sizeStmt dp 0 0 (seqOf l2) := by
  induction l1 with
  | nil => simp [seqOf, sizeStmt]
  | cons a rest ih => simp only [List.cons_append, seqOf, sizeStmt, ih]; omega

theorem code_seqOf_append (lay : Layout) (env : LEnv) (sfx : String) : ∀ (l1 l2 : List SStmt) (off : Nat),
    compileStmt lay env sfx 0 0 off (seqOf (l1 ++ l2)) =
      compileStmt lay env sfx 0 0 off (seqOf l1) ++ compileStmt lay env sfx 0 0 (off + sizeStmt env.dp 0 0 (seqOf l1)) (seqOf l2) := by
  intro l1
  induction l1 with
  | nil => intro l2 off; simp [seqOf, compileStmt, sizeStmt]
  | cons a rest ih =>
    intro l2 off
    simp only [List.cons_append, seqOf, compileStmt, sizeStmt, ih, List.append_assoc, Nat.add_assoc]

theorem addr_seqOf_append (dp : Dp) : ∀ (l1 l2 : List SStmt) (off : Nat),
    addrTable dp 0 0 off (seqOf (l1 ++ l2)) =
      addrTable dp 0 0 off (seqOf l1) ++ addrTable dp 0 0 (off + sizeStmt dp 0 0 (seqOf l1)) (seqOf l2) := by
  intro l1
  induction l1 with
  | nil => intro l2 off; simp [seqOf, addrTable, sizeStmt]
  | cons a rest ih =>
    intro l2 off
    simp only [List.cons_append, seqOf, addrTable, sizeStmt, ih, List.append_assoc, Nat.add_assoc]

theorem depth_seqOf_append : ∀ (l1 l2 : List SStmt),
    depthTable 0 0 (seqOf (l1 ++ l2)) = depthTable 0 0 (seqOf l1) ++ depthTable 0 0 (seqOf l2) := by
  intro l1
  induction l1 with
  | nil => intro l2; simp [seqOf, depthTable]
  | cons a rest ih => intro l2; simp only [List.cons_append, seqOf, depthTable, ih, List.append_assoc]

theorem datas_isData (body : SStmt) : ∀ x ∈ datas body, isData x = true := by
  intro x hx
  simp only [datas, List.mem_filter] at hx
  exact hx.2

theorem addr_datas (dp : Dp) : ∀ (l : List SStmt), (∀ x ∈ l, isData x = true) → ∀ off, addrTable dp 0 0 off (seqOf l) = [] := by
  intro l
  induction l with
  | nil => intro _ off; simp [seqOf, addrTable]
  | cons a rest ih =>
    intro h off
    have ha := h a (by simp)
    cases a <;> simp [isData] at ha
    simp only [seqOf, addrTable, List.nil_append]
    exact ih (fun x hx => h x (by simp [hx])) _

theorem depth_datas : ∀ (l : List SStmt), (∀ x ∈ l, isData x = true) → depthTable 0 0 (seqOf l) = [] := by
  intro l
  induction l with
  | nil => intro _; simp [seqOf, depthTable]
  | cons a rest ih =>
    intro h
    have ha := h a (by simp)
    cases a <;> simp [isData] at ha
    simp only [seqOf, depthTable, List.nil_append]
    exact ih (fun x hx => h x (by simp [hx]))

/-! ### `strip body` against `seqOf (others body)` -/

theorem size_strip (dp : Dp) : ∀ b : SStmt, sizeStmt dp 0 0 (strip b) = sizeStmt dp 0 0 (seqOf (others b)) := by
  refine top_induction ?_ ?_
  · intro a b iha ihb
    rw [others_seq, size_seqOf_append, ← iha, ← ihb]
    simp only [strip, sizeStmt]
  · intro st hns
    rcases atom_cases st hns with ⟨rfl, ho, _⟩ | ⟨⟨items, p, rfl⟩, ho, _⟩ | ⟨ho, _, hs, _⟩
    · rw [ho]; simp [strip, seqOf, sizeStmt]
    · rw [ho]; simp [strip, seqOf, sizeStmt]
    · rw [ho, hs]; simp [seqOf, sizeStmt]

theorem code_strip (lay : Layout) (env : LEnv) (sfx : String) : ∀ (b : SStmt) (off : Nat),
    compileStmt lay env sfx 0 0 off (strip b) = compileStmt lay env sfx 0 0 off (seqOf (others b)) := by
  refine top_induction ?_ ?_
  · intro a b iha ihb off
    rw [others_seq, code_seqOf_append, ← iha, ← ihb, ← size_strip]
    simp only [strip, compileStmt]
  · intro st hns off
    rcases atom_cases st hns with ⟨rfl, ho, _⟩ | ⟨⟨items, p, rfl⟩, ho, _⟩ | ⟨ho, _, hs, _⟩
    · rw [ho]; simp [strip, seqOf, compileStmt]
    · rw [ho]; simp [strip, seqOf, compileStmt]
    · rw [ho, hs]; simp [seqOf, compileStmt]

theorem addr_strip (dp : Dp) : ∀ (b : SStmt) (off : Nat),
    addrTable dp 0 0 off (strip b) = addrTable dp 0 0 off (seqOf (others b)) := by
  refine top_induction ?_ ?_
  · intro a b iha ihb off
    rw [others_seq, addr_seqOf_append, ← iha, ← ihb, ← size_strip]
    simp only [strip, addrTable]
  · intro st hns off
    rcases atom_cases st hns with ⟨rfl, ho, _⟩ | ⟨⟨items, p, rfl⟩, ho, _⟩ | ⟨ho, _, hs, _⟩
    · rw [ho]; simp [strip, seqOf, addrTable]
    · rw [ho]; simp [strip, seqOf, addrTable]
    · rw [ho, hs]; simp [seqOf, addrTable]

theorem depth_strip : ∀ (b : SStmt), depthTable 0 0 (strip b) = depthTable 0 0 b := by
  refine top_induction ?_ ?_
  · intro a b iha ihb
    simp only [strip, depthTable, iha, ihb]
  · intro st hns
    rcases atom_cases st hns with ⟨rfl, _, _⟩ | ⟨⟨items, p, rfl⟩, _, _⟩ | ⟨_, _, hs, _⟩
    · rfl
    · rfl
    · rw [hs]

theorem depth_others : ∀ (b : SStmt), depthTable 0 0 (seqOf (others b)) = depthTable 0 0 b := by
  refine top_induction ?_ ?_
  · intro a b iha ihb
    rw [others_seq, depth_seqOf_append, iha, ihb]
    simp only [depthTable]
  · intro st hns
    rcases atom_cases st hns with ⟨rfl, ho, _⟩ | ⟨⟨items, p, rfl⟩, ho, _⟩ | ⟨ho, _, _, _⟩
    · rw [ho]; rfl
    · rw [ho]; rfl
    · rw [ho]; simp [seqOf, depthTable]

theorem labels_strip : ∀ (b : SStmt), (strip b).labels = b.labels := by
  refine top_induction ?_ ?_
  · intro a b iha ihb
    simp only [strip, SStmt.labels, iha, ihb]
  · intro st hns
    rcases atom_cases st hns with ⟨rfl, _, _⟩ | ⟨⟨items, p, rfl⟩, _, _⟩ | ⟨_, _, hs, _⟩
    · rfl
    · rfl
    · rw [hs]

theorem desugar_strip : ∀ (b : SStmt), desugar (strip b) = desugar b := by
  refine top_induction ?_ ?_
  · intro a b iha ihb
    simp only [strip, desugar, iha, ihb]
  · intro st hns
    rcases atom_cases st hns with ⟨rfl, _, _⟩ | ⟨⟨items, p, rfl⟩, _, _⟩ | ⟨_, _, hs, _⟩
    · rfl
    · rfl
    · rw [hs]

theorem wf_strip (sg : Sigs) (sc : Scope) (dp : Dp) (labs : List Nat) : ∀ (b : SStmt), WfTop sg sc dp labs b →
    Wf sg sc dp labs 0 0 (strip b) := by
  refine top_induction ?_ ?_
  · intro a b iha ihb hw
    simp only [WfTop] at hw
    simp only [strip, Wf]
    exact ⟨iha hw.1, ihb hw.2⟩
  · intro st hns hw
    cases st with
    | seq a b => exact absurd rfl (hns a b)
    | data items p => simp only [strip, Wf]
    | _ => simpa only [WfTop, strip] using hw

/-- the depth table of the reordered body is that of the body -/
theorem depth_reorder (body : SStmt) : depthTable 0 0 (reorder body) = depthTable 0 0 body := by
  show depthTable 0 0 (seqOf (datas body ++ others body)) = _
  rw [depth_seqOf_append, depth_datas _ (datas_isData body), depth_others]
  rfl

theorem dataOf_eq : ∀ body : SStmt, dataOf body = (datas body).flatMap dataOf := by
  refine top_induction ?_ ?_
  · intro a b iha ihb
    simp only [datas] at iha ihb ⊢
    simp only [dataOf, topLevel, List.filter_append, List.flatMap_append, ← iha, ← ihb]
  · intro st hns
    cases st with
    | seq a b => exact absurd rfl (hns a b)
    | data items p => simp [datas, dataOf, topLevel, isData, List.filter]
    | _ => simp [datas, dataOf, topLevel, isData]

/-! ### the label tables under `Wf`: the keys are the labels -/

mutual
theorem addr_keys (sg : Sigs) (sc : Scope) (dp0 : Dp) (labs : List Nat) (dp : Dp) : ∀ (s : SStmt) (d e off : Nat),
    Wf sg sc dp0 labs d e s → (addrTable dp d e off s).map Prod.fst = s.labels
  | .seq a b, d, e, off, h => by
    simp only [addrTable, SStmt.labels, List.map_append, addr_keys sg sc dp0 labs dp a d e _ h.1,
      addr_keys sg sc dp0 labs dp b d e _ h.2]
  | .ifBlock c thn elifs hasElse els p, d, e, off, h => by
    obtain ⟨_, _, h1, h2, h3, h4⟩ := h
    simp only [addrTable, SStmt.labels, List.map_append, addr_keys sg sc dp0 labs dp thn d e _ h1,
      addr_keys_elifs sg sc dp0 labs dp elifs d e _ h2]
    cases hasElse with
    | false => rw [h4 rfl]; simp [SStmt.labels]
    | true => simp [addr_keys sg sc dp0 labs dp els d e _ h3]
  | .select sel cases hasElse els p, d, e, off, h => by
    obtain ⟨_, h1, h2, h3, _⟩ := h
    simp only [addrTable, SStmt.labels, List.map_append, addr_keys_cases sg sc dp0 labs dp cases d (e + 1) _ h1]
    cases hasElse with
    | false => rw [h3 rfl]; simp [SStmt.labels]
    | true => simp [addr_keys sg sc dp0 labs dp els d (e + 1) _ h2]
  | .forLoop x t lo hi step body p, d, e, off, h => by
    obtain ⟨_, _, _, h5, h6, _⟩ := h
    cases step with
    | none => simp only [addrTable, SStmt.labels]; exact addr_keys sg sc dp0 labs dp body (d + 1) e _ h6
    | some se =>
      have hb := (h5 se rfl).2
      simp only [addrTable, SStmt.labels, List.map_append, addr_keys sg sc dp0 labs dp body (d + 1) e _ h6, hb,
        List.append_nil]
  | .while c body p, d, e, off, h => by
    simp only [addrTable, SStmt.labels]; exact addr_keys sg sc dp0 labs dp body d e _ h.2.2
  | .doLoop c top u body p, d, e, off, h => by
    simp only [addrTable, SStmt.labels]
    split <;> exact addr_keys sg sc dp0 labs dp body d e _ h.2.2
  | .label L name p, _, _, _, _ => by simp [addrTable, SStmt.labels]
  | .skip, _, _, _, _ => by simp [addrTable, SStmt.labels]
  | .comment, _, _, _, _ => by simp [addrTable, SStmt.labels]
  | .dim _ _ _, _, _, _, _ => by simp [addrTable, SStmt.labels]
  | .sdim _ _ _, _, _, _, _ => by simp [addrTable, SStmt.labels]
  | .assign _ _ _ _, _, _, _, _ => by simp [addrTable, SStmt.labels]
  | .print _ _, _, _, _, _ => by simp [addrTable, SStmt.labels]
  | .data _ _, _, _, _, _ => by simp [addrTable, SStmt.labels]
  | .read _ _, _, _, _, _ => by simp [addrTable, SStmt.labels]
  | .end_ _, _, _, _, _ => by simp [addrTable, SStmt.labels]
  | .callSub _ _ _, _, _, _, _ => by simp [addrTable, SStmt.labels]
  | .exitProc _, _, _, _, _ => by simp [addrTable, SStmt.labels]
  | .goto _ _, _, _, _, _ => by simp [addrTable, SStmt.labels]
  | .gosub _ _, _, _, _, _ => by simp [addrTable, SStmt.labels]
  | .ret _, _, _, _, _ => by simp [addrTable, SStmt.labels]
theorem addr_keys_elifs (sg : Sigs) (sc : Scope) (dp0 : Dp) (labs : List Nat) (dp : Dp) : ∀ (el : ElseIfs) (d e off : Nat),
    WfElifs sg sc dp0 labs d e el → (addrElifs dp d e off el).map Prod.fst = el.labels
  | .nil, _, _, _, _ => by simp [addrElifs, ElseIfs.labels]
  | .cons c body rest, d, e, off, h => by
    obtain ⟨_, _, h1, h2⟩ := h
    simp only [addrElifs, ElseIfs.labels, List.map_append, addr_keys sg sc dp0 labs dp body d e _ h1,
      addr_keys_elifs sg sc dp0 labs dp rest d e _ h2]
theorem addr_keys_cases (sg : Sigs) (sc : Scope) (dp0 : Dp) (labs : List Nat) (dp : Dp) : ∀ (cs : SCases) (d e off : Nat),
    WfCases sg sc dp0 labs d e cs → (addrCases dp d e off cs).map Prod.fst = cs.labels
  | .nil, _, _, _, _ => by simp [addrCases, SCases.labels]
  | .cons conds body rest, d, e, off, h => by
    obtain ⟨_, _, h1, h2⟩ := h
    simp only [addrCases, SCases.labels, List.map_append, addr_keys sg sc dp0 labs dp body d e _ h1,
      addr_keys_cases sg sc dp0 labs dp rest d e _ h2]
end

mutual
theorem depth_keys : ∀ (s : SStmt) (d e : Nat), (depthTable d e s).map Prod.fst = s.labels
  | .seq a b, d, e => by simp only [depthTable, SStmt.labels, List.map_append, depth_keys a, depth_keys b]
  | .ifBlock c thn elifs hasElse els p, d, e => by
    simp only [depthTable, SStmt.labels, List.map_append, depth_keys thn, depth_keys_elifs elifs, depth_keys els,
      List.append_assoc]
  | .select sel cases hasElse els p, d, e => by
    simp only [depthTable, SStmt.labels, List.map_append, depth_keys_cases cases, depth_keys els]
  | .forLoop x t lo hi step body p, d, e => by simp only [depthTable, SStmt.labels, depth_keys body]
  | .while c body p, d, e => by simp only [depthTable, SStmt.labels, depth_keys body]
  | .doLoop c top u body p, d, e => by simp only [depthTable, SStmt.labels, depth_keys body]
  | .label L name p, _, _ => by simp [depthTable, SStmt.labels]
  | .skip, _, _ => by simp [depthTable, SStmt.labels]
  | .comment, _, _ => by simp [depthTable, SStmt.labels]
  | .dim _ _ _, _, _ => by simp [depthTable, SStmt.labels]
  | .sdim _ _ _, _, _ => by simp [depthTable, SStmt.labels]
  | .assign _ _ _ _, _, _ => by simp [depthTable, SStmt.labels]
  | .print _ _, _, _ => by simp [depthTable, SStmt.labels]
  | .data _ _, _, _ => by simp [depthTable, SStmt.labels]
  | .read _ _, _, _ => by simp [depthTable, SStmt.labels]
  | .end_ _, _, _ => by simp [depthTable, SStmt.labels]
  | .callSub _ _ _, _, _ => by simp [depthTable, SStmt.labels]
  | .exitProc _, _, _ => by simp [depthTable, SStmt.labels]
  | .goto _ _, _, _ => by simp [depthTable, SStmt.labels]
  | .gosub _ _, _, _ => by simp [depthTable, SStmt.labels]
  | .ret _, _, _ => by simp [depthTable, SStmt.labels]
theorem depth_keys_elifs : ∀ (el : ElseIfs) (d e : Nat), (depthElifs d e el).map Prod.fst = el.labels
  | .nil, _, _ => by simp [depthElifs, ElseIfs.labels]
  | .cons c body rest, d, e => by
    simp only [depthElifs, ElseIfs.labels, List.map_append, depth_keys body, depth_keys_elifs rest]
theorem depth_keys_cases : ∀ (cs : SCases) (d e : Nat), (depthCases d e cs).map Prod.fst = cs.labels
  | .nil, _, _ => by simp [depthCases, SCases.labels]
  | .cons conds body rest, d, e => by
    simp only [depthCases, SCases.labels, List.map_append, depth_keys body, depth_keys_cases rest]
end

/-- in an association list without repeated keys every entry is the one a lookup finds -/
theorem lookupNat_of_mem : ∀ (tbl : List (Nat × Nat)), (tbl.map Prod.fst).Nodup → ∀ L a, (L, a) ∈ tbl →
    lookupNat L tbl = some a := by
  intro tbl
  induction tbl with
  | nil => intro _ L a h; simp at h
  | cons x rest ih =>
    intro hn L a hm
    obtain ⟨k, v⟩ := x
    simp only [List.map_cons, List.nodup_cons] at hn
    simp only [lookupNat]
    simp only [List.mem_cons, Prod.mk.injEq] at hm
    rcases hm with ⟨rfl, rfl⟩ | hm
    · simp
    · have : k ≠ L := by
        intro hk; subst hk
        exact hn.1 (List.mem_map.mpr ⟨(k, a), hm, rfl⟩)
      simp only [this, if_false]
      exact ih hn.2 L a hm

theorem lookupDepth_of_mem : ∀ (tbl : List (Nat × Nat × Nat)), (tbl.map Prod.fst).Nodup → ∀ L v, (L, v) ∈ tbl →
    lookupDepth L tbl = some v := by
  intro tbl
  induction tbl with
  | nil => intro _ L a h; simp at h
  | cons x rest ih =>
    intro hn L a hm
    obtain ⟨k, v⟩ := x
    simp only [List.map_cons, List.nodup_cons] at hn
    simp only [lookupDepth]
    simp only [List.mem_cons, Prod.mk.injEq] at hm
    rcases hm with ⟨rfl, rfl⟩ | hm
    · simp
    · have : k ≠ L := by
        intro hk; subst hk
        exact hn.1 (List.mem_map.mpr ⟨(k, a), hm, rfl⟩)
      simp only [this, if_false]
      exact ih hn.2 L a hm

/-! ### the procedures are where the layout says; their labels are in the program's tables -/

theorem procs_at (lay0 : Layout) (env : LEnv) (code : Code) : ∀ (procs : List (ProcDecl SStmt)) (off : Nat),
    CodeAt code off (compileProcs lay0 env off procs) → ∀ (f : Nat) (d : ProcDecl SStmt), procs[f]? = some d →
    CodeAt code ((layoutFrom env.dp off procs).addr f) (compileProc lay0 env ((layoutFrom env.dp off procs).addr f) d)
  | [], _, _, f, d, h => by simp at h
  | d0 :: rest, off, hc, 0, d, h => by
    simp only [List.getElem?_cons_zero, Option.some.injEq] at h
    subst h
    simp only [compileProcs] at hc
    simpa [layoutFrom, Layout.addr] using hc.append_left
  | d0 :: rest, off, hc, f + 1, d, h => by
    simp only [List.getElem?_cons_succ] at h
    simp only [compileProcs] at hc
    have hcr := hc.append_right
    rw [len_proc] at hcr
    have := procs_at lay0 env code rest (off + sizeProc env.dp d0) hcr f d h
    simpa [layoutFrom, Layout.addr] using this

/-- the layout records the STATIC flag of every procedure -/
theorem layoutFrom_static (dp : Dp) : ∀ (procs : List (ProcDecl SStmt)) (off : Nat) (f : Nat) (d : ProcDecl SStmt),
    procs[f]? = some d → ((layoutFrom dp off procs).getD f (0, false)).2 = d.static
  | [], _, f, d, h => by simp at h
  | d0 :: rest, off, 0, d, h => by
    simp only [List.getElem?_cons_zero, Option.some.injEq] at h
    subst h
    simp [layoutFrom]
  | d0 :: rest, off, f + 1, d, h => by
    simp only [List.getElem?_cons_succ] at h
    have := layoutFrom_static dp rest (off + sizeProc dp d0) f d h
    simpa [layoutFrom] using this

/-- the address table of a procedure body placed behind its header is part of the table of the procedures -/
theorem addrProcs_mem (dp : Dp) : ∀ (procs : List (ProcDecl SStmt)) (off : Nat) (f : Nat) (d : ProcDecl SStmt),
    procs[f]? = some d → ∀ x, x ∈ addrTable dp 0 0 ((layoutFrom dp off procs).addr f + headerSize d) d.body →
    x ∈ addrProcs dp off procs
  | [], _, f, d, h => by simp at h
  | d0 :: rest, off, 0, d, h => by
    simp only [List.getElem?_cons_zero, Option.some.injEq] at h
    subst h
    intro x hx
    simp only [addrProcs, List.mem_append]
    left
    simpa [layoutFrom, Layout.addr] using hx
  | d0 :: rest, off, f + 1, d, h => by
    simp only [List.getElem?_cons_succ] at h
    intro x hx
    simp only [addrProcs, List.mem_append]
    right
    refine addrProcs_mem dp rest (off + sizeProc dp d0) f d h x ?_
    simpa [layoutFrom, Layout.addr] using hx

theorem addrProcs_keys (dp : Dp) : ∀ (procs : List (ProcDecl SStmt)) (off : Nat),
    (∀ d ∈ procs, ∃ sg sc dp0 labs, Wf sg sc dp0 labs 0 0 d.body) →
    (addrProcs dp off procs).map Prod.fst = procs.flatMap fun d => d.body.labels
  | [], _, _ => by simp [addrProcs]
  | d0 :: rest, off, h => by
    obtain ⟨sg, sc, dp0, labs, hw⟩ := h d0 (by simp)
    simp only [addrProcs, List.map_append, List.flatMap_cons, addr_keys sg sc dp0 labs dp d0.body 0 0 _ hw,
      addrProcs_keys dp rest _ (fun d hd => h d (by simp [hd]))]

theorem depthProcs_keys : ∀ (procs : List (ProcDecl SStmt)),
    (procs.flatMap fun d => depthTable 0 0 d.body).map Prod.fst = procs.flatMap fun d => d.body.labels
  | [] => by simp
  | d0 :: rest => by
    simp only [List.flatMap_cons, List.map_append, depth_keys, depthProcs_keys rest]

/-! ### the program's tables -/

/-- the size of the hoisted DATA prefix: the address of the first instruction of the main body -/
def dataSize (prog : SProgram) : Nat := sizeStmt (dpOf prog) 0 0 (seqOf (datas prog.body))

/-- the body context of the main module: the body with its DATA statements blanked, behind the DATA prefix -/
def mainBody (prog : SProgram) : BodyCtx := ⟨mainScope prog, strip prog.body, dataSize prog⟩

theorem size_reorder (prog : SProgram) :
    sizeStmt (dpOf prog) 0 0 (reorder prog.body) = dataSize prog + sizeStmt (dpOf prog) 0 0 (strip prog.body) := by
  show sizeStmt (dpOf prog) 0 0 (seqOf (datas prog.body ++ others prog.body)) = _
  rw [size_seqOf_append, ← size_strip]; rfl

theorem addr_reorder (prog : SProgram) :
    addrTable (dpOf prog) 0 0 0 (reorder prog.body) = addrTable (dpOf prog) 0 0 (dataSize prog) (strip prog.body) := by
  show addrTable _ 0 0 0 (seqOf (datas prog.body ++ others prog.body)) = _
  rw [addr_seqOf_append, addr_datas _ _ (datas_isData prog.body), List.nil_append, Nat.zero_add, ← addr_strip]
  rfl

theorem addrProg_eq (prog : SProgram) :
    addrProg prog = addrTable (dpOf prog) 0 0 (dataSize prog) (strip prog.body) ++
      addrProcs (dpOf prog) (sizeStmt (dpOf prog) 0 0 (reorder prog.body) + 1) prog.procs := by
  rw [← addr_reorder]; rfl

theorem depthProg_eq (prog : SProgram) :
    depthProg prog = depthTable 0 0 prog.body ++ prog.procs.flatMap fun d => depthTable 0 0 d.body := by
  unfold depthProg
  rw [depth_reorder]

theorem mem_of_getElem? {α : Type} {l : List α} {i : Nat} {a : α} (h : l[i]? = some a) : a ∈ l :=
  List.mem_of_getElem? h

theorem addrProg_keys (prog : SProgram) (hw : ProgWf prog) : (addrProg prog).map Prod.fst = progLabels prog := by
  rw [addrProg_eq, List.map_append,
    addr_keys _ _ _ _ (dpOf prog) (strip prog.body) 0 0 _ (wf_strip _ _ _ _ _ hw.body), labels_strip,
    addrProcs_keys]
  · rfl
  · intro d hd
    obtain ⟨f, hf⟩ := List.getElem?_of_mem hd
    exact ⟨_, _, _, _, (hw.procs f d hf).2⟩

theorem depthProg_keys (prog : SProgram) : (depthProg prog).map Prod.fst = progLabels prog := by
  rw [depthProg_eq, List.map_append, depth_keys, depthProcs_keys]
  rfl

/-- a statement whose tables are part of the program's tables: the program's label environment is right about its labels -/
theorem labAt_of_mem (prog : SProgram) (hw : ProgWf prog) (d e off : Nat) (st : SStmt)
    (ha : ∀ x, x ∈ addrTable (dpOf prog) d e off st → x ∈ addrProg prog)
    (hd : ∀ x, x ∈ depthTable d e st → x ∈ depthProg prog) : LabAt (envOf prog) d e off st := by
  have hak : ((addrProg prog).map Prod.fst).Nodup := by rw [addrProg_keys prog hw]; exact hw.nodup
  have hdk : ((depthProg prog).map Prod.fst).Nodup := by rw [depthProg_keys prog]; exact hw.nodup
  refine ⟨?_, ?_⟩
  · intro L a hm
    show (lookupNat L (addrProg prog)).getD 0 = a
    rw [lookupNat_of_mem _ hak L a (ha _ hm)]; rfl
  · intro L d' e' hm
    have hl := lookupDepth_of_mem _ hdk L (d', e') (hd _ hm)
    show (dpOf prog).fd L = d' ∧ (dpOf prog).sd L = e'
    simp only [dpOf, Dp.ofTable, hl]
    trivial

/-- the label environment is right about the labels of the main body -/
theorem labAt_main (prog : SProgram) (hw : ProgWf prog) : LabAt (envOf prog) 0 0 (dataSize prog) (strip prog.body) := by
  refine labAt_of_mem prog hw 0 0 _ _ ?_ ?_
  · intro x hx
    rw [addrProg_eq]; exact List.mem_append_left _ hx
  · intro x hx
    rw [depthProg_eq]; rw [depth_strip] at hx; exact List.mem_append_left _ hx

/-- … and about the labels of every procedure body -/
theorem labAt_proc (prog : SProgram) (hw : ProgWf prog) (f : Nat) (d : ProcDecl SStmt) (hd : prog.procs[f]? = some d) :
    LabAt (envOf prog) 0 0 ((layout prog).addr f + headerSize d) d.body := by
  refine labAt_of_mem prog hw 0 0 _ _ ?_ ?_
  · intro x hx
    rw [addrProg_eq]
    exact List.mem_append_right _ (addrProcs_mem (dpOf prog) prog.procs _ f d hd x hx)
  · intro x hx
    rw [depthProg_eq]
    exact List.mem_append_right _ (List.mem_flatMap.mpr ⟨d, List.mem_of_getElem? hd, hx⟩)

/-! ### the world of a program -/

theorem code_all (prog : SProgram) : CodeAt (compile prog) 0
    (compileStmt (layout prog) (envOf prog) "" 0 0 0 (seqOf (datas prog.body ++ others prog.body)) ++ [(.halt, maxPos)] ++
      compileProcs (layout prog) (envOf prog) (sizeStmt (dpOf prog) 0 0 (seqOf (datas prog.body ++ others prog.body)) + 1)
        prog.procs) := by
  intro i _; rw [Nat.zero_add]; rfl

/-- the procedures of a well-formed program are `ProcsOk` in the program's world -/
theorem procsOk_world (prog : SProgram) (hw : ProgWf prog) : ProcsOk (world prog) prog.procs := by
  refine ⟨rfl, rfl, ?_, fun f d hd => layoutFrom_static _ prog.procs _ f d hd,
    fun f d hd => ⟨(hw.procs f d hd).1, (hw.procs f d hd).2, labAt_proc prog hw f d hd⟩⟩
  intro f d hd
  have hcp := (code_all prog).append_right
  simp only [List.length_append, List.length_singleton, len_stmt, Nat.zero_add] at hcp
  exact procs_at (layout prog) (envOf prog) (compile prog) prog.procs _ hcp f d hd

/-- the main body is in place behind the DATA prefix, followed by the `Halt`; it is well formed; the label environment is right
about its labels -/
theorem mainBody_ok (prog : SProgram) (hw : ProgWf prog) : (mainBody prog).Ok (world prog) := by
  have hbody := (code_all prog).append_left.append_left
  rw [code_seqOf_append] at hbody
  have hco := hbody.append_right
  rw [len_stmt, Nat.zero_add, ← code_strip] at hco
  have hhalt := (code_all prog).append_left.append_right.head
  rw [len_stmt, size_seqOf_append, Nat.zero_add, ← size_strip] at hhalt
  refine ⟨hco, ⟨maxPos, hhalt⟩, ?_, labAt_main prog hw, rfl⟩
  show Wf _ _ _ (strip prog.body).labels 0 0 (strip prog.body)
  rw [labels_strip]
  exact wf_strip _ _ _ _ _ hw.body

/-! ### the DATA phase -/

/-- what the code of a DATA statement leaves alone (it changes the program counter, A, the data segment and — temporarily — the
context stack and the stack trace) -/
structure DKeeps (σ τ : Vm) : Prop where
  regStack : τ.regStack = σ.regStack
  vals : τ.vals = σ.vals
  paths : τ.paths = σ.paths
  glob : τ.glob = σ.glob
  statics : τ.statics = σ.statics
  out : τ.out = σ.out
  skipNewline : τ.skipNewline = σ.skipNewline
  dataIdx : τ.dataIdx = σ.dataIdx
  queue : τ.queue = σ.queue
  funRes : τ.funRes = σ.funRes
  rets : τ.rets = σ.rets
  marks : τ.marks = σ.marks
  gosubs : τ.gosubs = σ.gosubs
  trace : τ.trace = σ.trace

theorem DKeeps.refl (σ : Vm) : DKeeps σ σ := ⟨rfl, rfl, rfl, rfl, rfl, rfl, rfl, rfl, rfl, rfl, rfl, rfl, rfl, rfl⟩

theorem DKeeps.trans {a b c : Vm} (h₁ : DKeeps a b) (h₂ : DKeeps b c) : DKeeps a c :=
  ⟨h₂.regStack.trans h₁.regStack, h₂.vals.trans h₁.vals, h₂.paths.trans h₁.paths, h₂.glob.trans h₁.glob,
    h₂.statics.trans h₁.statics, h₂.out.trans h₁.out,
    h₂.skipNewline.trans h₁.skipNewline, h₂.dataIdx.trans h₁.dataIdx, h₂.queue.trans h₁.queue,
    h₂.funRes.trans h₁.funRes, h₂.rets.trans h₁.rets, h₂.marks.trans h₁.marks, h₂.gosubs.trans h₁.gosubs,
    h₂.trace.trans h₁.trace⟩

/-- `(LoadIntoA v; PushUnnamedByVal)*`: the items of a DATA statement join the collecting state -/
theorem data_items (code : Code) (f : Val × Pos → Code)
    (hf : ∀ it, f it = [(CInstr.loadA it.1, it.2), (CInstr.pushByVal, it.2)]) :
    ∀ (items : List (Val × Pos)) (off : Nat) (σ : Vm) (vs : List Val) (rest : List CtxState),
      CodeAt code off (items.flatMap f) → σ.pc = off → σ.ctx = .args vs :: rest →
      ∃ τ, Steps code σ τ ∧ τ.pc = off + 2 * items.length ∧
        τ.ctx = .args (vs ++ items.map (·.1)) :: rest ∧ τ.data = σ.data ∧ DKeeps σ τ := by
  intro items
  induction items with
  | nil =>
    intro off σ vs rest _ hpc hcx
    exact ⟨σ, Steps.refl σ, by simp [hpc], by simp [hcx], rfl, DKeeps.refl σ⟩
  | cons it items ih =>
    intro off σ vs rest hc hpc hcx
    rw [List.flatMap_cons, hf it] at hc
    subst hpc
    have h0 : code[σ.pc]? = some (CInstr.loadA it.1, it.2) := hc.append_left.head
    have h1 : code[σ.pc + 1]? = some (CInstr.pushByVal, it.2) := hc.append_left.tail.head
    let σ1 : Vm := advance (setA σ it.1)
    let σ2 : Vm := advance { σ1 with ctx := .args (vs ++ [it.1]) :: rest }
    have s1 : Vm.step code σ = .next σ1 := by simp only [Vm.step, h0]; rfl
    have s2 : Vm.step code σ1 = .next σ2 := by
      simp only [Vm.step, σ1, advance, setA, h1, pushArg, hcx]; rfl
    have hcr : CodeAt code (σ.pc + 2) (items.flatMap f) := by
      have := hc.append_right
      simpa using this
    obtain ⟨τ, st, hp, hcx', hd, hk⟩ := ih (σ.pc + 2) σ2 (vs ++ [it.1]) rest hcr rfl rfl
    refine ⟨τ, Steps.cons s1 (Steps.cons s2 st), ?_, ?_, ?_, ?_⟩
    · rw [hp]; simp only [List.length_cons]; omega
    · rw [hcx']; simp
    · exact hd
    · exact DKeeps.trans (show DKeeps σ σ2 from ⟨rfl, rfl, rfl, rfl, rfl, rfl, rfl, rfl, rfl, rfl, rfl, rfl, rfl, rfl⟩) hk

theorem mapM_id_some : ∀ (vs : List Val), (vs.map some).mapM id = some vs
  | [] => rfl
  | v :: rest => by
    simp only [List.map_cons, List.mapM_cons, id, mapM_id_some rest]
    rfl

/-- one DATA statement: `BeginCollectArguments; (LoadIntoA v; PushUnnamedByVal)*; PushStack; BuiltInSub Data; PopStack`
appends its items to the data segment -/
theorem data_stmt (code : Code) (lay : Layout) (env : LEnv) (items : List (Val × Pos)) (p : Pos) (sfx : String) (off : Nat)
    (σ : Vm) (c : CtxState) (rest : List CtxState)
    (hc : CodeAt code off (compileStmt lay env sfx 0 0 off (.data items p))) (hpc : σ.pc = off)
    (hcx : σ.ctx = c :: rest) :
    ∃ τ, Steps code σ τ ∧ τ.pc = off + sizeStmt env.dp 0 0 (.data items p) ∧ τ.data = σ.data ++ items.map (·.1) ∧
      τ.ctx = σ.ctx ∧ DKeeps σ τ := by
  simp only [compileStmt] at hc
  subst hpc
  have h0 : code[σ.pc]? = some (CInstr.beginArgs, p) := hc.append_left.append_left.head
  let σ1 : Vm := advance { σ with ctx := .args [] :: σ.ctx }
  have s1 : Vm.step code σ = .next σ1 := by simp only [Vm.step, h0]; rfl
  have hci := hc.append_left.append_right
  simp only [List.length_singleton] at hci
  obtain ⟨τ1, st1, hp1, hcx1, hd1, hk1⟩ :=
    data_items code _ (fun it => rfl) items (σ.pc + 1) σ1 [] σ.ctx hci rfl rfl
  have hct := hc.append_right
  have hl := flatMap_const_len (fun x : Val × Pos => [(CInstr.loadA x.fst, x.snd), (CInstr.pushByVal, x.snd)]) 2
    (fun _ => rfl) items
  simp only [List.length_append, List.length_singleton, hl] at hct
  have e : σ.pc + (1 + 2 * items.length) = τ1.pc := by rw [hp1]; omega
  rw [e] at hct
  have h2 : code[τ1.pc]? = some (CInstr.pushStack, p) := hct.head
  have h3 : code[τ1.pc + 1]? = some (CInstr.builtInData, p) := hct.tail.head
  have h4 : code[τ1.pc + 1 + 1]? = some (CInstr.popStack, p) := hct.tail.tail.head
  simp only [List.nil_append] at hcx1
  let τ2 : Vm := advance { τ1 with ctx := .frame ((items.map (·.1)).map some) :: σ.ctx, trace := p :: τ1.trace }
  let τ3 : Vm := advance { τ2 with data := τ2.data ++ items.map (·.1) }
  let τ4 : Vm := advance { τ3 with ctx := c :: rest, trace := τ1.trace }
  have s2 : Vm.step code τ1 = .next τ2 := by simp only [Vm.step, h2, hcx1]; rfl
  have s3 : Vm.step code τ2 = .next τ3 := by
    simp only [Vm.step, τ2, advance, h3, mapM_id_some]; rfl
  have s4 : Vm.step code τ3 = .next τ4 := by
    simp only [Vm.step, τ3, τ2, advance, h4, hcx]; rfl
  refine ⟨τ4, (Steps.cons s1 st1).trans (Steps.cons s2 (Steps.cons s3 (Steps.one s4))), ?_, ?_, hcx.symm, ?_⟩
  · simp only [τ4, τ3, τ2, advance, hp1, sizeStmt]; omega
  · simp only [τ4, τ3, τ2, advance, hd1, σ1]
  · exact DKeeps.trans (DKeeps.trans (show DKeeps σ σ1 from ⟨rfl, rfl, rfl, rfl, rfl, rfl, rfl, rfl, rfl, rfl, rfl, rfl, rfl, rfl⟩) hk1)
      (show DKeeps τ1 τ4 from ⟨rfl, rfl, rfl, rfl, rfl, rfl, rfl, rfl, rfl, rfl, rfl, rfl, rfl, rfl⟩)

/-- the hoisted DATA statements, run in order, build the data segment -/
theorem data_list (code : Code) (lay : Layout) (env : LEnv) (sfx : String) : ∀ (l : List SStmt), (∀ x ∈ l, isData x = true) →
    ∀ (off : Nat) (σ : Vm) (c : CtxState) (rest : List CtxState),
      CodeAt code off (compileStmt lay env sfx 0 0 off (seqOf l)) → σ.pc = off → σ.ctx = c :: rest →
      ∃ τ, Steps code σ τ ∧ τ.pc = off + sizeStmt env.dp 0 0 (seqOf l) ∧ τ.data = σ.data ++ l.flatMap dataOf ∧
        τ.ctx = σ.ctx ∧ DKeeps σ τ := by
  intro l
  induction l with
  | nil =>
    intro _ off σ c rest _ hpc _
    exact ⟨σ, Steps.refl σ, by simp [seqOf, sizeStmt, hpc], by simp, rfl, DKeeps.refl σ⟩
  | cons a l ih =>
    intro hall off σ c rest hc hpc hcx
    have hd : isData a = true := hall a (by simp)
    cases a with
    | data items p =>
      have hc : CodeAt code off (compileStmt lay env sfx 0 0 off (.data items p) ++
          compileStmt lay env sfx 0 0 (off + sizeStmt env.dp 0 0 (.data items p)) (seqOf l)) := by
        simpa only [seqOf, compileStmt] using hc
      obtain ⟨τ1, st1, hp1, hd1, hcx1, hk1⟩ := data_stmt code lay env items p sfx off σ c rest hc.append_left hpc hcx
      have hcr := hc.append_right
      rw [len_stmt] at hcr
      obtain ⟨τ2, st2, hp2, hd2, hcx2, hk2⟩ :=
        ih (fun x hx => hall x (by simp [hx])) _ τ1 c rest hcr hp1 (by rw [hcx1, hcx])
      refine ⟨τ2, st1.trans st2, ?_, ?_, by rw [hcx2, hcx1], DKeeps.trans hk1 hk2⟩
      · rw [hp2]; simp only [seqOf, sizeStmt]; omega
      · rw [hd2, hd1]; simp [List.flatMap_cons, dataOf]
    | _ => simp [isData] at hd

/-! ### the program theorem -/

/-- the start state of the reference semantics -/
def startSt (prog : SProgram) : St := ProcJ.Ref.St.init prog.toAst

theorem run_eq (prog : SProgram) (fuel : Nat) :
    ProcJ.Ref.run fuel prog.toAst =
      (match ProcJ.Ref.exec prog.toAst fuel ⟨false, desugar prog.body⟩ (desugar prog.body) .run (startSt prog) with
       | (s, o) => (s, ProcJ.Ref.topOutcome o)) := rfl

/-- the DATA phase: from the initial VM state the run reaches the first instruction of the main body in a state related to the
reference start state, with empty stacks -/
theorem data_phase (prog : SProgram) :
    ∃ σ1, Steps (compile prog) Vm.init σ1 ∧ σ1.pc = dataSize prog ∧
      Rel (world prog) (mainScope prog) [] [] (startSt prog) σ1 ∧ ActInv (mainScope prog) 0 0 σ1 ∧
      σ1.gosubs = [] ∧ σ1.marks = [] ∧ σ1.rets = [] := by
  have hbody := (code_all prog).append_left.append_left
  rw [code_seqOf_append] at hbody
  have hcd := hbody.append_left
  obtain ⟨σ1, st1, hp1, hd1, hcx1, hk1⟩ :=
    data_list (compile prog) (layout prog) (envOf prog) "" (datas prog.body) (datas_isData prog.body) 0 Vm.init
      (.frame []) [] hcd rfl rfl
  rw [Nat.zero_add] at hp1
  have hrel : Rel (world prog) (mainScope prog) [] [] (startSt prog) σ1 := by
    refine ⟨trivial, rfl, ⟨[], by rw [hcx1]; rfl, ?_, RbThm.ProcSim.frameRel_init (mainScope prog) rfl⟩,
      RbThm.ProcSim.typed_init prog.slots, rfl, ?_, RbThm.ProcSim.typed_init prog.gslots, ?_, ?_, by rw [hk1.out]; rfl, ?_,
      by rw [hk1.dataIdx]; rfl, by rw [hk1.queue]; rfl, by rw [hk1.funRes]; rfl⟩
    · unfold Vm.curFrame; rw [hcx1]; rfl
    · rw [hk1.glob]; exact RbThm.ProcSim.tabRel_init prog.gslots
    · intro f d hd hs
      have e1 : σ1.statics f = none := by rw [hk1.statics]; rfl
      have e2 : (startSt prog).statics f = d.slots.map zeroOf := by
        show (match (world prog).P.procs[f]? with | some d => d.slots.map zeroOf | none => []) = _
        rw [hd]
      rw [e1, e2]
      exact RbThm.ProcSim.statRel_init d.slots
    · intro f h
      simp [mainScope] at h
    · rw [hd1, ← dataOf_eq]; simp [Vm.init, startSt, ProcJ.Ref.St.init, SProgram.toAst]
  have hact : ActInv (mainScope prog) 0 0 σ1 :=
    ⟨fun _ => by rw [hk1.skipNewline]; rfl,
     fun _ => ⟨by rw [hk1.marks]; rfl, Nat.zero_le _, Nat.zero_le _⟩,
     fun h => by simp [mainScope] at h⟩
  exact ⟨σ1, st1, hp1, hrel, hact, by rw [hk1.gosubs]; rfl, by rw [hk1.marks]; rfl, by rw [hk1.rets]; rfl⟩

/-- what the program theorem says about a run of the compiled code from the initial VM state, given the answer of the
reference semantics: normal end / END ⇒ a `Halt` is reached with the same output; BASIC error ⇒ the run stops with that error at
that position with the same output; `inexact`, `outOfFuel`, `illFormed` claim nothing; the remaining outcomes are internal to
`exec` and never come out of `run` -/
def ProgSpec (prog : SProgram) : St × Outcome → Prop
  | (s', .normal) => HaltsWith (compile prog) Vm.init s'.out
  | (s', .halted) => HaltsWith (compile prog) Vm.init s'.out
  | (s', .error c p) => ErrsWith (compile prog) Vm.init c p s'.out
  | (_, .inexact) => True
  | (_, .outOfFuel) => True
  | (_, .illFormed) => True
  | (_, .exited) => False
  | (_, .jump _) => False
  | (_, .ret _) => False
  | (_, .notHere) => False

/-- **the whole-program theorem, given the statement theorem for the program's world** -/
theorem compile_correct_of (prog : SProgram) (fuel : Nat) (hw : ProgWf prog)
    (hst : ∀ fuel, StmtIH (world prog) fuel) : ProgSpec prog (ProcJ.Ref.run fuel prog.toAst) := by
  have hB := mainBody_ok prog hw
  obtain ⟨σ1, st1, hp1, hrel1, hact1, hg1, hm1, _⟩ := data_phase prog
  have hs := hst fuel (mainBody prog) (strip prog.body) "" 0 0 (dataSize prog) .run [] (startSt prog) σ1 hB hB.hcode hB.lab
    hB.wf hp1 hrel1 hact1
  have hactEq : (mainBody prog).act = ⟨false, desugar prog.body⟩ := by
    show Act.mk false (desugar (strip prog.body)) = _
    rw [desugar_strip]
  rw [hactEq, desugar_strip] at hs
  replace hs : StmtPost (world prog) (mainScope prog) [] 0 0 _ σ1
      (ProcJ.Ref.exec prog.toAst fuel ⟨false, desugar prog.body⟩ (desugar prog.body) .run (startSt prog)) := hs
  rw [run_eq]
  obtain ⟨q, hq⟩ := hB.hend
  generalize ProcJ.Ref.exec prog.toAst fuel ⟨false, desugar prog.body⟩ (desugar prog.body) .run (startSt prog) = r at hs ⊢
  obtain ⟨s', o⟩ := r
  cases o with
  | normal =>
    obtain ⟨τ, st, hp, hrel, _⟩ := hs
    refine ⟨τ, τ, st1.trans st, ?_, hrel.out⟩
    have hq' : (compile prog)[τ.pc]? = some (CInstr.halt, q) := by rw [hp]; exact hq
    simp only [Vm.step, hq']
  | halted => exact HaltsWith.of_steps st1 hs
  | error c p => exact ErrsWith.of_steps st1 hs
  | ret p =>
    -- a RETURN with no GOSUB pending: error 3 at the RETURN
    obtain ⟨τ, st, hret, hrel, _, _, _, hgs, _, hms, _⟩ := hs
    have hret' : (compile prog)[τ.pc]? = some (CInstr.ret, p) := hret
    have hg : τ.gosubs = [] := by rw [hgs]; exact hg1
    refine ⟨τ, τ, st1.trans st, ?_, hrel.out⟩
    simp only [Vm.step, hret', hg]
    rfl
  | exited => trivial
  | jump L => trivial
  | notHere => trivial
  | inexact => trivial
  | outOfFuel => trivial
  | illFormed => trivial

/-- under the premise the main module never answers `exited` (EXIT SUB / FUNCTION is not well formed outside a procedure, and no
`PushRet` is pending for a `PopRet` to answer): a fact about the reference semantics obtained through the simulation -/
theorem main_never_exited (prog : SProgram) (fuel : Nat) (hw : ProgWf prog)
    (hst : ∀ fuel, StmtIH (world prog) fuel) (s' : St) :
    ProcJ.Ref.exec prog.toAst fuel ⟨false, desugar prog.body⟩ (desugar prog.body) .run (startSt prog) ≠ (s', .exited) := by
  intro he
  have hB := mainBody_ok prog hw
  obtain ⟨σ1, st1, hp1, hrel1, hact1, hg1, hm1, hr1⟩ := data_phase prog
  have hs := hst fuel (mainBody prog) (strip prog.body) "" 0 0 (dataSize prog) .run [] (startSt prog) σ1 hB hB.hcode hB.lab
    hB.wf hp1 hrel1 hact1
  have hactEq : (mainBody prog).act = ⟨false, desugar prog.body⟩ := by
    show Act.mk false (desugar (strip prog.body)) = _
    rw [desugar_strip]
  rw [hactEq, desugar_strip] at hs
  replace hs : StmtPost (world prog) (mainScope prog) [] 0 0 _ σ1
      (ProcJ.Ref.exec prog.toAst fuel ⟨false, desugar prog.body⟩ (desugar prog.body) .run (startSt prog)) := hs
  rw [he] at hs
  obtain ⟨τ, _, hx, _⟩ := hs
  obtain ⟨a, m, h1, _⟩ := hx.ret
  rw [hr1] at h1
  cases h1

/-! ### facts about the top-level run that need no simulation -/

mutual
/-- every GOTO target inside a well-formed statement is a label of the body the statement belongs to -/
theorem gotos_in_labs (sg : Sigs) (sc : Scope) (dp : Dp) (labs : List Nat) : ∀ (s : SStmt) (d e : Nat),
    Wf sg sc dp labs d e s → ∀ L, L ∈ s.gotos → L ∈ labs
  | .seq a b, d, e, h, L, hL => by
    simp only [SStmt.gotos, List.mem_append] at hL
    rcases hL with hL | hL
    · exact gotos_in_labs sg sc dp labs a d e h.1 L hL
    · exact gotos_in_labs sg sc dp labs b d e h.2 L hL
  | .ifBlock c thn elifs hasElse els p, d, e, h, L, hL => by
    obtain ⟨_, _, h1, h2, h3, _⟩ := h
    simp only [SStmt.gotos, List.mem_append] at hL
    rcases hL with hL | hL | hL
    · exact gotos_in_labs sg sc dp labs thn d e h1 L hL
    · exact gotos_in_labs_elifs sg sc dp labs elifs d e h2 L hL
    · exact gotos_in_labs sg sc dp labs els d e h3 L hL
  | .select sel cases hasElse els p, d, e, h, L, hL => by
    obtain ⟨_, h1, h2, _, _⟩ := h
    simp only [SStmt.gotos, List.mem_append] at hL
    rcases hL with hL | hL
    · exact gotos_in_labs_cases sg sc dp labs cases d (e + 1) h1 L hL
    · exact gotos_in_labs sg sc dp labs els d (e + 1) h2 L hL
  | .forLoop x t lo hi step body p, d, e, h, L, hL => by
    obtain ⟨_, _, _, _, h6, _⟩ := h
    simp only [SStmt.gotos] at hL
    exact gotos_in_labs sg sc dp labs body (d + 1) e h6 L hL
  | .while c body p, d, e, h, L, hL => by
    simp only [SStmt.gotos] at hL
    exact gotos_in_labs sg sc dp labs body d e h.2.2 L hL
  | .doLoop c top u body p, d, e, h, L, hL => by
    simp only [SStmt.gotos] at hL
    exact gotos_in_labs sg sc dp labs body d e h.2.2 L hL
  | .goto L' p, d, e, h, L, hL => by
    simp only [SStmt.gotos, List.mem_singleton] at hL
    subst hL
    exact h.2.2
  | .label _ _ _, _, _, _, L, hL => by simp [SStmt.gotos] at hL
  | .skip, _, _, _, L, hL => by simp [SStmt.gotos] at hL
  | .comment, _, _, _, L, hL => by simp [SStmt.gotos] at hL
  | .dim _ _ _, _, _, _, L, hL => by simp [SStmt.gotos] at hL
  | .sdim _ _ _, _, _, _, L, hL => by simp [SStmt.gotos] at hL
  | .assign _ _ _ _, _, _, _, L, hL => by simp [SStmt.gotos] at hL
  | .print _ _, _, _, _, L, hL => by simp [SStmt.gotos] at hL
  | .data _ _, _, _, _, L, hL => by simp [SStmt.gotos] at hL
  | .read _ _, _, _, _, L, hL => by simp [SStmt.gotos] at hL
  | .end_ _, _, _, _, L, hL => by simp [SStmt.gotos] at hL
  | .callSub _ _ _, _, _, _, L, hL => by simp [SStmt.gotos] at hL
  | .exitProc _, _, _, _, L, hL => by simp [SStmt.gotos] at hL
  | .gosub _ _, _, _, _, L, hL => by simp [SStmt.gotos] at hL
  | .ret _, _, _, _, L, hL => by simp [SStmt.gotos] at hL
theorem gotos_in_labs_elifs (sg : Sigs) (sc : Scope) (dp : Dp) (labs : List Nat) : ∀ (el : ElseIfs) (d e : Nat),
    WfElifs sg sc dp labs d e el → ∀ L, L ∈ el.gotos → L ∈ labs
  | .nil, _, _, _, L, hL => by simp [ElseIfs.gotos] at hL
  | .cons c body rest, d, e, h, L, hL => by
    obtain ⟨_, _, h1, h2⟩ := h
    simp only [ElseIfs.gotos, List.mem_append] at hL
    rcases hL with hL | hL
    · exact gotos_in_labs sg sc dp labs body d e h1 L hL
    · exact gotos_in_labs_elifs sg sc dp labs rest d e h2 L hL
theorem gotos_in_labs_cases (sg : Sigs) (sc : Scope) (dp : Dp) (labs : List Nat) : ∀ (cs : SCases) (d e : Nat),
    WfCases sg sc dp labs d e cs → ∀ L, L ∈ cs.gotos → L ∈ labs
  | .nil, _, _, _, L, hL => by simp [SCases.gotos] at hL
  | .cons conds body rest, d, e, h, L, hL => by
    obtain ⟨_, _, h1, h2⟩ := h
    simp only [SCases.gotos, List.mem_append] at hL
    rcases hL with hL | hL
    · exact gotos_in_labs sg sc dp labs body d e h1 L hL
    · exact gotos_in_labs_cases sg sc dp labs rest d e h2 L hL
end

/-- the main module of a program with the premise never answers `jump`: a GOTO names a label of the main module, and a jump
that comes out of a statement names a label outside it -/
theorem main_never_jump (prog : SProgram) (fuel : Nat) (hw : ProgWf prog) (s' : St) (L : Nat) :
    ProcJ.Ref.exec prog.toAst fuel ⟨false, desugar prog.body⟩ (desugar prog.body) .run (startSt prog) ≠ (s', .jump L) := by
  intro he
  have hwf := wf_strip _ _ _ _ _ hw.body
  have he' : ProcJ.Ref.exec prog.toAst fuel ⟨false, desugar prog.body⟩ (desugar (strip prog.body)) .run (startSt prog) =
      (s', .jump L) := by rw [desugar_strip]; exact he
  have h1 : L ∈ (strip prog.body).gotos := gotos_desugar _ L (RbThm.ProcJRef.exec_jump_mem_gotos he')
  have h2 : L ∈ prog.body.labels := gotos_in_labs _ _ _ _ _ 0 0 hwf L h1
  have h3 := (jump_depths hwf he').1
  rw [labels_strip] at h3
  exact h3 h2

/-- a statement run from its first instruction never answers `notHere` -/
theorem main_never_notHere (prog : SProgram) (fuel : Nat) (s' : St) :
    ProcJ.Ref.exec prog.toAst fuel ⟨false, desugar prog.body⟩ (desugar prog.body) .run (startSt prog) ≠ (s', .notHere) :=
  fun he => RbThm.ProcJRef.exec_run_ne_notHere he rfl

/-- `Steps` is what `ProcJ.Vm.run` does: a run that takes the steps and then halts is a halted run of the bounded interpreter
the correspondence check executes, for every sufficient step budget -/
theorem run_of_steps (code : Code) {σ τ υ : Vm} (h : Steps code σ τ) (hh : Vm.step code τ = .halt υ) :
    ∃ n, ∀ m, n ≤ m → Vm.run code m σ = .halted υ := by
  induction h with
  | refl σ =>
    refine ⟨1, fun m hm => ?_⟩
    obtain ⟨k, rfl⟩ : ∃ k, m = k + 1 := ⟨m - 1, by omega⟩
    simp [Vm.run, hh]
  | cons hs _ ih =>
    obtain ⟨n, hn⟩ := ih hh
    refine ⟨n + 1, fun m hm => ?_⟩
    obtain ⟨k, rfl⟩ : ∃ k, m = k + 1 := ⟨m - 1, by omega⟩
    simp [Vm.run, hs, hn k (by omega)]

theorem run_of_steps_error (code : Code) {σ τ υ : Vm} {c : Nat} {p : Pos} (h : Steps code σ τ)
    (hh : Vm.step code τ = .error c p υ) :
    ∃ n, ∀ m, n ≤ m → Vm.run code m σ = .error c p υ := by
  induction h with
  | refl σ =>
    refine ⟨1, fun m hm => ?_⟩
    obtain ⟨k, rfl⟩ : ∃ k, m = k + 1 := ⟨m - 1, by omega⟩
    simp [Vm.run, hh]
  | cons hs _ ih =>
    obtain ⟨n, hn⟩ := ih hh
    refine ⟨n + 1, fun m hm => ?_⟩
    obtain ⟨k, rfl⟩ : ∃ k, m = k + 1 := ⟨m - 1, by omega⟩
    simp [Vm.run, hs, hn k (by omega)]

/-- the same for the bounded interpreter `ProcJ.Vm.run` the correspondence check executes against the real VM -/
def RunSpec (prog : SProgram) : St × Outcome → Prop
  | (s', .normal) => ∃ n υ, (∀ m, n ≤ m → Vm.run (compile prog) m Vm.init = .halted υ) ∧ υ.out = s'.out
  | (s', .halted) => ∃ n υ, (∀ m, n ≤ m → Vm.run (compile prog) m Vm.init = .halted υ) ∧ υ.out = s'.out
  | (s', .error c p) => ∃ n υ, (∀ m, n ≤ m → Vm.run (compile prog) m Vm.init = .error c p υ) ∧ υ.out = s'.out
  | (_, .inexact) => True
  | (_, .outOfFuel) => True
  | (_, .illFormed) => True
  | (_, .exited) => False
  | (_, .jump _) => False
  | (_, .ret _) => False
  | (_, .notHere) => False

theorem runSpec_of_progSpec (prog : SProgram) (r : St × Outcome) (h : ProgSpec prog r) : RunSpec prog r := by
  obtain ⟨s', o⟩ := r
  cases o with
  | normal =>
    obtain ⟨τ, υ, st, hh, ho⟩ := h
    obtain ⟨n, hn⟩ := run_of_steps _ st hh
    exact ⟨n, υ, hn, ho⟩
  | halted =>
    obtain ⟨τ, υ, st, hh, ho⟩ := h
    obtain ⟨n, hn⟩ := run_of_steps _ st hh
    exact ⟨n, υ, hn, ho⟩
  | error c p =>
    obtain ⟨τ, υ, st, hh, ho⟩ := h
    obtain ⟨n, hn⟩ := run_of_steps_error _ st hh
    exact ⟨n, υ, hn, ho⟩
  | inexact => trivial
  | outOfFuel => trivial
  | illFormed => trivial
  | exited => exact h
  | jump L => exact h
  | ret p => exact h
  | notHere => exact h

end RbThm.ProcJSim
