import RbModel.JmpL.Ref
/-!
JmpLRef — basic theory of the reference semantics of the jump layer (`RbModel.JmpL.Ref`, property C05).

* fuel monotonicity and determinism of `exec`, `execCases`, `seekCases`, `selectSeek`, `forIter`, `run`
  (`Stable`, `stable_all`, `exec_fuel_mono`, `exec_fuel_le`, `exec_deterministic`, `run_deterministic`);
* what the statement-independent pieces can answer (`evalCond_error`, … : only `error` / `inexact`);
* shape of the answers (`Shape`, `shape_all`): `notHere` is answered exactly by the statements that are not entered
  (`exec_not_entered`, `exec_seek_noLabel`, `exec_enters_ne_notHere`, `exec_notHere_iff`, `run_ne_notHere`) — no
  well-formedness premise is needed: a label inside a FOR body / SELECT block sought from outside answers `illFormed`;
  a `jump L` that comes out of a statement names a label that is not inside it (`exec_jump_not_own_label`, also for
  `forIter` and `selectSeek`);
* the constructs as equations over the combinators `catchJump`, `thenRun`, `loopNext`, `forNext`, `gosubAnswer`
  (`exec_seq_run`, `exec_seq_seek_left/right`, `exec_gosub`, `exec_while_*`, `forIter_run/seek`, …) and the pass-through
  lemmas `*_passes` (`ret`, END, errors, `inexact`, `illFormed` go through every construct with the state unchanged).
-/
namespace RbThm.JmpLRef
open RbModel RbModel.Num RbModel.JmpL RbModel.JmpL.Ref
open RbModel.Ast (Pos PrintItem CaseExpr)
open RbModel.Ref (St ERes eval evalTo codeOf codeOutOfData codeZeroStep zeroOf truthy printValue endsInSeparator StepSign)

/-! ## fuel monotonicity -/

/-- all five mutually recursive functions are stable under one more unit of fuel -/
def Stable (n : Nat) : Prop :=
  (∀ {P st m s s' o}, exec n P st m s = (s', o) → o ≠ .outOfFuel → exec (n + 1) P st m s = (s', o)) ∧
  (∀ {P p subj cs s s' o}, execCases n P p subj cs s = (s', o) → o ≠ .outOfFuel →
      execCases (n + 1) P p subj cs s = (s', o)) ∧
  (∀ {P cs L s s' o}, seekCases n P cs L s = (s', o) → o ≠ .outOfFuel → seekCases (n + 1) P cs L s = (s', o)) ∧
  (∀ {P cs L s s' o}, selectSeek n P cs L s = (s', o) → o ≠ .outOfFuel → selectSeek (n + 1) P cs L s = (s', o)) ∧
  (∀ {P x t h sv up body p m s s' o}, forIter n P x t h sv up body p m s = (s', o) → o ≠ .outOfFuel →
      forIter (n + 1) P x t h sv up body p m s = (s', o))

theorem stable_zero : Stable 0 := by
  refine ⟨?_, ?_, ?_, ?_, ?_⟩ <;> intros <;> rename_i h ho <;>
    simp only [exec, execCases, seekCases, selectSeek, forIter] at h <;> cases h <;> exact absurd rfl ho

set_option hygiene false in
/-- one sub-call: split on its outcome, discharge `outOfFuel`, lift the others by the induction hypothesis -/
macro "fstep " t:term : tactic => `(tactic|
  (generalize hr : $t = r at h
   obtain ⟨s1, o1⟩ := r
   cases o1 <;> (try simp only [] at h) <;>
   first
     | (cases h; exact absurd rfl ho)
     | ((first | rw [ihE hr (by simp)] | rw [ihC hr (by simp)] | rw [ihK hr (by simp)]);
        try simp only []; try exact h)))

set_option hygiene false in
macro "fclose0" : tactic => `(tactic|
  first | exact h | exact ihE h ho | exact ihC h ho | exact ihK h ho | exact ihS h ho | exact ihF h ho)

set_option hygiene false in
macro "fclose" : tactic => `(tactic|
  first
    | fclose0
    | (split at h <;> rename_i hc <;> simp only [hc, if_true, if_false, ↓reduceIte] <;> fclose0))

theorem stable_succ (n : Nat) (ih : Stable n) : Stable (n + 1) := by
  obtain ⟨ihE, ihC, ihK, ihS, ihF⟩ := ih
  refine ⟨?_, ?_, ?_, ?_, ?_⟩
  · intro P st m s s' o h ho
    cases st with
    | skip => unfold exec at h ⊢; exact h
    | seq a b =>
      unfold exec at h ⊢
      by_cases hen : m.enters (.seq a b) = true
      · simp only [hen, if_true] at h ⊢
        by_cases hea : m.enters a = true
        · simp only [hea, if_true] at h ⊢
          fstep (exec n P a m s)
          case normal =>
            fstep (exec n P b .run s1)
            case jump L => fclose
          case jump L => fclose
        · simp only [hea, Bool.false_eq_true, if_false] at h ⊢
          fstep (exec n P b m s)
          case jump L => fclose
      · simp only [hen, Bool.false_eq_true, if_false] at h ⊢; exact h
    | assign x t e p => unfold exec at h ⊢; exact h
    | print items p => unfold exec at h ⊢; exact h
    | read x t p => unfold exec at h ⊢; exact h
    | ifs c thn els p =>
      unfold exec at h ⊢
      by_cases hen : m.enters (.ifs c thn els p) = true
      · simp only [hen, if_true] at h ⊢
        cases m with
        | run =>
          simp only [] at h ⊢
          cases hc : evalCond s.env c with
          | error o' => simp only [hc] at h ⊢; cases o' <;> simp only [] at h ⊢ <;> fclose
          | ok bb =>
            cases bb with
            | true =>
              simp only [hc] at h ⊢
              fstep (exec n P thn .run s)
              case jump L => fclose
            | false =>
              simp only [hc] at h ⊢
              fstep (exec n P els .run s)
              case jump L => fclose
        | seek L0 =>
          simp only [] at h ⊢
          by_cases hl : thn.hasLabel L0 = true
          · simp only [hl, if_true] at h ⊢
            fstep (exec n P thn (.seek L0) s)
            case jump L => fclose
          · simp only [hl, Bool.false_eq_true, if_false] at h ⊢
            fstep (exec n P els (.seek L0) s)
            case jump L => fclose
      · simp only [hen, Bool.false_eq_true, if_false] at h ⊢; exact h
    | select e cases p =>
      unfold exec at h ⊢
      cases m with
      | seek L0 => exact h
      | run =>
        simp only [] at h ⊢
        cases he : evalE s.env e with
        | error o' => simp only [he] at h ⊢; exact h
        | ok subj =>
          simp only [he] at h ⊢
          fstep (execCases n P p subj cases s)
          case jump L => fclose
    | forLoop x t lo hi step body p =>
      unfold exec at h ⊢
      cases m with
      | seek L0 => exact h
      | run =>
        simp only [] at h ⊢
        cases hl : evalTo s.env lo t with
        | err c q => simp only [hl] at h ⊢; exact h
        | inexact => simp only [hl] at h ⊢; exact h
        | ok l =>
          simp only [hl] at h ⊢
          cases hh : evalTo (s.set x l).env hi t with
          | err c q => simp only [hh] at h ⊢; exact h
          | inexact => simp only [hh] at h ⊢; exact h
          | ok hv =>
            simp only [hh] at h ⊢
            cases step with
            | none => simp only [] at h ⊢; exact ihF h ho
            | some se =>
              simp only [] at h ⊢
              cases hs : evalE (s.set x l).env se with
              | error o' => simp only [hs] at h ⊢; exact h
              | ok sv =>
                simp only [hs] at h ⊢
                cases hsg : stepSign p sv with
                | error o' => simp only [hsg] at h ⊢; exact h
                | ok sg => cases sg <;> simp only [hsg] at h ⊢ <;> first | exact h | exact ihF h ho
    | «while» c body p =>
      unfold exec at h ⊢
      by_cases hen : m.enters (.while c body p) = true
      · simp only [hen, if_true] at h ⊢
        cases m with
        | run =>
          simp only [] at h ⊢
          cases hc : evalCond s.env c with
          | error o' => simp only [hc] at h ⊢; exact h
          | ok bb =>
            cases bb with
            | false => simp only [hc] at h ⊢; exact h
            | true =>
              simp only [hc] at h ⊢
              fstep (exec n P body .run s)
              case normal => fclose
              case jump L => fclose
        | seek L0 =>
          simp only [] at h ⊢
          fstep (exec n P body (.seek L0) s)
          case normal => fclose
          case jump L => fclose
      · simp only [hen, Bool.false_eq_true, if_false] at h ⊢; exact h
    | doLoop c top until_ body p =>
      unfold exec at h ⊢
      by_cases hen : m.enters (.doLoop c top until_ body p) = true
      · simp only [hen, if_true] at h ⊢
        cases top with
        | true =>
          simp only [if_true] at h ⊢
          cases m with
          | run =>
            simp only [] at h ⊢
            cases hc : evalCond s.env c with
            | error o' => simp only [hc] at h ⊢; exact h
            | ok bb =>
              simp only [hc] at h ⊢
              by_cases hb : (bb != until_) = true
              · simp only [hb, if_true] at h ⊢
                fstep (exec n P body .run s)
                case normal => fclose
                case jump L => fclose
              · simp only [hb, Bool.false_eq_true, if_false] at h ⊢; exact h
          | seek L0 =>
            simp only [] at h ⊢
            by_cases hb : ((!until_) != until_) = true
            · simp only [hb, if_true] at h ⊢
              fstep (exec n P body (.seek L0) s)
              case normal => fclose
              case jump L => fclose
            · simp only [hb, Bool.false_eq_true, if_false] at h ⊢; exact h
        | false =>
          simp only [Bool.false_eq_true, if_false] at h ⊢
          fstep (exec n P body m s)
          case normal =>
            cases hc : evalCond s1.env c with
            | error o' => simp only [hc] at h ⊢; exact h
            | ok bb =>
              simp only [hc] at h ⊢
              fclose
          case jump L => fclose
      · simp only [hen, Bool.false_eq_true, if_false] at h ⊢; exact h
    | end_ p => unfold exec at h ⊢; exact h
    | label L' => unfold exec at h ⊢; exact h
    | goto L => unfold exec at h ⊢; exact h
    | gosub L =>
      unfold exec at h ⊢
      cases m with
      | seek L0 => exact h
      | run =>
        simp only [] at h ⊢
        fstep (exec n P P (.seek L) s)
    | ret p => unfold exec at h ⊢; exact h
  · intro P p subj cs s s' o h ho
    cases cs with
    | nil => unfold execCases at h ⊢; exact h
    | else_ body => unfold execCases at h ⊢; exact ihE h ho
    | case conds body rest =>
      unfold execCases at h ⊢
      cases hm : anyMatches s.env p subj conds with
      | error o' => simp only [hm] at h ⊢; exact h
      | ok bb => cases bb <;> simp only [hm] at h ⊢ <;> first | exact ihE h ho | exact ihC h ho
  · intro P cs L s s' o h ho
    cases cs with
    | nil => unfold seekCases at h ⊢; exact h
    | else_ body => unfold seekCases at h ⊢; exact ihE h ho
    | case conds body rest =>
      unfold seekCases at h ⊢
      fclose
  · intro P cs L s s' o h ho
    unfold selectSeek at h ⊢
    fstep (seekCases n P cs L s)
    case jump L' => fclose
  · intro P x t hv sv up body p m s s' o h ho
    unfold forIter at h ⊢
    simp only [] at h ⊢
    cases m with
    | run =>
      simp only [] at h ⊢
      generalize hr0 : relTest p (if up = true then Op.lessOrEqual else Op.greaterOrEqual)
          (s.env.getD x (zeroOf t)) hv = rt at h ⊢
      cases rt with
      | error o' => exact h
      | ok bb =>
        cases bb with
        | false => exact h
        | true =>
          simp only [] at h ⊢
          fstep (exec n P body .run s)
          case normal =>
            generalize hp : (plus (s1.env.getD x (zeroOf t)) sv).bind (fun v => Num.cast v t) = pr at h ⊢
            cases pr with
            | ok v => simp only [] at h ⊢; exact ihF h ho
            | err e => exact h
            | inexact => exact h
          case jump L => fclose
    | seek L0 =>
      simp only [] at h ⊢
      fstep (exec n P body (.seek L0) s)
      case normal =>
        generalize hp : (plus (s1.env.getD x (zeroOf t)) sv).bind (fun v => Num.cast v t) = pr at h ⊢
        cases pr with
        | ok v => simp only [] at h ⊢; exact ihF h ho
        | err e => exact h
        | inexact => exact h
      case jump L => fclose

theorem stable_all : ∀ n, Stable n
  | 0 => stable_zero
  | n + 1 => stable_succ n (stable_all n)

/-- **The answer of a statement does not depend on the fuel**, once the fuel suffices. -/
theorem exec_fuel_mono (fuel k : Nat) (P st : Stmt) (m : Mode) (s s' : St) (o : Outcome)
    (h : exec fuel P st m s = (s', o)) (ho : o ≠ .outOfFuel) : exec (fuel + k) P st m s = (s', o) := by
  induction k with
  | zero => exact h
  | succ k ih => exact (stable_all (fuel + k)).1 ih ho

theorem execCases_fuel_mono (fuel k : Nat) (P : Stmt) (p : Pos) (subj : Val) (cs : Cases) (s s' : St) (o : Outcome)
    (h : execCases fuel P p subj cs s = (s', o)) (ho : o ≠ .outOfFuel) :
    execCases (fuel + k) P p subj cs s = (s', o) := by
  induction k with
  | zero => exact h
  | succ k ih => exact (stable_all (fuel + k)).2.1 ih ho

theorem seekCases_fuel_mono (fuel k : Nat) (P : Stmt) (cs : Cases) (L : Nat) (s s' : St) (o : Outcome)
    (h : seekCases fuel P cs L s = (s', o)) (ho : o ≠ .outOfFuel) : seekCases (fuel + k) P cs L s = (s', o) := by
  induction k with
  | zero => exact h
  | succ k ih => exact (stable_all (fuel + k)).2.2.1 ih ho

theorem selectSeek_fuel_mono (fuel k : Nat) (P : Stmt) (cs : Cases) (L : Nat) (s s' : St) (o : Outcome)
    (h : selectSeek fuel P cs L s = (s', o)) (ho : o ≠ .outOfFuel) : selectSeek (fuel + k) P cs L s = (s', o) := by
  induction k with
  | zero => exact h
  | succ k ih => exact (stable_all (fuel + k)).2.2.2.1 ih ho

theorem forIter_fuel_mono (fuel k : Nat) (P : Stmt) (x : Nat) (t : Ty) (hv sv : Val) (up : Bool) (body : Stmt) (p : Pos)
    (m : Mode) (s s' : St) (o : Outcome)
    (h : forIter fuel P x t hv sv up body p m s = (s', o)) (ho : o ≠ .outOfFuel) :
    forIter (fuel + k) P x t hv sv up body p m s = (s', o) := by
  induction k with
  | zero => exact h
  | succ k ih => exact (stable_all (fuel + k)).2.2.2.2 ih ho

/-- the same with `≤` -/
theorem exec_fuel_le {fuel fuel' : Nat} (hle : fuel ≤ fuel') {P st : Stmt} {m : Mode} {s s' : St} {o : Outcome}
    (h : exec fuel P st m s = (s', o)) (ho : o ≠ .outOfFuel) : exec fuel' P st m s = (s', o) := by
  obtain ⟨k, rfl⟩ := Nat.exists_eq_add_of_le hle
  exact exec_fuel_mono fuel k P st m s s' o h ho

theorem forIter_fuel_le {fuel fuel' : Nat} (hle : fuel ≤ fuel') {P : Stmt} {x : Nat} {t : Ty} {hv sv : Val} {up : Bool}
    {body : Stmt} {p : Pos} {m : Mode} {s s' : St} {o : Outcome}
    (h : forIter fuel P x t hv sv up body p m s = (s', o)) (ho : o ≠ .outOfFuel) :
    forIter fuel' P x t hv sv up body p m s = (s', o) := by
  obtain ⟨k, rfl⟩ := Nat.exists_eq_add_of_le hle
  exact forIter_fuel_mono fuel k P x t hv sv up body p m s s' o h ho

/-- **Determinism**: two amounts of fuel at which the statement ends give the same state and the same answer. -/
theorem exec_deterministic {f₁ f₂ : Nat} {P st : Stmt} {m : Mode} {s s₁ s₂ : St} {o₁ o₂ : Outcome}
    (h₁ : exec f₁ P st m s = (s₁, o₁)) (h₂ : exec f₂ P st m s = (s₂, o₂))
    (ho₁ : o₁ ≠ .outOfFuel) (ho₂ : o₂ ≠ .outOfFuel) : s₁ = s₂ ∧ o₁ = o₂ := by
  have e₁ := exec_fuel_le (Nat.le_max_left f₁ f₂) h₁ ho₁
  have e₂ := exec_fuel_le (Nat.le_max_right f₁ f₂) h₂ ho₂
  rw [e₁] at e₂
  injection e₂ with hs ho
  exact ⟨hs, ho⟩

theorem run_fuel_mono (fuel k : Nat) (prog : Program) (s' : St) (o : Outcome)
    (h : run fuel prog = (s', o)) (ho : o ≠ .outOfFuel) : run (fuel + k) prog = (s', o) := by
  unfold run at h ⊢
  generalize hr : exec fuel prog.body prog.body .run (St.init prog) = r at h
  obtain ⟨s1, o1⟩ := r
  have ho1 : o1 ≠ .outOfFuel := by
    rintro rfl
    simp only [] at h
    cases h
    exact ho rfl
  rw [exec_fuel_mono fuel k _ _ _ _ _ _ hr ho1]
  exact h

/-- **The outcome of a program is a function of the program text alone.** -/
theorem run_deterministic {f₁ f₂ : Nat} {prog : Program} {s₁ s₂ : St} {o₁ o₂ : Outcome}
    (h₁ : run f₁ prog = (s₁, o₁)) (h₂ : run f₂ prog = (s₂, o₂))
    (ho₁ : o₁ ≠ .outOfFuel) (ho₂ : o₂ ≠ .outOfFuel) : s₁ = s₂ ∧ o₁ = o₂ := by
  have e₁ := run_fuel_mono f₁ f₂ prog _ _ h₁ ho₁
  have e₂ := run_fuel_mono f₂ f₁ prog _ _ h₂ ho₂
  rw [Nat.add_comm] at e₂
  rw [e₁] at e₂
  injection e₂ with hs ho
  exact ⟨hs, ho⟩

/-! ## labels and modes -/

@[simp] theorem enters_run (s : Stmt) : Mode.run.enters s = true := rfl
@[simp] theorem enters_seek (L : Nat) (s : Stmt) : (Mode.seek L).enters s = s.hasLabel L := rfl

@[simp] theorem hasLabel_skip (L : Nat) : Stmt.skip.hasLabel L = false := rfl
@[simp] theorem hasLabel_seq (a b : Stmt) (L : Nat) : (Stmt.seq a b).hasLabel L = (a.hasLabel L || b.hasLabel L) := by
  simp [Stmt.hasLabel, Stmt.labels]
@[simp] theorem hasLabel_assign (x t e p) (L : Nat) : (Stmt.assign x t e p).hasLabel L = false := rfl
@[simp] theorem hasLabel_print (i p) (L : Nat) : (Stmt.print i p).hasLabel L = false := rfl
@[simp] theorem hasLabel_read (x t p) (L : Nat) : (Stmt.read x t p).hasLabel L = false := rfl
@[simp] theorem hasLabel_ifs (c thn els p) (L : Nat) :
    (Stmt.ifs c thn els p).hasLabel L = (thn.hasLabel L || els.hasLabel L) := by
  simp [Stmt.hasLabel, Stmt.labels]
@[simp] theorem hasLabel_select (e cs p) (L : Nat) : (Stmt.select e cs p).hasLabel L = cs.hasLabel L := by
  simp [Stmt.hasLabel, Cases.hasLabel, Stmt.labels]
@[simp] theorem hasLabel_forLoop (x t lo hi st body p) (L : Nat) :
    (Stmt.forLoop x t lo hi st body p).hasLabel L = body.hasLabel L := by
  simp [Stmt.hasLabel, Stmt.labels]
@[simp] theorem hasLabel_while (c body p) (L : Nat) : (Stmt.while c body p).hasLabel L = body.hasLabel L := by
  simp [Stmt.hasLabel, Stmt.labels]
@[simp] theorem hasLabel_doLoop (c top u body p) (L : Nat) :
    (Stmt.doLoop c top u body p).hasLabel L = body.hasLabel L := by
  simp [Stmt.hasLabel, Stmt.labels]
@[simp] theorem hasLabel_end (p) (L : Nat) : (Stmt.end_ p).hasLabel L = false := rfl
@[simp] theorem hasLabel_label (L' L : Nat) : (Stmt.label L').hasLabel L = decide (L = L') := by
  simp [Stmt.hasLabel, Stmt.labels]
@[simp] theorem hasLabel_goto (L' L : Nat) : (Stmt.goto L').hasLabel L = false := rfl
@[simp] theorem hasLabel_gosub (L' L : Nat) : (Stmt.gosub L').hasLabel L = false := rfl
@[simp] theorem hasLabel_ret (p) (L : Nat) : (Stmt.ret p).hasLabel L = false := rfl
@[simp] theorem casesHasLabel_nil (L : Nat) : Cases.nil.hasLabel L = false := rfl
@[simp] theorem casesHasLabel_else (body : Stmt) (L : Nat) : (Cases.else_ body).hasLabel L = body.hasLabel L := by
  simp [Stmt.hasLabel, Cases.hasLabel, Cases.labels]
@[simp] theorem casesHasLabel_case (c body rest) (L : Nat) :
    (Cases.case c body rest).hasLabel L = (body.hasLabel L || rest.hasLabel L) := by
  simp [Stmt.hasLabel, Cases.hasLabel, Cases.labels]

/-! ## what the statement-independent pieces can answer -/

/-- an expression-level failure: an error with its position, or `inexact` -/
def Outcome.isFail : Outcome → Bool
  | .error _ _ => true
  | .inexact => true
  | _ => false

theorem evalCond_error {env c o} (h : evalCond env c = .error o) : Outcome.isFail o = true := by
  unfold evalCond at h
  split at h <;> try (cases h; rfl)
  split at h <;> cases h
  rfl

theorem evalE_error {env e o} (h : evalE env e = .error o) : Outcome.isFail o = true := by
  unfold evalE at h
  split at h <;> cases h <;> rfl

theorem relTest_error {p op a b o} (h : relTest p op a b = .error o) : Outcome.isFail o = true := by
  unfold relTest at h
  split at h <;> cases h <;> rfl

theorem isFail_ne_jump {o : Outcome} (h : Outcome.isFail o = true) (L : Nat) : o ≠ .jump L := by
  rintro rfl; cases h

theorem isFail_ne_notHere {o : Outcome} (h : Outcome.isFail o = true) : o ≠ .notHere := by
  rintro rfl; cases h

theorem bind_error {α β : Type} {x : Except Outcome α} {f : α → Except Outcome β} {o : Outcome}
    (h : (x >>= f) = .error o) : x = .error o ∨ ∃ v, x = .ok v ∧ f v = .error o := by
  cases x with
  | error e => left; simpa [bind, Except.bind] using h
  | ok v => right; exact ⟨v, rfl, by simpa [bind, Except.bind] using h⟩

theorem caseMatches_error {env p subj c o} (h : caseMatches env p subj c = .error o) : Outcome.isFail o = true := by
  cases c with
  | simple e =>
    unfold caseMatches at h
    rcases bind_error h with h1 | ⟨v, _, h2⟩
    · exact evalE_error h1
    · exact relTest_error h2
  | is op e =>
    unfold caseMatches at h
    rcases bind_error h with h1 | ⟨v, _, h2⟩
    · exact evalE_error h1
    · exact relTest_error h2
  | range lo hi =>
    unfold caseMatches at h
    rcases bind_error h with h1 | ⟨v, _, h2⟩
    · exact evalE_error h1
    · rcases bind_error h2 with h3 | ⟨b1, _, h4⟩
      · exact relTest_error h3
      · cases b1 with
        | false => simp [pure, Except.pure] at h4
        | true =>
          simp only [if_true] at h4
          rcases bind_error h4 with h5 | ⟨w, _, h6⟩
          · exact evalE_error h5
          · exact relTest_error h6

theorem anyMatches_error {env p subj cs o} (h : anyMatches env p subj cs = .error o) : Outcome.isFail o = true := by
  induction cs with
  | nil => simp [anyMatches, pure, Except.pure] at h
  | cons c rest ih =>
    unfold anyMatches at h
    rcases bind_error h with h1 | ⟨b, _, h2⟩
    · exact caseMatches_error h1
    · cases b with
      | true => simp [pure, Except.pure] at h2
      | false => exact ih (by simpa using h2)

theorem stepSign_error {p sv o} (h : stepSign p sv = .error o) : Outcome.isFail o = true := by
  unfold stepSign at h
  rcases bind_error h with h1 | ⟨b, _, h2⟩
  · exact relTest_error h1
  · cases b with
    | true => simp [pure, Except.pure] at h2
    | false =>
      simp only [Bool.false_eq_true, if_false] at h2
      rcases bind_error h2 with h3 | ⟨b2, _, h4⟩
      · exact relTest_error h3
      · cases b2 <;> simp [pure, Except.pure] at h4

theorem printItems_outcome (s : St) (items : List PrintItem) :
    (printItems s items).2 = .normal ∨ Outcome.isFail (printItems s items).2 = true := by
  induction items generalizing s with
  | nil => left; rfl
  | cons it rest ih =>
    cases it with
    | comma => simp only [printItems]; exact ih _
    | semicolon => simp only [printItems]; exact ih _
    | expr e =>
      simp only [printItems]
      split
      · right; rfl
      · right; rfl
      · split
        · right; rfl
        · exact ih _

/-! ## shape of the answers: `notHere` and `jump` -/

/-- what an answer says about the labels of the statement that gave it -/
def Ok (enters : Bool) (has : Nat → Bool) (o : Outcome) : Prop :=
  (o = .notHere → enters = false) ∧ ∀ L, o = .jump L → has L = false

theorem Ok_of_isFail {e h o} (hf : Outcome.isFail o = true) : Ok e h o :=
  ⟨fun h1 => absurd h1 (isFail_ne_notHere hf), fun L h1 => absurd h1 (isFail_ne_jump hf L)⟩

def Shape (n : Nat) : Prop :=
  (∀ {P st m s s' o}, exec n P st m s = (s', o) → Ok (m.enters st) st.hasLabel o) ∧
  (∀ {P p subj cs s s' o}, execCases n P p subj cs s = (s', o) → o ≠ .notHere) ∧
  (∀ {P cs L s s' o}, seekCases n P cs L s = (s', o) → o = .notHere → cs.hasLabel L = false) ∧
  (∀ {P cs L s s' o}, selectSeek n P cs L s = (s', o) → Ok (cs.hasLabel L) cs.hasLabel o) ∧
  (∀ {P x t h sv up body p m s s' o}, forIter n P x t h sv up body p m s = (s', o) → Ok (m.enters body) body.hasLabel o)

theorem shape_zero : Shape 0 := by
  refine ⟨?_, ?_, ?_, ?_, ?_⟩
  · intro P st m s s' o h; unfold exec at h; cases h; simp [Ok]
  · intro P p subj cs s s' o h; unfold execCases at h; cases h; simp
  · intro P cs L s s' o h ho; unfold seekCases at h; cases h; cases ho
  · intro P cs L s s' o h; unfold selectSeek at h; cases h; simp [Ok]
  · intro P x t hv sv up body p m s s' o h; unfold forIter at h; cases h; simp [Ok]

set_option hygiene false in
macro "shape_ih" : tactic => `(tactic|
  first | have hih := ihE h | have hih := ihC h | have hih := ihK h rfl | have hih := ihS h | have hih := ihF h)

set_option hygiene false in
macro "shape_split" : tactic => `(tactic|
  repeat' first
    | (rename_i hn; exact absurd h (hn _ _))
    | split at h
    | (revert h; split <;> intro h)
    | (simp only [] at h; done))

theorem isFail_notHere : Outcome.isFail .notHere = false := rfl
theorem isFail_jump (L : Nat) : Outcome.isFail (.jump L) = false := rfl

set_option hygiene false in
macro "shape_fin" : tactic => `(tactic|
  first
  | (cases h <;> first
       | (simp [Ok]; done)
       | exact absurd (evalCond_error (by assumption)) (by simp [Outcome.isFail])
       | exact absurd (evalE_error (by assumption)) (by simp [Outcome.isFail])
       | exact absurd (stepSign_error (by assumption)) (by simp [Outcome.isFail])
       | exact absurd (anyMatches_error (by assumption)) (by simp [Outcome.isFail])
       | exact absurd (relTest_error (by assumption)) (by simp [Outcome.isFail])
       | (simp_all [Ok]; done))
  | (shape_ih
     simp [Ok] at hih ⊢
     first | done | (simp_all; done) | grind))





set_option hygiene false in
macro "shape_exec" : tactic => `(tactic|
  (by_cases hen : m.enters st = true
   all_goals (cases m <;> cases st)
   all_goals unfold exec at h
   all_goals try simp only [hen, if_true, if_false, ↓reduceIte] at h
   all_goals simp only [enters_run, enters_seek] at hen h ⊢
   case pos.seek.seq L0 a b =>
     by_cases ha : a.hasLabel L0 = true
     all_goals simp only [ha, if_true, if_false, ↓reduceIte] at h
     all_goals shape_split
     all_goals shape_fin
   case pos.run.print items p =>
     have hp := printItems_outcome s items
     shape_split
     all_goals first
       | shape_fin
       | (rw [h] at hp; simp [Outcome.isFail] at hp)
   all_goals shape_split
   all_goals first | contradiction | shape_fin))

theorem shape_exec_notHere (n : Nat) (ih : Shape n) {P st m s s'} (h : exec (n + 1) P st m s = (s', .notHere)) :
    Ok (m.enters st) st.hasLabel .notHere := by
  obtain ⟨ihE, ihC, ihK, ihS, ihF⟩ := ih
  shape_exec

theorem shape_exec_jump (n : Nat) (ih : Shape n) {P st m s s' L} (h : exec (n + 1) P st m s = (s', .jump L)) :
    Ok (m.enters st) st.hasLabel (.jump L) := by
  obtain ⟨ihE, ihC, ihK, ihS, ihF⟩ := ih
  shape_exec

theorem shape_succ (n : Nat) (ih : Shape n) : Shape (n + 1) := by
  refine ⟨?_, ?_, ?_, ?_, ?_⟩
  · intro P st m s s' o h
    cases o with
    | notHere => exact shape_exec_notHere n ih h
    | jump L => exact shape_exec_jump n ih h
    | _ => simp [Ok]
  · obtain ⟨ihE, ihC, ihK, ihS, ihF⟩ := ih
    intro P p subj cs s s' o h
    rintro rfl
    cases cs
    all_goals unfold execCases at h
    all_goals shape_split
    all_goals first | contradiction | shape_fin
  · obtain ⟨ihE, ihC, ihK, ihS, ihF⟩ := ih
    intro P cs L s s' o h ho
    subst ho
    cases cs
    all_goals unfold seekCases at h
    all_goals shape_split
    all_goals first | contradiction | shape_fin
  · obtain ⟨ihE, ihC, ihK, ihS, ihF⟩ := ih
    intro P cs L s s' o h
    cases o with
    | notHere =>
      unfold selectSeek at h
      shape_split
      all_goals first | contradiction | shape_fin
    | jump L =>
      unfold selectSeek at h
      shape_split
      all_goals first | contradiction | shape_fin
    | _ => simp [Ok]
  · obtain ⟨ihE, ihC, ihK, ihS, ihF⟩ := ih
    intro P x t hv sv up body p m s s' o h
    cases o with
    | notHere =>
      cases m
      all_goals unfold forIter at h
      all_goals simp only [enters_run, enters_seek] at h ⊢
      all_goals shape_split
      all_goals first | contradiction | shape_fin
    | jump L =>
      cases m
      all_goals unfold forIter at h
      all_goals simp only [enters_run, enters_seek] at h ⊢
      all_goals shape_split
      all_goals first | contradiction | shape_fin
    | _ => simp [Ok]

theorem shape_all : ∀ n, Shape n
  | 0 => shape_zero
  | n + 1 => shape_succ n (shape_all n)

/-- **`notHere` is the answer of exactly the statements that are not entered**: a statement entered in its mode
(`run`, or `seek L` with `L` a label inside it) never answers `notHere` — whatever the nesting: a label inside a FOR body
or a SELECT block sought from outside answers `illFormed`, not `notHere`. -/
theorem exec_enters_ne_notHere {n P st m s s' o} (h : exec n P st m s = (s', o)) (hen : m.enters st = true) :
    o ≠ .notHere := by
  rintro rfl
  have := ((shape_all n).1 h).1 rfl
  rw [hen] at this
  cases this

theorem exec_run_ne_notHere {n P st s s' o} (h : exec n P st .run s = (s', o)) : o ≠ .notHere :=
  exec_enters_ne_notHere h rfl

theorem exec_seek_ne_notHere {n P st L s s' o} (h : exec n P st (.seek L) s = (s', o)) (hL : st.hasLabel L = true) :
    o ≠ .notHere :=
  exec_enters_ne_notHere h hL

/-- **A statement handles the jumps to its own labels**: a `jump L` that comes out of a statement names a label that is
not inside it (the constructs restart themselves for their own labels; a FOR re-enters the body of the current iteration, a
SELECT its blocks). -/
theorem exec_jump_not_own_label {n P st m s s' L} (h : exec n P st m s = (s', .jump L)) : st.hasLabel L = false :=
  ((shape_all n).1 h).2 L rfl

theorem forIter_jump_not_own_label {n P x t hv sv up body p m s s' L}
    (h : forIter n P x t hv sv up body p m s = (s', .jump L)) : body.hasLabel L = false :=
  ((shape_all n).2.2.2.2 h).2 L rfl

theorem forIter_ne_notHere {n P x t hv sv up body p m s s' o}
    (h : forIter n P x t hv sv up body p m s = (s', o)) (hen : m.enters body = true) : o ≠ .notHere := by
  rintro rfl
  have := ((shape_all n).2.2.2.2 h).1 rfl
  rw [hen] at this
  cases this

theorem selectSeek_jump_not_own_label {n P cs L0 s s' L} (h : selectSeek n P cs L0 s = (s', .jump L)) :
    cs.hasLabel L = false :=
  ((shape_all n).2.2.2.1 h).2 L rfl

theorem execCases_ne_notHere {n P p subj cs s s' o} (h : execCases n P p subj cs s = (s', o)) : o ≠ .notHere :=
  (shape_all n).2.1 h

/-- a statement that is not entered answers `notHere` and leaves the state unchanged (any fuel > 0) -/
theorem exec_not_entered (n : Nat) (P st : Stmt) (m : Mode) (s : St) (hen : m.enters st = false) :
    exec (n + 1) P st m s = (s, .notHere) := by
  cases m with
  | run => cases hen
  | seek L =>
    simp only [enters_seek] at hen
    cases st <;> unfold exec <;> simp_all

/-- in `seek L` mode a statement that does not contain the label `L` does nothing and answers `notHere` -/
theorem exec_seek_noLabel (n : Nat) (P st : Stmt) (L : Nat) (s : St) (hL : st.hasLabel L = false) :
    exec (n + 1) P st (.seek L) s = (s, .notHere) :=
  exec_not_entered n P st (.seek L) s hL

/-- with fuel left, `notHere` is answered exactly by the statements that are not entered, and the state is unchanged -/
theorem exec_notHere_iff (n : Nat) (P st : Stmt) (m : Mode) (s : St) :
    (exec (n + 1) P st m s).2 = .notHere ↔ m.enters st = false := by
  constructor
  · intro h
    cases hen : m.enters st with
    | false => rfl
    | true => exact absurd h (exec_enters_ne_notHere (o := (exec (n + 1) P st m s).2) rfl hen)
  · intro hen
    rw [exec_not_entered n P st m s hen]

theorem run_ne_notHere (n : Nat) (prog : Program) : (run n prog).2 ≠ .notHere := by
  unfold run
  generalize hr : exec n prog.body prog.body .run (St.init prog) = r
  obtain ⟨s1, o1⟩ := r
  have := exec_run_ne_notHere hr
  cases o1 <;> simp_all

/-! ## the constructs as equations (for `rw` / `simp only`) -/

/-- the jump-handling rule of `seq` and IF: a `jump L` to a label of `me` restarts `me` in `seek L` mode (one unit of fuel
less), every other answer is passed on -/
def catchJump (n : Nat) (P me : Stmt) : St × Outcome → St × Outcome
  | (s', .jump L) => if me.hasLabel L then exec n P me (.seek L) s' else (s', .jump L)
  | r => r

/-- `b` runs after a statement that ended normally; every other answer is passed on -/
def thenRun (n : Nat) (P b : Stmt) : St × Outcome → St × Outcome
  | (s', .normal) => exec n P b .run s'
  | r => r

/-- what a loop (`me`, WHILE or DO with the condition on top) does with the answer of its body -/
def loopNext (n : Nat) (P me body : Stmt) : St × Outcome → St × Outcome
  | (s', .normal) => exec n P me .run s'
  | (s', .jump L) => if body.hasLabel L then exec n P me (.seek L) s' else (s', .jump L)
  | r => r

/-- what a FOR round does with the answer of its body: increment and next round; a jump to a label of the body re-enters
the body *of the current round* in seek mode (same limit, step, direction; the counter is whatever the state holds); every
other answer — `ret`, END, errors, a jump to a label outside — ends the loop with the state as it is -/
def forNext (n : Nat) (P : Stmt) (x : Nat) (t : Ty) (h sv : Val) (up : Bool) (body : Stmt) (p : Pos) :
    St × Outcome → St × Outcome
  | (s', .normal) =>
    match (plus (s'.env.getD x (zeroOf t)) sv).bind (fun v => cast v t) with
    | .ok v => forIter n P x t h sv up body p .run (s'.set x v)
    | .err e => (s', .error (codeOf e) p)
    | .inexact => (s', .inexact)
  | (s', .jump L) => if body.hasLabel L then forIter n P x t h sv up body p (.seek L) s' else (s', .jump L)
  | r => r

/-- what GOSUB makes of the answer of the nested run -/
def gosubAnswer : St × Outcome → St × Outcome
  | (s', .ret _) => (s', .normal)
  | (s', .normal) => (s', .halted)
  | (s', .halted) => (s', .halted)
  | (s', .jump _) => (s', .illFormed)
  | (s', .notHere) => (s', .illFormed)
  | r => r

/-- answers that every construct passes on unchanged, with the state as it is: everything except `normal` and `jump` -/
def Outcome.passes : Outcome → Bool
  | .normal => false
  | .jump _ => false
  | _ => true

theorem catchJump_own {n P me s' L} (h : me.hasLabel L = true) :
    catchJump n P me (s', .jump L) = exec n P me (.seek L) s' := by simp [catchJump, h]
theorem catchJump_other {n P me s' L} (h : me.hasLabel L = false) :
    catchJump n P me (s', .jump L) = (s', .jump L) := by simp [catchJump, h]
theorem catchJump_normal {n P me s'} : catchJump n P me (s', .normal) = (s', .normal) := rfl
theorem catchJump_passes {n P me s' o} (h : Outcome.passes o = true) : catchJump n P me (s', o) = (s', o) := by
  cases o <;> first | rfl | cases h
theorem thenRun_normal {n P b s'} : thenRun n P b (s', .normal) = exec n P b .run s' := rfl
theorem thenRun_jump {n P b s' L} : thenRun n P b (s', .jump L) = (s', .jump L) := rfl
theorem thenRun_passes {n P b s' o} (h : Outcome.passes o = true) : thenRun n P b (s', o) = (s', o) := by
  cases o <;> first | rfl | cases h
theorem loopNext_normal {n P me body s'} : loopNext n P me body (s', .normal) = exec n P me .run s' := rfl
theorem loopNext_own {n P me body s' L} (h : body.hasLabel L = true) :
    loopNext n P me body (s', .jump L) = exec n P me (.seek L) s' := by simp [loopNext, h]
theorem loopNext_other {n P me body s' L} (h : body.hasLabel L = false) :
    loopNext n P me body (s', .jump L) = (s', .jump L) := by simp [loopNext, h]
theorem loopNext_passes {n P me body s' o} (h : Outcome.passes o = true) : loopNext n P me body (s', o) = (s', o) := by
  cases o <;> first | rfl | cases h
theorem forNext_own {n P x t hv sv up body p s' L} (h : body.hasLabel L = true) :
    forNext n P x t hv sv up body p (s', .jump L) = forIter n P x t hv sv up body p (.seek L) s' := by
  simp [forNext, h]
theorem forNext_other {n P x t hv sv up body p s' L} (h : body.hasLabel L = false) :
    forNext n P x t hv sv up body p (s', .jump L) = (s', .jump L) := by simp [forNext, h]
theorem forNext_passes {n P x t hv sv up body p s' o} (h : Outcome.passes o = true) :
    forNext n P x t hv sv up body p (s', o) = (s', o) := by
  cases o <;> first | rfl | cases h
theorem forNext_normal {n P x t hv sv up body p s' v}
    (h : (plus (s'.env.getD x (zeroOf t)) sv).bind (fun v => cast v t) = .ok v) :
    forNext n P x t hv sv up body p (s', .normal) = forIter n P x t hv sv up body p .run (s'.set x v) := by
  simp only [forNext, h]
theorem gosubAnswer_ret {s' q} : gosubAnswer (s', .ret q) = (s', .normal) := rfl

theorem exec_seq_run (n P a b s) :
    exec (n + 1) P (.seq a b) .run s = catchJump n P (.seq a b) (thenRun n P b (exec n P a .run s)) := by
  rw [exec]; simp only [enters_run, if_true]; rfl
theorem exec_seq_seek_left (n P a b L s) (h : a.hasLabel L = true) :
    exec (n + 1) P (.seq a b) (.seek L) s = catchJump n P (.seq a b) (thenRun n P b (exec n P a (.seek L) s)) := by
  have hen : (Mode.seek L).enters (.seq a b) = true := by simp [h]
  have hea : (Mode.seek L).enters a = true := h
  rw [exec]; simp only [hen, hea, if_true]; rfl
theorem exec_seq_seek_right (n P a b L s) (ha : a.hasLabel L = false) (hb : b.hasLabel L = true) :
    exec (n + 1) P (.seq a b) (.seek L) s = catchJump n P (.seq a b) (exec n P b (.seek L) s) := by
  have hen : (Mode.seek L).enters (.seq a b) = true := by simp [hb]
  have hea : (Mode.seek L).enters a = false := ha
  rw [exec]; simp only [hen, hea, if_true, Bool.false_eq_true, if_false]; rfl
theorem exec_label_seek (n P L s) : exec (n + 1) P (.label L) (.seek L) s = (s, .normal) := by
  rw [exec]; simp
theorem exec_label_run (n P L s) : exec (n + 1) P (.label L) .run s = (s, .normal) := by
  rw [exec]
theorem exec_goto (n P L s) : exec (n + 1) P (.goto L) .run s = (s, .jump L) := by
  rw [exec]
theorem exec_ret (n P p s) : exec (n + 1) P (.ret p) .run s = (s, .ret p) := by
  rw [exec]
theorem exec_end (n P p s) : exec (n + 1) P (.end_ p) .run s = (s, .halted) := by
  rw [exec]
theorem exec_skip (n P s) : exec (n + 1) P .skip .run s = (s, .normal) := by
  rw [exec]
theorem exec_gosub (n P L s) : exec (n + 1) P (.gosub L) .run s = gosubAnswer (exec n P P (.seek L) s) := by
  rw [exec]; rfl

theorem exec_ifs_run_true (n P c thn els p s) (hc : evalCond s.env c = .ok true) :
    exec (n + 1) P (.ifs c thn els p) .run s = catchJump n P (.ifs c thn els p) (exec n P thn .run s) := by
  rw [exec]; simp only [enters_run, if_true, hc]; rfl
theorem exec_ifs_run_false (n P c thn els p s) (hc : evalCond s.env c = .ok false) :
    exec (n + 1) P (.ifs c thn els p) .run s = catchJump n P (.ifs c thn els p) (exec n P els .run s) := by
  rw [exec]; simp only [enters_run, if_true, hc]; rfl
theorem exec_ifs_seek_then (n P c thn els p L s) (h : thn.hasLabel L = true) :
    exec (n + 1) P (.ifs c thn els p) (.seek L) s = catchJump n P (.ifs c thn els p) (exec n P thn (.seek L) s) := by
  have hen : (Mode.seek L).enters (.ifs c thn els p) = true := by simp [h]
  rw [exec]; simp only [hen, h, if_true]; rfl
theorem exec_ifs_seek_else (n P c thn els p L s) (h : thn.hasLabel L = false) (h2 : els.hasLabel L = true) :
    exec (n + 1) P (.ifs c thn els p) (.seek L) s = catchJump n P (.ifs c thn els p) (exec n P els (.seek L) s) := by
  have hen : (Mode.seek L).enters (.ifs c thn els p) = true := by simp [h2]
  rw [exec]; simp only [hen, h, if_true, Bool.false_eq_true, if_false]; rfl

theorem exec_while_run_true (n P c body p s) (hc : evalCond s.env c = .ok true) :
    exec (n + 1) P (.while c body p) .run s = loopNext n P (.while c body p) body (exec n P body .run s) := by
  rw [exec]; simp only [enters_run, if_true, hc]; rfl
theorem exec_while_seek (n P c body p L s) (h : body.hasLabel L = true) :
    exec (n + 1) P (.while c body p) (.seek L) s = loopNext n P (.while c body p) body (exec n P body (.seek L) s) := by
  have hen : (Mode.seek L).enters (.while c body p) = true := by simp [h]
  rw [exec]; simp only [hen, if_true]; rfl
theorem exec_doTop_run_enter (n P c u body p s b) (hc : evalCond s.env c = .ok b) (hb : (b != u) = true) :
    exec (n + 1) P (.doLoop c true u body p) .run s =
      loopNext n P (.doLoop c true u body p) body (exec n P body .run s) := by
  rw [exec]; simp only [enters_run, if_true, hc, hb]; rfl
theorem exec_doTop_seek (n P c u body p L s) (h : body.hasLabel L = true) :
    exec (n + 1) P (.doLoop c true u body p) (.seek L) s =
      loopNext n P (.doLoop c true u body p) body (exec n P body (.seek L) s) := by
  have hen : (Mode.seek L).enters (.doLoop c true u body p) = true := by simp [h]
  rw [exec]; simp only [hen, if_true]
  cases u <;> rfl

theorem forIter_run (n P x t hv sv up body p s)
    (ht : relTest p (if up then .lessOrEqual else .greaterOrEqual) (s.env.getD x (zeroOf t)) hv = .ok true) :
    forIter (n + 1) P x t hv sv up body p .run s = forNext n P x t hv sv up body p (exec n P body .run s) := by
  rw [forIter]; simp only [ht]; rfl
theorem forIter_seek (n P x t hv sv up body p L s) :
    forIter (n + 1) P x t hv sv up body p (.seek L) s = forNext n P x t hv sv up body p (exec n P body (.seek L) s) := by
  rw [forIter]; rfl
theorem forIter_run_done (n P x t hv sv up body p s)
    (ht : relTest p (if up then .lessOrEqual else .greaterOrEqual) (s.env.getD x (zeroOf t)) hv = .ok false) :
    forIter (n + 1) P x t hv sv up body p .run s = (s, .normal) := by
  rw [forIter]; simp only [ht]
theorem exec_forLoop_nostep (n P x t lo hi body p s l hv) (hl : evalTo s.env lo t = .ok l)
    (hh : evalTo (s.set x l).env hi t = .ok hv) :
    exec (n + 1) P (.forLoop x t lo hi none body p) .run s =
      forIter n P x t hv (.int 1) true body p .run (s.set x l) := by
  rw [exec]; simp only [hl, hh]

end RbThm.JmpLRef
