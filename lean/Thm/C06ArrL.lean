import Thm.C06
import Thm.C06Core
import Thm.ArrLSim
import Thm.ArrLProps
/-!
C06 over the arrays layer (`RbModel.ArrL.Ref`: core language + arrays of scalars with run-time bounds, REDIM, element
read / assignment / READ target, LBOUND / UBOUND).

An array of the reference semantics is a finite map: the cells stored so far, every other element of the index box reads
as zero of the element type.  `Good` extends the invariant of `C06Core` to every element of every array: every stored
cell AND the default value are values of the element type within its range (and the declared bounds are INTEGERs, so
LBOUND / UBOUND are in range too).

* `exec_inrange` — every statement, any fuel, **any outcome** (`illFormed` and `tooBig` included): `Good sc s → Good sc s'`.
* `elem_store_converts` — `a(i…) = e` stores the conversion of the value of `e` to the element type, or stops with the
  conversion's error (Overflow = 6) and stores nothing; `elem_overflow_iff`.
* `read_into_element_inrange` — `READ a(i…)`: the DATA item converted to the element type, or the error, nothing stored.
* `run_inrange`, `arrl_run_inrange` (through `ArrL.compile_correct` to the VM model: every element of every VM array).
-/
namespace RbThm.C06ArrL
set_option linter.unusedVariables false
set_option linter.unusedSimpArgs false
open RbModel RbModel.Num RbModel.ArrL RbModel.ArrL.Ref
open RbModel.Ast (Pos)
open RbThm.C06 RbThm.ArrLNum
open RbThm.ArrLSim (Scope EWf IdxWf ItemsWf CaseWf CondsWf DimsWf TargetWf)

/-! ### hypotheses: literals of the stored expressions and DATA items are values of their own types (decidable) -/

/-- every literal that can reach a store is in range for its own tag: an element or a bound read from an array needs
nothing of its subscripts (the value comes from the array, which the invariant covers) -/
def litsE : ArrL.Expr → Bool
  | .lit v _ => decide v.InRange
  | .var _ _ _ => true
  | .un _ e _ => litsE e
  | .bin _ l r _ _ => litsE l && litsE r
  | .paren e _ => litsE e
  | .elem _ _ _ _ => true
  | .bound _ _ _ _ _ => true
  | .boundD _ _ _ _ _ _ => true

/-- the bound expressions of a DIM (their values become the declared bounds) -/
def litsD : Dims → Bool
  | .nil => true
  | .cons none hi rest => litsE hi && litsD rest
  | .cons (some lo) hi rest => litsE lo && litsE hi && litsD rest

mutual
/-- the expressions whose values are stored (assigned expressions, FOR start values, DIM bounds) have in-range literals -/
def rangeB : Stmt → Bool
  | .skip => true
  | .seq a b => rangeB a && rangeB b
  | .assign _ _ e _ => litsE e
  | .dimArr _ _ dims _ => litsD dims
  | .assignElem _ _ _ e _ => litsE e
  | .print _ _ => true
  | .read _ _ => true
  | .ifs _ thn els _ => rangeB thn && rangeB els
  | .select _ cases _ => rangeCB cases
  | .forLoop _ _ lo _ _ body _ => litsE lo && rangeB body
  | .while _ body _ => rangeB body
  | .doLoop _ _ _ body _ => rangeB body
  | .end_ _ => true
def rangeCB : Cases → Bool
  | .nil => true
  | .else_ body => rangeB body
  | .case _ body rest => rangeB body && rangeCB rest
end

/-- **the range premise of a whole program** (decidable) -/
def progRangeB (P : Program) : Bool := rangeB P.body && P.data.all (fun v => decide v.InRange)

/-! ### static well-formedness on the reference syntax -/

mutual
/-- what the invariant needs of a statement of the reference syntax -/
def WfA (sc : Scope) : Stmt → Prop
  | .skip => True
  | .seq a b => WfA sc a ∧ WfA sc b
  | .assign x t e _ => sc.slots[x]? = some t ∧ EWf sc e
  | .dimArr a t dims _ => sc.arrs[a]? = some t ∧ DimsWf sc dims
  | .assignElem a t _ e _ => sc.arrs[a]? = some t ∧ EWf sc e
  | .print _ _ => True
  | .read tg _ => TargetWf sc tg
  | .ifs _ thn els _ => WfA sc thn ∧ WfA sc els
  | .select _ cases _ => WfAC sc cases
  | .forLoop x t lo _ _ body _ => sc.slots[x]? = some t ∧ EWf sc lo ∧ WfA sc body
  | .while _ body _ => WfA sc body
  | .doLoop _ _ _ body _ => WfA sc body
  | .end_ _ => True
def WfAC (sc : Scope) : Cases → Prop
  | .nil => True
  | .else_ body => WfA sc body
  | .case _ body rest => WfA sc body ∧ WfAC sc rest
end

/-! ### the invariant -/

/-- an environment over a slot table: every slot holds a value of its declared type, every value is in range -/
def GoodEnv (sl : List Ty) (env : List Val) : Prop := Typed sl env ∧ ∀ v ∈ env, v.InRange

/-- an array of element type `t`: **every stored cell holds a value of type `t` within its range**, the default value
(what every other element of the box reads as) is zero of type `t`, and the declared bounds are INTEGERs -/
structure GoodArr (t : Ty) (A : RArr) : Prop where
  ty : A.ty = t
  cells : ∀ c ∈ A.cells, c.2.tag = t ∧ c.2.InRange
  bounds : ∀ b ∈ A.bounds, inIntRange b.1 = true ∧ inIntRange b.2 = true

/-- the arrays over the array table: every dimensioned array is good for its declared element type -/
def GoodArrs (al : List Ty) (arrs : List (Option RArr)) : Prop :=
  arrs.length = al.length ∧ ∀ (a : Nat) (t : Ty) (A : RArr), al[a]? = some t → arrs[a]? = some (some A) → GoodArr t A

/-- **the invariant**: every scalar variable, every element of every array and every DATA item holds a value of its
declared type within that type's range -/
structure Good (sc : Scope) (s : St) : Prop where
  env : GoodEnv sc.slots s.env
  arrs : GoodArrs sc.arrs s.arrs
  data : ∀ v ∈ s.data, v.InRange

/-! ### helper lemmas -/

theorem zeroOf_inRange (t : Ty) : (zeroOf t).InRange := by cases t <;> decide +kernel

theorem zeroOf_tag (t : Ty) : (zeroOf t).tag = t := by cases t <;> rfl

theorem GoodEnv.getD {sl : List Ty} {env : List Val} (h : GoodEnv sl env) {x : Nat} {t : Ty} (hx : sl[x]? = some t)
    (d : Val) : (env.getD x d).tag = t ∧ (env.getD x d).InRange := by
  obtain ⟨v, hv, ht⟩ := h.1.2 x t hx
  simp only [List.getD, hv, Option.getD_some]
  exact ⟨ht, h.2 v (List.mem_of_getElem? hv)⟩

theorem GoodEnv.set {sl : List Ty} {env : List Val} (h : GoodEnv sl env) {x : Nat} {t : Ty} {v : Val}
    (hx : sl[x]? = some t) (ht : v.tag = t) (hr : v.InRange) : GoodEnv sl (env.set x v) :=
  ⟨typed_set h.1 hx ht, RbThm.C06Core.set_inRange h.2 x hr⟩

theorem lookupCell_mem : ∀ (cells : List (List Int × Val)) (idx : List Int) (v : Val),
    lookupCell cells idx = some v → (idx, v) ∈ cells
  | [], _, _, h => by simp [lookupCell] at h
  | (k, w) :: rest, idx, v, h => by
    simp only [lookupCell] at h
    by_cases hk : k = idx
    · simp only [hk, if_true, Option.some.injEq] at h
      subst hk; subst h
      exact List.mem_cons_self ..
    · simp only [hk, if_false] at h
      exact List.mem_cons_of_mem _ (lookupCell_mem rest idx v h)

/-- **every element** of a good array — stored or not, inside the box or not — reads as a value of the element type within
its range -/
theorem GoodArr.get {t : Ty} {A : RArr} (h : GoodArr t A) (idx : List Int) : (A.get idx).tag = t ∧ (A.get idx).InRange := by
  unfold RArr.get
  cases hl : lookupCell A.cells idx with
  | none =>
    simp only [Option.getD_none]
    rw [h.ty]
    exact ⟨zeroOf_tag t, zeroOf_inRange t⟩
  | some v =>
    simp only [Option.getD_some]
    exact h.cells _ (lookupCell_mem _ _ _ hl)

/-- the default value of a good array -/
theorem GoodArr.default {t : Ty} {A : RArr} (h : GoodArr t A) : (zeroOf A.ty).tag = t ∧ (zeroOf A.ty).InRange := by
  rw [h.ty]; exact ⟨zeroOf_tag t, zeroOf_inRange t⟩

theorem GoodArr.set {t : Ty} {A : RArr} (h : GoodArr t A) (idx : List Int) {v : Val} (ht : v.tag = t) (hr : v.InRange) :
    GoodArr t (A.set idx v) := by
  refine ⟨h.ty, ?_, h.bounds⟩
  intro c hc
  simp only [RArr.set, List.mem_cons, List.mem_filter] at hc
  rcases hc with rfl | ⟨hc, _⟩
  · exact ⟨ht, hr⟩
  · exact h.cells c hc

/-- a freshly dimensioned array -/
theorem goodArr_new (t : Ty) (bounds : List (Int × Int))
    (hb : ∀ b ∈ bounds, inIntRange b.1 = true ∧ inIntRange b.2 = true) : GoodArr t ⟨t, bounds, []⟩ :=
  ⟨rfl, (fun c hc => by cases hc), hb⟩

theorem GoodArrs.set {al : List Ty} {arrs : List (Option RArr)} (h : GoodArrs al arrs) {a : Nat} {t : Ty} {A : RArr}
    (ha : al[a]? = some t) (hA : GoodArr t A) : GoodArrs al (arrs.set a (some A)) := by
  refine ⟨by rw [List.length_set]; exact h.1, ?_⟩
  intro b u B hb hB
  by_cases hab : a = b
  · subst hab
    have hlt : a < arrs.length := by rw [h.1]; exact (List.getElem?_eq_some_iff.mp ha).1
    rw [List.getElem?_set_self hlt] at hB
    have hu : u = t := by rw [ha] at hb; injection hb with hb; exact hb.symm
    have hBA : B = A := by injection hB with hB; injection hB with hB; exact hB.symm
    rw [hu, hBA]; exact hA
  · rw [List.getElem?_set_ne hab] at hB
    exact h.2 b u B hb hB

theorem getArr_ok {arrs : List (Option RArr)} {a : Nat} {A : RArr} (h : getArr arrs a = .ok A) :
    arrs[a]? = some (some A) := by
  unfold getArr at h
  split at h
  · next B hB => injection h with h; subst h; exact hB
  · cases h

theorem eres_bind_ok {α β : Type} {r : ERes α} {f : α → ERes β} {b : β} (h : r.bind f = .ok b) :
    ∃ a, r = .ok a ∧ f a = .ok b := by
  cases r with
  | ok a => exact ⟨a, rfl, h⟩
  | err c p => cases h
  | inexact => cases h
  | illFormed => cases h

theorem lift_ok {p : Pos} {r : Res Val} {v : Val} (h : lift p r = .ok v) : r = .ok v := by
  cases r with
  | ok a => simp only [lift] at h; cases h; rfl
  | err e => cases h
  | inexact => cases h

theorem toIndex_ok {p : Pos} {r : Res Val} {i : Int} (h : toIndex p r = .ok i) : r = .ok (.int i) := by
  unfold toIndex at h
  split at h <;> first | (injection h with h; subst h; rfl) | cases h

/-- a bound an array reports is an INTEGER in range -/
theorem boundOf_good {t : Ty} {A : RArr} (h : GoodArr t A) (upper : Bool) (d : Int) (p : Pos) (w : Val)
    (hb : boundOf upper A d p = .ok w) : w.tag = .int ∧ w.InRange := by
  unfold boundOf at hb
  split at hb
  · cases hb
  · split at hb
    · next lo hi hg =>
      injection hb with hb; subst hb
      have hm := h.bounds _ (List.mem_of_getElem? hg)
      refine ⟨rfl, ?_⟩
      cases upper
      · exact hm.1
      · exact hm.2
    · cases hb

/-! ### expressions -/

/-- **expressions evaluate to values of their static type within its range**: variables and array elements because the
state satisfies the invariant, operator results by the value-level theorems of `Thm/C06.lean`, LBOUND / UBOUND because the
declared bounds are INTEGERs -/
theorem eval_good {sc : Scope} {s : St} (hg : Good sc s) : ∀ (e : ArrL.Expr) (v : Val), EWf sc e → litsE e = true →
    ArrL.Ref.eval s.env s.arrs e = .ok v → v.tag = e.ty ∧ v.InRange
  | .lit w p, v, _, hl, h => by
    simp only [ArrL.Ref.eval] at h
    injection h with h; subst h
    exact ⟨rfl, by simpa [litsE] using hl⟩
  | .var x t p, v, hw, _, h => by
    simp only [ArrL.Ref.eval] at h
    injection h with h; subst h
    simp only [EWf] at hw
    exact hg.env.getD hw _
  | .un op e p, v, hw, hl, h => by
    simp only [EWf] at hw
    simp only [litsE] at hl
    cases op with
    | neg =>
      simp only [ArrL.Ref.eval] at h
      obtain ⟨a, ha, hn⟩ := eres_bind_ok h
      obtain ⟨ht, hr⟩ := eval_good hg e a hw hl ha
      obtain ⟨h1, h2⟩ := negate_typed a v hr (lift_ok hn)
      exact ⟨by rw [h1]; exact ht, h2⟩
    | not =>
      simp only [ArrL.Ref.eval] at h
      obtain ⟨a, ha, hn⟩ := eres_bind_ok h
      obtain ⟨ht, hr⟩ := eval_good hg e a hw hl ha
      obtain ⟨h1, h2⟩ := unaryNot_typed a v hr (lift_ok hn)
      exact ⟨by rw [h1]; exact ht, h2⟩
  | .bin op l r t p, v, hw, hl, h => by
    simp only [EWf] at hw
    simp only [litsE, Bool.and_eq_true] at hl
    simp only [ArrL.Ref.eval] at h
    obtain ⟨a, ha, h⟩ := eres_bind_ok h
    obtain ⟨b, hb, h⟩ := eres_bind_ok h
    have h := lift_ok h
    obtain ⟨hta, hra⟩ := eval_good hg l a hw.1 hl.1 ha
    obtain ⟨htb, hrb⟩ := eval_good hg r b hw.2.1 hl.2 hb
    exact ⟨RbThm.ArrLSim.binStep_tag op l r t a b v hta htb hw.2.2 h,
      RbThm.C06Core.binStep_inRange op t a b v hra hrb h⟩
  | .paren e p, v, hw, hl, h => by
    simp only [EWf] at hw
    simp only [litsE] at hl
    simp only [ArrL.Ref.eval] at h
    exact eval_good hg e v hw hl h
  | .elem a idx t p, v, hw, _, h => by
    simp only [EWf] at hw
    simp only [ArrL.Ref.eval] at h
    obtain ⟨is, _, h⟩ := eres_bind_ok h
    obtain ⟨A, hA, h⟩ := eres_bind_ok h
    split at h
    · injection h with h; subst h
      exact (hg.arrs.2 a t A hw.1 (getArr_ok hA)).get is
    · cases h
  | .bound upper a t ap p, v, hw, _, h => by
    simp only [EWf] at hw
    simp only [ArrL.Ref.eval] at h
    obtain ⟨A, hA, h⟩ := eres_bind_ok h
    exact boundOf_good (hg.arrs.2 a t A hw (getArr_ok hA)) upper 1 p v h
  | .boundD upper a t ap d p, v, hw, _, h => by
    simp only [EWf] at hw
    simp only [ArrL.Ref.eval] at h
    obtain ⟨A, hA, h⟩ := eres_bind_ok h
    obtain ⟨dv, _, h⟩ := eres_bind_ok h
    obtain ⟨k, _, h⟩ := eres_bind_ok h
    exact boundOf_good (hg.arrs.2 a t A hw.1 (getArr_ok hA)) upper k p v h

/-- evaluate-and-convert yields a value of the target type within its range -/
theorem evalTo_good {sc : Scope} {s : St} (hg : Good sc s) (e : ArrL.Expr) (t : Ty) (v : Val) (hw : EWf sc e)
    (hl : litsE e = true) (h : evalTo s.env s.arrs e t = .ok v) : v.tag = t ∧ v.InRange := by
  unfold evalTo at h
  obtain ⟨a, ha, h⟩ := eres_bind_ok h
  obtain ⟨ht, hr⟩ := eval_good hg e a hw hl ha
  exact storeCast_typed e.ty t a v ht hr (lift_ok h)

/-- the bound expressions of a DIM evaluate to in-range values -/
theorem evalDims_good {sc : Scope} {s : St} (hg : Good sc s) : ∀ (dims : Dims) (vals : List (Val × Val)),
    DimsWf sc dims → litsD dims = true → evalDims s.env s.arrs dims = .ok vals →
    ∀ b ∈ vals, b.1.InRange ∧ b.2.InRange
  | .nil, vals, _, _, h => by
    simp only [evalDims] at h
    injection h with h; subst h
    intro b hb; cases hb
  | .cons none hi rest, vals, hw, hl, h => by
    simp only [DimsWf] at hw
    simp only [litsD, Bool.and_eq_true] at hl
    simp only [evalDims] at h
    obtain ⟨l, hlo, h⟩ := eres_bind_ok h
    obtain ⟨hv, hhi, h⟩ := eres_bind_ok h
    obtain ⟨ds, hds, h⟩ := eres_bind_ok h
    injection h with h; subst h
    injection hlo with hlo; subst hlo
    intro b hb
    rcases List.mem_cons.mp hb with rfl | hb
    · exact ⟨(by decide : (Val.int 0).InRange), (eval_good hg hi hv hw.1 hl.1 hhi).2⟩
    · exact evalDims_good hg rest ds hw.2 hl.2 hds b hb
  | .cons (some lo) hi rest, vals, hw, hl, h => by
    simp only [DimsWf] at hw
    simp only [litsD, Bool.and_eq_true] at hl
    simp only [evalDims] at h
    obtain ⟨l, hlo, h⟩ := eres_bind_ok h
    obtain ⟨hv, hhi, h⟩ := eres_bind_ok h
    obtain ⟨ds, hds, h⟩ := eres_bind_ok h
    injection h with h; subst h
    intro b hb
    rcases List.mem_cons.mp hb with rfl | hb
    · exact ⟨(eval_good hg lo l hw.1 hl.1.1 hlo).2, (eval_good hg hi hv hw.2.1 hl.1.2 hhi).2⟩
    · exact evalDims_good hg rest ds hw.2.2 hl.2 hds b hb

/-- the bounds converted to INTEGER are INTEGERs -/
theorem convDims_good (p : Pos) : ∀ (vals : List (Val × Val)) (bounds : List (Int × Int)),
    (∀ b ∈ vals, b.1.InRange ∧ b.2.InRange) → convDims p vals = .ok bounds →
    ∀ b ∈ bounds, inIntRange b.1 = true ∧ inIntRange b.2 = true
  | [], bounds, _, h => by
    simp only [convDims] at h
    injection h with h; subst h
    intro b hb; cases hb
  | (l, hv) :: rest, bounds, hr, h => by
    simp only [convDims] at h
    obtain ⟨lo, hlo, h⟩ := eres_bind_ok h
    obtain ⟨hi, hhi, h⟩ := eres_bind_ok h
    obtain ⟨ds, hds, h⟩ := eres_bind_ok h
    injection h with h; subst h
    have hm := hr (l, hv) (List.mem_cons_self ..)
    have h1 := (cast_sound l .int (.int lo) hm.1 (toIndex_ok hlo)).2
    have h2 := (cast_sound hv .int (.int hi) hm.2 (toIndex_ok hhi)).2
    intro b hb
    rcases List.mem_cons.mp hb with rfl | hb
    · exact ⟨h1, h2⟩
    · exact convDims_good p rest ds (fun b hb => hr b (List.mem_cons_of_mem _ hb)) hds b hb

/-- `DIM a(…)` / `REDIM a(…)`: the new array is good (no stored cell, default zero of the element type, INTEGER bounds) -/
theorem dimArray_good {sc : Scope} {s : St} (hg : Good sc s) (t : Ty) (dims : Dims) (p : Pos) (A : RArr)
    (hw : DimsWf sc dims) (hl : litsD dims = true) (h : dimArray s t dims p = .ok A) : GoodArr t A := by
  unfold dimArray at h
  split at h
  · next bounds hb =>
    obtain ⟨vals, hv, hc⟩ := eres_bind_ok hb
    have hbs := convDims_good p vals bounds (evalDims_good hg dims vals hw hl hv) hc
    split at h
    · cases h
    · split at h
      · cases h
      · injection h with h; subst h
        exact goodArr_new t bounds hbs
  · cases h

/-- one DATA item converted to the target's type -/
theorem readItem_good {sc : Scope} {s : St} (hg : Good sc s) (t : Ty) (p : Pos) (w : Val)
    (h : readItem s t p = .ok w) : w.tag = t ∧ w.InRange := by
  unfold readItem at h
  split at h
  · cases h
  · next v hd =>
    split at h
    · next w' hc =>
      injection h with h; subst h
      exact cast_sound v t w' (hg.data v (List.mem_of_getElem? hd)) hc
    · cases h
    · cases h

/-! ### the invariant along every run -/

theorem Good.set {sc : Scope} {s : St} (h : Good sc s) {x : Nat} {t : Ty} {w : Val} (hx : sc.slots[x]? = some t)
    (ht : w.tag = t) (hr : w.InRange) : Good sc (s.set x w) :=
  ⟨h.env.set hx ht hr, h.arrs, h.data⟩

theorem Good.setArr {sc : Scope} {s : St} (h : Good sc s) {a : Nat} {t : Ty} {A : RArr} (ha : sc.arrs[a]? = some t)
    (hA : GoodArr t A) : Good sc (s.setArr a A) :=
  ⟨h.env, h.arrs.set ha hA, h.data⟩

theorem Good.congr {sc : Scope} {s s' : St} (h : Good sc s) (he : s'.env = s.env) (ha : s'.arrs = s.arrs)
    (hd : s'.data = s.data) : Good sc s' :=
  ⟨he ▸ h.env, ha ▸ h.arrs, hd ▸ h.data⟩

theorem printItems_same (items : List PrintItem) : ∀ (s s' : St) (o : Outcome),
    printItems s items = (s', o) → s'.env = s.env ∧ s'.arrs = s.arrs ∧ s'.data = s.data := by
  induction items with
  | nil => intro s s' o h; simp only [printItems] at h; cases h; exact ⟨rfl, rfl, rfl⟩
  | cons it rest ih =>
    intro s s' o h
    cases it with
    | comma => simp only [printItems] at h; have := ih _ _ _ h; exact this
    | semicolon => simp only [printItems] at h; exact ih _ _ _ h
    | expr e =>
      simp only [printItems] at h
      cases hev : ArrL.Ref.eval s.env s.arrs e with
      | ok v =>
        simp only [hev] at h
        cases hpv : printValue v with
        | none => simp only [hpv] at h; cases h; exact ⟨rfl, rfl, rfl⟩
        | some pv => simp only [hpv] at h; have := ih _ _ _ h; exact this
      | err c q => simp only [hev] at h; cases h; exact ⟨rfl, rfl, rfl⟩
      | inexact => simp only [hev] at h; cases h; exact ⟨rfl, rfl, rfl⟩
      | illFormed => simp only [hev] at h; cases h; exact ⟨rfl, rfl, rfl⟩

/-- preservation at a given amount of fuel, for the three mutually recursive functions, for every outcome -/
def Pres (sc : Scope) (fuel : Nat) : Prop :=
  (∀ stmt s s' o, WfA sc stmt → rangeB stmt = true → Good sc s → exec fuel stmt s = (s', o) → Good sc s') ∧
  (∀ p subj cs s s' o, WfAC sc cs → rangeCB cs = true → Good sc s → execCases fuel p subj cs s = (s', o) → Good sc s') ∧
  (∀ x t h sv up body p s s' o, sc.slots[x]? = some t → WfA sc body → rangeB body = true → Good sc s →
      forIter fuel x t h sv up body p s = (s', o) → Good sc s')

theorem pres_zero (sc : Scope) : Pres sc 0 := by
  refine ⟨?_, ?_, ?_⟩
  · intro stmt s s' o _ _ hg h; simp only [exec] at h; cases h; exact hg
  · intro p subj cs s s' o _ _ hg h; simp only [execCases] at h; cases h; exact hg
  · intro x t hv sv up body p s s' o _ _ _ hg h; simp only [forIter] at h; cases h; exact hg

/-- the subscripts and the array of an element access -/
theorem idxArr_ok {s : St} {a : Nat} {idx : Exprs} {is : List Int} {A : RArr}
    (h : ((evalIdx s.env s.arrs idx).bind fun is => (getArr s.arrs a).bind fun A => ERes.ok (is, A)) = .ok (is, A)) :
    evalIdx s.env s.arrs idx = .ok is ∧ s.arrs[a]? = some (some A) := by
  obtain ⟨is', h1, h⟩ := eres_bind_ok h
  obtain ⟨A', h2, h⟩ := eres_bind_ok h
  injection h with h
  injection h with h3 h4
  subst h3; subst h4
  exact ⟨h1, getArr_ok h2⟩

theorem pres_succ (sc : Scope) (n : Nat) (ih : Pres sc n) : Pres sc (n + 1) := by
  obtain ⟨ihE, ihC, ihF⟩ := ih
  refine ⟨?_, ?_, ?_⟩
  · intro stmt s s' o hw hr hg h
    cases stmt with
    | skip => simp only [exec] at h; cases h; exact hg
    | seq a b =>
      simp only [WfA] at hw
      simp only [rangeB, Bool.and_eq_true] at hr
      simp only [exec] at h
      generalize hra : exec n a s = r at h
      obtain ⟨s1, o1⟩ := r
      have hg1 := ihE a s s1 o1 hw.1 hr.1 hg hra
      cases o1 with
      | normal => simp only at h; exact ihE b s1 s' o hw.2 hr.2 hg1 h
      | halted => simp only at h; cases h; exact hg1
      | error c q => simp only at h; cases h; exact hg1
      | inexact => simp only at h; cases h; exact hg1
      | outOfFuel => simp only at h; cases h; exact hg1
      | illFormed => simp only at h; cases h; exact hg1
      | tooBig => simp only at h; cases h; exact hg1
    | assign x t e p =>
      simp only [WfA] at hw
      simp only [rangeB] at hr
      simp only [exec] at h
      cases hev : evalTo s.env s.arrs e t with
      | ok v =>
        simp only [hev] at h; cases h
        obtain ⟨h1, h2⟩ := evalTo_good hg e t v hw.2 hr hev
        exact hg.set hw.1 h1 h2
      | err c q => simp only [hev] at h; cases h; exact hg
      | inexact => simp only [hev] at h; cases h; exact hg
      | illFormed => simp only [hev] at h; cases h; exact hg
    | dimArr a t dims p =>
      simp only [WfA] at hw
      simp only [rangeB] at hr
      simp only [exec] at h
      cases hd : dimArray s t dims p with
      | ok A => simp only [hd] at h; cases h; exact hg.setArr hw.1 (dimArray_good hg t dims p A hw.2 hr hd)
      | error o' => simp only [hd] at h; cases h; exact hg
    | assignElem a t idx e p =>
      simp only [WfA] at hw
      simp only [rangeB] at hr
      simp only [exec] at h
      cases hev : evalTo s.env s.arrs e t with
      | ok v =>
        simp only [hev] at h
        obtain ⟨h1, h2⟩ := evalTo_good hg e t v hw.2 hr hev
        cases hia : ((evalIdx s.env s.arrs idx).bind fun is => (getArr s.arrs a).bind fun A => ERes.ok (is, A)) with
        | ok pr =>
          obtain ⟨is, A⟩ := pr
          simp only [hia] at h
          obtain ⟨_, hA⟩ := idxArr_ok hia
          split at h
          · cases h; exact hg.setArr hw.1 ((hg.arrs.2 a t A hw.1 hA).set is h1 h2)
          · cases h; exact hg
        | err c q => simp only [hia] at h; cases h; exact hg
        | inexact => simp only [hia] at h; cases h; exact hg
        | illFormed => simp only [hia] at h; cases h; exact hg
      | err c q => simp only [hev] at h; cases h; exact hg
      | inexact => simp only [hev] at h; cases h; exact hg
      | illFormed => simp only [hev] at h; cases h; exact hg
    | print items p =>
      simp only [exec] at h
      generalize hri : printItems s items = r at h
      obtain ⟨s1, o1⟩ := r
      obtain ⟨he, ha, hd⟩ := printItems_same items s s1 o1 hri
      have hg1 : Good sc s1 := hg.congr he ha hd
      cases o1 with
      | normal =>
        simp only at h
        split at h
        · cases h; exact hg1
        · cases h; exact hg1.congr rfl rfl rfl
      | halted => simp only at h; cases h; exact hg1
      | error c q => simp only at h; cases h; exact hg1
      | inexact => simp only at h; cases h; exact hg1
      | outOfFuel => simp only at h; cases h; exact hg1
      | illFormed => simp only at h; cases h; exact hg1
      | tooBig => simp only at h; cases h; exact hg1
    | read tg p =>
      simp only [WfA] at hw
      cases tg with
      | var x t q =>
        simp only [TargetWf] at hw
        simp only [exec] at h
        cases hri : readItem s t p with
        | ok w =>
          simp only [hri] at h; cases h
          obtain ⟨h1, h2⟩ := readItem_good hg t p w hri
          exact (hg.set hw h1 h2).congr rfl rfl rfl
        | error o' => simp only [hri] at h; cases h; exact hg
      | elem a t idx q =>
        simp only [TargetWf] at hw
        simp only [exec] at h
        cases hia : ((evalIdx s.env s.arrs idx).bind fun is => (getArr s.arrs a).bind fun A => ERes.ok (is, A)) with
        | ok pr =>
          obtain ⟨is, A⟩ := pr
          simp only [hia] at h
          obtain ⟨_, hA⟩ := idxArr_ok hia
          split at h
          · cases hri : readItem s t p with
            | ok w =>
              simp only [hri] at h; cases h
              obtain ⟨h1, h2⟩ := readItem_good hg t p w hri
              exact (hg.setArr hw.1 ((hg.arrs.2 a t A hw.1 hA).set is h1 h2)).congr rfl rfl rfl
            | error o' => simp only [hri] at h; cases h; exact hg
          · cases h; exact hg
        | err c q' => simp only [hia] at h; cases h; exact hg
        | inexact => simp only [hia] at h; cases h; exact hg
        | illFormed => simp only [hia] at h; cases h; exact hg
    | ifs c thn els p =>
      simp only [WfA] at hw
      simp only [rangeB, Bool.and_eq_true] at hr
      simp only [exec] at h
      cases hc : evalCond s c with
      | error o' => simp only [hc] at h; cases h; exact hg
      | ok b =>
        cases b with
        | true => simp only [hc] at h; exact ihE thn s s' o hw.1 hr.1 hg h
        | false => simp only [hc] at h; exact ihE els s s' o hw.2 hr.2 hg h
    | select e cases p =>
      simp only [WfA] at hw
      simp only [rangeB] at hr
      simp only [exec] at h
      cases he : evalE s e with
      | error o' => simp only [he] at h; cases h; exact hg
      | ok subj => simp only [he] at h; exact ihC p subj cases s s' o hw hr hg h
    | forLoop x t lo hi step body p =>
      simp only [WfA] at hw
      simp only [rangeB, Bool.and_eq_true] at hr
      obtain ⟨hx, hlo, hwb⟩ := hw
      simp only [exec] at h
      cases hl : evalTo s.env s.arrs lo t with
      | ok l =>
        simp only [hl] at h
        obtain ⟨l1, l2⟩ := evalTo_good hg lo t l hlo hr.1 hl
        have hg1 : Good sc (s.set x l) := hg.set hx l1 l2
        cases hh : evalTo (s.set x l).env (s.set x l).arrs hi t with
        | ok hv =>
          simp only [hh] at h
          cases step with
          | none => simp only at h; exact ihF x t hv _ true body p _ s' o hx hwb hr.2 hg1 h
          | some se =>
            simp only at h
            cases hs : evalE (s.set x l) se with
            | error o' => simp only [hs] at h; cases h; exact hg1
            | ok sv =>
              simp only [hs] at h
              cases hsg : stepSign p sv with
              | error o' => simp only [hsg] at h; cases h; exact hg1
              | ok sg =>
                cases sg with
                | neg => simp only [hsg] at h; exact ihF x t hv sv false body p _ s' o hx hwb hr.2 hg1 h
                | pos => simp only [hsg] at h; exact ihF x t hv sv true body p _ s' o hx hwb hr.2 hg1 h
                | zero => simp only [hsg] at h; cases h; exact hg1
        | err c q => simp only [hh] at h; cases h; exact hg1
        | inexact => simp only [hh] at h; cases h; exact hg1
        | illFormed => simp only [hh] at h; cases h; exact hg1
      | err c q => simp only [hl] at h; cases h; exact hg
      | inexact => simp only [hl] at h; cases h; exact hg
      | illFormed => simp only [hl] at h; cases h; exact hg
    | «while» c body p =>
      have hw0 := hw
      have hr0 := hr
      simp only [WfA] at hw
      simp only [rangeB] at hr
      simp only [exec] at h
      cases hc : evalCond s c with
      | error o' => simp only [hc] at h; cases h; exact hg
      | ok b =>
        cases b with
        | false => simp only [hc] at h; cases h; exact hg
        | true =>
          simp only [hc] at h
          generalize hrb : exec n body s = r at h
          obtain ⟨s1, o1⟩ := r
          have hg1 := ihE body s s1 o1 hw hr hg hrb
          cases o1 with
          | normal => simp only at h; exact ihE _ s1 s' o hw0 hr0 hg1 h
          | halted => simp only at h; cases h; exact hg1
          | error c q => simp only at h; cases h; exact hg1
          | inexact => simp only at h; cases h; exact hg1
          | outOfFuel => simp only at h; cases h; exact hg1
          | illFormed => simp only at h; cases h; exact hg1
          | tooBig => simp only at h; cases h; exact hg1
    | doLoop c top until_ body p =>
      have hw0 := hw
      have hr0 := hr
      simp only [WfA] at hw
      simp only [rangeB] at hr
      simp only [exec] at h
      cases top with
      | true =>
        simp only [if_true] at h
        cases hc : evalCond s c with
        | error o' => simp only [hc] at h; cases h; exact hg
        | ok b =>
          simp only [hc] at h
          by_cases hb : (b != until_) = true
          · simp only [hb, if_true] at h
            generalize hrb : exec n body s = r at h
            obtain ⟨s1, o1⟩ := r
            have hg1 := ihE body s s1 o1 hw hr hg hrb
            cases o1 with
            | normal => simp only at h; exact ihE _ s1 s' o hw0 hr0 hg1 h
            | halted => simp only at h; cases h; exact hg1
            | error c q => simp only at h; cases h; exact hg1
            | inexact => simp only at h; cases h; exact hg1
            | outOfFuel => simp only at h; cases h; exact hg1
            | illFormed => simp only at h; cases h; exact hg1
            | tooBig => simp only at h; cases h; exact hg1
          · simp only [hb] at h; cases h; exact hg
      | false =>
        simp only [Bool.false_eq_true, if_false] at h
        generalize hrb : exec n body s = r at h
        obtain ⟨s1, o1⟩ := r
        have hg1 := ihE body s s1 o1 hw hr hg hrb
        cases o1 with
        | normal =>
          simp only at h
          cases hc : evalCond s1 c with
          | error o' => simp only [hc] at h; cases h; exact hg1
          | ok b =>
            simp only [hc] at h
            by_cases hb : (b != until_) = true
            · simp only [hb, if_true] at h; exact ihE _ s1 s' o hw0 hr0 hg1 h
            · simp only [hb] at h; cases h; exact hg1
        | halted => simp only at h; cases h; exact hg1
        | error c q => simp only at h; cases h; exact hg1
        | inexact => simp only at h; cases h; exact hg1
        | outOfFuel => simp only at h; cases h; exact hg1
        | illFormed => simp only at h; cases h; exact hg1
        | tooBig => simp only at h; cases h; exact hg1
    | end_ p => simp only [exec] at h; cases h; exact hg
  · intro p subj cs s s' o hw hr hg h
    cases cs with
    | nil => simp only [execCases] at h; cases h; exact hg
    | else_ body =>
      simp only [WfAC] at hw; simp only [rangeCB] at hr
      simp only [execCases] at h; exact ihE body s s' o hw hr hg h
    | case conds body rest =>
      simp only [WfAC] at hw
      simp only [rangeCB, Bool.and_eq_true] at hr
      simp only [execCases] at h
      cases hm : anyMatches s p subj conds with
      | error o' => simp only [hm] at h; cases h; exact hg
      | ok b =>
        cases b with
        | true => simp only [hm] at h; exact ihE body s s' o hw.1 hr.1 hg h
        | false => simp only [hm] at h; exact ihC p subj rest s s' o hw.2 hr.2 hg h
  · intro x t hv sv up body p s s' o hx hwb hrb hg h
    simp only [forIter] at h
    generalize hr0 : relTest p (if up = true then Op.lessOrEqual else Op.greaterOrEqual)
        (s.env.getD x (zeroOf t)) hv = rt at h
    cases rt with
    | error o' => simp only at h; cases h; exact hg
    | ok b =>
      cases b with
      | false => simp only at h; cases h; exact hg
      | true =>
        simp only at h
        generalize hre : exec n body s = r at h
        obtain ⟨s1, o1⟩ := r
        have hg1 := ihE body s s1 o1 hwb hrb hg hre
        cases o1 with
        | normal =>
          simp only at h
          generalize hp : (plus (s1.env.getD x (zeroOf t)) sv).bind (fun v => Num.cast v t) = pr at h
          cases pr with
          | ok v =>
            simp only at h
            obtain ⟨h1, h2⟩ := RbThm.C06Core.increment_good _ sv v t hp
            exact ihF x t hv sv up body p _ s' o hx hwb hrb (hg1.set hx h1 h2) h
          | err e => simp only at h; cases h; exact hg1
          | inexact => simp only at h; cases h; exact hg1
        | halted => simp only at h; cases h; exact hg1
        | error c q => simp only at h; cases h; exact hg1
        | inexact => simp only at h; cases h; exact hg1
        | outOfFuel => simp only at h; cases h; exact hg1
        | illFormed => simp only at h; cases h; exact hg1
        | tooBig => simp only at h; cases h; exact hg1

theorem pres_all (sc : Scope) : ∀ n, Pres sc n
  | 0 => pres_zero sc
  | n + 1 => pres_succ sc n (pres_all sc n)

/-! ### from the layer's premise `ProgWf` (faithful syntax) to the reference syntax -/

open RbThm.ArrLSim (Wf WfElifs WfCases WfTop ProgWf progScope)

theorem wfA_readSeq (sc : Scope) (p : Pos) : ∀ (tgs : List ReadTarget),
    (∀ tg ∈ tgs, TargetWf sc tg) → WfA sc (readSeq p tgs)
  | [], _ => by simp only [readSeq, WfA]
  | tg :: rest, h => by
    simp only [readSeq, WfA]
    exact ⟨h tg (List.mem_cons_self ..), wfA_readSeq sc p rest (fun v hv => h v (List.mem_cons_of_mem _ hv))⟩

mutual
theorem wfA_desugar (sc : Scope) : ∀ (s : SStmt), Wf sc s → WfA sc (desugar s)
  | .skip, _ => by simp only [desugar, WfA]
  | .comment, _ => by simp only [desugar, WfA]
  | .seq a b, h => by
    simp only [Wf] at h
    simp only [desugar, WfA]
    exact ⟨wfA_desugar sc a h.1, wfA_desugar sc b h.2⟩
  | .dim x t p, h => by
    simp only [Wf] at h
    simp only [desugar, WfA, EWf]
    exact ⟨h, trivial⟩
  | .dimArr a t dims p, h => by
    simp only [Wf] at h
    simp only [desugar, WfA]
    exact h
  | .assign x t e p, h => by
    simp only [Wf] at h
    simp only [desugar, WfA]
    exact h
  | .assignElem a t idx e p, h => by
    simp only [Wf] at h
    simp only [desugar, WfA]
    exact ⟨h.1, h.2.2.2⟩
  | .print items p, _ => by simp only [desugar, WfA]
  | .data items p, h => by simp only [Wf] at h
  | .read tgs p, h => by
    simp only [Wf] at h
    simp only [desugar]
    exact wfA_readSeq sc p tgs h
  | .ifBlock c thn elifs hasElse els p, h => by
    simp only [Wf] at h
    simp only [desugar, WfA]
    exact ⟨wfA_desugar sc thn h.2.2.1, wfA_elifs sc elifs _ p h.2.2.2.1 (wfA_desugar sc els h.2.2.2.2.1)⟩
  | .select e cases hasElse els p, h => by
    simp only [Wf] at h
    simp only [desugar, WfA]
    refine wfA_cases sc cases _ h.2.1 ?_
    cases hasElse
    · simp only [Bool.false_eq_true, if_false, WfAC]
    · simp only [if_true, WfAC]; exact wfA_desugar sc els h.2.2.1
  | .forLoop x t lo hi step body p, h => by
    simp only [Wf] at h
    simp only [desugar, WfA]
    exact ⟨h.1, h.2.1, wfA_desugar sc body h.2.2.2.2⟩
  | .while c body p, h => by
    simp only [Wf] at h
    simp only [desugar, WfA]
    exact wfA_desugar sc body h.2.2
  | .doLoop c top u body p, h => by
    simp only [Wf] at h
    simp only [desugar, WfA]
    exact wfA_desugar sc body h.2.2
  | .end_ p, _ => by simp only [desugar, WfA]
theorem wfA_elifs (sc : Scope) : ∀ (e : ElseIfs) (els : Stmt) (p : Pos),
    WfElifs sc e → WfA sc els → WfA sc (desugarElifs e els p)
  | .nil, els, p, _, h => by simp only [desugarElifs]; exact h
  | .cons c body rest, els, p, hw, h => by
    simp only [WfElifs] at hw
    simp only [desugarElifs, WfA]
    exact ⟨wfA_desugar sc body hw.2.2.1, wfA_elifs sc rest els p hw.2.2.2 h⟩
theorem wfA_cases (sc : Scope) : ∀ (cs : SCases) (tail : Cases),
    WfCases sc cs → WfAC sc tail → WfAC sc (desugarCases cs tail)
  | .nil, tail, _, h => by simp only [desugarCases]; exact h
  | .cons conds body rest, tail, hw, h => by
    simp only [WfCases] at hw
    simp only [desugarCases, WfAC]
    exact ⟨wfA_desugar sc body hw.2.2.1, wfA_cases sc rest tail hw.2.2.2 h⟩
end

theorem wfA_top (sc : Scope) : ∀ body : SStmt, WfTop sc body → WfA sc (desugar body)
  | .seq a b, h => by
    simp only [WfTop] at h
    simp only [desugar, WfA]
    exact ⟨wfA_top sc a h.1, wfA_top sc b h.2⟩
  | .data _ _, _ => by simp only [desugar, WfA]
  | .skip, h => wfA_desugar sc _ h
  | .comment, h => wfA_desugar sc _ h
  | .dim _ _ _, h => wfA_desugar sc _ h
  | .dimArr _ _ _ _, h => wfA_desugar sc _ h
  | .assign _ _ _ _, h => wfA_desugar sc _ h
  | .assignElem _ _ _ _ _, h => wfA_desugar sc _ h
  | .print _ _, h => wfA_desugar sc _ h
  | .read _ _, h => wfA_desugar sc _ h
  | .ifBlock _ _ _ _ _ _, h => wfA_desugar sc _ h
  | .select _ _ _ _ _, h => wfA_desugar sc _ h
  | .forLoop _ _ _ _ _ _ _, h => wfA_desugar sc _ h
  | .while _ _ _, h => wfA_desugar sc _ h
  | .doLoop _ _ _ _ _, h => wfA_desugar sc _ h
  | .end_ _, h => wfA_desugar sc _ h

/-! ### the property-level theorems -/

/-- what `Good` says about a single scalar variable -/
theorem Good.var {sc : Scope} {s : St} (h : Good sc s) {x : Nat} {t : Ty} (hx : sc.slots[x]? = some t) :
    ∃ v, s.env[x]? = some v ∧ v.tag = t ∧ v.InRange := by
  obtain ⟨v, hv, ht⟩ := h.env.1.2 x t hx
  exact ⟨v, hv, ht, h.env.2 v (List.mem_of_getElem? hv)⟩

/-- what `Good` says about a single element of a dimensioned array: whatever the subscripts, it reads as a value of the
element type within its range -/
theorem Good.elem {sc : Scope} {s : St} (h : Good sc s) {a : Nat} {t : Ty} {A : RArr} (ha : sc.arrs[a]? = some t)
    (hA : s.arrs[a]? = some (some A)) (idx : List Int) : (A.get idx).tag = t ∧ (A.get idx).InRange :=
  (h.arrs.2 a t A ha hA).get idx

/-- **`exec_inrange`** — every statement of the arrays layer (the core language of `C06Core.exec_inrange` plus DIM / REDIM of
arrays with run-time bounds, element assignment, READ into an element; element reads, LBOUND and UBOUND in any expression),
any amount of fuel, **any outcome** (normal end, END, BASIC error, out of the exact float domain, out of fuel, an array
used before its DIM ran, an array beyond the size limit): if before the statement every scalar variable and every element
of every array holds a value of its declared type within that type's range, then so it does afterwards.
Hypotheses: the statement is well formed (`ArrLSim.Wf`, part of the layer's decidable premise `progWfB`), the literals of
the stored expressions and of the DIM bounds are values of their own types (`rangeB`), the DATA items are in range. -/
theorem exec_inrange (sc : Scope) (fuel : Nat) (stmt : SStmt) (s s' : St) (o : Outcome)
    (hw : Wf sc stmt) (hr : rangeB (desugar stmt) = true) (hg : Good sc s)
    (h : exec fuel (desugar stmt) s = (s', o)) : Good sc s' :=
  (pres_all sc fuel).1 (desugar stmt) s s' o (wfA_desugar sc stmt hw) hr hg h

theorem goodEnv_zero (sl : List Ty) : GoodEnv sl (sl.map zeroOf) := by
  refine ⟨RbThm.ArrLSim.typed_init sl, ?_⟩
  intro v hv
  simp only [List.mem_map] at hv
  obtain ⟨t, _, rfl⟩ := hv
  exact zeroOf_inRange t

theorem good_start (prog : SProgram) (hr : progRangeB prog.toAst = true) :
    Good (progScope prog) (St.init prog.toAst) := by
  refine ⟨goodEnv_zero _, ⟨by simp [St.init, SProgram.toAst, progScope], ?_⟩, ?_⟩
  · intro a t A _ hA
    simp only [St.init, List.getElem?_map] at hA
    cases h : prog.toAst.arrs[a]? with
    | none => rw [h] at hA; cases hA
    | some u => rw [h] at hA; simp at hA
  · simp only [progRangeB, Bool.and_eq_true, List.all_eq_true, decide_eq_true_eq] at hr
    exact hr.2

/-- **`run_inrange`** — whole programs with arrays: however the run ends, every scalar variable and every element of every
array holds a value of its declared type within that type's range -/
theorem run_inrange (prog : SProgram) (fuel : Nat) (hw : ProgWf prog) (hr : progRangeB prog.toAst = true) :
    Good (progScope prog) (ArrL.Ref.run fuel prog.toAst).1 := by
  have hrb : rangeB (desugar prog.body) = true := by
    simp only [progRangeB, Bool.and_eq_true] at hr
    exact hr.1
  exact (pres_all (progScope prog) fuel).1 (desugar prog.body) (St.init prog.toAst) _ _
    (wfA_top (progScope prog) prog.body hw) hrb (good_start prog hr) rfl

/-! ### what is stored in an element is the conversion of the source value, or the run stops with the conversion's error -/

/-- **`elem_store_converts`** — `a(i…) = e`: with `v` the value of `e`, either the conversion of `v` to the element type
(`storeCast`: identity when the static type of `e` is the element type, else `Num.cast`: nearest whole number, ties away
from zero) yields `w`, and — the subscripts being inside the box — exactly `w` is stored in exactly that element (it reads
back as `w`); or the conversion fails with `er` and the statement ends with the error code of `er` (Overflow = 6) at the
position of `e` BEFORE the subscripts are looked at, nothing stored; or the execution leaves the exact domain -/
theorem elem_store_converts (fuel a : Nat) (t : Ty) (idx : Exprs) (e : ArrL.Expr) (p : Pos) (s : St) (v : Val)
    (hev : ArrL.Ref.eval s.env s.arrs e = .ok v) :
    (∃ w, storeCast e.ty t v = .ok w ∧
      (∀ is A, evalIdx s.env s.arrs idx = .ok is → getArr s.arrs a = .ok A → A.inBounds is = true →
        exec (fuel + 1) (.assignElem a t idx e p) s = (s.setArr a (A.set is w), .normal) ∧ (A.set is w).get is = w) ∧
      (∀ is A, evalIdx s.env s.arrs idx = .ok is → getArr s.arrs a = .ok A → A.inBounds is = false →
        exec (fuel + 1) (.assignElem a t idx e p) s = (s, .error codeSubscript p))) ∨
    (∃ er, storeCast e.ty t v = .err er ∧
      exec (fuel + 1) (.assignElem a t idx e p) s = (s, .error (codeOf er) e.pos)) ∨
    (storeCast e.ty t v = .inexact ∧ exec (fuel + 1) (.assignElem a t idx e p) s = (s, .inexact)) := by
  cases hc : storeCast e.ty t v with
  | ok w =>
    refine .inl ⟨w, rfl, ?_, ?_⟩
    · intro is A hi hA hb
      exact ⟨by simp [exec, evalTo, hev, ERes.bind, hc, lift, hi, hA, hb], RbThm.ArrLProps.get_set_same A is w⟩
    · intro is A hi hA hb
      simp [exec, evalTo, hev, ERes.bind, hc, lift, hi, hA, hb]
  | err er => exact .inr (.inl ⟨er, rfl, by simp [exec, evalTo, hev, ERes.bind, hc, lift, outcomeOf]⟩)
  | inexact => exact .inr (.inr ⟨rfl, by simp [exec, evalTo, hev, ERes.bind, hc, lift, outcomeOf]⟩)

/-- the value an element assignment stores is of the element type and in range (given the invariant) -/
theorem elem_store_typed {sc : Scope} {s : St} (hg : Good sc s) (t : Ty) (e : ArrL.Expr) (v w : Val)
    (hw : EWf sc e) (hl : litsE e = true) (hev : ArrL.Ref.eval s.env s.arrs e = .ok v)
    (hc : storeCast e.ty t v = .ok w) : w.tag = t ∧ w.InRange := by
  obtain ⟨ht, hr⟩ := eval_good hg e v hw hl hev
  exact storeCast_typed e.ty t v w ht hr hc

/-- **Overflow instead of storing**: assigning a numeric value `q` of another static type to an element of an INTEGER or
LONG array stops with Overflow (6) at the expression exactly when `q` rounded to the nearest whole number (ties away from
zero) lies outside the element type's range — whatever the subscripts are; otherwise exactly that rounded number is the
value that is stored -/
theorem elem_overflow_iff (fuel a : Nat) (t : Ty) (idx : Exprs) (e : ArrL.Expr) (p : Pos) (s : St) (v : Val) (q : Rat)
    (lo hi : Int) (ht : tyBounds t = some (lo, hi)) (hne : e.ty ≠ t)
    (hev : ArrL.Ref.eval s.env s.arrs e = .ok v) (hq : v.toRat? = some q) (hv : v.InRange) :
    (evalTo s.env s.arrs e t = .err 6 e.pos ↔ ¬ (lo ≤ roundHA q ∧ roundHA q ≤ hi)) ∧
    (evalTo s.env s.arrs e t = .err 6 e.pos →
      exec (fuel + 1) (.assignElem a t idx e p) s = (s, .error 6 e.pos)) ∧
    ((lo ≤ roundHA q ∧ roundHA q ≤ hi) →
      ∃ w, evalTo s.env s.arrs e t = .ok w ∧ w.tag = t ∧ w.toRat? = some ((roundHA q : Int) : Rat)) := by
  have hsc : storeCast e.ty t v = Num.cast v t := by simp [storeCast, hne]
  have hov := cast_overflow_iff v t q lo hi ht hq hv
  have hto : evalTo s.env s.arrs e t = lift e.pos (Num.cast v t) := by simp [evalTo, hev, ERes.bind, hsc]
  refine ⟨?_, fun h => by simp [exec, h, outcomeOf], ?_⟩
  · rw [hto]
    cases hc : Num.cast v t with
    | ok w =>
      have hnot : ¬ Num.cast v t = .err .overflow := by rw [hc]; simp
      have hin : lo ≤ roundHA q ∧ roundHA q ≤ hi := Classical.not_not.mp (fun hn => hnot (hov.mpr hn))
      exact ⟨fun h => by simp [lift] at h, fun h => absurd hin h⟩
    | err er =>
      by_cases hov' : er = .overflow
      · subst hov'
        exact ⟨fun _ => hov.mp hc, fun _ => rfl⟩
      · have hno : ¬ Num.cast v t = .err .overflow := by rw [hc]; simpa using hov'
        have hin : lo ≤ roundHA q ∧ roundHA q ≤ hi := Classical.not_not.mp (fun hn => hno (hov.mpr hn))
        exfalso
        cases t <;> simp only [tyBounds, reduceCtorEq] at ht <;>
          cases v <;> simp only [Val.toRat?, reduceCtorEq] at hq <;>
          simp only [Num.cast, castRound, Res.bind] at hc <;>
          (repeat' split at hc) <;> simp_all
    | inexact =>
      refine ⟨fun h => by simp [lift] at h, fun h => ?_⟩
      have := hov.mpr h; rw [hc] at this; cases this
  · intro hin
    rw [hto]
    cases hc : Num.cast v t with
    | ok w => exact ⟨w, rfl, (cast_sound v t w hv hc).1, (cast_rounds v t w q lo hi ht hq hv hc).1⟩
    | err er =>
      exfalso
      by_cases hov' : er = .overflow
      · subst hov'; exact (hov.mp hc) hin
      · cases t <;> simp only [tyBounds, reduceCtorEq] at ht <;>
          cases v <;> simp only [Val.toRat?, reduceCtorEq] at hq <;>
          simp only [Num.cast, castRound, Res.bind] at hc <;>
          (repeat' split at hc) <;> simp_all
    | inexact =>
      exfalso
      cases t <;> simp only [tyBounds, reduceCtorEq] at ht <;>
        cases v <;> simp only [Val.toRat?, reduceCtorEq] at hq <;>
        simp only [Val.InRange] at hv <;>
        simp only [Num.cast, castRound, Res.bind, hv, if_true] at hc <;>
        (repeat' split at hc) <;> simp_all

/-- **`read_into_element_inrange`** — `READ a(i…)` with the subscripts inside the box: the next DATA item converted to the
element type is stored in exactly that element (it reads back as that value, which is of the element type and in range
when the DATA item is in range), or the statement ends with the conversion's error (Overflow = 6) / Out of DATA (4) and
nothing is stored -/
theorem read_into_element_inrange (fuel a : Nat) (t : Ty) (idx : Exprs) (q p : Pos) (s : St) (is : List Int) (A : RArr)
    (hi : evalIdx s.env s.arrs idx = .ok is) (hA : getArr s.arrs a = .ok A) (hb : A.inBounds is = true) :
    (s.data[s.dataIdx]? = none ∧ exec (fuel + 1) (.read (.elem a t idx q) p) s = (s, .error codeOutOfData p)) ∨
    (∃ v, s.data[s.dataIdx]? = some v ∧
      ((∃ w, Num.cast v t = .ok w ∧
          exec (fuel + 1) (.read (.elem a t idx q) p) s =
            ({ s.setArr a (A.set is w) with dataIdx := s.dataIdx + 1 }, .normal) ∧
          (A.set is w).get is = w ∧ (v.InRange → w.tag = t ∧ w.InRange)) ∨
       (∃ er, Num.cast v t = .err er ∧ exec (fuel + 1) (.read (.elem a t idx q) p) s = (s, .error (codeOf er) p)) ∨
       (Num.cast v t = .inexact ∧ exec (fuel + 1) (.read (.elem a t idx q) p) s = (s, .inexact)))) := by
  cases hd : s.data[s.dataIdx]? with
  | none => exact .inl ⟨rfl, by simp [exec, ERes.bind, hi, hA, hb, readItem, hd]⟩
  | some v =>
    refine .inr ⟨v, rfl, ?_⟩
    cases hc : Num.cast v t with
    | ok w =>
      exact .inl ⟨w, rfl, by simp [exec, ERes.bind, hi, hA, hb, readItem, hd, hc],
        RbThm.ArrLProps.get_set_same A is w, fun hv => cast_sound v t w hv hc⟩
    | err er => exact .inr (.inl ⟨er, rfl, by simp [exec, ERes.bind, hi, hA, hb, readItem, hd, hc]⟩)
    | inexact => exact .inr (.inr ⟨rfl, by simp [exec, ERes.bind, hi, hA, hb, readItem, hd, hc]⟩)

/-! ### to the VM model, through the simulation theorem of the layer -/

namespace ToVm
open RbThm.ArrLSim RbThm.ArrLLen RbModel.ArrL.Compile RbModel.ArrL.Vm

/-- the invariant read on a state of the VM model: every scalar variable holds a value of its declared type within range,
and so does every element the VM can read from every dimensioned array (row-major vector + `abs_index`) -/
structure VmGood (prog : SProgram) (τ : Vm) : Prop where
  env : GoodEnv prog.slots τ.env
  arrs : ∀ (a : Nat) (t : Ty) (V : VArr), prog.arrs[a]? = some t → τ.arrs[a]? = some (some V) →
    ∀ (idx : List Int) (v : Val), Arr.getElem V idx = some v → v.tag = t ∧ v.InRange

/-- `ArrL.compile_correct` for a run that ends normally, keeping the state relation at the final `Halt` (the proof of
`ArrLSim.compile_correct_of`, which states the output only) -/
theorem compile_correct_rel (prog : SProgram) (fuel : Nat) (hw : ProgWf prog) (s' : ArrL.Ref.St)
    (hrun : ArrL.Ref.run fuel prog.toAst = (s', .normal)) :
    ∃ τ, Steps (compile prog) (Vm.init prog.slots prog.arrs) τ ∧ Vm.step (compile prog) τ = .halt τ ∧
      Rel (progScope prog) s' τ := by
  have hst : ∀ fuel, StmtIH (compile prog) fuel := fun f => (ih_all (compile prog) f).stmt
  have hall2 : CodeAt (compile prog) 0
      (compileStmt "" 0 (seqOf (datas prog.body ++ others prog.body)) ++ [(.halt, maxPos)]) := by
    intro i _; rw [Nat.zero_add]; rfl
  have hbody := hall2.append_left
  rw [code_seqOf_append] at hbody
  have hcd := hbody.append_left
  have hco := hbody.append_right
  rw [len_stmt, Nat.zero_add] at hco
  have hhalt := hall2.append_right.head
  rw [len_stmt, size_seqOf_append, Nat.zero_add] at hhalt
  obtain ⟨σ1, st1, hp1, hd1, hcx1, hk1⟩ :=
    data_list (compile prog) "" (datas prog.body) (datas_isData prog.body) 0 (Vm.init prog.slots prog.arrs) hcd rfl
  rw [Nat.zero_add] at hp1
  have hrel : Rel (progScope prog) (ArrL.Ref.St.init prog.toAst) σ1 := by
    refine ⟨by rw [hk1.env]; rfl, typed_init prog.slots, by rw [hk1.arrs]; exact arrsRel_init prog.arrs,
      by rw [hk1.out]; rfl, ?_, by rw [hk1.dataIdx]; rfl, by rw [hk1.queue]; rfl, by rw [hk1.funRes]; rfl⟩
    rw [hd1, ← dataOf_eq]; simp [Vm.init, ArrL.Ref.St.init, SProgram.toAst]
  have hact : ActInv σ1 := ⟨by rw [hk1.skipNewline]; rfl⟩
  have hs : StmtPost (compile prog) (progScope prog) _ _ σ1
      (ArrL.Ref.exec fuel (desugar prog.body) (ArrL.Ref.St.init prog.toAst)) :=
    top_spec (compile prog) (progScope prog) hst prog.body hw fuel _ (ArrL.Ref.St.init prog.toAst) σ1 hco hp1 hrel hact
  rw [run_eq] at hrun
  rw [hrun] at hs
  obtain ⟨τ, st, hp, hrel', _⟩ := hs
  refine ⟨τ, st1.trans st, ?_, hrel'⟩
  have : (compile prog)[τ.pc]? = some (CInstr.halt, maxPos) := by rw [hp]; exact hhalt
  simp only [Vm.step, this]

/-- the state relation of the simulation carries the invariant over -/
theorem vmGood_of_rel (prog : SProgram) (s' : ArrL.Ref.St) (τ : Vm) (hrel : Rel (progScope prog) s' τ)
    (hg : Good (progScope prog) s') : VmGood prog τ := by
  refine ⟨by rw [hrel.env]; exact hg.env, ?_⟩
  intro a t V ha hV idx v hgv
  rcases hrel.arrs.at_ a t ha with ⟨_, h2⟩ | ⟨A, V', h1, h2, h3⟩
  · rw [h2] at hV; cases hV
  · have hVV : V = V' := by rw [h2] at hV; injection hV with hV; injection hV with hV; exact hV.symm
    subst hVV
    have hbox := (RbThm.C04.getElem_some_iff h3.wf idx).mp ⟨v, hgv⟩
    rw [h3.dims] at hbox
    have := h3.get idx hbox
    rw [hgv] at this
    injection this with this
    rw [this]
    exact (hg.arrs.2 a t A ha h1).get idx

/-- **`arrl_run_inrange`** — corollary over the simulation theorem of the arrays layer (`ArrL.compile_correct`,
`Thm/ArrLSim.lean`): when the reference run of a well-formed program ends normally, the VM model running the code the
generator model emits reaches `Halt` with the same output, every scalar variable and every element of every array
holding a value of its declared type within that type's range -/
theorem arrl_run_inrange (prog : SProgram) (fuel : Nat) (hw : ProgWf prog) (hr : progRangeB prog.toAst = true) :
    match ArrL.Ref.run fuel prog.toAst with
    | (s', .normal) => ∃ τ, Steps (compile prog) (Vm.init prog.slots prog.arrs) τ ∧
        Vm.step (compile prog) τ = .halt τ ∧ τ.out = s'.out ∧ VmGood prog τ
    | _ => True := by
  have h2 := run_inrange prog fuel hw hr
  generalize hrun : ArrL.Ref.run fuel prog.toAst = r at h2
  obtain ⟨s', o⟩ := r
  cases o with
  | normal =>
    obtain ⟨τ, st, hh, hrel⟩ := compile_correct_rel prog fuel hw s' hrun
    exact ⟨τ, st, hh, hrel.out, vmGood_of_rel prog s' τ hrel h2⟩
  | halted => trivial
  | error c p => trivial
  | inexact => trivial
  | outOfFuel => trivial
  | illFormed => trivial
  | tooBig => trivial

/-- `arrl_run_inrange` for the bounded interpreter `ArrL.Vm.run` the correspondence check executes against the real VM,
with the premises in their decidable forms -/
theorem arrl_run_inrange_checked (prog : SProgram) (fuel : Nat) (hw : progWfB prog = true)
    (hr : progRangeB prog.toAst = true) :
    match ArrL.Ref.run fuel prog.toAst with
    | (s', .normal) => ∃ n υ, (∀ m, n ≤ m → Vm.run (compile prog) m (Vm.init prog.slots prog.arrs) = .halted υ) ∧
        υ.out = s'.out ∧ VmGood prog υ
    | _ => True := by
  have h := arrl_run_inrange prog fuel (progWfB_sound prog hw) hr
  generalize ArrL.Ref.run fuel prog.toAst = r at h ⊢
  obtain ⟨s', o⟩ := r
  cases o with
  | normal =>
    obtain ⟨τ, st, hh, ho, hg⟩ := h
    obtain ⟨n, hn⟩ := run_of_steps _ st hh
    exact ⟨n, τ, hn, ho, hg⟩
  | halted => trivial
  | error c p => trivial
  | inexact => trivial
  | outOfFuel => trivial
  | illFormed => trivial
  | tooBig => trivial

end ToVm

/-! ### non-vacuity: a program in the covered fragment that exercises every kind of element store

    DATA 70000.5, 99999
    N% = 3
    DIM A%(1 TO N%), B&(-1 TO 1, 2)
    A%(2) = 2.5                      ' stores 3 (ties away from zero)
    READ B&(0, A%(2) - 1)            ' 70000.5 -> 70001 into B&(0, 2)
    A%(1) = UBOUND(B&, 2) + LBOUND(B&)   ' 2 + (-1) = 1
    READ A%(3)                       ' 99999: Overflow (6), nothing stored
-/

def demo : SProgram :=
  { slots := [.int],
    arrs := [.int, .long],
    body :=
      .seq (.data [(.dbl (140001 / 2), ⟨1, 6⟩), (.long 99999, ⟨1, 15⟩)] ⟨1, 1⟩)
      (.seq (.assign 0 .int (.lit (.int 3) ⟨2, 6⟩) ⟨2, 1⟩)
      (.seq (.dimArr 0 .int (.cons (some (.lit (.int 1) ⟨3, 8⟩)) (.var 0 .int ⟨3, 13⟩) .nil) ⟨3, 5⟩)
      (.seq (.dimArr 1 .long (.cons (some (.un .neg (.lit (.int 1) ⟨3, 23⟩) ⟨3, 22⟩)) (.lit (.int 1) ⟨3, 28⟩)
              (.cons none (.lit (.int 2) ⟨3, 31⟩) .nil)) ⟨3, 19⟩)
      (.seq (.assignElem 0 .int (.cons (.lit (.int 2) ⟨4, 4⟩) .nil) (.lit (.sgl (5 / 2)) ⟨4, 9⟩) ⟨4, 1⟩)
      (.seq (.read [.elem 1 .long (.cons (.lit (.int 0) ⟨5, 9⟩)
              (.cons (.bin .minus (.elem 0 (.cons (.lit (.int 2) ⟨5, 15⟩) .nil) .int ⟨5, 12⟩) (.lit (.int 1) ⟨5, 20⟩)
                .int ⟨5, 18⟩) .nil)) ⟨5, 6⟩] ⟨5, 1⟩)
      (.seq (.assignElem 0 .int (.cons (.lit (.int 1) ⟨6, 4⟩) .nil)
              (.bin .plus (.boundD true 1 .long ⟨6, 16⟩ (.lit (.int 2) ⟨6, 20⟩) ⟨6, 9⟩)
                (.bound false 1 .long ⟨6, 32⟩ ⟨6, 25⟩) .int ⟨6, 23⟩) ⟨6, 1⟩)
      (.seq (.read [.elem 0 .int (.cons (.lit (.int 3) ⟨7, 9⟩) .nil) ⟨7, 6⟩] ⟨7, 1⟩) .skip))))))) }

/-- the hypotheses of `run_inrange` / `arrl_run_inrange` hold for the demo program (both are decidable) -/
example : progWfB demo = true ∧ progRangeB demo.toAst = true := by
  constructor <;> decide +kernel

def isOverflowAt (o : Outcome) (row : Nat) : Bool :=
  match o with
  | .error 6 p => p.row == row
  | _ => false

def elemOf (s : St) (a : Nat) (idx : List Int) : Option Val :=
  match s.arrs[a]? with
  | some (some A) => some (A.get idx)
  | _ => none

/-- and its run ends with Overflow at the last READ with `A%(1) = 1`, `A%(2) = 3` (2.5 rounded away from zero),
`A%(3) = 0` (nothing stored), `B&(0, 2) = 70001` (70000.5 rounded away from zero) -/
example : isOverflowAt (ArrL.Ref.run 40 demo.toAst).2 7 = true ∧
    elemOf (ArrL.Ref.run 40 demo.toAst).1 0 [1] = some (.int 1) ∧
    elemOf (ArrL.Ref.run 40 demo.toAst).1 0 [2] = some (.int 3) ∧
    elemOf (ArrL.Ref.run 40 demo.toAst).1 0 [3] = some (.int 0) ∧
    elemOf (ArrL.Ref.run 40 demo.toAst).1 1 [0, 2] = some (.long 70001) := by
  decide +kernel

/-- the demo program without its last statement ends normally: the `normal` branch of `arrl_run_inrange` is inhabited -/
def demoOk : SProgram :=
  { demo with
    body :=
      SStmt.seq (.assign 0 .int (.lit (.int 3) ⟨2, 6⟩) ⟨2, 1⟩)
      (.seq (.dimArr 0 .int (.cons (some (.lit (.int 1) ⟨3, 8⟩)) (.var 0 .int ⟨3, 13⟩) .nil) ⟨3, 5⟩)
      (.seq (.assignElem 0 .int (.cons (.lit (.int 2) ⟨4, 4⟩) .nil) (.lit (.sgl (5 / 2)) ⟨4, 9⟩) ⟨4, 1⟩) .skip)) }

example : progWfB demoOk = true ∧ progRangeB demoOk.toAst = true ∧
    (ArrL.Ref.run 40 demoOk.toAst).2 matches .normal := by
  refine ⟨?_, ?_, ?_⟩ <;> decide +kernel

end RbThm.C06ArrL
