import Thm.C08ProcJErrL
import Thm.C11ProcJPos
import Thm.C11ErrLPos
import Thm.C05ErrVm
/-!
# C11 (run-time half) for the layers ProcJ and ErrL — the reported position is the prescribed one

`Thm/C11Layers.lean`, `Thm/C11Layers2.lean`, `Thm/C11ProcArr.lean`, `Thm/C11AoR.lean` prove for the older layers that the
position reported with a run-time error is the one the layer's reference semantics prescribes and a position carried by a node
of the program.  This file does the same for the layers ProcJ (procedures ∪ jumps; namespace `RbThm.C11ProcJErrL.ProcJs`) and
ErrL (jumps + ON ERROR / RESUME; namespace `RbThm.C11ProcJErrL.ErrLs`), from the simulation theorems
(`ProcJSim.compile_correct_checked`, `ErrLSim.compile_correct_checked`, through `C08ProcJErrL.*.ends`) and the inductions over
the reference semantics in `Thm/C11ProcJPos.lean` and `Thm/C11ErrLPos.lean` (no premise: they hold of every tree).

Both layers:
* `runtime_error_pos_is_ref_pos` — for a program the layer's premise checker accepts on which the reference run finishes,
  whatever error the VM model stops with, at any step budget, is the reference's: same code, same position;
* `ref_error_pos_within_program` — the position the reference prescribes is carried by a node of the source tree (ProcJ: of the
  main module or of a procedure body); `runtime_error_pos_within_program` — both together.

ProcJ:
* `vm_error3_at_return` — error 3 is reported at the position of a RETURN statement of the program;
* **`vm_error3_at_return_in_procedure`** — error 3 raised by a RETURN *inside a procedure* — the callee's outermost run
  answered `ret p`: no GOSUB of that activation was pending, whatever GOSUBs the callers have pending
  (`ProcJProps.return_answers_own_procedure_only`); seen from the main module: its own run answers `error 3 p`, not `ret p` — is
  reported by the VM at `p`, for every sufficient budget, and `p` is the position of a RETURN statement in the body of a
  procedure (never a call site, never a RETURN of the main module).

ErrL:
* `vm_error3_at_return`, `vm_error20_at_resume` — error 3 names a RETURN statement, error 20 a RESUME statement;
* **`unhandled_error_reported_at_failing_unit`** — a unit that fails while no handler mode is set — none was ever set, it was
  cleared by ON ERROR GOTO 0, or the unit runs inside a handler that cleared it (the only error inside a running handler
  `ErrL.Ref` defines) — ends the run: from any state from which the VM reaches the failing state, every sufficient budget
  answers exactly the unit's code at the unit's failing position (VM level, from `C05ErrVm.unhandled_error_stops_vm`);
  `unhandled_error_is_units_own` (Ref level): the unit's `raise` answers its own `(c, p)` in the unchanged state;
* **`handled_error_not_reported`** — under ON ERROR GOTO / ON ERROR RESUME NEXT (no handler running) the failing step is not an
  error outcome of the VM: the run goes on, in the handler or at the next unit (`_step`); at the reference level the unit's
  `raise` never answers the unit's own error — an `error` it answers is the outcome of the handler's own run (`_ref`); and for
  whole programs: if the reference run ends normal / halted — whatever errors were handled on the way — no budget makes the VM
  report any error (`handled_error_not_reported`), and if it ends in an error, that one — the unhandled one — is the only error
  any budget reports (`runtime_error_pos_is_ref_pos`).

Whether a node's position lies inside the node's *text* is the parser fact `PosNested` (checked by the fault-injection run, not
proved), as for the other layers.
-/

namespace RbThm.C11ProcJErrL.ProcJs
set_option linter.unusedVariables false
open RbModel RbModel.ProcJ RbModel.ProcJ.Compile RbModel.ProcJ.Vm
open RbModel.Num hiding Expr
open RbModel.Ast (Pos)
open RbModel.Proc (Var Expr Args PrintItem CaseExpr ProcDecl zeroOf)
open RbModel.Proc.Ref (St)
open RbThm.ProcJSim (Steps startSt)
open RbThm.C08ProcJErrL.ProcJs (Finished finished run_of_steps_halt run_of_steps_err ends demoRet demoExit)
open RbThm.C11ProcJPos (InProgram AtReturn AtProcReturn sstmtPosns retPosns stmtRetPosns stmtCodes)

/-- **`ref_error_pos_within_program`** (ProcJ) — the position the reference semantics prescribes for an error is carried by a
node of the main module or of a procedure body.  No premise.  (`Thm/C11ProcJPos.lean`.) -/
theorem ref_error_pos_within_program (prog : SProgram) (fuel c : Nat) (p : Pos)
    (h : (ProcJ.Ref.run fuel prog.toAst).2 = .error c p) : InProgram prog p :=
  RbThm.C11ProcJPos.ref_error_pos_within_program prog fuel c p h

/-- **`runtime_error_pos_is_ref_pos`** (ProcJ) — for a program the premise checker accepts on which the reference run
finishes, whatever error the VM model stops with — at any step budget — is the reference's: same code, same position. -/
theorem runtime_error_pos_is_ref_pos (prog : SProgram) (fuel : Nat) (hw : progWfB prog = true)
    (hfin : Finished (ProcJ.Ref.run fuel prog.toAst).2) :
    ∀ (m c : Nat) (p : Pos) (ω : Vm), Vm.run (compile prog) m Vm.init = .error c p ω →
      (ProcJ.Ref.run fuel prog.toAst).2 = .error c p := by
  intro m c p ω hrun
  rcases ends prog fuel hw hfin with ⟨τ, υ, hs, hh, _⟩ | ⟨τ, υ, c', p', hs, hh, _, hr⟩
  · rcases run_of_steps_halt _ hs hh m with h1 | h1 <;> rw [h1] at hrun <;> cases hrun
  · rcases run_of_steps_err _ hs hh m with h1 | h1 <;> rw [h1] at hrun <;> cases hrun
    exact hr

/-- **`runtime_error_pos_within_program`** (ProcJ) — hence the position reported with a run-time error of the VM run is carried
by a node of the main module or of a procedure body -/
theorem runtime_error_pos_within_program (prog : SProgram) (fuel : Nat) (hw : progWfB prog = true)
    (hfin : Finished (ProcJ.Ref.run fuel prog.toAst).2) :
    ∀ (m c : Nat) (p : Pos) (ω : Vm), Vm.run (compile prog) m Vm.init = .error c p ω → InProgram prog p :=
  fun m c p ω hrun =>
    ref_error_pos_within_program prog fuel c p (runtime_error_pos_is_ref_pos prog fuel hw hfin m c p ω hrun)

/-- error 3 reported by the VM names a RETURN statement of the program (main module or procedure) -/
theorem vm_error3_at_return (prog : SProgram) (fuel : Nat) (hw : progWfB prog = true)
    (hfin : Finished (ProcJ.Ref.run fuel prog.toAst).2) :
    ∀ (m : Nat) (p : Pos) (ω : Vm), Vm.run (compile prog) m Vm.init = .error 3 p ω → AtReturn prog p :=
  fun m p ω hrun =>
    RbThm.C11ProcJPos.return_without_gosub_at_return prog fuel p (runtime_error_pos_is_ref_pos prog fuel hw hfin m 3 p ω hrun)

/-- the codes a ProcJ run can end with: 3 (RETURN without GOSUB) and the statement codes 4, 6, 11, 13, 258 -/
theorem vm_error_code (prog : SProgram) (fuel : Nat) (hw : progWfB prog = true)
    (hfin : Finished (ProcJ.Ref.run fuel prog.toAst).2) :
    ∀ (m c : Nat) (p : Pos) (ω : Vm), Vm.run (compile prog) m Vm.init = .error c p ω → c ∈ 3 :: stmtCodes :=
  fun m c p ω hrun =>
    RbThm.C11ProcJPos.ref_error_code prog fuel c p (runtime_error_pos_is_ref_pos prog fuel hw hfin m c p ω hrun)

/-- **`vm_error3_at_return_in_procedure`** — error 3 raised by a RETURN inside a procedure is reported at that RETURN's
position.  The hypothesis `hmain` says the RETURN was a procedure's: the main module's own run answers `error 3 p` (a RETURN of
the main module with nothing pending would make it answer `ret p`, which only `run` turns into error 3); by
`C11ProcJPos.exec_error3_at_proc_return` / `call_ret_is_error3_at_return` this happens exactly when some callee's outermost run
answered `ret p` — no GOSUB of *that activation* pending, whatever GOSUBs the main module and the other callers have pending.
Then: the reference run ends in `error 3 p`; `p` is the position of a RETURN statement in a procedure body; for every
sufficient budget the VM run stops with error 3 **at `p`**, with the reference's output; and no budget shows any other error. -/
theorem vm_error3_at_return_in_procedure (prog : SProgram) (fuel : Nat) (hw : progWfB prog = true) (s' : St) (p : Pos)
    (hmain : ProcJ.Ref.exec prog.toAst fuel ⟨false, desugar prog.body⟩ (desugar prog.body) .run (startSt prog) =
      (s', .error 3 p)) :
    ProcJ.Ref.run fuel prog.toAst = (s', .error 3 p) ∧ AtProcReturn prog p ∧
    (∃ n υ, (∀ m, n ≤ m → Vm.run (compile prog) m Vm.init = .error 3 p υ) ∧ υ.out = s'.out) ∧
    (∀ (m c : Nat) (q : Pos) (ω : Vm), Vm.run (compile prog) m Vm.init = .error c q ω → c = 3 ∧ q = p) := by
  have hrun : ProcJ.Ref.run fuel prog.toAst = (s', .error 3 p) := by
    rw [RbThm.ProcJSim.run_eq, hmain]; rfl
  have hfin : Finished (ProcJ.Ref.run fuel prog.toAst).2 := by rw [hrun]; rfl
  refine ⟨hrun, RbThm.C11ProcJPos.error3_in_main_exec_is_procedure_return prog fuel s' p hmain, ?_, ?_⟩
  · have h := RbThm.ProcJSim.run_correct_checked prog hw fuel
    rw [hrun] at h
    exact h
  · intro m c q ω hm
    have := runtime_error_pos_is_ref_pos prog fuel hw hfin m c q ω hm
    rw [hrun] at this
    simp only [ProcJ.Ref.Outcome.error.injEq] at this
    exact ⟨this.1.symm, this.2.symm⟩

/-! non-vacuity: `demoRet` = `GOSUB R : END : R: CALL S : RETURN` with `SUB S : RETURN : END SUB` — the SUB's RETURN at 7:3 runs
while the main module's GOSUB is pending -/

example : progWfB demoRet = true ∧
    (ProcJ.Ref.exec demoRet.toAst 30 ⟨false, desugar demoRet.body⟩ (desugar demoRet.body) .run (startSt demoRet)).2 =
      .error 3 ⟨7, 3⟩ := by decide

/-- the VM reports error 3 at 7:3 — the RETURN of the SUB —, not at the call (4:1) nor at the main module's RETURN (5:1) -/
example : AtProcReturn demoRet ⟨7, 3⟩ ∧ (⟨7, 3⟩ : Pos) ∉ sstmtPosns demoRet.body ∧
    (∃ n υ, ∀ m, n ≤ m → Vm.run (compile demoRet) m Vm.init = .error 3 ⟨7, 3⟩ υ) ∧
    (∀ (m c : Nat) (q : Pos) (ω : Vm), Vm.run (compile demoRet) m Vm.init = .error c q ω → c = 3 ∧ q = ⟨7, 3⟩) := by
  obtain ⟨_, h2, ⟨n, υ, h3, _⟩, h4⟩ := vm_error3_at_return_in_procedure demoRet 30 (by decide)
    (ProcJ.Ref.exec demoRet.toAst 30 ⟨false, desugar demoRet.body⟩ (desugar demoRet.body) .run (startSt demoRet)).1 ⟨7, 3⟩
    (Prod.ext rfl (by decide))
  exact ⟨h2, by decide, ⟨n, υ, h3⟩, h4⟩

example (m c : Nat) (p : Pos) (ω : Vm) (h : Vm.run (compile demoRet) m Vm.init = .error c p ω) : InProgram demoRet p :=
  runtime_error_pos_within_program demoRet 30 (by decide) (by decide) m c p ω h

end RbThm.C11ProcJErrL.ProcJs

namespace RbThm.C11ProcJErrL.ErrLs
set_option linter.unusedVariables false
open RbModel RbModel.Num RbModel.ErrL RbModel.ErrL.Compile RbModel.ErrL.Vm
open RbModel.Ast (Pos)
open RbModel.ErrL.Ref
open RbThm.C05ErrVm (UnitFails)
open RbThm.ErrLProps (handlerStart)
open RbThm.C08ProcJErrL.ErrLs (Finished finished run_of_steps_halt run_of_steps_err ends demoH demoCleared demoInHandler tenModZ)
open RbThm.C11ErrLPos (sstmtPosns retPosns resumePosns)

/-- **`ref_error_pos_within_program`** (ErrL) — the position the reference semantics prescribes for an (unhandled) error is
carried by a node of the source tree.  No premise.  (`Thm/C11ErrLPos.lean`.) -/
theorem ref_error_pos_within_program (prog : SProgram) (fuel c : Nat) (p : Pos)
    (h : (ErrL.Ref.run fuel prog.toAst).2 = .error c p) : p ∈ sstmtPosns prog.body :=
  RbThm.C11ErrLPos.ref_error_pos_within_program prog fuel c p h

/-- **`runtime_error_pos_is_ref_pos`** (ErrL) — for a program the premise checker `progWfXB` accepts on which the reference run
finishes (whatever errors were handled on the way; not `unspec`), whatever error the VM model stops with — at any step budget —
is the reference's: same code, same position.  In particular a *handled* error is never what the VM reports unless the
reference ends in it. -/
theorem runtime_error_pos_is_ref_pos (prog : SProgram) (fuel : Nat) (hw : progWfXB prog = true)
    (hfin : Finished (ErrL.Ref.run fuel prog.toAst).2) :
    ∀ (m c : Nat) (p : Pos) (ω : EVm), Vm.run (Prog.ofProgram prog) m (EVm.init prog.slots) = .error c p ω →
      (ErrL.Ref.run fuel prog.toAst).2 = .error c p := by
  intro m c p ω hrun
  rcases ends prog fuel hw hfin with ⟨τ, υ, hs, hh, _⟩ | ⟨τ, υ, c', p', hs, hh, _, hr⟩
  · rcases run_of_steps_halt _ hs hh m with h1 | h1 <;> rw [h1] at hrun <;> cases hrun
  · rcases run_of_steps_err _ hs hh m with h1 | h1 <;> rw [h1] at hrun <;> cases hrun
    exact hr

/-- **`runtime_error_pos_within_program`** (ErrL) -/
theorem runtime_error_pos_within_program (prog : SProgram) (fuel : Nat) (hw : progWfXB prog = true)
    (hfin : Finished (ErrL.Ref.run fuel prog.toAst).2) :
    ∀ (m c : Nat) (p : Pos) (ω : EVm), Vm.run (Prog.ofProgram prog) m (EVm.init prog.slots) = .error c p ω →
      p ∈ sstmtPosns prog.body :=
  fun m c p ω hrun =>
    ref_error_pos_within_program prog fuel c p (runtime_error_pos_is_ref_pos prog fuel hw hfin m c p ω hrun)

/-- error 3 reported by the VM names a RETURN statement of the program -/
theorem vm_error3_at_return (prog : SProgram) (fuel : Nat) (hw : progWfXB prog = true)
    (hfin : Finished (ErrL.Ref.run fuel prog.toAst).2) :
    ∀ (m : Nat) (p : Pos) (ω : EVm), Vm.run (Prog.ofProgram prog) m (EVm.init prog.slots) = .error 3 p ω →
      p ∈ retPosns prog.body :=
  fun m p ω hrun =>
    RbThm.C11ErrLPos.return_without_gosub_at_return prog fuel p (runtime_error_pos_is_ref_pos prog fuel hw hfin m 3 p ω hrun)

/-- error 20 (RESUME without error) reported by the VM names a RESUME / RESUME NEXT / RESUME label statement of the program -/
theorem vm_error20_at_resume (prog : SProgram) (fuel : Nat) (hw : progWfXB prog = true)
    (hfin : Finished (ErrL.Ref.run fuel prog.toAst).2) :
    ∀ (m : Nat) (p : Pos) (ω : EVm), Vm.run (Prog.ofProgram prog) m (EVm.init prog.slots) = .error 20 p ω →
      p ∈ resumePosns prog.body :=
  fun m p ω hrun =>
    RbThm.C11ErrLPos.resume_without_error_at_resume prog fuel p (runtime_error_pos_is_ref_pos prog fuel hw hfin m 20 p ω hrun)

/-! ### unhandled errors -/

/-- (Ref) with no handler mode — never set, cleared by ON ERROR GOTO 0, also inside a running handler (`s.inH` is not asked) — a
failing unit's `raise` answers the unit's own code and position in the unchanged state -/
theorem unhandled_error_is_units_own (fuel : Nat) (P : Stmt) (gd c : Nat) (p : Pos) (s : ESt) (hm : s.mode = .none) :
    Ref.raise (fuel + 1) P gd c p s = (s, .out (.error c p)) :=
  RbThm.ErrLProps.raise_unhandled fuel P gd c p s hm

/-- **`unhandled_error_reported_at_failing_unit`** — an unhandled error is reported with the failing statement's position.
A resume unit fails with `(c, p)` — `p` is the position the failing piece of the statement carries: the operator, the
conversion, the RETURN, the RESUME … — in a state whose handler mode is `none`: no ON ERROR statement ran, or ON ERROR GOTO 0
cleared the handler, possibly inside a running handler (`UnitFails` does not ask `s.inH = false`).  Then from **any** state
`σ₀` from which the VM reaches the failing state — the initial state of the program in particular — every sufficient step
budget answers exactly error `c` at `p`, with the output of the reference state; the run does not go on. -/
theorem unhandled_error_reported_at_failing_unit (C : RbThm.ErrLSim.Ctx) (fuel : Nat) {d e vb gd ustart unext : Nat}
    {x y : EVm} {s : ESt} {c : Nat} {p : Pos} (hf : RbThm.C05ErrVm.UnitFails C d e vb gd ustart unext x y s c p)
    (hm : s.mode = .none) (σ₀ : EVm) (hreach : RbThm.ErrLSim.Steps C.prog σ₀ x) :
    ∃ n υ, (∀ m, n ≤ m → Vm.run C.prog m σ₀ = .error c p υ) ∧ υ.b.out = s.st.out := by
  obtain ⟨_, hstep, hout⟩ := RbThm.C05ErrVm.unhandled_error_stops_vm C fuel hf hm
  obtain ⟨n, hn⟩ := RbThm.ErrLSim.run_of_steps_error _ hreach hstep
  exact ⟨n, _, hn, hout⟩

/-! ### handled errors -/

/-- (VM, one step) under ON ERROR GOTO / ON ERROR RESUME NEXT, no handler running, the failing step is **not** an error
outcome: the VM goes on (`error_enters_handler_vm`, `on_error_resume_next_skips_vm` say where) -/
theorem handled_error_not_reported_step (C : RbThm.ErrLSim.Ctx) (hC : C.Ok) {d e vb gd ustart unext : Nat}
    {x y : EVm} {s : ESt} {c : Nat} {p : Pos} (hf : RbThm.C05ErrVm.UnitFails C d e vb gd ustart unext x y s c p)
    (hm : s.mode ≠ .none) (hin : s.inH = false) :
    ∃ τ, step C.prog x = .next τ := by
  cases hmd : s.mode with
  | none => exact absurd hmd hm
  | goto L =>
    obtain ⟨τ, h, _⟩ := RbThm.C05ErrVm.error_enters_handler_vm C hC hf L hmd hin
    exact ⟨τ, h⟩
  | resumeNext =>
    obtain ⟨_, τ, h, _⟩ := RbThm.C05ErrVm.on_error_resume_next_skips_vm C hC 0 hf hmd hin
    exact ⟨τ, h⟩

/-- (Ref) … and the unit's `raise` never answers the unit's own error: if it answers an `error` at all, that is the outcome
of the handler's own run — an unhandled error raised while the handler ran (after the handler cleared the mode) -/
theorem handled_error_not_reported_ref (fuel : Nat) (P : Stmt) (gd c : Nat) (p : Pos) (s s' : ESt) (c' : Nat) (p' : Pos)
    (hm : s.mode ≠ .none) (hin : s.inH = false)
    (h : Ref.raise (fuel + 1) P gd c p s = (s', .out (.error c' p'))) :
    ∃ L, s.mode = .goto L ∧ exec fuel P gd P (.seek L) (handlerStart s c) = (s', .error c' p') := by
  cases hmd : s.mode with
  | none => exact absurd hmd hm
  | resumeNext =>
    simp only [Ref.raise, hmd, hin] at h
    simp at h
  | goto L =>
    refine ⟨L, rfl, ?_⟩
    rw [(RbThm.ErrLProps.handler_sees_err fuel P gd c p s L hmd hin).1] at h
    generalize exec fuel P gd P (.seek L) (handlerStart s c) = r at h ⊢
    obtain ⟨s1, o⟩ := r
    simp only [Prod.mk.injEq] at h
    obtain ⟨h1, h2⟩ := h
    subst h1
    cases o with
    | error c1 p1 =>
      simp only [dispOfHandler, Disp.out.injEq, Outcome.error.injEq] at h2
      obtain ⟨rfl, rfl⟩ := h2
      rfl
    | resumed k => cases k <;> simp [dispOfHandler] at h2
    | _ => simp [dispOfHandler] at h2

/-- **`handled_error_not_reported`** (whole programs) — if the reference run of an accepted program ends normally or with END,
**whatever errors were handled on the way** (ON ERROR RESUME NEXT; handlers ending in RESUME / RESUME NEXT / RESUME label), the
VM reports no error at all, at any step budget: none of the handled errors is the run's outcome. -/
theorem handled_error_not_reported (prog : SProgram) (fuel : Nat) (hw : progWfXB prog = true)
    (hend : (ErrL.Ref.run fuel prog.toAst).2 = .normal ∨ (ErrL.Ref.run fuel prog.toAst).2 = .halted) :
    ∀ (m c : Nat) (p : Pos) (ω : EVm), Vm.run (Prog.ofProgram prog) m (EVm.init prog.slots) ≠ .error c p ω := by
  intro m c p ω hrun
  have hfin : Finished (ErrL.Ref.run fuel prog.toAst).2 := by
    rcases hend with h | h <;> rw [h] <;> rfl
  have := runtime_error_pos_is_ref_pos prog fuel hw hfin m c p ω hrun
  rcases hend with h | h <;> rw [h] at this <;> cases this

/-! non-vacuity -/

/-- `demoH RESUME` / `demoH RESUME NEXT`: a division by zero (11 at 2:9) is handled and the program ends with END — no budget
makes the VM report an error -/
example (m c : Nat) (p : Pos) (ω : EVm) :
    Vm.run (Prog.ofProgram (demoH (.resume ⟨7, 1⟩))) m (EVm.init [.int, .int, .int]) ≠ .error c p ω :=
  handled_error_not_reported (demoH (.resume ⟨7, 1⟩)) 40 (by decide) (.inr (by decide +kernel)) m c p ω

example (m c : Nat) (p : Pos) (ω : EVm) :
    Vm.run (Prog.ofProgram (demoH (.resumeNext ⟨7, 1⟩))) m (EVm.init [.int, .int, .int]) ≠ .error c p ω :=
  handled_error_not_reported (demoH (.resumeNext ⟨7, 1⟩)) 40 (by decide) (.inr (by decide +kernel)) m c p ω

/-- `demoCleared` (handler cleared by ON ERROR GOTO 0 before the division): whatever error the VM reports is 11 at 2:9, the
position of the `MOD`, a node of the program -/
example (m c : Nat) (p : Pos) (ω : EVm)
    (h : Vm.run (Prog.ofProgram demoCleared) m (EVm.init [.int, .int, .int]) = .error c p ω) :
    c = 11 ∧ p = ⟨2, 9⟩ ∧ p ∈ sstmtPosns demoCleared.body := by
  have h1 := runtime_error_pos_is_ref_pos demoCleared 40 (by decide) (by decide +kernel) m c p ω h
  have h2 : (ErrL.Ref.run 40 demoCleared.toAst).2 = .error 11 ⟨2, 9⟩ := by decide +kernel
  rw [h2] at h1
  simp only [Outcome.error.injEq] at h1
  obtain ⟨rfl, rfl⟩ := h1
  exact ⟨rfl, rfl, by decide⟩

/-- `demoInHandler`: the first division by zero (2:9) is handled; the handler clears the mode and divides by zero itself (7:9):
that second error — raised inside the running handler — is the one reported, not the handled one -/
example (m c : Nat) (p : Pos) (ω : EVm)
    (h : Vm.run (Prog.ofProgram demoInHandler) m (EVm.init [.int, .int, .int]) = .error c p ω) :
    c = 11 ∧ p = ⟨7, 9⟩ ∧ p ≠ ⟨2, 9⟩ := by
  have h1 := runtime_error_pos_is_ref_pos demoInHandler 40 (by decide) (by decide +kernel) m c p ω h
  have h2 : (ErrL.Ref.run 40 demoInHandler.toAst).2 = .error 11 ⟨7, 9⟩ := by decide +kernel
  rw [h2] at h1
  simp only [Outcome.error.injEq] at h1
  obtain ⟨rfl, rfl⟩ := h1
  exact ⟨rfl, rfl, by decide⟩

/-- `unhandled_error_reported_at_failing_unit` on the program of `Thm/C05ErrVm.lean` started at the assignment with no handler:
every sufficient budget answers Division by zero at 2:9 -/
example : ∃ n υ, ∀ m, n ≤ m →
    Vm.run (Prog.ofProgram (RbThm.C05ErrVm.demo (.resume ⟨8, 3⟩))) m (RbThm.C05ErrVm.σ0 .none []) = .error 11 ⟨2, 9⟩ υ := by
  obtain ⟨y, st, hf, _⟩ := RbThm.C05ErrVm.unit0 RbThm.C05ErrVm.facts_resume .none .none [] rfl (fun L h => by cases h)
  obtain ⟨n, υ, h, _⟩ := unhandled_error_reported_at_failing_unit _ 0 hf rfl _ st
  exact ⟨n, υ, h⟩

end RbThm.C11ProcJErrL.ErrLs
