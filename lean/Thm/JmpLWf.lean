import Thm.JmpLSimProg
import Thm.C01Wf
/-!
Jump layer: the boolean premise checker `JmpL.progWfB` (what the driver evaluates on every explored program, request
`jmpl.wf`) is sound for the premise `ProgWf` of the program theorem.  The checks on expressions, conditions, PRINT items,
CASE items and READ lists are those of the core language (`RbModel.CoreWf`), whose soundness lemmas (`Thm/C01Wf.lean`) are
reused.  Of the four program-level conjuncts of `progWfB` the theorem needs two (`wfTopB`, labels defined once); that
every GOTO / GOSUB target is defined is checked by the driver but not needed by the proof (a GOSUB to an undefined label
is excluded by its depth check: undefined labels have depth 1000000; a GOTO to one ends in `illFormed`, which claims nothing).
-/
namespace RbThm.JmpLSim
set_option linter.unusedVariables false
set_option linter.unusedSimpArgs false
open RbModel RbModel.Num RbModel.JmpL RbModel.JmpL.Compile
open RbModel.Ast (Pos PrintItem CaseExpr)
open RbModel.CoreWf (slotsB exprWtB condB itemsB isRelB caseB condsB readB)
open RbThm.C01Sim (Typed SlotsBelow ExprWt NumericAt NumericCond ItemsSlots CaseSlots CondsSlots slotsB_sound
  exprWtB_sound condB_sound itemsB_sound caseB_sound condsB_sound readB_sound)

theorem isSkipB_sound : ∀ s, isSkipB s = true → s = .skip := by
  intro s h; cases s <;> simp [isSkipB] at h ⊢

theorem elseB_sound {hasElse : Bool} {els : SStmt} (h : (hasElse || isSkipB els) = true) :
    hasElse = false → els = .skip := by
  intro hf
  subst hf
  exact isSkipB_sound els (by simpa using h)

theorem leavesB_sound {depthOf : Nat → Nat} {depth : Nat} {inner gotos : List Nat}
    (h : leavesB depthOf depth inner gotos = true) : Leaves depthOf depth inner gotos := by
  intro L hL
  simp only [leavesB, List.all_eq_true, Bool.or_eq_true, decide_eq_true_eq] at h
  rcases h L hL with h | h
  · exact .inl (by simpa using h)
  · exact .inr h

mutual
theorem wfB_sound (sl : List Ty) (dp : Dp) : ∀ (s : SStmt) (d e : Nat), wfB sl dp d e s = true → Wf sl dp d e s
  | .skip, _, _, _ => trivial
  | .comment, _, _, _ => trivial
  | .seq a b, d, e, h => by
    simp only [wfB, Bool.and_eq_true] at h
    exact ⟨wfB_sound sl dp a d e h.1, wfB_sound sl dp b d e h.2⟩
  | .dim x t _, _, _, h => by simpa [wfB, Wf] using h
  | .assign x t ex _, _, _, h => by
    simp only [wfB, Bool.and_eq_true, decide_eq_true_eq] at h
    exact ⟨h.1.1, slotsB_sound _ ex h.1.2, exprWtB_sound sl ex h.2⟩
  | .print items _, _, _, h => itemsB_sound _ items (by simpa [wfB] using h)
  | .ifBlock c thn elifs hasElse els _, d, e, h => by
    simp only [wfB, Bool.and_eq_true] at h
    obtain ⟨⟨⟨⟨hc, ht⟩, he⟩, hl⟩, hs⟩ := h
    have hcc := condB_sound sl c hc
    exact ⟨hcc.1, hcc.2, wfB_sound sl dp thn d e ht, wfElifsB_sound sl dp elifs d e he, wfB_sound sl dp els d e hl,
      elseB_sound hs⟩
  | .while c body _, d, e, h => by
    simp only [wfB, Bool.and_eq_true] at h
    have hcc := condB_sound sl c h.1
    exact ⟨hcc.1, hcc.2, wfB_sound sl dp body d e h.2⟩
  | .doLoop c _ _ body _, d, e, h => by
    simp only [wfB, Bool.and_eq_true] at h
    have hcc := condB_sound sl c h.1
    exact ⟨hcc.1, hcc.2, wfB_sound sl dp body d e h.2⟩
  | .end_ _, _, _, _ => trivial
  | .data _ _, _, _, h => by simp [wfB] at h
  | .read vars _, _, _, h => readB_sound sl vars (by simpa [wfB] using h)
  | .select sel cases hasElse els _, d, e, h => by
    simp only [wfB, Bool.and_eq_true] at h
    obtain ⟨⟨⟨⟨he, hcs⟩, hl⟩, hs⟩, hlv⟩ := h
    exact ⟨slotsB_sound _ sel he, wfCasesB_sound sl dp cases d (e + 1) hcs, wfB_sound sl dp els d (e + 1) hl,
      elseB_sound hs, leavesB_sound hlv⟩
  | .forLoop x t lo hi step body _, d, e, h => by
    simp only [wfB, Bool.and_eq_true, decide_eq_true_eq] at h
    obtain ⟨⟨⟨⟨⟨⟨hx, hlo⟩, hwlo⟩, hhi⟩, hst⟩, hb⟩, hlv⟩ := h
    refine ⟨hx, slotsB_sound _ lo hlo, exprWtB_sound sl lo hwlo, slotsB_sound _ hi hhi, ?_, wfB_sound sl dp body (d + 1) e hb,
      leavesB_sound hlv⟩
    intro se hse
    subst hse
    simp only [Bool.and_eq_true, List.isEmpty_iff] at hst
    exact ⟨slotsB_sound _ se hst.1, hst.2⟩
  | .label _ _ _, _, _, _ => trivial
  | .goto L _, d, e, h => by simpa [wfB, Wf] using h
  | .gosub L _, d, e, h => by simpa [wfB, Wf] using h
  | .ret _, _, _, _ => trivial
theorem wfElifsB_sound (sl : List Ty) (dp : Dp) : ∀ (el : ElseIfs) (d e : Nat), wfElifsB sl dp d e el = true →
    WfElifs sl dp d e el
  | .nil, _, _, _ => trivial
  | .cons c body rest, d, e, h => by
    simp only [wfElifsB, Bool.and_eq_true] at h
    have hcc := condB_sound sl c h.1.1
    exact ⟨hcc.1, hcc.2, wfB_sound sl dp body d e h.1.2, wfElifsB_sound sl dp rest d e h.2⟩
theorem wfCasesB_sound (sl : List Ty) (dp : Dp) : ∀ (cs : SCases) (d e : Nat), wfCasesB sl dp d e cs = true →
    WfCases sl dp d e cs
  | .nil, _, _, _ => trivial
  | .cons conds body rest, d, e, h => by
    simp only [wfCasesB, Bool.and_eq_true, Bool.not_eq_true'] at h
    obtain ⟨⟨⟨hne, hcs⟩, hb⟩, hr⟩ := h
    refine ⟨?_, condsB_sound _ conds hcs, wfB_sound sl dp body d e hb, wfCasesB_sound sl dp rest d e hr⟩
    intro hnil
    subst hnil
    simp at hne
end

theorem wfTopB_sound (sl : List Ty) (dp : Dp) : ∀ body, wfTopB sl dp body = true → WfTop sl dp body
  | .seq a b, h => by
    simp only [wfTopB, Bool.and_eq_true] at h
    exact ⟨wfTopB_sound sl dp a h.1, wfTopB_sound sl dp b h.2⟩
  | .data _ _, _ => trivial
  | .skip, h => wfB_sound sl dp _ 0 0 h
  | .comment, h => wfB_sound sl dp _ 0 0 h
  | .dim _ _ _, h => wfB_sound sl dp _ 0 0 h
  | .assign _ _ _ _, h => wfB_sound sl dp _ 0 0 h
  | .print _ _, h => wfB_sound sl dp _ 0 0 h
  | .read _ _, h => wfB_sound sl dp _ 0 0 h
  | .ifBlock _ _ _ _ _ _, h => wfB_sound sl dp _ 0 0 h
  | .select _ _ _ _ _, h => wfB_sound sl dp _ 0 0 h
  | .forLoop _ _ _ _ _ _ _, h => wfB_sound sl dp _ 0 0 h
  | .while _ _ _, h => wfB_sound sl dp _ 0 0 h
  | .doLoop _ _ _ _ _, h => wfB_sound sl dp _ 0 0 h
  | .end_ _, h => wfB_sound sl dp _ 0 0 h
  | .label _ _ _, h => wfB_sound sl dp _ 0 0 h
  | .goto _ _, h => wfB_sound sl dp _ 0 0 h
  | .gosub _ _, h => wfB_sound sl dp _ 0 0 h
  | .ret _, h => wfB_sound sl dp _ 0 0 h

theorem nodupB_sound : ∀ l : List Nat, nodupB l = true → l.Nodup
  | [], _ => List.nodup_nil
  | x :: rest, h => by
    simp only [nodupB, Bool.and_eq_true, Bool.not_eq_true', List.contains_eq_mem, decide_eq_false_iff_not] at h
    exact List.nodup_cons.mpr ⟨h.1, nodupB_sound rest h.2⟩

/-- **the checker is sound**: a program `progWfB` accepts satisfies the premise of `compile_correct` -/
theorem progWfB_sound (prog : SProgram) (h : progWfB prog = true) : ProgWf prog := by
  simp only [progWfB, Bool.and_eq_true] at h
  obtain ⟨⟨⟨h1, h2⟩, _⟩, _⟩ := h
  exact ⟨wfTopB_sound _ _ _ h1, nodupB_sound _ h2⟩

end RbThm.JmpLSim
