import Thm.ProcJNoIllRef
import Thm.ProcJSim
/-!
Layer "procedures ∪ jumps" (property C03): **under the premise `ProgWf` the reference run never answers `illFormed`** — the last
outcome for which `ProcJSim.compile_correct` claimed nothing besides the fuel and float exactness.

* `calls_of_ewf` …: an expression that is well formed against the signature table of the program calls procedures that exist
  in the reference program;
* `disc_desugar`: a statement that is `Wf` at depths `d` / `e` and whose labels are recorded at the depths of their label
  statements desugars to a statement that keeps the discipline `Disc` of `Thm/ProcJNoIllRef.lean`;
* `main_actOk`, `proc_actOk`: the main module's body and every procedure body may be run by an activation (`ActOk`);
* `run_never_illFormed` (+ `_checked`), `run_outcome`, `compile_correct_total`, `run_correct_total`.  No premise beyond `ProgWf`.
-/
namespace RbThm.ProcJNoIll
set_option linter.unusedVariables false
set_option linter.unusedSimpArgs false
set_option linter.unusedSectionVars false
open RbModel RbModel.ProcJ RbModel.ProcJ.Compile RbModel.ProcJ.Vm
open RbModel.Num hiding Expr
open RbModel.Ast (Pos)
open RbModel.Proc (Var SlotTabs Expr Args PrintItem CaseExpr ProcDecl zeroOf Sigs sigsOf)
open RbModel.ProcJ.Ref (Outcome Mode Act)
open RbThm.ProcSim (Scope EWf AWf ItemsWf CaseWf CondsWf)
open RbThm.ProcJRef (gotosS gotosC)
open RbThm.ProcJSim

/-! ### expressions: the calls exist -/

section
variable (sg : Sigs) (sl : SlotTabs) (P : Program)
  (hsg : ∀ (f : Nat) (r : Option Ty) (ps : List (String × Ty)), sg[f]? = some (r, ps) → (P.procs[f]?).isSome = true)
include hsg

mutual
theorem calls_of_ewf : ∀ e : Expr, EWf sg sl e → CallsE P e
  | .lit _ _, _ => by simp only [CallsE]
  | .var _ _ _, _ => by simp only [CallsE]
  | .un _ e _, h => by simp only [CallsE]; exact calls_of_ewf e h
  | .bin _ l r _ _, h => by
    have h' : EWf sg sl l ∧ EWf sg sl r ∧ _ := h
    simp only [CallsE]; exact ⟨calls_of_ewf l h'.1, calls_of_ewf r h'.2.1⟩
  | .paren e _, h => by simp only [CallsE]; exact calls_of_ewf e h
  | .callFn f args t _, h => by
    have h' : sg[f]? = some (some t, args.params) ∧ AWf sg sl args := h
    simp only [CallsE]; exact ⟨hsg f _ _ h'.1, calls_of_awf args h'.2⟩
theorem calls_of_awf : ∀ a : Args, AWf sg sl a → CallsA P a
  | .nil, _ => by simp only [CallsA]
  | .cons e _ pt rest, h => by
    have h' : EWf sg sl e ∧ _ ∧ AWf sg sl rest := h
    simp only [CallsA]; exact ⟨calls_of_ewf e h'.1, calls_of_awf rest h'.2.2⟩
end

theorem calls_of_items : ∀ items : List PrintItem, ItemsWf sg sl items → CallsI P items
  | [], _ => by simp only [CallsI]
  | .expr e :: rest, h => by
    have h' : EWf sg sl e ∧ ItemsWf sg sl rest := h
    simp only [CallsI]; exact ⟨calls_of_ewf sg sl P hsg e h'.1, calls_of_items rest h'.2⟩
  | .comma :: rest, h => by
    have h' : ItemsWf sg sl rest := h
    simp only [CallsI]; exact calls_of_items rest h'
  | .semicolon :: rest, h => by
    have h' : ItemsWf sg sl rest := h
    simp only [CallsI]; exact calls_of_items rest h'

theorem calls_of_case : ∀ c : CaseExpr, CaseWf sg sl c → CallsC P c
  | .simple e, h => by simp only [CallsC]; exact calls_of_ewf sg sl P hsg e h
  | .is _ e, h => by
    have h' : _ ∧ EWf sg sl e := h
    simp only [CallsC]; exact calls_of_ewf sg sl P hsg e h'.2
  | .range lo hi, h => by
    have h' : EWf sg sl lo ∧ EWf sg sl hi := h
    simp only [CallsC]; exact ⟨calls_of_ewf sg sl P hsg lo h'.1, calls_of_ewf sg sl P hsg hi h'.2⟩

theorem calls_of_conds : ∀ cs : List CaseExpr, CondsWf sg sl cs → CallsCs P cs
  | [], _ => by simp only [CallsCs]
  | c :: rest, h => by
    have h' : CaseWf sg sl c ∧ CondsWf sg sl rest := h
    simp only [CallsCs]; exact ⟨calls_of_case sg sl P hsg c h'.1, calls_of_conds rest h'.2⟩

end

/-! ### from the premise on the faithful syntax to the discipline on the lean syntax -/

/-- the recorded depths of the labels listed in a depth table are those of the table -/
def DepIn (dp : Dp) (tbl : List (Nat × Nat × Nat)) : Prop := ∀ L d' e', (L, d', e') ∈ tbl → dp.fd L = d' ∧ dp.sd L = e'

theorem DepIn.left {dp : Dp} {a b : List (Nat × Nat × Nat)} (h : DepIn dp (a ++ b)) : DepIn dp a :=
  fun L d' e' hm => h L d' e' (List.mem_append_left _ hm)

theorem DepIn.right {dp : Dp} {a b : List (Nat × Nat × Nat)} (h : DepIn dp (a ++ b)) : DepIn dp b :=
  fun L d' e' hm => h L d' e' (List.mem_append_right _ hm)

theorem disc_readSeq (fd sd : Nat → Nat) (P : Program) (B : Stmt) (d e : Nat) (p : Pos) :
    ∀ vars : List (Var × Ty × Pos), Disc fd sd P B d e (readSeq p vars)
  | [] => by simp only [readSeq, Disc]
  | (x, t, q) :: rest => by
    simp only [readSeq, Disc, true_and]
    exact disc_readSeq fd sd P B d e p rest

section
variable (sg : Sigs) (sc : Scope) (dp : Dp) (labs : List Nat) (P : Program) (B : Stmt)
  (hsg : ∀ (f : Nat) (r : Option Ty) (ps : List (String × Ty)), sg[f]? = some (r, ps) → (P.procs[f]?).isSome = true)
  (hlabs : ∀ L, L ∈ labs → B.hasLabel L = true)
include hsg hlabs

mutual
theorem disc_desugar : ∀ (s : SStmt) (d e : Nat), Wf sg sc dp labs d e s → DepIn dp (depthTable d e s) →
    Disc dp.fd dp.sd P B d e (desugar s)
  | .skip, _, _, _, _ => by simp only [desugar, Disc]
  | .comment, _, _, _, _ => by simp only [desugar, Disc]
  | .seq a b, d, e, hw, hd => by
    simp only [depthTable] at hd
    simp only [desugar, Disc]
    exact ⟨disc_desugar a d e hw.1 hd.left, disc_desugar b d e hw.2 hd.right⟩
  | .dim _ _ _, _, _, _, _ => by simp only [desugar, Disc, CallsE]
  | .sdim _ _ _, _, _, _, _ => by simp only [desugar, Disc]
  | .assign x t ex _, _, _, hw, _ => by
    have hw' : _ ∧ EWf sg sc.slots ex := hw
    simp only [desugar, Disc]
    exact calls_of_ewf sg sc.slots P hsg ex hw'.2
  | .print items _, _, _, hw, _ => by
    simp only [desugar, Disc]
    exact calls_of_items sg sc.slots P hsg items hw
  | .data _ _, _, _, hw, _ => by simp only [desugar, Disc]
  | .read vars p, d, e, _, _ => by simp only [desugar]; exact disc_readSeq _ _ _ _ d e p vars
  | .ifBlock c thn elifs hasElse els p, d, e, hw, hd => by
    obtain ⟨hc, _, h1, h2, h3, _⟩ := hw
    simp only [depthTable] at hd
    simp only [desugar, Disc]
    exact ⟨calls_of_ewf sg sc.slots P hsg c hc, disc_desugar thn d e h1 hd.left.left,
      disc_desugarElifs elifs d e h2 hd.left.right (desugar els) p (disc_desugar els d e h3 hd.right)⟩
  | .select sel cases hasElse els p, d, e, hw, hd => by
    have hw0 := hw
    obtain ⟨hc, h1, h2, h3, h4⟩ := hw
    simp only [depthTable] at hd
    have hl := hasLabel_desugar hw0
    simp only [desugar, RbThm.ProcJRef.hasLabel_select] at hl
    simp only [desugar, Disc]
    refine ⟨calls_of_ewf sg sc.slots P hsg sel hc, disc_desugarCases cases d (e + 1) h1 hd.left _ ?_, ?_⟩
    · cases hasElse with
      | false => simp only [Bool.false_eq_true, if_false, DiscC]
      | true => simp only [if_true, DiscC]; exact disc_desugar els d (e + 1) h2 hd.right
    · intro L hg
      have hg' : L ∈ cases.gotos ++ els.gotos := by
        rcases gotos_desugarCases cases _ L hg with hg | hg
        · exact List.mem_append_left _ hg
        · cases hasElse with
          | false => simp [gotosC] at hg
          | true => simp only [if_true, gotosC] at hg; exact List.mem_append_right _ (gotos_desugar els L hg)
      rcases h4 L hg' with h | h
      · left; rw [hl]; simpa [SStmt.labels] using h
      · exact .inr h
  | .forLoop x t lo hi step body p, d, e, hw, hd => by
    obtain ⟨_, hlo, hhi, hst, h1, h2⟩ := hw
    simp only [depthTable] at hd
    simp only [desugar, Disc]
    refine ⟨calls_of_ewf sg sc.slots P hsg lo hlo, calls_of_ewf sg sc.slots P hsg hi hhi,
      fun se hse => calls_of_ewf sg sc.slots P hsg se (hst se hse).1, disc_desugar body (d + 1) e h1 hd, ?_⟩
    intro L hg
    rcases h2 L (gotos_desugar body L hg) with h | h
    · left; rw [hasLabel_desugar h1]; simpa using h
    · exact .inr h
  | .while c body p, d, e, hw, hd => by
    simp only [depthTable] at hd
    simp only [desugar, Disc]
    exact ⟨calls_of_ewf sg sc.slots P hsg c hw.1, disc_desugar body d e hw.2.2 hd⟩
  | .doLoop c top u body p, d, e, hw, hd => by
    simp only [depthTable] at hd
    simp only [desugar, Disc]
    exact ⟨calls_of_ewf sg sc.slots P hsg c hw.1, disc_desugar body d e hw.2.2 hd⟩
  | .end_ _, _, _, _, _ => by simp only [desugar, Disc]
  | .callSub f args _, _, _, hw, _ => by
    have hw' : sg[f]? = some (none, args.params) ∧ AWf sg sc.slots args := hw
    simp only [desugar, Disc]
    exact ⟨hsg f _ _ hw'.1, calls_of_awf sg sc.slots P hsg args hw'.2⟩
  | .exitProc _, _, _, _, _ => by simp only [desugar, Disc]
  | .label L _ _, d, e, _, hd => by
    simp only [desugar, Disc]
    exact hd L d e (by simp [depthTable])
  | .goto L _, d, e, hw, _ => by
    have hw' : dp.fd L ≤ d ∧ dp.sd L ≤ e ∧ L ∈ labs := hw
    simp only [desugar, Disc]
    exact ⟨hw'.1, hw'.2.1⟩
  | .gosub L _, d, e, hw, _ => by
    have hw' : dp.fd L = 0 ∧ dp.sd L = 0 ∧ L ∈ labs := hw
    simp only [desugar, Disc]
    exact ⟨hw'.1, hw'.2.1, hlabs L hw'.2.2⟩
  | .ret _, _, _, _, _ => by simp only [desugar, Disc]
theorem disc_desugarElifs : ∀ (el : ElseIfs) (d e : Nat), WfElifs sg sc dp labs d e el → DepIn dp (depthElifs d e el) →
    ∀ (els : Stmt) (p : Pos), Disc dp.fd dp.sd P B d e els → Disc dp.fd dp.sd P B d e (desugarElifs el els p)
  | .nil, _, _, _, _, _, _, h => by simp only [desugarElifs]; exact h
  | .cons c body rest, d, e, hw, hd, els, p, h => by
    obtain ⟨hc, _, h1, h2⟩ := hw
    simp only [depthElifs] at hd
    simp only [desugarElifs, Disc]
    exact ⟨calls_of_ewf sg sc.slots P hsg c hc, disc_desugar body d e h1 hd.left,
      disc_desugarElifs rest d e h2 hd.right els p h⟩
theorem disc_desugarCases : ∀ (cs : SCases) (d e : Nat), WfCases sg sc dp labs d e cs → DepIn dp (depthCases d e cs) →
    ∀ (tail : Cases), DiscC dp.fd dp.sd P B d e tail → DiscC dp.fd dp.sd P B d e (desugarCases cs tail)
  | .nil, _, _, _, _, _, h => by simp only [desugarCases]; exact h
  | .cons conds body rest, d, e, hw, hd, tail, h => by
    obtain ⟨_, hc, h1, h2⟩ := hw
    simp only [depthCases] at hd
    simp only [desugarCases, DiscC]
    exact ⟨calls_of_conds sg sc.slots P hsg conds hc, disc_desugar body d e h1 hd.left,
      disc_desugarCases rest d e h2 hd.right tail h⟩
end

end

/-! ### whole programs -/

/-- a procedure of the signature table is a procedure of the reference program -/
theorem sigs_procs (prog : SProgram) (f : Nat) (r : Option Ty) (ps : List (String × Ty))
    (h : (sigsOf prog.procs)[f]? = some (r, ps)) : (prog.toAst.procs[f]?).isSome = true := by
  simp only [sigsOf, List.getElem?_map, Option.map_eq_some_iff] at h
  obtain ⟨d, hd, _⟩ := h
  simp [SProgram.toAst, List.getElem?_map, hd]

/-- a body that is `Wf` at depth 0 / 0 against its own labels, with its labels recorded at their depths, may be run by an
activation -/
theorem actOk_of_wf (prog : SProgram) (sc : Scope) (body : SStmt)
    (hwf : Wf (sigsOf prog.procs) sc (dpOf prog) body.labels 0 0 body)
    (hlab : LabAt (envOf prog) 0 0 off body) :
    ActOk (dpOf prog).fd (dpOf prog).sd prog.toAst (desugar body) := by
  have hlabs : ∀ L, L ∈ body.labels → (desugar body).hasLabel L = true := by
    intro L hL
    rw [hasLabel_desugar hwf]
    simpa using hL
  refine ⟨disc_desugar _ sc (dpOf prog) body.labels prog.toAst (desugar body) (sigs_procs prog) hlabs body 0 0 hwf
    (fun L d' e' hm => hlab.2 L d' e' hm), ?_⟩
  intro L hL
  exact hlabs L (gotos_in_labs _ _ _ _ body 0 0 hwf L (gotos_desugar body L hL))

theorem main_actOk (prog : SProgram) (hw : ProgWf prog) :
    ActOk (dpOf prog).fd (dpOf prog).sd prog.toAst (desugar prog.body) := by
  have hwf : Wf (sigsOf prog.procs) (mainScope prog) (dpOf prog) (strip prog.body).labels 0 0 (strip prog.body) := by
    rw [labels_strip]; exact wf_strip _ _ _ _ _ hw.body
  have := actOk_of_wf prog (mainScope prog) (strip prog.body) hwf (labAt_main prog hw)
  rwa [desugar_strip] at this

theorem proc_actOk (prog : SProgram) (hw : ProgWf prog) (f : Nat) (d : ProcDecl Stmt)
    (hd : prog.toAst.procs[f]? = some d) : ActOk (dpOf prog).fd (dpOf prog).sd prog.toAst d.body := by
  simp only [SProgram.toAst, List.getElem?_map, Option.map_eq_some_iff] at hd
  obtain ⟨d0, hd0, rfl⟩ := hd
  exact actOk_of_wf prog (procScope prog.gslots f d0) d0.body (hw.procs f d0 hd0).2 (labAt_proc prog hw f d0 hd0)

/-- the main module, run from its first statement in any state: never `illFormed` -/
theorem main_never_illFormed (prog : SProgram) (hw : ProgWf prog) (fuel : Nat) (st : RbModel.Proc.Ref.St) :
    (ProcJ.Ref.exec prog.toAst fuel ⟨false, desugar prog.body⟩ (desugar prog.body) .run st).2 ≠ .illFormed :=
  exec_never_illFormed (proc_actOk prog hw) fuel ⟨false, desugar prog.body⟩ (desugar prog.body) 0 0 .run st
    (main_actOk prog hw) (main_actOk prog hw).1 trivial

/-- **`run_never_illFormed`** — for every program of the layer "procedures ∪ jumps" that satisfies the premise `ProgWf` of the
simulation theorem and every amount of fuel the reference semantics does not answer `illFormed`: no call of a procedure that
does not exist, no jump out of a body, no jump into a FOR body or a SELECT block, no EXIT SUB in the main module.  No further
premise. -/
theorem run_never_illFormed (prog : SProgram) (hw : ProgWf prog) (fuel : Nat) :
    (ProcJ.Ref.run fuel prog.toAst).2 ≠ .illFormed := by
  intro h
  have h1 := run_illFormed prog hw fuel (ProcJ.Ref.run fuel prog.toAst).1 (Prod.ext rfl h)
  exact main_never_illFormed prog hw fuel (startSt prog) (by rw [h1])

theorem run_never_illFormed_checked (prog : SProgram) (h : progWfB prog = true) (fuel : Nat) :
    (ProcJ.Ref.run fuel prog.toAst).2 ≠ .illFormed :=
  run_never_illFormed prog (progWfB_sound prog h) fuel

/-- **what a run can answer** under the premise: `normal`, END, a BASIC error with its position, `inexact` or `outOfFuel` -/
theorem run_outcome (prog : SProgram) (hw : ProgWf prog) (fuel : Nat) :
    (ProcJ.Ref.run fuel prog.toAst).2 = .normal ∨ (ProcJ.Ref.run fuel prog.toAst).2 = .halted ∨
    (∃ c p, (ProcJ.Ref.run fuel prog.toAst).2 = .error c p) ∨
    (ProcJ.Ref.run fuel prog.toAst).2 = .inexact ∨ (ProcJ.Ref.run fuel prog.toAst).2 = .outOfFuel := by
  have hill := run_never_illFormed prog hw fuel
  have hs := compile_correct prog hw fuel
  generalize ProcJ.Ref.run fuel prog.toAst = r at hill hs ⊢
  obtain ⟨s', o⟩ := r
  cases o <;> simp_all

/-- **`compile_correct_total`** — the simulation theorem without its silent case: for every program in the premise and every
fuel at which the reference run is neither out of fuel nor inexact, EITHER the reference ended normally or with END and the VM
model on the generated code reaches a `Halt` with the reference's output, OR the reference stopped with BASIC error `c` at
position `p` and the VM stops with exactly that error at that position with the reference's output. -/
theorem compile_correct_total (prog : SProgram) (hw : ProgWf prog) (fuel : Nat)
    (hf : (ProcJ.Ref.run fuel prog.toAst).2 ≠ .outOfFuel) (hi : (ProcJ.Ref.run fuel prog.toAst).2 ≠ .inexact) :
    (((ProcJ.Ref.run fuel prog.toAst).2 = .normal ∨ (ProcJ.Ref.run fuel prog.toAst).2 = .halted) ∧
      HaltsWith (compile prog) Vm.init (ProcJ.Ref.run fuel prog.toAst).1.out) ∨
    (∃ c p, (ProcJ.Ref.run fuel prog.toAst).2 = .error c p ∧
      ErrsWith (compile prog) Vm.init c p (ProcJ.Ref.run fuel prog.toAst).1.out) := by
  have hs := compile_correct prog hw fuel
  have ho := run_outcome prog hw fuel
  generalize ProcJ.Ref.run fuel prog.toAst = r at hs ho hf hi ⊢
  obtain ⟨s', o⟩ := r
  rcases ho with ho | ho | ⟨c, p, ho⟩ | ho | ho
  · simp only at ho; subst ho; exact .inl ⟨.inl rfl, hs⟩
  · simp only at ho; subst ho; exact .inl ⟨.inr rfl, hs⟩
  · simp only at ho; subst ho; exact .inr ⟨c, p, rfl, hs⟩
  · exact absurd ho hi
  · exact absurd ho hf

/-- the same for the bounded interpreter `ProcJ.Vm.run` that the correspondence check executes against the real VM -/
theorem run_correct_total (prog : SProgram) (hw : ProgWf prog) (fuel : Nat)
    (hf : (ProcJ.Ref.run fuel prog.toAst).2 ≠ .outOfFuel) (hi : (ProcJ.Ref.run fuel prog.toAst).2 ≠ .inexact) :
    (((ProcJ.Ref.run fuel prog.toAst).2 = .normal ∨ (ProcJ.Ref.run fuel prog.toAst).2 = .halted) ∧
      ∃ n υ, (∀ m, n ≤ m → Vm.run (compile prog) m Vm.init = .halted υ) ∧
        υ.out = (ProcJ.Ref.run fuel prog.toAst).1.out) ∨
    (∃ c p, (ProcJ.Ref.run fuel prog.toAst).2 = .error c p ∧
      ∃ n υ, (∀ m, n ≤ m → Vm.run (compile prog) m Vm.init = .error c p υ) ∧
        υ.out = (ProcJ.Ref.run fuel prog.toAst).1.out) := by
  have hs := run_correct prog hw fuel
  have ho := run_outcome prog hw fuel
  generalize ProcJ.Ref.run fuel prog.toAst = r at hs ho hf hi ⊢
  obtain ⟨s', o⟩ := r
  rcases ho with ho | ho | ⟨c, p, ho⟩ | ho | ho
  · simp only at ho; subst ho; exact .inl ⟨.inl rfl, hs⟩
  · simp only at ho; subst ho; exact .inl ⟨.inr rfl, hs⟩
  · simp only at ho; subst ho; exact .inr ⟨c, p, rfl, hs⟩
  · exact absurd ho hi
  · exact absurd ho hf

theorem compile_correct_total_checked (prog : SProgram) (h : progWfB prog = true) (fuel : Nat)
    (hf : (ProcJ.Ref.run fuel prog.toAst).2 ≠ .outOfFuel) (hi : (ProcJ.Ref.run fuel prog.toAst).2 ≠ .inexact) :
    (((ProcJ.Ref.run fuel prog.toAst).2 = .normal ∨ (ProcJ.Ref.run fuel prog.toAst).2 = .halted) ∧
      HaltsWith (compile prog) Vm.init (ProcJ.Ref.run fuel prog.toAst).1.out) ∨
    (∃ c p, (ProcJ.Ref.run fuel prog.toAst).2 = .error c p ∧
      ErrsWith (compile prog) Vm.init c p (ProcJ.Ref.run fuel prog.toAst).1.out) :=
  compile_correct_total prog (progWfB_sound prog h) fuel hf hi

/-! ### non-vacuity -/

/-- a SUB with a FOR loop whose body calls a GOSUB routine of the SUB and leaves the loop by GOTO, an EXIT SUB, and a FUNCTION
called inside an expression (X% is DIM SHARED; labels 0 = Done, 1 = R):
```
DIM SHARED X%
CALL S
PRINT X% + F%(2)
END
SUB S
  FOR I% = 1 TO 3
    GOSUB R
    IF X% > 1 THEN GOTO Done
  NEXT
  Done:
  EXIT SUB
  R:
  X% = X% + 1
  RETURN
END SUB
FUNCTION F%(A%)
  F% = A% + 1
END FUNCTION
``` -/
def demo : SProgram :=
  { slots := [],
    gslots := [.int],
    body :=
      .seq (.dim ⟨true, 0⟩ .int ⟨1, 12⟩)
      (.seq (.callSub 0 .nil ⟨2, 1⟩)
      (.seq (.print [.expr (.bin .plus (.var ⟨true, 0⟩ .int ⟨3, 7⟩)
          (.callFn 1 (.cons (.lit (.int 2) ⟨3, 15⟩) "A" .int .nil) .int ⟨3, 12⟩) .int ⟨3, 10⟩)] ⟨3, 1⟩)
      (.seq (.end_ ⟨4, 1⟩) .skip))),
    procs :=
      [ { result := none, name := "S", params := [], slots := [.int],
          body :=
            .seq (.forLoop ⟨false, 0⟩ .int (.lit (.int 1) ⟨6, 12⟩) (.lit (.int 3) ⟨6, 17⟩) none
              (.seq (.gosub 1 ⟨7, 5⟩)
              (.seq (.ifBlock (.bin .greater (.var ⟨true, 0⟩ .int ⟨8, 8⟩) (.lit (.int 1) ⟨8, 13⟩) .int ⟨8, 11⟩)
                  (.seq (.goto 0 ⟨8, 20⟩) .skip) .nil false .skip ⟨8, 5⟩) .skip)) ⟨6, 3⟩)
            (.seq (.label 0 "Done" ⟨10, 3⟩)
            (.seq (.exitProc ⟨11, 3⟩)
            (.seq (.label 1 "R" ⟨12, 3⟩)
            (.seq (.assign ⟨true, 0⟩ .int (.bin .plus (.var ⟨true, 0⟩ .int ⟨13, 8⟩) (.lit (.int 1) ⟨13, 13⟩) .int ⟨13, 11⟩)
                ⟨13, 3⟩)
            (.seq (.ret ⟨14, 3⟩) .skip))))),
          pos := ⟨5, 1⟩ },
        { result := some .int, name := "F%", params := [("A", .int)], slots := [.int, .int],
          body :=
            .seq (.assign ⟨false, 1⟩ .int (.bin .plus (.var ⟨false, 0⟩ .int ⟨17, 8⟩) (.lit (.int 1) ⟨17, 13⟩) .int ⟨17, 11⟩)
              ⟨17, 3⟩) .skip,
          pos := ⟨16, 1⟩ } ] }

/-- the premise holds, the run ends with END (X% = 2, F%(2) = 3): the hypotheses of `compile_correct_total` are satisfiable -/
example : progWfB demo = true ∧ (ProcJ.Ref.run 60 demo.toAst).2 = .halted ∧ (ProcJ.Ref.run 60 demo.toAst).1.glob = [.int 2] := by
  decide +kernel

example (fuel : Nat) : (ProcJ.Ref.run fuel demo.toAst).2 ≠ .illFormed :=
  run_never_illFormed_checked demo (by decide +kernel) fuel

example : HaltsWith (compile demo) Vm.init (ProcJ.Ref.run 60 demo.toAst).1.out := by
  have h : (ProcJ.Ref.run 60 demo.toAst).2 = .halted := by decide +kernel
  rcases compile_correct_total_checked demo (by decide +kernel) 60 (by rw [h]; simp) (by rw [h]; simp) with h1 | ⟨c, p, h1, _⟩
  · exact h1.2
  · rw [h] at h1; cases h1

/-- a GOTO inside a SUB to a label of the main module: `CALL S : 0: END` / `SUB S : GOTO 0 : END SUB` -/
def jumpOut : SProgram :=
  { slots := [], gslots := [],
    body := .seq (.callSub 0 .nil ⟨1, 1⟩) (.seq (.label 0 "L" ⟨2, 1⟩) (.seq (.end_ ⟨3, 1⟩) .skip)),
    procs := [ { result := none, name := "S", params := [], slots := [], body := .seq (.goto 0 ⟨5, 3⟩) .skip, pos := ⟨4, 1⟩ } ] }

/-- a call of a procedure that does not exist -/
def noProc : SProgram :=
  { slots := [], gslots := [], body := .seq (.callSub 3 .nil ⟨1, 1⟩) .skip, procs := [] }

/-- EXIT SUB in the main module -/
def exitMain : SProgram :=
  { slots := [], gslots := [], body := .seq (.exitProc ⟨1, 1⟩) .skip, procs := [] }

/-- **the premise is what excludes `illFormed`**: outside it the reference semantics does answer it -/
example : progWfB jumpOut = false ∧ (ProcJ.Ref.run 20 jumpOut.toAst).2 = .illFormed := by decide +kernel
example : progWfB noProc = false ∧ (ProcJ.Ref.run 20 noProc.toAst).2 = .illFormed := by decide +kernel
example : progWfB exitMain = false ∧ (ProcJ.Ref.run 20 exitMain.toAst).2 = .illFormed := by decide +kernel

end RbThm.ProcJNoIll
