import RbModel.Ref
/-!
C01 — running a core-language program yields exactly the prescribed output and outcome.

The prescription is the reference semantics `RbModel.Ref.exec`.  This file proves that the
prescription is well defined: the outcome and output of a program do not depend on the fuel it
is run with (once it suffices), hence are a function of the program text alone; and the
"first failing statement ends the run" clause.  The comparison of the implementation with the
prescription is the correspondence run (harness/src/bin/c01.rs); the simulation proof of the
code generator + VM against `Ref` is in Thm/C01Sim.lean (expressions and straight-line code).
-/
namespace RbThm.C01
open RbModel RbModel.Num RbModel.Ast RbModel.Ref

def Outcome.isFuel : Outcome → Bool
  | .outOfFuel => true
  | _ => false

/-- all three mutually recursive functions are stable under one more unit of fuel -/
def Stable (fuel : Nat) : Prop :=
  (∀ stmt s s' o, exec fuel stmt s = (s', o) → Outcome.isFuel o = false → exec (fuel + 1) stmt s = (s', o)) ∧
  (∀ p subj cs s s' o, execCases fuel p subj cs s = (s', o) → Outcome.isFuel o = false →
      execCases (fuel + 1) p subj cs s = (s', o)) ∧
  (∀ x t h sv up body p s s' o, forIter fuel x t h sv up body p s = (s', o) → Outcome.isFuel o = false →
      forIter (fuel + 1) x t h sv up body p s = (s', o))

theorem stable_zero : Stable 0 := by
  refine ⟨?_, ?_, ?_⟩
  · intro stmt s s' o h ho
    simp [exec] at h
    obtain ⟨_, rfl⟩ := h
    simp [Outcome.isFuel] at ho
  · intro p subj cs s s' o h ho
    simp [execCases] at h
    obtain ⟨_, rfl⟩ := h
    simp [Outcome.isFuel] at ho
  · intro x t h sv up body p s s' o hh ho
    simp [forIter] at hh
    obtain ⟨_, rfl⟩ := hh
    simp [Outcome.isFuel] at ho

theorem stable_succ (n : Nat) (ih : Stable n) : Stable (n + 1) := by
  obtain ⟨ihE, ihC, ihF⟩ := ih
  refine ⟨?_, ?_, ?_⟩
  · intro stmt s s' o h ho
    cases stmt with
    | skip => simpa [exec] using h
    | seq a b =>
      simp only [exec] at h ⊢
      generalize hr : exec n a s = r at h
      obtain ⟨s1, o1⟩ := r
      cases o1 with
      | normal => simp only at h; rw [ihE _ _ _ _ hr rfl]; simp only; exact ihE _ _ _ _ h ho
      | outOfFuel => (simp only at h; cases h; simp [Outcome.isFuel] at ho)
      | halted => rw [ihE _ _ _ _ hr rfl]; simpa using h
      | error c q => rw [ihE _ _ _ _ hr rfl]; simpa using h
      | inexact => rw [ihE _ _ _ _ hr rfl]; simpa using h
    | assign x t e p => simpa [exec] using h
    | print items p => simpa [exec] using h
    | read x t p => simpa [exec] using h
    | ifs c thn els p =>
      simp only [exec] at h ⊢
      cases hc : evalCond s.env c with
      | error o' => simpa [hc] using h
      | ok b =>
        cases b with
        | true => simp only [hc] at h ⊢; exact ihE _ _ _ _ h ho
        | false => simp only [hc] at h ⊢; exact ihE _ _ _ _ h ho
    | select e cases p =>
      simp only [exec] at h ⊢
      cases he : evalE s.env e with
      | error o' => simpa [he] using h
      | ok subj => simp only [he] at h ⊢; exact ihC _ _ _ _ _ _ h ho
    | forLoop x t lo hi step body p =>
      simp only [exec] at h ⊢
      cases hl : evalTo s.env lo t with
      | err c q => simpa [hl] using h
      | inexact => simpa [hl] using h
      | ok l =>
        simp only [hl] at h ⊢
        cases hh : evalTo (s.set x l).env hi t with
        | err c q => simpa [hh] using h
        | inexact => simpa [hh] using h
        | ok hv =>
          simp only [hh] at h ⊢
          cases step with
          | none => simp only at h ⊢; exact ihF _ _ _ _ _ _ _ _ _ _ h ho
          | some se =>
            simp only at h ⊢
            cases hs : evalE (s.set x l).env se with
            | error o' => simpa [hs] using h
            | ok sv =>
              simp only [hs] at h ⊢
              cases hsg : stepSign p sv with
              | error o' => simpa [hsg] using h
              | ok sg =>
                cases sg with
                | neg => simp only [hsg] at h ⊢; exact ihF _ _ _ _ _ _ _ _ _ _ h ho
                | pos => simp only [hsg] at h ⊢; exact ihF _ _ _ _ _ _ _ _ _ _ h ho
                | zero => simpa [hsg] using h
    | «while» c body p =>
      simp only [exec] at h ⊢
      cases hc : evalCond s.env c with
      | error o' => simpa [hc] using h
      | ok b =>
        cases b with
        | false => simpa [hc] using h
        | true =>
          simp only [hc] at h ⊢
          generalize hr : exec n body s = r at h
          obtain ⟨s1, o1⟩ := r
          cases o1 with
          | normal => simp only at h; rw [ihE _ _ _ _ hr rfl]; simp only; exact ihE _ _ _ _ h ho
          | outOfFuel => (simp only at h; cases h; simp [Outcome.isFuel] at ho)
          | halted => rw [ihE _ _ _ _ hr rfl]; simpa using h
          | error c q => rw [ihE _ _ _ _ hr rfl]; simpa using h
          | inexact => rw [ihE _ _ _ _ hr rfl]; simpa using h
    | doLoop c top until_ body p =>
      simp only [exec] at h ⊢
      cases top with
      | true =>
        simp only [if_true] at h ⊢
        cases hc : evalCond s.env c with
        | error o' => simpa [hc] using h
        | ok b =>
          simp only [hc] at h ⊢
          by_cases hb : (b != until_) = true
          · simp only [hb, if_true] at h ⊢
            generalize hr : exec n body s = r at h
            obtain ⟨s1, o1⟩ := r
            cases o1 with
            | normal => simp only at h; rw [ihE _ _ _ _ hr rfl]; simp only; exact ihE _ _ _ _ h ho
            | outOfFuel => (simp only at h; cases h; simp [Outcome.isFuel] at ho)
            | halted => rw [ihE _ _ _ _ hr rfl]; simpa using h
            | error c q => rw [ihE _ _ _ _ hr rfl]; simpa using h
            | inexact => rw [ihE _ _ _ _ hr rfl]; simpa using h
          · simpa [hb] using h
      | false =>
        simp only [Bool.false_eq_true, if_false] at h ⊢
        generalize hr : exec n body s = r at h
        obtain ⟨s1, o1⟩ := r
        cases o1 with
        | normal =>
          simp only at h
          rw [ihE _ _ _ _ hr rfl]
          simp only
          cases hc : evalCond s1.env c with
          | error o' => simpa [hc] using h
          | ok b =>
            simp only [hc] at h ⊢
            by_cases hb : (b != until_) = true
            · simp only [hb, if_true] at h ⊢; exact ihE _ _ _ _ h ho
            · simpa [hb] using h
        | outOfFuel => (simp only at h; cases h; simp [Outcome.isFuel] at ho)
        | halted => rw [ihE _ _ _ _ hr rfl]; simpa using h
        | error c q => rw [ihE _ _ _ _ hr rfl]; simpa using h
        | inexact => rw [ihE _ _ _ _ hr rfl]; simpa using h
    | end_ p => simpa [exec] using h
  · intro p subj cs s s' o h ho
    cases cs with
    | nil => simpa [execCases] using h
    | else_ body => simp only [execCases] at h ⊢; exact ihE _ _ _ _ h ho
    | case conds body rest =>
      simp only [execCases] at h ⊢
      cases hm : anyMatches s.env p subj conds with
      | error o' => simpa [hm] using h
      | ok b =>
        cases b with
        | true => simp only [hm] at h ⊢; exact ihE _ _ _ _ h ho
        | false => simp only [hm] at h ⊢; exact ihC _ _ _ _ _ _ h ho
  · intro x t hv sv up body p s s' o h ho
    simp only [forIter] at h ⊢
    generalize hr0 : relTest p (if up = true then Op.lessOrEqual else Op.greaterOrEqual)
        (s.env.getD x (zeroOf t)) hv = rt at h ⊢
    cases rt with
    | error o' => exact h
    | ok b =>
      cases b with
      | false => exact h
      | true =>
        simp only at h ⊢
        generalize hr : exec n body s = r at h
        obtain ⟨s1, o1⟩ := r
        cases o1 with
        | normal =>
          simp only at h
          rw [ihE _ _ _ _ hr rfl]
          simp only
          generalize hp : (plus (s1.env.getD x (zeroOf t)) sv).bind (fun v => Num.cast v t) = pr at h ⊢
          cases pr with
          | ok v => simp only at h ⊢; exact ihF _ _ _ _ _ _ _ _ _ _ h ho
          | err e => exact h
          | inexact => exact h
        | outOfFuel => (simp only at h; cases h; simp [Outcome.isFuel] at ho)
        | halted => rw [ihE _ _ _ _ hr rfl]; simpa using h
        | error c q => rw [ihE _ _ _ _ hr rfl]; simpa using h
        | inexact => rw [ihE _ _ _ _ hr rfl]; simpa using h

theorem stable_all : ∀ n, Stable n
  | 0 => stable_zero
  | n + 1 => stable_succ n (stable_all n)

/-- **The outcome of a statement does not depend on the fuel**, once the fuel suffices. -/
theorem exec_fuel_mono (fuel k : Nat) (stmt : Stmt) (s s' : St) (o : Outcome)
    (h : exec fuel stmt s = (s', o)) (ho : Outcome.isFuel o = false) :
    exec (fuel + k) stmt s = (s', o) := by
  induction k with
  | zero => exact h
  | succ k ih => exact (stable_all (fuel + k)).1 _ _ _ _ ih ho

/-- **The outcome is a function of the program text alone**: two sufficient amounts of fuel give the
same final state (variables, output bytes) and the same outcome. -/
theorem run_deterministic (f₁ f₂ : Nat) (prog : Program) (s₁ s₂ : St) (o₁ o₂ : Outcome)
    (h₁ : run f₁ prog = (s₁, o₁)) (h₂ : run f₂ prog = (s₂, o₂))
    (ho₁ : Outcome.isFuel o₁ = false) (ho₂ : Outcome.isFuel o₂ = false) :
    s₁.env = s₂.env ∧ s₁.out = s₂.out ∧ o₁ = o₂ := by
  unfold run at h₁ h₂
  have e₁ := exec_fuel_mono f₁ f₂ _ _ _ _ h₁ ho₁
  have e₂ := exec_fuel_mono f₂ f₁ _ _ _ _ h₂ ho₂
  rw [Nat.add_comm] at e₂
  rw [e₁] at e₂
  injection e₂ with hs ho
  subst hs; subst ho
  exact ⟨rfl, rfl, rfl⟩

/-- **The first failing statement ends the run**: nothing after it executes, the output is what
was printed up to that point, the outcome is that statement's error. -/
theorem first_error_ends_run (fuel : Nat) (a b : Stmt) (s s' : St) (c : Nat) (p : Pos)
    (h : exec fuel a s = (s', .error c p)) :
    exec (fuel + 1) (.seq a b) s = (s', .error c p) := by
  simp [exec, h]

/-- a statement after a normally ending one starts from the state the first one left -/
theorem seq_normal (fuel : Nat) (a b : Stmt) (s s' : St)
    (h : exec fuel a s = (s', .normal)) :
    exec (fuel + 1) (.seq a b) s = exec fuel b s' := by
  simp [exec, h]

end RbThm.C01
