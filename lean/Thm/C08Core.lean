import Thm.C01Sim
/-!
C08 for the core sub-language — no internal failure.

`RbModel.CoreVm.step` answers `stuck` exactly where the real VM would panic on the core instructions
(pop from an empty value / register / variable-path stack, an operand of the wrong kind in an unchecked
accessor such as `to_str_unchecked`, a missing variable slot, no instruction at the pc) — and where the
model's exact arithmetic leaves its domain (`inexact`).  The simulation theorem of C01
(`RbThm.C01Sim.C01_core_correct`) says that the VM model running the code the generator model emits reaches the
end the reference semantics reaches.  Because `step` is a function, that single run is *the* run: so for every
accepted core program on which the reference semantics finishes (normally, with END, or with a BASIC error), the VM
model never answers `stuck`, for any amount of fuel, and with enough fuel ends halted or in that BASIC error.

This is the statement of C08 ("runs to a BASIC-level outcome, never an internal failure") proved for the
modelled core: assignments, PRINT, IF / ELSEIF / ELSE, WHILE, the four DO forms, SELECT CASE, FOR with and
without STEP, DATA / READ, END over the five scalar types.  The tie of `Core.compile` and `CoreVm` to the real
generator and VM is C01's correspondence run.
-/
namespace RbThm.C08Core
open RbModel RbModel.Num RbModel.Ast RbModel.Src RbModel.Core RbModel.CoreVm RbModel.Ref
open RbThm.C01Sim

/-- the reference semantics finished: normally, with END, or with a BASIC error (not cut by the fuel, not
outside the exact arithmetic domain) -/
def finished : Outcome → Bool
  | .normal => true
  | .halted => true
  | .error _ _ => true
  | .inexact => false
  | .outOfFuel => false

abbrev Finished (o : Outcome) : Prop := finished o = true

/-! ### helper lemmas: `step` is a function, so a run that is known to end cannot get stuck earlier -/

theorem run_of_steps_halt (code : Code) {σ τ υ : Vm} (h : Steps code σ τ)
    (hh : CoreVm.step code τ = .halt υ) :
    ∀ m, CoreVm.run code m σ = .outOfFuel ∨ CoreVm.run code m σ = .halted υ := by
  induction h with
  | refl σ =>
    intro m
    cases m with
    | zero => exact .inl rfl
    | succ k => exact .inr (by simp [CoreVm.run, hh])
  | cons hs _ ih =>
    intro m
    cases m with
    | zero => exact .inl rfl
    | succ k =>
      rcases ih hh k with h1 | h1
      · exact .inl (by simp [CoreVm.run, hs, h1])
      · exact .inr (by simp [CoreVm.run, hs, h1])

theorem run_of_steps_error (code : Code) {σ τ υ : Vm} {c : Nat} {p : Pos} (h : Steps code σ τ)
    (hh : CoreVm.step code τ = .error c p υ) :
    ∀ m, CoreVm.run code m σ = .outOfFuel ∨ CoreVm.run code m σ = .error c p υ := by
  induction h with
  | refl σ =>
    intro m
    cases m with
    | zero => exact .inl rfl
    | succ k => exact .inr (by simp [CoreVm.run, hh])
  | cons hs _ ih =>
    intro m
    cases m with
    | zero => exact .inl rfl
    | succ k =>
      rcases ih hh k with h1 | h1
      · exact .inl (by simp [CoreVm.run, hs, h1])
      · exact .inr (by simp [CoreVm.run, hs, h1])

theorem run_eventually_error (code : Code) {σ τ υ : Vm} {c : Nat} {p : Pos} (h : Steps code σ τ)
    (hh : CoreVm.step code τ = .error c p υ) :
    ∃ n, ∀ m, n ≤ m → CoreVm.run code m σ = .error c p υ := by
  induction h with
  | refl σ =>
    refine ⟨1, fun m hm => ?_⟩
    obtain ⟨k, rfl⟩ : ∃ k, m = k + 1 := ⟨m - 1, by omega⟩
    simp [CoreVm.run, hh]
  | cons hs _ ih =>
    obtain ⟨n, hn⟩ := ih hh
    refine ⟨n + 1, fun m hm => ?_⟩
    obtain ⟨k, rfl⟩ : ∃ k, m = k + 1 := ⟨m - 1, by omega⟩
    simp [CoreVm.run, hs, hn k (by omega)]

/-! ### the property theorems -/

/-- **`core_no_internal_failure`** — for every well-formed core program (`WfTop`: what the checker establishes)
on which the reference semantics finishes, the VM model running the generated code never reaches an
internal-failure (`stuck`) state: whatever the instruction budget `m`, the run is still going, or has halted,
or has ended in a BASIC error. -/
theorem core_no_internal_failure (prog : SProgram) (fuel : Nat) (hw : WfTop prog.slots prog.body)
    (hfin : Finished (Ref.run fuel prog.toAst).2) :
    ∀ m, CoreVm.run (compile prog) m (Vm.init prog.slots) ≠ .stuck := by
  have h := C01_core_correct prog fuel hw
  intro m
  rcases hr : Ref.run fuel prog.toAst with ⟨s', o⟩
  rw [hr] at h hfin
  cases o with
  | normal =>
    obtain ⟨τ, υ, hs, hh, _⟩ := h
    rcases run_of_steps_halt _ hs hh m with h1 | h1 <;> simp [h1]
  | halted =>
    obtain ⟨τ, υ, hs, hh, _⟩ := h
    rcases run_of_steps_halt _ hs hh m with h1 | h1 <;> simp [h1]
  | error c p =>
    obtain ⟨τ, υ, hs, hh, _⟩ := h
    rcases run_of_steps_error _ hs hh m with h1 | h1 <;> simp [h1]
  | inexact => simp [Finished, finished] at hfin
  | outOfFuel => simp [Finished, finished] at hfin

/-- **`core_basic_level_outcome`** — ... and with a large enough budget the run ends at BASIC level: halted (the
reference ended normally or with END) or in exactly the BASIC error, code and position, the reference ends in. -/
theorem core_basic_level_outcome (prog : SProgram) (fuel : Nat) (hw : WfTop prog.slots prog.body)
    (hfin : Finished (Ref.run fuel prog.toAst).2) :
    ∃ n, ∀ m, n ≤ m →
      (∃ ω, CoreVm.run (compile prog) m (Vm.init prog.slots) = .halted ω) ∨
      (∃ c p ω, CoreVm.run (compile prog) m (Vm.init prog.slots) = .error c p ω ∧
        (Ref.run fuel prog.toAst).2 = .error c p) := by
  have h := C01_core_correct prog fuel hw
  rcases hr : Ref.run fuel prog.toAst with ⟨s', o⟩
  rw [hr] at h hfin
  cases o with
  | normal =>
    obtain ⟨τ, υ, hs, hh, _⟩ := h
    obtain ⟨n, hn⟩ := run_of_steps _ hs hh
    exact ⟨n, fun m hm => .inl (by obtain ⟨ω, h1, _⟩ := hn m hm; exact ⟨ω, h1⟩)⟩
  | halted =>
    obtain ⟨τ, υ, hs, hh, _⟩ := h
    obtain ⟨n, hn⟩ := run_of_steps _ hs hh
    exact ⟨n, fun m hm => .inl (by obtain ⟨ω, h1, _⟩ := hn m hm; exact ⟨ω, h1⟩)⟩
  | error c p =>
    obtain ⟨τ, υ, hs, hh, _⟩ := h
    obtain ⟨n, hn⟩ := run_eventually_error _ hs hh
    exact ⟨n, fun m hm => .inr ⟨c, p, υ, hn m hm, rfl⟩⟩
  | inexact => simp [Finished, finished] at hfin
  | outOfFuel => simp [Finished, finished] at hfin

/-! ### non-vacuity: accepted programs on which the reference finishes, normally and with a BASIC error -/

/-- `X% = 0 : WHILE X% < 2 : PRINT X% : X% = X% + 1 : WEND` -/
private def loopProg : SProgram :=
  { slots := [.int],
    body := .seq (.assign 0 .int (.lit (.int 0) ⟨1, 5⟩) ⟨1, 1⟩)
      (.seq (.while (.bin .less (.var 0 .int ⟨2, 7⟩) (.lit (.int 2) ⟨2, 11⟩) .int ⟨2, 9⟩)
              (.seq (.print [.expr (.var 0 .int ⟨3, 7⟩)] ⟨3, 1⟩)
                (.seq (.assign 0 .int (.bin .plus (.var 0 .int ⟨4, 5⟩) (.lit (.int 1) ⟨4, 9⟩) .int ⟨4, 7⟩) ⟨4, 1⟩) .skip)) ⟨2, 1⟩)
        .skip) }

example : WfTop loopProg.slots loopProg.body := by
  refine ⟨⟨rfl, trivial, trivial⟩, ⟨⟨Nat.zero_lt_one, trivial⟩, ?_, ?_⟩, trivial⟩
  · exact fun env _ => numericCond_of_rel _ _ _ _ _ (.inl rfl) env
  · exact ⟨⟨Nat.zero_lt_one, trivial⟩, ⟨rfl, ⟨Nat.zero_lt_one, trivial⟩, rfl, trivial, .inr rfl⟩, trivial⟩

example : Finished (Ref.run 100 loopProg.toAst).2 := by decide +kernel

/-- `X% = 1 : X% = X% + 32767` (Overflow, 6): an accepted program that ends in a BASIC error -/
private def ovfProg : SProgram :=
  { slots := [.int],
    body := .seq (.assign 0 .int (.lit (.int 1) ⟨1, 6⟩) ⟨1, 1⟩)
      (.seq (.assign 0 .int (.bin .plus (.var 0 .int ⟨2, 6⟩) (.lit (.int 32767) ⟨2, 11⟩) .int ⟨2, 9⟩) ⟨2, 1⟩) .skip) }

example : WfTop ovfProg.slots ovfProg.body :=
  ⟨⟨rfl, trivial, trivial⟩, ⟨rfl, ⟨Nat.zero_lt_one, trivial⟩, rfl, trivial, .inr rfl⟩, trivial⟩

example : (match (Ref.run 10 ovfProg.toAst).2 with | .error 6 _ => true | _ => false) = true := by decide +kernel

end RbThm.C08Core
