import RbModel.CoreVm
import Thm.C01Len
/-!
C01, simulation part: the code the generator model `Core.compile*` emits, run on the VM model
`CoreVm.step`, computes what the reference semantics `Ref` prescribes.

Both models are tied to the real code on every run (harness/src/bin/c01.rs): `Core.compile p` is
compared instruction-for-instruction with the real `generate_instructions` output of every core
program, and `CoreVm.run (Core.compile p)` with the real interpreter's output and outcome.

Proof style: `CodeAt code off frag` places a fragment inside a larger instruction list; `Steps`
is the reflexive-transitive closure of successful VM steps; one lemma per instruction, then one
theorem per construct by induction on the syntax.
-/
namespace RbThm.C01Sim
set_option linter.unusedVariables false
set_option linter.unusedSimpArgs false
open RbModel RbModel.Num RbModel.Ast RbModel.Src RbModel.Core RbModel.CoreVm RbModel.Ref
open RbThm.C01Len

/-! ### code placement -/

/-- the fragment `frag` sits in `code` at address `off` -/
def CodeAt (code : Code) (off : Nat) (frag : Code) : Prop :=
  ∀ i, i < frag.length → code[off + i]? = frag[i]?

theorem CodeAt.nil (code : Code) (off : Nat) : CodeAt code off [] := by
  intro i hi; simp at hi

theorem CodeAt.append_left {code : Code} {off : Nat} {a b : Code} (h : CodeAt code off (a ++ b)) :
    CodeAt code off a := by
  intro i hi
  have := h i (by simp; omega)
  rw [this, List.getElem?_append_left hi]

theorem CodeAt.append_right {code : Code} {off : Nat} {a b : Code} (h : CodeAt code off (a ++ b)) :
    CodeAt code (off + a.length) b := by
  intro i hi
  have := h (a.length + i) (by simp; omega)
  rw [Nat.add_assoc, this, List.getElem?_append_right (by omega)]
  congr 1; omega

theorem CodeAt.head {code : Code} {off : Nat} {x : CInstr × Pos} {rest : Code}
    (h : CodeAt code off (x :: rest)) : code[off]? = some x := by
  have := h 0 (by simp)
  simpa using this

theorem CodeAt.tail {code : Code} {off : Nat} {x : CInstr × Pos} {rest : Code}
    (h : CodeAt code off (x :: rest)) : CodeAt code (off + 1) rest := by
  have := CodeAt.append_right (a := [x]) (b := rest) (by simpa using h)
  simpa using this

/-! ### execution -/

/-- zero or more successful steps -/
inductive Steps (code : Code) : Vm → Vm → Prop
  | refl (σ : Vm) : Steps code σ σ
  | cons {σ τ υ : Vm} : CoreVm.step code σ = .next τ → Steps code τ υ → Steps code σ υ

theorem Steps.trans {code : Code} {a b c : Vm} (h₁ : Steps code a b) (h₂ : Steps code b c) : Steps code a c := by
  induction h₁ with
  | refl => exact h₂
  | cons hs _ ih => exact Steps.cons hs (ih h₂)

theorem Steps.one {code : Code} {σ τ : Vm} (h : CoreVm.step code σ = .next τ) : Steps code σ τ :=
  Steps.cons h (Steps.refl τ)

/-- the run reaches a state whose next step raises the BASIC error `(c, p)`, with the variables and
the output as they are at that point -/
def ErrsWith (code : Code) (σ : Vm) (c : Nat) (p : Pos) (env : List Val) (out : Print.WritePrinter) : Prop :=
  ∃ τ υ, Steps code σ τ ∧ CoreVm.step code τ = .error c p υ ∧ υ.env = env ∧ υ.out = out

theorem ErrsWith.of_steps {code : Code} {σ τ : Vm} {c : Nat} {p : Pos} {env out}
    (h₁ : Steps code σ τ) (h₂ : ErrsWith code τ c p env out) : ErrsWith code σ c p env out := by
  obtain ⟨a, b, h, hs, he, ho⟩ := h₂
  exact ⟨a, b, h₁.trans h, hs, he, ho⟩

/-! ### expressions -/

/-- the state after an expression has been evaluated into A: only A (and scratch register B) and the
program counter differ -/
def afterExpr (σ : Vm) (pc : Nat) (v b : Val) : Vm :=
  { σ with pc := pc, regs := { σ.regs with a := v, b := b } }

/-- evaluating an instruction that writes A from a `Res Val` -/
theorem resA_ok {σ : Vm} {p : Pos} {r : Res Val} {v : Val} (h : r = .ok v) :
    resA σ p r = .next (advance (setA σ v)) := by subst h; rfl

theorem resA_err {σ : Vm} {p : Pos} {r : Res Val} {e : Err} (h : r = .err e) :
    resA σ p r = .error (codeOf e) p σ := by subst h; rfl

/-- `binStep` of the reference semantics is the VM's operator instruction followed, for `/`, by the
`Cast` the generator emits -/
theorem binStep_eq (op : Op) (t : Ty) (a b : Val) :
    binStep op t a b =
      (if op = .divide then (binInstr op a b).bind (fun q => cast q t) else binInstr op a b) := by
  cases op <;> simp [binStep, binInstr]

/-- every variable slot mentioned by the expression exists -/
def SlotsBelow (n : Nat) : Ast.Expr → Prop
  | .lit _ _ => True
  | .var x _ _ => x < n
  | .un _ e _ => SlotsBelow n e
  | .bin _ l r _ _ => SlotsBelow n l ∧ SlotsBelow n r
  | .paren e _ => SlotsBelow n e

theorem getD_of_lt {env : List Val} {x : Nat} (d : Val) (h : x < env.length) :
    env.getD x d = env[x] ∧ env[x]? = some env[x] := by
  constructor
  · simp [List.getD, List.getElem?_eq_getElem h]
  · exact List.getElem?_eq_getElem h

/-- what an expression's code does, as a predicate on the start state -/
def ExprSpec (code : Code) (e : Ast.Expr) (off : Nat) (σ : Vm) : Prop :=
  match eval σ.env e with
  | .ok v => ∃ b, Steps code σ (afterExpr σ (off + (compileExpr e).length) v b)
  | .err c p => ErrsWith code σ c p σ.env σ.out
  | .inexact => True

theorem expr_lit (code : Code) (v : Val) (p : Pos) (off : Nat) (σ : Vm)
    (hc : CodeAt code off (compileExpr (.lit v p))) (hpc : σ.pc = off) :
    ExprSpec code (.lit v p) off σ := by
  simp only [ExprSpec, eval, compileExpr, List.length_singleton]
  refine ⟨σ.regs.b, Steps.one ?_⟩
  have h0 : code[σ.pc]? = some (CInstr.loadA v, p) := by rw [hpc]; exact hc.head
  simp only [CoreVm.step, h0]
  subst hpc
  rfl

theorem expr_var (code : Code) (x : Nat) (t : Ty) (p : Pos) (off : Nat) (σ : Vm)
    (hc : CodeAt code off (compileExpr (.var x t p))) (hpc : σ.pc = off) (hx : x < σ.env.length) :
    ExprSpec code (.var x t p) off σ := by
  obtain ⟨hg, hs⟩ := getD_of_lt (Ref.zeroOf t) hx
  simp only [ExprSpec, eval, compileExpr, hg, List.length_cons, List.length_nil]
  refine ⟨σ.regs.b, ?_⟩
  subst hpc
  have h0 : code[σ.pc]? = some (CInstr.varPath x, p) := hc.head
  have h1 : code[σ.pc + 1]? = some (CInstr.copyVarPathToA, p) := hc.tail.head
  have h2 : code[σ.pc + 1 + 1]? = some (CInstr.popVarPath, p) := hc.tail.tail.head
  refine Steps.cons (τ := advance { σ with paths := x :: σ.paths }) ?_ ?_
  · simp only [CoreVm.step, h0]
  refine Steps.cons (τ := advance (setA (advance { σ with paths := x :: σ.paths }) σ.env[x])) ?_ ?_
  · simp only [CoreVm.step, advance, h1, hs]
  refine Steps.one ?_
  simp only [CoreVm.step, advance, setA, h2]
  rfl

/-- one instruction that rewrites A by a `Res`-valued operation, after an expression -/
theorem after_resA (code : Code) (σ : Vm) (pc : Nat) (v b : Val) (i : CInstr) (p : Pos) (r : Res Val)
    (hi : code[pc]? = some (i, p))
    (hstep : ∀ τ : Vm, τ.pc = pc → τ.regs.a = v → τ.regs.b = b → CoreVm.step code τ = resA τ p r) :
    match lift p r with
    | .ok w => Steps code (afterExpr σ pc v b) (afterExpr σ (pc + 1) w b)
    | .err c q => ErrsWith code (afterExpr σ pc v b) c q σ.env σ.out
    | .inexact => True := by
  have hs := hstep (afterExpr σ pc v b) rfl rfl rfl
  cases r with
  | ok w => exact Steps.one (by rw [hs]; rfl)
  | err e => exact ⟨afterExpr σ pc v b, afterExpr σ pc v b, Steps.refl _, (by rw [hs]; rfl), rfl, rfl⟩
  | inexact => trivial

theorem afterExpr_afterExpr (σ : Vm) (pc pc' : Nat) (v b v' b' : Val) :
    afterExpr (afterExpr σ pc v b) pc' v' b' = afterExpr σ pc' v' b' := rfl

theorem expr_un (code : Code) (op : UnOp) (e : Ast.Expr) (p : Pos) (off : Nat) (σ : Vm)
    (ih : CodeAt code off (compileExpr e) → ExprSpec code e off σ)
    (hc : CodeAt code off (compileExpr (.un op e p))) :
    ExprSpec code (.un op e p) off σ := by
  cases op with
  | neg =>
    simp only [compileExpr] at hc
    have ihe := ih hc.append_left
    have hi : code[off + (compileExpr e).length]? = some (CInstr.negateA, p) := hc.append_right.head
    simp only [ExprSpec, eval, compileExpr, List.length_append, List.length_singleton] at ihe ⊢
    cases he : eval σ.env e with
    | ok v =>
      simp only [he] at ihe
      obtain ⟨b, hsteps⟩ := ihe
      have := after_resA code σ (off + (compileExpr e).length) v b _ p (negate v) hi
        (by intro τ h1 h2 _; simp only [CoreVm.step, h1, hi, h2])
      simp only [ERes.bind]
      cases hn : negate v with
      | ok w =>
        simp only [hn, lift] at this ⊢
        exact ⟨b, hsteps.trans (by simpa [Nat.add_assoc] using this)⟩
      | err er =>
        simp only [hn, lift] at this ⊢
        exact ErrsWith.of_steps hsteps this
      | inexact => simp [lift]
    | err c q => simpa [he, ERes.bind] using ihe
    | inexact => simp [ERes.bind]
  | not =>
    simp only [compileExpr] at hc
    have ihe := ih hc.append_left
    have hi : code[off + (compileExpr e).length]? = some (CInstr.notA, p) := hc.append_right.head
    simp only [ExprSpec, eval, compileExpr, List.length_append, List.length_singleton] at ihe ⊢
    cases he : eval σ.env e with
    | ok v =>
      simp only [he] at ihe
      obtain ⟨b, hsteps⟩ := ihe
      have := after_resA code σ (off + (compileExpr e).length) v b _ p (unaryNot v) hi
        (by intro τ h1 h2 _; simp only [CoreVm.step, h1, hi, h2])
      simp only [ERes.bind]
      cases hn : unaryNot v with
      | ok w =>
        simp only [hn, lift] at this ⊢
        exact ⟨b, hsteps.trans (by simpa [Nat.add_assoc] using this)⟩
      | err er =>
        simp only [hn, lift] at this ⊢
        exact ErrsWith.of_steps hsteps this
      | inexact => simp [lift]
    | err c q => simpa [he, ERes.bind] using ihe
    | inexact => simp [ERes.bind]

/-- the operator tail of a binary expression: `CopyAToB; PopValueStackIntoA; <op>; [Cast t]` -/
theorem bin_tail (code : Code) (op : Op) (t : Ty) (p : Pos) (q : Nat) (τ : Vm) (a bv : Val) (vs : List Val)
    (hc : CodeAt code q ([(CInstr.copyAToB, p), (CInstr.popA, p), (CInstr.bin op, p)] ++
      (if op = .divide then [(CInstr.cast t, p)] else [])))
    (hpc : τ.pc = q) (ha : τ.regs.a = bv) (hv : τ.vals = a :: vs) :
    match lift p (binStep op t a bv) with
    | .ok w => Steps code τ { τ with pc := q + 3 + (if op = .divide then 1 else 0),
                                      regs := { τ.regs with a := w, b := bv }, vals := vs }
    | .err c r => ErrsWith code τ c r τ.env τ.out
    | .inexact => True := by
  have h0 : code[τ.pc]? = some (CInstr.copyAToB, p) := by rw [hpc]; exact hc.append_left.head
  have h1 : code[τ.pc + 1]? = some (CInstr.popA, p) := by rw [hpc]; exact hc.append_left.tail.head
  have h2 : code[τ.pc + 1 + 1]? = some (CInstr.bin op, p) := by rw [hpc]; exact hc.append_left.tail.tail.head
  let τ1 : Vm := advance { τ with regs := { τ.regs with b := τ.regs.a } }
  let τ2 : Vm := advance { setA τ1 a with vals := vs }
  have s1 : CoreVm.step code τ = .next τ1 := by simp only [CoreVm.step, h0]; rfl
  have s2 : CoreVm.step code τ1 = .next τ2 := by
    simp only [CoreVm.step, τ1, advance, h1, hv]; rfl
  have s3 : CoreVm.step code τ2 = resA τ2 p (binInstr op a bv) := by
    simp only [CoreVm.step, τ2, τ1, advance, setA, h2, ha]
  have st : Steps code τ τ2 := Steps.cons s1 (Steps.one s2)
  rw [binStep_eq]
  by_cases hd : op = .divide
  · simp only [hd, if_true] at hc ⊢
    have h3 : code[τ.pc + 1 + 1 + 1]? = some (CInstr.cast t, p) := by
      rw [hpc]; exact hc.append_right.head
    subst hd
    cases hb : binInstr .divide a bv with
    | ok qv =>
      let τ3 : Vm := advance (setA τ2 qv)
      have s3' : CoreVm.step code τ2 = .next τ3 := by rw [s3, hb]; rfl
      have s4 : CoreVm.step code τ3 = resA τ3 p (cast qv t) := by
        simp only [CoreVm.step, τ3, τ2, τ1, advance, setA, h3]
      simp only [Res.bind]
      cases hcst : cast qv t with
      | ok w =>
        simp only [lift]
        refine st.trans (Steps.cons s3' (Steps.one ?_))
        rw [s4, hcst]
        simp only [resA, τ3, τ2, τ1, advance, setA, ha, hpc]
      | err e =>
        simp only [lift]
        refine ⟨τ3, τ3, st.trans (Steps.one s3'), ?_, rfl, rfl⟩
        rw [s4, hcst]; rfl
      | inexact => simp [lift]
    | err e =>
      simp only [Res.bind, lift]
      refine ⟨τ2, τ2, st, ?_, rfl, rfl⟩
      rw [s3, hb]; rfl
    | inexact => simp [Res.bind, lift]
  · simp only [hd, if_false]
    cases hb : binInstr op a bv with
    | ok w =>
      simp only [lift]
      refine st.trans (Steps.one ?_)
      rw [s3, hb]
      simp only [resA, τ2, τ1, advance, setA, ha, hpc, Nat.add_zero]
    | err e =>
      simp only [lift]
      refine ⟨τ2, τ2, st, ?_, rfl, rfl⟩
      rw [s3, hb]; rfl
    | inexact => simp [lift]

/-- **`compileExpr_correct`**: running the code of `e` from any state whose program counter is at its
first instruction puts `eval e` into A and leaves the value stack, the var-path stack, the register
stack, registers C and D, the variables and the output as they were; if `eval e` is an error the run
stops with that error code at that position, with variables and output untouched. -/
theorem compileExpr_correct (code : Code) (e : Ast.Expr) :
    ∀ (off : Nat) (σ : Vm), CodeAt code off (compileExpr e) → σ.pc = off → SlotsBelow σ.env.length e →
      ExprSpec code e off σ := by
  induction e with
  | lit v p => intro off σ hc hpc _; exact expr_lit code v p off σ hc hpc
  | var x t p => intro off σ hc hpc hs; exact expr_var code x t p off σ hc hpc hs
  | un op e p ih =>
    intro off σ hc hpc hs
    exact expr_un code op e p off σ (fun h => ih off σ h hpc hs) hc
  | paren e p ih =>
    intro off σ hc hpc hs
    have := ih off σ (by simpa [compileExpr] using hc) hpc hs
    simpa [ExprSpec, eval, compileExpr] using this
  | bin op l r t p ihl ihr =>
    intro off σ hc hpc hs
    simp only [compileExpr] at hc
    obtain ⟨hsl, hsr⟩ := hs
    -- pieces of the code
    have hcl : CodeAt code off (compileExpr l) := hc.append_left.append_left.append_left.append_left
    have hpush : code[off + (compileExpr l).length]? = some (CInstr.pushA, p) :=
      hc.append_left.append_left.append_left.append_right.head
    have hcr : CodeAt code (off + (compileExpr l).length + 1) (compileExpr r) := by
      have := hc.append_left.append_left.append_right
      simpa [Nat.add_assoc] using this
    have hct : CodeAt code (off + (compileExpr l).length + 1 + (compileExpr r).length)
        ([(CInstr.copyAToB, p), (CInstr.popA, p), (CInstr.bin op, p)] ++
          (if op = .divide then [(CInstr.cast t, p)] else [])) := by
      have h1 := hc.append_left.append_right
      have h2 := hc.append_right
      intro i hi
      by_cases h3 : i < 3
      · have := h1 i (by simpa using h3)
        simp only [List.length_append, List.length_singleton] at this
        rw [List.getElem?_append_left (by simpa using h3)]
        rw [← this]; congr 1; omega
      · have := h2 (i - 3) (by simp at hi ⊢; omega)
        simp only [List.length_append, List.length_cons, List.length_nil] at this
        rw [List.getElem?_append_right (by simp; omega)]
        simp only [List.length_cons, List.length_nil]
        rw [← this]; congr 1; omega
    have ihl' := ihl off σ hcl hpc hsl
    simp only [ExprSpec, eval, compileExpr, List.length_append, List.length_cons, List.length_nil] at ihl' ⊢
    cases hl : eval σ.env l with
    | err c q => simpa [hl, ERes.bind] using ihl'
    | inexact => simp [ERes.bind]
    | ok a =>
      simp only [hl] at ihl'
      obtain ⟨b1, st1⟩ := ihl'
      -- push the left value
      let σ2 : Vm := { afterExpr σ (off + (compileExpr l).length) a b1 with
        pc := off + (compileExpr l).length + 1, vals := a :: σ.vals }
      have spush : CoreVm.step code (afterExpr σ (off + (compileExpr l).length) a b1) = .next σ2 := by
        simp only [CoreVm.step, afterExpr, hpush]; rfl
      have ihr' := ihr (off + (compileExpr l).length + 1) σ2 hcr rfl hsr
      simp only [ExprSpec] at ihr'
      have henv : σ2.env = σ.env := rfl
      rw [henv] at ihr'
      cases hr : eval σ.env r with
      | err c q =>
        simp only [hr] at ihr'
        simp only [ERes.bind]
        exact ErrsWith.of_steps (st1.trans (Steps.one spush)) ihr'
      | inexact => simp only [ERes.bind]
      | ok bv =>
        simp only [hr] at ihr'
        simp only [ERes.bind]
        obtain ⟨b2, st2⟩ := ihr'
        let σ3 : Vm := afterExpr σ2 (off + (compileExpr l).length + 1 + (compileExpr r).length) bv b2
        have tail := bin_tail code op t p _ σ3 a bv σ.vals hct rfl rfl rfl
        have pre : Steps code σ σ3 := (st1.trans (Steps.one spush)).trans st2
        cases hb : lift p (binStep op t a bv) with
        | ok w =>
          simp only [hb] at tail
          refine ⟨bv, pre.trans ?_⟩
          have hlen : (if op = Op.divide then [(CInstr.cast t, p)] else []).length =
              (if op = Op.divide then 1 else 0) := by split <;> rfl
          have hpcEq : off + (compileExpr l).length + 1 + (compileExpr r).length + 3 +
                (if op = Op.divide then 1 else 0) =
              off + ((compileExpr l).length + (0 + 1) + (compileExpr r).length + (0 + 1 + 1 + 1) +
                (if op = Op.divide then [(CInstr.cast t, p)] else []).length) := by
            rw [hlen]; omega
          rw [← hpcEq]
          exact tail
        | err c q =>
          simp only [hb] at tail
          exact ErrsWith.of_steps pre tail
        | inexact => trivial

/-! ### statements -/

/-- the VM state represents the state of the reference semantics -/
structure Rel (s : St) (σ : Vm) : Prop where
  env : σ.env = s.env
  out : σ.out = s.out
  skip : σ.skipNewline = false
  /-- the DATA items collected so far and the READ cursor -/
  data : σ.data = s.data
  dataIdx : σ.dataIdx = s.dataIdx
  /-- nothing is waiting in the by-reference return queue between statements -/
  queue : σ.queue = []

/-- a VM state that differs from a related one only in the program counter, the registers, the stacks and the
argument list is related to a state with the same data cursor -/
theorem Rel.of_eq {s s' : St} {σ τ : Vm} (h : Rel s σ) (he : τ.env = s'.env) (ho : τ.out = s'.out)
    (hk : τ.skipNewline = false) (hd : τ.data = σ.data) (hi : τ.dataIdx = σ.dataIdx) (hq : τ.queue = σ.queue)
    (hsd : s'.data = s.data) (hsi : s'.dataIdx = s.dataIdx) : Rel s' τ :=
  ⟨he, ho, hk, by rw [hd, h.data, hsd], by rw [hi, h.dataIdx, hsi], by rw [hq, h.queue]⟩

/-- the value stack, the var-path stack and the register stack are as they were -/
def SameStacks (σ τ : Vm) : Prop :=
  τ.regStack = σ.regStack ∧ τ.vals = σ.vals ∧ τ.paths = σ.paths

theorem SameStacks.refl (σ : Vm) : SameStacks σ σ := ⟨rfl, rfl, rfl⟩

/-- the collected DATA items, the READ cursor and the by-reference return queue are as they were -/
def SameData (σ τ : Vm) : Prop :=
  τ.data = σ.data ∧ τ.dataIdx = σ.dataIdx ∧ τ.queue = σ.queue

theorem SameData.refl (σ : Vm) : SameData σ σ := ⟨rfl, rfl, rfl⟩

theorem SameData.trans {a b c : Vm} (h₁ : SameData a b) (h₂ : SameData b c) : SameData a c :=
  ⟨h₂.1.trans h₁.1, h₂.2.1.trans h₁.2.1, h₂.2.2.trans h₁.2.2⟩

theorem SameStacks.trans {a b c : Vm} (h₁ : SameStacks a b) (h₂ : SameStacks b c) : SameStacks a c :=
  ⟨h₂.1.trans h₁.1, h₂.2.1.trans h₁.2.1, h₂.2.2.trans h₁.2.2⟩

/-- what the code of a statement does, given what the reference semantics says the statement does -/
def StmtSpec (code : Code) (n : Nat) (off : Nat) (σ : Vm) (s : St) : St × Outcome → Prop
  | (s', .normal) => ∃ τ, Steps code σ τ ∧ τ.pc = off + n ∧ Rel s' τ ∧ SameStacks σ τ ∧
      s'.env.length = s.env.length
  | (s', .halted) => ∃ τ υ, Steps code σ τ ∧ CoreVm.step code τ = .halt υ ∧ Rel s' υ
  | (s', .error c p) => ∃ env, ErrsWith code σ c p env s'.out
  | (_, .inexact) => True
  | (_, .outOfFuel) => True

theorem zeroOf_eq (t : Ty) : Src.zeroOf t = Ref.zeroOf t := by cases t <;> rfl

/-- evaluating an expression and converting it to the type of the receiving location:
`generate_expression_instructions_casting` -/
theorem exprTo_correct (code : Code) (e : Ast.Expr) (t : Ty) (off : Nat) (σ : Vm)
    (hc : CodeAt code off (compileExprTo e t)) (hpc : σ.pc = off) (hs : SlotsBelow σ.env.length e) :
    match evalTo σ.env e t with
    | .ok v => ∃ b, Steps code σ (afterExpr σ (off + (compileExprTo e t).length) v b)
    | .err c p => ErrsWith code σ c p σ.env σ.out
    | .inexact => True := by
  have he := compileExpr_correct code e off σ hc.append_left hpc hs
  simp only [ExprSpec] at he
  simp only [evalTo, compileExprTo, List.length_append]
  cases hev : eval σ.env e with
  | err c q => simpa [hev, ERes.bind] using he
  | inexact => simp [ERes.bind]
  | ok v =>
    simp only [hev] at he
    obtain ⟨b, st⟩ := he
    simp only [ERes.bind, storeCast]
    by_cases hty : e.ty = t
    · simp only [hty, if_true, lift, List.length_nil, Nat.add_zero]
      exact ⟨b, st⟩
    · simp only [hty, if_false, List.length_singleton]
      have hi : code[off + (compileExpr e).length]? = some (CInstr.cast t, e.pos) := by
        have := hc.append_right
        simp only [compileExprTo, hty, if_false] at this
        exact this.head
      have := after_resA code σ (off + (compileExpr e).length) v b _ e.pos (cast v t) hi
        (by intro τ h1 h2 _; simp only [CoreVm.step, h1, hi, h2])
      cases hcst : cast v t with
      | ok w =>
        simp only [hcst, lift] at this ⊢
        exact ⟨b, st.trans (by simpa [Nat.add_assoc] using this)⟩
      | err er =>
        simp only [hcst, lift] at this ⊢
        exact ErrsWith.of_steps st this
      | inexact => simp [lift]

/-- `VarPathName x; CopyAToVarPath`: store A into variable `x` -/
theorem store_steps (code : Code) (x : Nat) (p : Pos) (off : Nat) (τ : Vm)
    (hc : CodeAt code off (storeVar x p)) (hpc : τ.pc = off) :
    Steps code τ { τ with pc := off + 2, env := τ.env.set x τ.regs.a } := by
  subst hpc
  have h0 : code[τ.pc]? = some (CInstr.varPath x, p) := hc.head
  have h1 : code[τ.pc + 1]? = some (CInstr.copyAToVarPath, p) := hc.tail.head
  refine Steps.cons (τ := advance { τ with paths := x :: τ.paths }) ?_ (Steps.one ?_)
  · simp only [CoreVm.step, h0]
  · simp only [CoreVm.step, advance, h1]

/-- in environment `env` the condition evaluates to a number whenever it evaluates -/
def NumericAt (env : List Val) (c : Ast.Expr) : Prop :=
  ∀ v, eval env c = .ok v → (truthy v).isSome

/-- `<cond>; JumpIfFalse target` -/
theorem cond_correct (code : Code) (c : Ast.Expr) (target : Nat) (p : Pos) (off : Nat) (σ : Vm)
    (hc : CodeAt code off (compileExpr c ++ [(CInstr.jumpIfFalse target, p)])) (hpc : σ.pc = off)
    (hs : SlotsBelow σ.env.length c) (hn : NumericAt σ.env c) :
    match evalCond σ.env c with
    | .ok true => ∃ v b, Steps code σ (afterExpr σ (off + (compileExpr c).length + 1) v b)
    | .ok false => ∃ v b, Steps code σ (afterExpr σ target v b)
    | .error (.error cd q) => ErrsWith code σ cd q σ.env σ.out
    | .error _ => True := by
  have he := compileExpr_correct code c off σ hc.append_left hpc hs
  have hj : code[off + (compileExpr c).length]? = some (CInstr.jumpIfFalse target, p) := hc.append_right.head
  simp only [ExprSpec] at he
  simp only [evalCond]
  cases hev : eval σ.env c with
  | err cd q => simpa [hev] using he
  | inexact => simp
  | ok v =>
    simp only [hev] at he
    obtain ⟨b, st⟩ := he
    have hsome := hn v hev
    cases ht : truthy v with
    | none => simp [ht] at hsome
    | some tv =>
      cases tv with
      | true =>
        simp only [ht]
        refine ⟨v, b, st.trans (Steps.one ?_)⟩
        simp only [CoreVm.step, afterExpr, hj, ht]
        rfl
      | false =>
        simp only [ht]
        refine ⟨v, b, st.trans (Steps.one ?_)⟩
        simp only [CoreVm.step, afterExpr, hj, ht]

/-! #### PRINT -/

def isSep : PrintItem → Bool
  | .expr _ => false
  | _ => true

/-- `should_skip_new_line` after the items of a PRINT statement, starting from `b` -/
def flagAfter (b : Bool) : List PrintItem → Bool
  | [] => b
  | it :: rest => flagAfter (isSep it) rest

theorem flagAfter_eq (items : List PrintItem) (b : Bool) :
    flagAfter b items = if items = [] then b else endsInSeparator items := by
  induction items generalizing b with
  | nil => rfl
  | cons it rest ih =>
    simp only [flagAfter, ih, reduceCtorEq, if_false]
    cases rest with
    | nil => cases it <;> rfl
    | cons y r => cases it <;> simp [endsInSeparator]

def ItemsSlots (n : Nat) : List PrintItem → Prop
  | [] => True
  | .expr e :: rest => SlotsBelow n e ∧ ItemsSlots n rest
  | _ :: rest => ItemsSlots n rest

/-- the items of a PRINT statement: the device receives what `printItems` prescribes, in order -/
theorem items_correct (code : Code) (p : Pos) :
    ∀ (items : List PrintItem) (off : Nat) (σ : Vm) (s : St),
      CodeAt code off (compileItems p items) → σ.pc = off → σ.env = s.env → σ.out = s.out →
      ItemsSlots s.env.length items →
      match printItems s items with
      | (s', .normal) => ∃ τ, Steps code σ τ ∧ τ.pc = off + sizeItems items ∧ τ.env = s'.env ∧ τ.out = s'.out ∧
          s'.env = s.env ∧ τ.skipNewline = flagAfter σ.skipNewline items ∧ SameStacks σ τ ∧ SameData σ τ ∧
          s'.data = s.data ∧ s'.dataIdx = s.dataIdx
      | (s', .error c q) => ErrsWith code σ c q s'.env s'.out
      | _ => True := by
  intro items
  induction items with
  | nil =>
    intro off σ s _ hpc he ho _
    simp only [printItems]
    exact ⟨σ, Steps.refl σ, by simp [sizeItems, hpc], he, ho, trivial, rfl, SameStacks.refl σ, SameData.refl σ, trivial, trivial⟩
  | cons it rest ih =>
    intro off σ s hc hpc he ho hsl
    cases it with
    | comma =>
      simp only [compileItems, compileItem] at hc
      have h0 : code[σ.pc]? = some (CInstr.printComma, p) := by rw [hpc]; exact hc.append_left.head
      let σ1 : Vm := advance { σ with out := σ.out.moveToNextPrintZone, skipNewline := true }
      have s1 : CoreVm.step code σ = .next σ1 := by simp only [CoreVm.step, h0]; rfl
      have ih' := ih (off + 1) σ1 { s with out := s.out.moveToNextPrintZone } hc.append_right
        (by simp [σ1, advance, hpc]) he (by simp [σ1, advance, ho]) hsl
      simp only [printItems, sizeItems, flagAfter, isSep]
      generalize hr : printItems { s with out := s.out.moveToNextPrintZone } rest = r at ih' ⊢
      obtain ⟨s', o⟩ := r
      cases o with
      | normal =>
        obtain ⟨τ, st, hp, e1, e2, e3, e4, e5, e6, e7, e8⟩ := ih'
        exact ⟨τ, Steps.cons s1 st, by omega, e1, e2, e3, e4, SameStacks.trans ⟨rfl, rfl, rfl⟩ e5,
          SameData.trans ⟨rfl, rfl, rfl⟩ e6, e7, e8⟩
      | error c q => exact ErrsWith.of_steps (Steps.one s1) ih'
      | halted => trivial
      | inexact => trivial
      | outOfFuel => trivial
    | semicolon =>
      simp only [compileItems, compileItem] at hc
      have h0 : code[σ.pc]? = some (CInstr.printSemicolon, p) := by rw [hpc]; exact hc.append_left.head
      let σ1 : Vm := advance { σ with skipNewline := true }
      have s1 : CoreVm.step code σ = .next σ1 := by simp only [CoreVm.step, h0]; rfl
      have ih' := ih (off + 1) σ1 s hc.append_right (by simp [σ1, advance, hpc]) he ho hsl
      simp only [printItems, sizeItems, flagAfter, isSep]
      generalize hr : printItems s rest = r at ih' ⊢
      obtain ⟨s', o⟩ := r
      cases o with
      | normal =>
        obtain ⟨τ, st, hp, e1, e2, e3, e4, e5, e6, e7, e8⟩ := ih'
        exact ⟨τ, Steps.cons s1 st, by omega, e1, e2, e3, e4, SameStacks.trans ⟨rfl, rfl, rfl⟩ e5,
          SameData.trans ⟨rfl, rfl, rfl⟩ e6, e7, e8⟩
      | error c q => exact ErrsWith.of_steps (Steps.one s1) ih'
      | halted => trivial
      | inexact => trivial
      | outOfFuel => trivial
    | expr e =>
      simp only [compileItems, compileItem] at hc
      obtain ⟨hse, hsr⟩ := hsl
      have hce := compileExpr_correct code e off σ hc.append_left.append_left hpc (by rw [he]; exact hse)
      have hpv : code[off + (compileExpr e).length]? = some (CInstr.printValue, e.pos) :=
        hc.append_left.append_right.head
      simp only [ExprSpec, he] at hce
      simp only [printItems, sizeItems, flagAfter, isSep]
      cases hev : eval s.env e with
      | err c q => simp only [hev] at hce ⊢; rw [← ho]; exact hce
      | inexact => trivial
      | ok v =>
        simp only [hev] at hce ⊢
        obtain ⟨b, st⟩ := hce
        cases hpr : printValue v with
        | none => trivial
        | some pv =>
          simp only
          let σ1 : Vm := afterExpr σ (off + (compileExpr e).length) v b
          let σ2 : Vm := advance { σ1 with out := σ1.out.print (Print.valueText pv), skipNewline := false }
          have s2 : CoreVm.step code σ1 = .next σ2 := by
            simp only [CoreVm.step, σ1, afterExpr, hpv, hpr]; rfl
          have hc' : CodeAt code (off + (compileExpr e).length + 1) (compileItems p rest) := by
            have := hc.append_right
            simpa [Nat.add_assoc] using this
          have ih' := ih (off + (compileExpr e).length + 1) σ2
            { s with out := s.out.print (Print.valueText pv) } hc'
            (by simp [σ2, σ1, advance, afterExpr]) (by simp [σ2, σ1, advance, afterExpr, he])
            (by simp [σ2, σ1, advance, afterExpr, ho]) hsr
          generalize hr : printItems { s with out := s.out.print (Print.valueText pv) } rest = r at ih' ⊢
          obtain ⟨s', o⟩ := r
          cases o with
          | normal =>
            obtain ⟨τ, st', hp, e1, e2, e3, e4, e5, e6, e7, e8⟩ := ih'
            refine ⟨τ, st.trans (Steps.cons s2 st'), by omega, e1, e2, e3, e4, ?_, ?_, e7, e8⟩
            · exact SameStacks.trans ⟨rfl, rfl, rfl⟩ e5
            · exact SameData.trans ⟨rfl, rfl, rfl⟩ e6
          | error c q => exact ErrsWith.of_steps (st.trans (Steps.one s2)) ih'
          | halted => trivial
          | inexact => trivial
          | outOfFuel => trivial

/-! #### the statement theorem -/

/-- every variable holds a value of its declared type -/
def Typed (sl : List Ty) (env : List Val) : Prop :=
  env.length = sl.length ∧ ∀ (x : Nat) (t : Ty), sl[x]? = some t → ∃ v : Val, env[x]? = some v ∧ v.tag = t

theorem Typed.len {sl : List Ty} {env : List Val} (h : Typed sl env) : env.length = sl.length := h.1

theorem Typed.lt {sl : List Ty} {env : List Val} (h : Typed sl env) {x : Nat} {t : Ty} (hx : sl[x]? = some t) :
    x < env.length := by
  rw [h.len]
  obtain ⟨hlt, _⟩ := List.getElem?_eq_some_iff.mp hx
  exact hlt

/-- the condition evaluates to a number whenever it evaluates, in every environment whose variables hold values of
their declared types (what the checker guarantees: conditions are not strings; `numericCond_of_ty` gives it from the
static type, `numericCond_of_rel` for comparisons in any environment) -/
def NumericCond (sl : List Ty) (c : Ast.Expr) : Prop :=
  ∀ env, Typed sl env → NumericAt env c

/-- static typing of an expression as the checker establishes it: a variable is used at the type of its slot and an
operator node carries the result type the checker's table (`cast_binary_op`, extracted into `Gen.NumTables.binType`)
gives for the types of its operands (`/` is followed by a `Cast` to the node's type, so nothing is asked of it) -/
def ExprWt (sl : List Ty) : Ast.Expr → Prop
  | .lit _ _ => True
  | .var x t _ => sl[x]? = some t
  | .un _ e _ => ExprWt sl e
  | .bin op l r t _ => ExprWt sl l ∧ ExprWt sl r ∧ (op = .divide ∨ Gen.NumTables.binType op l.ty r.ty = some t)
  | .paren e _ => ExprWt sl e

/-- slots of one CASE item; after `IS` only the six relational operators occur (the parser accepts nothing else) -/
def CaseSlots (n : Nat) : CaseExpr → Prop
  | .simple e => SlotsBelow n e
  | .is op e =>
    (op = .less ∨ op = .lessOrEqual ∨ op = .equal ∨ op = .greaterOrEqual ∨ op = .greater ∨ op = .notEqual) ∧
      SlotsBelow n e
  | .range lo hi => SlotsBelow n lo ∧ SlotsBelow n hi

def CondsSlots (n : Nat) : List CaseExpr → Prop
  | [] => True
  | c :: rest => CaseSlots n c ∧ CondsSlots n rest

mutual
/-- well-formed statements: every variable is a declared slot of `sl` and is used at its declared type (the checker resolves
every name to a typed slot), conditions of IF / WHILE / DO are numeric (the checker rejects strings there), a missing ELSE part is empty,
and DATA statements do not occur inside the statement (they are hoisted: see the program theorem) -/
def Wf (sl : List Ty) : SStmt → Prop
  | .skip => True
  | .comment => True
  | .seq a b => Wf sl a ∧ Wf sl b
  | .dim x t _ => sl[x]? = some t
  | .assign x t e _ => sl[x]? = some t ∧ SlotsBelow sl.length e ∧ ExprWt sl e
  | .print items _ => ItemsSlots sl.length items
  | .ifBlock c thn elifs hasElse els _ =>
    SlotsBelow sl.length c ∧ NumericCond sl c ∧ Wf sl thn ∧ WfElifs sl elifs ∧ Wf sl els ∧ (hasElse = false → els = .skip)
  | .while c body _ => SlotsBelow sl.length c ∧ NumericCond sl c ∧ Wf sl body
  | .doLoop c _ _ body _ => SlotsBelow sl.length c ∧ NumericCond sl c ∧ Wf sl body
  | .end_ _ => True
  | .data _ _ => False
  | .read vars _ => ∀ v ∈ vars, sl[v.1]? = some v.2.1
  | .select e cases hasElse els _ =>
    SlotsBelow sl.length e ∧ WfCases sl cases ∧ Wf sl els ∧ (hasElse = false → els = .skip)
  | .forLoop x t lo hi step body _ =>
    sl[x]? = some t ∧ SlotsBelow sl.length lo ∧ ExprWt sl lo ∧ SlotsBelow sl.length hi ∧ (∀ se, step = some se → SlotsBelow sl.length se) ∧ Wf sl body
def WfElifs (sl : List Ty) : ElseIfs → Prop
  | .nil => True
  | .cons c body rest => SlotsBelow sl.length c ∧ NumericCond sl c ∧ Wf sl body ∧ WfElifs sl rest
def WfCases (sl : List Ty) : SCases → Prop
  | .nil => True
  | .cons conds body rest => conds ≠ [] ∧ CondsSlots sl.length conds ∧ Wf sl body ∧ WfCases sl rest
end

/-- the induction hypothesis of the statement theorem at a given amount of fuel -/
def StmtIH (code : Code) (fuel : Nat) : Prop :=
  ∀ (stmt : SStmt) (sfx : String) (off : Nat) (σ : Vm) (s : St),
    ∀ (sl : List Ty), CodeAt code off (compileStmt sfx off stmt) → σ.pc = off → Rel s σ → Wf sl stmt →
    Typed sl s.env →
    StmtSpec code (sizeStmt stmt) off σ s (exec fuel (desugar stmt) s)

/-- the induction hypothesis at every smaller or equal amount of fuel (the statement theorem is proved by strong
induction, because an ELSEIF chain or a CASE list consumes fuel per arm) -/
def StmtIHle (code : Code) (fuel : Nat) : Prop := ∀ f, f ≤ fuel → StmtIH code f

/-- type preservation of the reference semantics (proved in `Thm.C01SimRead`): a well-formed statement that ends
normally leaves every variable with a value of its declared type -/
def ExecTyped : Prop :=
  ∀ (sl : List Ty) (fuel : Nat) (stmt : SStmt) (s s' : St),
    Wf sl stmt → Typed sl s.env → exec fuel (desugar stmt) s = (s', .normal) → Typed sl s'.env

theorem rel_of (s : St) (σ : Vm) (he : σ.env = s.env) (ho : σ.out = s.out) (hk : σ.skipNewline = false)
    (hd : σ.data = s.data) (hi : σ.dataIdx = s.dataIdx) (hq : σ.queue = []) :
    Rel s σ := ⟨he, ho, hk, hd, hi, hq⟩

theorem case_assign (code : Code) (x : Nat) (t : Ty) (e : Ast.Expr) (p : Pos) (sfx : String) (off : Nat)
    (σ : Vm) (s : St) (fuel : Nat)
    (hc : CodeAt code off (compileStmt sfx off (.assign x t e p))) (hpc : σ.pc = off) (hr : Rel s σ)
    (sl : List Ty) (hw : Wf sl (.assign x t e p)) (hty : Typed sl s.env) :
    StmtSpec code (sizeStmt (.assign x t e p)) off σ s (exec (fuel + 1) (desugar (.assign x t e p)) s) := by
  simp only [compileStmt] at hc
  obtain ⟨hx, hse, _⟩ := hw
  have he := exprTo_correct code e t off σ hc.append_left hpc (by have := hty.len; rw [hr.env, this]; exact hse)
  simp only [desugar, exec, sizeStmt]
  rw [hr.env] at he
  cases hev : evalTo s.env e t with
  | err c q =>
    simp only [hev] at he
    simp only [StmtSpec]
    rw [← hr.out]; exact ⟨_, he⟩
  | inexact => simp [StmtSpec]
  | ok v =>
    simp only [hev] at he
    obtain ⟨b, st⟩ := he
    simp only [StmtSpec]
    have hst := store_steps code x p (off + (compileExprTo e t).length)
      (afterExpr σ (off + (compileExprTo e t).length) v b) hc.append_right rfl
    refine ⟨_, st.trans hst, by simp; omega, ?_, ⟨rfl, rfl, rfl⟩, ?_⟩
    · exact rel_of _ _ (by simp [afterExpr, St.set, hr.env]) (by simp [afterExpr, St.set, hr.out])
        (by simp [afterExpr, hr.skip]) (by simp [afterExpr, St.set, hr.data]) (by simp [afterExpr, St.set, hr.dataIdx])
        (by simp [afterExpr, hr.queue])
    · simp [St.set]

theorem case_dim (code : Code) (x : Nat) (t : Ty) (p : Pos) (sfx : String) (off : Nat)
    (σ : Vm) (s : St) (fuel : Nat)
    (hc : CodeAt code off (compileStmt sfx off (.dim x t p))) (hpc : σ.pc = off) (hr : Rel s σ) :
    StmtSpec code (sizeStmt (.dim x t p)) off σ s (exec (fuel + 1) (desugar (.dim x t p)) s) := by
  simp only [compileStmt] at hc
  subst hpc
  have h0 : code[σ.pc]? = some (CInstr.allocate t, p) := hc.head
  have h1 : code[σ.pc + 1]? = some (CInstr.varPath x, p) := hc.tail.head
  have h2 : code[σ.pc + 1 + 1]? = some (CInstr.copyAToVarPath, p) := hc.tail.tail.head
  have hev : evalTo s.env (Ast.Expr.lit (Src.zeroOf t) p) t = .ok (Ref.zeroOf t) := by
    simp only [evalTo, eval, ERes.bind, storeCast, Ast.Expr.ty, zeroOf_eq]
    cases t <;> rfl
  simp only [desugar, exec, hev, StmtSpec, sizeStmt]
  let σ1 : Vm := advance (setA σ (Ref.zeroOf t))
  let σ2 : Vm := advance { σ1 with paths := x :: σ1.paths }
  let σ3 : Vm := advance { σ2 with env := σ2.env.set x σ2.regs.a, paths := σ.paths }
  have s1 : CoreVm.step code σ = .next σ1 := by simp only [CoreVm.step, h0]; rfl
  have s2 : CoreVm.step code σ1 = .next σ2 := by simp only [CoreVm.step, σ1, advance, setA, h1]; rfl
  have s3 : CoreVm.step code σ2 = .next σ3 := by simp only [CoreVm.step, σ2, σ1, advance, setA, h2]; rfl
  refine ⟨σ3, Steps.cons s1 (Steps.cons s2 (Steps.one s3)), rfl, ?_, ⟨rfl, rfl, rfl⟩, by simp [St.set]⟩
  exact rel_of _ _ (by simp [σ3, σ2, σ1, advance, setA, St.set, hr.env]) (by simp [σ3, σ2, σ1, advance, setA, St.set, hr.out])
    (by simp [σ3, σ2, σ1, advance, setA, hr.skip]) (by simp [σ3, σ2, σ1, advance, setA, St.set, hr.data])
    (by simp [σ3, σ2, σ1, advance, setA, St.set, hr.dataIdx]) (by simp [σ3, σ2, σ1, advance, setA, hr.queue])

theorem case_end (code : Code) (p : Pos) (sfx : String) (off : Nat) (σ : Vm) (s : St) (fuel : Nat)
    (hc : CodeAt code off (compileStmt sfx off (.end_ p))) (hpc : σ.pc = off) (hr : Rel s σ) :
    StmtSpec code (sizeStmt (.end_ p)) off σ s (exec (fuel + 1) (desugar (.end_ p)) s) := by
  simp only [compileStmt] at hc
  subst hpc
  have h0 : code[σ.pc]? = some (CInstr.halt, p) := hc.head
  simp only [desugar, exec, StmtSpec]
  exact ⟨σ, σ, Steps.refl σ, by simp only [CoreVm.step, h0], hr⟩

theorem printItems_outcome (items : List PrintItem) : ∀ (s : St),
    (printItems s items).2 = .normal ∨ (∃ c q, (printItems s items).2 = .error c q) ∨
      (printItems s items).2 = .inexact := by
  induction items with
  | nil => intro s; left; rfl
  | cons it rest ih =>
    intro s
    cases it with
    | comma => simp only [printItems]; exact ih _
    | semicolon => simp only [printItems]; exact ih _
    | expr e =>
      simp only [printItems]
      cases eval s.env e with
      | err c q => right; left; exact ⟨c, q, rfl⟩
      | inexact => right; right; rfl
      | ok v =>
        simp only
        cases printValue v with
        | none => right; right; rfl
        | some pv => simp only; exact ih _

theorem case_print (code : Code) (items : List PrintItem) (p : Pos) (sfx : String) (off : Nat)
    (σ : Vm) (s : St) (fuel : Nat)
    (hc : CodeAt code off (compileStmt sfx off (.print items p))) (hpc : σ.pc = off) (hr : Rel s σ)
    (sl : List Ty) (hw : Wf sl (.print items p)) (hty : Typed sl s.env) :
    StmtSpec code (sizeStmt (.print items p)) off σ s (exec (fuel + 1) (desugar (.print items p)) s) := by
  simp only [compileStmt] at hc
  subst hpc
  have h0 : code[σ.pc]? = some (CInstr.printSetPrinter, p) := hc.append_left.append_left.head
  have h1 : code[σ.pc + 1]? = some (CInstr.loadA (.int 0), p) := hc.append_left.append_left.tail.head
  have h2 : code[σ.pc + 1 + 1]? = some (CInstr.printSetFormat, p) := hc.append_left.append_left.tail.tail.head
  let σ1 : Vm := advance { σ with skipNewline := false }
  let σ2 : Vm := advance (setA σ1 (.int 0))
  let σ3 : Vm := advance σ2
  have s1 : CoreVm.step code σ = .next σ1 := by simp only [CoreVm.step, h0]; rfl
  have s2 : CoreVm.step code σ1 = .next σ2 := by simp only [CoreVm.step, σ1, advance, h1]; rfl
  have s3 : CoreVm.step code σ2 = .next σ3 := by simp only [CoreVm.step, σ2, σ1, advance, setA, h2]; rfl
  have pre : Steps code σ σ3 := Steps.cons s1 (Steps.cons s2 (Steps.one s3))
  have hci : CodeAt code (σ.pc + 3) (compileItems p items) := by
    have := hc.append_left.append_right
    simpa using this
  have hit := items_correct code p items (σ.pc + 3) σ3 s hci rfl
    (by simp [σ3, σ2, σ1, advance, setA, hr.env]) (by simp [σ3, σ2, σ1, advance, setA, hr.out])
    (by have := hty.len; rw [this]; exact hw)
  have hend : code[σ.pc + 3 + sizeItems items]? = some (CInstr.printEnd, p) := by
    have := hc.append_right.head
    simp only [List.length_append, List.length_cons, List.length_nil, len_items] at this
    rw [show σ.pc + 3 + sizeItems items = σ.pc + (0 + 1 + 1 + 1 + sizeItems items) by omega]
    exact this
  have hout := printItems_outcome items s
  simp only [desugar, exec, sizeStmt]
  generalize hr' : printItems s items = r at hit ⊢
  obtain ⟨s', o⟩ := r
  cases o with
  | normal =>
    obtain ⟨τ, st, hp, e1, e2, e3, e4, e5, e6, e7, e8⟩ := hit
    have hd3 : τ.data = s'.data := by rw [e6.1, e7]; exact hr.data
    have hi3 : τ.dataIdx = s'.dataIdx := by rw [e6.2.1, e8]; exact hr.dataIdx
    have hq3 : τ.queue = [] := by rw [e6.2.2]; exact hr.queue
    have hflag : τ.skipNewline = endsInSeparator items ∨ (items = [] ∧ τ.skipNewline = false) := by
      rw [e4, flagAfter_eq]
      by_cases hi : items = []
      · right; exact ⟨hi, by simp [hi, σ3, σ2, σ1, advance, setA, hr.skip]⟩
      · left; simp [hi]
    have hpe : code[τ.pc]? = some (CInstr.printEnd, p) := by rw [hp]; exact hend
    by_cases hsep : endsInSeparator items = true
    · have hk : τ.skipNewline = true := by
        rcases hflag with h | ⟨h, _⟩
        · rw [h, hsep]
        · subst h; simp [endsInSeparator] at hsep
      simp only [hsep, if_true, StmtSpec]
      refine ⟨advance { τ with skipNewline := false }, (pre.trans st).trans (Steps.one ?_), ?_, ?_, ?_, ?_⟩
      · simp only [CoreVm.step, hpe, hk, if_true]
      · simp [advance, hp]; omega
      · exact rel_of _ _ (by simp [advance, e1]) (by simp [advance, e2]) (by simp [advance])
          (by simp [advance, hd3]) (by simp [advance, hi3]) (by simp [advance, hq3])
      · exact SameStacks.trans (SameStacks.trans ⟨rfl, rfl, rfl⟩ e5) ⟨rfl, rfl, rfl⟩
      · rw [e3]
    · have hk : τ.skipNewline = false := by
        rcases hflag with h | ⟨_, h⟩
        · rw [h]; simpa using hsep
        · exact h
      simp only [hsep, StmtSpec]
      refine ⟨advance { τ with out := τ.out.println }, (pre.trans st).trans (Steps.one ?_), ?_, ?_, ?_, ?_⟩
      · simp only [CoreVm.step, hpe, hk]; rfl
      · simp [advance, hp]; omega
      · exact rel_of _ _ (by simp [advance, e1]) (by simp [advance, e2]) (by simp [advance, hk])
          (by simp [advance, hd3]) (by simp [advance, hi3]) (by simp [advance, hq3])
      · exact SameStacks.trans (SameStacks.trans ⟨rfl, rfl, rfl⟩ e5) ⟨rfl, rfl, rfl⟩
      · simp [e3]
  | error c q =>
    simp only [StmtSpec]
    exact ⟨_, ErrsWith.of_steps pre hit⟩
  | halted => rw [hr'] at hout; simp at hout
  | inexact => simp [StmtSpec]
  | outOfFuel => rw [hr'] at hout; simp at hout

theorem evalCond_error_kind {env : List Val} {c : Ast.Expr} {o : Outcome} (h : evalCond env c = .error o) :
    (∃ cd q, o = .error cd q) ∨ o = .inexact := by
  unfold evalCond at h
  cases he : eval env c with
  | err cd q => simp [he] at h; exact .inl ⟨cd, q, h.symm⟩
  | inexact => simp [he] at h; exact .inr h.symm
  | ok v =>
    simp only [he] at h
    cases ht : truthy v with
    | some b => simp [ht] at h
    | none => simp [ht] at h; exact .inl ⟨13, c.pos, h.symm⟩

theorem case_seq (code : Code) (fuel : Nat) (ih : StmtIH code fuel) (htp : ExecTyped) (a b : SStmt) (sfx : String) (off : Nat)
    (σ : Vm) (s : St)
    (hc : CodeAt code off (compileStmt sfx off (.seq a b))) (hpc : σ.pc = off) (hr : Rel s σ)
    (sl : List Ty) (hw : Wf sl (.seq a b)) (hty : Typed sl s.env) :
    StmtSpec code (sizeStmt (.seq a b)) off σ s (exec (fuel + 1) (desugar (.seq a b)) s) := by
  simp only [compileStmt] at hc
  obtain ⟨hwa, hwb⟩ := hw
  have ha := ih a sfx off σ s sl hc.append_left hpc hr hwa hty
  simp only [desugar, exec, sizeStmt]
  generalize hra : exec fuel (desugar a) s = ra at ha ⊢
  obtain ⟨s1, o1⟩ := ra
  cases o1 with
  | normal =>
    simp only [StmtSpec] at ha
    obtain ⟨τ, st, hp, hrel, hss, hlen⟩ := ha
    have hcb : CodeAt code (off + sizeStmt a) (compileStmt sfx (off + sizeStmt a) b) := by
      have := hc.append_right
      rwa [len_stmt] at this
    have hb := ih b sfx (off + sizeStmt a) τ s1 sl hcb hp hrel hwb (htp sl fuel a s s1 hwa hty hra)
    simp only
    generalize hrb : exec fuel (desugar b) s1 = rb at hb ⊢
    obtain ⟨s2, o2⟩ := rb
    cases o2 with
    | normal =>
      simp only [StmtSpec] at hb ⊢
      obtain ⟨υ, st2, hp2, hrel2, hss2, hlen2⟩ := hb
      exact ⟨υ, st.trans st2, by omega, hrel2, hss.trans hss2, by omega⟩
    | halted =>
      simp only [StmtSpec] at hb ⊢
      obtain ⟨υ, ω, st2, hh, hrel2⟩ := hb
      exact ⟨υ, ω, st.trans st2, hh, hrel2⟩
    | error c q =>
      simp only [StmtSpec] at hb ⊢
      obtain ⟨ev, hb⟩ := hb
      exact ⟨ev, ErrsWith.of_steps st hb⟩
    | inexact => simp [StmtSpec]
    | outOfFuel => simp [StmtSpec]
  | halted => simpa [StmtSpec] using ha
  | error c q => simpa [StmtSpec] using ha
  | inexact => simp [StmtSpec]
  | outOfFuel => simp [StmtSpec]

/-- a loop whose test is at the top: `WHILE c … WEND`, `DO WHILE c … LOOP`, `DO UNTIL c … LOOP` share one
shape up to the optional `NotA`; this is WHILE -/
theorem case_while (code : Code) (fuel : Nat) (ih : StmtIH code fuel) (htp : ExecTyped) (c : Ast.Expr) (body : SStmt) (p : Pos)
    (sfx : String) (off : Nat) (σ : Vm) (s : St)
    (hc : CodeAt code off (compileStmt sfx off (.while c body p))) (hpc : σ.pc = off) (hr : Rel s σ)
    (sl : List Ty) (hw : Wf sl (.while c body p)) (hty : Typed sl s.env) :
    StmtSpec code (sizeStmt (.while c body p)) off σ s (exec (fuel + 1) (desugar (.while c body p)) s) := by
  have hcw := hc
  simp only [compileStmt] at hc
  obtain ⟨hsc, hnc, hwb⟩ := hw
  subst hpc
  have hlab : code[σ.pc]? = some (CInstr.label (labelName "while" p sfx), p) :=
    hc.append_left.append_left.append_left.append_left.head
  let σ1 : Vm := advance σ
  have s1 : CoreVm.step code σ = .next σ1 := by simp only [CoreVm.step, hlab]; rfl
  have hcc : CodeAt code (σ.pc + 1)
      (compileExpr c ++ [(CInstr.jumpIfFalse (σ.pc + 1 + (compileExpr c).length + 1 + sizeStmt body + 1), p)]) := by
    have h1 := hc.append_left.append_left.append_left.append_right
    have h2 := hc.append_left.append_left.append_right
    simp only [List.length_append, List.length_singleton] at h1 h2
    intro i hi
    simp only [List.length_append, List.length_singleton] at hi
    by_cases h3 : i < (compileExpr c).length
    · rw [List.getElem?_append_left h3, ← h1 i h3]
    · have hi' : i = (compileExpr c).length := by omega
      subst hi'
      rw [List.getElem?_append_right (by omega)]
      have := h2 0 (by simp)
      simp only [Nat.sub_self]
      rw [← this]; congr 1; omega
  have hcond := cond_correct code c _ p (σ.pc + 1) σ1 hcc rfl (by have := hty.len; simp only [σ1, advance, hr.env, this]; exact hsc)
    (by have : σ1.env = s.env := by simp [σ1, advance, hr.env]
        rw [this]; exact hnc _ hty)
  have henv1 : σ1.env = s.env := by simp [σ1, advance, hr.env]
  rw [henv1] at hcond
  simp only [desugar, exec, sizeStmt]
  cases hec : evalCond s.env c with
  | error o =>
    simp only [hec] at hcond
    cases o with
    | error cd q =>
      simp only [StmtSpec]
      have := ErrsWith.of_steps (Steps.one s1) hcond
      exact ⟨s.env, by simpa [σ1, advance, hr.env, hr.out] using this⟩
    | normal => rcases evalCond_error_kind hec with ⟨_, _, h⟩ | h <;> cases h
    | halted => rcases evalCond_error_kind hec with ⟨_, _, h⟩ | h <;> cases h
    | inexact => simp [StmtSpec]
    | outOfFuel => rcases evalCond_error_kind hec with ⟨_, _, h⟩ | h <;> cases h
  | ok bv =>
    simp only [hec] at hcond
    cases bv with
    | false =>
      obtain ⟨v, b, st⟩ := hcond
      simp only [StmtSpec]
      -- lands on the `wend` label, one more step
      have hwend : code[σ.pc + 1 + (compileExpr c).length + 1 + sizeStmt body + 1]? =
          some (CInstr.label (labelName "wend" p sfx), p) := by
        have := hc.append_right.tail.head
        simp only [List.length_append, List.length_singleton, len_stmt] at this
        rw [← this]; congr 1; omega
      let τ0 : Vm := afterExpr σ1 (σ.pc + 1 + (compileExpr c).length + 1 + sizeStmt body + 1) v b
      have s2 : CoreVm.step code τ0 = .next (advance τ0) := by
        simp only [CoreVm.step, τ0, afterExpr, hwend]
      refine ⟨advance τ0, (Steps.cons s1 st).trans (Steps.one s2), (by simp [τ0, advance, afterExpr] <;> try omega), ?_,
        ⟨rfl, rfl, rfl⟩, (by simp)⟩
      exact rel_of _ _ (by simp [τ0, σ1, advance, afterExpr, hr.env]) (by simp [τ0, σ1, advance, afterExpr, hr.out])
        (by simp [τ0, σ1, advance, afterExpr, hr.skip]) (by simp [τ0, σ1, advance, afterExpr, hr.data])
        (by simp [τ0, σ1, advance, afterExpr, hr.dataIdx]) (by simp [τ0, σ1, advance, afterExpr, hr.queue])
    | true =>
      obtain ⟨v, b, st⟩ := hcond
      let τ0 : Vm := afterExpr σ1 (σ.pc + 1 + (compileExpr c).length + 1) v b
      have hrel0 : Rel s τ0 :=
        rel_of _ _ (by simp [τ0, σ1, advance, afterExpr, hr.env]) (by simp [τ0, σ1, advance, afterExpr, hr.out])
          (by simp [τ0, σ1, advance, afterExpr, hr.skip]) (by simp [τ0, σ1, advance, afterExpr, hr.data])
          (by simp [τ0, σ1, advance, afterExpr, hr.dataIdx]) (by simp [τ0, σ1, advance, afterExpr, hr.queue])
      have hcb : CodeAt code (σ.pc + 1 + (compileExpr c).length + 1)
          (compileStmt sfx (σ.pc + 1 + (compileExpr c).length + 1) body) := by
        have := hc.append_left.append_right
        simp only [List.length_append, List.length_singleton] at this
        have e : σ.pc + (0 + 1 + (compileExpr c).length + 1) = σ.pc + 1 + (compileExpr c).length + 1 := by omega
        rw [e] at this
        exact this
      have hb := ih body sfx _ τ0 s sl hcb rfl hrel0 hwb hty
      simp only
      generalize hrb : exec fuel (desugar body) s = rb at hb ⊢
      obtain ⟨s1', o1⟩ := rb
      cases o1 with
      | normal =>
        simp only [StmtSpec] at hb
        obtain ⟨υ, st2, hp2, hrel2, hss2, hlen2⟩ := hb
        -- jump back to the loop head
        have hjmp : code[υ.pc]? = some (CInstr.jump σ.pc, p) := by
          rw [hp2]
          have := hc.append_right.head
          simp only [List.length_append, List.length_singleton, len_stmt] at this
          rw [← this]; congr 1; omega
        let υ1 : Vm := { υ with pc := σ.pc }
        have s3 : CoreVm.step code υ = .next υ1 := by simp only [CoreVm.step, hjmp]; rfl
        have hloop := ih (.while c body p) sfx σ.pc υ1 s1' sl hcw rfl
          (rel_of _ _ hrel2.env hrel2.out hrel2.skip hrel2.data hrel2.dataIdx hrel2.queue) ⟨hsc, hnc, hwb⟩
          (htp sl fuel body s s1' hwb hty hrb)
        simp only [desugar, sizeStmt] at hloop
        simp only
        generalize hrl : exec fuel (Stmt.while c (desugar body) p) s1' = rl at hloop ⊢
        obtain ⟨s2', o2⟩ := rl
        have pre : Steps code σ υ1 := ((Steps.cons s1 st).trans st2).trans (Steps.one s3)
        cases o2 with
        | normal =>
          simp only [StmtSpec] at hloop ⊢
          obtain ⟨ω, st4, hp4, hrel4, hss4, hlen4⟩ := hloop
          exact ⟨ω, pre.trans st4, hp4, hrel4, (SameStacks.trans (SameStacks.trans ⟨rfl, rfl, rfl⟩ hss2) ⟨rfl, rfl, rfl⟩).trans hss4,
            by omega⟩
        | halted =>
          simp only [StmtSpec] at hloop ⊢
          obtain ⟨ω, ω', st4, hh, hrel4⟩ := hloop
          exact ⟨ω, ω', pre.trans st4, hh, hrel4⟩
        | error cd q =>
          simp only [StmtSpec] at hloop ⊢
          obtain ⟨ev, hloop⟩ := hloop
          exact ⟨ev, ErrsWith.of_steps pre hloop⟩
        | inexact => simp [StmtSpec]
        | outOfFuel => simp [StmtSpec]
      | halted =>
        simp only [StmtSpec] at hb ⊢
        obtain ⟨υ, ω, st2, hh, hrel2⟩ := hb
        exact ⟨υ, ω, (Steps.cons s1 st).trans st2, hh, hrel2⟩
      | error cd q =>
        simp only [StmtSpec] at hb ⊢
        obtain ⟨ev, hb⟩ := hb
        exact ⟨ev, ErrsWith.of_steps (Steps.cons s1 st) hb⟩
      | inexact => simp [StmtSpec]
      | outOfFuel => simp [StmtSpec]

/-- comparisons, AND, OR and NOT of integers produce numbers: the usual conditions are `NumericCond` -/
theorem numericCond_of_rel (op : Op) (l r : Ast.Expr) (t : Ty) (p : Pos)
    (hop : op = .less ∨ op = .lessOrEqual ∨ op = .equal ∨ op = .greaterOrEqual ∨ op = .greater ∨ op = .notEqual) :
    ∀ env, NumericAt env (.bin op l r t p) := by
  intro env v hv
  simp only [eval] at hv
  cases hl : eval env l with
  | err c q => simp [hl, ERes.bind] at hv
  | inexact => simp [hl, ERes.bind] at hv
  | ok a =>
    cases hr : eval env r with
    | err c q => simp [hl, hr, ERes.bind] at hv
    | inexact => simp [hl, hr, ERes.bind] at hv
    | ok b =>
      simp only [hl, hr, ERes.bind] at hv
      have hb : binStep op t a b = (tryCmp a b).bind fun o' => Res.ok (ofBool (relHolds op o')) := by
        rcases hop with h | h | h | h | h | h <;> subst h <;> rfl
      rw [hb] at hv
      cases ht : tryCmp a b with
      | ok o =>
        simp only [ht, Res.bind, lift] at hv
        injection hv with hv
        subst hv
        simp only [ofBool]
        split <;> rfl
      | err e => simp [ht, Res.bind, lift] at hv
      | inexact => simp [ht, Res.bind, lift] at hv

end RbThm.C01Sim
