import Thm.C15Inter
import RbModel.WfMarks
/-!
C15 — balance ACROSS the exits that the VM restores (successor of the global machine of `Thm/C15Inter.lean`).

`Thm/C15Inter.lean` ends the modelled run at a "mismatched exit": `PopRet` executed while GOSUB frames lie
on top of the procedure's call frame (`EXIT SUB` inside a GOSUB routine of the procedure), `RETURN label`
from a GOSUB that was issued off the entry depths of its activation; and the checker `RbModel.Wf.checkCert`
refuses a `RETURN` executed inside a FOR body / SELECT CASE block of the routine.  The real VM now *restores*
the stacks at those exits (`rusty_basic/src/interpreter/main.rs`, `PushRet` 489–498, `PopRet` 499–512,
`GoSub` 513–518, `Return` 519–535; commits fa4a0f0, 64a41ef, 8f09b9b).  This file brings that behaviour
inside the machine and proves balance across those exits.

## The machine (`RbModel.WfMarks.MState`, `MStep` below; executable form `RbModel.WfMarks.next`)

As in `C15Inter`: pc, absolute depths `h : H` of the five stacks, ONE list of pending frames tagged
`call` / `gosub` (the VM's `return_address_stack` + `return_marks` and `go_sub_address_stack` +
`go_sub_marks` are its two projections, `retAddrs` / `gosubAddrs`).  New:

* a frame carries `marks : H` — the five depths at the `PushRet` / `GoSub` — and `gs`, the height of
  `go_sub_address_stack` then.  The VM records `(marks.reg, gs, marks.value, marks.path)` for a call frame
  and `(marks.reg, marks.value)` for a GOSUB frame; the remaining components are ghost;
* `popRet`: the innermost call frame `c` may lie under any number of GOSUB frames; they are all dropped
  (`dropGosubs`: the VM's `go_sub_address_stack.truncate(go_subs)`, `popRet_truncates_gosub_stack`), the run
  continues at `c.addr` with depths `restoreCall h c.marks` (`truncate` = componentwise `min` on register,
  value and variable-path stacks; context and by-ref untouched);
* `retNone` / `retLabel`: the innermost frame `g` must be a GOSUB frame; the run continues at `g.addr + 1`
  resp. at the label with depths `restoreGosub h g.marks` (`min` on register and value stacks).
  `RETURN label` starts a new activation at the label (a root of the checker) whose entry depths are the
  restored depths — with NO condition on where the GOSUB was issued.

Hypotheses of the theorems: `checkCertM code cert` (`RbModel.WfMarks`: the certificate check with the exit
condition of the restoring VM), `branchesLocal code`, `targetsResolved code`.

## Where the modelled run still ENDS (`Blocked`, `progress_or_blocked`)

`Halt`, `Throw`, `Resume*` (handlers are never entered: error edges are not modelled), an unresolved jump
target, a `PushRet` without its `Jump`, `PopRet` with no call frame at all (the VM: `unwrap()` of an empty
`return_address_stack`), and `Return` when the innermost frame is not a GOSUB frame: no frame at all or only
GOSUBs pending in *callers* of the current procedure.  The VM raises `ReturnWithoutGoSub` only when its
GOSUB stack is empty; with a caller's GOSUB pending it pops THAT address and continues in the caller's code
with the callee's context and return address still in place.  Nothing is claimed beyond that event.

## What is NOT restored by the code, hence not claimed

`PopRet` / `Return` leave `by_ref_stack`, the context and the stacktrace alone (`Return` also the
variable-path stack).  For those components the theorems give equality with the depths at the `PushRet` /
`GoSub` from the *static* balance that `checkCertM` checks (relative depth zero at the exit and at every
GOSUB site), not from the VM; the stacktrace is not among the five depths at all (it is popped by
`PopStack` in the caller's code).  Stack *contents* are outside every theorem here.
Not re-proved for this machine: `global_depth_bound` of `C15Inter`.  It does not hold here: by the code,
`L: FOR …: GOSUB R: NEXT … R: RETURN L` keeps one more register frame each round (the mark of the GOSUB
includes the FOR's frame and the jump to `L` does not pop it).
-/
namespace RbThm.C15.Marks
open RbModel RbModel.Wf RbModel.WfMarks RbThm.C15

/-! ### what `checkCertM = true` gives -/

theorem checkCertM_size {code : Code} {cert : Cert} (h : checkCertM code cert = true) : cert.size = code.size := by
  simp only [checkCertM, Bool.and_eq_true, beq_iff_eq] at h
  exact h.1.1

theorem checkCertM_roots {code : Code} {cert : Cert} (h : checkCertM code cert = true) :
    ∀ r ∈ roots code, cert[r]? = some (some H.zero) := by
  intro r hr
  simp only [checkCertM, Bool.and_eq_true, List.all_eq_true] at h
  have := h.1.2 r hr
  simpa using this

theorem checkCertM_checkPc {code : Code} {cert : Cert} (h : checkCertM code cert = true) :
    ∀ pc, pc < code.size → checkPcM code cert pc = true := by
  intro pc hpc
  simp only [checkCertM, Bool.and_eq_true, List.all_eq_true] at h
  exact h.2 pc (List.mem_range.2 hpc)

theorem checkPcM_spec {code : Code} {cert : Cert} {pc : Nat} {rel : H} {i : Instr}
    (h : checkPcM code cert pc = true) (hc : cert[pc]? = some (some rel)) (hi : instrAt code pc = some i) :
    ∃ rel', apply rel (eff i) = some rel' ∧
      (∀ s ∈ succs code pc i, cert[s]? = some (some rel')) ∧
      exitOk i rel = true ∧ siteOk i rel = true := by
  unfold checkPcM at h
  rw [hc] at h
  simp only [hi] at h
  cases ha : apply rel (eff i) with
  | none => simp [ha] at h
  | some rel' =>
    simp only [ha, Bool.and_eq_true, List.all_eq_true] at h
    refine ⟨rel', rfl, ?_, h.1.2, h.2⟩
    intro s hs
    have := h.1.1 s hs
    simpa using this

/-- **Every reachable state of an activation carries exactly the certified relative depths**
(`C15.cert_sound` for the new checker). -/
theorem cert_sound {code : Code} {cert : Cert} (hc : checkCertM code cert = true)
    {r : Nat} (hr : r ∈ roots code) (h0 : H) {pc : Nat} {h : H} (hreach : Reach code r h0 pc h) :
    ∃ rel, cert[pc]? = some (some rel) ∧ h = H.add h0 rel := by
  induction hreach with
  | start => exact ⟨H.zero, checkCertM_roots hc r hr, (H.add_zero h0).symm⟩
  | step _ hstep ih =>
    obtain ⟨rel, hcert, hh⟩ := ih
    obtain ⟨i, hi, happ, hs⟩ := hstep
    have hpc := instrAt_lt hi
    obtain ⟨rel', happ', hsucc, _⟩ := checkPcM_spec (checkCertM_checkPc hc _ hpc) hcert hi
    refine ⟨rel', hsucc _ hs, ?_⟩
    subst hh
    rw [apply_add h0 rel rel' _ happ'] at happ
    injection happ with happ
    exact happ.symm

/-- **No execution underflows a stack** (even counting only what the activation itself has pushed). -/
theorem no_underflow {code : Code} {cert : Cert} (hc : checkCertM code cert = true)
    {r : Nat} (hr : r ∈ roots code) (h0 : H) {pc : Nat} {h : H} (hreach : Reach code r h0 pc h)
    {i : Instr} (hi : instrAt code pc = some i) :
    ∃ h', apply h (eff i) = some h' := by
  obtain ⟨rel, hcert, hh⟩ := cert_sound hc hr h0 hreach
  obtain ⟨rel', happ', _, _⟩ := checkPcM_spec (checkCertM_checkPc hc _ (instrAt_lt hi)) hcert hi
  exact ⟨H.add h0 rel', by rw [hh]; exact apply_add h0 rel rel' _ happ'⟩

/-- depths are a function of the pc inside an activation -/
theorem depth_determined_by_pc {code : Code} {cert : Cert} (hc : checkCertM code cert = true)
    {r : Nat} (hr : r ∈ roots code) (h0 : H) {pc : Nat} {h₁ h₂ : H}
    (h1 : Reach code r h0 pc h₁) (h2 : Reach code r h0 pc h₂) : h₁ = h₂ := by
  obtain ⟨rel₁, hc₁, e₁⟩ := cert_sound hc hr h0 h1
  obtain ⟨rel₂, hc₂, e₂⟩ := cert_sound hc hr h0 h2
  rw [hc₁] at hc₂
  injection hc₂ with hc₂
  injection hc₂ with hc₂
  rw [e₁, e₂, hc₂]

/-! ### the two orders on depth vectors that the restoring exits need -/

/-- `m` can be restored from `h` by a `PopRet`: not above `h` on the stacks `PopRet` cuts (value,
register, variable path), equal on those it leaves alone (context, by-ref) -/
def BelowC (m h : H) : Prop :=
  m.value ≤ h.value ∧ m.reg ≤ h.reg ∧ m.path ≤ h.path ∧ m.ctx = h.ctx ∧ m.byref = h.byref

/-- `m` can be restored from `h` by a `Return`: not above `h` on the stacks `Return` cuts (value,
register), equal on those it leaves alone (variable path, context, by-ref) -/
def BelowG (m h : H) : Prop :=
  m.value ≤ h.value ∧ m.reg ≤ h.reg ∧ m.path = h.path ∧ m.ctx = h.ctx ∧ m.byref = h.byref

theorem BelowC.refl (h : H) : BelowC h h := ⟨Nat.le_refl _, Nat.le_refl _, Nat.le_refl _, rfl, rfl⟩
theorem BelowG.refl (h : H) : BelowG h h := ⟨Nat.le_refl _, Nat.le_refl _, rfl, rfl, rfl⟩

theorem BelowG.toC {m h : H} (x : BelowG m h) : BelowC m h := by
  unfold BelowG at x; unfold BelowC; omega

theorem BelowC.trans {a b c : H} (x : BelowC a b) (y : BelowC b c) : BelowC a c := by
  unfold BelowC at *; omega

theorem BelowG.trans {a b c : H} (x : BelowG a b) (y : BelowG b c) : BelowG a c := by
  unfold BelowG at *; omega

/-- `truncate` really restores when nothing was below the mark -/
theorem restoreCall_of_below {m h : H} (x : BelowC m h) : restoreCall h m = m := by
  cases m; cases h
  simp only [BelowC] at x
  simp only [restoreCall, H.mk.injEq]
  omega

theorem restoreGosub_of_below {m h : H} (x : BelowG m h) : restoreGosub h m = m := by
  cases m; cases h
  simp only [BelowG] at x
  simp only [restoreGosub, H.mk.injEq]
  omega

/-- inside an activation no stack is ever below its entry depth -/
theorem depth_ge_entry {code : Code} {cert : Cert} (hc : checkCertM code cert = true)
    {r : Nat} (hr : r ∈ roots code) (h0 : H) {pc : Nat} {h : H} (hreach : Reach code r h0 pc h) :
    H.le h0 h = true := by
  obtain ⟨rel, _, hh⟩ := cert_sound hc hr h0 hreach
  subst hh
  rw [H.le_iff]
  simp only [H.add]
  omega

/-- **at `PopRet`**: context and by-ref are at their entry depths (statically), the value, register and
variable-path stacks are at or above theirs (`PopRet` will cut them) -/
theorem exit_popRet {code : Code} {cert : Cert} (hc : checkCertM code cert = true)
    {r : Nat} (hr : r ∈ roots code) (h0 : H) {pc : Nat} {h : H} (hreach : Reach code r h0 pc h)
    (hi : instrAt code pc = some .popRet) : BelowC h0 h := by
  obtain ⟨rel, hcert, hh⟩ := cert_sound hc hr h0 hreach
  obtain ⟨_, _, _, hex, _⟩ := checkPcM_spec (checkCertM_checkPc hc _ (instrAt_lt hi)) hcert hi
  simp only [exitOk, Bool.and_eq_true, beq_iff_eq] at hex
  subst hh
  simp only [BelowC, H.add]
  omega

/-- **at `RETURN`**: context, variable paths and by-ref are at their entry depths (statically), the value
and register stacks are at or above theirs (`Return` will cut them): the RETURN may sit inside FOR
bodies and SELECT CASE blocks of the routine, at any depth -/
theorem exit_ret {code : Code} {cert : Cert} (hc : checkCertM code cert = true)
    {r : Nat} (hr : r ∈ roots code) (h0 : H) {pc : Nat} {h : H} (hreach : Reach code r h0 pc h)
    {t : Option Target} (hi : instrAt code pc = some (.ret t)) : BelowG h0 h := by
  obtain ⟨rel, hcert, hh⟩ := cert_sound hc hr h0 hreach
  obtain ⟨_, _, _, hex, _⟩ := checkPcM_spec (checkCertM_checkPc hc _ (instrAt_lt hi)) hcert hi
  simp only [exitOk, Bool.and_eq_true, beq_iff_eq] at hex
  subst hh
  simp only [BelowG, H.add]
  omega

/-- **at `GOSUB`**: the activation has nothing pending on the stacks that no exit restores -/
theorem site_goSub {code : Code} {cert : Cert} (hc : checkCertM code cert = true)
    {r : Nat} (hr : r ∈ roots code) (h0 : H) {pc : Nat} {h : H} (hreach : Reach code r h0 pc h)
    {t : Target} (hi : instrAt code pc = some (.goSub t)) : BelowG h0 h := by
  obtain ⟨rel, hcert, hh⟩ := cert_sound hc hr h0 hreach
  obtain ⟨_, _, _, _, hsite⟩ := checkPcM_spec (checkCertM_checkPc hc _ (instrAt_lt hi)) hcert hi
  simp only [siteOk, Bool.and_eq_true, beq_iff_eq] at hsite
  subst hh
  simp only [BelowG, H.add]
  omega

/-- **static part**: what an accepting run of `wfCheckM` establishes about the instruction list
(`C15.wfCheck_sound` with the exit clause of the restoring VM) -/
theorem wfCheckM_sound {code : Code} {addrs : List Nat} {cert : Cert} (h : wfCheckM code addrs cert = true) :
    targetsResolved code = true ∧ (labelNames code).Nodup ∧ terminatorsOk code = true ∧
    branchesLocal code = true ∧ (addrs.Pairwise (· ≤ ·) ∧ ∀ a ∈ addrs, a ≤ code.size) ∧
    (∀ r ∈ roots code, ∀ h0 pc hh, Reach code r h0 pc hh →
      (∃ rel, cert[pc]? = some (some rel) ∧ hh = H.add h0 rel) ∧
      (∀ i, instrAt code pc = some i → (∃ h', apply hh (eff i) = some h') ∧
        (i = .popRet → BelowC h0 hh) ∧ (∀ t, i = .ret t → BelowG h0 hh) ∧ (∀ t, i = .goSub t → BelowG h0 hh))) := by
  simp only [wfCheckM, Bool.and_eq_true] at h
  obtain ⟨⟨⟨⟨⟨h1, h2⟩, h3⟩, h4⟩, h5⟩, h6⟩ := h
  refine ⟨h1, labels_unique h2, h3, h4, addrs_ascending h5, ?_⟩
  intro r hr h0 pc hh hreach
  refine ⟨cert_sound h6 hr h0 hreach, ?_⟩
  intro i hi
  refine ⟨no_underflow h6 hr h0 hreach hi, ?_, ?_, ?_⟩
  · intro e; subst e; exact exit_popRet h6 hr h0 hreach hi
  · intro t e; subst e; exact exit_ret h6 hr h0 hreach hi
  · intro t e; subst e; exact site_goSub h6 hr h0 hreach hi

/-- the old checker is the stricter one at the exits: a list it accepts is accepted by the new one as soon
as its GOSUB sites are flat -/
theorem checkCert_imp_checkCertM {code : Code} {cert : Cert} (h : checkCert code cert = true)
    (hsites : ∀ pc rel i, cert[pc]? = some (some rel) → instrAt code pc = some i → siteOk i rel = true) :
    checkCertM code cert = true := by
  simp only [checkCert, Bool.and_eq_true, List.all_eq_true] at h
  simp only [checkCertM, Bool.and_eq_true, List.all_eq_true]
  refine ⟨⟨h.1.1, h.1.2⟩, ?_⟩
  intro pc hpc
  have hp := h.2 pc hpc
  unfold checkPcM
  unfold checkPc at hp
  cases hcp : cert[pc]? with
  | none => rfl
  | some o =>
    cases o with
    | none => rfl
    | some rel =>
      rw [hcp] at hp
      cases hi : instrAt code pc with
      | none => simp [hi] at hp
      | some i =>
        simp only [hi] at hp ⊢
        cases ha : apply rel (eff i) with
        | none => simp [ha] at hp
        | some rel' =>
          simp only [ha, Bool.and_eq_true] at hp ⊢
          refine ⟨⟨hp.1, ?_⟩, hsites pc rel i hcp hi⟩
          have h2 := hp.2
          cases i <;> first | rfl | skip
          all_goals
            simp only [isBalancedExit, Bool.not_true, Bool.false_or, beq_iff_eq] at h2
            subst h2
            rfl

/-! ### the global machine -/

/-- one VM instruction of the global machine (relational form of `RbModel.WfMarks.next`, `next_sound` /
`next_complete`).  `PushRet`, `PopRet`, `GoSub`, `Return` transcribe main.rs 489–535 (see
`RbModel/WfMarks.lean`); `call` is the `Jump` of a call pair; `plain` is any other instruction. -/
inductive MStep (code : Code) : MState → MState → Prop
  | plain {s : MState} {i : Instr} {pc' : Nat} {h' : H} :
      instrAt code s.pc = some i → frameOp code s.pc i = false →
      apply s.h (eff i) = some h' → pc' ∈ succs code s.pc i →
      MStep code s ⟨pc', h', s.frames, s.root, s.h0, s.pending⟩
  /-- `PushRet(a)`: push `a` and the marks (the current heights; `gs` = height of the GOSUB stack) -/
  | pushRet {s : MState} {a t : Nat} :
      instrAt code s.pc = some (.pushRet a) → instrAt code (s.pc + 1) = some (.jump (.addr t)) →
      a = s.pc + 2 →
      MStep code s ⟨s.pc + 1, s.h,
        ⟨.call, a, s.h, (gosubAddrs s.frames).length, s.root, s.h0⟩ :: s.frames, s.root, s.h0, true⟩
  | call {s : MState} {t : Nat} :
      instrAt code s.pc = some (.jump (.addr t)) → isCall code s.pc = true →
      MStep code s ⟨t, s.h, s.frames, t, s.h, false⟩
  /-- `PopRet`: the innermost call frame `c`, under any number of GOSUB frames, is popped together with
  them; the register, value and variable-path stacks are cut back to its marks -/
  | popRet {s : MState} {c : MFrame} {fs : List MFrame} :
      instrAt code s.pc = some .popRet → dropGosubs s.frames = c :: fs →
      MStep code s ⟨c.addr, restoreCall s.h c.marks, fs, c.root, c.h0, false⟩
  /-- `GoSub(t)` at `i`: push `i` and the marks -/
  | goSub {s : MState} {t : Nat} :
      instrAt code s.pc = some (.goSub (.addr t)) →
      MStep code s ⟨t, s.h,
        ⟨.gosub, s.pc, s.h, (gosubAddrs s.frames).length, s.root, s.h0⟩ :: s.frames, t, s.h, false⟩
  /-- `Return(None)`: pop the innermost frame (a GOSUB frame), cut the register and value stacks back to
  its marks, continue after the `GoSub` -/
  | retNone {s : MState} {g : MFrame} {fs : List MFrame} :
      instrAt code s.pc = some (.ret none) → s.frames = g :: fs → g.kind = .gosub →
      MStep code s ⟨g.addr + 1, restoreGosub s.h g.marks, fs, g.root, g.h0, false⟩
  /-- `Return(Some(a))`: the same, continuing at the label in a new activation entered with the restored
  depths -/
  | retLabel {s : MState} {g : MFrame} {fs : List MFrame} {a : Nat} :
      instrAt code s.pc = some (.ret (some (.addr a))) → s.frames = g :: fs → g.kind = .gosub →
      MStep code s ⟨a, restoreGosub s.h g.marks, fs, a, restoreGosub s.h g.marks, false⟩

/-- states reachable by global runs from the initial state (pc 0, stacks at `hinit`, no frames) -/
inductive MReach (code : Code) (hinit : H) : MState → Prop
  | init : MReach code hinit (MState.init hinit)
  | step {s s' : MState} : MReach code hinit s → MStep code s s' → MReach code hinit s'

theorem frameOp_eq (code : Code) (pc : Nat) (i : Instr) : frameOp code pc i = isFrameOp code pc i := by
  cases i <;> rfl

/-! ### lists of frames -/

theorem dropGosubs_split : ∀ {l : List MFrame} {c : MFrame} {fs : List MFrame}, dropGosubs l = c :: fs →
    ∃ gs, l = gs ++ c :: fs ∧ (∀ g ∈ gs, g.kind = .gosub) ∧ c.kind = .call
  | [], _, _, h => by simp [dropGosubs] at h
  | f :: rest, c, fs, h => by
    unfold dropGosubs at h
    cases hk : f.kind with
    | gosub =>
      rw [hk] at h
      obtain ⟨gs, h1, h2, h3⟩ := dropGosubs_split h
      refine ⟨f :: gs, by rw [h1]; rfl, ?_, h3⟩
      intro g hg
      rcases List.mem_cons.1 hg with rfl | hg
      · exact hk
      · exact h2 g hg
    | call =>
      rw [hk] at h
      injection h with h1 h2
      subst h1; subst h2
      exact ⟨[], rfl, fun g hg => absurd hg List.not_mem_nil, hk⟩

theorem dropGosubs_append {gs : List MFrame} {c : MFrame} {fs : List MFrame}
    (hgs : ∀ g ∈ gs, g.kind = .gosub) (hck : c.kind = .call) : dropGosubs (gs ++ c :: fs) = c :: fs := by
  induction gs with
  | nil => simp [dropGosubs, hck]
  | cons g gs ih =>
    have hk := hgs g List.mem_cons_self
    simp only [List.cons_append, dropGosubs, hk]
    exact ih (fun g' hg' => hgs g' (List.mem_cons_of_mem _ hg'))

theorem dropGosubs_nil : ∀ {l : List MFrame}, dropGosubs l = [] → ∀ f ∈ l, f.kind = .gosub
  | [], _ => fun f hf => absurd hf List.not_mem_nil
  | f :: rest, h => by
    unfold dropGosubs at h
    cases hk : f.kind with
    | gosub =>
      rw [hk] at h
      intro f' hf'
      rcases List.mem_cons.1 hf' with rfl | hf'
      · exact hk
      · exact dropGosubs_nil h f' hf'
    | call => rw [hk] at h; cases h

theorem gosubAddrs_append_call {gs : List MFrame} {c : MFrame} {fs : List MFrame}
    (hg : ∀ g ∈ gs, g.kind = .gosub) (hc : c.kind = .call) :
    gosubAddrs (gs ++ c :: fs) = gs.map (·.addr) ++ gosubAddrs fs ∧
    retAddrs (gs ++ c :: fs) = c.addr :: retAddrs fs := by
  have h1 : gs.filter (fun x => x.kind == FKind.gosub) = gs :=
    List.filter_eq_self.2 (fun g hg' => by simp [hg g hg'])
  have h2 : gs.filter (fun x => x.kind == FKind.call) = [] :=
    List.filter_eq_nil_iff.2 (fun g hg' => by simp [hg g hg'])
  simp [gosubAddrs, retAddrs, List.filter_append, h1, h2, hc]

/-! ### the global invariant -/

/-- a pending frame is an intra-activation state of its own activation, stopped at a call `Jump` (`call`
frames; the depths there are those at the `PushRet` before it) or at a `GoSub` (`gosub` frames), with
the depths `marks`, and resumes right after it -/
def FrameOk (code : Code) (f : MFrame) : Prop :=
  f.root ∈ roots code ∧
  ∃ callPc i, Reach code f.root f.h0 callPc f.marks ∧ instrAt code callPc = some i ∧ f.retPc = callPc + 1 ∧
    ((f.kind = .call ∧ ∃ t, i = .jump (.addr t) ∧ isCall code callPc = true) ∨
     (f.kind = .gosub ∧ ∃ t, i = .goSub (.addr t)))

/-- the entry depths `h0` of the activation above `f` allow `f`'s own exit to restore `f.marks` -/
def Link (f : MFrame) (h0 : H) : Prop :=
  match f.kind with
  | .call => BelowC f.marks h0
  | .gosub => BelowG f.marks h0

/-- `Chain h0 fs`: an activation entered with depths `h0` sits on top of the frames `fs`.  Compared with
`C15Inter.Chain` the link is an inequality on the stacks that the frame's exit cuts back (a `RETURN label`
may have replaced the activation above a frame by one that entered higher), and every frame's recorded
GOSUB-stack height is the number of GOSUB frames below it -/
def Chain (code : Code) : H → List MFrame → Prop
  | _, [] => True
  | h0, f :: fs => Link f h0 ∧ FrameOk code f ∧ f.gs = (gosubAddrs fs).length ∧ Chain code f.h0 fs

structure Inv (code : Code) (s : MState) : Prop where
  root_mem : s.root ∈ roots code
  /-- the current state is an intra-activation state of the current activation -/
  reach : Reach code s.root s.h0 s.pc s.h
  /-- outside a call pair -/
  normal : s.pending = false → Chain code s.h0 s.frames ∧ NotCallJump code s.pc
  /-- between `PushRet` and its `Jump`: the innermost frame is the current activation itself -/
  pend : s.pending = true → ∃ f fs t, s.frames = f :: fs ∧ f.kind = .call ∧ f.root = s.root ∧ f.h0 = s.h0 ∧
    f.marks = s.h ∧ f.addr = s.pc + 1 ∧ instrAt code s.pc = some (.jump (.addr t)) ∧ isCall code s.pc = true ∧
    f.gs = (gosubAddrs fs).length ∧ Chain code f.h0 fs

theorem inv_init (code : Code) (hinit : H) : Inv code (MState.init hinit) :=
  ⟨List.mem_cons_self, Reach.start, fun _ => ⟨trivial, notCallJump_zero code⟩, (fun h => nomatch h)⟩

/-- a frame that satisfies the frame invariant resumes in an intra-activation state: the state the
intra-activation machine reaches by stepping *over* the call / GOSUB -/
theorem frame_return {code : Code} {f : MFrame} (hf : FrameOk code f) :
    (∃ callPc, Reach code f.root f.h0 callPc f.marks ∧ StepTo code callPc f.marks f.retPc f.marks) ∧
    NotCallJump code f.retPc := by
  obtain ⟨_, callPc, i, hr, hi, hret, hk⟩ := hf
  rcases hk with ⟨_, t, rfl, hc⟩ | ⟨_, t, rfl⟩
  · refine ⟨⟨callPc, hr, _, hi, apply_zero _, ?_⟩, ?_⟩
    · simp [succs, hc, hret]
    · rw [hret]; exact notCallJump_succ hi (fun a h => by cases h)
  · refine ⟨⟨callPc, hr, _, hi, apply_zero _, ?_⟩, ?_⟩
    · simp [succs, hret]
    · rw [hret]; exact notCallJump_succ hi (fun a h => by cases h)

/-- the activation suspended in a frame entered at or below the frame's marks; for a GOSUB frame the
stacks nobody restores are where they were at the activation's entry -/
theorem frame_entry_below {code : Code} {cert : Cert} (hc : checkCertM code cert = true) {f : MFrame}
    (hf : FrameOk code f) : H.le f.h0 f.marks = true ∧ (f.kind = .gosub → BelowG f.h0 f.marks) := by
  obtain ⟨hroot, callPc, i, hr, hi, _, hk⟩ := hf
  refine ⟨depth_ge_entry hc hroot f.h0 hr, fun hg => ?_⟩
  rcases hk with ⟨hk, _⟩ | ⟨_, t, rfl⟩
  · rw [hg] at hk; cases hk
  · exact site_goSub hc hroot f.h0 hr hi

theorem not_pending_of_instr {code : Code} {s : MState} (hinv : Inv code s) {i : Instr}
    (hi : instrAt code s.pc = some i) (hn : ∀ t, i = .jump (.addr t) → isCall code s.pc = false) :
    s.pending = false := by
  cases hp : s.pending with
  | false => rfl
  | true =>
    obtain ⟨f, fs, t, _, _, _, _, _, _, hj, hc, _⟩ := hinv.pend hp
    rw [hi] at hj
    injection hj with hj
    rw [hn t hj] at hc
    cases hc

/-- entering higher on the stacks that exits cut back keeps the chain -/
theorem chain_raise {code : Code} {h0 h0' : H} {fs : List MFrame} (hch : Chain code h0 fs)
    (hb : BelowG h0 h0') : Chain code h0' fs := by
  cases fs with
  | nil => trivial
  | cons f rest =>
    obtain ⟨hl, hrest⟩ := hch
    refine ⟨?_, hrest⟩
    unfold Link at hl ⊢
    cases hk : f.kind with
    | call => rw [hk] at hl; exact hl.trans hb.toC
    | gosub => rw [hk] at hl; exact hl.trans hb

/-- **the frames a `PopRet` skips**: under a chain, the innermost call frame `c` — however many GOSUB
frames lie above it — has marks that the current activation's entry depths allow a `PopRet` to restore -/
theorem chain_dropGosubs {code : Code} {cert : Cert} (hc : checkCertM code cert = true) :
    ∀ {frames : List MFrame} {h0 : H} {c : MFrame} {fs : List MFrame}, Chain code h0 frames →
      dropGosubs frames = c :: fs →
      BelowC c.marks h0 ∧ FrameOk code c ∧ c.gs = (gosubAddrs fs).length ∧ Chain code c.h0 fs
  | [], _, _, _, _, h => by simp [dropGosubs] at h
  | f :: rest, h0, c, fs, hch, h => by
    obtain ⟨hl, hfok, hgs, hrest⟩ := hch
    unfold dropGosubs at h
    unfold Link at hl
    cases hk : f.kind with
    | call =>
      rw [hk] at h hl
      injection h with h1 h2
      subst h1; subst h2
      exact ⟨hl, hfok, hgs, hrest⟩
    | gosub =>
      rw [hk] at h hl
      obtain ⟨hb, hcok, hcgs, hcrest⟩ := chain_dropGosubs hc hrest h
      exact ⟨(hb.trans ((frame_entry_below hc hfok).2 hk).toC).trans hl.toC, hcok, hcgs, hcrest⟩

/-- **The invariant is preserved by every global step.** -/
theorem inv_step {code : Code} {cert : Cert} (hc : checkCertM code cert = true)
    (hbl : branchesLocal code = true) (htr : targetsResolved code = true)
    {s s' : MState} (hinv : Inv code s) (hs : MStep code s s') : Inv code s' := by
  cases hs with
  | @plain i pc' h' hi hnf happ hsucc =>
    rw [frameOp_eq] at hnf
    have hp : s.pending = false := not_pending_of_instr hinv hi (by
      intro t ht; subst ht; simpa [isFrameOp] using hnf)
    refine ⟨hinv.root_mem, Reach.step hinv.reach ⟨i, hi, happ, hsucc⟩, ?_, ?_⟩
    · intro _
      exact ⟨(hinv.normal hp).1, notCallJump_of_succ htr hi hsucc hnf⟩
    · intro h; rw [hp] at h; cases h
  | @pushRet a t hi hj ha =>
    have hp : s.pending = false := not_pending_of_instr hinv hi (by intro t ht; cases ht)
    have hreach : Reach code s.root s.h0 (s.pc + 1) s.h :=
      Reach.step hinv.reach ⟨_, hi, apply_zero _, by simp [succs]⟩
    refine ⟨hinv.root_mem, hreach, (fun h => nomatch h), ?_⟩
    intro _
    refine ⟨_, _, t, rfl, rfl, rfl, rfl, rfl, ha, hj, ?_, rfl, (hinv.normal hp).1⟩
    simp [isCall, hi, ha]
  | @call t hi hcall =>
    have hp : s.pending = true := by
      cases hp : s.pending with
      | true => rfl
      | false => rw [(hinv.normal hp).2 t hi] at hcall; cases hcall
    obtain ⟨f, fs, t', hfr, hk, hr, hh0, hhc, hret, hj, _, hgs, hch⟩ := hinv.pend hp
    have hroot : t ∈ roots code := by
      have := (branches_local hbl hi).1 t rfl
      rw [if_pos hcall] at this
      exact mem_roots_of_procEntry this
    have hfok : FrameOk code f := by
      refine ⟨hr ▸ hinv.root_mem, s.pc, _, ?_, hi, ?_, Or.inl ⟨hk, t, rfl, hcall⟩⟩
      · rw [hr, hh0, hhc]; exact hinv.reach
      · simp [MFrame.retPc, hk, hret]
    refine ⟨hroot, Reach.start, ?_, (fun h => nomatch h)⟩
    intro _
    refine ⟨?_, notCallJump_of_label (label_of_target htr hi (by simp [targetsOf]))⟩
    show Chain code s.h s.frames
    rw [hfr]
    refine ⟨?_, hfok, hgs, hch⟩
    unfold Link
    rw [hk, hhc]
    exact BelowC.refl _
  | @popRet c fs hi hdrop =>
    have hp : s.pending = false := not_pending_of_instr hinv hi (by intro t ht; cases ht)
    obtain ⟨hb, hcok, _, hrest⟩ := chain_dropGosubs hc (hinv.normal hp).1 hdrop
    obtain ⟨_, _, hck⟩ := dropGosubs_split hdrop
    have hex := exit_popRet hc hinv.root_mem s.h0 hinv.reach hi
    have hrestore : restoreCall s.h c.marks = c.marks := restoreCall_of_below (hb.trans hex)
    obtain ⟨⟨callPc, hr, hst⟩, hncj⟩ := frame_return hcok
    have hpc : c.retPc = c.addr := by simp [MFrame.retPc, hck]
    rw [hpc] at hst hncj
    refine ⟨hcok.1, ?_, fun _ => ⟨hrest, hncj⟩, (fun h => nomatch h)⟩
    show Reach code c.root c.h0 c.addr (restoreCall s.h c.marks)
    rw [hrestore]
    exact Reach.step hr hst
  | @goSub t hi =>
    have hp : s.pending = false := not_pending_of_instr hinv hi (by intro t ht; cases ht)
    have hroot : t ∈ roots code := mem_roots_of_instr hi (fun l h => by cases h) (by simp [rootsOfInstr])
    refine ⟨hroot, Reach.start, ?_, (fun h => nomatch h)⟩
    intro _
    refine ⟨⟨BelowG.refl _, ?_, rfl, (hinv.normal hp).1⟩,
      notCallJump_of_label (label_of_target htr hi (by simp [targetsOf]))⟩
    exact ⟨hinv.root_mem, s.pc, _, hinv.reach, hi, rfl, Or.inr ⟨rfl, t, rfl⟩⟩
  | @retNone g fs hi hfr hk =>
    have hp : s.pending = false := not_pending_of_instr hinv hi (by intro t ht; cases ht)
    have hch : Chain code s.h0 (g :: fs) := hfr ▸ (hinv.normal hp).1
    obtain ⟨hlink, hfok, _, hrest⟩ := hch
    unfold Link at hlink
    rw [hk] at hlink
    have hex := exit_ret hc hinv.root_mem s.h0 hinv.reach hi
    have hrestore : restoreGosub s.h g.marks = g.marks := restoreGosub_of_below (hlink.trans hex)
    obtain ⟨⟨callPc, hr, hst⟩, hncj⟩ := frame_return hfok
    have hpc : g.retPc = g.addr + 1 := by simp [MFrame.retPc, hk]
    rw [hpc] at hst hncj
    refine ⟨hfok.1, ?_, fun _ => ⟨hrest, hncj⟩, (fun h => nomatch h)⟩
    show Reach code g.root g.h0 (g.addr + 1) (restoreGosub s.h g.marks)
    rw [hrestore]
    exact Reach.step hr hst
  | @retLabel g fs a hi hfr hk =>
    have hp : s.pending = false := not_pending_of_instr hinv hi (by intro t ht; cases ht)
    have hch : Chain code s.h0 (g :: fs) := hfr ▸ (hinv.normal hp).1
    obtain ⟨hlink, hfok, _, hrest⟩ := hch
    unfold Link at hlink
    rw [hk] at hlink
    have hex := exit_ret hc hinv.root_mem s.h0 hinv.reach hi
    have hrestore : restoreGosub s.h g.marks = g.marks := restoreGosub_of_below (hlink.trans hex)
    have hroot : a ∈ roots code := mem_roots_of_instr hi (fun l h => by cases h) (by simp [rootsOfInstr])
    refine ⟨hroot, Reach.start, ?_, (fun h => nomatch h)⟩
    intro _
    refine ⟨?_, notCallJump_of_label (label_of_target htr hi (by simp [targetsOf]))⟩
    show Chain code (restoreGosub s.h g.marks) fs
    rw [hrestore]
    exact chain_raise hrest ((frame_entry_below hc hfok).2 hk)

/-- **Global invariant**: every globally reachable state satisfies `Inv`. -/
theorem inv_of_reach {code : Code} {cert : Cert} (hc : checkCertM code cert = true)
    (hbl : branchesLocal code = true) (htr : targetsResolved code = true) {hinit : H}
    {s : MState} (hr : MReach code hinit s) : Inv code s := by
  induction hr with
  | init => exact inv_init code hinit
  | step _ hs ih => exact inv_step hc hbl htr ih hs

/-! ### each model step acts on the VM's address stacks and heights as the instruction does -/

/-- **Transcription of `PushRet` / `PopRet` / `GoSub` / `Return`** in terms of the VM's own data: the two
address stacks (`retAddrs`, `gosubAddrs`), the recorded marks, the next pc and the depths.  No invariant is
used here: this is what the machine's steps *are*. -/
theorem step_stacks {code : Code} {s s' : MState} (hs : MStep code s s') :
    -- `PushRet(a)`: push `a` with the current heights, go on
    (∀ a, instrAt code s.pc = some (.pushRet a) →
      retAddrs s'.frames = a :: retAddrs s.frames ∧ gosubAddrs s'.frames = gosubAddrs s.frames ∧
      s'.pc = s.pc + 1 ∧ s'.h = s.h ∧
      ∃ f, s'.frames = f :: s.frames ∧ f.marks = s.h ∧ f.gs = (gosubAddrs s.frames).length) ∧
    -- `GoSub(t)` at `i`: push `i` with the current heights, continue at `t`
    (∀ t, instrAt code s.pc = some (.goSub (.addr t)) →
      gosubAddrs s'.frames = s.pc :: gosubAddrs s.frames ∧ retAddrs s'.frames = retAddrs s.frames ∧
      s'.pc = t ∧ s'.h = s.h ∧
      ∃ f, s'.frames = f :: s.frames ∧ f.marks = s.h ∧ f.gs = (gosubAddrs s.frames).length) ∧
    -- `Return(opt)`: pop the top GOSUB address `i` with its marks, cut register and value stacks, continue
    -- at `i + 1` or at the label
    (∀ t, instrAt code s.pc = some (.ret t) →
      ∃ g, s.frames = g :: s'.frames ∧ g.kind = .gosub ∧
        gosubAddrs s.frames = g.addr :: gosubAddrs s'.frames ∧ retAddrs s'.frames = retAddrs s.frames ∧
        s'.h = restoreGosub s.h g.marks ∧
        (t = none → s'.pc = g.addr + 1 ∧ s'.root = g.root ∧ s'.h0 = g.h0) ∧
        (∀ a, t = some (.addr a) → s'.pc = a ∧ s'.root = a ∧ s'.h0 = s'.h)) ∧
    -- `PopRet`: pop the top return address with its marks, cut the GOSUB stack (the frames `gs`), the
    -- register, value and variable-path stacks, continue at the address
    (instrAt code s.pc = some .popRet →
      ∃ gs c, s.frames = gs ++ c :: s'.frames ∧ (∀ g ∈ gs, g.kind = .gosub) ∧ c.kind = .call ∧
        retAddrs s.frames = c.addr :: retAddrs s'.frames ∧
        gosubAddrs s.frames = gs.map (·.addr) ++ gosubAddrs s'.frames ∧
        s'.pc = c.addr ∧ s'.h = restoreCall s.h c.marks ∧ s'.root = c.root ∧ s'.h0 = c.h0) ∧
    -- everything else (including the `Jump` of a call): frames untouched
    (∀ i, instrAt code s.pc = some i → (∀ a, i ≠ .pushRet a) → i ≠ .popRet → (∀ t, i ≠ .goSub t) →
      (∀ t, i ≠ .ret t) → s'.frames = s.frames) := by
  cases hs with
  | plain hi hnf happ hsucc =>
    refine ⟨?_, ?_, ?_, ?_, ?_⟩
    · intro a ha; rw [hi] at ha; injection ha with ha; subst ha; simp [frameOp] at hnf
    · intro t ha; rw [hi] at ha; injection ha with ha; subst ha; simp [frameOp] at hnf
    · intro t ha; rw [hi] at ha; injection ha with ha; subst ha; simp [frameOp] at hnf
    · intro ha; rw [hi] at ha; injection ha with ha; subst ha; simp [frameOp] at hnf
    · intros; rfl
  | pushRet hi hj ha =>
    refine ⟨?_, ?_, ?_, ?_, ?_⟩
    · intro a' ha'; rw [hi] at ha'; injection ha' with ha'; injection ha' with ha'; subst ha'
      exact ⟨by simp [retAddrs], by simp [gosubAddrs], rfl, rfl, _, rfl, rfl, rfl⟩
    · intro t h; rw [hi] at h; cases h
    · intro t h; rw [hi] at h; cases h
    · intro h; rw [hi] at h; cases h
    · intro i h hn; rw [hi] at h; injection h with h; exact absurd h.symm (hn _)
  | call hi hc =>
    refine ⟨?_, ?_, ?_, ?_, ?_⟩
    · intro a h; rw [hi] at h; cases h
    · intro t h; rw [hi] at h; cases h
    · intro t h; rw [hi] at h; cases h
    · intro h; rw [hi] at h; cases h
    · intros; rfl
  | @popRet c fs hi hdrop =>
    refine ⟨?_, ?_, ?_, ?_, ?_⟩
    · intro a h; rw [hi] at h; cases h
    · intro t h; rw [hi] at h; cases h
    · intro t h; rw [hi] at h; cases h
    · intro _
      obtain ⟨gs, hsplit, hgs, hck⟩ := dropGosubs_split hdrop
      have hst := gosubAddrs_append_call (fs := fs) hgs hck
      exact ⟨gs, c, hsplit, hgs, hck, by rw [hsplit]; exact hst.2, by rw [hsplit]; exact hst.1, rfl, rfl, rfl, rfl⟩
    · intro i h _ hn; rw [hi] at h; injection h with h; exact absurd h.symm hn
  | goSub hi =>
    refine ⟨?_, ?_, ?_, ?_, ?_⟩
    · intro a h; rw [hi] at h; cases h
    · intro t h; rw [hi] at h; injection h with h; injection h with h; injection h with h; subst h
      exact ⟨by simp [gosubAddrs], by simp [retAddrs], rfl, rfl, _, rfl, rfl, rfl⟩
    · intro t h; rw [hi] at h; cases h
    · intro h; rw [hi] at h; cases h
    · intro i h _ _ hn; rw [hi] at h; injection h with h; exact absurd h.symm (hn _)
  | @retNone g fs hi hfr hk =>
    refine ⟨?_, ?_, ?_, ?_, ?_⟩
    · intro a h; rw [hi] at h; cases h
    · intro t h; rw [hi] at h; cases h
    · intro t h; rw [hi] at h; injection h with h; injection h with h; subst h
      refine ⟨g, hfr, hk, by simp [gosubAddrs, hfr, hk], by simp [retAddrs, hfr, hk], rfl, fun _ => ⟨rfl, rfl, rfl⟩, ?_⟩
      intro a h; cases h
    · intro h; rw [hi] at h; cases h
    · intro i h _ _ _ hn; rw [hi] at h; injection h with h; exact absurd h.symm (hn _)
  | @retLabel g fs a hi hfr hk =>
    refine ⟨?_, ?_, ?_, ?_, ?_⟩
    · intro a h; rw [hi] at h; cases h
    · intro t h; rw [hi] at h; cases h
    · intro t h; rw [hi] at h; injection h with h; injection h with h; subst h
      refine ⟨g, hfr, hk, by simp [gosubAddrs, hfr, hk], by simp [retAddrs, hfr, hk], rfl, (fun h => by cases h), ?_⟩
      intro a' h; injection h with h; injection h with h; subst h; exact ⟨rfl, rfl, rfl⟩
    · intro h; rw [hi] at h; cases h
    · intro i h _ _ _ hn; rw [hi] at h; injection h with h; exact absurd h.symm (hn _)

/-- what a push records: the frame holds the five depths and the GOSUB-stack height at the `PushRet` /
`GoSub`, and the pushing activation's root and entry depths (frames are never modified afterwards: every
step leaves the list alone, conses one frame or removes a prefix) -/
theorem push_records {code : Code} {s s' : MState} (hs : MStep code s s') {f : MFrame}
    (hpush : s'.frames = f :: s.frames) :
    f.marks = s.h ∧ f.gs = (gosubAddrs s.frames).length ∧ f.h0 = s.h0 ∧ f.root = s.root := by
  cases hs with
  | plain => exact absurd (congrArg List.length hpush) (by simp <;> omega)
  | call => exact absurd (congrArg List.length hpush) (by simp <;> omega)
  | pushRet => injection hpush with h1 _; subst h1; exact ⟨rfl, rfl, rfl, rfl⟩
  | goSub => injection hpush with h1 _; subst h1; exact ⟨rfl, rfl, rfl, rfl⟩
  | popRet _ hdrop =>
    obtain ⟨gs, hsplit, _, _⟩ := dropGosubs_split hdrop
    simp only at hpush
    have := congrArg List.length hsplit
    rw [hpush] at this
    simp at this
    omega
  | retNone _ hfr => simp only at hpush; rw [hfr] at hpush; exact absurd (congrArg List.length hpush) (by simp <;> omega)
  | retLabel _ hfr => simp only at hpush; rw [hfr] at hpush; exact absurd (congrArg List.length hpush) (by simp <;> omega)

/-! ### consequences of the invariant -/

/-- **No underflow, globally**: at every globally reachable state the pops of the instruction about to be
executed are available on the five stacks — also after any number of restoring exits. -/
theorem global_no_underflow {code : Code} {cert : Cert} (hc : checkCertM code cert = true)
    (hbl : branchesLocal code = true) (htr : targetsResolved code = true) {hinit : H}
    {s : MState} (hr : MReach code hinit s) {i : Instr} (hi : instrAt code s.pc = some i) :
    ∃ h', apply s.h (eff i) = some h' :=
  have hinv := inv_of_reach hc hbl htr hr
  no_underflow hc hinv.root_mem s.h0 hinv.reach hi

/-- **Absolute depths = entry depths of the current activation + the certificate at the pc.** -/
theorem global_depth_is_cert {code : Code} {cert : Cert} (hc : checkCertM code cert = true)
    (hbl : branchesLocal code = true) (htr : targetsResolved code = true) {hinit : H}
    {s : MState} (hr : MReach code hinit s) :
    ∃ rel, cert[s.pc]? = some (some rel) ∧ s.h = H.add s.h0 rel :=
  have hinv := inv_of_reach hc hbl htr hr
  cert_sound hc hinv.root_mem s.h0 hinv.reach

/-- the pc of a globally reachable state is inside the instruction list -/
theorem global_pc_in_range {code : Code} {cert : Cert} (hc : checkCertM code cert = true)
    (hbl : branchesLocal code = true) (htr : targetsResolved code = true) {hinit : H}
    {s : MState} (hr : MReach code hinit s) : ∃ i, instrAt code s.pc = some i := by
  obtain ⟨rel, hrel, _⟩ := global_depth_is_cert hc hbl htr hr
  have hlt : s.pc < cert.size := (Array.getElem?_eq_some_iff.1 hrel).1
  rw [checkCertM_size hc] at hlt
  exact ⟨code[s.pc].instr, by simp [instrAt, hlt]⟩

/-- a call `Jump` is only ever executed directly after its own `PushRet`: the frame on top is the one that
`PushRet` pushed, holding the current depths -/
theorem call_return_address_on_top {code : Code} {cert : Cert} (hc : checkCertM code cert = true)
    (hbl : branchesLocal code = true) (htr : targetsResolved code = true) {hinit : H}
    {s : MState} (hr : MReach code hinit s) {t : Nat} (hi : instrAt code s.pc = some (.jump (.addr t)))
    (hcall : isCall code s.pc = true) :
    ∃ f fs, s.frames = f :: fs ∧ retAddrs s.frames = (s.pc + 1) :: retAddrs fs ∧
      f.root = s.root ∧ f.h0 = s.h0 ∧ f.marks = s.h ∧ f.gs = (gosubAddrs fs).length := by
  have hinv := inv_of_reach hc hbl htr hr
  have hp : s.pending = true := by
    cases hp : s.pending with
    | true => rfl
    | false => rw [(hinv.normal hp).2 t hi] at hcall; cases hcall
  obtain ⟨f, fs, _, hfr, hk, hroot, hh0, hhc, haddr, _, _, hgs, _⟩ := hinv.pend hp
  exact ⟨f, fs, hfr, by simp [retAddrs, hfr, hk, haddr], hroot, hh0, hhc, hgs⟩

/-- **(a) `PopRet` restores the caller — always.**  Whenever `PopRet` executes in a reachable state and
the frame list holds a call frame (that is: whenever the step exists), the innermost call frame `c` lies
under GOSUB frames `gs` only (any number: `EXIT SUB` inside nested GOSUB routines), all of them are
dropped, and the caller resumes at its return address `c.addr` with ALL five depths equal to `c.marks`,
the depths at the `PushRet` (`push_records`), and the GOSUB stack at its height `c.gs` of then.
No hypothesis says the exit is "matched": the `PopRet` may sit inside FOR bodies / SELECT CASE blocks of
the procedure or of the routines, at any depth.  Of the five depths the register, value and variable-path
ones are restored by the VM (`s'.h = restoreCall s.h c.marks`, `step_stacks`); the context and by-ref
depths are not touched by `PopRet` (last two clauses) and agree with the marks by static balance. -/
theorem return_restores_caller_always {code : Code} {cert : Cert} (hc : checkCertM code cert = true)
    (hbl : branchesLocal code = true) (htr : targetsResolved code = true) {hinit : H}
    {s s' : MState} (hr : MReach code hinit s) (hs : MStep code s s')
    (hi : instrAt code s.pc = some .popRet) :
    ∃ gs c, s.frames = gs ++ c :: s'.frames ∧ (∀ g ∈ gs, g.kind = .gosub) ∧ c.kind = .call ∧
      s'.pc = c.addr ∧ retAddrs s.frames = c.addr :: retAddrs s'.frames ∧
      s'.h = c.marks ∧ (gosubAddrs s'.frames).length = c.gs ∧
      s'.root = c.root ∧ s'.h0 = c.h0 ∧
      s'.h.ctx = s.h.ctx ∧ s'.h.byref = s.h.byref := by
  have hinv := inv_of_reach hc hbl htr hr
  obtain ⟨gs, c, hsplit, hgs, hck, hret, _, hpc, hh, hroot, hh0⟩ := (step_stacks hs).2.2.2.1 hi
  have hp : s.pending = false := not_pending_of_instr hinv hi (by intro t ht; cases ht)
  have hdrop : dropGosubs s.frames = c :: s'.frames := by
    rw [hsplit]; exact dropGosubs_append hgs hck
  obtain ⟨hb, _, hcgs, _⟩ := chain_dropGosubs hc (hinv.normal hp).1 hdrop
  have hex := exit_popRet hc hinv.root_mem s.h0 hinv.reach hi
  have hrestore : restoreCall s.h c.marks = c.marks := restoreCall_of_below (hb.trans hex)
  refine ⟨gs, c, hsplit, hgs, hck, hpc, hret, by rw [hh, hrestore], hcgs.symm, hroot, hh0, ?_, ?_⟩
  · rw [hh]; rfl
  · rw [hh]; rfl

/-- the VM's `go_sub_address_stack.truncate(go_subs)` at `PopRet` is the dropping of the GOSUB frames
above the innermost call frame: the recorded height is exactly the number of GOSUB addresses that stay -/
theorem popRet_truncates_gosub_stack {code : Code} {cert : Cert} (hc : checkCertM code cert = true)
    (hbl : branchesLocal code = true) (htr : targetsResolved code = true) {hinit : H}
    {s s' : MState} (hr : MReach code hinit s) (hs : MStep code s s')
    (hi : instrAt code s.pc = some .popRet) :
    ∃ c, dropGosubs s.frames = c :: s'.frames ∧ c.kind = .call ∧
      gosubAddrs s'.frames = truncTo c.gs (gosubAddrs s.frames) := by
  obtain ⟨gs, c, hsplit, hgs, hck, _, _, _, hcgs, _⟩ := return_restores_caller_always hc hbl htr hr hs hi
  have hst := (gosubAddrs_append_call (fs := s'.frames) hgs hck).1
  refine ⟨c, ?_, hck, ?_⟩
  · rw [hsplit]; exact dropGosubs_append hgs hck
  · rw [hsplit, hst, ← hcgs]
    simp [truncTo]

/-- **(b) `RETURN` restores the GOSUB's activation — always.**  Whenever `Return` executes in a reachable
state with a GOSUB frame `g` innermost, the run continues with ALL five depths equal to `g.marks`, the
depths at the `GoSub` (`push_records`) — from inside FOR bodies and SELECT CASE blocks of the routine at
any depth (no relative-depth-zero condition on the value and register stacks at the `Return`), after
`GoSub`s issued at any depth.  `Return(None)` resumes the suspended activation after the `GoSub`;
`Return(label)` starts a new activation at the label, entered with the restored depths.  The register and
value depths are restored by the VM (`s'.h = restoreGosub s.h g.marks`, `step_stacks`); `Return` does not
touch context, variable paths and by-ref (last clause): they agree with the marks by static balance. -/
theorem gosub_return_restores_always {code : Code} {cert : Cert} (hc : checkCertM code cert = true)
    (hbl : branchesLocal code = true) (htr : targetsResolved code = true) {hinit : H}
    {s s' : MState} (hr : MReach code hinit s) (hs : MStep code s s')
    {t : Option Target} (hi : instrAt code s.pc = some (.ret t)) :
    ∃ g, s.frames = g :: s'.frames ∧ g.kind = .gosub ∧
      gosubAddrs s.frames = g.addr :: gosubAddrs s'.frames ∧ retAddrs s'.frames = retAddrs s.frames ∧
      s'.h = g.marks ∧
      (t = none → s'.pc = g.addr + 1 ∧ s'.root = g.root ∧ s'.h0 = g.h0) ∧
      (∀ a, t = some (.addr a) → s'.pc = a ∧ s'.root = a ∧ s'.h0 = g.marks) ∧
      (s'.h.ctx = s.h.ctx ∧ s'.h.path = s.h.path ∧ s'.h.byref = s.h.byref) := by
  have hinv := inv_of_reach hc hbl htr hr
  obtain ⟨g, hfr, hk, hgo, hre, hh, hnone, hlab⟩ := (step_stacks hs).2.2.1 t hi
  have hp : s.pending = false := not_pending_of_instr hinv hi (by intro t ht; cases ht)
  have hch : Chain code s.h0 (g :: s'.frames) := hfr ▸ (hinv.normal hp).1
  have hlink := hch.1
  unfold Link at hlink
  rw [hk] at hlink
  have hex := exit_ret hc hinv.root_mem s.h0 hinv.reach hi
  have hrestore : restoreGosub s.h g.marks = g.marks := restoreGosub_of_below (hlink.trans hex)
  refine ⟨g, hfr, hk, hgo, hre, by rw [hh, hrestore], hnone, ?_, ?_⟩
  · intro a ha
    obtain ⟨h1, h2, h3⟩ := hlab a ha
    exact ⟨h1, h2, by rw [h3, hh, hrestore]⟩
  · rw [hh]; exact ⟨rfl, rfl, rfl⟩

/-- **The caller continues as if the call / GOSUB had been a no-op on the five stacks**: after `PopRet` /
`RETURN` the global state is the suspended activation's state `(f.retPc, f.marks)`, exactly the state the
intra-activation machine reaches from the site by stepping over it — whatever the callee left behind. -/
theorem return_is_stepover {code : Code} {cert : Cert} (hc : checkCertM code cert = true)
    (hbl : branchesLocal code = true) (htr : targetsResolved code = true) {hinit : H}
    {s s' : MState} (hr : MReach code hinit s) (hs : MStep code s s')
    (hi : instrAt code s.pc = some .popRet ∨ instrAt code s.pc = some (.ret none)) :
    ∃ f, f ∈ s.frames ∧ s'.pc = f.retPc ∧ s'.h = f.marks ∧ s'.root = f.root ∧ s'.h0 = f.h0 ∧
      ∃ callPc, Reach code f.root f.h0 callPc f.marks ∧ StepTo code callPc f.marks f.retPc f.marks := by
  have hinv := inv_of_reach hc hbl htr hr
  rcases hi with hi | hi
  · obtain ⟨gs, c, hsplit, hgs, hck, hpc, _, hh, _, hroot, hh0, _⟩ :=
      return_restores_caller_always hc hbl htr hr hs hi
    have hp : s.pending = false := not_pending_of_instr hinv hi (by intro t ht; cases ht)
    have hdrop : dropGosubs s.frames = c :: s'.frames := by
      rw [hsplit]; exact dropGosubs_append hgs hck
    obtain ⟨_, hcok, _, _⟩ := chain_dropGosubs hc (hinv.normal hp).1 hdrop
    refine ⟨c, by rw [hsplit]; simp, ?_, hh, hroot, hh0, (frame_return hcok).1⟩
    simp [MFrame.retPc, hck, hpc]
  · obtain ⟨g, hfr, hk, _, _, hh, hnone, _, _⟩ := gosub_return_restores_always hc hbl htr hr hs hi
    obtain ⟨hpc, hroot, hh0⟩ := hnone rfl
    have hp : s.pending = false := not_pending_of_instr hinv hi (by intro t ht; cases ht)
    have hch : Chain code s.h0 (g :: s'.frames) := hfr ▸ (hinv.normal hp).1
    refine ⟨g, by rw [hfr]; simp, ?_, hh, hroot, hh0, (frame_return hch.2.1).1⟩
    simp [MFrame.retPc, hk, hpc]

/-! ### where the modelled run ends -/

/-- the reasons for which a reachable state has no `MStep`.  Compared with `C15Inter.Blocked`:
`popRetMismatch` has shrunk to "no call frame anywhere", `retLabelInexact` is gone. -/
inductive Blocked (code : Code) (s : MState) : Prop
  /-- `Halt`, `Throw`, `Resume`, `ResumeNext`, `ResumeLabel`, an unresolved target (`noSucc_instr`) -/
  | noSucc {i : Instr} : instrAt code s.pc = some i → frameOp code s.pc i = false →
      succs code s.pc i = [] → Blocked code s
  /-- a `PushRet` that is not the first half of a call pair -/
  | strayPushRet {a : Nat} : instrAt code s.pc = some (.pushRet a) →
      ¬ (a = s.pc + 2 ∧ ∃ t, instrAt code (s.pc + 1) = some (.jump (.addr t))) → Blocked code s
  /-- `PopRet` without a call frame (the VM: `return_address_stack.pop().unwrap()` on an empty stack) -/
  | popRetNoCall : instrAt code s.pc = some .popRet → (∀ f ∈ s.frames, f.kind = .gosub) → Blocked code s
  /-- `Return` while the innermost frame is not a GOSUB frame: RETURN without GOSUB in the current
  procedure activation (the VM: `ReturnWithoutGoSub` if no GOSUB is pending at all; otherwise it pops a
  caller's GOSUB address and continues in the caller's code — not modelled) -/
  | retNoGosub {t : Option Target} : instrAt code s.pc = some (.ret t) →
      (∀ f fs, s.frames = f :: fs → f.kind = .call) → Blocked code s

/-- **The list of run-ending events is complete, and the mismatched exits are no longer on it**: a
globally reachable state either has a successor in the model or is `Blocked`. -/
theorem progress_or_blocked {code : Code} {cert : Cert} (hc : checkCertM code cert = true)
    (hbl : branchesLocal code = true) (htr : targetsResolved code = true) {hinit : H}
    {s : MState} (hr : MReach code hinit s) : (∃ s', MStep code s s') ∨ Blocked code s := by
  obtain ⟨i, hi⟩ := global_pc_in_range hc hbl htr hr
  obtain ⟨h', happ⟩ := global_no_underflow hc hbl htr hr hi
  have haddr : ∀ t, t ∈ targetsOf i → ∃ a, t = Target.addr a := by
    intro t ht
    obtain ⟨a, h1, _⟩ := (targets_resolved htr hi).1 t ht
    exact ⟨a, h1⟩
  cases hf : frameOp code s.pc i with
  | false =>
    cases hsu : succs code s.pc i with
    | nil => exact Or.inr (Blocked.noSucc hi hf hsu)
    | cons pc' rest => exact Or.inl ⟨_, MStep.plain hi hf happ (by rw [hsu]; exact List.mem_cons_self)⟩
  | true =>
    cases i with
    | pushRet a =>
      by_cases h : a = s.pc + 2 ∧ ∃ t, instrAt code (s.pc + 1) = some (.jump (.addr t))
      · obtain ⟨ha, t, ht⟩ := h
        exact Or.inl ⟨_, MStep.pushRet hi ht ha⟩
      · exact Or.inr (Blocked.strayPushRet hi h)
    | popRet =>
      cases hd : dropGosubs s.frames with
      | nil => exact Or.inr (Blocked.popRetNoCall hi (dropGosubs_nil hd))
      | cons c fs => exact Or.inl ⟨_, MStep.popRet hi hd⟩
    | goSub t =>
      obtain ⟨a, rfl⟩ := haddr t (by simp [targetsOf])
      exact Or.inl ⟨_, MStep.goSub hi⟩
    | jump t =>
      obtain ⟨a, rfl⟩ := haddr t (by simp [targetsOf])
      exact Or.inl ⟨_, MStep.call hi (by simpa [frameOp] using hf)⟩
    | ret t =>
      cases hfr : s.frames with
      | nil => exact Or.inr (Blocked.retNoGosub hi (fun f fs h => by rw [hfr] at h; cases h))
      | cons f fs =>
        cases hk : f.kind with
        | call =>
          refine Or.inr (Blocked.retNoGosub hi (fun f' fs' h => ?_))
          rw [hfr] at h; injection h with h1 _; subst h1; exact hk
        | gosub =>
          cases t with
          | none => exact Or.inl ⟨_, MStep.retNone hi hfr hk⟩
          | some t =>
            obtain ⟨a, rfl⟩ := haddr t (by simp [targetsOf])
            exact Or.inl ⟨_, MStep.retLabel hi hfr hk⟩
    | _ => simp [frameOp] at hf

/-- a blocked state has no step: the two alternatives of `progress_or_blocked` exclude each other -/
theorem blocked_no_step {code : Code} {s s' : MState} (hb : Blocked code s) (hs : MStep code s s') : False := by
  cases hb with
  | noSucc hi hf hsu =>
    cases hs with
    | plain hi' _ _ hsucc => rw [hi] at hi'; injection hi' with hi'; subst hi'; rw [hsu] at hsucc; cases hsucc
    | pushRet hi' => rw [hi] at hi'; injection hi' with hi'; subst hi'; simp [frameOp] at hf
    | call hi' hc => rw [hi] at hi'; injection hi' with hi'; subst hi'; simp [frameOp, hc] at hf
    | popRet hi' => rw [hi] at hi'; injection hi' with hi'; subst hi'; simp [frameOp] at hf
    | goSub hi' => rw [hi] at hi'; injection hi' with hi'; subst hi'; simp [frameOp] at hf
    | retNone hi' => rw [hi] at hi'; injection hi' with hi'; subst hi'; simp [frameOp] at hf
    | retLabel hi' => rw [hi] at hi'; injection hi' with hi'; subst hi'; simp [frameOp] at hf
  | strayPushRet hi hn =>
    cases hs with
    | plain hi' hf => rw [hi] at hi'; injection hi' with hi'; subst hi'; simp [frameOp] at hf
    | pushRet hi' hj ha =>
      rw [hi] at hi'; injection hi' with hi'; injection hi' with hi'; subst hi'
      exact hn ⟨ha, _, hj⟩
    | call hi' => rw [hi] at hi'; cases hi'
    | popRet hi' => rw [hi] at hi'; cases hi'
    | goSub hi' => rw [hi] at hi'; cases hi'
    | retNone hi' => rw [hi] at hi'; cases hi'
    | retLabel hi' => rw [hi] at hi'; cases hi'
  | popRetNoCall hi hall =>
    cases hs with
    | plain hi' hf => rw [hi] at hi'; injection hi' with hi'; subst hi'; simp [frameOp] at hf
    | pushRet hi' => rw [hi] at hi'; cases hi'
    | call hi' => rw [hi] at hi'; cases hi'
    | @popRet c fs _ hdrop =>
      obtain ⟨gs, hsplit, _, hck⟩ := dropGosubs_split hdrop
      have := hall c (by rw [hsplit]; simp)
      rw [hck] at this; cases this
    | goSub hi' => rw [hi] at hi'; cases hi'
    | retNone hi' => rw [hi] at hi'; cases hi'
    | retLabel hi' => rw [hi] at hi'; cases hi'
  | retNoGosub hi hall =>
    cases hs with
    | plain hi' hf => rw [hi] at hi'; injection hi' with hi'; subst hi'; simp [frameOp] at hf
    | pushRet hi' => rw [hi] at hi'; cases hi'
    | call hi' => rw [hi] at hi'; cases hi'
    | popRet hi' => rw [hi] at hi'; cases hi'
    | goSub hi' => rw [hi] at hi'; cases hi'
    | retNone _ hfr hk => rw [hall _ _ hfr] at hk; cases hk
    | retLabel _ hfr hk => rw [hall _ _ hfr] at hk; cases hk


/-! ### the executable machine run by the driver is this machine -/

/-- every step of the executable machine (`RbModel.WfMarks.next`, what `wfm.run` executes on the real
instruction list along the pcs the real VM visited) is a step of `MStep` -/
theorem next_sound {code : Code} {s s' : MState} {obs : Nat} (h : next code s obs = .ok s') :
    MStep code s s' := by
  unfold next at h
  cases hi : instrAt code s.pc with
  | none => simp [hi] at h
  | some i =>
    simp only [hi] at h
    cases hf : frameOp code s.pc i with
    | false =>
      simp only [hf, if_true] at h
      cases ha : apply s.h (eff i) with
      | none => simp [ha] at h
      | some h' =>
        simp only [ha] at h
        split at h
        · next hm =>
          injection h with h; subst h
          exact MStep.plain hi hf ha (by simpa using hm)
        · split at h <;> cases h
    | true =>
      simp only [hf] at h
      cases i with
      | pushRet a =>
        simp only [Bool.true_eq_false, if_false] at h
        split at h
        · next t hj =>
          split at h
          · next ha => injection h with h; subst h; exact MStep.pushRet hi hj ha
          · cases h
        · cases h
      | popRet =>
        simp only [Bool.true_eq_false, if_false] at h
        split at h
        · next c fs hd => injection h with h; subst h; exact MStep.popRet hi hd
        · cases h
      | goSub t =>
        cases t with
        | addr a =>
          simp only [Bool.true_eq_false, if_false] at h
          injection h with h; subst h; exact MStep.goSub hi
        | unresolved l => simp at h
      | jump t =>
        cases t with
        | addr a =>
          simp only [Bool.true_eq_false, if_false] at h
          injection h with h; subst h
          exact MStep.call hi (by simpa [frameOp] using hf)
        | unresolved l => simp at h
      | ret t =>
        cases t with
        | none =>
          simp only [Bool.true_eq_false, if_false] at h
          split at h
          · next g fs hfr =>
            split at h
            · next hk => injection h with h; subst h; exact MStep.retNone hi hfr hk
            · cases h
          · cases h
        | some t =>
          cases t with
          | addr a =>
            simp only [Bool.true_eq_false, if_false] at h
            split at h
            · next g fs hfr =>
              split at h
              · next hk => injection h with h; subst h; exact MStep.retLabel hi hfr hk
              · cases h
            · cases h
          | unresolved l => simp at h
      | _ => simp [frameOp] at hf

/-- ... and conversely: given the pc it leads to, a step of `MStep` is the step the executable machine
takes (the machine is deterministic up to the outcome of `JumpIfFalse`) -/
theorem next_complete {code : Code} {s s' : MState} (hs : MStep code s s') : next code s s'.pc = .ok s' := by
  cases hs with
  | plain hi hnf happ hsucc =>
    unfold next
    simp only [hi, hnf, if_true, happ]
    rw [if_pos (by simpa using hsucc)]
  | pushRet hi hj ha => unfold next; simp [hi, hj, ha, frameOp]
  | call hi hc => unfold next; simp [hi, frameOp, hc]
  | popRet hi hd => unfold next; simp [hi, frameOp, hd]
  | goSub hi => unfold next; simp [hi, frameOp]
  | retNone hi hfr hk => unfold next; simp [hi, frameOp, hfr, hk]
  | retLabel hi hfr hk => unfold next; simp [hi, frameOp, hfr, hk]

/-- running the executable machine along a list of pcs stays inside the reachable states -/
theorem run_reach {code : Code} {hinit : H} : ∀ {pcs : List Nat} {s s' : MState}, MReach code hinit s →
    runPcs code s pcs = some s' → MReach code hinit s'
  | [], s, s', hr, h => by
    simp only [runPcs] at h
    injection h with h
    exact h ▸ hr
  | pc :: rest, s, s', hr, h => by
    simp only [runPcs] at h
    split at h
    · next s1 hn => exact run_reach (hr.step (next_sound hn)) h
    · cases h

/-! ### non-vacuity: `PRINT 100 + F%(2)` inside a FOR, `F%` leaving through a GOSUB routine

Main: a FOR body (register frame) evaluating `100 + F(..)` (operand pending on the value stack) calls `F`.
`F`: inside a FOR body and a SELECT CASE block (one register frame, the selector on the value stack) it
issues `GOSUB r`.  The routine `r` has its own FOR and SELECT CASE; in there it either executes
`EXIT FUNCTION` (pc 21–23: the generator pops the routine's own frame and selector, the frame and selector
of `F`'s loop and block stay, and so does the GOSUB address) or `RETURN` (pc 25: nothing popped). -/
def demo3 : Code := #[
  ⟨.pushRegisters, 1, 1⟩,            --  0  FOR K (main)
  ⟨.pushAToValueStack, 2, 7⟩,        --  1  the pending operand 100
  ⟨.beginCollectArguments, 2, 13⟩,   --  2  call protocol of `F`
  ⟨.pushStack, 2, 13⟩,               --  3
  ⟨.pushRet 6, 2, 13⟩,               --  4
  ⟨.jump (.addr 10), 2, 13⟩,         --  5
  ⟨.popStack, 2, 13⟩,                --  6
  ⟨.popValueStackIntoA, 2, 7⟩,       --  7  100 + result
  ⟨.popRegisters, 3, 1⟩,             --  8  NEXT
  ⟨.halt, 4, 1⟩,                     --  9
  ⟨.label ":F", 5, 1⟩,               -- 10  FUNCTION F
  ⟨.pushRegisters, 6, 1⟩,            -- 11  FOR I
  ⟨.pushAToValueStack, 7, 1⟩,        -- 12  SELECT CASE I
  ⟨.goSub (.addr 17), 8, 1⟩,         -- 13  GOSUB r
  ⟨.popValueStackIntoA, 9, 1⟩,       -- 14  END SELECT
  ⟨.popRegisters, 10, 1⟩,            -- 15  NEXT
  ⟨.popRet, 11, 1⟩,                  -- 16  EXIT FUNCTION
  ⟨.label "r", 12, 1⟩,               -- 17  r:
  ⟨.pushRegisters, 13, 1⟩,           -- 18  FOR J
  ⟨.pushAToValueStack, 14, 1⟩,       -- 19  SELECT CASE J
  ⟨.jumpIfFalse (.addr 24), 15, 1⟩,  -- 20  IF N = 2 THEN
  ⟨.popValueStackIntoA, 15, 1⟩,      -- 21    EXIT FUNCTION: selector of the routine's SELECT,
  ⟨.popRegisters, 15, 1⟩,            -- 22      frame of the routine's FOR,
  ⟨.popRet, 15, 1⟩,                  -- 23      PopRet with a GOSUB frame above the call frame
  ⟨.label "x", 15, 1⟩,               -- 24
  ⟨.ret none, 16, 1⟩,                -- 25  RETURN inside the routine's FOR and SELECT
  ⟨.popRet, 17, 1⟩]                  -- 26  END FUNCTION

def demo3Cert : Cert := #[
  some H.zero, some ⟨0, 1, 0, 0, 0⟩, some ⟨1, 1, 0, 0, 0⟩, some ⟨1, 1, 1, 0, 0⟩, some ⟨1, 1, 1, 0, 0⟩,
  some ⟨1, 1, 1, 0, 0⟩, some ⟨1, 1, 1, 0, 0⟩, some ⟨1, 1, 0, 0, 0⟩, some ⟨0, 1, 0, 0, 0⟩, some H.zero,
  some H.zero, some H.zero, some ⟨0, 1, 0, 0, 0⟩, some ⟨1, 1, 0, 0, 0⟩, some ⟨1, 1, 0, 0, 0⟩,
  some ⟨0, 1, 0, 0, 0⟩, some H.zero,
  some H.zero, some H.zero, some ⟨0, 1, 0, 0, 0⟩, some ⟨1, 1, 0, 0, 0⟩, some ⟨1, 1, 0, 0, 0⟩,
  some ⟨0, 1, 0, 0, 0⟩, some H.zero, some ⟨1, 1, 0, 0, 0⟩, some ⟨1, 1, 0, 0, 0⟩, none]

theorem demo3_wf : wfCheckM demo3 [0, 1, 8, 9, 11, 12, 13, 14, 15, 16, 17, 18, 19, 20, 25, 26] demo3Cert = true := by
  decide +kernel

theorem demo3_cert : checkCertM demo3 demo3Cert = true := by decide +kernel
theorem demo3_local : branchesLocal demo3 = true := by decide +kernel
theorem demo3_targets : targetsResolved demo3 = true := by decide +kernel

/-- the inference finds this certificate -/
example : (match inferM demo3 with | .ok c => c == demo3Cert | .error _ => false) = true := by decide +kernel

/-- the old checker refuses the list (the `RETURN` at pc 25 sits at relative depth `⟨1, 1, 0, 0, 0⟩`) -/
example : checkCert demo3 demo3Cert = false := by decide +kernel

/-- the VM's initial heights: one register frame -/
def demo3Init : H := ⟨0, 1, 0, 0, 0⟩

/-- the call frame of `F` (return address 6; one operand, the caller's FOR frame and the argument
state pending) and the GOSUB frame of `r` (issued at pc 13 inside `F`'s FOR and SELECT) -/
def demo3Call : MFrame := ⟨.call, 6, ⟨1, 2, 1, 0, 0⟩, 0, 0, demo3Init⟩
def demo3Gosub : MFrame := ⟨.gosub, 13, ⟨2, 3, 1, 0, 0⟩, 0, 10, ⟨1, 2, 1, 0, 0⟩⟩

/-- the run up to the `EXIT FUNCTION` inside the routine: at the `PopRet` (pc 23) the GOSUB frame lies
above the call frame, and the value / register stacks hold `F`'s selector and FOR frame (2 and 3 entries
where the caller left 1 and 2) -/
theorem demo3_at_exit :
    MReach demo3 demo3Init ⟨23, ⟨2, 3, 1, 0, 0⟩, [demo3Gosub, demo3Call], 17, ⟨2, 3, 1, 0, 0⟩, false⟩ :=
  run_reach (pcs := [1, 2, 3, 4, 5, 10, 11, 12, 13, 17, 18, 19, 20, 21, 22, 23]) MReach.init (by decide +kernel)

/-- ... the `PopRet` there drops the GOSUB frame and cuts both stacks: the caller resumes at pc 6 with the
depths of the `PushRet`, and runs to `Halt` with every stack as at the start -/
theorem demo3_after_exit :
    MReach demo3 demo3Init ⟨6, ⟨1, 2, 1, 0, 0⟩, [], 0, demo3Init, false⟩ ∧
    MReach demo3 demo3Init ⟨9, demo3Init, [], 0, demo3Init, false⟩ :=
  ⟨run_reach (pcs := [6]) demo3_at_exit (by decide +kernel),
   run_reach (pcs := [6, 7, 8, 9]) demo3_at_exit (by decide +kernel)⟩

/-- the other branch: the `RETURN` inside the routine's FOR and SELECT (pc 25, depths `⟨3, 4, 1, 0, 0⟩`) … -/
theorem demo3_at_return :
    MReach demo3 demo3Init ⟨25, ⟨3, 4, 1, 0, 0⟩, [demo3Gosub, demo3Call], 17, ⟨2, 3, 1, 0, 0⟩, false⟩ :=
  run_reach (pcs := [1, 2, 3, 4, 5, 10, 11, 12, 13, 17, 18, 19, 20, 24, 25]) MReach.init (by decide +kernel)

/-- … resumes `F` after the GOSUB (pc 14) with the depths of the `GoSub`; `F` then returns normally -/
theorem demo3_after_return :
    MReach demo3 demo3Init ⟨14, ⟨2, 3, 1, 0, 0⟩, [demo3Call], 10, ⟨1, 2, 1, 0, 0⟩, false⟩ ∧
    MReach demo3 demo3Init ⟨9, demo3Init, [], 0, demo3Init, false⟩ :=
  ⟨run_reach (pcs := [14]) demo3_at_return (by decide +kernel),
   run_reach (pcs := [14, 15, 16, 6, 7, 8, 9]) demo3_at_return (by decide +kernel)⟩

/-- (a) applies at the mismatched `PopRet` (its hypotheses are satisfiable on a state with a GOSUB frame
above the call frame and non-zero cuts), and its conclusion is the state computed above -/
example : ∀ s', MStep demo3 ⟨23, ⟨2, 3, 1, 0, 0⟩, [demo3Gosub, demo3Call], 17, ⟨2, 3, 1, 0, 0⟩, false⟩ s' →
    s'.pc = 6 ∧ s'.h = ⟨1, 2, 1, 0, 0⟩ ∧ s'.frames = [] := by
  intro s' hs
  obtain ⟨gs, c, hsplit, hgs, hck, hpc, _, hh, _⟩ :=
    return_restores_caller_always demo3_cert demo3_local demo3_targets demo3_at_exit hs rfl
  have hd : dropGosubs [demo3Gosub, demo3Call] = c :: s'.frames := by
    have : ([demo3Gosub, demo3Call] : List MFrame) = gs ++ c :: s'.frames := hsplit
    rw [this]; exact dropGosubs_append hgs hck
  have hd' : dropGosubs [demo3Gosub, demo3Call] = [demo3Call] := by decide +kernel
  rw [hd'] at hd
  injection hd with h1 h2
  subst h1
  exact ⟨hpc, hh, h2.symm⟩

/-- (b) applies at the `RETURN` inside the routine's FOR and SELECT -/
example : ∀ s', MStep demo3 ⟨25, ⟨3, 4, 1, 0, 0⟩, [demo3Gosub, demo3Call], 17, ⟨2, 3, 1, 0, 0⟩, false⟩ s' →
    s'.pc = 14 ∧ s'.h = ⟨2, 3, 1, 0, 0⟩ ∧ s'.frames = [demo3Call] := by
  intro s' hs
  obtain ⟨g, hfr, _, _, _, hh, hnone, _⟩ :=
    gosub_return_restores_always demo3_cert demo3_local demo3_targets demo3_at_return hs (t := none) rfl
  have hfr' : ([demo3Gosub, demo3Call] : List MFrame) = g :: s'.frames := hfr
  injection hfr' with h1 h2
  subst h1
  exact ⟨(hnone rfl).1, hh, h2.symm⟩

example : ∀ s, MReach demo3 demo3Init s → ∀ i, instrAt demo3 s.pc = some i → ∃ h', apply s.h (eff i) = some h' :=
  fun _ hr _ hi => global_no_underflow demo3_cert demo3_local demo3_targets hr hi

example : ∀ s, MReach demo3 demo3Init s → (∃ s', MStep demo3 s s') ∨ Blocked demo3 s :=
  fun _ hr => progress_or_blocked demo3_cert demo3_local demo3_targets hr

/-- the mismatched `PopRet` lands in the state the caller reaches by stepping over the call -/
example : ∀ s', MStep demo3 ⟨23, ⟨2, 3, 1, 0, 0⟩, [demo3Gosub, demo3Call], 17, ⟨2, 3, 1, 0, 0⟩, false⟩ s' →
    ∃ f : MFrame, s'.pc = f.retPc ∧ s'.h = f.marks ∧
      ∃ callPc, Reach demo3 f.root f.h0 callPc f.marks ∧ StepTo demo3 callPc f.marks f.retPc f.marks := by
  intro s' hs
  obtain ⟨f, _, h1, h2, _, _, h3⟩ :=
    return_is_stepover demo3_cert demo3_local demo3_targets demo3_at_exit hs (Or.inl rfl)
  exact ⟨f, h1, h2, h3⟩

/-- the state at `Halt` is blocked (end of the run) -/
example : Blocked demo3 ⟨9, demo3Init, [], 0, demo3Init, false⟩ := Blocked.noSucc (i := .halt) rfl rfl rfl

/-- `RETURN label` from a GOSUB issued inside a FOR body — `retLabelInexact` of `C15Inter` — is a step
here: `L: FOR …: GOSUB R … R: RETURN L` continues at `L` with the FOR's frame still on the register stack
(that is what the VM does: the mark of the GOSUB includes it) -/
def demo4 : Code := #[
  ⟨.label "L", 1, 1⟩,                --  0  L:
  ⟨.pushRegisters, 2, 1⟩,            --  1  FOR
  ⟨.goSub (.addr 5), 3, 1⟩,          --  2  GOSUB R
  ⟨.popRegisters, 4, 1⟩,             --  3  NEXT
  ⟨.halt, 5, 1⟩,                     --  4
  ⟨.label "R", 6, 1⟩,                --  5  R:
  ⟨.ret (some (.addr 0)), 6, 4⟩,     --  6  RETURN L
  ⟨.halt, 7, 1⟩]                     --  7

def demo4Cert : Cert := #[some H.zero, some H.zero, some ⟨0, 1, 0, 0, 0⟩, some ⟨0, 1, 0, 0, 0⟩, some H.zero,
  some H.zero, some H.zero, none]

theorem demo4_cert : checkCertM demo4 demo4Cert = true := by decide +kernel

/-- after one round the run is back at `L`, one register frame higher, in a new activation -/
example : MReach demo4 demo3Init ⟨0, ⟨0, 2, 0, 0, 0⟩, [], 0, ⟨0, 2, 0, 0, 0⟩, false⟩ :=
  run_reach (pcs := [1, 2, 5, 6, 0]) MReach.init (by decide +kernel)

end RbThm.C15.Marks
