import Thm.ErrLShape
/-!
Error layer (property C05), the reference semantics `ErrL.Ref` alone: **a program that keeps the jump discipline never answers
`illFormed`, and its outermost run answers neither `ret` nor `jump` nor `notHere` nor `resumed`** (the four answers
`ErrL.Ref.run` folds into `illFormed`).  Port of `Thm/JmpLNoIllRef.lean`; what is new:

* a `jump L` can come out of any resume unit (the handler ended with `RESUME L`): `Disc` asks every `RESUME label`, every
  `ON ERROR GOTO` label and every GOSUB label to be a label of the program recorded at depth 0 / 0; the shape theorem
  `ErrLSim.jump_shape` then bounds the depths of every jump that leaves a statement (`jump_le`) and shows that it never names
  a label of the statement (`jump_not_label`);
* the label a handler is entered at lives in the *state* (`mode = goto L`, written by `ON ERROR GOTO L`): the invariant carries
  `MI` ("the handler label of the state is a label of the program at depth 0 / 0") from the state before to the state after;
* `run` also folds `ret` and `resumed` into `illFormed`: the invariant shows that with no GOSUB pending (`gd = 0`) no `ret` is
  answered (a RETURN is then a unit that fails with error 3), and that from a state outside a handler (`inH = false`) no
  `resumed` is answered and every answer after which execution goes on leaves a state outside a handler;
* `notHere` is answered only by statements that are not entered (the fact `JmpLRef.exec_enters_ne_notHere`, here part of the
  invariant).
-/
namespace RbThm.ErrLNoIll
set_option linter.unusedVariables false
set_option linter.unusedSimpArgs false
set_option linter.unusedSectionVars false
open RbModel RbModel.Num RbModel.ErrL
open RbModel.Ast (Pos PrintItem CaseExpr)
open RbModel.Ref (St)
open RbModel.ErrL.Ref
open RbThm.ErrLSim (shGotosS shGotosC shResS shResC shShallow sh_shallow_sub sh_hasLabel_iff sh_hasLabelC_iff jump_shape
  shape_all shGoodL sh_res_of_out)

/-! ### the jump discipline on the lean syntax -/

mutual
/-- the statement keeps the jump discipline at FOR depth `d` and SELECT depth `e` -/
def Disc (fd sd : Nat → Nat) (P : Stmt) : Nat → Nat → Stmt → Prop
  | d, e, .seq a b => Disc fd sd P d e a ∧ Disc fd sd P d e b
  | d, e, .ifs _ thn els _ => Disc fd sd P d e thn ∧ Disc fd sd P d e els
  | d, e, .select _ cases _ => DiscC fd sd P d (e + 1) cases ∧ ∀ L ∈ shGotosC cases, L ∈ cases.labels ∨ sd L ≤ e
  | d, e, .forLoop _ _ _ _ _ body _ => Disc fd sd P (d + 1) e body ∧ ∀ L ∈ shGotosS body, L ∈ body.labels ∨ fd L ≤ d
  | d, e, .while _ body _ => Disc fd sd P d e body
  | d, e, .doLoop _ _ _ body _ => Disc fd sd P d e body
  | d, e, .label L => fd L = d ∧ sd L = e
  | d, e, .goto L => fd L ≤ d ∧ sd L ≤ e
  | _, _, .gosub L => fd L = 0 ∧ sd L = 0 ∧ L ∈ P.labels
  | _, _, .onErrorGoto L => fd L = 0 ∧ sd L = 0 ∧ L ∈ P.labels
  | _, _, .resumeLabel L _ => fd L = 0 ∧ sd L = 0 ∧ L ∈ P.labels
  | _, _, .skip => True
  | _, _, .assign _ _ _ _ => True
  | _, _, .print _ _ => True
  | _, _, .read _ _ => True
  | _, _, .end_ _ => True
  | _, _, .ret _ => True
  | _, _, .onErrorResumeNext => True
  | _, _, .onErrorGoto0 => True
  | _, _, .resume _ => True
  | _, _, .resumeNext _ => True
def DiscC (fd sd : Nat → Nat) (P : Stmt) : Nat → Nat → Cases → Prop
  | _, _, .nil => True
  | d, e, .else_ body => Disc fd sd P d e body
  | d, e, .case _ body rest => Disc fd sd P d e body ∧ DiscC fd sd P d e rest
end

section
variable {fd sd : Nat → Nat} {P : Stmt}

mutual
/-- a label inside a statement is recorded at least as deep as the statement -/
theorem label_ge : ∀ (s : Stmt) (d e L : Nat), Disc fd sd P d e s → L ∈ s.labels → d ≤ fd L ∧ e ≤ sd L
  | .seq a b, d, e, L, h, hl => by
    simp only [Stmt.labels, List.mem_append] at hl
    rcases hl with hl | hl
    · exact label_ge a d e L h.1 hl
    · exact label_ge b d e L h.2 hl
  | .ifs _ thn els _, d, e, L, h, hl => by
    simp only [Stmt.labels, List.mem_append] at hl
    rcases hl with hl | hl
    · exact label_ge thn d e L h.1 hl
    · exact label_ge els d e L h.2 hl
  | .select _ cases _, d, e, L, h, hl => by
    simp only [Stmt.labels] at hl
    have := label_geC cases d (e + 1) L h.1 hl
    omega
  | .forLoop _ _ _ _ _ body _, d, e, L, h, hl => by
    simp only [Stmt.labels] at hl
    have := label_ge body (d + 1) e L h.1 hl
    omega
  | .while _ body _, d, e, L, h, hl => by
    simp only [Stmt.labels] at hl
    exact label_ge body d e L h hl
  | .doLoop _ _ _ body _, d, e, L, h, hl => by
    simp only [Stmt.labels] at hl
    exact label_ge body d e L h hl
  | .label L', d, e, L, h, hl => by
    simp only [Stmt.labels, List.mem_singleton] at hl
    subst hl
    have h' : fd L = d ∧ sd L = e := h
    omega
  | .goto .., _, _, _, _, hl => by simp [Stmt.labels] at hl
  | .gosub .., _, _, _, _, hl => by simp [Stmt.labels] at hl
  | .skip, _, _, _, _, hl => by simp [Stmt.labels] at hl
  | .assign .., _, _, _, _, hl => by simp [Stmt.labels] at hl
  | .print .., _, _, _, _, hl => by simp [Stmt.labels] at hl
  | .read .., _, _, _, _, hl => by simp [Stmt.labels] at hl
  | .end_ .., _, _, _, _, hl => by simp [Stmt.labels] at hl
  | .ret .., _, _, _, _, hl => by simp [Stmt.labels] at hl
  | .onErrorGoto .., _, _, _, _, hl => by simp [Stmt.labels] at hl
  | .onErrorResumeNext, _, _, _, _, hl => by simp [Stmt.labels] at hl
  | .onErrorGoto0, _, _, _, _, hl => by simp [Stmt.labels] at hl
  | .resume .., _, _, _, _, hl => by simp [Stmt.labels] at hl
  | .resumeNext .., _, _, _, _, hl => by simp [Stmt.labels] at hl
  | .resumeLabel .., _, _, _, _, hl => by simp [Stmt.labels] at hl
theorem label_geC : ∀ (cs : Cases) (d e L : Nat), DiscC fd sd P d e cs → L ∈ cs.labels → d ≤ fd L ∧ e ≤ sd L
  | .nil, _, _, _, _, hl => by simp [Cases.labels] at hl
  | .else_ body, d, e, L, h, hl => by
    simp only [Cases.labels] at hl
    exact label_ge body d e L h hl
  | .case _ body rest, d, e, L, h, hl => by
    simp only [Cases.labels, List.mem_append] at hl
    rcases hl with hl | hl
    · exact label_ge body d e L h.1 hl
    · exact label_geC rest d e L h.2 hl
end

mutual
/-- a GOTO inside a statement whose label is outside it names a label that is not deeper than the statement -/
theorem goto_le : ∀ (s : Stmt) (d e L : Nat), Disc fd sd P d e s → L ∈ shGotosS s → L ∉ s.labels → fd L ≤ d ∧ sd L ≤ e
  | .seq a b, d, e, L, h, hg, hl => by
    simp only [shGotosS, List.mem_append] at hg
    simp only [Stmt.labels, List.mem_append, not_or] at hl
    rcases hg with hg | hg
    · exact goto_le a d e L h.1 hg hl.1
    · exact goto_le b d e L h.2 hg hl.2
  | .ifs _ thn els _, d, e, L, h, hg, hl => by
    simp only [shGotosS, List.mem_append] at hg
    simp only [Stmt.labels, List.mem_append, not_or] at hl
    rcases hg with hg | hg
    · exact goto_le thn d e L h.1 hg hl.1
    · exact goto_le els d e L h.2 hg hl.2
  | .select _ cases _, d, e, L, h, hg, hl => by
    simp only [shGotosS] at hg
    simp only [Stmt.labels] at hl
    have h1 := goto_leC cases d (e + 1) L h.1 hg hl
    rcases h.2 L hg with h2 | h2
    · exact absurd h2 hl
    · exact ⟨h1.1, h2⟩
  | .forLoop _ _ _ _ _ body _, d, e, L, h, hg, hl => by
    simp only [shGotosS] at hg
    simp only [Stmt.labels] at hl
    have h1 := goto_le body (d + 1) e L h.1 hg hl
    rcases h.2 L hg with h2 | h2
    · exact absurd h2 hl
    · exact ⟨h2, h1.2⟩
  | .while _ body _, d, e, L, h, hg, hl => by
    simp only [shGotosS] at hg
    simp only [Stmt.labels] at hl
    exact goto_le body d e L h hg hl
  | .doLoop _ _ _ body _, d, e, L, h, hg, hl => by
    simp only [shGotosS] at hg
    simp only [Stmt.labels] at hl
    exact goto_le body d e L h hg hl
  | .goto L', d, e, L, h, hg, _ => by
    simp only [shGotosS, List.mem_singleton] at hg
    subst hg
    exact h
  | .label .., _, _, _, _, hg, _ => by simp [shGotosS] at hg
  | .gosub .., _, _, _, _, hg, _ => by simp [shGotosS] at hg
  | .skip, _, _, _, _, hg, _ => by simp [shGotosS] at hg
  | .assign .., _, _, _, _, hg, _ => by simp [shGotosS] at hg
  | .print .., _, _, _, _, hg, _ => by simp [shGotosS] at hg
  | .read .., _, _, _, _, hg, _ => by simp [shGotosS] at hg
  | .end_ .., _, _, _, _, hg, _ => by simp [shGotosS] at hg
  | .ret .., _, _, _, _, hg, _ => by simp [shGotosS] at hg
  | .onErrorGoto .., _, _, _, _, hg, _ => by simp [shGotosS] at hg
  | .onErrorResumeNext, _, _, _, _, hg, _ => by simp [shGotosS] at hg
  | .onErrorGoto0, _, _, _, _, hg, _ => by simp [shGotosS] at hg
  | .resume .., _, _, _, _, hg, _ => by simp [shGotosS] at hg
  | .resumeNext .., _, _, _, _, hg, _ => by simp [shGotosS] at hg
  | .resumeLabel .., _, _, _, _, hg, _ => by simp [shGotosS] at hg
theorem goto_leC : ∀ (cs : Cases) (d e L : Nat), DiscC fd sd P d e cs → L ∈ shGotosC cs → L ∉ cs.labels →
    fd L ≤ d ∧ sd L ≤ e
  | .nil, _, _, _, _, hg, _ => by simp [shGotosC] at hg
  | .else_ body, d, e, L, h, hg, hl => by
    simp only [shGotosC] at hg
    simp only [Cases.labels] at hl
    exact goto_le body d e L h hg hl
  | .case _ body rest, d, e, L, h, hg, hl => by
    simp only [shGotosC, List.mem_append] at hg
    simp only [Cases.labels, List.mem_append, not_or] at hl
    rcases hg with hg | hg
    · exact goto_le body d e L h.1 hg hl.1
    · exact goto_leC rest d e L h.2 hg hl.2
end

mutual
/-- a `RESUME label` inside a disciplined statement names a label of the program at depth 0 / 0 -/
theorem res_zero : ∀ (s : Stmt) (d e L : Nat), Disc fd sd P d e s → L ∈ shResS s → fd L = 0 ∧ sd L = 0 ∧ L ∈ P.labels
  | .seq a b, d, e, L, h, hr => by
    simp only [shResS, List.mem_append] at hr
    rcases hr with hr | hr
    · exact res_zero a d e L h.1 hr
    · exact res_zero b d e L h.2 hr
  | .ifs _ thn els _, d, e, L, h, hr => by
    simp only [shResS, List.mem_append] at hr
    rcases hr with hr | hr
    · exact res_zero thn d e L h.1 hr
    · exact res_zero els d e L h.2 hr
  | .select _ cases _, d, e, L, h, hr => by
    simp only [shResS] at hr
    exact res_zeroC cases d (e + 1) L h.1 hr
  | .forLoop _ _ _ _ _ body _, d, e, L, h, hr => by
    simp only [shResS] at hr
    exact res_zero body (d + 1) e L h.1 hr
  | .while _ body _, d, e, L, h, hr => by
    simp only [shResS] at hr
    exact res_zero body d e L h hr
  | .doLoop _ _ _ body _, d, e, L, h, hr => by
    simp only [shResS] at hr
    exact res_zero body d e L h hr
  | .resumeLabel L' _, d, e, L, h, hr => by
    simp only [shResS, List.mem_singleton] at hr
    subst hr
    exact h
  | .label .., _, _, _, _, hr => by simp [shResS] at hr
  | .goto .., _, _, _, _, hr => by simp [shResS] at hr
  | .gosub .., _, _, _, _, hr => by simp [shResS] at hr
  | .skip, _, _, _, _, hr => by simp [shResS] at hr
  | .assign .., _, _, _, _, hr => by simp [shResS] at hr
  | .print .., _, _, _, _, hr => by simp [shResS] at hr
  | .read .., _, _, _, _, hr => by simp [shResS] at hr
  | .end_ .., _, _, _, _, hr => by simp [shResS] at hr
  | .ret .., _, _, _, _, hr => by simp [shResS] at hr
  | .onErrorGoto .., _, _, _, _, hr => by simp [shResS] at hr
  | .onErrorResumeNext, _, _, _, _, hr => by simp [shResS] at hr
  | .onErrorGoto0, _, _, _, _, hr => by simp [shResS] at hr
  | .resume .., _, _, _, _, hr => by simp [shResS] at hr
  | .resumeNext .., _, _, _, _, hr => by simp [shResS] at hr
theorem res_zeroC : ∀ (cs : Cases) (d e L : Nat), DiscC fd sd P d e cs → L ∈ shResC cs →
    fd L = 0 ∧ sd L = 0 ∧ L ∈ P.labels
  | .nil, _, _, _, _, hr => by simp [shResC] at hr
  | .else_ body, d, e, L, h, hr => by
    simp only [shResC] at hr
    exact res_zero body d e L h hr
  | .case _ body rest, d, e, L, h, hr => by
    simp only [shResC, List.mem_append] at hr
    rcases hr with hr | hr
    · exact res_zero body d e L h.1 hr
    · exact res_zeroC rest d e L h.2 hr
end

/-- a label of a statement that is recorded no deeper than the statement is not inside one of its FOR bodies or SELECT
blocks -/
theorem shallow_of : ∀ (s : Stmt) (d e L : Nat), Disc fd sd P d e s → L ∈ s.labels → fd L ≤ d → sd L ≤ e → L ∈ shShallow s
  | .seq a b, d, e, L, h, hl, h1, h2 => by
    simp only [Stmt.labels, List.mem_append] at hl
    simp only [shShallow, List.mem_append]
    rcases hl with hl | hl
    · exact .inl (shallow_of a d e L h.1 hl h1 h2)
    · exact .inr (shallow_of b d e L h.2 hl h1 h2)
  | .ifs _ thn els _, d, e, L, h, hl, h1, h2 => by
    simp only [Stmt.labels, List.mem_append] at hl
    simp only [shShallow, List.mem_append]
    rcases hl with hl | hl
    · exact .inl (shallow_of thn d e L h.1 hl h1 h2)
    · exact .inr (shallow_of els d e L h.2 hl h1 h2)
  | .select _ cases _, d, e, L, h, hl, h1, h2 => by
    simp only [Stmt.labels] at hl
    have := label_geC cases d (e + 1) L h.1 hl
    omega
  | .forLoop _ _ _ _ _ body _, d, e, L, h, hl, h1, h2 => by
    simp only [Stmt.labels] at hl
    have := label_ge body (d + 1) e L h.1 hl
    omega
  | .while _ body _, d, e, L, h, hl, h1, h2 => by
    simp only [Stmt.labels] at hl
    simp only [shShallow]
    exact shallow_of body d e L h hl h1 h2
  | .doLoop _ _ _ body _, d, e, L, h, hl, h1, h2 => by
    simp only [Stmt.labels] at hl
    simp only [shShallow]
    exact shallow_of body d e L h hl h1 h2
  | .label L', d, e, L, h, hl, _, _ => by simpa [Stmt.labels, shShallow] using hl
  | .goto .., _, _, _, _, hl, _, _ => by simp [Stmt.labels] at hl
  | .gosub .., _, _, _, _, hl, _, _ => by simp [Stmt.labels] at hl
  | .skip, _, _, _, _, hl, _, _ => by simp [Stmt.labels] at hl
  | .assign .., _, _, _, _, hl, _, _ => by simp [Stmt.labels] at hl
  | .print .., _, _, _, _, hl, _, _ => by simp [Stmt.labels] at hl
  | .read .., _, _, _, _, hl, _, _ => by simp [Stmt.labels] at hl
  | .end_ .., _, _, _, _, hl, _, _ => by simp [Stmt.labels] at hl
  | .ret .., _, _, _, _, hl, _, _ => by simp [Stmt.labels] at hl
  | .onErrorGoto .., _, _, _, _, hl, _, _ => by simp [Stmt.labels] at hl
  | .onErrorResumeNext, _, _, _, _, hl, _, _ => by simp [Stmt.labels] at hl
  | .onErrorGoto0, _, _, _, _, hl, _, _ => by simp [Stmt.labels] at hl
  | .resume .., _, _, _, _, hl, _, _ => by simp [Stmt.labels] at hl
  | .resumeNext .., _, _, _, _, hl, _, _ => by simp [Stmt.labels] at hl
  | .resumeLabel .., _, _, _, _, hl, _, _ => by simp [Stmt.labels] at hl

/-- **the label of a jump that leaves a statement is not deeper than the statement** (a GOTO by the discipline, a
`RESUME label` because it names a label at depth 0 / 0) -/
theorem jump_le (hP : Disc fd sd P 0 0 P) {n gd : Nat} {s : Stmt} {m : Mode} {st st' : ESt} {L d e : Nat}
    (hd : Disc fd sd P d e s) (h : exec n P gd s m st = (st', .jump L)) : fd L ≤ d ∧ sd L ≤ e := by
  rcases jump_shape n P gd s m st st' L h with ⟨hg, hl⟩ | ⟨hr, _⟩
  · exact goto_le s d e L hd hg hl
  · have := res_zero P 0 0 L hP hr
    omega

/-- **a jump that leaves a statement never names one of its labels** -/
theorem jump_not_label (hP : Disc fd sd P 0 0 P) {n gd : Nat} {s : Stmt} {m : Mode} {st st' : ESt} {L d e : Nat}
    (hd : Disc fd sd P d e s) (h : exec n P gd s m st = (st', .jump L)) : L ∉ s.labels := by
  intro hl
  have hle := jump_le hP hd h
  rcases jump_shape n P gd s m st st' L h with ⟨_, hn⟩ | ⟨_, hn⟩
  · exact hn hl
  · exact hn (shallow_of s d e L hd hl hle.1 hle.2)

/-- no jump leaves the whole program -/
theorem top_no_jump (hP : Disc fd sd P 0 0 P) (hZ : ∀ L, fd L = 0 → L ∈ P.labels) {n gd : Nat} {m : Mode} {st st' : ESt}
    {L : Nat} (h : exec n P gd P m st = (st', .jump L)) : False := by
  have hle := jump_le hP hP h
  exact jump_not_label hP hP h (hZ L (by omega))

end

/-! ### what a function of the mutual block answers, relative to the state it started in -/

/-- the handler label of the state is a label of the program at depth 0 / 0 -/
def MI (fd sd : Nat → Nat) (P : Stmt) (m : HMode) : Prop := ∀ L, m = .goto L → fd L = 0 ∧ sd L = 0 ∧ L ∈ P.labels

/-- the answers after which execution goes on -/
def cont : Outcome → Bool
  | .normal => true
  | .jump _ => true
  | .ret _ => true
  | _ => false

/-- the mode a statement at depths `d` / `e` may be executed in -/
def ModeOk (fd sd : Nat → Nat) (d e : Nat) : Mode → Prop
  | .run => True
  | .seek L => fd L = d ∧ sd L = e

/-- `gd`: the number of GOSUBs pending; `ent`: the statement is entered in its mode; `s`: the state before -/
structure Post (fd sd : Nat → Nat) (P : Stmt) (gd : Nat) (ent : Bool) (s : ESt) (r : ESt × Outcome) : Prop where
  ill : r.2 ≠ .illFormed
  mi : MI fd sd P r.1.mode
  ret : gd = 0 → ∀ p, r.2 ≠ .ret p
  res : s.inH = false → ∀ k, r.2 ≠ .resumed k
  inh : s.inH = false → cont r.2 = true → r.1.inH = false
  rs : ∀ k, r.2 = .resumed k → r.1.inH = false
  nh : ent = true → r.2 ≠ .notHere

/-- the answer of `raise` as an outcome: RESUME and RESUME NEXT let execution go on -/
def ocD : ESt × Disp → ESt × Outcome
  | (s, .again) => (s, .normal)
  | (s, .next) => (s, .normal)
  | (s, .out o) => (s, o)

/-- the answer of `condUnit` as an outcome -/
def ocC : ESt × Dec → ESt × Outcome
  | (s, .go _) => (s, .normal)
  | (s, .again) => (s, .normal)
  | (s, .out o) => (s, o)

section
variable {fd sd : Nat → Nat} {P : Stmt}

theorem Post.trans {gd : Nat} {e1 e2 : Bool} {s : ESt} {r r' : ESt × Outcome} (h1 : Post fd sd P gd e1 s r)
    (hc : cont r.2 = true) (h2 : Post fd sd P gd e2 r.1 r') : Post fd sd P gd e2 s r' :=
  ⟨h2.ill, h2.mi, h2.ret, fun hs => h2.res (h1.inh hs hc), fun hs => h2.inh (h1.inh hs hc), h2.rs, h2.nh⟩

theorem Post.ent {gd : Nat} {e1 e2 : Bool} {s : ESt} {r : ESt × Outcome} (h : Post fd sd P gd e1 s r)
    (he : e2 = true → e1 = true) : Post fd sd P gd e2 s r :=
  ⟨h.ill, h.mi, h.ret, h.res, h.inh, h.rs, fun h2 => h.nh (he h2)⟩

theorem Post.of_inH {gd : Nat} {e1 : Bool} {s s0 : ESt} {r : ESt × Outcome} (h : Post fd sd P gd e1 s r)
    (hs : s0.inH = false → s.inH = false) : Post fd sd P gd e1 s0 r :=
  ⟨h.ill, h.mi, h.ret, fun h0 => h.res (hs h0), fun h0 => h.inh (hs h0), h.rs, h.nh⟩

theorem post_lit {gd : Nat} {ent : Bool} {s s' : ESt} {o : Outcome} (hmi : MI fd sd P s'.mode)
    (hinh : s.inH = false → cont o = true → s'.inH = false) (h1 : o ≠ .illFormed) (h2 : ∀ p, o ≠ .ret p)
    (h3 : ∀ k, o ≠ .resumed k) (h4 : ent = true → o ≠ .notHere) : Post fd sd P gd ent s (s', o) :=
  ⟨h1, hmi, fun _ => h2, fun _ => h3, hinh, fun k hk => absurd hk (h3 k), h4⟩

/-- `match r with | (s', .normal) => k s' | r => r` -/
theorem post_then {gd : Nat} {e1 : Bool} {s : ESt} (r : ESt × Outcome) (k : ESt → ESt × Outcome)
    (hr : Post fd sd P gd e1 s r) (hk : ∀ s', MI fd sd P s'.mode → Post fd sd P gd true s' (k s')) :
    Post fd sd P gd e1 s (match (generalizing := false) r with
       | (s', .normal) => k s'
       | r => r) := by
  obtain ⟨s1, o⟩ := r
  cases o with
  | normal => exact (hr.trans rfl (hk s1 hr.mi)).ent (fun _ => rfl)
  | _ => exact hr

/-- the rule every construct applies to a jump out of one of its parts -/
theorem post_catch {gd : Nat} {e1 : Bool} {s : ESt} (hl : Nat → Bool) (r : ESt × Outcome) (hr : Post fd sd P gd e1 s r)
    (k : Nat → ESt → ESt × Outcome)
    (hk : ∀ L s', r = (s', .jump L) → hl L = true → MI fd sd P s'.mode → Post fd sd P gd true s' (k L s')) :
    Post fd sd P gd e1 s (match (generalizing := false) r with
       | (s', .jump L) => if hl L = true then k L s' else (s', .jump L)
       | r => r) := by
  obtain ⟨s1, o⟩ := r
  cases o with
  | jump L =>
    simp only
    split
    · rename_i h
      exact (hr.trans rfl (hk L s1 rfl h hr.mi)).ent (fun _ => rfl)
    · exact hr
  | _ => exact hr

/-- `match r with | (s', .normal) => k1 s' | (s', .jump L) => if inside then restart else pass on | r => r` -/
theorem post_loop {gd : Nat} {e1 : Bool} {s : ESt} (hl : Nat → Bool) (r : ESt × Outcome) (hr : Post fd sd P gd e1 s r)
    (k1 : ESt → ESt × Outcome) (hk1 : ∀ s', MI fd sd P s'.mode → Post fd sd P gd true s' (k1 s'))
    (k : Nat → ESt → ESt × Outcome)
    (hk : ∀ L s', r = (s', .jump L) → hl L = true → MI fd sd P s'.mode → Post fd sd P gd true s' (k L s')) :
    Post fd sd P gd e1 s (match (generalizing := false) r with
       | (s', .normal) => k1 s'
       | (s', .jump L) => if hl L = true then k L s' else (s', .jump L)
       | r => r) := by
  obtain ⟨s1, o⟩ := r
  cases o with
  | normal => exact (hr.trans rfl (hk1 s1 hr.mi)).ent (fun _ => rfl)
  | jump L =>
    simp only
    split
    · rename_i h
      exact (hr.trans rfl (hk L s1 rfl h hr.mi)).ent (fun _ => rfl)
    · exact hr
  | _ => exact hr

/-- a resume unit: RESUME runs it again, RESUME NEXT continues behind it, everything else is passed on -/
theorem post_unit {gd : Nat} {ent : Bool} {s : ESt} (r : ESt × Disp) (hr : Post fd sd P gd true s (ocD r))
    (again next : ESt → ESt × Outcome) (ha : ∀ s', MI fd sd P s'.mode → Post fd sd P gd true s' (again s'))
    (hn : ∀ s', MI fd sd P s'.mode → Post fd sd P gd true s' (next s')) :
    Post fd sd P gd ent s (match (generalizing := false) r with
      | (s', .again) => again s'
      | (s', .next) => next s'
      | (s', .out o) => (s', o)) := by
  obtain ⟨s1, d⟩ := r
  cases d with
  | again => exact (hr.trans rfl (ha s1 hr.mi)).ent (fun _ => rfl)
  | next => exact (hr.trans rfl (hn s1 hr.mi)).ent (fun _ => rfl)
  | out o => exact hr.ent (fun _ => rfl)

/-- a jump answered by `raise` names a label at depth 0 / 0 -/
theorem raise_jump_zero (hP : Disc fd sd P 0 0 P) {n gd c : Nat} {p : Pos} {st s' : ESt} {L : Nat}
    (h : Ref.raise n P gd c p st = (s', .out (.jump L))) : fd L = 0 ∧ sd L = 0 := by
  have := (shape_all P n).hRaise gd c p st (.jump L) (by rw [h])
  have := res_zero P 0 0 L hP (sh_res_of_out this)
  exact ⟨this.1, this.2.1⟩

/-- a jump answered by `condUnit` names a label at depth 0 / 0 -/
theorem cond_jump_zero (hP : Disc fd sd P 0 0 P) {n gd : Nat} {c : Ast.Expr} {b : Bool} {st s' : ESt} {L : Nat}
    (h : condUnit n P gd c b st = (s', .out (.jump L))) : fd L = 0 ∧ sd L = 0 := by
  have := (shape_all P n).hCond gd c b st (.jump L) (by rw [h])
  have := res_zero P 0 0 L hP (sh_res_of_out this)
  exact ⟨this.1, this.2.1⟩

theorem enters_seq_right {m : Mode} {a b : Stmt} (h : m.enters (.seq a b) = true) (ha : ¬ m.enters a = true) :
    m.enters b = true := by
  cases m with
  | run => rfl
  | seek L =>
    simp only [Mode.enters, Stmt.hasLabel, Stmt.labels, List.contains_append, Bool.or_eq_true] at h ha ⊢
    rcases h with h | h
    · exact absurd h ha
    · exact h

theorem enters_ifs_right {L : Nat} {c : Ast.Expr} {a b : Stmt} {p : Pos} (h : (Mode.seek L).enters (.ifs c a b p) = true)
    (ha : ¬ a.hasLabel L = true) : (Mode.seek L).enters b = true := by
  simp only [Mode.enters, Stmt.hasLabel, Stmt.labels, List.contains_append, Bool.or_eq_true] at h ha ⊢
  rcases h with h | h
  · exact absurd h ha
  · exact h

end

/-! ### jumps out of the blocks of a SELECT -/

section
variable {fd sd : Nat → Nat} {P : Stmt}

/-- a jump that comes out of the blocks of a SELECT in run mode left the block it was executed in, or is a `RESUME label` -/
theorem execCases_jump_le (hP : Disc fd sd P 0 0 P) : ∀ (n : Nat) (cs : Cases) (gd : Nat) (p : Pos) (v : Val) (st st' : ESt)
    (L d e : Nat), DiscC fd sd P d e cs → execCases n P gd p v cs st = (st', .jump L) → fd L ≤ d ∧ sd L ≤ e
  | 0, _, _, _, _, _, _, _, _, _, _, h => by simp [execCases] at h
  | _ + 1, .nil, _, _, _, _, _, _, _, _, _, h => by simp [execCases] at h
  | n + 1, .else_ body, _, _, _, _, _, _, _, _, hd, h => by
    simp only [execCases] at h
    exact jump_le hP hd h
  | n + 1, .case conds body rest, gd, p, v, st, st', L, d, e, hd, h => by
    have hd' : Disc fd sd P d e body ∧ DiscC fd sd P d e rest := hd
    simp only [execCases] at h
    split at h
    · exact jump_le hP hd'.1 h
    · exact execCases_jump_le hP n rest gd p v st st' L d e hd'.2 h
    · simp at h
    · generalize hr : Ref.raise n P gd _ _ st = r at h
      obtain ⟨s1, dd⟩ := r
      cases dd with
      | again => exact execCases_jump_le hP n (.case conds body rest) gd p v s1 st' L d e hd h
      | next => exact jump_le hP hd'.1 h
      | out o =>
        simp only [Prod.mk.injEq] at h
        obtain ⟨_, rfl⟩ := h
        have := raise_jump_zero hP hr
        omega

/-- the same for a block entered at a label -/
theorem seekCases_jump_le (hP : Disc fd sd P 0 0 P) : ∀ (cs : Cases) (n : Nat) (gd : Nat) (L0 : Nat) (st st' : ESt)
    (L d e : Nat), DiscC fd sd P d e cs → seekCases n P gd cs L0 st = (st', .jump L) → fd L ≤ d ∧ sd L ≤ e
  | _, 0, _, _, _, _, _, _, _, _, h => by simp [seekCases] at h
  | .nil, _ + 1, _, _, _, _, _, _, _, _, h => by simp [seekCases] at h
  | .else_ body, n + 1, _, _, _, _, _, _, _, hd, h => by
    simp only [seekCases] at h
    exact jump_le hP hd h
  | .case conds body rest, n + 1, gd, L0, st, st', L, d, e, hd, h => by
    have hd' : Disc fd sd P d e body ∧ DiscC fd sd P d e rest := hd
    simp only [seekCases] at h
    split at h
    · exact jump_le hP hd'.1 h
    · exact seekCases_jump_le hP rest n gd L0 st st' L d e hd'.2 h

end

/-! ### the invariant -/

/-- the eight functions of the mutual block, at one amount of fuel -/
structure Inv (fd sd : Nat → Nat) (P : Stmt) (n : Nat) : Prop where
  exec : ∀ (gd : Nat) (s : Stmt) (d e : Nat) (m : Mode) (st : ESt), Disc fd sd P d e s → ModeOk fd sd d e m →
    MI fd sd P st.mode → Post fd sd P gd (m.enters s) st (exec n P gd s m st)
  raise : ∀ (gd c : Nat) (p : Pos) (st : ESt), MI fd sd P st.mode → Post fd sd P gd true st (ocD (Ref.raise n P gd c p st))
  cond : ∀ (gd : Nat) (c : Ast.Expr) (b : Bool) (st : ESt), MI fd sd P st.mode →
    Post fd sd P gd true st (ocC (condUnit n P gd c b st))
  doBottom : ∀ (gd : Nat) (c : Ast.Expr) (u : Bool) (body : Stmt) (p : Pos) (d e : Nat) (st : ESt), Disc fd sd P d e body →
    MI fd sd P st.mode → Post fd sd P gd true st (doBottom n P gd c u body p st)
  execCases : ∀ (gd : Nat) (p : Pos) (v : Val) (cs : Cases) (d e : Nat) (st : ESt), DiscC fd sd P d e cs →
    MI fd sd P st.mode → Post fd sd P gd true st (execCases n P gd p v cs st)
  seekCases : ∀ (gd : Nat) (cs : Cases) (L d e : Nat) (st : ESt), DiscC fd sd P d e cs → fd L = d ∧ sd L = e →
    MI fd sd P st.mode → Post fd sd P gd (cs.hasLabel L) st (seekCases n P gd cs L st)
  selectSeek : ∀ (gd : Nat) (cs : Cases) (L d e : Nat) (st : ESt), DiscC fd sd P d e cs → fd L = d ∧ sd L = e →
    MI fd sd P st.mode → Post fd sd P gd (cs.hasLabel L) st (selectSeek n P gd cs L st)
  forIter : ∀ (gd x : Nat) (t : Ty) (h sv : Val) (up : Bool) (body : Stmt) (p : Pos) (m : Mode) (atNext : Bool) (d e : Nat)
    (st : ESt), Disc fd sd P d e body → ModeOk fd sd d e m → MI fd sd P st.mode →
    Post fd sd P gd (atNext || m.enters body) st (forIter n P gd x t h sv up body p m atNext st)

section
variable {fd sd : Nat → Nat} {P : Stmt}

macro "post_leaf" : tactic =>
  `(tactic| exact post_lit (by assumption) (fun h _ => h) (by simp) (by simp) (by simp) (by simp))

theorem inv_zero : Inv fd sd P 0 := by
  refine ⟨?_, ?_, ?_, ?_, ?_, ?_, ?_, ?_⟩
  · intro gd s d e m st hd hm hmi; simp only [exec]; post_leaf
  · intro gd c p st hmi; simp only [Ref.raise, ocD]; post_leaf
  · intro gd c b st hmi; simp only [condUnit, ocC]; post_leaf
  · intro gd c u body p d e st hd hmi; simp only [doBottom]; post_leaf
  · intro gd p v cs d e st hd hmi; simp only [execCases]; post_leaf
  · intro gd cs L d e st hd hl hmi; simp only [seekCases]; post_leaf
  · intro gd cs L d e st hd hl hmi; simp only [selectSeek]; post_leaf
  · intro gd x t h sv up body p m atNext d e st hd hm hmi; simp only [forIter]; post_leaf

theorem inv_raise (hP : Disc fd sd P 0 0 P) (hZ : ∀ L, fd L = 0 → L ∈ P.labels) {n : Nat} (ih : Inv fd sd P n)
    (gd c : Nat) (p : Pos) (st : ESt) (hmi : MI fd sd P st.mode) :
    Post fd sd P gd true st (ocD (Ref.raise (n + 1) P gd c p st)) := by
  simp only [Ref.raise]
  split
  · simp only [ocD]; post_leaf
  · split
    · simp only [ocD]; post_leaf
    · rename_i hh
      simp only [ocD]
      exact post_lit hmi (fun h _ => h) (by simp) (by simp) (by simp) (by simp)
  · rename_i Lh hmode
    split
    · simp only [ocD]; post_leaf
    · rename_i hh
      have hL := hmi Lh hmode
      have hx := ih.exec gd P 0 0 (.seek Lh) { st with inH := true, err := some c } hP ⟨hL.1, hL.2.1⟩ hmi
      have hent : (Mode.seek Lh).enters P = true := (sh_hasLabel_iff P Lh).mpr hL.2.2
      generalize hr : exec n P gd P (.seek Lh) { st with inH := true, err := some c } = r at hx ⊢
      obtain ⟨s', o'⟩ := r
      cases o' with
      | resumed k =>
        have hin := hx.rs k rfl
        cases k <;> simp only [dispOfHandler, ocD] <;>
          exact post_lit hx.mi (fun _ _ => hin) (by simp) (by simp) (by simp) (by simp)
      | jump L1 => exact (top_no_jump hP hZ hr).elim
      | notHere => exact absurd rfl (hx.nh hent)
      | illFormed => exact absurd rfl hx.ill
      | normal => simp only [dispOfHandler, ocD]; exact post_lit hx.mi (by simp [cont]) (by simp) (by simp) (by simp) (by simp)
      | halted => simp only [dispOfHandler, ocD]; exact post_lit hx.mi (by simp [cont]) (by simp) (by simp) (by simp) (by simp)
      | ret q => simp only [dispOfHandler, ocD]; exact post_lit hx.mi (by simp [cont]) (by simp) (by simp) (by simp) (by simp)
      | error c' q =>
        simp only [dispOfHandler, ocD]; exact post_lit hx.mi (by simp [cont]) (by simp) (by simp) (by simp) (by simp)
      | inexact => simp only [dispOfHandler, ocD]; exact post_lit hx.mi (by simp [cont]) (by simp) (by simp) (by simp) (by simp)
      | outOfFuel =>
        simp only [dispOfHandler, ocD]; exact post_lit hx.mi (by simp [cont]) (by simp) (by simp) (by simp) (by simp)
      | unspec => simp only [dispOfHandler, ocD]; exact post_lit hx.mi (by simp [cont]) (by simp) (by simp) (by simp) (by simp)

theorem inv_cond {n : Nat} (ih : Inv fd sd P n) (gd : Nat) (c : Ast.Expr) (b : Bool) (st : ESt)
    (hmi : MI fd sd P st.mode) : Post fd sd P gd true st (ocC (condUnit (n + 1) P gd c b st)) := by
  simp only [condUnit]
  split
  · simp only [ocC]; post_leaf
  · simp only [ocC]; post_leaf
  · have hr := ih.raise gd ‹_› ‹_› st hmi
    generalize Ref.raise n P gd _ _ st = r at hr ⊢
    obtain ⟨s', dd⟩ := r
    cases dd <;> exact hr

theorem inv_execCases (hP : Disc fd sd P 0 0 P) {n : Nat} (ih : Inv fd sd P n) (gd : Nat) (p : Pos) (v : Val) (cs : Cases)
    (d e : Nat) (st : ESt) (hd : DiscC fd sd P d e cs) (hmi : MI fd sd P st.mode) :
    Post fd sd P gd true st (execCases (n + 1) P gd p v cs st) := by
  cases cs with
  | nil => simp only [execCases]; post_leaf
  | else_ body => simp only [execCases]; exact ih.exec gd body d e .run st hd trivial hmi
  | case conds body rest =>
    have hd' : Disc fd sd P d e body ∧ DiscC fd sd P d e rest := hd
    simp only [execCases]
    split
    · exact ih.exec gd body d e .run st hd'.1 trivial hmi
    · exact ih.execCases gd p v rest d e st hd'.2 hmi
    · post_leaf
    · exact post_unit _ (ih.raise gd _ _ st hmi) _ _ (fun s' h' => ih.execCases gd p v _ d e s' hd h')
        (fun s' h' => ih.exec gd body d e .run s' hd'.1 trivial h')

theorem inv_seekCases {n : Nat} (ih : Inv fd sd P n) (gd : Nat) (cs : Cases) (L d e : Nat) (st : ESt)
    (hd : DiscC fd sd P d e cs) (hl : fd L = d ∧ sd L = e) (hmi : MI fd sd P st.mode) :
    Post fd sd P gd (cs.hasLabel L) st (seekCases (n + 1) P gd cs L st) := by
  cases cs with
  | nil =>
    simp only [seekCases]
    exact post_lit hmi (fun h _ => h) (by simp) (by simp) (by simp) (by simp [Cases.hasLabel, Cases.labels])
  | else_ body =>
    simp only [seekCases]
    exact (ih.exec gd body d e (.seek L) st hd hl hmi).ent
      (fun h => by simpa [Mode.enters, Cases.hasLabel, Cases.labels, Stmt.hasLabel] using h)
  | case conds body rest =>
    have hd' : Disc fd sd P d e body ∧ DiscC fd sd P d e rest := hd
    simp only [seekCases]
    split
    · rename_i hb
      exact (ih.exec gd body d e (.seek L) st hd'.1 hl hmi).ent (fun _ => hb)
    · rename_i hb
      refine (ih.seekCases gd rest L d e st hd'.2 hl hmi).ent (fun h => ?_)
      simp only [Cases.hasLabel, Cases.labels, List.contains_append, Bool.or_eq_true] at h
      rcases h with h | h
      · exact absurd h hb
      · exact h

theorem inv_selectSeek (hP : Disc fd sd P 0 0 P) {n : Nat} (ih : Inv fd sd P n) (gd : Nat) (cs : Cases) (L d e : Nat)
    (st : ESt) (hd : DiscC fd sd P d e cs) (hl : fd L = d ∧ sd L = e) (hmi : MI fd sd P st.mode) :
    Post fd sd P gd (cs.hasLabel L) st (selectSeek (n + 1) P gd cs L st) := by
  simp only [selectSeek]
  refine post_catch cs.hasLabel _ (ih.seekCases gd cs L d e st hd hl hmi) _ ?_
  intro L1 s' hr hl1 hm1
  have hle := seekCases_jump_le hP cs n gd L st s' L1 d e hd hr
  have hge := label_geC cs d e L1 hd ((sh_hasLabelC_iff cs L1).mp hl1)
  exact (ih.selectSeek gd cs L1 d e s' hd ⟨by omega, by omega⟩ hm1).ent (fun _ => hl1)

end

section
variable {fd sd : Nat → Nat} {P : Stmt}

theorem enters_while (L : Nat) (c : Ast.Expr) (body : Stmt) (p : Pos) :
    (Mode.seek L).enters (.while c body p) = body.hasLabel L := by
  simp [Mode.enters, Stmt.hasLabel, Stmt.labels]

theorem enters_doLoop (L : Nat) (c : Ast.Expr) (t u : Bool) (body : Stmt) (p : Pos) :
    (Mode.seek L).enters (.doLoop c t u body p) = body.hasLabel L := by
  simp [Mode.enters, Stmt.hasLabel, Stmt.labels]

theorem enters_select (L : Nat) (ex : Ast.Expr) (cs : Cases) (p : Pos) :
    (Mode.seek L).enters (.select ex cs p) = cs.hasLabel L := by
  simp [Mode.enters, Stmt.hasLabel, Stmt.labels, Cases.hasLabel]

theorem enters_forLoop (L : Nat) (x : Nat) (t : Ty) (lo hi : Ast.Expr) (stp : Option Ast.Expr) (body : Stmt) (p : Pos) :
    (Mode.seek L).enters (.forLoop x t lo hi stp body p) = body.hasLabel L := by
  simp [Mode.enters, Stmt.hasLabel, Stmt.labels]

theorem inv_forIter (hP : Disc fd sd P 0 0 P) {n : Nat} (ih : Inv fd sd P n) (gd x : Nat) (t : Ty) (h sv : Val) (up : Bool)
    (body : Stmt) (p : Pos) (m : Mode) (atNext : Bool) (d e : Nat) (st : ESt) (hd : Disc fd sd P d e body)
    (hm : ModeOk fd sd d e m) (hmi : MI fd sd P st.mode) :
    Post fd sd P gd (atNext || m.enters body) st (forIter (n + 1) P gd x t h sv up body p m atNext st) := by
  cases atNext with
  | true =>
    simp only [forIter, if_true, Bool.true_or]
    split
    · rename_i v _
      exact ((ih.forIter gd x t h sv up body p .run false d e (st.set x v) hd trivial hmi).of_inH (s0 := st)
        (fun h => h)).ent (fun _ => rfl)
    · post_leaf
    · rename_i err _
      have hr := ih.raise gd (RbModel.Ref.codeOf err) p st hmi
      generalize hrr : Ref.raise n P gd (RbModel.Ref.codeOf err) p st = r at hr ⊢
      obtain ⟨s', dd⟩ := r
      cases dd with
      | again => exact (hr.trans rfl (ih.forIter gd x t h sv up body p .run true d e s' hd trivial hr.mi)).ent (fun _ => rfl)
      | next => exact hr
      | out o =>
        cases o with
        | jump L =>
          simp only
          split
          · rename_i hl
            have hz := raise_jump_zero hP hrr
            have hge := label_ge body d e L hd ((sh_hasLabel_iff body L).mp hl)
            exact (hr.trans rfl ((ih.forIter gd x t h sv up body p (.seek L) false d e s' hd ⟨by omega, by omega⟩ hr.mi).ent
              (fun _ => by simpa [Mode.enters] using hl)))
          · exact hr
        | _ => exact hr
  | false =>
    simp only [forIter, Bool.false_eq_true, if_false, Bool.false_or]
    split
    · split <;> post_leaf
    · post_leaf
    · refine post_loop body.hasLabel _ (ih.exec gd body d e m st hd hm hmi) _
        (fun s' h' => (ih.forIter gd x t h sv up body p .run true d e s' hd trivial h').ent (fun _ => rfl)) _ ?_
      intro L s' hr hl h'
      have hge := label_ge body d e L hd ((sh_hasLabel_iff body L).mp hl)
      have hle := jump_le hP hd hr
      exact (ih.forIter gd x t h sv up body p (.seek L) false d e s' hd ⟨by omega, by omega⟩ h').ent
        (fun _ => by simpa [Mode.enters] using hl)

theorem inv_doBottom (hP : Disc fd sd P 0 0 P) {n : Nat} (ih : Inv fd sd P n) (gd : Nat) (c : Ast.Expr) (u : Bool)
    (body : Stmt) (p : Pos) (d e : Nat) (st : ESt) (hd : Disc fd sd P d e body) (hmi : MI fd sd P st.mode) :
    Post fd sd P gd true st (doBottom (n + 1) P gd c u body p st) := by
  have hdw : Disc fd sd P d e (.doLoop c false u body p) := hd
  simp only [doBottom]
  have hc := ih.cond gd c u st hmi
  generalize hcr : condUnit n P gd c u st = r at hc ⊢
  obtain ⟨s1, dd⟩ := r
  cases dd with
  | go b =>
    dsimp only
    split
    · exact hc.trans rfl (ih.exec gd (.doLoop c false u body p) d e .run s1 hdw trivial hc.mi)
    · exact hc
  | again => exact hc.trans rfl (ih.doBottom gd c u body p d e s1 hd hc.mi)
  | out o =>
    cases o with
    | jump L =>
      simp only
      split
      · rename_i hl
        have hz := cond_jump_zero hP hcr
        have hge := label_ge body d e L hd ((sh_hasLabel_iff body L).mp hl)
        exact hc.trans rfl ((ih.exec gd (.doLoop c false u body p) d e (.seek L) s1 hdw ⟨by omega, by omega⟩ hc.mi).ent
          (fun _ => by rw [enters_doLoop]; exact hl))
      · exact hc
    | _ => exact hc

end

section
variable {fd sd : Nat → Nat} {P : Stmt}

/-- a RESUME statement inside a handler -/
theorem post_resumed {gd : Nat} {ent : Bool} {s : ESt} (k : Resumed) (hh : s.inH = true) (hmi : MI fd sd P s.mode) :
    Post fd sd P gd ent s ({ s with inH := false, err := none }, .resumed k) :=
  ⟨by simp, hmi, fun _ => by simp, fun h0 => (by rw [hh] at h0; cases h0), fun h0 => (by rw [hh] at h0; cases h0),
    fun _ _ => rfl, fun _ => by simp⟩

macro "post_nh" : tactic =>
  `(tactic| exact post_lit (by assumption) (fun h _ => h) (by simp) (by simp) (by simp)
      (by simp [Mode.enters, Stmt.hasLabel, Stmt.labels]))

theorem inv_exec (hP : Disc fd sd P 0 0 P) (hZ : ∀ L, fd L = 0 → L ∈ P.labels) {n : Nat} (ih : Inv fd sd P n)
    (gd : Nat) (s : Stmt) (d e : Nat) (m : Mode) (st : ESt) (hd : Disc fd sd P d e s) (hm : ModeOk fd sd d e m)
    (hmi : MI fd sd P st.mode) : Post fd sd P gd (m.enters s) st (exec (n + 1) P gd s m st) := by
  cases s with
  | skip =>
    cases m with
    | run => simp only [exec]; post_leaf
    | seek _ => simp only [exec]; post_nh
  | end_ p =>
    cases m with
    | run => simp only [exec]; post_leaf
    | seek _ => simp only [exec]; post_nh
  | onErrorGoto L =>
    cases m with
    | run =>
      simp only [exec]
      have hd' : fd L = 0 ∧ sd L = 0 ∧ L ∈ P.labels := hd
      exact post_lit (fun L' h => by cases h; exact hd') (fun h _ => h) (by simp) (by simp) (by simp) (by simp)
    | seek _ => simp only [exec]; post_nh
  | onErrorResumeNext =>
    cases m with
    | run =>
      simp only [exec]
      exact post_lit (fun L' h => by cases h) (fun h _ => h) (by simp) (by simp) (by simp) (by simp)
    | seek _ => simp only [exec]; post_nh
  | onErrorGoto0 =>
    cases m with
    | run =>
      simp only [exec]
      exact post_lit (fun L' h => by cases h) (fun h _ => h) (by simp) (by simp) (by simp) (by simp)
    | seek _ => simp only [exec]; post_nh
  | label L' =>
    cases m with
    | run => simp only [exec]; post_leaf
    | seek L0 =>
      simp only [exec]
      split
      · post_leaf
      · rename_i hne
        exact post_lit hmi (fun h _ => h) (by simp) (by simp) (by simp)
          (fun h => by simp [Mode.enters, Stmt.hasLabel, Stmt.labels] at h; exact absurd h hne)
  | goto L' =>
    cases m with
    | seek _ => simp only [exec]; post_nh
    | run => simp only [exec]; post_leaf
  | gosub L' =>
    cases m with
    | seek _ => simp only [exec]; post_nh
    | run =>
      have hd' : fd L' = 0 ∧ sd L' = 0 ∧ L' ∈ P.labels := hd
      simp only [exec]
      have hx := ih.exec (gd + 1) P 0 0 (.seek L') st hP ⟨hd'.1, hd'.2.1⟩ hmi
      have hent : (Mode.seek L').enters P = true := (sh_hasLabel_iff P L').mpr hd'.2.2
      generalize hr : exec n P (gd + 1) P (.seek L') st = r at hx ⊢
      obtain ⟨s1, o1⟩ := r
      cases o1 with
      | ret q => exact post_lit hx.mi (fun h _ => hx.inh h rfl) (by simp) (by simp) (by simp) (by simp)
      | jump L1 => exact (top_no_jump hP hZ hr).elim
      | notHere => exact absurd rfl (hx.nh hent)
      | illFormed => exact absurd rfl hx.ill
      | normal => exact post_lit hx.mi (by simp [cont]) (by simp) (by simp) (by simp) (by simp)
      | halted => exact post_lit hx.mi (by simp [cont]) (by simp) (by simp) (by simp) (by simp)
      | resumed k => exact post_lit hx.mi (by simp [cont]) (by simp) (by simp) (by simp) (by simp)
      | error c' q => exact post_lit hx.mi (by simp [cont]) (by simp) (by simp) (by simp) (by simp)
      | inexact => exact post_lit hx.mi (by simp [cont]) (by simp) (by simp) (by simp) (by simp)
      | outOfFuel => exact post_lit hx.mi (by simp [cont]) (by simp) (by simp) (by simp) (by simp)
      | unspec => exact post_lit hx.mi (by simp [cont]) (by simp) (by simp) (by simp) (by simp)
  | assign x t ex p =>
    cases m with
    | seek _ => simp only [exec]; post_nh
    | run =>
      simp only [exec]
      split
      · post_leaf
      · post_leaf
      · exact post_unit _ (ih.raise gd _ _ st hmi) _ _
          (fun s' h' => ih.exec gd (.assign x t ex p) d e .run s' hd trivial h') (fun s' h' => by post_leaf)
  | print items p =>
    cases m with
    | seek _ => simp only [exec]; post_nh
    | run =>
      simp only [exec]
      split
      · split <;> post_leaf
      · rename_i st' c' q _
        exact post_unit _ ((ih.raise gd c' q { st with st := st' } hmi).of_inH (s0 := st) (fun h => h)) _ _
          (fun s' h' => ih.exec gd (.print items p) d e .run s' hd trivial h') (fun s' h' => by post_leaf)
      · post_leaf
  | read vars p =>
    cases m with
    | seek _ => simp only [exec]; post_nh
    | run =>
      simp only [exec]
      split
      · post_leaf
      · post_leaf
      · rename_i st' c' q _
        exact post_unit _ ((ih.raise gd c' q { st with st := st' } hmi).of_inH (s0 := st) (fun h => h)) _ _
          (fun s' h' => ih.exec gd (.read vars p) d e .run s' hd trivial h') (fun s' h' => by post_leaf)
  | ret p =>
    cases m with
    | seek _ => simp only [exec]; post_nh
    | run =>
      simp only [exec]
      split
      · exact post_unit _ (ih.raise gd _ _ st hmi) _ _
          (fun s' h' => ih.exec gd (.ret p) d e .run s' hd trivial h') (fun s' h' => by post_leaf)
      · rename_i hg
        exact ⟨by simp, hmi, fun h0 => absurd h0 hg, fun _ => by simp, fun h _ => h, fun k hk => by simp at hk,
          fun _ => by simp⟩
  | resume p =>
    cases m with
    | seek _ => simp only [exec]; post_nh
    | run =>
      simp only [exec]
      split
      · rename_i hh
        exact post_resumed _ hh hmi
      · exact post_unit _ (ih.raise gd _ _ st hmi) _ _
          (fun s' h' => ih.exec gd (.resume p) d e .run s' hd trivial h') (fun s' h' => by post_leaf)
  | resumeNext p =>
    cases m with
    | seek _ => simp only [exec]; post_nh
    | run =>
      simp only [exec]
      split
      · rename_i hh
        exact post_resumed _ hh hmi
      · exact post_unit _ (ih.raise gd _ _ st hmi) _ _
          (fun s' h' => ih.exec gd (.resumeNext p) d e .run s' hd trivial h') (fun s' h' => by post_leaf)
  | resumeLabel L' p =>
    cases m with
    | seek _ => simp only [exec]; post_nh
    | run =>
      simp only [exec]
      split
      · rename_i hh
        exact post_resumed _ hh hmi
      · exact post_unit _ (ih.raise gd _ _ st hmi) _ _
          (fun s' h' => ih.exec gd (.resumeLabel L' p) d e .run s' hd trivial h') (fun s' h' => by post_leaf)
  | seq a b =>
    have hd' : Disc fd sd P d e a ∧ Disc fd sd P d e b := hd
    simp only [exec]
    split
    · rename_i hen
      rw [hen]
      refine post_catch (Stmt.hasLabel (.seq a b)) _ ?_ _ ?_
      · split
        · rename_i hea
          exact post_then _ _ ((ih.exec gd a d e m st hd'.1 hm hmi).ent (fun _ => hea))
            (fun s' h' => ih.exec gd b d e .run s' hd'.2 trivial h')
        · rename_i hea
          exact (ih.exec gd b d e m st hd'.2 hm hmi).ent (fun _ => enters_seq_right hen hea)
      · intro L s' hr hl h'
        have hge := label_ge (.seq a b) d e L hd ((sh_hasLabel_iff _ L).mp hl)
        have hle : fd L ≤ d ∧ sd L ≤ e := by
          split at hr
          · generalize hra : exec n P gd a m st = ra at hr
            obtain ⟨s2, o2⟩ := ra
            cases o2 with
            | normal => exact jump_le hP hd'.2 hr
            | jump L2 =>
              simp only [Prod.mk.injEq, Outcome.jump.injEq] at hr
              obtain ⟨_, rfl⟩ := hr
              exact jump_le hP hd'.1 hra
            | _ => simp at hr
          · exact jump_le hP hd'.2 hr
        exact (ih.exec gd (.seq a b) d e (.seek L) s' hd ⟨by omega, by omega⟩ h').ent (fun _ => hl)
    · rename_i hen
      exact post_lit hmi (fun h _ => h) (by simp) (by simp) (by simp) (fun h => absurd h hen)
  | ifs c thn els p =>
    have hd' : Disc fd sd P d e thn ∧ Disc fd sd P d e els := hd
    cases m with
    | run =>
      simp only [exec]
      split
      · refine post_catch (Stmt.hasLabel (.ifs c thn els p)) _ ?_ _ ?_
        · have hc := ih.cond gd c true st hmi
          generalize hcr : condUnit n P gd c true st = r at hc ⊢
          obtain ⟨s1, dd⟩ := r
          cases dd with
          | go bv =>
            cases bv with
            | true => exact hc.trans rfl (ih.exec gd thn d e .run s1 hd'.1 trivial hc.mi)
            | false => exact hc.trans rfl (ih.exec gd els d e .run s1 hd'.2 trivial hc.mi)
          | again => exact hc.trans rfl (ih.exec gd (.ifs c thn els p) d e .run s1 hd trivial hc.mi)
          | out o => exact hc
        · intro L s' hr hl h'
          have hge := label_ge (.ifs c thn els p) d e L hd ((sh_hasLabel_iff _ L).mp hl)
          have hle : fd L ≤ d ∧ sd L ≤ e := by
            generalize hcr : condUnit n P gd c true st = rr at hr
            obtain ⟨s1, dd⟩ := rr
            cases dd with
            | go bv =>
              cases bv with
              | true => exact jump_le hP hd'.1 hr
              | false => exact jump_le hP hd'.2 hr
            | again => exact jump_le hP hd hr
            | out o =>
              simp only [Prod.mk.injEq] at hr
              obtain ⟨_, rfl⟩ := hr
              have := cond_jump_zero hP hcr
              omega
          exact (ih.exec gd (.ifs c thn els p) d e (.seek L) s' hd ⟨by omega, by omega⟩ h').ent (fun _ => hl)
      · rename_i hen
        exact post_lit hmi (fun h _ => h) (by simp) (by simp) (by simp) (fun h => absurd h hen)
    | seek L0 =>
      simp only [exec]
      split
      · rename_i hen
        rw [hen]
        refine post_catch (Stmt.hasLabel (.ifs c thn els p)) _ ?_ _ ?_
        · split
          · rename_i hl
            exact (ih.exec gd thn d e (.seek L0) st hd'.1 hm hmi).ent (fun _ => hl)
          · rename_i hl
            exact (ih.exec gd els d e (.seek L0) st hd'.2 hm hmi).ent (fun _ => enters_ifs_right hen hl)
        · intro L s' hr hl h'
          have hge := label_ge (.ifs c thn els p) d e L hd ((sh_hasLabel_iff _ L).mp hl)
          have hle : fd L ≤ d ∧ sd L ≤ e := by
            split at hr
            · exact jump_le hP hd'.1 hr
            · exact jump_le hP hd'.2 hr
          exact (ih.exec gd (.ifs c thn els p) d e (.seek L) s' hd ⟨by omega, by omega⟩ h').ent (fun _ => hl)
      · rename_i hen
        exact post_lit hmi (fun h _ => h) (by simp) (by simp) (by simp) (fun h => absurd h hen)
  | select ex cases p =>
    have hd' : DiscC fd sd P d (e + 1) cases ∧ ∀ L ∈ shGotosC cases, L ∈ cases.labels ∨ sd L ≤ e := hd
    cases m with
    | seek L0 =>
      simp only [exec]
      split
      · rename_i hl
        have hge := label_geC cases d (e + 1) L0 hd'.1 ((sh_hasLabelC_iff cases L0).mp hl)
        have hm' : fd L0 = d ∧ sd L0 = e := hm
        exfalso; omega
      · rename_i hl
        exact post_lit hmi (fun h _ => h) (by simp) (by simp) (by simp)
          (fun h => by rw [enters_select] at h; exact absurd h hl)
    | run =>
      simp only [exec]
      split
      · post_leaf
      · exact post_unit _ (ih.raise gd _ _ st hmi) _ _
          (fun s' h' => ih.exec gd (.select ex cases p) d e .run s' hd trivial h') (fun s' h' => by post_leaf)
      · refine post_catch cases.hasLabel _ (ih.execCases gd p _ cases d (e + 1) st hd'.1 hmi) _ ?_
        intro L s' hr hl h'
        have hle := execCases_jump_le hP n cases gd p _ st s' L d (e + 1) hd'.1 hr
        have hge := label_geC cases d (e + 1) L hd'.1 ((sh_hasLabelC_iff cases L).mp hl)
        exact (ih.selectSeek gd cases L d (e + 1) s' hd'.1 ⟨by omega, by omega⟩ h').ent (fun _ => hl)
  | forLoop x t lo hi step body p =>
    have hd' : Disc fd sd P (d + 1) e body ∧ ∀ L ∈ shGotosS body, L ∈ body.labels ∨ fd L ≤ d := hd
    cases m with
    | seek L0 =>
      simp only [exec]
      split
      · rename_i hl
        have hge := label_ge body (d + 1) e L0 hd'.1 ((sh_hasLabel_iff body L0).mp hl)
        have hm' : fd L0 = d ∧ sd L0 = e := hm
        exfalso; omega
      · rename_i hl
        exact post_lit hmi (fun h _ => h) (by simp) (by simp) (by simp)
          (fun h => by rw [enters_forLoop] at h; exact absurd h hl)
    | run =>
      simp only [exec]
      split
      · rename_i st' hv sv up _
        exact ((ih.forIter gd x t hv sv up body p .run false (d + 1) e { st with st := st' } hd'.1 trivial hmi).of_inH
          (s0 := st) (fun h => h)).ent (fun _ => rfl)
      · post_leaf
      · rename_i st' c' q _
        exact post_unit _ ((ih.raise gd c' q { st with st := st' } hmi).of_inH (s0 := st) (fun h => h)) _ _
          (fun s' h' => ih.exec gd (.forLoop x t lo hi step body p) d e .run s' hd trivial h') (fun s' h' => by post_leaf)
  | «while» c body p =>
    have hd' : Disc fd sd P d e body := hd
    have hbody : ∀ (m : Mode) (s1 : ESt), ModeOk fd sd d e m → MI fd sd P s1.mode →
        Post fd sd P gd (m.enters body) s1 (match exec n P gd body m s1 with
        | (s', .normal) => exec n P gd (.while c body p) .run s'
        | (s', .jump L) => if body.hasLabel L = true then exec n P gd (.while c body p) (.seek L) s' else (s', .jump L)
        | r => r) := fun m s1 hm1 hmi1 =>
      post_loop body.hasLabel _ (ih.exec gd body d e m s1 hd' hm1 hmi1) _
        (fun s' h' => ih.exec gd (.while c body p) d e .run s' hd trivial h') _
        (fun L s' hr hl h' => by
          have hge := label_ge body d e L hd' ((sh_hasLabel_iff body L).mp hl)
          have hle := jump_le hP hd' hr
          exact (ih.exec gd (.while c body p) d e (.seek L) s' hd ⟨by omega, by omega⟩ h').ent
            (fun _ => by rw [enters_while]; exact hl))
    cases m with
    | seek L0 =>
      simp only [exec]
      split
      · rename_i hen
        rw [hen]
        exact (hbody (.seek L0) st hm hmi).ent (fun _ => by rw [enters_while] at hen; exact hen)
      · rename_i hen
        exact post_lit hmi (fun h _ => h) (by simp) (by simp) (by simp) (fun h => absurd h hen)
    | run =>
      simp only [exec]
      split
      · have hc := ih.cond gd c true st hmi
        generalize hcr : condUnit n P gd c true st = r at hc ⊢
        obtain ⟨s1, dd⟩ := r
        cases dd with
        | go bv =>
          cases bv with
          | true => exact hc.trans rfl ((hbody .run s1 trivial hc.mi).ent (fun _ => rfl))
          | false => exact hc
        | again => exact hc.trans rfl (ih.exec gd (.while c body p) d e .run s1 hd trivial hc.mi)
        | out o =>
          cases o with
          | jump L =>
            simp only
            split
            · rename_i hl
              have hz := cond_jump_zero hP hcr
              have hge := label_ge body d e L hd' ((sh_hasLabel_iff body L).mp hl)
              exact hc.trans rfl ((ih.exec gd (.while c body p) d e (.seek L) s1 hd ⟨by omega, by omega⟩ hc.mi).ent
                (fun _ => by rw [enters_while]; exact hl))
            · exact hc
          | _ => exact hc
      · rename_i hen
        exact post_lit hmi (fun h _ => h) (by simp) (by simp) (by simp) (fun h => absurd h hen)
  | doLoop c top until_ body p =>
    have hd' : Disc fd sd P d e body := hd
    have hseek : ∀ (L : Nat) (s' : ESt), body.hasLabel L = true → fd L ≤ d ∧ sd L ≤ e → MI fd sd P s'.mode →
        Post fd sd P gd true s' (exec n P gd (.doLoop c top until_ body p) (.seek L) s') := fun L s' hl hle h' => by
      have hge := label_ge body d e L hd' ((sh_hasLabel_iff body L).mp hl)
      exact (ih.exec gd (.doLoop c top until_ body p) d e (.seek L) s' hd ⟨by omega, by omega⟩ h').ent
        (fun _ => by rw [enters_doLoop]; exact hl)
    have hbody : ∀ (m : Mode) (s1 : ESt), ModeOk fd sd d e m → MI fd sd P s1.mode →
        Post fd sd P gd (m.enters body) s1 (match exec n P gd body m s1 with
        | (s', .normal) => exec n P gd (.doLoop c top until_ body p) .run s'
        | (s', .jump L) =>
          if body.hasLabel L = true then exec n P gd (.doLoop c top until_ body p) (.seek L) s' else (s', .jump L)
        | r => r) := fun m s1 hm1 hmi1 =>
      post_loop body.hasLabel _ (ih.exec gd body d e m s1 hd' hm1 hmi1) _
        (fun s' h' => ih.exec gd (.doLoop c top until_ body p) d e .run s' hd trivial h') _
        (fun L s' hr hl h' => hseek L s' hl (jump_le hP hd' hr) h')
    have hgo : ∀ (b : Bool) (m : Mode) (s1 : ESt), ModeOk fd sd d e m → MI fd sd P s1.mode →
        Post fd sd P gd (m.enters body) s1
        (if (b != until_) = true then
          (match exec n P gd body m s1 with
          | (s', .normal) => exec n P gd (.doLoop c top until_ body p) .run s'
          | (s', .jump L) =>
            if body.hasLabel L = true then exec n P gd (.doLoop c top until_ body p) (.seek L) s' else (s', .jump L)
          | r => r)
        else (s1, .normal)) := by
      intro b m s1 hm1 hmi1
      split
      · exact hbody m s1 hm1 hmi1
      · exact post_lit hmi1 (fun h _ => h) (by simp) (by simp) (by simp) (by simp)
    have hbot : ∀ (m : Mode) (s1 : ESt), ModeOk fd sd d e m → MI fd sd P s1.mode →
        Post fd sd P gd (m.enters body) s1 (match exec n P gd body m s1 with
        | (s', .normal) => doBottom n P gd c until_ body p s'
        | (s', .jump L) =>
          if body.hasLabel L = true then exec n P gd (.doLoop c top until_ body p) (.seek L) s' else (s', .jump L)
        | r => r) := fun m s1 hm1 hmi1 =>
      post_loop body.hasLabel _ (ih.exec gd body d e m s1 hd' hm1 hmi1) _
        (fun s' h' => ih.doBottom gd c until_ body p d e s' hd' h') _
        (fun L s' hr hl h' => hseek L s' hl (jump_le hP hd' hr) h')
    cases m with
    | seek L0 =>
      simp only [exec]
      split
      · rename_i hen
        rw [hen]
        have heb : (Mode.seek L0).enters body = true := by rw [enters_doLoop] at hen; exact hen
        split
        · exact (hgo _ (.seek L0) st hm hmi).ent (fun _ => heb)
        · exact (hbot (.seek L0) st hm hmi).ent (fun _ => heb)
      · rename_i hen
        exact post_lit hmi (fun h _ => h) (by simp) (by simp) (by simp) (fun h => absurd h hen)
    | run =>
      simp only [exec]
      split
      · split
        · have hc := ih.cond gd c (!until_) st hmi
          generalize hcr : condUnit n P gd c (!until_) st = r at hc ⊢
          obtain ⟨s1, dd⟩ := r
          cases dd with
          | go bv => exact hc.trans rfl ((hgo bv .run s1 trivial hc.mi).ent (fun _ => rfl))
          | again => exact hc.trans rfl (ih.exec gd (.doLoop c top until_ body p) d e .run s1 hd trivial hc.mi)
          | out o =>
            cases o with
            | jump L =>
              simp only
              split
              · rename_i hl
                have hz := cond_jump_zero hP hcr
                exact hc.trans rfl (hseek L s1 hl (by omega) hc.mi)
              · exact hc
            | _ => exact hc
        · exact (hbot .run st trivial hmi).ent (fun _ => rfl)
      · rename_i hen
        exact post_lit hmi (fun h _ => h) (by simp) (by simp) (by simp) (fun h => absurd h hen)

theorem inv_all (hP : Disc fd sd P 0 0 P) (hZ : ∀ L, fd L = 0 → L ∈ P.labels) : ∀ n, Inv fd sd P n
  | 0 => inv_zero
  | n + 1 =>
    have ih := inv_all hP hZ n
    ⟨inv_exec hP hZ ih, inv_raise hP hZ ih, inv_cond ih, inv_doBottom hP ih, inv_execCases hP ih, inv_seekCases ih,
      inv_selectSeek hP ih, inv_forIter hP ih⟩

/-- **the outermost run of a disciplined program** — started with no GOSUB pending, outside a handler, with a handler label (if
any) that is a label of the program at depth 0 / 0 — answers none of the five outcomes `ErrL.Ref.run` reports as `illFormed` -/
theorem top_never (hP : Disc fd sd P 0 0 P) (hZ : ∀ L, fd L = 0 → L ∈ P.labels) (n : Nat) (st : ESt)
    (hmi : MI fd sd P st.mode) (hin : st.inH = false) :
    (exec n P 0 P .run st).2 ≠ .illFormed ∧ (∀ p, (exec n P 0 P .run st).2 ≠ .ret p) ∧
    (∀ L, (exec n P 0 P .run st).2 ≠ .jump L) ∧ (exec n P 0 P .run st).2 ≠ .notHere ∧
    (∀ k, (exec n P 0 P .run st).2 ≠ .resumed k) := by
  have h := (inv_all hP hZ n).exec 0 P 0 0 .run st hP trivial hmi
  refine ⟨h.ill, h.ret rfl, fun L hj => ?_, h.nh rfl, h.res hin⟩
  exact top_no_jump hP hZ (st' := (exec n P 0 P .run st).1) (Prod.ext rfl hj)

end

end RbThm.ErrLNoIll
