import Thm.ProcJSimBase
import Thm.ProcJSimJump
import Thm.ProcJSimExpr
import Thm.ProcSimCall
/-!
Layer "procedures ∪ jumps", simulation part — calls.

`procBody_ok`: the body context of a procedure (its code behind the header, followed by the final `PopRet`).
`call_correct`: the whole call protocol — `BeginCollectArguments`, the arguments, `PushStack` / `PushStaticStack` (the callee's
frame with the parameters bound), `PushRet` (records the heights of the register stack, the GOSUB stack, the value stack and the
path stack), `Jump` to the procedure's label (a STATIC FUNCTION then resets its result variable), the body (by the statement
hypothesis at the fuel the reference semantics uses, as an outermost run of the new activation), then

* body `normal` → the final `PopRet`; body `exited` (EXIT SUB / FUNCTION, also END SUB reached inside a GOSUB routine) → the
  `PopRet` has run: in both cases the four stacks are cut back to the marks, which ARE the caller's heights;
* body `ret p` → the `Return` at `p` finds no GOSUB above the mark of this activation's `PushRet`: error 3 at `p`, whatever GOSUBs
  the callers have pending;
* the epilogue: `EnqueueToReturnStack` for every by-reference actual, `StashFunctionReturnValue`, `PopStack`, the write-backs
  left to right, `UnStashFunctionReturnValue`.

Port of `Thm/ProcSimCall.lean`; the lemmas of that file that do not mention code or VM states (`refVals`, `RefsOk`, `WbOk`,
`refsOk_of`, `wbOk_of`, `freshEnv_get_*`, `rebind_get_*`, `applyArgs_get_*`, `newBlock*`, `frameRel_fresh`, `typed_fresh`, …) are
used from there (a declaration of this layer is seen as one of the procedures layer by forgetting its body: `cl_pd`).
-/
namespace RbThm.ProcJSim
set_option linter.unusedVariables false
set_option linter.unusedSimpArgs false
open RbModel RbModel.ProcJ RbModel.ProcJ.Compile RbModel.ProcJ.Vm
open RbModel.Num hiding Expr
open RbModel.Ast (Pos)
open RbModel.Proc (Var SlotTabs Expr Args PrintItem CaseExpr ProcDecl zeroOf Sigs sigsOf)
open RbModel.Proc.Compile (Layout Layout.addr sizeExpr sizePush refCount sizeExprTo sizeSubCall sizeItems sizeCaseExpr sizeConds
  sizeExit labelName stepSuffix maxPos)
open RbModel.Proc.Vm (Regs Regs.new Frame CtxState getVar setVar curVars modCur curStatic applyArgs readVars binInstr)
open RbModel.ProcJ.Ref (Outcome Mode Act)
open RbThm.ProcJLen
open RbThm.ProcSim (Scope Collecting curVars_pre curVars_pre_s curStatic_pre curStatic_pre_s modCur_pre TabRel TabRel.set
  FrameRel FrameRel.set topState ogetVar StatRel getVar_setVar_same getVar_setVar_ne getElem?_setVar_ne created_setVar
  EWf AWf ItemsWf SelRelOp CaseWf CondsWf lslot list_set_getD_self truthy_of_tag)
open RbThm.ProcSim (refVals RefsOk WbOk params_length refsOk_of wbOk_of created_applyArgs newBlock curVars_coll)

/-! ### the blocks of the STATIC procedures only grow -/


/-- the blocks of the STATIC procedures only grow: a block that exists keeps existing, a created variable stays created -/
def CallGrows (σ τ : Vm) : Prop :=
  ∀ (g : Nat) (fr : Frame), σ.statics g = some fr → ∃ fr' : Frame, τ.statics g = some fr' ∧
    ∀ i : Nat, (∃ w, fr[i]? = some (some w)) → ∃ w, fr'[i]? = some (some w)

theorem CallGrows.refl (σ : Vm) : CallGrows σ σ := fun _ fr h => ⟨fr, h, fun _ hi => hi⟩

theorem CallGrows.trans {a b c : Vm} (h₁ : CallGrows a b) (h₂ : CallGrows b c) : CallGrows a c := by
  intro g fr h
  obtain ⟨fr1, e1, k1⟩ := h₁ g fr h
  obtain ⟨fr2, e2, k2⟩ := h₂ g fr1 e1
  exact ⟨fr2, e2, fun i hi => k2 i (k1 i hi)⟩

theorem CallGrows.of_eq {σ τ : Vm} (h : τ.statics = σ.statics) : CallGrows σ τ := by
  intro g fr h1; exact ⟨fr, by rw [h]; exact h1, fun _ hi => hi⟩

theorem cl_grows_setV (σ : Vm) (x : Var) (v : Val) : CallGrows σ (σ.setV x v) := by
  unfold Vm.setV Vm.setLocal
  cases x.shared with
  | true => exact CallGrows.of_eq rfl
  | false =>
    simp only [Bool.false_eq_true, if_false]
    cases curStatic σ.ctx with
    | none => exact CallGrows.of_eq rfl
    | some f =>
      intro g fr h1
      by_cases hg : g = f
      · subst hg
        exact ⟨setVar fr x.slot v, by simp [h1], fun i hi => created_setVar fr x.slot i v hi⟩
      · exact ⟨fr, by simp [hg, h1], fun _ hi => hi⟩

theorem cl_pushArg_statics {σ σ' : Vm} {v : Val} (h : pushArg σ v = some σ') : σ'.statics = σ.statics := by
  unfold pushArg at h
  split at h
  · injection h with h; subst h; rfl
  · cases h

theorem cl_step_grows {code : Code} {σ τ : Vm} (h : Vm.step code σ = .next τ) : CallGrows σ τ := by
  unfold Vm.step at h
  split at h
  · cases h
  · rename_i i p hcode
    cases i <;> simp only [] at h
    all_goals (try (first
      | (injection h with h; subst h; exact CallGrows.of_eq rfl)
      | (unfold Vm.resA at h; split at h <;> first | (injection h with h; subst h; exact CallGrows.of_eq rfl) | cases h)))
    case copyAToVarPath =>
      split at h
      · cases h
      · rename_i x t rest hp
        injection h with h; subst h
        exact (cl_grows_setV σ x σ.regs.a).trans (CallGrows.of_eq rfl)
    case pushStatic f =>
      split at h
      · rename_i vs rest hctx
        injection h with h; subst h
        intro g fr h1
        by_cases hg : g = f
        · subst hg
          exact ⟨applyArgs fr vs, by simp [Vm.advance, h1], fun i hi => created_applyArgs fr vs i hi⟩
        · exact ⟨fr, by simp [Vm.advance, hg, h1], fun _ hi => hi⟩
      · cases h
    case pushByVal =>
      split at h
      · rename_i σ' hpa; injection h with h; subst h; have := cl_pushArg_statics hpa; exact CallGrows.of_eq this
      · cases h
    case pushNamed =>
      split at h
      · rename_i σ' hpa; injection h with h; subst h; have := cl_pushArg_statics hpa; exact CallGrows.of_eq this
      · cases h
    case pushByRef =>
      split at h
      · cases h
      · split at h
        · rename_i σ' hpa; injection h with h; subst h; have := cl_pushArg_statics hpa; exact CallGrows.of_eq this
        · cases h
    all_goals (repeat' split at h)
    all_goals (first | (injection h with h; subst h; exact CallGrows.of_eq rfl) | cases h)

theorem cl_steps_grows {code : Code} {σ τ : Vm} (h : Steps code σ τ) : CallGrows σ τ := by
  induction h with
  | refl => exact CallGrows.refl _
  | cons hs _ ih => exact (cl_step_grows hs).trans ih
/-! ### the epilogue -/

/-- everything but the program counter, the registers, the context stack, the by-reference queue and the function result
is as it was -/
structure CallFrozen (σ τ : Vm) : Prop where
  regStack : τ.regStack = σ.regStack
  vals : τ.vals = σ.vals
  paths : τ.paths = σ.paths
  out : τ.out = σ.out
  skipNewline : τ.skipNewline = σ.skipNewline
  data : τ.data = σ.data
  dataIdx : τ.dataIdx = σ.dataIdx
  rets : τ.rets = σ.rets
  marks : τ.marks = σ.marks
  gosubs : τ.gosubs = σ.gosubs
  trace : τ.trace = σ.trace

theorem CallFrozen.refl (σ : Vm) : CallFrozen σ σ := ⟨rfl, rfl, rfl, rfl, rfl, rfl, rfl, rfl, rfl, rfl, rfl⟩

theorem CallFrozen.trans {a b c : Vm} (h₁ : CallFrozen a b) (h₂ : CallFrozen b c) : CallFrozen a c :=
  ⟨h₂.regStack.trans h₁.regStack, h₂.vals.trans h₁.vals, h₂.paths.trans h₁.paths, h₂.out.trans h₁.out,
    h₂.skipNewline.trans h₁.skipNewline, h₂.data.trans h₁.data, h₂.dataIdx.trans h₁.dataIdx,
    h₂.rets.trans h₁.rets, h₂.marks.trans h₁.marks, h₂.gosubs.trans h₁.gosubs,
    h₂.trace.trans h₁.trace⟩

/-- `EnqueueToReturnStack i` for every by-reference actual, left to right -/
theorem cl_enq_phase (code : Code) (fr : Frame) (callee : List Val) : ∀ (args : Args) (i : Nat) (τ : Vm),
    CodeAt code τ.pc (enqueues i args) → τ.curFrame = some fr → RefsOk fr callee i args →
    ∃ υ, Steps code τ υ ∧ υ.pc = τ.pc + refCount args ∧ υ.queue = τ.queue ++ refVals i args callee ∧
      υ.ctx = τ.ctx ∧ υ.glob = τ.glob ∧ υ.statics = τ.statics ∧ υ.funRes = τ.funRes ∧ υ.regs = τ.regs ∧ CallFrozen τ υ
  | .nil, i, τ, _, _, _ =>
    ⟨τ, Steps.refl τ, by simp [refCount], by simp [refVals], rfl, rfl, rfl, rfl, rfl, CallFrozen.refl τ⟩
  | .cons e pn pt rest, i, τ, hc, hcv, hok => by
    obtain ⟨hok1, hok2⟩ := hok
    cases e with
    | var x t q =>
      simp only [enqueues, Proc.Expr.isRef, if_true, Proc.Expr.pos] at hc
      have h0 : code[τ.pc]? = some (CInstr.enqueue i, q) := hc.append_left.head
      have hv := hok1 x t q rfl
      let τ1 : Vm := Vm.advance { τ with queue := τ.queue ++ [callee.getD i (zeroOf t)] }
      have s1 : Vm.step code τ = .next τ1 := by simp only [Vm.step, h0, hcv, hv]; rfl
      obtain ⟨υ, st, hp, hq, hcx, hgl, hst, hf, hrg, hfz⟩ := cl_enq_phase code fr callee rest (i + 1) τ1 (by
        have := hc.append_right
        exact (by simpa using this : CodeAt code (τ.pc + 1) _)) hcv hok2
      refine ⟨υ, Steps.cons s1 st, ?_, ?_, hcx, hgl, hst, hf, hrg,
        CallFrozen.trans (show CallFrozen τ τ1 from ⟨rfl, rfl, rfl, rfl, rfl, rfl, rfl, rfl, rfl, rfl, rfl⟩) hfz⟩
      · rw [hp]; simp only [τ1, Vm.advance, refCount, Proc.Expr.isRef, if_true]; omega
      · rw [hq]; simp only [τ1, Vm.advance, refVals, List.append_assoc, List.singleton_append]
    | lit v q =>
      simp only [enqueues, Proc.Expr.isRef, Bool.false_eq_true, if_false, List.nil_append] at hc
      simpa [refCount, refVals, Proc.Expr.isRef] using cl_enq_phase code fr callee rest (i + 1) τ hc hcv hok2
    | un op e' q =>
      simp only [enqueues, Proc.Expr.isRef, Bool.false_eq_true, if_false, List.nil_append] at hc
      simpa [refCount, refVals, Proc.Expr.isRef] using cl_enq_phase code fr callee rest (i + 1) τ hc hcv hok2
    | bin op l r t q =>
      simp only [enqueues, Proc.Expr.isRef, Bool.false_eq_true, if_false, List.nil_append] at hc
      simpa [refCount, refVals, Proc.Expr.isRef] using cl_enq_phase code fr callee rest (i + 1) τ hc hcv hok2
    | paren e' q =>
      simp only [enqueues, Proc.Expr.isRef, Bool.false_eq_true, if_false, List.nil_append] at hc
      simpa [refCount, refVals, Proc.Expr.isRef] using cl_enq_phase code fr callee rest (i + 1) τ hc hcv hok2
    | callFn f a t q =>
      simp only [enqueues, Proc.Expr.isRef, Bool.false_eq_true, if_false, List.nil_append] at hc
      simpa [refCount, refVals, Proc.Expr.isRef] using cl_enq_phase code fr callee rest (i + 1) τ hc hcv hok2

/-- a store depends on the machine only through the context stack and the variable blocks -/
theorem cl_setV_cgs (σ σ' : Vm) (x : Var) (v : Val) (hc : σ'.ctx = σ.ctx) (hg : σ'.glob = σ.glob)
    (hs : σ'.statics = σ.statics) :
    (σ'.setV x v).ctx = (σ.setV x v).ctx ∧ (σ'.setV x v).glob = (σ.setV x v).glob ∧
      (σ'.setV x v).statics = (σ.setV x v).statics := by
  unfold Vm.setV Vm.setLocal
  rw [hc]
  cases x.shared <;> simp only [Bool.false_eq_true, if_true, if_false]
  · cases curStatic σ.ctx <;> simp [hc, hg, hs]
  · simp [hc, hg, hs]

/-- the machine with an empty by-reference queue and no stashed result -/
def cl_clr (τ : Vm) : Vm := { τ with queue := [], funRes := none }

/-- `DequeueFromReturnStack; VarPathName x; CopyAToVarPath` for every by-reference actual, left to right: the caller's
variables (its own, or DIM SHARED ones) receive what `Ref.writeBack` prescribes -/
theorem cl_wb_phase (W : World) (sc : Scope) (pre below : List CtxState) (callee : List Val) :
    ∀ (args : Args) (i : Nat) (τ : Vm) (sB : St) (tail : List Val),
    CodeAt W.code τ.pc (writeBacks args) → Rel W sc pre below sB (cl_clr τ) →
    τ.queue = refVals i args callee ++ tail → WbOk sc callee i args →
    ∃ υ, Steps W.code τ υ ∧ υ.pc = τ.pc + 3 * refCount args ∧
      Rel W sc pre below (Proc.Ref.writeBack args i callee sB) (cl_clr υ) ∧
      υ.queue = tail ∧ υ.funRes = τ.funRes ∧ CallFrozen τ υ
  | .nil, i, τ, sB, tail, _, hrel, hq, _ =>
    ⟨τ, Steps.refl τ, by simp [refCount], by simpa [Proc.Ref.writeBack] using hrel, by simpa [refVals] using hq, rfl,
      CallFrozen.refl τ⟩
  | .cons e pn pt rest, i, τ, sB, tail, hc, hrel, hq, hok => by
    obtain ⟨hok1, hok2⟩ := hok
    cases e with
    | var x t q =>
      obtain ⟨hx, hvt⟩ := hok1 x t q rfl
      simp only [writeBacks] at hc
      simp only [refVals, List.cons_append] at hq
      have h0 : W.code[τ.pc]? = some (CInstr.dequeue, q) := hc.append_left.head
      let v := callee.getD i (zeroOf t)
      let τ1 : Vm := Vm.advance { Vm.setA τ v with queue := refVals (i + 1) rest callee ++ tail }
      have s1 : Vm.step W.code τ = .next τ1 := by simp only [Vm.step, h0, hq]; rfl
      have hcs : CodeAt W.code τ1.pc (storeVar x t q) := by
        have := hc.append_left.tail
        exact this
      have st2 := store_steps W.code x t q τ1 hcs
      obtain ⟨_, _, k3, k4, k5, k6, k7, k8, k9, k10, k11, k12, k13, k14, k15⟩ := setV_same τ1 x τ1.regs.a
      obtain ⟨c1, c2, c3⟩ := cl_setV_cgs (cl_clr τ) τ1 x v rfl rfl rfl
      have hrel3 : Rel W sc pre below (sB.set x v) (cl_clr (storeSt τ1 x)) :=
        hrel.store hx hvt c1 k6 k8 k9 rfl rfl c2 c3
      obtain ⟨υ, st, hp, hrelυ, hq', hf', hfz⟩ :=
        cl_wb_phase W sc pre below callee rest (i + 1) (storeSt τ1 x) (sB.set x v) tail
          (by
            have := hc.append_right
            rw [storeSt_pc]
            exact this.at (by simp [τ1, Vm.advance, Vm.setA])) hrel3 k10 hok2
      refine ⟨υ, Steps.cons s1 (st2.trans st), ?_, ?_, hq', ?_, CallFrozen.trans ?_ hfz⟩
      · rw [hp, storeSt_pc]; simp only [τ1, Vm.advance, Vm.setA, refCount, Proc.Expr.isRef, if_true]; omega
      · simp only [Proc.Ref.writeBack]; exact hrelυ
      · rw [hf']; exact k11
      · exact ⟨k3, k4, k5, k6, k7, k8, k9, k12, k13, k15, k14⟩
    | lit v q =>
      simp only [writeBacks] at hc
      simpa [refCount, refVals, Proc.Expr.isRef, Proc.Ref.writeBack] using
        cl_wb_phase W sc pre below callee rest (i + 1) τ sB tail hc hrel (by simpa [refVals] using hq) hok2
    | un op e' q =>
      simp only [writeBacks] at hc
      simpa [refCount, refVals, Proc.Expr.isRef, Proc.Ref.writeBack] using
        cl_wb_phase W sc pre below callee rest (i + 1) τ sB tail hc hrel (by simpa [refVals] using hq) hok2
    | bin op l r t q =>
      simp only [writeBacks] at hc
      simpa [refCount, refVals, Proc.Expr.isRef, Proc.Ref.writeBack] using
        cl_wb_phase W sc pre below callee rest (i + 1) τ sB tail hc hrel (by simpa [refVals] using hq) hok2
    | paren e' q =>
      simp only [writeBacks] at hc
      simpa [refCount, refVals, Proc.Expr.isRef, Proc.Ref.writeBack] using
        cl_wb_phase W sc pre below callee rest (i + 1) τ sB tail hc hrel (by simpa [refVals] using hq) hok2
    | callFn f a t q =>
      simp only [writeBacks] at hc
      simpa [refCount, refVals, Proc.Expr.isRef, Proc.Ref.writeBack] using
        cl_wb_phase W sc pre below callee rest (i + 1) τ sB tail hc hrel (by simpa [refVals] using hq) hok2

/-! ### a declaration of this layer seen as one of the procedures layer -/

/-- the declaration without its body: what the lemmas of `Thm/ProcSimCall.lean` about slot tables and parameter binding are
about -/
def cl_pd (d : ProcDecl SStmt) : ProcDecl Proc.SStmt := { d with body := Proc.SStmt.skip }

theorem cl_pd_scope (gl : List Ty) (f : Nat) (d : ProcDecl SStmt) :
    RbThm.ProcSim.procScope gl f (cl_pd d) = procScope gl f d := rfl

theorem cl_pd_slotsOk (d : ProcDecl SStmt) (h : SlotsOk d) : RbThm.ProcSim.SlotsOk (cl_pd d) := h

/-! ### back in the caller -/

/-- after `PopStack` the machine is again in the caller's activation: its own environment is the one it had at the call
(an ordinary frame below the callee's state is untouched), or — when the caller is a STATIC procedure — the current
content of its block; the DIM SHARED variables and the STATIC blocks are as the callee left them -/
theorem cl_rel_back (W : World) (sc scd : Scope) (pre below : List CtxState) (s1 s2 : St) (τ υ : Vm) (fr1 : Frame)
    (hrel : Rel W scd [] (pre ++ topState sc fr1 :: below) s2 τ) (hcoll : Collecting pre)
    (hs1 : s1.self = sc.self) (hgl : sc.slots.glob = W.P.gslots)
    (hscok : ∀ f, sc.self = some f → ∃ d, W.P.procs[f]? = some d ∧ d.static = true ∧ sc.slots.loc = d.slots)
    (hns : sc.self = none → FrameRel sc fr1 s1.env ∧ Typed sc.slots.loc s1.env)
    (hst : ∀ g, sc.self = some g → ∃ fr, τ.statics g = some fr ∧ ∀ i, i < sc.np → ∃ w, fr[i]? = some (some w))
    (hctx : υ.ctx = pre ++ topState sc fr1 :: below) (hg : υ.glob = τ.glob) (hs : υ.statics = τ.statics)
    (ho : υ.out = τ.out) (hd : υ.data = τ.data) (hi : υ.dataIdx = τ.dataIdx) (hq : υ.queue = [])
    (hf : υ.funRes = none) :
    Rel W sc pre below { s2 with env := s1.env, self := s1.self } υ := by
  cases hself : sc.self with
  | none =>
    obtain ⟨hfr, hty⟩ := hns hself
    have hs0 : s1.self = none := by rw [hs1, hself]
    have hloc : ({ s2 with env := s1.env, self := s1.self } : St).locals = s1.env := by
      simp [Proc.Ref.St.locals, hs0]
    have htop : topState sc fr1 = .frame fr1 := by simp [topState, hself]
    refine ⟨hcoll, by simp [hs0, hself], ⟨fr1, hctx, ?_, by rw [hloc]; exact hfr⟩, by rw [hloc]; exact hty, hgl,
      by rw [hg]; exact hrel.glob, hrel.gtyped, by rw [hs]; exact hrel.stat, hscok, by rw [ho, hrel.out],
      by rw [hd, hrel.data], by rw [hi, hrel.dataIdx], hq, hf⟩
    unfold Vm.curFrame; rw [hctx, htop]; exact curVars_pre _ hcoll _ _
  | some g =>
    obtain ⟨fr, hfr, hcr⟩ := hst g hself
    obtain ⟨d, hd', hdst, hsl⟩ := hscok g hself
    have hs0 : s1.self = some g := by rw [hs1, hself]
    have hloc : ({ s2 with env := s1.env, self := s1.self } : St).locals = s2.statics g := by
      simp [Proc.Ref.St.locals, hs0]
    have htop : topState sc fr1 = .sframe g := by simp [topState, hself]
    have hsr := hrel.stat g d hd' hdst
    have hfrel : FrameRel sc fr (s2.statics g) := by
      refine ⟨fun x t hx => ?_, hcr⟩
      rw [hsl] at hx
      have := hsr.get x t hx
      simpa [ogetVar, hfr] using this
    refine ⟨hcoll, by simp [hs0, hself], ⟨fr, by rw [hctx, htop, topState, hself], ?_, by rw [hloc]; exact hfrel⟩,
      by rw [hloc, hsl]; exact hsr.typed, hgl,
      by rw [hg]; exact hrel.glob, hrel.gtyped, by rw [hs]; exact hrel.stat, hscok, by rw [ho, hrel.out],
      by rw [hd, hrel.data], by rw [hi, hrel.dataIdx], hq, hf⟩
    unfold Vm.curFrame; rw [hctx, htop, hs, curVars_pre_s _ hcoll]; exact hfr

/-- `PopStack` on the callee's normal state (an ordinary frame or a state on a STATIC block) -/
theorem cl_popStack_step (code : Code) (scd : Scope) (fr2 : Frame) (c : CtxState) (rest : List CtxState) (p p' : Pos)
    (tr : List Pos) (υ : Vm) (hi : code[υ.pc]? = some (CInstr.popStack, p))
    (hctx : υ.ctx = topState scd fr2 :: c :: rest) (htr : υ.trace = p' :: tr) :
    Vm.step code υ = .next (Vm.advance { υ with ctx := c :: rest, trace := tr }) := by
  cases hsd : scd.self with
  | none =>
    have e : υ.ctx = .frame fr2 :: c :: rest := by rw [hctx]; simp [topState, hsd]
    simp only [Vm.step, hi, e, htr]
  | some g =>
    have e : υ.ctx = .sframe g :: c :: rest := by rw [hctx]; simp [topState, hsd]
    simp only [Vm.step, hi, e, htr]

/-- the cl_epilogue of a call, from the state in which the callee has returned (its normal state still on top) -/
theorem cl_epilogue (W : World) (sc scd : Scope) (pre below : List CtxState) (args : Args) (p p' : Pos) (res : Option Ty)
    (ra : Nat) (τ : Vm) (s1 s2 : St) (fr1 : Frame) (tr : List Pos)
    (hc : CodeAt W.code ra (enqueues 0 args ++
      (match res with | some t => [(CInstr.stashResult args.length t, p)] | none => []) ++
      [(CInstr.popStack, p)] ++ writeBacks args ++ (match res with | some _ => [(CInstr.unStash, p)] | none => [])))
    (hpc : τ.pc = ra) (hrel : Rel W scd [] (pre ++ topState sc fr1 :: below) s2 τ) (hcoll : Collecting pre)
    (hs1 : s1.self = sc.self) (hgl : sc.slots.glob = W.P.gslots)
    (hscok : ∀ f, sc.self = some f → ∃ d, W.P.procs[f]? = some d ∧ d.static = true ∧ sc.slots.loc = d.slots)
    (hns : sc.self = none → FrameRel sc fr1 s1.env ∧ Typed sc.slots.loc s1.env)
    (hst : ∀ g, sc.self = some g → ∃ fr, τ.statics g = some fr ∧ ∀ i, i < sc.np → ∃ w, fr[i]? = some (some w))
    (htr : τ.trace = p' :: tr) (haw : AWf W.sg sc.slots args)
    (hsl : ∀ (k : Nat) (pn : String) (pt : Ty), args.params[k]? = some (pn, pt) → scd.slots.loc[0 + k]? = some pt)
    (hnp : 0 + args.length ≤ scd.np)
    (hrs : ∀ t, res = some t → scd.slots.loc[args.length]? = some t) :
    ∃ υ, Steps W.code τ υ ∧
      υ.pc = ra + (refCount args + (if res.isSome then 1 else 0) + 1 + 3 * refCount args +
        (if res.isSome then 1 else 0)) ∧
      Rel W sc pre below (Proc.Ref.writeBack args 0 s2.locals { s2 with env := s1.env, self := s1.self }) υ ∧
      υ.trace = tr ∧
      υ.regStack = τ.regStack ∧ υ.vals = τ.vals ∧ υ.paths = τ.paths ∧ υ.rets = τ.rets ∧ υ.marks = τ.marks ∧
      υ.gosubs = τ.gosubs ∧
      υ.skipNewline = τ.skipNewline ∧
      ∀ t, res = some t → υ.regs.a = s2.locals.getD args.length (zeroOf t) ∧
        (s2.locals.getD args.length (zeroOf t)).tag = t := by
  subst hpc
  obtain ⟨fr2, hctx, hcf2, hfr2⟩ := hrel.ctx
  simp only [List.nil_append] at hctx
  have hrefs := refsOk_of scd fr2 s2.locals hfr2 W.sg sc.slots args 0 haw hsl hnp
  have hwb := wbOk_of sc scd.slots.loc s2.locals hrel.typed W.sg args 0 haw hsl
  obtain ⟨c, rest, hcr⟩ : ∃ c rest, pre ++ topState sc fr1 :: below = c :: rest := by
    cases pre with
    | nil => exact ⟨_, _, rfl⟩
    | cons a l => exact ⟨_, _, rfl⟩
  cases res with
  | none =>
    simp only [List.append_nil] at hc
    obtain ⟨υ1, st1, hp1, hq1, hcx1, hgl1, hst1, hf1, hrg1, hfz1⟩ :=
      cl_enq_phase W.code fr2 s2.locals args 0 τ hc.append_left.append_left hcf2 hrefs
    have hpop : W.code[υ1.pc]? = some (CInstr.popStack, p) := by
      have := hc.append_left.append_right.head
      rw [len_enqueues] at this
      rw [hp1]; exact this
    let υ2 : Vm := Vm.advance { υ1 with ctx := c :: rest, trace := tr }
    have s2' : Vm.step W.code υ1 = .next υ2 :=
      cl_popStack_step W.code scd fr2 c rest p p' tr υ1 hpop (by rw [hcx1, hctx, hcr]) (by rw [hfz1.trace, htr])
    have hq2 : υ2.queue = refVals 0 args s2.locals ++ [] := by
      simp only [υ2, Vm.advance, hq1, hrel.queue, List.nil_append, List.append_nil]
    have hcw : CodeAt W.code υ2.pc (writeBacks args) := by
      have := hc.append_right
      simp only [List.length_append, List.length_singleton, len_enqueues] at this
      simp only [υ2, Vm.advance, hp1]
      exact this.at (by omega)
    have hback : Rel W sc pre below { s2 with env := s1.env, self := s1.self } (cl_clr υ2) :=
      cl_rel_back W sc scd pre below s1 s2 τ (cl_clr υ2) fr1 hrel hcoll hs1 hgl hscok hns hst
        (by simp only [cl_clr, υ2, Vm.advance, hcr]) (by simp only [cl_clr, υ2, Vm.advance, hgl1])
        (by simp only [cl_clr, υ2, Vm.advance, hst1]) (by simp only [cl_clr, υ2, Vm.advance]; exact hfz1.out)
        (by simp only [cl_clr, υ2, Vm.advance]; exact hfz1.data) (by simp only [cl_clr, υ2, Vm.advance]; exact hfz1.dataIdx)
        rfl rfl
    obtain ⟨υ3, st3, hp3, hrel3, hq3, hf3, hfz3⟩ :=
      cl_wb_phase W sc pre below s2.locals args 0 υ2 { s2 with env := s1.env, self := s1.self } [] hcw hback hq2 hwb
    have hf3' : υ3.funRes = none := by rw [hf3]; simp only [υ2, Vm.advance]; rw [hf1, hrel.funRes]
    refine ⟨υ3, (st1.trans (Steps.one s2')).trans st3, ?_, ?_, ?_, ?_, ?_, ?_, ?_, ?_, ?_, ?_, ?_⟩
    · rw [hp3]; simp only [υ2, Vm.advance, hp1, Option.isSome_none, Bool.false_eq_true, if_false]; omega
    · exact hrel3.same rfl rfl rfl rfl hq3 hf3'
    · exact hfz3.trace
    · rw [hfz3.regStack]; simp only [υ2, Vm.advance]; exact hfz1.regStack
    · rw [hfz3.vals]; simp only [υ2, Vm.advance]; exact hfz1.vals
    · rw [hfz3.paths]; simp only [υ2, Vm.advance]; exact hfz1.paths
    · rw [hfz3.rets]; simp only [υ2, Vm.advance]; exact hfz1.rets
    · rw [hfz3.marks]; simp only [υ2, Vm.advance]; exact hfz1.marks
    · rw [hfz3.gosubs]; simp only [υ2, Vm.advance]; exact hfz1.gosubs
    · rw [hfz3.skipNewline]; simp only [υ2, Vm.advance]; exact hfz1.skipNewline
    · intro t ht; cases ht
  | some t =>
    simp only at hc
    obtain ⟨υ1, st1, hp1, hq1, hcx1, hgl1, hst1, hf1, hrg1, hfz1⟩ :=
      cl_enq_phase W.code fr2 s2.locals args 0 τ hc.append_left.append_left.append_left.append_left hcf2 hrefs
    have hstash : W.code[υ1.pc]? = some (CInstr.stashResult args.length t, p) := by
      have := hc.append_left.append_left.append_left.append_right.head
      rw [len_enqueues] at this
      rw [hp1]; exact this
    have hrt := hrs t rfl
    let rv := s2.locals.getD args.length (zeroOf t)
    let υ1' : Vm := Vm.advance { υ1 with funRes := some rv }
    have s1' : Vm.step W.code υ1 = .next υ1' := by
      have e1 : υ1.curFrame = some fr2 := by rw [curFrame_congr hcx1 hst1]; exact hcf2
      simp only [Vm.step, hstash, e1, hfr2.get _ t hrt]; rfl
    have hpop : W.code[υ1'.pc]? = some (CInstr.popStack, p) := by
      have := hc.append_left.append_left.append_right.head
      simp only [List.length_append, List.length_singleton, len_enqueues] at this
      simp only [υ1', Vm.advance, hp1]; exact this
    let υ2 : Vm := Vm.advance { υ1' with ctx := c :: rest, trace := tr }
    have s2' : Vm.step W.code υ1' = .next υ2 :=
      cl_popStack_step W.code scd fr2 c rest p p' tr υ1' hpop (by simp only [υ1', Vm.advance]; rw [hcx1, hctx, hcr])
        (by simp only [υ1', Vm.advance]; rw [hfz1.trace, htr])
    have hq2 : υ2.queue = refVals 0 args s2.locals ++ [] := by
      simp only [υ2, υ1', Vm.advance, hq1, hrel.queue, List.nil_append, List.append_nil]
    have hcw : CodeAt W.code υ2.pc (writeBacks args) := by
      have := hc.append_left.append_right
      simp only [List.length_append, List.length_singleton, len_enqueues] at this
      simp only [υ2, υ1', Vm.advance, hp1]
      exact this.at (by omega)
    have hback : Rel W sc pre below { s2 with env := s1.env, self := s1.self } (cl_clr υ2) :=
      cl_rel_back W sc scd pre below s1 s2 τ (cl_clr υ2) fr1 hrel hcoll hs1 hgl hscok hns hst
        (by simp only [cl_clr, υ2, υ1', Vm.advance, hcr]) (by simp only [cl_clr, υ2, υ1', Vm.advance, hgl1])
        (by simp only [cl_clr, υ2, υ1', Vm.advance, hst1]) (by simp only [cl_clr, υ2, υ1', Vm.advance]; exact hfz1.out)
        (by simp only [cl_clr, υ2, υ1', Vm.advance]; exact hfz1.data)
        (by simp only [cl_clr, υ2, υ1', Vm.advance]; exact hfz1.dataIdx) rfl rfl
    obtain ⟨υ3, st3, hp3, hrel3, hq3, hf3, hfz3⟩ :=
      cl_wb_phase W sc pre below s2.locals args 0 υ2 { s2 with env := s1.env, self := s1.self } [] hcw hback hq2 hwb
    have hun : W.code[υ3.pc]? = some (CInstr.unStash, p) := by
      have := hc.append_right.head
      simp only [List.length_append, List.length_singleton, len_enqueues, len_writeBacks] at this
      rw [hp3]; simp only [υ2, υ1', Vm.advance, hp1]
      rw [← this]; congr 1; omega
    let υ4 : Vm := Vm.advance { Vm.setA υ3 rv with funRes := none }
    have s4 : Vm.step W.code υ3 = .next υ4 := by
      have e1 : υ3.funRes = some rv := hf3
      simp only [Vm.step, hun, e1]; rfl
    refine ⟨υ4, ((st1.trans (Steps.cons s1' (Steps.one s2'))).trans st3).trans (Steps.one s4),
      ?_, ?_, ?_, ?_, ?_, ?_, ?_, ?_, ?_, ?_, ?_⟩
    · simp only [υ4, Vm.advance, Vm.setA, hp3, υ2, υ1', hp1, Option.isSome_some, if_true]; omega
    · exact hrel3.same rfl rfl rfl rfl hq3 rfl
    · exact hfz3.trace
    · simp only [υ4, Vm.advance, Vm.setA]; rw [hfz3.regStack]; simp only [υ2, υ1', Vm.advance]; exact hfz1.regStack
    · simp only [υ4, Vm.advance, Vm.setA]; rw [hfz3.vals]; simp only [υ2, υ1', Vm.advance]; exact hfz1.vals
    · simp only [υ4, Vm.advance, Vm.setA]; rw [hfz3.paths]; simp only [υ2, υ1', Vm.advance]; exact hfz1.paths
    · simp only [υ4, Vm.advance, Vm.setA]; rw [hfz3.rets]; simp only [υ2, υ1', Vm.advance]; exact hfz1.rets
    · simp only [υ4, Vm.advance, Vm.setA]; rw [hfz3.marks]; simp only [υ2, υ1', Vm.advance]; exact hfz1.marks
    · simp only [υ4, Vm.advance, Vm.setA]; rw [hfz3.gosubs]; simp only [υ2, υ1', Vm.advance]; exact hfz1.gosubs
    · simp only [υ4, Vm.advance, Vm.setA]; rw [hfz3.skipNewline]; simp only [υ2, υ1', Vm.advance]
      exact hfz1.skipNewline
    · intro t' ht'
      cases ht'
      exact ⟨rfl, RbThm.C01Sim.SimRead.typed_getD_tag hrel.typed hrt _⟩

/-! ### entering the callee -/

/-- `PushStack` / `PushStaticStack f`: the collected values become the callee's parameters — in a fresh frame, or in the
persistent block of the STATIC procedure `f` (every other variable of the block keeps its value) — and the machine is in
the callee's activation, in the state `Ref.enter` prescribes -/
theorem cl_entry_step (W : World) (procs : List (ProcDecl SStmt)) (hp : ProcsOk W procs) (sc : Scope) (f : Nat)
    (d : ProcDecl SStmt) (hd : procs[f]? = some d) (pre below : List CtxState) (s1 : St) (τ2 : Vm) (vals : List Val)
    (p : Pos) (hrel2 : Rel W sc (.args vals :: pre) below s1 τ2)
    (hi : W.code[τ2.pc]? = some (pushStackInstr W.lay f, p))
    (htags : vals.map Val.tag = d.params.map (·.2)) :
    ∃ τ3 fr1, τ2.ctx = .args vals :: (pre ++ topState sc fr1 :: below) ∧ τ2.curFrame = some fr1 ∧
      FrameRel sc fr1 s1.locals ∧
      Vm.step W.code τ2 = .next τ3 ∧ τ3.pc = τ2.pc + 1 ∧
      Rel W (procScope W.P.gslots f d) [] (pre ++ topState sc fr1 :: below)
        (ProcJ.Ref.enterCore { d with body := desugar d.body } f vals s1) τ3 ∧
      τ3.trace = p :: τ2.trace ∧ τ3.regs = τ2.regs ∧ τ3.regStack = τ2.regStack ∧ τ3.vals = τ2.vals ∧
      τ3.paths = τ2.paths ∧ τ3.rets = τ2.rets ∧ τ3.marks = τ2.marks ∧ τ3.gosubs = τ2.gosubs ∧
      τ3.skipNewline = τ2.skipNewline := by
  obtain ⟨fr1, hctx2, hcf1, hfr1⟩ := hrel2.ctx
  have hctx2' : τ2.ctx = .args vals :: (pre ++ topState sc fr1 :: below) := by simpa using hctx2
  obtain ⟨hslots, hwfb⟩ := hp.wf f d hd
  have hPf : W.P.procs[f]? = some { d with body := desugar d.body } := by
    rw [hp.ref, List.getElem?_map, hd]; rfl
  have hvlen : vals.length = d.params.length := by
    have := congrArg List.length htags
    simpa using this
  have hflag : (W.lay[f]?.getD (0, false)).snd = d.static := by
    have := hp.st f d hd
    simpa [List.getD] using this
  by_cases hdt : d.static = true
  case neg =>
    have hds : d.static = false := by simpa using hdt
    have hi' : W.code[τ2.pc]? = some (CInstr.pushStack, p) := by
      rw [hi]; simp [pushStackInstr, hflag, hds]
    let τ3 : Vm := Vm.advance { τ2 with ctx := .frame (vals.map some) :: (pre ++ topState sc fr1 :: below),
                                        trace := p :: τ2.trace }
    have s3 : Vm.step W.code τ2 = .next τ3 := by simp only [Vm.step, hi', hctx2']; rfl
    have hent : ProcJ.Ref.enterCore { d with body := desugar d.body } f vals s1 =
        { s1 with self := none, env := Proc.Ref.freshEnv d.slots vals } := by
      simp [ProcJ.Ref.enterCore, hds]
    have hself : (procScope W.P.gslots f d).self = none := by simp [procScope, hds]
    refine ⟨τ3, fr1, hctx2', hcf1, hfr1, s3, rfl, ?_, rfl, rfl, rfl, rfl, rfl, rfl, rfl, rfl, rfl⟩
    rw [hent]
    refine ⟨trivial, hself.symm, ⟨vals.map some, by simp [τ3, Vm.advance, topState, hself], rfl, ?_⟩, ?_, rfl,
      hrel2.glob, hrel2.gtyped, hrel2.stat, ?_, hrel2.out, hrel2.data, hrel2.dataIdx, hrel2.queue, hrel2.funRes⟩
    · exact RbThm.ProcSim.frameRel_fresh W.P.gslots f (cl_pd d) vals hvlen
    · exact RbThm.ProcSim.typed_fresh (cl_pd d) vals hslots htags
    · intro g hg; rw [hself] at hg; cases hg
  case pos =>
    have hds : d.static = true := hdt
    have hi' : W.code[τ2.pc]? = some (CInstr.pushStatic f, p) := by
      rw [hi]; simp [pushStackInstr, hflag, hds]
    let blk : Frame := newBlock (τ2.statics f) vals
    let τ3 : Vm := Vm.advance { τ2 with ctx := .sframe f :: (pre ++ topState sc fr1 :: below), trace := p :: τ2.trace,
                                        statics := fun g => if g = f then some blk else τ2.statics g }
    have s3 : Vm.step W.code τ2 = .next τ3 := by
      simp only [Vm.step, hi', hctx2']
      cases hsf : τ2.statics f <;> simp [τ3, blk, newBlock, hsf]
    have hent : ProcJ.Ref.enterCore { d with body := desugar d.body } f vals s1 =
        { s1 with self := some f,
                  statics := fun g => if g = f then Proc.Ref.rebind (s1.statics f) vals else s1.statics g } := by
      simp [ProcJ.Ref.enterCore, hds]
    have hself : (procScope W.P.gslots f d).self = some f := by simp [procScope, hds]
    have hsr := hrel2.stat f { d with body := desugar d.body } hPf hds
    have hfrb : FrameRel (procScope W.P.gslots f d) blk (Proc.Ref.rebind (s1.statics f) vals) :=
      RbThm.ProcSim.frameRel_rebind W.P.gslots f (cl_pd d) (τ2.statics f) (s1.statics f) vals hvlen hsr
    have htyb : Typed d.slots (Proc.Ref.rebind (s1.statics f) vals) := RbThm.ProcSim.typed_rebind (cl_pd d) (s1.statics f) vals hslots htags hsr.typed
    refine ⟨τ3, fr1, hctx2', hcf1, hfr1, s3, rfl, ?_, rfl, rfl, rfl, rfl, rfl, rfl, rfl, rfl, rfl⟩
    rw [hent]
    refine ⟨trivial, hself.symm, ⟨blk, by simp [τ3, Vm.advance, topState, hself], ?_, ?_⟩, ?_, rfl,
      hrel2.glob, hrel2.gtyped, ?_, ?_, hrel2.out, hrel2.data, hrel2.dataIdx, hrel2.queue, hrel2.funRes⟩
    · simp [Vm.curFrame, τ3, Vm.advance, curVars]
    · simpa [Proc.Ref.St.locals] using hfrb
    · simpa [Proc.Ref.St.locals, procScope] using htyb
    · intro g dg hdg hst
      by_cases hg : g = f
      · subst hg
        have : dg = { d with body := desugar d.body } := by rw [hPf] at hdg; exact (Option.some.inj hdg).symm
        subst this
        simp only [τ3, Vm.advance, if_true]
        exact ⟨htyb, fun x t hx => by simpa [ogetVar] using hfrb.get x t hx⟩
      · simp only [τ3, Vm.advance, hg, if_false]
        exact hrel2.stat g dg hdg hst
    · intro g hg
      rw [hself] at hg
      cases hg
      exact ⟨_, hPf, hds, rfl⟩

/-- the code of a call: prologue (up to the `Jump`) and cl_epilogue (from the return address) -/
theorem cl_callCode_split (lay : Layout) (off f : Nat) (args : Args) (p : Pos) (res : Option Ty) :
    callCode lay off f args p res =
      ([(CInstr.beginArgs, p)] ++ pushArgs lay (off + 1) args ++
        [(pushStackInstr lay f, p), (CInstr.pushRet (off + 1 + sizePush args + 3), p),
         (CInstr.jump (lay.addr f), p)]) ++
      (enqueues 0 args ++ (match res with | some t => [(CInstr.stashResult args.length t, p)] | none => []) ++
        [(CInstr.popStack, p)] ++ writeBacks args ++
        (match res with | some _ => [(CInstr.unStash, p)] | none => [])) := by
  cases res <;> simp only [callCode, List.append_assoc]


/-! ### the body of a procedure in the code -/

/-- the body context of a procedure: its code lies behind the header (label, default result), the final `PopRet` follows it -/
theorem procBody_ok (W : World) (procs : List (ProcDecl SStmt)) (hP : ProcsOk W procs) (f : Nat) (d : ProcDecl SStmt)
    (hd : procs[f]? = some d) : (procBody W f d).Ok W := by
  obtain ⟨hslots, hwf, hlab⟩ := hP.wf f d hd
  have hat := hP.at_ f d hd
  unfold compileProc at hat
  refine ⟨?_, ?_, hwf, hlab, rfl⟩
  · show CodeAt W.code (W.lay.addr f + headerSize d) (compileStmt W.lay W.env "" 0 0 (W.lay.addr f + headerSize d) d.body)
    cases hr : d.result with
    | none =>
      simp only [hr] at hat
      have := hat.append_left.append_right
      simpa [headerSize, hr] using this
    | some t =>
      simp only [hr] at hat
      cases hst : d.static with
      | false =>
        simp only [hst, Bool.false_eq_true, if_false] at hat
        have := hat.append_left.append_right
        simpa [headerSize, hr, hst] using this
      | true =>
        simp only [hst, if_true] at hat
        have := hat.append_left.append_right
        simpa [headerSize, hr, hst] using this
  · show ∃ p, W.code[W.lay.addr f + headerSize d + sizeStmt W.env.dp 0 0 d.body]? = some (CInstr.popRet, p)
    refine ⟨d.pos, ?_⟩
    cases hr : d.result with
    | none =>
      simp only [hr] at hat
      have := hat.append_right.head
      simp only [List.length_append, List.length_singleton, len_stmt] at this
      rw [← this]; congr 1; simp [headerSize, hr]; omega
    | some t =>
      simp only [hr] at hat
      cases hst : d.static with
      | false =>
        simp only [hst, Bool.false_eq_true, if_false] at hat
        have := hat.append_right.head
        simp only [List.length_append, List.length_cons, List.length_nil, len_stmt] at this
        rw [← this]; congr 1; simp [headerSize, hr, hst]; omega
      | true =>
        simp only [hst, if_true] at hat
        have := hat.append_right.head
        simp only [List.length_append, List.length_cons, List.length_nil, len_stmt] at this
        rw [← this]; congr 1; simp [headerSize, hr, hst]; omega

/-- the label of a procedure and, for a FUNCTION, the default result (loaded into A; a STATIC function also stores it into
its result variable: the result of the previous call does not persist): control arrives at the body in the state
`Ref.enter` prescribes, the stacks as they were -/
theorem cl_body_entry (W : World) (scd : Scope) (below' : List CtxState) (tgt : Nat) (d : ProcDecl SStmt) (sE : St) (τ : Vm)
    (hc : CodeAt W.code tgt (compileProc W.lay W.env tgt d)) (hpc : τ.pc = tgt) (hrel : Rel W scd [] below' sE τ)
    (hres : ∀ rt, d.result = some rt → scd.slots.loc[d.params.length]? = some rt) :
    ∃ σb, Steps W.code τ σb ∧ σb.pc = tgt + headerSize d ∧
      Rel W scd [] below'
        (match d.static, d.result with
         | true, some rt => sE.set ⟨false, d.params.length⟩ (zeroOf rt)
         | _, _ => sE) σb ∧
      SameStacks τ σb := by
  subst hpc
  unfold compileProc at hc
  cases hr : d.result with
  | none =>
    simp only [hr] at hc
    have h0 : W.code[τ.pc]? = some (CInstr.label (":sub:" ++ d.name), d.pos) := hc.append_left.append_left.head
    refine ⟨Vm.advance τ, Steps.one ?_, by simp [Vm.advance, headerSize, hr], ?_, ⟨rfl, rfl, rfl, rfl, rfl, rfl, rfl, id⟩⟩
    · simp only [Vm.step, h0]
    · have : (match d.static, (none : Option Ty) with
          | true, some rt => sE.set ⟨false, d.params.length⟩ (zeroOf rt)
          | _, _ => sE) = sE := by cases d.static <;> rfl
      rw [this]; exact hrel.advance
  | some t =>
    simp only [hr] at hc
    by_cases hst : d.static = true
    case neg =>
      have hsf : d.static = false := by simpa using hst
      simp only [hsf, Bool.false_eq_true, if_false] at hc
      have h0 : W.code[τ.pc]? = some (CInstr.label (":fun:" ++ d.name), d.pos) := hc.append_left.append_left.head
      have h1 : W.code[τ.pc + 1]? = some (CInstr.allocate t, d.pos) := hc.append_left.append_left.tail.head
      refine ⟨Vm.advance (Vm.setA (Vm.advance τ) (zeroOf t)),
        Steps.cons (τ := Vm.advance τ) ?_ (Steps.one ?_), by simp [Vm.advance, Vm.setA, headerSize, hr, hsf], ?_,
        ⟨rfl, rfl, rfl, rfl, rfl, rfl, rfl, id⟩⟩
      · simp only [Vm.step, h0]
      · simp only [Vm.step, Vm.advance, h1]
      · simp only [hsf]
        exact ((hrel.advance).setA _).advance
    case pos =>
      simp only [hst, if_true] at hc
      have h0 : W.code[τ.pc]? = some (CInstr.label (":fun:" ++ d.name), d.pos) := hc.append_left.append_left.head
      have h1 : W.code[τ.pc + 1]? = some (CInstr.allocate t, d.pos) := hc.append_left.append_left.tail.head
      let τ2 : Vm := Vm.advance (Vm.setA (Vm.advance τ) (zeroOf t))
      have s1 : Vm.step W.code τ = .next (Vm.advance τ) := by simp only [Vm.step, h0]
      have s2 : Vm.step W.code (Vm.advance τ) = .next τ2 := by simp only [Vm.step, Vm.advance, h1]; rfl
      have hcs : CodeAt W.code τ2.pc (storeVar ⟨false, d.resultSlot⟩ t d.pos) := by
        have := hc.append_left.append_left.tail.tail
        exact this.at (by simp [τ2, Vm.advance, Vm.setA])
      have st3 := store_steps W.code ⟨false, d.resultSlot⟩ t d.pos τ2 hcs
      have hx : scd.slots.get? ⟨false, d.resultSlot⟩ = some t := by
        simpa [SlotTabs.get?, ProcDecl.resultSlot] using hres t hr
      have hrel2 : Rel W scd [] below' sE τ2 := ((hrel.advance).setA _).advance
      have hrel3 := hrel2.storeSt hx (show τ2.regs.a.tag = t from RbThm.ProcSim.zeroOf_tag t)
      refine ⟨storeSt τ2 ⟨false, d.resultSlot⟩, Steps.cons s1 (Steps.cons s2 st3), ?_, ?_,
        SameStacks.trans (show SameStacks τ τ2 from ⟨rfl, rfl, rfl, rfl, rfl, rfl, rfl, id⟩) (SameStacks.storeSt τ2 _)⟩
      · rw [storeSt_pc]; simp [τ2, Vm.advance, Vm.setA, headerSize, hr, hst]
      · simp only [hst]
        exact hrel3

/-! ### the call -/

/-- **`call_correct`** — a call of procedure `f` with actual arguments `args` does what `Ref.call` prescribes -/
theorem call_correct (W : World) (procs : List (ProcDecl SStmt)) (hp : ProcsOk W procs) (fuel : Nat)
    (ih : IHle W fuel) : CallIH W (fuel + 1) := by
  intro sc f args p res off pre below s σ hc hpc hr hsg haw
  -- the declaration of the callee
  have hsg' : (sigsOf procs)[f]? = some (res, args.params) := by rw [← hp.sg]; exact hsg
  simp only [sigsOf, List.getElem?_map] at hsg'
  cases hd : procs[f]? with
  | none => simp [hd] at hsg'
  | some d =>
    simp only [hd, Option.map_some, Option.some.injEq, Prod.mk.injEq] at hsg'
    obtain ⟨hres, hpar⟩ := hsg'
    have hPf : W.P.procs[f]? = some { d with body := desugar d.body } := by
      rw [hp.ref, List.getElem?_map, hd]; rfl
    obtain ⟨hslots, hwfb, hlabb⟩ := hp.wf f d hd
    have hat := hp.at_ f d hd
    have hBok := procBody_ok W procs hp f d hd
    have hplen : d.params.length = args.length := by rw [hpar, params_length]
    subst hpc
    -- pieces of the code
    rw [cl_callCode_split] at hc
    have hcPro := hc.append_left
    have hcEpi := hc.append_right
    simp only [List.length_append, List.length_singleton, List.length_cons, List.length_nil, len_pushArgs] at hcEpi
    -- BeginCollectArguments
    have h0 : W.code[σ.pc]? = some (CInstr.beginArgs, p) := hcPro.append_left.append_left.head
    let σ1 : Vm := Vm.advance { σ with ctx := .args [] :: σ.ctx }
    have s1 : Vm.step W.code σ = .next σ1 := by simp only [Vm.step, h0]; rfl
    have hrel1 : Rel W sc (.args [] :: pre) below s σ1 :=
      hr.repre (pre' := .args [] :: pre) hr.coll (fun fr hfr => by simp [σ1, Vm.advance, hfr]) rfl rfl rfl rfl rfl rfl rfl
    have hcArgs : CodeAt W.code (σ.pc + 1) (pushArgs W.lay (σ.pc + 1) args) := by
      have := hcPro.append_left.append_right
      simpa using this
    have hA := ih.self.args sc args (σ.pc + 1) pre below [] s σ1 hcArgs rfl hrel1 haw
    simp only [ProcJ.Ref.call, hPf]
    generalize ProcJ.Ref.evalArgs W.P fuel args s = rA at hA ⊢
    obtain ⟨s1', rv⟩ := rA
    cases rv with
    | error o => exact ErrPost.of_steps (Steps.one s1) hA
    | ok vals =>
      obtain ⟨τ2, st2, hp2, hrel2, hss2, htags⟩ := hA
      simp only [List.nil_append] at hrel2
      have htags' : vals.map Val.tag = d.params.map (·.2) := by rw [hpar]; exact htags
      -- PushStack / PushStaticStack, PushRet, Jump
      have hM := hcPro.append_right
      simp only [List.length_append, List.length_singleton, len_pushArgs] at hM
      have hm0 : W.code[τ2.pc]? = some (pushStackInstr W.lay f, p) := by
        rw [hp2]; have := hM.head; rw [← this]; congr 1; omega
      have hm1 : W.code[τ2.pc + 1]? = some (CInstr.pushRet (σ.pc + 1 + sizePush args + 3), p) := by
        rw [hp2]; have := hM.tail.head; rw [← this]; congr 1; omega
      have hm2 : W.code[τ2.pc + 1 + 1]? = some (CInstr.jump (W.lay.addr f), p) := by
        rw [hp2]; have := hM.tail.tail.head; rw [← this]; congr 1; omega
      obtain ⟨τ3, fr1, hctx2', hcf1, hfr1, s3, hp3, hrel3, htr3, hrg3, hrs3, hv3, hpa3, hrt3, hmk3, hgs3, hsk3⟩ :=
        cl_entry_step W procs hp sc f d hd pre below s1' τ2 vals p hrel2 hm0 htags'
      let below' : List CtxState := pre ++ topState sc fr1 :: below
      let ra : Nat := σ.pc + 1 + sizePush args + 3
      -- the marks of this activation: the caller's heights
      let mk : Mark := ⟨τ2.regStack.length + 1, τ2.gosubs.length, τ2.vals.length, τ2.paths.length⟩
      let τ4 : Vm := Vm.advance { τ3 with rets := ra :: τ3.rets, marks := mk :: τ3.marks }
      let τ5 : Vm := { τ4 with pc := W.lay.addr f }
      have s4 : Vm.step W.code τ3 = .next τ4 := by
        have : W.code[τ3.pc]? = some (CInstr.pushRet (σ.pc + 1 + sizePush args + 3), p) := by rw [hp3]; exact hm1
        simp only [Vm.step, this, τ4, mk, ra, hrs3, hgs3, hv3, hpa3]
      have s5 : Vm.step W.code τ4 = .next τ5 := by
        have : W.code[τ4.pc]? = some (CInstr.jump (W.lay.addr f), p) := by
          simp only [τ4, Vm.advance, hp3]; exact hm2
        simp only [Vm.step, this]; rfl
      -- the label (and the default result)
      let scd := procScope W.P.gslots f d
      let dP : ProcDecl Stmt := { d with body := desugar d.body }
      have h5rets : τ5.rets = ra :: τ2.rets := by simp [τ5, τ4, Vm.advance, hrt3]
      have h5marks : τ5.marks = mk :: τ2.marks := by simp [τ5, τ4, Vm.advance, hmk3]
      have h5reg : τ5.regStack = τ2.regStack := by simp [τ5, τ4, Vm.advance, hrs3]
      have h5vals : τ5.vals = τ2.vals := by simp [τ5, τ4, Vm.advance, hv3]
      have h5paths : τ5.paths = τ2.paths := by simp [τ5, τ4, Vm.advance, hpa3]
      have h5gosubs : τ5.gosubs = τ2.gosubs := by simp [τ5, τ4, Vm.advance, hgs3]
      have h5trace : τ5.trace = p :: τ2.trace := by simp [τ5, τ4, Vm.advance, htr3]
      have h5skip : τ5.skipNewline = τ2.skipNewline := by simp [τ5, τ4, Vm.advance, hsk3]
      have hrel5 : Rel W scd [] below' (ProcJ.Ref.enterCore dP f vals s1') τ5 := hrel3.same rfl rfl rfl rfl rfl rfl
      obtain ⟨σb, stE, hpb0, hrelb0, hkb⟩ :=
        cl_body_entry W scd below' (W.lay.addr f) d (ProcJ.Ref.enterCore dP f vals s1') τ5 hat rfl hrel5
          (by
            intro rt hrt
            simpa [scd, procScope] using hslots.2 rt hrt)
      have hrelb : Rel W scd [] below' (ProcJ.Ref.enter dP f vals s1') σb := hrelb0
      have preB : Steps W.code σ σb :=
        ((Steps.cons s1 st2).trans (Steps.cons s3 (Steps.cons s4 (Steps.one s5)))).trans stE
      have hσbr : σb.rets = ra :: τ2.rets := by rw [hkb.rets, h5rets]
      have hσbm : σb.marks = mk :: τ2.marks := by rw [hkb.marks, h5marks]
      have hσbreg : σb.regStack = τ2.regStack := by rw [hkb.regStack, h5reg]
      have hσbv : σb.vals = τ2.vals := by rw [hkb.vals, h5vals]
      have hσbg : σb.gosubs = τ2.gosubs := by rw [hkb.gosubs, h5gosubs]
      have hσbp : σb.paths = τ2.paths := by rw [hkb.paths, h5paths]
      -- the body: an outermost run of the new activation
      have hactb : ActInv scd 0 0 σb :=
        ⟨fun h => by simp [scd, procScope] at h, fun h => by simp [scd, procScope] at h,
         fun _ => ⟨ra, τ2.rets, mk, τ2.marks, hσbr, hσbm, by rw [hσbreg]; exact Nat.le_refl _, Nat.le_add_left _ _,
          by rw [hσbv]; exact Nat.le_refl _, by rw [hσbg]; exact Nat.le_refl _, by rw [hσbp]⟩⟩
      have hB := ih.self.stmt (procBody W f d) d.body "" 0 0 (W.lay.addr f + headerSize d) .run below'
        (ProcJ.Ref.enter dP f vals s1') σb hBok hBok.hcode hBok.lab hBok.wf hpb0 hrelb hactb
      change StmtPost W scd below' 0 0 _ σb
        (ProcJ.Ref.exec W.P fuel ⟨true, desugar d.body⟩ (desugar d.body) .run (ProcJ.Ref.enter dP f vals s1')) at hB
      simp only
      generalize ProcJ.Ref.exec W.P fuel ⟨true, desugar d.body⟩ (desugar d.body) .run (ProcJ.Ref.enter dP f vals s1') = rb
        at hB ⊢
      obtain ⟨s2, o⟩ := rb
      -- the callee returns: by the final `PopRet` or by `EXIT SUB / FUNCTION`
      have hret : ProcJ.Ref.returns o = true →
          ∃ τr, Steps W.code σb τr ∧ ExitedTo σb τr ∧ Rel W scd [] below' s2 τr := by
        intro hro
        cases o with
        | normal =>
          obtain ⟨τb, stb, hpb, hrelbb, hssb⟩ := hB
          obtain ⟨q, hq⟩ := hBok.hend
          have hpr : W.code[τb.pc]? = some (CInstr.popRet, q) := by rw [hpb]; exact hq
          obtain ⟨τr, sr, hx, e1, e2, e3, e4, e5, e6, e7, e8⟩ :=
            popRet_exits W scd τb q rfl 0 0 (hactb.of_same hssb) hpr
          exact ⟨τr, stb.trans (Steps.one sr), hx.of_same hssb, hrelbb.stacks e1 e2 e3 e4 e5 e6 e7 e8⟩
        | exited => exact hB
        | halted => cases hro
        | jump L => cases hro
        | ret q => cases hro
        | error c q => cases hro
        | inexact => cases hro
        | outOfFuel => cases hro
        | illFormed => cases hro
        | notHere => cases hro
      cases hro : ProcJ.Ref.returns o with
      | false =>
        simp only [Bool.false_eq_true, if_false, CallPost]
        refine ErrPost.of_steps preB ?_
        cases o with
        | normal => cases hro
        | exited => cases hro
        | halted => exact hB
        | error c q => exact hB
        | inexact => trivial
        | outOfFuel => trivial
        | illFormed => trivial
        | jump L => trivial
        | notHere => trivial
        | ret q =>
          -- a RETURN that no GOSUB of this activation answers: the `Return` instruction fails the test of `pop_go_sub_address`
          obtain ⟨τ, st, hretq, hrelq, _, _, _, hgs, _, hmkq, _, _⟩ := hB
          have hnot : ¬ τ.gosubs.length > pendingInCallers τ.marks := by
            rw [hgs, hmkq, hσbg, hσbm]; simp [pendingInCallers, mk]
          have sE : Vm.step W.code τ = .error codeReturnWithoutGoSub q τ := by
            simp only [Vm.step, hretq]
            rw [if_neg hnot]
          show ErrsWith W.code σb ProcJ.Ref.codeReturnWithoutGoSub q s2.out
          exact ⟨τ, τ, st, sE, hrelq.out⟩
      | true =>
        obtain ⟨τr, str, hx, hrelr⟩ := hret hro
        obtain ⟨a', m', hxr, hxm, hxp, hxreg, hxvals, hxgos⟩ := hx.ret
        have hra : a' = ra ∧ τr.rets = τ2.rets := by
          have : ra :: τ2.rets = a' :: τr.rets := by rw [← hσbr]; exact hxr
          injection this with h1 h2
          exact ⟨h1.symm, h2.symm⟩
        have hrm : m' = mk ∧ τr.marks = τ2.marks := by
          have : mk :: τ2.marks = m' :: τr.marks := by rw [← hσbm]; exact hxm
          injection this with h1 h2
          exact ⟨h1.symm, h2.symm⟩
        -- the marks are the caller's heights: nothing is cut
        have hrreg : τr.regStack = τ2.regStack := by
          rw [hxreg, hrm.1, hσbreg]; exact truncTop_of_le _ _ (by simp [mk])
        have hrvals : τr.vals = τ2.vals := by
          rw [hxvals, hrm.1, hσbv]; exact truncTop_of_le _ _ (by simp [mk])
        have hrgos : τr.gosubs = τ2.gosubs := by
          rw [hxgos, hrm.1, hσbg]; exact truncTop_of_le _ _ (by simp [mk])
        -- the caller's block, if it is a STATIC one, still exists with its parameters
        have hgrow : CallGrows τ2 τr :=
          cl_steps_grows (((Steps.cons s3 (Steps.cons s4 (Steps.one s5))).trans stE).trans str)
        have hst : ∀ g, sc.self = some g → ∃ fr, τr.statics g = some fr ∧ ∀ i, i < sc.np → ∃ w, fr[i]? = some (some w) := by
          intro g hg
          have hsf : τ2.statics g = some fr1 := by
            have e := hcf1
            unfold Vm.curFrame at e
            have hc' : τ2.ctx = (.args vals :: pre) ++ topState sc fr1 :: below := by simpa using hctx2'
            rw [hc', curVars_coll _ hrel2.coll] at e
            simpa [topState, hg, curVars] using e
          obtain ⟨fr', e1, k1⟩ := hgrow g fr1 hsf
          exact ⟨fr', e1, fun i hi => k1 i (hfr1.created i hi)⟩
        have hns : sc.self = none → FrameRel sc fr1 s1'.env ∧ Typed sc.slots.loc s1'.env := by
          intro hn
          have hs0 : s1'.self = none := by rw [hrel2.self, hn]
          have hloc : s1'.locals = s1'.env := by simp [Proc.Ref.St.locals, hs0]
          exact ⟨by rw [← hloc]; exact hfr1, by rw [← hloc]; exact hrel2.typed⟩
        have hepi := cl_epilogue W sc scd pre below args p p res ra τr
          s1' s2 fr1 τ2.trace (hcEpi.at (by simp only [ra]; omega)) (by rw [hxp, hra.1]) hrelr hr.coll hrel2.self hrel2.gl
          hrel2.scok hns hst (by rw [hx.trace, hkb.trace, h5trace]) haw
          (by
            intro k' pn pt hk
            rw [← hpar] at hk
            simpa [scd, procScope] using hslots.1 k' pn pt hk)
          (by simp only [scd, procScope]; omega)
          (by
            intro t ht
            rw [← hres] at ht
            simpa [scd, procScope, hplen] using hslots.2 t ht)
        obtain ⟨υ, stυ, hpυ, hrelυ, htrυ, hrgυ, hvυ, hpaυ, hrtυ, hmkυ, hgsυ, hskυ, hresυ⟩ := hepi
        simp only [if_true, CallPost]
        refine ⟨υ, (preB.trans str).trans stυ, ?_, hrelυ, ?_, ?_⟩
        · rw [hpυ]; simp only [sizeCall, ra]; omega
        · refine ⟨?_, ?_, ?_, ?_, ?_, ?_, ?_, ?_⟩
          · rw [hvυ, hrvals]; exact hss2.vals
          · rw [hpaυ, hx.paths, hσbp]; exact hss2.paths
          · rw [hrgυ, hrreg]; exact hss2.regStack
          · rw [hrtυ, hra.2]; exact hss2.rets
          · rw [hmkυ, hrm.2]; exact hss2.marks
          · rw [hgsυ, hrgos]; exact hss2.gosubs
          · rw [htrυ]; exact hss2.trace
          · intro hk; rw [hskυ]; exact hx.skip (hkb.skip (by rw [h5skip]; exact hss2.skip hk))
        · intro t ht
          obtain ⟨h1, h2⟩ := hresυ t ht
          have hdr : d.result = some t := by rw [hres]; exact ht
          simp only [hdr, ProcDecl.resultSlot, hplen]
          exact ⟨h1, h2⟩

end RbThm.ProcJSim
