import Thm.C06
import Thm.C06Core
import Thm.RecLSim
import Thm.RecLProps
/-!
C06 over the records layer (`RbModel.RecL.Ref`: core language + TYPE records, nested records, `STRING * n`).

`Thm/RecLTyping.lean` / `Thm/RecLProps.lean` have the tag / length half of the invariant: every variable that exists has
its declared type (`EnvTyped` / `HasTy`: a numeric field at any nesting depth holds a scalar of the field's tag, a
`STRING * n` location exactly `n` characters).  Here the RANGE half is added — every scalar leaf of every value, at any
depth, is in range for its tag (`RangeRV`) — and both are carried together through every run from the layer's own static
premise `ProgWf` (decidable: `progWfB`).

* `exec_inrange` — every statement, any fuel, **any outcome** (`illFormed` included): `Good sc s → Good sc s'`.
* `field_inrange` — what `Good` says about a numeric field `x.f.g…`: a scalar of the field's declared type within range.
* `field_store_converts`, `field_overflow_iff` — `x.f.g = e` stores the conversion of the value of `e` to the field's type,
  or stops with the conversion's error (Overflow = 6) and stores nothing.
* `run_inrange`, `recl_run_inrange` (through `RecL.compile_correct` to the VM model's `Variant` trees).
-/
namespace RbThm.C06RecL
set_option linter.unusedVariables false
set_option linter.unusedSimpArgs false
open RbModel RbModel.Num RbModel.RecL RbModel.RecL.Spec RbModel.RecL.Ref
open RbModel.Ast (Pos)
open RbThm.C06 RbThm.ArrLNum
open RbThm.RecLTy (eres_bind_ok lift_ok asScalar_ok)
open RbThm.RecLSim (Scope EWf TargetWf)

/-! ### hypotheses: literals of the stored expressions and DATA items are values of their own types (decidable) -/

/-- every literal of the expression is in range for its own tag -/
def litsE : RecL.Expr → Bool
  | .lit v _ => decide v.InRange
  | .var _ _ _ _ => true
  | .un _ e _ => litsE e
  | .bin _ l r _ _ => litsE l && litsE r
  | .paren e _ => litsE e

mutual
/-- the expressions whose values are stored (assigned expressions, FOR start values) have in-range literals -/
def rangeB : Stmt → Bool
  | .skip => true
  | .seq a b => rangeB a && rangeB b
  | .dim _ _ _ => true
  | .assign _ _ _ e _ => litsE e
  | .print _ _ => true
  | .read _ _ => true
  | .ifs _ thn els _ => rangeB thn && rangeB els
  | .select _ cases _ => rangeCB cases
  | .forLoop _ _ lo _ _ body _ => litsE lo && rangeB body
  | .while _ body _ => rangeB body
  | .doLoop _ _ _ body _ => rangeB body
  | .end_ _ => true
def rangeCB : Cases → Bool
  | .nil => true
  | .else_ body => rangeB body
  | .case _ body rest => rangeB body && rangeCB rest
end

/-- **the range premise of a whole program** (decidable) -/
def progRangeB (P : Program) : Bool := rangeB P.body && P.data.all (fun v => decide v.InRange)

/-! ### static well-formedness on the reference syntax -/

mutual
/-- what the invariant needs of a statement of the reference syntax (`RecLSim.Wf` read on the desugared statement) -/
def WfA (sc : Scope) : Stmt → Prop
  | .skip => True
  | .seq a b => WfA sc a ∧ WfA sc b
  | .dim x t _ => sc.slots[x]? = some t ∧ (expand sc.types t).isSome
  | .assign x path t e _ => PathTyped sc.types sc.slots x path t ∧ EWf sc e
  | .print _ _ => True
  | .read tg _ => TargetWf sc tg
  | .ifs _ thn els _ => WfA sc thn ∧ WfA sc els
  | .select _ cases _ => WfAC sc cases
  | .forLoop x t lo _ _ body _ => sc.slots[x]? = some (.sc t) ∧ EWf sc lo ∧ WfA sc body
  | .while _ body _ => WfA sc body
  | .doLoop _ _ _ body _ => WfA sc body
  | .end_ _ => True
def WfAC (sc : Scope) : Cases → Prop
  | .nil => True
  | .else_ body => WfA sc body
  | .case _ body rest => WfA sc body ∧ WfAC sc rest
end

/-! ### the range half of the invariant: every scalar leaf, at any depth -/

mutual
/-- every scalar inside the value — the value itself, a field, a field of a nested record, … — is in range for its tag -/
def RangeRV : RV → Prop
  | .sc v => v.InRange
  | .udt fs => RangeFs fs
def RangeFs : RFs → Prop
  | .nil => True
  | .cons _ v rest => RangeRV v ∧ RangeFs rest
end

/-- every variable that exists holds in-range scalars only -/
def RangeEnv (env : Env) : Prop := ∀ (x : Nat) (v : RV), env[x]? = some (some v) → RangeRV v

/-- **the invariant**: every variable that exists has its declared type (`EnvTyped`: numeric fields at any depth hold a
scalar of the declared tag, `STRING * n` locations `n` characters), every scalar anywhere inside it is in range for its tag,
and every DATA item is in range -/
structure Good (sc : Scope) (s : St) : Prop where
  types : s.types = sc.types
  typed : EnvTyped sc.types sc.slots s.env
  range : RangeEnv s.env
  data : ∀ v ∈ s.data, v.InRange

theorem rangeFs_find : ∀ (rfs : RFs) (f : String) (v : RV), RangeFs rfs → rfs.find f = some v → RangeRV v
  | .nil, _, _, _, h => by simp [RFs.find] at h
  | .cons g c rest, f, v, hn, h => by
    simp only [RangeFs] at hn
    simp only [RFs.find] at h
    by_cases hg : g = f
    · simp only [hg, if_true] at h; injection h with h; subst h; exact hn.1
    · simp only [hg, if_false] at h; exact rangeFs_find rest f v hn.2 h

theorem rangeFs_set : ∀ (rfs rfs' : RFs) (f : String) (w : RV), RangeFs rfs → RangeRV w → rfs.set f w = some rfs' →
    RangeFs rfs'
  | .nil, _, _, _, _, _, h => by simp [RFs.set] at h
  | .cons g c rest, rfs', f, w, hn, hw, h => by
    simp only [RangeFs] at hn
    simp only [RFs.set] at h
    by_cases hg : g = f
    · simp only [hg, if_true] at h; injection h with h; subst h
      simp only [RangeFs]; exact ⟨hw, hn.2⟩
    · simp only [hg, if_false] at h
      cases hr : rest.set f w with
      | none => simp [hr] at h
      | some r' =>
        simp only [hr, Option.map_some] at h; injection h with h; subst h
        simp only [RangeFs]; exact ⟨hn.1, rangeFs_set rest r' f w hn.2 hw hr⟩

/-- reading a location of an in-range value yields an in-range value -/
theorem range_getPath : ∀ (path : List String) (v v' : RV), RangeRV v → v.getPath path = some v' → RangeRV v'
  | [], v, v', hn, h => by simp only [RV.getPath] at h; injection h with h; subst h; exact hn
  | f :: rest, .sc _, _, _, h => by simp [RV.getPath] at h
  | f :: rest, .udt fs, v', hn, h => by
    simp only [RangeRV] at hn
    simp only [RV.getPath] at h
    cases hf : fs.find f with
    | none => simp [hf] at h
    | some c =>
      simp only [hf] at h
      exact range_getPath rest c v' (rangeFs_find fs f c hn hf) h

/-- storing an in-range value into a location of an in-range value keeps the whole in range -/
theorem range_setPath : ∀ (path : List String) (v w v' : RV), RangeRV v → RangeRV w → v.setPath path w = some v' →
    RangeRV v'
  | [], v, w, v', _, hw, h => by simp only [RV.setPath] at h; injection h with h; subst h; exact hw
  | f :: rest, .sc _, _, _, _, _, h => by simp [RV.setPath] at h
  | f :: rest, .udt fs, w, v', hn, hw, h => by
    simp only [RangeRV] at hn
    simp only [RV.setPath] at h
    cases hf : fs.find f with
    | none => simp [hf] at h
    | some c =>
      simp only [hf] at h
      cases hc : c.setPath rest w with
      | none => simp [hc] at h
      | some c' =>
        simp only [hc] at h
        cases hs : fs.set f c' with
        | none => simp [hs] at h
        | some fs' =>
          simp only [hs, Option.map_some] at h; injection h with h; subst h
          simp only [RangeRV]
          exact rangeFs_set fs fs' f c' hn (range_setPath rest c w c' (rangeFs_find fs f c hn hf) hw hc) hs

theorem zeroOf_inRange (t : Ty) : (zeroOf t).InRange := by cases t <;> decide +kernel

mutual
/-- a fresh value (`DIM`) is in range: numeric fields zero, strings spaces -/
theorem range_fresh : ∀ ft : FTy, RangeRV (fresh ft)
  | .sc t => by simp only [fresh, RangeRV]; exact zeroOf_inRange t
  | .fix n => by simp only [fresh, RangeRV, Val.InRange]
  | .udt _ fs => by simp only [fresh, RangeRV]; exact range_freshFs fs
theorem range_freshFs : ∀ fs : FFields, RangeFs (freshFs fs)
  | .nil => by simp only [freshFs, RangeFs]
  | .cons f t rest => by simp only [freshFs, RangeFs]; exact ⟨range_fresh t, range_freshFs rest⟩
end

theorem rangeEnv_set {env : Env} (h : RangeEnv env) (x : Nat) {w : RV} (hw : RangeRV w) :
    RangeEnv (env.set x (some w)) := by
  intro y v hy
  by_cases hxy : x = y
  · subst hxy
    by_cases hlt : x < env.length
    · rw [List.getElem?_set_self hlt] at hy
      injection hy with hy; injection hy with hy; subst hy; exact hw
    · rw [List.getElem?_eq_none (by rw [List.length_set]; omega)] at hy; cases hy
  · rw [List.getElem?_set_ne hxy] at hy
    exact h y v hy

/-! ### expressions -/

/-- the value of an expression whose literals are in range, in an environment whose values are, is in range — operator
results by the value-level theorems of `Thm/C06.lean`; no typing premise is needed for this half -/
theorem eval_range {env : Env} (hn : RangeEnv env) :
    ∀ (e : RecL.Expr) (v : RV), litsE e = true → RecL.Ref.eval env e = .ok v → RangeRV v
  | .lit a _, v, hl, h => by
    simp only [RecL.Ref.eval] at h; injection h with h; subst h
    simpa [litsE, RangeRV] using hl
  | .var x path t _, v, _, h => by
    simp only [RecL.Ref.eval] at h
    cases hx : env[x]? with
    | none => simp [hx] at h
    | some o =>
      cases o with
      | none => simp [hx] at h
      | some rv =>
        simp only [hx] at h
        cases hp : rv.getPath path with
        | none => simp [hp] at h
        | some v' =>
          simp only [hp] at h; injection h with h; subst h
          exact range_getPath path rv v' (hn x rv hx) hp
  | .un op e p, v, hl, h => by
    simp only [litsE] at hl
    cases op with
    | neg =>
      simp only [RecL.Ref.eval] at h
      obtain ⟨v1, h1, h⟩ := eres_bind_ok h
      obtain ⟨a, h2, h⟩ := eres_bind_ok h
      obtain ⟨r, h3, h⟩ := eres_bind_ok h
      injection h with h; subst h
      have hr := eval_range hn e v1 hl h1
      rw [asScalar_ok h2] at hr
      simp only [RangeRV] at hr ⊢
      exact (negate_typed a r hr (lift_ok h3)).2
    | not =>
      simp only [RecL.Ref.eval] at h
      obtain ⟨v1, h1, h⟩ := eres_bind_ok h
      obtain ⟨a, h2, h⟩ := eres_bind_ok h
      obtain ⟨r, h3, h⟩ := eres_bind_ok h
      injection h with h; subst h
      have hr := eval_range hn e v1 hl h1
      rw [asScalar_ok h2] at hr
      simp only [RangeRV] at hr ⊢
      exact (unaryNot_typed a r hr (lift_ok h3)).2
  | .bin op l r t p, v, hl, h => by
    simp only [litsE, Bool.and_eq_true] at hl
    simp only [RecL.Ref.eval] at h
    obtain ⟨v1, h1, h⟩ := eres_bind_ok h
    obtain ⟨a, h2, h⟩ := eres_bind_ok h
    obtain ⟨v2, h3, h⟩ := eres_bind_ok h
    obtain ⟨b, h4, h⟩ := eres_bind_ok h
    obtain ⟨w, h5, h⟩ := eres_bind_ok h
    injection h with h; subst h
    have n1 := eval_range hn l v1 hl.1 h1
    have n2 := eval_range hn r v2 hl.2 h3
    rw [asScalar_ok h2] at n1
    rw [asScalar_ok h4] at n2
    simp only [RangeRV] at n1 n2 ⊢
    exact RbThm.C06Core.binStep_inRange op t a b w n1 n2 (lift_ok h5)
  | .paren e _, v, hl, h => by
    simp only [litsE] at hl
    simp only [RecL.Ref.eval] at h
    exact eval_range hn e v hl h

/-- the conversion in front of a store keeps values in range: a numeric target by `cast_sound` (the rounded value is
range-checked, Overflow otherwise), a `STRING * n` target is a string, a record is copied as it is -/
theorem conv_range {p : Pos} {st tt : ETy} {v w : RV} (hv : RangeRV v) (h : conv p st tt v = .ok w) : RangeRV w := by
  unfold conv at h
  by_cases hst : st = tt
  · simp only [hst, if_true] at h; injection h with h; subst h; exact hv
  · simp only [hst, if_false] at h
    cases tt with
    | sc t =>
      cases v with
      | udt fs => simp at h
      | sc a =>
        simp only at h
        obtain ⟨r, hr, h⟩ := eres_bind_ok h
        injection h with h; subst h
        simp only [RangeRV] at hv ⊢
        exact (cast_sound a t r hv (lift_ok hr)).2
    | fix n =>
      cases v with
      | udt fs => simp at h
      | sc a =>
        cases a with
        | str cs =>
          simp only at h
          injection h with h; subst h
          simp only [RangeRV, Val.InRange]
        | int _ => simp at h
        | long _ => simp at h
        | sgl _ => simp at h
        | dbl _ => simp at h
    | udt k => cases v <;> simp at h

theorem evalTo_range {env : Env} (hn : RangeEnv env) {e : RecL.Expr} {t : ETy} {v : RV} (hl : litsE e = true)
    (h : evalTo env e t = .ok v) : RangeRV v := by
  simp only [evalTo] at h
  obtain ⟨v0, h1, h2⟩ := eres_bind_ok h
  exact conv_range (eval_range hn e v0 hl h1) h2

theorem evalToS_range {env : Env} (hn : RangeEnv env) {e : RecL.Expr} {t : Ty} {a : Val} (hl : litsE e = true)
    (h : evalToS env e t = .ok a) : a.InRange := by
  simp only [evalToS] at h
  obtain ⟨w, h1, h2⟩ := eres_bind_ok h
  have := evalTo_range hn hl h1
  rw [asScalar_ok h2] at this
  simpa only [RangeRV] using this

/-! ### the invariant along every run -/

open RbThm.RecLTy (pathTyped_expand evalTo_typed evalToS_tag envTyped_setRV envTyped_lookup hasTy_setPath hasTy_getPath
  eval_typed hasTy_sc typed_init init_exists)

theorem Good.congr {sc : Scope} {s s' : St} (h : Good sc s) (he : s'.env = s.env) (ht : s'.types = s.types)
    (hd : s'.data = s.data) : Good sc s' :=
  ⟨by rw [ht]; exact h.types, by rw [he]; exact h.typed, by rw [he]; exact h.range, by rw [hd]; exact h.data⟩

/-- a store into a scalar variable -/
theorem Good.set {sc : Scope} {s : St} (h : Good sc s) {x : Nat} {t : Ty} {w : Val} (hx : sc.slots[x]? = some (.sc t))
    (hw : w.tag = t) (hr : w.InRange) : Good sc (s.set x w) :=
  ⟨h.types, envTyped_setRV (ft := .sc t) h.typed hx rfl (by simp only [HasTy]; exact ⟨w, rfl, hw⟩),
    rangeEnv_set h.range x (by simpa only [RangeRV] using hr), h.data⟩

/-- a store of a whole (typed, in-range) value into a variable -/
theorem Good.setRV {sc : Scope} {s : St} (h : Good sc s) {x : Nat} {st : ETy} {ft : FTy} {v : RV}
    (hx : sc.slots[x]? = some st) (he : expand sc.types st = some ft) (hv : HasTy ft v) (hr : RangeRV v) :
    Good sc (s.setRV x v) :=
  ⟨h.types, envTyped_setRV h.typed hx he hv, rangeEnv_set h.range x hr, h.data⟩

theorem readItem_good {sc : Scope} {s : St} (hg : Good sc s) (t : Ty) (p : Pos) (w : Val)
    (h : readItem s t p = .ok w) : w.tag = t ∧ w.InRange := by
  unfold readItem at h
  split at h
  · cases h
  · next v hd =>
    split at h
    · next w' hc =>
      injection h with h; subst h
      exact cast_sound v t w' (hg.data v (List.mem_of_getElem? hd)) hc
    · cases h
    · cases h

theorem printItems_data : ∀ (items : List PrintItem) (s : St), (printItems s items).1.data = s.data
  | [], s => rfl
  | .comma :: rest, s => by
    simp only [printItems]
    exact printItems_data rest _
  | .semicolon :: rest, s => by
    simp only [printItems]
    exact printItems_data rest _
  | .expr e :: rest, s => by
    simp only [printItems]
    cases evalS s.env e with
    | ok v =>
      simp only
      cases printValue v with
      | none => rfl
      | some pv => exact printItems_data rest _
    | err c p => rfl
    | inexact => rfl
    | illFormed => rfl

/-- preservation at a given amount of fuel, for the three mutually recursive functions, for every outcome -/
def Pres (sc : Scope) (fuel : Nat) : Prop :=
  (∀ (st : Stmt) (s : St), WfA sc st → rangeB st = true → Good sc s → Good sc (exec fuel st s).1) ∧
  (∀ (p : Pos) (subj : Val) (cs : Cases) (s : St), WfAC sc cs → rangeCB cs = true → Good sc s →
    Good sc (execCases fuel p subj cs s).1) ∧
  (∀ (x : Nat) (t : Ty) (h sv : Val) (up : Bool) (body : Stmt) (p : Pos) (s : St),
    sc.slots[x]? = some (.sc t) → WfA sc body → rangeB body = true → Good sc s →
    Good sc (forIter fuel x t h sv up body p s).1)

theorem pres_zero (sc : Scope) : Pres sc 0 :=
  ⟨fun _ _ _ _ hg => by simpa only [exec] using hg,
   fun _ _ _ _ _ _ hg => by simpa only [execCases] using hg,
   fun _ _ _ _ _ _ _ _ _ _ _ hg => by simpa only [forIter] using hg⟩

theorem exec_succ {sc : Scope} (hw : TypesWf sc.types) {fuel : Nat} (ih : Pres sc fuel) (st : Stmt) (s : St)
    (ht : WfA sc st) (hr : rangeB st = true) (hg : Good sc s) : Good sc (exec (fuel + 1) st s).1 := by
  cases st with
  | skip => simpa only [exec] using hg
  | end_ p => simpa only [exec] using hg
  | seq a b =>
    simp only [WfA] at ht
    simp only [rangeB, Bool.and_eq_true] at hr
    simp only [exec]
    have h1 := ih.1 a s ht.1 hr.1 hg
    generalize exec fuel a s = ra at h1 ⊢
    obtain ⟨s1, o1⟩ := ra
    cases o1 <;> first | exact ih.1 b s1 ht.2 hr.2 h1 | exact h1
  | dim x t p =>
    simp only [WfA] at ht
    simp only [exec]
    cases hexp : expand s.types t with
    | none => exact hg
    | some ft =>
      simp only
      rw [hg.types] at hexp
      exact hg.setRV ht.1 hexp (RbThm.RecLTy.fresh_typed ft) (range_fresh ft)
  | assign x path t e p =>
    simp only [WfA] at ht
    simp only [rangeB] at hr
    obtain ⟨hpt, hte⟩ := ht
    obtain ⟨st0, root, ft, h1, h2, h3, h4⟩ := pathTyped_expand hw hpt
    simp only [exec]
    cases hev : evalTo s.env e t with
    | err c q => exact hg
    | inexact => exact hg
    | illFormed => exact hg
    | ok v =>
      simp only
      have hvt := evalTo_typed hw hg.typed hte h4 hev
      have hvr := evalTo_range hg.range hr hev
      cases path with
      | nil =>
        simp only [FTy.at] at h3
        injection h3 with h3; subst h3
        cases hx : s.env[x]? with
        | none => exact hg
        | some o => exact hg.setRV h1 h2 hvt hvr
      | cons f rest =>
        cases hx : s.env[x]? with
        | none => exact hg
        | some o =>
          cases o with
          | none => exact hg
          | some old =>
            simp only
            obtain ⟨v', hs, hv'⟩ :=
              hasTy_setPath (f :: rest) root ft old v (envTyped_lookup hg.typed h1 h2 hx) h3 hvt
            simp only [hs]
            exact hg.setRV h1 h2 hv' (range_setPath (f :: rest) old v v' (hg.range x old hx) hvr hs)
  | print items p =>
    simp only [exec]
    have hk := RbThm.RecLProps.printItems_keeps items s
    have hd := printItems_data items s
    generalize printItems s items = r at hk hd ⊢
    obtain ⟨s1, o1⟩ := r
    have hg1 : Good sc s1 := hg.congr hk.1 hk.2 hd
    cases o1 with
    | normal =>
      simp only
      split
      · exact hg1
      · exact hg1.congr rfl rfl rfl
    | halted => exact hg1
    | error c q => exact hg1
    | inexact => exact hg1
    | outOfFuel => exact hg1
    | illFormed => exact hg1
  | read tg p =>
    simp only [WfA, TargetWf] at ht
    simp only [exec]
    cases hri : readItem s tg.t p with
    | error o => exact hg
    | ok w =>
      obtain ⟨h1, h2⟩ := readItem_good hg tg.t p w hri
      exact (hg.set ht h1 h2).congr rfl rfl rfl
  | ifs c thn els p =>
    simp only [WfA] at ht
    simp only [rangeB, Bool.and_eq_true] at hr
    simp only [exec]
    cases evalCond s c with
    | error o => exact hg
    | ok b =>
      cases b with
      | true => exact ih.1 thn s ht.1 hr.1 hg
      | false => exact ih.1 els s ht.2 hr.2 hg
  | select e cases p =>
    simp only [WfA] at ht
    simp only [rangeB] at hr
    simp only [exec]
    cases evalE s e with
    | error o => exact hg
    | ok subj => exact ih.2.1 p subj cases s ht hr hg
  | forLoop x t lo hi step body p =>
    simp only [WfA] at ht
    simp only [rangeB, Bool.and_eq_true] at hr
    obtain ⟨hx, hlo, hbody⟩ := ht
    simp only [exec]
    cases hl : evalToS s.env lo t with
    | err c q => exact hg
    | inexact => exact hg
    | illFormed => exact hg
    | ok l =>
      simp only
      have hg1 : Good sc (s.set x l) :=
        hg.set hx (evalToS_tag hw hg.typed hlo hl) (evalToS_range hg.range hr.1 hl)
      cases evalToS (s.set x l).env hi t with
      | err c q => exact hg1
      | inexact => exact hg1
      | illFormed => exact hg1
      | ok h =>
        simp only
        cases step with
        | none => exact ih.2.2 x t h (.int 1) true body p _ hx hbody hr.2 hg1
        | some se =>
          simp only
          cases evalE (s.set x l) se with
          | error o => exact hg1
          | ok sv =>
            simp only
            cases stepSign p sv with
            | error o => exact hg1
            | ok sg =>
              cases sg with
              | neg => exact ih.2.2 x t h sv false body p _ hx hbody hr.2 hg1
              | pos => exact ih.2.2 x t h sv true body p _ hx hbody hr.2 hg1
              | zero => exact hg1
  | «while» c body p =>
    have ht' := ht
    have hr' := hr
    simp only [WfA] at ht
    simp only [rangeB] at hr
    simp only [exec]
    cases evalCond s c with
    | error o => exact hg
    | ok b =>
      cases b with
      | false => exact hg
      | true =>
        simp only
        have h1 := ih.1 body s ht hr hg
        generalize exec fuel body s = rb at h1 ⊢
        obtain ⟨s1, o1⟩ := rb
        cases o1 <;> first | exact ih.1 (.while c body p) s1 ht' hr' h1 | exact h1
  | doLoop c top until_ body p =>
    have ht' := ht
    have hr' := hr
    simp only [WfA] at ht
    simp only [rangeB] at hr
    simp only [exec]
    cases top with
    | true =>
      simp only [if_true]
      cases evalCond s c with
      | error o => exact hg
      | ok b =>
        simp only
        split
        · have h1 := ih.1 body s ht hr hg
          generalize exec fuel body s = rb at h1 ⊢
          obtain ⟨s1, o1⟩ := rb
          cases o1 <;> first | exact ih.1 (.doLoop c true until_ body p) s1 ht' hr' h1 | exact h1
        · exact hg
    | false =>
      simp only [Bool.false_eq_true, if_false]
      have h1 := ih.1 body s ht hr hg
      generalize exec fuel body s = rb at h1 ⊢
      obtain ⟨s1, o1⟩ := rb
      cases o1 with
      | normal =>
        simp only
        cases evalCond s1 c with
        | error o => exact h1
        | ok b =>
          simp only
          split
          · exact ih.1 (.doLoop c false until_ body p) s1 ht' hr' h1
          · exact h1
      | halted => exact h1
      | error c q => exact h1
      | inexact => exact h1
      | outOfFuel => exact h1
      | illFormed => exact h1

theorem pres_succ {sc : Scope} (hw : TypesWf sc.types) {fuel : Nat} (ih : Pres sc fuel) : Pres sc (fuel + 1) := by
  refine ⟨fun st s ht hr hg => exec_succ hw ih st s ht hr hg, ?_, ?_⟩
  · intro p subj cs s ht hr hg
    cases cs with
    | nil => simpa only [execCases] using hg
    | else_ body =>
      simp only [WfAC] at ht
      simp only [rangeCB] at hr
      simp only [execCases]
      exact ih.1 body s ht hr hg
    | case conds body rest =>
      simp only [WfAC] at ht
      simp only [rangeCB, Bool.and_eq_true] at hr
      simp only [execCases]
      cases anyMatches s p subj conds with
      | error o => exact hg
      | ok b =>
        cases b with
        | true => exact ih.1 body s ht.1 hr.1 hg
        | false => exact ih.2.1 p subj rest s ht.2 hr.2 hg
  · intro x t h sv up body p s hx hb hrb hg
    simp only [forIter]
    cases relTest p (if up then .lessOrEqual else .greaterOrEqual) (s.getS x t) h with
    | error o => exact hg
    | ok b =>
      cases b with
      | false => exact hg
      | true =>
        simp only
        have h1 := ih.1 body s hb hrb hg
        generalize exec fuel body s = rb at h1 ⊢
        obtain ⟨s1, o1⟩ := rb
        cases o1 with
        | normal =>
          simp only
          cases hinc : (plus (s1.getS x t) sv).bind (fun v => Num.cast v t) with
          | ok v =>
            simp only
            obtain ⟨hv, hvr⟩ := RbThm.C06Core.increment_good _ sv v t hinc
            exact ih.2.2 x t h sv up body p _ hx hb hrb (h1.set hx hv hvr)
          | err e => exact h1
          | inexact => exact h1
        | halted => exact h1
        | error c q => exact h1
        | inexact => exact h1
        | outOfFuel => exact h1
        | illFormed => exact h1

theorem pres_all {sc : Scope} (hw : TypesWf sc.types) : ∀ fuel, Pres sc fuel
  | 0 => pres_zero sc
  | fuel + 1 => pres_succ hw (pres_all hw fuel)

/-! ### from the layer's premise `ProgWf` (faithful syntax) to the reference syntax -/

open RbThm.RecLSim (Wf WfElifs WfCases WfTop ProgWf progScope)

theorem wfA_readSeq (sc : Scope) (p : Pos) : ∀ (tgs : List ReadTarget),
    (∀ tg ∈ tgs, TargetWf sc tg) → WfA sc (readSeq p tgs)
  | [], _ => by simp only [readSeq, WfA]
  | tg :: rest, h => by
    simp only [readSeq, WfA]
    exact ⟨h tg (List.mem_cons_self ..), wfA_readSeq sc p rest (fun v hv => h v (List.mem_cons_of_mem _ hv))⟩

mutual
theorem wfA_desugar (sc : Scope) : ∀ (s : SStmt), Wf sc s → WfA sc (desugar s)
  | .skip, _ => by simp only [desugar, WfA]
  | .comment, _ => by simp only [desugar, WfA]
  | .seq a b, h => by
    simp only [Wf] at h
    simp only [desugar, WfA]
    exact ⟨wfA_desugar sc a h.1, wfA_desugar sc b h.2⟩
  | .dim x t p, h => by
    simp only [Wf] at h
    simp only [desugar, WfA]
    exact h
  | .assign x path t e p, h => by
    simp only [Wf] at h
    simp only [desugar, WfA]
    exact h
  | .print items p, _ => by simp only [desugar, WfA]
  | .data items p, h => by simp only [Wf] at h
  | .read tgs p, h => by
    simp only [Wf] at h
    simp only [desugar]
    exact wfA_readSeq sc p tgs h
  | .ifBlock c thn elifs hasElse els p, h => by
    simp only [Wf] at h
    simp only [desugar, WfA]
    exact ⟨wfA_desugar sc thn h.2.2.1, wfA_elifs sc elifs _ p h.2.2.2.1 (wfA_desugar sc els h.2.2.2.2.1)⟩
  | .select e cases hasElse els p, h => by
    simp only [Wf] at h
    simp only [desugar, WfA]
    refine wfA_cases sc cases _ h.2.1 ?_
    cases hasElse
    · simp only [Bool.false_eq_true, if_false, WfAC]
    · simp only [if_true, WfAC]; exact wfA_desugar sc els h.2.2.1
  | .forLoop x t lo hi step body p, h => by
    simp only [Wf] at h
    simp only [desugar, WfA]
    exact ⟨h.1, h.2.2.1, wfA_desugar sc body h.2.2.2.2.2⟩
  | .while c body p, h => by
    simp only [Wf] at h
    simp only [desugar, WfA]
    exact wfA_desugar sc body h.2.2
  | .doLoop c top u body p, h => by
    simp only [Wf] at h
    simp only [desugar, WfA]
    exact wfA_desugar sc body h.2.2
  | .end_ p, _ => by simp only [desugar, WfA]
theorem wfA_elifs (sc : Scope) : ∀ (e : ElseIfs) (els : Stmt) (p : Pos),
    WfElifs sc e → WfA sc els → WfA sc (desugarElifs e els p)
  | .nil, els, p, _, h => by simp only [desugarElifs]; exact h
  | .cons c body rest, els, p, hw, h => by
    simp only [WfElifs] at hw
    simp only [desugarElifs, WfA]
    exact ⟨wfA_desugar sc body hw.2.2.1, wfA_elifs sc rest els p hw.2.2.2 h⟩
theorem wfA_cases (sc : Scope) : ∀ (cs : SCases) (tail : Cases),
    WfCases sc cs → WfAC sc tail → WfAC sc (desugarCases cs tail)
  | .nil, tail, _, h => by simp only [desugarCases]; exact h
  | .cons conds body rest, tail, hw, h => by
    simp only [WfCases] at hw
    simp only [desugarCases, WfAC]
    exact ⟨wfA_desugar sc body hw.2.2.1, wfA_cases sc rest tail hw.2.2.2 h⟩
end

theorem wfA_top (sc : Scope) : ∀ body : SStmt, WfTop sc body → WfA sc (desugar body)
  | .seq a b, h => by
    simp only [WfTop] at h
    simp only [desugar, WfA]
    exact ⟨wfA_top sc a h.1, wfA_top sc b h.2⟩
  | .data _ _, _ => by simp only [desugar, WfA]
  | .skip, h => wfA_desugar sc _ h
  | .comment, h => wfA_desugar sc _ h
  | .dim _ _ _, h => wfA_desugar sc _ h
  | .assign _ _ _ _ _, h => wfA_desugar sc _ h
  | .print _ _, h => wfA_desugar sc _ h
  | .read _ _, h => wfA_desugar sc _ h
  | .ifBlock _ _ _ _ _ _, h => wfA_desugar sc _ h
  | .select _ _ _ _ _, h => wfA_desugar sc _ h
  | .forLoop _ _ _ _ _ _ _, h => wfA_desugar sc _ h
  | .while _ _ _, h => wfA_desugar sc _ h
  | .doLoop _ _ _ _ _, h => wfA_desugar sc _ h
  | .end_ _, h => wfA_desugar sc _ h

/-! ### the property-level theorems -/

/-- **`field_inrange`** — what `Good` says about a numeric location `x`, `x.f`, `x.f.g`, … of declared type `t` (a scalar
variable, a field, a field of a nested record at any depth): whenever it can be read, it holds a scalar of type `t` within
the range of `t` -/
theorem field_inrange {sc : Scope} {s : St} (hw : TypesWf sc.types) (hg : Good sc s) {x : Nat} {path : List String}
    {t : Ty} {q : Pos} {v : RV} (hp : PathTyped sc.types sc.slots x path (.sc t))
    (hev : RecL.Ref.eval s.env (.var x path (.sc t) q) = .ok v) : ∃ a, v = .sc a ∧ a.tag = t ∧ a.InRange := by
  obtain ⟨ft, hft, hv⟩ := eval_typed hw hg.typed (.var x path (.sc t) q) v (by simpa only [ExprTyped] using hp) hev
  simp only [RecL.Expr.ty, expand] at hft
  injection hft with hft; subst hft
  obtain ⟨a, rfl, hat⟩ := hasTy_sc hv
  have hr := eval_range hg.range (.var x path (.sc t) q) (.sc a) rfl hev
  exact ⟨a, rfl, hat, by simpa only [RangeRV] using hr⟩

/-- **`exec_inrange`** — every statement of the records layer (the core language of `C06Core.exec_inrange` with `DIM … AS`
a record type / `STRING * n`, assignment to a variable, a field, a field of a nested record, whole-record copies; fields in
any expression), any amount of fuel, **any outcome** (normal end, END, BASIC error, out of the exact float domain, out of
fuel, a record used before its DIM ran): if before the statement every variable that exists has its declared type and
every scalar inside it — at any nesting depth — is within the range of its tag, then so it is afterwards.
Hypotheses: the type table is consistent (`TypesWf`) and the statement well formed (`RecLSim.Wf`) — both part of the
layer's decidable premise `progWfB` —, the literals of the stored expressions are values of their own types (`rangeB`),
the DATA items are in range. -/
theorem exec_inrange (sc : Scope) (hw : TypesWf sc.types) (fuel : Nat) (stmt : SStmt) (s s' : St) (o : Outcome)
    (hws : Wf sc stmt) (hr : rangeB (desugar stmt) = true) (hg : Good sc s)
    (h : exec fuel (desugar stmt) s = (s', o)) : Good sc s' := by
  have := (pres_all hw fuel).1 (desugar stmt) s (wfA_desugar sc stmt hws) hr hg
  rw [h] at this
  exact this

theorem good_start (prog : SProgram) (hr : progRangeB prog.toAst = true) :
    Good (progScope prog) (St.init prog.toAst) := by
  refine ⟨rfl, typed_init prog.types prog.slots, ?_, ?_⟩
  · intro x v hx
    obtain ⟨t, _, rfl⟩ := init_exists hx
    simp only [RangeRV]
    exact zeroOf_inRange t
  · simp only [progRangeB, Bool.and_eq_true, List.all_eq_true, decide_eq_true_eq] at hr
    exact hr.2

/-- **`run_inrange`** — whole programs with records: however the run ends, every variable that exists has its declared
type and every numeric field at any nesting depth holds a value within the range of its type -/
theorem run_inrange (prog : SProgram) (fuel : Nat) (hw : ProgWf prog) (hr : progRangeB prog.toAst = true) :
    Good (progScope prog) (RecL.Ref.run fuel prog.toAst).1 := by
  have hrb : rangeB (desugar prog.body) = true := by
    simp only [progRangeB, Bool.and_eq_true] at hr
    exact hr.1
  exact (pres_all (sc := progScope prog) hw.1 fuel).1 (desugar prog.body) (St.init prog.toAst)
    (wfA_top (progScope prog) prog.body hw.2.1) hrb (good_start prog hr)

/-! ### what is stored in a field is the conversion of the source value, or the run stops with the conversion's error -/

/-- the conversion in front of a store into a location of built-in type `t`: identity when the static type of the value
already is `t`, else `Num.cast` (nearest whole number, ties away from zero, Overflow beyond the range) -/
def fieldCast (st : ETy) (t : Ty) (a : Val) : Res Val := if st = .sc t then .ok a else Num.cast a t

/-- for a value of built-in static type it is C06's `storeCast` -/
theorem fieldCast_sc (s t : Ty) (a : Val) : fieldCast (.sc s) t a = storeCast s t a := by
  unfold fieldCast storeCast
  by_cases h : s = t
  · subst h; simp
  · have : ¬ (ETy.sc s = ETy.sc t) := fun e => h (by injection e)
    simp [h, this]

/-- **`field_store_converts`** — `x.f.g… = e` into a numeric field of type `t` (at any nesting depth), `x` existing with
value `old`: with `a` the (scalar) value of `e`, either the conversion of `a` to the field's type yields `w`, the record
with exactly that field replaced by `w` is what `x` holds afterwards and the field reads back as `w`; or the conversion
fails with `er` and the statement ends with the error code of `er` (Overflow = 6) at the position of `e`, nothing stored;
or the execution leaves the exact domain -/
theorem field_store_converts (fuel x : Nat) (f : String) (rest : List String) (t : Ty) (e : RecL.Expr) (p : Pos) (s : St)
    (a : Val) (old : RV) (hev : RecL.Ref.eval s.env e = .ok (.sc a)) (hx : s.env[x]? = some (some old)) :
    (∃ w, fieldCast e.ty t a = .ok w ∧
      ∀ new, old.setPath (f :: rest) (.sc w) = some new →
        exec (fuel + 1) (.assign x (f :: rest) (.sc t) e p) s = (s.setRV x new, .normal) ∧
        new.getPath (f :: rest) = some (.sc w)) ∨
    (∃ er, fieldCast e.ty t a = .err er ∧
      exec (fuel + 1) (.assign x (f :: rest) (.sc t) e p) s = (s, .error (codeOf er) e.pos)) ∨
    (fieldCast e.ty t a = .inexact ∧ exec (fuel + 1) (.assign x (f :: rest) (.sc t) e p) s = (s, .inexact)) := by
  unfold fieldCast
  by_cases hst : e.ty = .sc t
  · refine .inl ⟨a, by simp [hst], ?_⟩
    intro new hnew
    exact ⟨by simp [exec, evalTo, hev, ERes.bind, conv, hst, hx, hnew],
      RbThm.RecLProps.getPath_setPath_same _ _ _ _ hnew⟩
  · simp only [hst, if_false]
    cases hc : Num.cast a t with
    | ok w =>
      refine .inl ⟨w, rfl, ?_⟩
      intro new hnew
      exact ⟨by simp [exec, evalTo, hev, ERes.bind, conv, hst, hc, lift, hx, hnew],
        RbThm.RecLProps.getPath_setPath_same _ _ _ _ hnew⟩
    | err er =>
      exact .inr (.inl ⟨er, rfl, by simp [exec, evalTo, hev, ERes.bind, conv, hst, hc, lift, outcomeOf]⟩)
    | inexact => exact .inr (.inr ⟨rfl, by simp [exec, evalTo, hev, ERes.bind, conv, hst, hc, lift, outcomeOf]⟩)

/-- the value a field store stores is of the field's type and in range (given the invariant) -/
theorem field_store_typed {sc : Scope} {s : St} (hw : TypesWf sc.types) (hg : Good sc s) (t : Ty) (e : RecL.Expr)
    (v : RV) (hwe : EWf sc e) (hl : litsE e = true) (h : evalTo s.env e (.sc t) = .ok v) :
    ∃ w, v = .sc w ∧ w.tag = t ∧ w.InRange := by
  have hvt := evalTo_typed (ft := .sc t) hw hg.typed hwe rfl h
  obtain ⟨w, rfl, hwt⟩ := hasTy_sc hvt
  have hr := evalTo_range hg.range hl h
  exact ⟨w, rfl, hwt, by simpa only [RangeRV] using hr⟩

/-- **Overflow instead of storing**: assigning a numeric value `q` of another static type to an INTEGER or LONG field stops
with Overflow (6) at the expression exactly when `q` rounded to the nearest whole number (ties away from zero) lies outside
the field type's range — wherever the field sits; otherwise exactly that rounded number is the value that is stored -/
theorem field_overflow_iff (fuel x : Nat) (path : List String) (t : Ty) (e : RecL.Expr) (p : Pos) (s : St) (a : Val)
    (q : Rat) (lo hi : Int) (ht : tyBounds t = some (lo, hi)) (hne : e.ty ≠ .sc t)
    (hev : RecL.Ref.eval s.env e = .ok (.sc a)) (hq : a.toRat? = some q) (hv : a.InRange) :
    (evalTo s.env e (.sc t) = .err 6 e.pos ↔ ¬ (lo ≤ roundHA q ∧ roundHA q ≤ hi)) ∧
    (evalTo s.env e (.sc t) = .err 6 e.pos →
      exec (fuel + 1) (.assign x path (.sc t) e p) s = (s, .error 6 e.pos)) ∧
    ((lo ≤ roundHA q ∧ roundHA q ≤ hi) →
      ∃ w, evalTo s.env e (.sc t) = .ok (.sc w) ∧ w.tag = t ∧ w.toRat? = some ((roundHA q : Int) : Rat)) := by
  have hov := cast_overflow_iff a t q lo hi ht hq hv
  have hto : evalTo s.env e (.sc t) = (lift e.pos (Num.cast a t)).bind fun r => .ok (.sc r) := by
    simp [evalTo, hev, ERes.bind, conv, hne]
  refine ⟨?_, fun h => by simp [exec, h, outcomeOf], ?_⟩
  · rw [hto]
    cases hc : Num.cast a t with
    | ok w =>
      have hnot : ¬ Num.cast a t = .err .overflow := by rw [hc]; simp
      have hin : lo ≤ roundHA q ∧ roundHA q ≤ hi := Classical.not_not.mp (fun hn => hnot (hov.mpr hn))
      exact ⟨fun h => by simp [lift, ERes.bind] at h, fun h => absurd hin h⟩
    | err er =>
      by_cases hov' : er = .overflow
      · subst hov'
        exact ⟨fun _ => hov.mp hc, fun _ => rfl⟩
      · have hno : ¬ Num.cast a t = .err .overflow := by rw [hc]; simpa using hov'
        have hin : lo ≤ roundHA q ∧ roundHA q ≤ hi := Classical.not_not.mp (fun hn => hno (hov.mpr hn))
        exfalso
        cases t <;> simp only [tyBounds, reduceCtorEq] at ht <;>
          cases a <;> simp only [Val.toRat?, reduceCtorEq] at hq <;>
          simp only [Num.cast, castRound, Res.bind] at hc <;>
          (repeat' split at hc) <;> simp_all
    | inexact =>
      refine ⟨fun h => by simp [lift, ERes.bind] at h, fun h => ?_⟩
      have := hov.mpr h; rw [hc] at this; cases this
  · intro hin
    rw [hto]
    cases hc : Num.cast a t with
    | ok w => exact ⟨w, rfl, (cast_sound a t w hv hc).1, (cast_rounds a t w q lo hi ht hq hv hc).1⟩
    | err er =>
      exfalso
      by_cases hov' : er = .overflow
      · subst hov'; exact (hov.mp hc) hin
      · cases t <;> simp only [tyBounds, reduceCtorEq] at ht <;>
          cases a <;> simp only [Val.toRat?, reduceCtorEq] at hq <;>
          simp only [Num.cast, castRound, Res.bind] at hc <;>
          (repeat' split at hc) <;> simp_all
    | inexact =>
      exfalso
      cases t <;> simp only [tyBounds, reduceCtorEq] at ht <;>
        cases a <;> simp only [Val.toRat?, reduceCtorEq] at hq <;>
        simp only [Val.InRange] at hv <;>
        simp only [Num.cast, castRound, Res.bind, hv, if_true] at hc <;>
        (repeat' split at hc) <;> simp_all

/-! ### to the VM model, through the simulation theorem of the layer -/

namespace ToVm
open RbThm.RecLSim RbThm.RecLLen RbModel.RecL.Compile RbModel.RecL.Vm

mutual
/-- every scalar leaf of a `Variant` tree of the VM model is in range for its tag -/
def RangeV : ArrPath.Val → Prop
  | .leaf v => v.InRange
  | .arr _ elems => RangeVs elems
  | .udt fields => RangeVF fields
def RangeVs : List ArrPath.Val → Prop
  | [] => True
  | v :: rest => RangeV v ∧ RangeVs rest
def RangeVF : List (List Char × ArrPath.Val) → Prop
  | [] => True
  | (_, v) :: rest => RangeV v ∧ RangeVF rest
end

mutual
/-- the representation of finite-map records by `Variant` trees carries the range half of the invariant over -/
theorem rangeV_of_rel : ∀ (rv : RecL.Ref.RV) (w : ArrPath.Val), Spec.ValRel rv w → RangeRV rv → RangeV w
  | .sc v, w, h, hr => by
    simp only [Spec.ValRel] at h
    subst h
    simpa only [RangeV, RangeRV] using hr
  | .udt fs, w, h, hr => by
    simp only [Spec.ValRel] at h
    obtain ⟨vfs, rfl, hf⟩ := h
    simp only [RangeRV] at hr
    simp only [RangeV]
    exact rangeVF_of_rel fs vfs hf hr
theorem rangeVF_of_rel : ∀ (fs : RecL.Ref.RFs) (vfs : List (List Char × ArrPath.Val)), Spec.FieldsRel fs vfs → RangeFs fs →
    RangeVF vfs
  | .nil, vfs, h, _ => by
    simp only [Spec.FieldsRel] at h
    subst h
    simp only [RangeVF]
  | .cons f v rest, vfs, h, hr => by
    simp only [Spec.FieldsRel] at h
    obtain ⟨w, tail, rfl, hv, ht⟩ := h
    simp only [RangeFs] at hr
    simp only [RangeVF]
    exact ⟨rangeV_of_rel v w hv hr.1, rangeVF_of_rel rest tail ht hr.2⟩
end

/-- the invariant read on a state of the VM model: every variable is either still what `get_or_create` makes of a name
whose DIM has not run, or a `Variant` tree that represents (`ValRel`) a value of the variable's declared type (numeric
fields at any depth of the declared tag, `STRING * n` fields of `n` characters) all of whose scalar leaves are in range -/
structure VmGood (prog : SProgram) (τ : Vm) : Prop where
  len : τ.vars.length = prog.slots.length
  vars : ∀ (x : Nat) (st : ETy), prog.slots[x]? = some st →
    τ.vars[x]? = some (defaultVar st) ∨
    ∃ (rv : RecL.Ref.RV) (w : ArrPath.Val) (ft : FTy), τ.vars[x]? = some w ∧ Spec.ValRel rv w ∧
      expand prog.types st = some ft ∧ Spec.HasTy ft rv ∧ RangeRV rv ∧ RangeV w

/-- `RecL.compile_correct` for a run that ends normally, keeping the state relation at the final `Halt` (the proof of
`RecLSim.compile_correct_of`, which states the output only) -/
theorem compile_correct_rel (prog : SProgram) (fuel : Nat) (hw : ProgWf prog) (s' : RecL.Ref.St)
    (hrun : RecL.Ref.run fuel prog.toAst = (s', .normal)) :
    ∃ τ, RbThm.RecLSim.Steps (compile prog) (Vm.init prog.types prog.slots) τ ∧ Vm.step (compile prog) τ = .halt τ ∧
      RbThm.RecLSim.Rel (progScope prog) s' τ := by
  have hst : ∀ fuel, StmtIH (compile prog) fuel := fun f => (ih_all (compile prog) f).stmt
  have hall2 : RbThm.RecLSim.CodeAt (compile prog) 0
      (compileStmt "" 0 (seqOf (datas prog.body ++ others prog.body)) ++ [(.halt, maxPos)]) := by
    intro i _; rw [Nat.zero_add]; rfl
  have hbody := hall2.append_left
  rw [code_seqOf_append] at hbody
  have hcd := hbody.append_left
  have hco := hbody.append_right
  rw [len_stmt, Nat.zero_add] at hco
  have hhalt := hall2.append_right.head
  rw [len_stmt, size_seqOf_append, Nat.zero_add] at hhalt
  obtain ⟨σ1, st1, hp1, hd1, hcx1, hk1⟩ :=
    data_list (compile prog) "" (datas prog.body) (datas_isData prog.body) 0 (Vm.init prog.types prog.slots) hcd rfl
  rw [Nat.zero_add] at hp1
  have hdata : σ1.data = dataOf prog.body := by
    rw [hd1, ← dataOf_eq]; simp [Vm.init]
  have hrel : RbThm.RecLSim.Rel (progScope prog) (RecL.Ref.St.init prog.toAst) σ1 := by
    refine ⟨hw.1, rfl, by rw [hk1.types]; rfl, by rw [hk1.vars]; exact varsRel_init prog.slots,
      RbThm.RecLTy.typed_init prog.types prog.slots, RbThm.RecLTy.nonul_init prog.slots, by rw [hk1.out]; rfl, ?_,
      by rw [hk1.dataIdx]; rfl, by rw [hk1.queue]; rfl, hw.2.2⟩
    rw [hdata]; rfl
  have hact : ActInv σ1 := ⟨by rw [hk1.skipNewline]; rfl⟩
  have hs : StmtPost (compile prog) (progScope prog) _ _ σ1
      (RecL.Ref.exec fuel (desugar prog.body) (RecL.Ref.St.init prog.toAst)) :=
    top_spec (compile prog) (progScope prog) hst prog.body hw.2.1 fuel _ (RecL.Ref.St.init prog.toAst) σ1 hco hp1 hrel hact
  rw [run_eq] at hrun
  rw [hrun] at hs
  obtain ⟨τ, st, hp, hrel', _⟩ := hs
  refine ⟨τ, st1.trans st, ?_, hrel'⟩
  have : (compile prog)[τ.pc]? = some (CInstr.halt, maxPos) := by rw [hp]; exact hhalt
  simp only [Vm.step, this]

/-- the state relation of the simulation carries the invariant over -/
theorem vmGood_of_rel (prog : SProgram) (s' : RecL.Ref.St) (τ : Vm) (hrel : RbThm.RecLSim.Rel (progScope prog) s' τ)
    (hg : Good (progScope prog) s') : VmGood prog τ := by
  refine ⟨hrel.vars.lenV, ?_⟩
  intro x st hx
  rcases hrel.vars.at_ x st hx with ⟨_, h2⟩ | ⟨rv, w, h1, h2, h3⟩
  · exact .inl h2
  · obtain ⟨st', ft, hs1, hs2, hs3⟩ := hg.typed.2 x rv h1
    have : st' = st := by
      have hx' : (progScope prog).slots[x]? = some st := hx
      rw [hx'] at hs1; injection hs1 with hs1; exact hs1.symm
    subst this
    have hr := hg.range x rv h1
    exact .inr ⟨rv, w, ft, h2, h3, hs2, hs3, hr, rangeV_of_rel rv w h3 hr⟩

/-- **`recl_run_inrange`** — corollary over the simulation theorem of the records layer (`RecL.compile_correct`,
`Thm/RecLSim.lean`): when the reference run of a well-formed program ends normally, the VM model running the code the
generator model emits reaches `Halt` with the same output and every variable a `Variant` tree whose numeric leaves — the
fields at any nesting depth — have their declared type and are within that type's range -/
theorem recl_run_inrange (prog : SProgram) (fuel : Nat) (hw : ProgWf prog) (hr : progRangeB prog.toAst = true) :
    match RecL.Ref.run fuel prog.toAst with
    | (s', .normal) => ∃ τ, RbThm.RecLSim.Steps (compile prog) (Vm.init prog.types prog.slots) τ ∧
        Vm.step (compile prog) τ = .halt τ ∧ τ.out = s'.out ∧ VmGood prog τ
    | _ => True := by
  have h2 := run_inrange prog fuel hw hr
  generalize hrun : RecL.Ref.run fuel prog.toAst = r at h2
  obtain ⟨s', o⟩ := r
  cases o with
  | normal =>
    obtain ⟨τ, st, hh, hrel⟩ := compile_correct_rel prog fuel hw s' hrun
    exact ⟨τ, st, hh, hrel.out, vmGood_of_rel prog s' τ hrel h2⟩
  | halted => trivial
  | error c p => trivial
  | inexact => trivial
  | outOfFuel => trivial
  | illFormed => trivial

/-- `recl_run_inrange` for the bounded interpreter `RecL.Vm.run` the correspondence check executes against the real VM,
with the premises in their decidable forms -/
theorem recl_run_inrange_checked (prog : SProgram) (fuel : Nat) (hw : progWfB prog = true)
    (hr : progRangeB prog.toAst = true) :
    match RecL.Ref.run fuel prog.toAst with
    | (s', .normal) => ∃ n υ, (∀ m, n ≤ m → Vm.run (compile prog) m (Vm.init prog.types prog.slots) = .halted υ) ∧
        υ.out = s'.out ∧ VmGood prog υ
    | _ => True := by
  have h := recl_run_inrange prog fuel (progWfB_sound prog hw) hr
  generalize RecL.Ref.run fuel prog.toAst = r at h ⊢
  obtain ⟨s', o⟩ := r
  cases o with
  | normal =>
    obtain ⟨τ, st, hh, ho, hg⟩ := h
    obtain ⟨n, hn⟩ := run_of_steps _ st hh
    exact ⟨n, τ, hn, ho, hg⟩
  | halted => trivial
  | error c p => trivial
  | inexact => trivial
  | outOfFuel => trivial
  | illFormed => trivial

end ToVm

/-! ### non-vacuity: a program in the covered fragment with nested records

    TYPE Inner : N AS INTEGER : Q AS LONG : END TYPE
    TYPE Outer : A AS INTEGER : I AS Inner : S AS STRING * 3 : END TYPE
    DIM o AS Outer, c AS Outer
    o.I.N = 2.5            ' stores 3 (ties away from zero) two levels deep
    o.I.Q = 70000.5        ' stores 70001
    c = o                  ' whole-record copy
    c.A = c.I.Q            ' 70001 into an INTEGER field: Overflow (6), nothing stored
-/

def demoInner : FFields := .cons "N" (.sc .int) (.cons "Q" (.sc .long) .nil)
def demoOuter : FFields := .cons "A" (.sc .int) (.cons "I" (.udt 0 demoInner) (.cons "S" (.fix 3) .nil))

def demo : SProgram :=
  { types := [demoInner, demoOuter],
    slots := [.udt 1, .udt 1],
    body :=
      .seq (.dim 0 (.udt 1) ⟨3, 5⟩)
      (.seq (.dim 1 (.udt 1) ⟨3, 17⟩)
      (.seq (.assign 0 ["I", "N"] (.sc .int) (.lit (.sgl (5 / 2)) ⟨4, 9⟩) ⟨4, 1⟩)
      (.seq (.assign 0 ["I", "Q"] (.sc .long) (.lit (.sgl (140001 / 2)) ⟨5, 9⟩) ⟨5, 1⟩)
      (.seq (.assign 1 [] (.udt 1) (.var 0 [] (.udt 1) ⟨6, 5⟩) ⟨6, 1⟩)
      (.seq (.assign 1 ["A"] (.sc .int) (.var 1 ["I", "Q"] (.sc .long) ⟨7, 7⟩) ⟨7, 1⟩) .skip))))) }

/-- the hypotheses of `run_inrange` / `recl_run_inrange` hold for the demo program (both are decidable) -/
example : RbModel.RecL.progWfB demo = true ∧ progRangeB demo.toAst = true := by
  constructor <;> decide +kernel

def isOverflowAt (o : Outcome) (row : Nat) : Bool :=
  match o with
  | .error 6 p => p.row == row
  | _ => false

def fieldOf (s : St) (x : Nat) (path : List String) : Option RV :=
  match s.env[x]? with
  | some (some v) => v.getPath path
  | _ => none

def isSc (o : Option RV) (a : Val) : Bool :=
  match o with
  | some (.sc b) => decide (b = a)
  | _ => false

/-- and its run ends with Overflow at the last assignment with `o.I.N = 3`, `c.I.N = 3`, `c.I.Q = 70001` (the copy) and
`c.A = 0` (nothing stored) -/
example : isOverflowAt (RecL.Ref.run 40 demo.toAst).2 7 = true ∧
    isSc (fieldOf (RecL.Ref.run 40 demo.toAst).1 0 ["I", "N"]) (.int 3) = true ∧
    isSc (fieldOf (RecL.Ref.run 40 demo.toAst).1 1 ["I", "N"]) (.int 3) = true ∧
    isSc (fieldOf (RecL.Ref.run 40 demo.toAst).1 1 ["I", "Q"]) (.long 70001) = true ∧
    isSc (fieldOf (RecL.Ref.run 40 demo.toAst).1 1 ["A"]) (.int 0) = true := by
  decide +kernel

/-- the demo program without its last statement ends normally: the `normal` branch of `recl_run_inrange` is inhabited -/
def demoOk : SProgram :=
  { demo with
    body :=
      SStmt.seq (.dim 0 (.udt 1) ⟨3, 5⟩)
      (.seq (.assign 0 ["I", "N"] (.sc .int) (.lit (.sgl (5 / 2)) ⟨4, 9⟩) ⟨4, 1⟩) .skip) }

example : RbModel.RecL.progWfB demoOk = true ∧ progRangeB demoOk.toAst = true ∧
    (RecL.Ref.run 40 demoOk.toAst).2 matches .normal := by
  refine ⟨?_, ?_, ?_⟩ <;> decide +kernel

end RbThm.C06RecL
