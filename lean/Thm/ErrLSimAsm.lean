import Thm.ErrLSimErr
import Thm.ErrLSimJump
import Thm.ErrLSimSeq
import Thm.ErrLSimStmt
import Thm.ErrLSimRead
import Thm.ErrLSimWhile
import Thm.ErrLSimDo
import Thm.ErrLSimIf
import Thm.ErrLSimSelect
/-!
Error layer, simulation part: the case lemmas put together by strong induction on the fuel — the statement theorem, modulo
the case lemma for FOR (`ForCase`, proved in `Thm/ErrLSimFor.lean`).
-/
namespace RbThm.ErrLSim
set_option linter.unusedVariables false
set_option linter.unusedSimpArgs false
open RbModel RbModel.Num RbModel.ErrL RbModel.ErrL.Compile RbModel.ErrL.Vm
open RbModel.JmpL.Compile (CInstr Code Dp)
open RbModel.Ast (Pos PrintItem CaseExpr)
open RbModel.Ref (St)
open RbModel.ErrL.Ref
open RbThm.ErrLLen

/-- the statement of the case lemma for FOR -/
def ForCase (C : Ctx) : Prop :=
  ∀ (fuel : Nat), StmtIHle C fuel → ∀ (x : Nat) (t : Ty) (lo hi : Ast.Expr) (step : Option Ast.Expr) (body : SStmt)
    (p : Pos) (sfx : String) (d e off nx vb gd : Nat) (m : Mode) (σ : EVm) (s : ESt),
    CodeAt C.prog.code off (compileStmt C.env sfx d e off (.forLoop x t lo hi step body p)) →
    LabAt C.env d e off (.forLoop x t lo hi step body p) →
    Wf C.sl C.env.dp C.rl d e (.forLoop x t lo hi step body p) →
    MarksAt C.prog.marks (marksStmt C.env.dp d e off (.forLoop x t lo hi step body p)) nx →
    off + sizeStmt C.env.dp d e (.forLoop x t lo hi step body p) ≤ nx →
    Entry C.env off (.forLoop x t lo hi step body p) m σ → ERel C.sl C.env s σ → Inv C d e vb gd σ →
    StmtSpec C d e vb (off + sizeStmt C.env.dp d e (.forLoop x t lo hi step body p)) nx σ
      (exec (fuel + 1) C.P gd (desugar (.forLoop x t lo hi step body p)) m s)

/-- one more unit of fuel: every construct of the layer, given the theorem at all smaller amounts -/
theorem stmtIH_succ (C : Ctx) (hC : C.Ok) (hfor : ForCase C) (fuel : Nat) (ih : StmtIHle C fuel) :
    StmtIH C (fuel + 1) := by
  intro stmt sfx d e off nx vb gd m σ s hc hl hw hm hnx hen hr hinv
  cases stmt with
  | skip => exact case_skip C hC fuel ih sfx d e off nx vb gd m σ s hc hl hw hm hnx hen hr hinv
  | comment => exact case_comment C hC fuel ih sfx d e off nx vb gd m σ s hc hl hw hm hnx hen hr hinv
  | seq a b => exact case_seq C hC fuel ih a b sfx d e off nx vb gd m σ s hc hl hw hm hnx hen hr hinv
  | dim x t p => exact case_dim C hC fuel ih x t p sfx d e off nx vb gd m σ s hc hl hw hm hnx hen hr hinv
  | assign x t ex p => exact case_assign C hC fuel ih x t ex p sfx d e off nx vb gd m σ s hc hl hw hm hnx hen hr hinv
  | print items p => exact case_print C hC fuel ih items p sfx d e off nx vb gd m σ s hc hl hw hm hnx hen hr hinv
  | «while» c body p => exact case_while C hC fuel ih c body p sfx d e off nx vb gd m σ s hc hl hw hm hnx hen hr hinv
  | end_ p => exact case_end C hC fuel ih p sfx d e off nx vb gd m σ s hc hl hw hm hnx hen hr hinv
  | data _ _ => exact hw.elim
  | read vars p => exact case_read C hC fuel ih vars p sfx d e off nx vb gd m σ s hc hl hw hm hnx hen hr hinv
  | ifBlock c thn elifs hasElse els p =>
    exact case_if C hC fuel ih c thn elifs hasElse els p sfx d e off nx vb gd m σ s hc hl hw hm hnx hen hr hinv
  | select sel cases hasElse els p =>
    exact case_select C hC fuel ih sel cases hasElse els p sfx d e off nx vb gd m σ s hc hl hw hm hnx hen hr hinv
  | forLoop x t lo hi step body p =>
    exact hfor fuel ih x t lo hi step body p sfx d e off nx vb gd m σ s hc hl hw hm hnx hen hr hinv
  | doLoop c top u body p => exact case_do C hC fuel ih c top u body p sfx d e off nx vb gd m σ s hc hl hw hm hnx hen hr hinv
  | label L name p => exact case_label C hC fuel ih L name p sfx d e off nx vb gd m σ s hc hl hw hm hnx hen hr hinv
  | goto L p => exact case_goto C hC fuel ih L p sfx d e off nx vb gd m σ s hc hl hw hm hnx hen hr hinv
  | gosub L p => exact case_gosub C hC fuel ih L p sfx d e off nx vb gd m σ s hc hl hw hm hnx hen hr hinv
  | ret p => exact case_ret C hC fuel ih p sfx d e off nx vb gd m σ s hc hl hw hm hnx hen hr hinv
  | onErrorGoto L p => exact case_onErrorGoto C hC fuel L p sfx d e off nx vb gd m σ s hc hw hen hr hinv
  | onErrorResumeNext p => exact case_onErrorResumeNext C hC fuel p sfx d e off nx vb gd m σ s hc hen hr hinv
  | onErrorGoto0 p => exact case_onErrorGoto0 C hC fuel p sfx d e off nx vb gd m σ s hc hen hr hinv
  | resume p => exact case_resume C hC fuel ih p sfx d e off nx vb gd m σ s hc hl hw hm hnx hen hr hinv
  | resumeNext p => exact case_resumeNext C hC fuel ih p sfx d e off nx vb gd m σ s hc hl hw hm hnx hen hr hinv
  | resumeLabel L p => exact case_resumeLabel C hC fuel ih L p sfx d e off nx vb gd m σ s hc hl hw hm hnx hen hr hinv

theorem stmtIHle_all (C : Ctx) (hC : C.Ok) (hfor : ForCase C) : ∀ fuel, StmtIHle C fuel := by
  intro fuel
  induction fuel with
  | zero =>
    intro f hf
    have : f = 0 := by omega
    subst this
    exact stmtIH_zero C
  | succ n ih =>
    intro f hf
    by_cases h : f ≤ n
    · exact ih f h
    · have : f = n + 1 := by omega
      subst this
      exact stmtIH_succ C hC hfor n ih

/-- **the statement theorem of the error layer, modulo the case lemma for FOR**: every statement other than a FOR — and every
FOR given `ForCase` — placed anywhere in the code of a consistent context, at any depths, entered from its first instruction or
at a label inside it, on top of any stacks that are high enough, inside or outside a handler: for every amount of fuel the VM
does what `ErrL.Ref.exec` prescribes, in the sense of `StmtSpec` -/
theorem compileStmt_correct_of (C : Ctx) (hC : C.Ok) (hfor : ForCase C) : ∀ fuel, StmtIH C fuel :=
  fun fuel => stmtIHle_all C hC hfor fuel fuel (Nat.le_refl _)

end RbThm.ErrLSim
