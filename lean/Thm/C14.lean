import RbModel.ConstEval
import Gen.NumTables
import Thm.C06
/-!
C14 — a CONST has the value and type its expression would have at run time.

Stated over `RbModel.ConstEval` (port of the linter's constant folder, of its two evaluation sites and
of the replacement of uses by literals) and the shared numeric model `RbModel.Num` (`Expr.eval` with
`vmBin` = what the generated code computes, `Expr.ty` with the extracted `binType` = the linter's static
type, `storeCast` = the conversion in front of a store).

The run-time meaning of an expression over constants is `Expr.eval` of its converted form (`toExpr`:
each use replaced by a literal of the folded value, `CONST` itself generates no code).
-/
namespace RbThm.C14
open RbModel RbModel.Num RbModel.ConstEval Gen.NumTables

/-! ### Plumbing -/

theorem fbind_ok {α β : Type} {r : FRes α} {f : α → FRes β} {b : β} (h : r.bind f = .ok b) :
    ∃ a, r = .ok a ∧ f a = .ok b := by
  cases r with
  | ok a => exact ⟨a, rfl, h⟩
  | err e => cases h
  | inexact => cases h

theorem ofRes_bind {α β : Type} (r : Res α) (f : α → Res β) :
    (ofRes r).bind (fun a => ofRes (f a)) = ofRes (r.bind f) := by
  cases r <;> rfl

theorem ofRes_ok {α : Type} {r : Res α} {a : α} : ofRes r = .ok a ↔ r = .ok a := by
  cases r <;> simp [ofRes]

/-- A lint error of the folder is the run-time error of the same kind, and only that. -/
theorem ofRes_err {α : Type} {r : Res α} {x : Err} : ofRes r = .err (LErr.ofErr x) ↔ r = .err x := by
  cases r with
  | ok a => simp [ofRes]
  | inexact => simp [ofRes]
  | err y => cases x <;> cases y <;> simp [ofRes, LErr.ofErr]

/-! ### One operator: the folder's arm is the VM's instruction sequence -/

/-- The six relational arms of `eval_const` apply the predicates of the VM's comparison handlers. -/
theorem foldRel_eq_relHolds (op : Op) (o : Ordering) : foldRel op o = relHolds op o := by
  cases op <;> cases o <;> rfl

/-- The type the folder converts a quotient to is the linter's static type of the division
(extracted `cast_binary_op`); a division involving a string has no static type. -/
theorem quotientTy_static (a b : Val) :
    binType .divide a.tag b.tag =
      if a.tag = .str ∨ b.tag = .str then none else some (quotientTy a b) := by
  cases a <;> cases b <;> rfl

theorem divide_str_left (s : List Char) (b : Val) : divide (.str s) b = .err .typeMismatch := by
  simp [divide, Val.toRat?]

theorem divide_str_right (a : Val) (s : List Char) : divide a (.str s) = .err .typeMismatch := by
  cases a <;> simp [divide, Val.toRat?, isApproxZero]

/-- **One binary operator.** On every pair of operand values the folder's arm computes what the
generated code computes (`vmBin` with the linter's typing table): the same value with the same tag, or
the same error. -/
theorem foldBin_eq_vmBin (op : Op) (a b : Val) : foldBin op a b = vmBin binType op a b := by
  cases op
  case divide =>
    simp only [foldBin, vmBin, quotientTy_static]
    by_cases hs : a.tag = .str ∨ b.tag = .str
    · rw [if_pos hs]
      rcases hs with hs | hs
      · cases a <;> simp [Val.tag] at hs
        simp [divide_str_left, Res.bind]
      · cases b <;> simp [Val.tag] at hs
        simp [divide_str_right, Res.bind]
    · rw [if_neg hs]
  all_goals simp only [foldBin, vmBin, foldRel_eq_relHolds]

/-- Why the folder was repaired (commit 41cd70e): calling `Variant::divide` / `Variant::and` directly, as
the pinned tree did, is not what the generated code computes — `6 / 3` was the INTEGER 2 for the folder
and is the SINGLE 2 at run time; `100000 AND 1` was a Type mismatch for the folder and is an Overflow
at run time, `1.5 OR 3` a Type mismatch instead of 3. -/
theorem unrepaired_arms_differ :
    divide (.int 6) (.int 3) = .ok (.int 2) ∧ vmBin binType .divide (.int 6) (.int 3) = .ok (.sgl 2) ∧
    Num.and (.long 100000) (.int 1) = .err .typeMismatch ∧
    vmBin binType .and (.long 100000) (.int 1) = .err .overflow ∧
    Num.or (.sgl (3 / 2)) (.int 3) = .err .typeMismatch ∧
    vmBin binType .or (.sgl (3 / 2)) (.int 3) = .ok (.int 3) := by decide +kernel

/-! ### Clause 1: folding is evaluating -/

/-- **`constFold_eq_runtime`.** For every constant expression `e` (any depth) over literals and
constants whose uses the converter accepts (`toExpr env e = some e'`: every referenced name is a
constant and carries no foreign suffix), folding `e` in the linter gives exactly what the generated
code of the converted expression computes: the same value with the same tag, or the same error kind
(Overflow, Division by zero, Type mismatch), or both leave the exact float domain. -/
theorem constFold_eq_runtime (env : Env) (venv : Nat → Val) (e : CExpr) (hc : e.Closed) (e' : Expr)
    (h : toExpr env e = some e') : fold env e = ofRes (e'.eval binType venv) := by
  induction e generalizing e' with
  | lit v => simp only [toExpr] at h; cases h; rfl
  | cref x q =>
    simp only [toExpr, useRef] at h
    simp only [fold, foldRef]
    cases hx : env x with
    | none => rw [hx] at h; cases h
    | some v =>
      rw [hx] at h
      cases q with
      | none => cases h; rfl
      | some t =>
        simp only at h ⊢
        by_cases ht : t = v.tag
        · rw [if_pos ht] at h; cases h; rw [if_pos ht.symm]; rfl
        · rw [if_neg ht] at h; cases h
  | var x => exact absurd hc (by simp [CExpr.Closed])
  | un op e ih =>
    simp only [toExpr, Option.map_eq_some_iff] at h
    obtain ⟨k, hk, rfl⟩ := h
    cases op <;> simp only [fold, Expr.eval, ih hc k hk, ofRes_bind]
  | bin op l r ihl ihr =>
    simp only [toExpr] at h
    cases hl : toExpr env l with
    | none => rw [hl] at h; cases h
    | some l' =>
      cases hr : toExpr env r with
      | none => rw [hl, hr] at h; cases h
      | some r' =>
        rw [hl, hr] at h; cases h
        simp only [fold, Expr.eval, ihl hc.1 l' hl, ihr hc.2 r' hr, foldBin_eq_vmBin]
        cases l'.eval binType venv <;> try rfl
        simp only [ofRes, FRes.bind, Res.bind]
        exact ofRes_bind _ _
  | paren e ih => simp only [toExpr] at h; simp only [fold]; exact ih hc e' h
  | other => simp [toExpr] at h

/-- An accepted constant is a closed expression whose converted form exists. -/
theorem fold_ok_closed (env : Env) (e : CExpr) (v : Val) (h : fold env e = .ok v) :
    e.Closed ∧ ∃ e', toExpr env e = some e' := by
  induction e generalizing v with
  | lit w => exact ⟨trivial, _, rfl⟩
  | cref x q =>
    refine ⟨trivial, ?_⟩
    simp only [fold, foldRef] at h
    simp only [toExpr, useRef]
    cases hx : env x with
    | none => rw [hx] at h; cases h
    | some w =>
      rw [hx] at h
      cases q with
      | none => exact ⟨_, rfl⟩
      | some t =>
        simp only at h ⊢
        by_cases ht : w.tag = t
        · rw [if_pos ht.symm]; exact ⟨_, rfl⟩
        · rw [if_neg ht] at h; cases h
  | var x => simp [fold] at h
  | un op e ih =>
    cases op <;>
    · simp only [fold] at h
      obtain ⟨a, ha, _⟩ := fbind_ok h
      obtain ⟨hc, k, hk⟩ := ih a ha
      exact ⟨hc, _, by simp only [toExpr, hk]; rfl⟩
  | bin op l r ihl ihr =>
    simp only [fold] at h
    obtain ⟨a, ha, h'⟩ := fbind_ok h
    obtain ⟨b, hb, _⟩ := fbind_ok h'
    obtain ⟨hcl, l', hl⟩ := ihl a ha
    obtain ⟨hcr, r', hr⟩ := ihr b hb
    exact ⟨⟨hcl, hcr⟩, .bin op l' r', by simp only [toExpr, hl, hr]⟩
  | paren e ih => simp only [fold] at h; exact ih v h
  | other => simp [fold] at h

/-- **Rejected uses.** Where the converter rejects a use inside `e` (a name that is no constant, a
foreign suffix — `DuplicateDefinition` at a use site) or `e` is no constant expression, the folder
rejects `CONST c = e` too (with `InvalidConstant` / `TypeMismatch` or an earlier arithmetic error). -/
theorem fold_rejects_bad_use (env : Env) (e : CExpr) (h : ¬ e.Closed ∨ toExpr env e = none) (v : Val) :
    fold env e ≠ .ok v := by
  intro hv
  obtain ⟨hc, e', he⟩ := fold_ok_closed env e v hv
  rcases h with h | h
  · exact h hc
  · rw [h] at he; cases he

/-- **Value clause** (`PRINT c` prints what `PRINT e` prints): an accepted `CONST c = e` stores exactly
the value — payload and tag — the generated code of `e` leaves in register A, in every run-time state. -/
theorem const_value_eq_runtime (env : Env) (e : CExpr) (v : Val) (h : fold env e = .ok v) :
    ∃ e', toExpr env e = some e' ∧ ∀ venv, e'.eval binType venv = .ok v := by
  obtain ⟨hc, e', he⟩ := fold_ok_closed env e v h
  refine ⟨e', he, fun venv => ?_⟩
  have := constFold_eq_runtime env venv e hc e' he
  rw [h] at this
  exact ofRes_ok.mp this.symm

/-! ### Clause 2: the type of a constant -/

/-- A value of each type, to build a well-typed run-time state for any declaration of variables. -/
def zeroOf : Ty → Val
  | .int => .int 0
  | .long => .long 0
  | .sgl => .sgl 0
  | .dbl => .dbl 0
  | .str => .str []

theorem zeroOf_wellTyped (decl : Nat → Ty) : WellTyped decl (fun x => zeroOf (decl x)) := by
  intro x
  cases h : decl x <;> simp only [zeroOf, Val.tag, Val.InRange, h] <;> first | trivial | decide

theorem inline_litsInRange (env : Env) (hr : EnvInRange env) (e : CExpr) (hl : e.LitsInRange) (e' : Expr)
    (h : toExpr env e = some e') : e'.LitsInRange := by
  induction e generalizing e' with
  | lit v => simp only [toExpr] at h; cases h; exact hl
  | cref x q =>
    simp only [toExpr, useRef] at h
    cases hx : env x with
    | none => rw [hx] at h; cases h
    | some v =>
      rw [hx] at h
      have hv := hr x v hx
      cases q with
      | none => cases h; exact hv
      | some t =>
        simp only at h
        by_cases ht : t = v.tag
        · rw [if_pos ht] at h; cases h; exact hv
        · rw [if_neg ht] at h; cases h
  | var x => simp only [toExpr] at h; cases h; trivial
  | un op e ih =>
    simp only [toExpr, Option.map_eq_some_iff] at h
    obtain ⟨k, hk, rfl⟩ := h
    exact ih hl k hk
  | bin op l r ihl ihr =>
    simp only [toExpr] at h
    cases hl' : toExpr env l with
    | none => rw [hl'] at h; cases h
    | some l' =>
      cases hr' : toExpr env r with
      | none => rw [hl', hr'] at h; cases h
      | some r' =>
        rw [hl', hr'] at h; cases h
        exact ⟨ihl hl.1 l' hl', ihr hl.2 r' hr'⟩
  | paren e ih => simp only [toExpr] at h; exact ih hl e' h
  | other => simp [toExpr] at h

/-- **Type clause** (`c` has the same type as `e`): the tag of the folded value is the static type the
linter gives the converted expression (so a use of `c`, which becomes a literal of that tag, is typed
like `(e)` in every context), and the value is in range for it. -/
theorem const_type_eq_static (env : Env) (hr : EnvInRange env) (e : CExpr) (hl : e.LitsInRange) (v : Val)
    (h : fold env e = .ok v) (decl : Nat → Ty) :
    ∃ e', toExpr env e = some e' ∧ e'.ty binType decl = some v.tag ∧ v.InRange := by
  obtain ⟨e', he, hev⟩ := const_value_eq_runtime env e v h
  have := RbThm.C06.eval_typed decl _ (zeroOf_wellTyped decl) e' (inline_litsInRange env hr e hl e' he) v (hev _)
  exact ⟨e', he, this.1, this.2⟩

/-! ### Clause 2b: the declared suffix -/

theorem cast_own_tag (v : Val) : Num.cast v v.tag = .ok v := by
  cases v <;> rfl

/-- **`const_suffix_cast`.** A declared suffix means: the folded value goes through `cast` to that type
exactly once, at both evaluation sites (the pre-linter's map of global constants and the converter);
a bare name keeps the folded value.  What is stored has the suffix's type and is in range for it, and a
definition is rejected with the error of that conversion (Overflow when the rounded value does not fit,
Type mismatch between strings and numbers). -/
theorem const_suffix_cast (env : Env) (e : CExpr) :
    (∀ q, declareConv env (some q) e = (fold env e).bind fun v => ofRes (Num.cast v q)) ∧
    (∀ q, declarePre env (some q) e = (fold env e).bind fun v => ofRes (Num.cast v q)) ∧
    declareConv env none e = fold env e ∧ declarePre env none e = fold env e := by
  refine ⟨fun q => ?_, fun q => rfl, ?_, ?_⟩
  · simp only [declareConv]
    cases fold env e with
    | ok v =>
      simp only [FRes.bind]
      by_cases hq : q = v.tag
      · rw [if_pos hq, hq, cast_own_tag]; rfl
      · rw [if_neg hq]
    | err x => rfl
    | inexact => rfl
  · simp only [declareConv]; cases fold env e <;> rfl
  · simp only [declarePre]; cases fold env e <;> rfl

/-- Both evaluation sites agree on every definition. -/
theorem const_sites_agree (env : Env) (suffix : Option Ty) (e : CExpr) :
    declarePre env suffix e = declareConv env suffix e := by
  obtain ⟨h1, h2, h3, h4⟩ := const_suffix_cast env e
  cases suffix with
  | none => rw [h3, h4]
  | some q => rw [h1, h2]

/-- A suffixed constant has the suffix's type, in range. -/
theorem const_suffix_typed (env : Env) (hr : EnvInRange env) (e : CExpr) (hl : e.LitsInRange) (q : Ty) (w : Val)
    (h : declareConv env (some q) e = .ok w) : w.tag = q ∧ w.InRange := by
  rw [(const_suffix_cast env e).1 q] at h
  obtain ⟨v, hv, hc⟩ := fbind_ok h
  obtain ⟨_, _, _, hvr⟩ := const_type_eq_static env hr e hl v hv (fun _ => .int)
  exact RbThm.C06.cast_sound v q w hvr (ofRes_ok.mp hc)

/-- At global level the scope chain is the global map. -/
theorem scopeEnv_nil (m : Consts) : scopeEnv m [] = lookup m := by
  funext x
  simp only [scopeEnv, lookup]
  cases lookup m x <;> rfl

/-- **Both passes agree**: the pre-linter's map of the global constants equals what the converter
computes for the same `CONST` statements, for every list of definitions (same values, same tags, or the
same rejection). -/
theorem preLint_eq_convert (ds : List Decl) (m : Consts) : preLint ds m = convert [] ds m := by
  induction ds generalizing m with
  | nil => rfl
  | cons d ds ih =>
    simp only [preLint, convert, scopeEnv_nil, const_sites_agree]
    cases lookup m d.name with
    | some _ => rfl
    | none =>
      simp only
      cases declareConv (lookup m) d.suffix d.e with
      | ok v => simp only [FRes.bind]; exact ih _
      | err x => rfl
      | inexact => rfl

/-- A constant of the current scope hides a global one of the same name; otherwise the global one is
seen (`ConstLookup for Names`). -/
theorem scopeEnv_shadow (loc glob : Consts) (x : Nat) :
    (∀ v, lookup loc x = some v → scopeEnv loc glob x = some v) ∧
    (lookup loc x = none → scopeEnv loc glob x = lookup glob x) := by
  constructor
  · intro v h; simp [scopeEnv, h]
  · intro h; simp [scopeEnv, h]

/-- Every definition stores a value of its own type, in range: the invariant the other theorems assume
of the environment (`EnvInRange`) is established by the converter's pass itself. -/
theorem declareConv_inRange (env : Env) (hr : EnvInRange env) (suffix : Option Ty) (e : CExpr)
    (hl : e.LitsInRange) (w : Val) (h : declareConv env suffix e = .ok w) : w.InRange := by
  cases suffix with
  | none =>
    rw [(const_suffix_cast env e).2.2.1] at h
    exact (const_type_eq_static env hr e hl w h (fun _ => .int)).choose_spec.2.2
  | some q => exact (const_suffix_typed env hr e hl q w h).2

theorem lookup_cons_inRange (m : Consts) (x : Nat) (w : Val) (hm : EnvInRange (lookup m)) (hw : w.InRange) :
    EnvInRange (lookup ((x, w) :: m)) := by
  intro y v hy
  simp only [lookup] at hy
  by_cases hyx : y = x
  · rw [if_pos hyx] at hy; cases hy; exact hw
  · rw [if_neg hyx] at hy; exact hm y v hy

theorem scopeEnv_inRange (loc glob : Consts) (hl : EnvInRange (lookup loc)) (hg : EnvInRange (lookup glob)) :
    EnvInRange (scopeEnv loc glob) := by
  intro x v h
  simp only [scopeEnv] at h
  cases hx : lookup loc x with
  | some w => rw [hx] at h; cases h; exact hl x v hx
  | none => rw [hx] at h; exact hg x v h

theorem convert_inRange (glob : Consts) (hg : EnvInRange (lookup glob)) (ds : List Decl)
    (hds : ∀ d ∈ ds, d.e.LitsInRange) (m m' : Consts) (hm : EnvInRange (lookup m))
    (h : convert glob ds m = .ok m') : EnvInRange (lookup m') := by
  induction ds generalizing m with
  | nil => simp only [convert] at h; cases h; exact hm
  | cons d ds ih =>
    simp only [convert] at h
    cases hd : lookup m d.name with
    | some _ => rw [hd] at h; cases h
    | none =>
      rw [hd] at h
      simp only at h
      obtain ⟨w, hw, h'⟩ := fbind_ok h
      have hwr := declareConv_inRange _ (scopeEnv_inRange m glob hm hg) d.suffix d.e
        (hds d (List.mem_cons_self ..)) w hw
      exact ih (fun d' hd' => hds d' (List.mem_cons_of_mem _ hd')) _
        (lookup_cons_inRange m d.name w hm hwr) h'

/-! ### Clause 3: replacing uses by the defining expression -/

/-- **`const_inline_equiv`.** Let `CONST c = e` be accepted with value `v` (a bare name, or a suffix
that is the type of `e`: the stored value is the folded one).  In every expression `ctx` — over
literals, variables, `c` and other constants — replacing each use of `c` by `(e)` gives a converted
expression with the same static type under every declaration of the variables and the same run-time
result (value and tag, or error) in every run-time state.  Statements see an expression only through
these two. -/
theorem const_inline_equiv (env : Env) (hr : EnvInRange env) (c : Nat) (e : CExpr) (hl : e.LitsInRange)
    (v : Val) (hf : fold env e = .ok v) (ctx : CExpr) (k : Expr)
    (hk : toExpr (upd env c v) ctx = some k) :
    ∃ k', toExpr env (subst c e ctx) = some k' ∧
      (∀ venv, k'.eval binType venv = k.eval binType venv) ∧
      (∀ decl, k'.ty binType decl = k.ty binType decl) := by
  induction ctx generalizing k with
  | lit w => simp only [toExpr] at hk; cases hk; exact ⟨_, rfl, fun _ => rfl, fun _ => rfl⟩
  | var x => simp only [toExpr] at hk; cases hk; exact ⟨_, rfl, fun _ => rfl, fun _ => rfl⟩
  | other => simp [toExpr] at hk
  | paren t ih => simp only [toExpr] at hk; simp only [subst, toExpr]; exact ih k hk
  | cref x q =>
    by_cases hx : x = c
    · subst hx
      simp only [toExpr, useRef, upd, ite_true] at hk
      have hkv : k = .lit v := by
        cases q with
        | none => cases hk; rfl
        | some t =>
          simp only at hk
          by_cases ht : t = v.tag
          · rw [if_pos ht] at hk; cases hk; rfl
          · rw [if_neg ht] at hk; cases hk
      subst hkv
      simp only [subst, ite_true, toExpr]
      obtain ⟨e', he, hev⟩ := const_value_eq_runtime env e v hf
      refine ⟨e', he, fun venv => by rw [hev venv]; rfl, fun decl => ?_⟩
      obtain ⟨e'', he', hty, _⟩ := const_type_eq_static env hr e hl v hf decl
      rw [he] at he'; cases he'
      rw [hty]; rfl
    · simp only [subst, if_neg hx]
      refine ⟨k, ?_, fun _ => rfl, fun _ => rfl⟩
      simp only [toExpr, useRef, upd, if_neg hx] at hk ⊢
      exact hk
  | un op t ih =>
    simp only [toExpr, Option.map_eq_some_iff] at hk
    obtain ⟨j, hj, rfl⟩ := hk
    obtain ⟨j', hj', hev, hty⟩ := ih j hj
    refine ⟨.un op j', by simp only [subst, toExpr, hj']; rfl, fun venv => ?_, fun decl => ?_⟩
    · cases op <;> simp only [Expr.eval, hev venv]
    · simp only [Expr.ty, hty decl]
  | bin op l r ihl ihr =>
    simp only [toExpr] at hk
    cases hl' : toExpr (upd env c v) l with
    | none => rw [hl'] at hk; cases hk
    | some l' =>
      cases hr' : toExpr (upd env c v) r with
      | none => rw [hl', hr'] at hk; cases hk
      | some r' =>
        rw [hl', hr'] at hk; cases hk
        obtain ⟨l'', hl'', hevl, htyl⟩ := ihl l' hl'
        obtain ⟨r'', hr'', hevr, htyr⟩ := ihr r' hr'
        refine ⟨.bin op l'' r'', by simp only [subst, toExpr, hl'', hr''], fun venv => ?_, fun decl => ?_⟩
        · simp only [Expr.eval, hevl venv, hevr venv]
        · simp only [Expr.ty, htyl decl, htyr decl]

/-- The statement `const_inline_equiv` would make about a constant whose suffix differs from the type
of its expression: inlining `(e)` for `c` preserves the value. It is false — that is why the theorem
asks for the stored value to be the folded one — and the harness inlines such a constant through a
conversion. -/
def InlineEquivForAnySuffix : Prop :=
  ∀ (env : Env) (e : CExpr) (q : Ty) (w : Val), declareConv env (some q) e = .ok w →
    ∀ e', toExpr env e = some e' → ∀ venv, e'.eval binType venv = .ok w

/-- `CONST c% = 2.5`: `c` is the INTEGER 3, `(2.5)` is the SINGLE 2.5. -/
theorem inline_equiv_needs_same_type : ¬ InlineEquivForAnySuffix := by
  intro h
  have := h (fun _ => none) (.lit (.sgl (5 / 2))) .int (.int 3) (by decide +kernel) _ rfl (fun _ => .int 0)
  revert this
  decide +kernel

/-! ### Clause 4: rejection ⇔ run-time error -/

/-- What the program computes for `e` at run time where the constant has a suffix `q`: the code of the
converted expression, then the conversion the generator puts in front of a store into a `q` location
(`x<q> = e`), given the static type `s` of the expression; for a bare name, the code of `e` alone. -/
def runtimeOf (suffix : Option Ty) (s : Ty) (e' : Expr) (venv : Nat → Val) : Res Val :=
  match suffix with
  | none => e'.eval binType venv
  | some q => (e'.eval binType venv).bind (storeCast s q)

/-- A definition yields what the run-time form yields (value, tag, error kind), at either site. -/
theorem declare_eq_runtime (env : Env) (hr : EnvInRange env) (suffix : Option Ty) (e : CExpr)
    (hl : e.LitsInRange) (hc : e.Closed) (e' : Expr) (he : toExpr env e = some e') (decl : Nat → Ty) (s : Ty)
    (hs : e'.ty binType decl = some s) (venv : Nat → Val) :
    declareConv env suffix e = ofRes (runtimeOf suffix s e' venv) := by
  have hfold := constFold_eq_runtime env venv e hc e' he
  cases suffix with
  | none => rw [(const_suffix_cast env e).2.2.1, hfold]; rfl
  | some q =>
    rw [(const_suffix_cast env e).1 q]
    simp only [runtimeOf]
    cases hv : fold env e with
    | err x => rw [hv] at hfold; cases hev : e'.eval binType venv <;> rw [hev] at hfold <;> cases hfold <;> rfl
    | inexact => rw [hv] at hfold; cases hev : e'.eval binType venv <;> rw [hev] at hfold <;> cases hfold <;> rfl
    | ok v =>
      rw [hv] at hfold
      have hev : e'.eval binType venv = .ok v := ofRes_ok.mp hfold.symm
      obtain ⟨e'', he'', hty, _⟩ := const_type_eq_static env hr e hl v hv decl
      rw [he] at he''; cases he''
      rw [hs] at hty; cases hty
      simp only [hev, FRes.bind, Res.bind, storeCast]
      by_cases hq : v.tag = q
      · rw [if_pos hq, ← hq, cast_own_tag]
      · rw [if_neg hq]

/-- **`const_rejected_iff_runtime_error`.** For a constant expression whose run-time form the linter
accepts (static type `s`): `CONST c = e` (bare or suffixed, at the converter and — by
`const_sites_agree` — at the pre-linter) is rejected with Overflow exactly when evaluating `e` at run
time (and converting it to the suffix's type) raises Overflow, and with Division by zero exactly when
the run raises Division by zero; the same for Type mismatch. -/
theorem const_rejected_iff_runtime_error (env : Env) (hr : EnvInRange env) (suffix : Option Ty) (e : CExpr)
    (hl : e.LitsInRange) (hc : e.Closed) (e' : Expr) (he : toExpr env e = some e') (decl : Nat → Ty) (s : Ty)
    (hs : e'.ty binType decl = some s) (venv : Nat → Val) (x : Err) :
    (declareConv env suffix e = .err (LErr.ofErr x) ↔ runtimeOf suffix s e' venv = .err x) ∧
    (declarePre env suffix e = .err (LErr.ofErr x) ↔ runtimeOf suffix s e' venv = .err x) := by
  rw [const_sites_agree, declare_eq_runtime env hr suffix e hl hc e' he decl s hs venv]
  exact ⟨ofRes_err, ofRes_err⟩

/-- A definition is accepted exactly when the run succeeds, with the same value. -/
theorem const_accepted_iff_runtime_ok (env : Env) (hr : EnvInRange env) (suffix : Option Ty) (e : CExpr)
    (hl : e.LitsInRange) (hc : e.Closed) (e' : Expr) (he : toExpr env e = some e') (decl : Nat → Ty) (s : Ty)
    (hs : e'.ty binType decl = some s) (venv : Nat → Val) (w : Val) :
    declareConv env suffix e = .ok w ↔ runtimeOf suffix s e' venv = .ok w := by
  rw [declare_eq_runtime env hr suffix e hl hc e' he decl s hs venv]
  exact ofRes_ok

/-! ### `STRING * c` -/

/-- A `TYPE` element `STRING * c` gets the length the constant has, and only an INTEGER constant in
1..32767 is accepted. -/
theorem stringLength_sound (env : Env) (x : Nat) (q : Option Ty) (n : Int) (h : stringLength env x q = some n) :
    env x = some (.int n) ∧ 1 ≤ n ∧ n ≤ 32767 := by
  simp only [stringLength] at h
  split at h
  · split at h
    · next i hi =>
      split at h
      · next hb => cases h; exact ⟨hi, hb.1, hb.2⟩
      · cases h
    · cases h
  · cases h

/-! ### Instances -/

def exEnv : Env := lookup [(0, .int 2), (1, .long 100000), (2, .sgl (7 / 2))]

/-- `CONST C = 6 / 3` is the SINGLE 2 (as `PRINT 6 / 3` computes it), `CONST C = 100000 AND 1` is
rejected with Overflow (as the run-time conversion to INTEGER raises it), `1.5 OR 3` is 3;
`C0 + C1` is the LONG 100002, `C2% ` is a Type mismatch for the folder and rejected at a use site;
`-(-32768)` and `C1 * C1` overflow, `C0 / (C0 - 2)` divides by zero, `CONST D% = C2` is 4. -/
example :
    fold exEnv (.bin .divide (.lit (.int 6)) (.lit (.int 3))) = .ok (.sgl 2) ∧
    fold exEnv (.bin .and (.lit (.long 100000)) (.lit (.int 1))) = .err .overflow ∧
    fold exEnv (.bin .or (.lit (.sgl (3 / 2))) (.lit (.int 3))) = .ok (.int 3) ∧
    fold exEnv (.bin .plus (.cref 0 none) (.cref 1 (some .long))) = .ok (.long 100002) ∧
    fold exEnv (.cref 2 (some .int)) = .err .typeMismatch ∧
    toExpr exEnv (.cref 2 (some .int)) = none ∧
    fold exEnv (.un .neg (.paren (.lit (.int (-32768))))) = .err .overflow ∧
    fold exEnv (.bin .multiply (.cref 1 none) (.cref 1 none)) = .err .overflow ∧
    fold exEnv (.bin .divide (.cref 0 none) (.paren (.bin .minus (.cref 0 none) (.lit (.int 2))))) = .err .divisionByZero ∧
    declareConv exEnv (some .int) (.cref 2 none) = .ok (.int 4) ∧
    declarePre exEnv (some .int) (.cref 2 none) = .ok (.int 4) := by decide +kernel

/-- The hypotheses of `const_rejected_iff_runtime_error` / `const_inline_equiv` hold on a non-trivial
instance: the environment is in range, `C1 * C0 + C2` is closed, converts, has static type SINGLE and
folds to 200003.5. -/
example : (∀ x, x < 3 → ∀ v, exEnv x = some v → v.InRange) ∧
    (toExpr exEnv (.bin .plus (.bin .multiply (.cref 1 none) (.cref 0 none)) (.cref 2 none))).map
      (fun k => k.ty binType (fun _ => .int)) = some (some .sgl) ∧
    fold exEnv (.bin .plus (.bin .multiply (.cref 1 none) (.cref 0 none)) (.cref 2 none)) = .ok (.sgl (400007 / 2)) := by
  decide +kernel

end RbThm.C14
