import Thm.C09
/-!
C09, second part — the lexer splits at blank / end-of-line boundaries (`lex (pre ++ suf) = lex pre ++ lex suf`),
and with it the end-of-line, blank-run and blank-line invariance of the normal form hold ANYWHERE in a program,
not only at the front of the remaining input.
-/
namespace RbThm.C09
open RbModel.Lex

/-! ## helper lemmas -/

/-- the characters at which the text is cut: CR, LF, blank, tab -/
def Boundary (b : Nat) : Prop := b = 13 ∨ b = 10 ∨ b = 32 ∨ b = 9

theorem takeWhile_append_stop (p : Nat → Bool) (cs suf : List Nat)
    (h : cs.all p = true → ∀ b, suf.head? = some b → p b = false) :
    (cs ++ suf).takeWhile p = cs.takeWhile p := by
  induction cs with
  | nil =>
    cases suf with
    | nil => rfl
    | cons b r => simp [h rfl b rfl]
  | cons x xs ih =>
    simp only [List.cons_append, List.takeWhile]
    cases hx : p x with
    | false => rfl
    | true =>
      simp only
      rw [ih (fun hall => h (by simp [hx, hall]))]

theorem boundary_classes (b : Nat) (hb : Boundary b) :
    isLetter b = false ∧ isDigit b = false ∧ isIdentChar b = false ∧ isHex b = false ∧ isOct b = false
    ∧ isAlnum b = false := by
  rcases hb with rfl | rfl | rfl | rfl <;> decide

theorem allowed_dropWhile_append (cs suf : List Nat) (b : Nat) (hs : suf.head? = some b) (hb : Boundary b) :
    allowedAfterKeyword ((cs ++ suf).dropWhile isLetter).head? = allowedAfterKeyword (cs.dropWhile isLetter).head? := by
  induction cs with
  | nil =>
    cases suf with
    | nil => simp at hs
    | cons c r =>
      simp only [List.head?_cons, Option.some.injEq] at hs
      subst hs
      have := boundary_classes c hb
      simp only [List.nil_append, List.dropWhile, this.1, List.head?_cons, List.head?_nil]
      rcases hb with rfl | rfl | rfl | rfl <;> decide
  | cons x xs ih =>
    simp only [List.cons_append, List.dropWhile]
    cases hx : isLetter x with
    | false => simp
    | true => simpa using ih

theorem nextIs_append (cs suf : List Nat) (d : Nat) (h : cs = [] → nextIs suf d = false) :
    nextIs (cs ++ suf) d = nextIs cs d := by
  cases cs with
  | nil => simp [nextIs] at h ⊢; simpa [nextIs] using h
  | cons x xs => simp [nextIs]

theorem nextIs_boundary (suf : List Nat) (b d : Nat) (hs : suf.head? = some b) (hne : b ≠ d) : nextIs suf d = false := by
  simp [nextIs, hs, hne]

theorem radixLen_append (p : Nat → Bool) (ds suf : List Nat) (b : Nat) (hs : suf.head? = some b)
    (hp : p b = false) (h45 : b ≠ 45) : radixLen p (ds ++ suf) = radixLen p ds := by
  have stop : ∀ cs : List Nat, (cs ++ suf).takeWhile p = cs.takeWhile p := fun cs =>
    takeWhile_append_stop p cs suf (fun _ c hc => by rw [hs] at hc; cases hc; exact hp)
  cases ds with
  | nil =>
    cases suf with
    | nil => rfl
    | cons c r =>
      simp only [List.head?_cons, Option.some.injEq] at hs
      subst hs
      simp [radixLen, h45, hp]
  | cons d t =>
    simp only [List.cons_append, radixLen]
    rw [stop t]
    have := stop (d :: t)
    simp only [List.cons_append] at this
    rw [this]

theorem ampersand_append (cs suf : List Nat) (b : Nat) (hs : suf.head? = some b) (hb : Boundary b) :
    ampersand (cs ++ suf) = ampersand cs := by
  have hc := boundary_classes b hb
  have h45 : b ≠ 45 := by rcases hb with rfl | rfl | rfl | rfl <;> decide
  cases cs with
  | nil =>
    cases suf with
    | nil => rfl
    | cons c r =>
      simp only [List.head?_cons, Option.some.injEq] at hs
      subst hs
      have h1 : upper c ≠ 79 := by rcases hb with rfl | rfl | rfl | rfl <;> decide
      have h2 : upper c ≠ 72 := by rcases hb with rfl | rfl | rfl | rfl <;> decide
      simp [ampersand, h1, h2]
  | cons r ds =>
    simp only [List.cons_append, ampersand, radixLen_append isOct ds suf b hs hc.2.2.2.2.1 h45,
      radixLen_append isHex ds suf b hs hc.2.2.2.1 h45]

theorem word_append (c : Nat) (cs suf : List Nat) (b : Nat) (hs : suf.head? = some b) (hb : Boundary b) :
    word c (cs ++ suf) = word c cs := by
  have hc := boundary_classes b hb
  have stopL := takeWhile_append_stop isLetter cs suf (fun _ x hx => by rw [hs] at hx; cases hx; exact hc.1)
  have stopI := takeWhile_append_stop isIdentChar cs suf (fun _ x hx => by rw [hs] at hx; cases hx; exact hc.2.2.1)
  unfold word
  rw [stopL, stopI, allowed_dropWhile_append cs suf b hs hb]

/-- `pre` may be followed by a text starting with `b` without the last token of `pre` growing:
no blank after a blank, no LF after a CR. -/
def Compat (pre : List Nat) (b : Nat) : Prop :=
  ∀ l, pre.getLast? = some l → ¬(isWs l = true ∧ isWs b = true) ∧ ¬(l = 13 ∧ b = 10)

theorem all_ws_last (c : Nat) (cs : List Nat) (hc : isWs c = true) (h : cs.all isWs = true) :
    ∃ l, (c :: cs).getLast? = some l ∧ isWs l = true := by
  induction cs generalizing c with
  | nil => exact ⟨c, rfl, hc⟩
  | cons x xs ih =>
    simp only [List.all_cons, Bool.and_eq_true] at h
    obtain ⟨l, hl, hw⟩ := ih x h.1 h.2
    exact ⟨l, by simpa [List.getLast?_cons_cons] using hl, hw⟩

/-- One `any_token()` call does not see what follows a boundary: locality of the tokenizer. -/
theorem lexOne_append (c : Nat) (cs suf : List Nat) (b : Nat) (hs : suf.head? = some b) (hb : Boundary b)
    (hcomp : Compat (c :: cs) b) : lexOne (c :: cs ++ suf) = lexOne (c :: cs) := by
  have hc := boundary_classes b hb
  have stopD := takeWhile_append_stop isDigit cs suf (fun _ x hx => by rw [hs] at hx; cases hx; exact hc.2.1)
  have stopW : isWs c = true → (cs ++ suf).takeWhile isWs = cs.takeWhile isWs := fun hw =>
    takeWhile_append_stop isWs cs suf (fun hall x hx => by
      have hxb : x = b := by rw [hs] at hx; exact (Option.some.inj hx).symm
      subst hxb
      obtain ⟨l, hl, hlw⟩ := all_ws_last c cs hw hall
      have := (hcomp l hl).1
      cases hbw : isWs x with
      | false => rfl
      | true => exact absurd ⟨hlw, hbw⟩ this)
  have n10 : c = 13 → nextIs (cs ++ suf) 10 = nextIs cs 10 := fun h13 =>
    nextIs_append cs suf 10 (fun hnil => by
      subst hnil; subst h13
      have := (hcomp 13 rfl).2
      cases suf with
      | nil => rfl
      | cons x r =>
        simp only [List.head?_cons, Option.some.injEq] at hs; subst hs
        simp only [nextIs, List.head?_cons, beq_eq_false_iff_ne, ne_eq, Option.some.injEq]
        exact fun h => this ⟨rfl, h⟩)
  have n61 : nextIs (cs ++ suf) 61 = nextIs cs 61 :=
    nextIs_append cs suf 61 (fun _ => nextIs_boundary suf b 61 hs (by rcases hb with rfl | rfl | rfl | rfl <;> decide))
  have n62 : nextIs (cs ++ suf) 62 = nextIs cs 62 :=
    nextIs_append cs suf 62 (fun _ => nextIs_boundary suf b 62 hs (by rcases hb with rfl | rfl | rfl | rfl <;> decide))
  simp only [List.cons_append, lexOne]
  by_cases h13 : c = 13
  · simp only [h13, if_true]; rw [n10 h13]
  · simp only [h13, if_false]
    by_cases h10 : c = 10
    · simp only [h10, if_true]
    · simp only [h10, if_false]
      by_cases hw : isWs c = true
      · simp only [hw, if_true, stopW hw]
      · have hw' : isWs c = false := by simpa using hw
        simp only [hw', Bool.false_eq_true, if_false, stopD, n61, n62, word_append c cs suf b hs hb,
          ampersand_append cs suf b hs hb]

theorem takeWhile_length_le (p : Nat → Bool) (l : List Nat) : (l.takeWhile p).length ≤ l.length := by
  induction l with
  | nil => simp
  | cons x xs ih =>
    simp only [List.takeWhile]
    cases p x <;> simp <;> omega

theorem lexOne_cons_ne_eof (c : Nat) (cs : List Nat) : lexOne (c :: cs) ≠ .eof := by
  have hw : word c cs ≠ .eof := by unfold word; (repeat' split) <;> simp
  have ha : ampersand cs ≠ .eof := by unfold ampersand; (repeat' split) <;> simp
  simp only [lexOne]
  (repeat' split) <;> first | exact hw | exact ha | simp

theorem radixLen_le (p : Nat → Bool) (ds : List Nat) (n : Nat) (h : radixLen p ds = some n) : n ≤ ds.length + 2 := by
  unfold radixLen at h
  revert h
  cases ds with
  | nil => simp
  | cons d t =>
    simp only
    have h1 := takeWhile_length_le p t
    have h2 := takeWhile_length_le p (d :: t)
    simp only [List.length_cons] at h2 ⊢
    (repeat' split) <;> intro h <;> cases h <;> omega

theorem nextIs_length (cs : List Nat) (d : Nat) (h : nextIs cs d = true) : 1 ≤ cs.length := by
  cases cs with
  | nil => simp [nextIs] at h
  | cons _ _ => simp

/-- A token never extends beyond the input. -/
theorem lexOne_le (s : List Nat) (k : Kind) (n : Nat) (h : lexOne s = .tok k n) : n ≤ s.length := by
  cases s with
  | nil => simp [lexOne] at h
  | cons c cs =>
    have tw : ∀ p : Nat → Bool, (cs.takeWhile p).length ≤ cs.length := fun p => takeWhile_length_le p cs
    have hword : ∀ k n, word c cs = .tok k n → n ≤ cs.length + 1 := by
      intro k n; unfold word
      have := tw isLetter; have := tw isIdentChar
      (repeat' split) <;> intro h <;> cases h <;> omega
    have hamp : ∀ k n, ampersand cs = .tok k n → n ≤ cs.length + 1 := by
      intro k n; unfold ampersand
      cases cs with
      | nil => simp; intro _ h; omega
      | cons r ds =>
        simp only [List.length_cons]
        (repeat' split) <;> intro h <;> cases h <;>
          first
          | omega
          | (have := radixLen_le _ _ _ (by assumption); omega)
    simp only [lexOne] at h
    simp only [List.length_cons]
    have := tw isWs; have := tw isDigit
    revert h
    (repeat' split) <;> intro h <;>
      first
      | exact hword _ _ h
      | exact hamp _ _ h
      | (cases h; have := nextIs_length cs _ (by assumption); omega)
      | (cases h; omega)

theorem getLast?_drop_of_lt (l : List Nat) (n : Nat) (h : n < l.length) : (l.drop n).getLast? = l.getLast? := by
  rw [List.getLast?_drop]; simp; omega

theorem lexF_append (n : Nat) (pre suf : List Nat) (b : Nat) (hs : suf.head? = some b) (hb : Boundary b)
    (hlen : pre.length ≤ n) (hcomp : Compat pre b) :
    lexF (n + suf.length) (pre ++ suf) = lexF n pre ++ lexF suf.length suf := by
  induction n generalizing pre with
  | zero =>
    have : pre = [] := List.eq_nil_of_length_eq_zero (by omega)
    subst this
    simp [lexF]
  | succ m ih =>
    cases pre with
    | nil =>
      simp only [List.nil_append, lexF, lexOne, List.nil_append]
      exact lexF_fuel _ _ (by omega)
    | cons c cs =>
      have e : m + 1 + suf.length = (m + suf.length) + 1 := by omega
      rw [e]
      simp only [lexF]
      rw [lexOne_append c cs suf b hs hb hcomp]
      cases hl : lexOne (c :: cs) with
      | eof => exact absurd hl (lexOne_cons_ne_eof c cs)
      | tok k j =>
        have hp := lexOne_pos _ _ _ hl
        have hle := lexOne_le _ _ _ hl
        simp only [List.cons_append, List.cons.injEq]
        have htake : ((c :: cs) ++ suf).take j = (c :: cs).take j := List.take_append_of_le_length hle
        have hdrop : ((c :: cs) ++ suf).drop j = (c :: cs).drop j ++ suf := List.drop_append_of_le_length hle
        simp only [List.cons_append] at htake hdrop
        rw [htake, hdrop]
        refine ⟨rfl, ?_⟩
        apply ih
        · simp only [List.length_drop, List.length_cons] at hlen ⊢; omega
        · intro l hl'
          by_cases hlt : j < (c :: cs).length
          · rw [getLast?_drop_of_lt _ _ hlt] at hl'; exact hcomp l hl'
          · have : (c :: cs).drop j = [] := List.drop_eq_nil_of_le (by omega)
            rw [this] at hl'; simp at hl'

/-! ## the append lemma -/

/-- THE LEXER SPLITS AT BOUNDARIES.  If the second part starts with a blank, a tab, a CR or a LF, the first part does not
end in a character that would merge with it (blank before blank, CR before LF), then the tokens of the whole text are
the tokens of the parts.  (The tokenizer has no error case any more: the 40-character limit is a property of names.) -/
theorem lex_append (pre suf : List Nat) (b : Nat) (hs : suf.head? = some b) (hb : Boundary b)
    (hcomp : Compat pre b) : lex (pre ++ suf) = lex pre ++ lex suf := by
  unfold lex
  rw [List.length_append]
  exact lexF_append pre.length pre suf b hs hb (Nat.le_refl _) hcomp

example : lex ([80, 82, 73, 78, 84, 32, 120] ++ [13, 10, 121]) = lex [80, 82, 73, 78, 84, 32, 120] ++ lex [13, 10, 121]
    ∧ Compat [80, 82, 73, 78, 84, 32, 120] 13
    -- and the side conditions matter: CR | LF and blank | blank merge
    ∧ lex ([120, 13] ++ [10]) ≠ lex [120, 13] ++ lex [10] ∧ lex ([120, 32] ++ [32]) ≠ lex [120, 32] ++ lex [32] := by
  refine ⟨by decide +kernel, ?_, by decide +kernel, by decide +kernel⟩
  intro l hl; simp at hl; subst hl; decide

/-! ## the normal-form theorems, anywhere in the program -/

/-- the mode after a run of tokens -/
def modeAfter (m : Mode) (ts : List Tok) : Mode := ts.foldl Mode.next m

theorem normM_append (m : Mode) (a b : List Tok) : normM m (a ++ b) = normM m a ++ normM (modeAfter m a) b := by
  induction a generalizing m with
  | nil => rfl
  | cons t r ih => simp only [List.cons_append, normM, modeAfter, List.foldl_cons, ih, List.append_assoc]

theorem eolSpelling_head (e rest : List Nat) (h : EolSpelling e rest) :
    ∃ b, (e ++ rest).head? = some b ∧ (b = 13 ∨ b = 10) := by
  rcases h with rfl | rfl | ⟨rfl, _⟩
  · exact ⟨13, rfl, Or.inl rfl⟩
  · exact ⟨10, rfl, Or.inr rfl⟩
  · exact ⟨13, rfl, Or.inl rfl⟩

theorem compat_eol (pre : List Nat) (b : Nat) (hb : b = 13 ∨ b = 10) (hcr : pre.getLast? ≠ some 13) : Compat pre b := by
  intro l hl
  refine ⟨fun h => ?_, fun h => hcr (by rw [hl, h.1])⟩
  rcases hb with rfl | rfl <;> simp [isWs] at h

/-- LINE ENDINGS, ANYWHERE.  In any program `pre ++ e ++ rest` the spelling `e` of an end of line (CR LF, CR, LF)
can be replaced by any other spelling `e'` without changing the normal form — whatever precedes it (code, an open
string literal, a comment), provided the text before does not itself end in a CR (which would pair with a LF). -/
theorem lexical_normal_form_eol_anywhere (pre e e' rest : List Nat) (h : EolSpelling e rest) (h' : EolSpelling e' rest)
    (hcr : pre.getLast? ≠ some 13) :
    norm (lex (pre ++ (e ++ rest))) = norm (lex (pre ++ (e' ++ rest))) := by
  obtain ⟨b, hb, hbb⟩ := eolSpelling_head e rest h
  obtain ⟨b', hb', hbb'⟩ := eolSpelling_head e' rest h'
  have B : ∀ x, x = 13 ∨ x = 10 → Boundary x := fun x hx => hx.elim Or.inl (fun h => Or.inr (Or.inl h))
  unfold norm
  rw [lex_append pre _ b hb (B b hbb) (compat_eol pre b hbb hcr),
    lex_append pre _ b' hb' (B b' hbb') (compat_eol pre b' hbb' hcr),
    normM_append, normM_append, lexical_normal_form_eol _ e e' rest h h']

/-- BLANK RUNS, ANYWHERE.  In any program `pre ++ w ++ rest` a maximal run `w` of blanks and tabs that is not inside a
string literal can be replaced by any other non-empty run `w'` without changing the normal form. -/
theorem lexical_normal_form_blanks_anywhere (pre w w' rest : List Nat)
    (hne : w ≠ []) (hne' : w' ≠ []) (hw : w.all isWs = true) (hw' : w'.all isWs = true)
    (hr : ∀ c, rest.head? = some c → isWs c = false)
    (hpre : ∀ l, pre.getLast? = some l → isWs l = false)
    (hmode : modeAfter .code (lex pre) ≠ .str) :
    norm (lex (pre ++ (w ++ rest))) = norm (lex (pre ++ (w' ++ rest))) := by
  have head : ∀ v : List Nat, v ≠ [] → v.all isWs = true → ∃ b, (v ++ rest).head? = some b ∧ isWs b = true := by
    intro v hv hall
    cases v with
    | nil => exact absurd rfl hv
    | cons x xs =>
      simp only [List.all_cons, Bool.and_eq_true] at hall
      exact ⟨x, rfl, hall.1⟩
  have B : ∀ x, isWs x = true → Boundary x := by
    intro x hx
    simp only [isWs, Bool.or_eq_true, beq_iff_eq] at hx
    rcases hx with h | h
    · exact Or.inr (Or.inr (Or.inl h))
    · exact Or.inr (Or.inr (Or.inr h))
  have C : ∀ x, isWs x = true → Compat pre x := by
    intro x hx l hl
    refine ⟨fun h => by rw [hpre l hl] at h; exact Bool.false_ne_true h.1, fun h => ?_⟩
    rw [h.2] at hx; simp [isWs] at hx
  obtain ⟨b, hb, hbw⟩ := head w hne hw
  obtain ⟨b', hb', hbw'⟩ := head w' hne' hw'
  unfold norm
  rw [lex_append pre _ b hb (B b hbw) (C b hbw), lex_append pre _ b' hb' (B b' hbw') (C b' hbw'),
    normM_append, normM_append, lexical_normal_form_blanks _ hmode w w' rest hne hne' hw hw' hr]

theorem squeeze_append_eol_eol (a x : List NTok) :
    squeeze (a ++ .eol :: .eol :: x) = squeeze (a ++ .eol :: x) := by
  induction hn : a.length using Nat.strongRecOn generalizing a with
  | _ n ih =>
    match a, hn with
    | [], _ => exact squeeze_eol_eol x
    | [p], _ =>
      simp only [List.cons_append, List.nil_append]
      rw [squeeze, squeeze.eq_def (p :: NTok.eol :: x)]
      simp only
      by_cases h1 : p = .eol ∨ p = .blank
      · simp only [h1, and_self, if_true]; exact squeeze_eol_eol x
      · have h2 : ¬ (p = .eol) := fun h => h1 (Or.inl h)
        have h3 : ¬ (p = .blank) := fun h => h1 (Or.inr h)
        simp only [h2, h3, false_and, if_false]
        rw [squeeze_eol_eol]
    | p :: q :: r, hlen =>
      simp only [List.cons_append]
      rw [squeeze, squeeze.eq_def (p :: q :: (r ++ NTok.eol :: x))]
      simp only
      have step : ∀ z : NTok, squeeze (z :: (r ++ .eol :: .eol :: x)) = squeeze (z :: (r ++ .eol :: x)) := by
        intro z
        have := ih (r.length + 1) (by simp only [List.length_cons] at hlen; omega) (z :: r) (by simp)
        simpa using this
      split
      · exact step .eol
      · split
        · exact step .eol
        · split
          · exact step .blank
          · rw [step q]

/-- BLANK LINES, ANYWHERE.  An extra end of line directly after an end of line (an empty line) — anywhere in the
program — disappears in the normal form. -/
theorem blank_line_insert_anywhere (pre e e2 rest : List Nat) (h2 : EolSpelling e2 rest) (h : EolSpelling e (e2 ++ rest))
    (h' : EolSpelling e rest) (hcr : pre.getLast? ≠ some 13) :
    norm (lex (pre ++ (e ++ (e2 ++ rest)))) = norm (lex (pre ++ (e ++ rest))) := by
  obtain ⟨b, hb, hbb⟩ := eolSpelling_head e (e2 ++ rest) h
  obtain ⟨b', hb', hbb'⟩ := eolSpelling_head e rest h'
  have B : ∀ x, x = 13 ∨ x = 10 → Boundary x := fun x hx => hx.elim Or.inl (fun h => Or.inr (Or.inl h))
  unfold norm
  rw [lex_append pre _ b hb (B b hbb) (compat_eol pre b hbb hcr),
    lex_append pre _ b' hb' (B b' hbb') (compat_eol pre b' hbb' hcr),
    normM_append, normM_append, lex_eol e _ h, lex_eol e2 rest h2, lex_eol e rest h']
  simp only [normM, normTok, Mode.next, beq_self_eq_true, if_true, List.cons_append, List.nil_append]
  exact squeeze_append_eol_eol _ _

/-- `PRINT "a"` CR LF `X = 1` vs LF; two blanks vs one tab before `=`; an empty line in the middle: the hypotheses are
satisfiable in the middle of a program and the normal forms agree. -/
example :
    let pre := [80, 82, 73, 78, 84, 32, 34, 97, 34]
    EolSpelling [13, 10] [88] ∧ EolSpelling [10] [88] ∧ pre.getLast? ≠ some 13 ∧ modeAfter .code (lex pre) = .code
    ∧ norm (lex (pre ++ ([13, 10] ++ [88]))) = norm (lex (pre ++ ([10] ++ [88])))
    ∧ norm (lex (pre ++ ([10] ++ ([13, 10] ++ [88])))) = norm (lex (pre ++ ([10] ++ [88])))
    ∧ norm (lex ([88] ++ ([32, 32] ++ [61, 49]))) = norm (lex ([88] ++ ([9] ++ [61, 49]))) := by
  refine ⟨Or.inl rfl, Or.inr (Or.inl rfl), by decide, by decide +kernel, by decide +kernel, by decide +kernel,
    by decide +kernel⟩

/-! ## newline and colon at the level of the separator grammar -/

theorem word_not_ws (c : Nat) (cs : List Nat) (n : Nat) : word c cs ≠ .tok .ws n := by
  unfold word; (repeat' split) <;> simp

theorem ampersand_not_ws (cs : List Nat) (n : Nat) : ampersand cs ≠ .tok .ws n := by
  unfold ampersand; (repeat' split) <;> simp

/-- only a blank or a tab starts a `Whitespace` token -/
theorem ws_token_only (c : Nat) (cs : List Nat) (n : Nat) (h : lexOne (c :: cs) = .tok .ws n) : isWs c = true := by
  simp only [lexOne] at h
  by_cases hw : isWs c = true
  · exact hw
  · exfalso
    have hw' : isWs c = false := by simpa using hw
    simp only [hw', Bool.false_eq_true, if_false] at h
    revert h
    (repeat' split) <;> simp [word_not_ws, ampersand_not_ws]

/-- the first token of a text that starts with an ordinary character is neither an end of line nor blanks -/
theorem lex_head_not_sep (rest : List Nat) (hr : ∀ c, rest.head? = some c → ¬Boundary c) :
    ∀ t, (lex rest).head? = some t → t.isEolWs = false := by
  intro t ht
  cases rest with
  | nil => simp [lex, lexF] at ht
  | cons c cs =>
    have hc := hr c rfl
    cases hl : lexOne (c :: cs) with
    | eof => exact absurd hl (lexOne_cons_ne_eof c cs)
    | tok k n =>
      rw [lex_step _ _ _ hl] at ht
      simp at ht; subst ht
      simp only [Tok.isEolWs, Tok.isEolTok, Tok.isWsTok, Bool.or_eq_false_iff, beq_eq_false_iff_ne, ne_eq]
      refine ⟨fun hk => ?_, fun hk => ?_⟩
      · rw [hk] at hl
        rcases eol_token_only _ _ hl with ⟨r, h, _⟩ | ⟨r, h, _⟩ | ⟨r, h, _⟩
        · cases h; exact hc (Or.inl rfl)
        · cases h; exact hc (Or.inl rfl)
        · cases h; exact hc (Or.inr (Or.inl rfl))
      · rw [hk] at hl
        have := ws_token_only c cs n hl
        simp only [isWs, Bool.or_eq_true, beq_iff_eq] at this
        rcases this with h | h
        · exact hc (Or.inr (Or.inr (Or.inl h)))
        · exact hc (Or.inr (Or.inr (Or.inr h)))

/-- an optional blank run is zero or one token -/
def wsToks (w : List Nat) : List Tok := if w = [] then [] else [⟨.ws, w⟩]

theorem lex_ws_opt (w rest : List Nat) (hw : w.all isWs = true) (hr : ∀ c, rest.head? = some c → isWs c = false) :
    lex (w ++ rest) = wsToks w ++ lex rest := by
  unfold wsToks
  by_cases h : w = []
  · subst h; simp
  · simp only [h, if_false]; exact lex_whitespace_run w rest h hw hr

theorem lead_wsToks (w : List Nat) : Lead (wsToks w) := by
  unfold wsToks Lead
  by_cases h : w = []
  · simp [h]
  · simp only [h, if_false]; exact Or.inr ⟨_, rfl, rfl⟩

theorem not_ws_of_not_boundary (c : Nat) (h : ¬Boundary c) : isWs c = false := by
  cases hw : isWs c with
  | false => rfl
  | true =>
    simp only [isWs, Bool.or_eq_true, beq_iff_eq] at hw
    exact absurd (hw.elim (fun h => Or.inr (Or.inr (Or.inl h))) (fun h => Or.inr (Or.inr (Or.inr h)))) h

/-- NEWLINE ↔ COLON at the separator.  Between two statements, `blanks? : blanks?` and `blanks? EOL blanks?` (any
spelling of the end of line, any amount of blanks and tabs, also none) are both accepted by `common_separator`, are
both consumed completely, and leave the SAME remaining token stream `lex rest` to the parser of the next statement. -/
theorem newline_colon_separator (lw tw e rest : List Nat) (hlw : lw.all isWs = true) (htw : tw.all isWs = true)
    (he : EolSpelling e (tw ++ rest)) (hr : ∀ c, rest.head? = some c → ¬Boundary c) :
    commonSeparator (lex (lw ++ (58 :: (tw ++ rest)))) = some (lex rest)
    ∧ commonSeparator (lex (lw ++ (e ++ (tw ++ rest)))) = some (lex rest) := by
  have hrw : ∀ c, rest.head? = some c → isWs c = false := fun c hc => not_ws_of_not_boundary c (hr c hc)
  have htail : (wsToks tw).all Tok.isEolWs = true := by
    unfold wsToks; by_cases h : tw = [] <;> simp [h, Tok.isEolWs, Tok.isWsTok]
  have hrest := lex_head_not_sep rest hr
  constructor
  · have h58 : lexOne (58 :: (tw ++ rest)) = .tok .symbol 1 := by simp [lexOne, isWs, isDigit, isLetter]
    rw [lex_ws_opt lw _ hlw (by intro c hc; simp at hc; subst hc; rfl), lex_step _ _ _ h58]
    simp only [List.take, List.drop, lex_ws_opt tw rest htw hrw]
    apply separator_accepts
    exact Or.inl ⟨wsToks lw, ⟨.symbol, [58]⟩, wsToks tw, by simp, lead_wsToks lw, rfl, htail, hrest⟩
  · obtain ⟨b, hb, hbb⟩ := eolSpelling_head e (tw ++ rest) he
    rw [lex_ws_opt lw _ hlw (by intro c hc; rw [hb] at hc; cases hc; rcases hbb with rfl | rfl <;> rfl),
      lex_eol e _ he, lex_ws_opt tw rest htw hrw]
    apply separator_accepts
    exact Or.inl ⟨wsToks lw, ⟨.eol, e⟩, wsToks tw, by simp, lead_wsToks lw, rfl, htail, hrest⟩

/-- `X=1 : Y=2`, `X=1:Y=2`, `X=1` CR LF `  Y=2` — after `X=1` the separator leaves exactly the tokens of `Y=2`. -/
example :
    commonSeparator (lex ([32] ++ (58 :: ([32] ++ [89, 61, 50])))) = some (lex [89, 61, 50])
    ∧ commonSeparator (lex ([] ++ (58 :: ([] ++ [89, 61, 50])))) = some (lex [89, 61, 50])
    ∧ commonSeparator (lex ([] ++ ([13, 10] ++ ([32, 32] ++ [89, 61, 50])))) = some (lex [89, 61, 50])
    ∧ EolSpelling [13, 10] ([32, 32] ++ [89, 61, 50]) ∧ ¬Boundary 89 := by
  refine ⟨by decide +kernel, by decide +kernel, by decide +kernel, Or.inl rfl, ?_⟩
  unfold Boundary; omega

end RbThm.C09
