import Thm.ProcSim
import Thm.ArrLSim
import Thm.RecLSim
/-!
# C08 for the three other simulation layers — no internal failure

`Thm/C08Core.lean` proves C08 ("a program the checker accepts runs to a BASIC-level outcome, never an internal
failure") for the core language as a corollary of `C01_core_correct`.  This file does the same for the three layers
built on top of it, each as a corollary of the layer's simulation theorem:

* procedures (`RbThm.ProcSim.compile_correct_checked`: core language + SUB / FUNCTION, by-value and by-reference
  scalar arguments, recursion, EXIT SUB / FUNCTION, STATIC, DIM SHARED) — namespace `RbThm.C08Layers.Procs`;
* arrays (`RbThm.ArrLSim.compile_correct_checked`: core language + arrays of scalars, DIM / REDIM with run-time
  bounds, element read / write / READ target, LBOUND / UBOUND) — `RbThm.C08Layers.Arrays`;
* records (`RbThm.RecLSim.compile_correct_checked`: core language + TYPE records, nested records, `STRING * n`)
  — `RbThm.C08Layers.Records`.

Each VM model answers `stuck` exactly where the real VM would panic on the layer's instructions (pop from an empty
stack, `PopRet` without a frame, a missing variable / array / field, an operand of the wrong kind in an unchecked
accessor, no instruction at the pc) — and where the model does not follow the code (exact arithmetic leaving its
domain: `inexact`; an instruction outside the layer).  Each simulation theorem says that the VM model running the code the layer's
generator model emits reaches the end the layer's reference semantics reaches; `step` is a function, so that run is
*the* run.  Hence, for every program passing the layer's boolean premise checker `progWfB` (the check the driver
evaluates on the real front end's tree: requests `proc.wf`, `arrl.wf`, `recl.wf`) on which the reference run
*finishes* — normally, with END or with a BASIC error; not `inexact`, `outOfFuel`, nor (arrays, records) `illFormed`
= a variable used although its DIM did not run, nor (arrays) `tooBig`; for the procedures layer `exited` /
`illFormed` are additionally *proved impossible* under `progWfB` and need not be excluded —

* `no_internal_failure`: the VM run never answers `stuck`, whatever the step budget;
* `basic_level_outcome`: with enough budget it has halted, or stopped with exactly the reference's BASIC error.
-/

namespace RbThm.C08Layers.Procs
set_option linter.unusedVariables false
open RbModel RbModel.Num RbModel.Proc RbModel.Proc.Compile RbModel.Proc.Vm
open RbModel.Ast (Pos)
open RbThm.ProcSim (Steps)

/-- the layer's reference semantics finished: normally, with END, or with a BASIC error -/
def finished : Proc.Ref.Outcome → Bool
  | .normal => true
  | .halted => true
  | .error _ _ => true
  | .inexact => false
  | .outOfFuel => false
  | .exited => false
  | .illFormed => false

abbrev Finished (o : Proc.Ref.Outcome) : Prop := finished o = true

/-! `step` is a function, so a run that is known to end cannot get stuck earlier -/

theorem run_of_steps_halt (code : Code) {σ τ υ : Vm} (h : Steps code σ τ) (hh : Vm.step code τ = .halt υ) :
    ∀ m, Vm.run code m σ = .outOfFuel ∨ Vm.run code m σ = .halted υ := by
  induction h with
  | refl σ =>
    intro m
    cases m with
    | zero => exact .inl rfl
    | succ k => exact .inr (by simp [Vm.run, hh])
  | cons hs _ ih =>
    intro m
    cases m with
    | zero => exact .inl rfl
    | succ k =>
      rcases ih hh k with h1 | h1
      · exact .inl (by simp [Vm.run, hs, h1])
      · exact .inr (by simp [Vm.run, hs, h1])

theorem run_of_steps_err (code : Code) {σ τ υ : Vm} {c : Nat} {p : Pos} (h : Steps code σ τ)
    (hh : Vm.step code τ = .error c p υ) :
    ∀ m, Vm.run code m σ = .outOfFuel ∨ Vm.run code m σ = .error c p υ := by
  induction h with
  | refl σ =>
    intro m
    cases m with
    | zero => exact .inl rfl
    | succ k => exact .inr (by simp [Vm.run, hh])
  | cons hs _ ih =>
    intro m
    cases m with
    | zero => exact .inl rfl
    | succ k =>
      rcases ih hh k with h1 | h1
      · exact .inl (by simp [Vm.run, hs, h1])
      · exact .inr (by simp [Vm.run, hs, h1])

/-- **`no_internal_failure`** (procs layer) — for every program the layer's premise checker accepts on which the
layer's reference semantics finishes, the VM model running the generated code never answers `stuck` (the model's
rendering of a Rust panic): whatever the step budget `m`, the run is still going, or has halted, or has stopped with a
BASIC error. -/
theorem no_internal_failure (prog : SProgram) (fuel : Nat) (hw : progWfB prog = true)
    (hfin : Finished (Proc.Ref.run fuel prog.toAst).2) :
    ∀ m, Vm.run (compile prog) m (Vm.init) ≠ .stuck := by
  have h := RbThm.ProcSim.compile_correct_checked prog fuel hw
  intro m
  rcases hr : Proc.Ref.run fuel prog.toAst with ⟨s', o⟩
  rw [hr] at h hfin
  cases o with
  | normal =>
    obtain ⟨τ, υ, hs, hh, _⟩ := h
    rcases run_of_steps_halt _ hs hh m with h1 | h1 <;> simp [h1]
  | halted =>
    obtain ⟨τ, υ, hs, hh, _⟩ := h
    rcases run_of_steps_halt _ hs hh m with h1 | h1 <;> simp [h1]
  | error c p =>
    obtain ⟨τ, υ, hs, hh, _⟩ := h
    rcases run_of_steps_err _ hs hh m with h1 | h1 <;> simp [h1]
  | inexact => simp [Finished, finished] at hfin
  | outOfFuel => simp [Finished, finished] at hfin
  | exited => simp [Finished, finished] at hfin
  | illFormed => simp [Finished, finished] at hfin

/-- **`basic_level_outcome`** (procs layer) — ... and with a large enough budget the run ends at BASIC level:
halted (the reference ended normally or with END) or in exactly the BASIC error, code and position, the reference ends
in. -/
theorem basic_level_outcome (prog : SProgram) (fuel : Nat) (hw : progWfB prog = true)
    (hfin : Finished (Proc.Ref.run fuel prog.toAst).2) :
    ∃ n, ∀ m, n ≤ m →
      (∃ ω, Vm.run (compile prog) m (Vm.init) = .halted ω) ∨
      (∃ c p ω, Vm.run (compile prog) m (Vm.init) = .error c p ω ∧
        (Proc.Ref.run fuel prog.toAst).2 = .error c p) := by
  have h := RbThm.ProcSim.compile_correct_checked prog fuel hw
  rcases hr : Proc.Ref.run fuel prog.toAst with ⟨s', o⟩
  rw [hr] at h hfin
  cases o with
  | normal =>
    obtain ⟨τ, υ, hs, hh, _⟩ := h
    obtain ⟨n, hn⟩ := RbThm.ProcSim.run_of_steps _ hs hh
    exact ⟨n, fun m hm => .inl (by obtain ⟨ω, h1, _⟩ := hn m hm; exact ⟨ω, h1⟩)⟩
  | halted =>
    obtain ⟨τ, υ, hs, hh, _⟩ := h
    obtain ⟨n, hn⟩ := RbThm.ProcSim.run_of_steps _ hs hh
    exact ⟨n, fun m hm => .inl (by obtain ⟨ω, h1, _⟩ := hn m hm; exact ⟨ω, h1⟩)⟩
  | error c p =>
    obtain ⟨τ, υ, hs, hh, _⟩ := h
    obtain ⟨n, hn⟩ := RbThm.ProcSim.run_of_steps_error _ hs hh
    exact ⟨n, fun m hm => .inr ⟨c, p, υ, hn m hm, rfl⟩⟩
  | inexact => simp [Finished, finished] at hfin
  | outOfFuel => simp [Finished, finished] at hfin
  | exited => simp [Finished, finished] at hfin
  | illFormed => simp [Finished, finished] at hfin

/-! non-vacuity: an accepted program on which the reference finishes normally, and one that ends in a BASIC error -/

def x0 : Var := ⟨false, 0⟩

/-- `X% = 1 : Inc X% : PRINT X% + F%(2)` with `SUB Inc (N%) : N% = N% + k : END SUB` and
`FUNCTION F% (A%) : F% = A% * 2 : END FUNCTION` (procedures numbered FUNCTIONs first) -/
def demo (k : Int) : SProgram :=
  { slots := [.int], gslots := [],
    body := .seq (.assign x0 .int (.lit (.int 1) ⟨1, 6⟩) ⟨1, 1⟩)
      (.seq (.callSub 1 (.cons (.var x0 .int ⟨2, 10⟩) "N" .int .nil) ⟨2, 1⟩)
        (.seq (.print [.expr (.bin .plus (.var x0 .int ⟨3, 7⟩)
            (.callFn 0 (.cons (.lit (.int 2) ⟨3, 15⟩) "A" .int .nil) .int ⟨3, 12⟩) .int ⟨3, 10⟩)] ⟨3, 1⟩) .skip)),
    procs :=
      [ { result := some .int, name := "F%", params := [("A", .int)], slots := [.int, .int],
          body := .seq (.assign ⟨false, 1⟩ .int
            (.bin .multiply (.var x0 .int ⟨8, 8⟩) (.lit (.int 2) ⟨8, 13⟩) .int ⟨8, 11⟩) ⟨8, 3⟩) .skip,
          pos := ⟨7, 1⟩ },
        { result := none, name := "Inc", params := [("N", .int)], slots := [.int],
          body := .seq (.assign x0 .int
            (.bin .plus (.var x0 .int ⟨5, 8⟩) (.lit (.int k) ⟨5, 13⟩) .int ⟨5, 11⟩) ⟨5, 3⟩) .skip,
          pos := ⟨4, 1⟩ } ] }

example : progWfB (demo 1) = true ∧ Finished (Proc.Ref.run 100 (demo 1).toAst).2 := by decide +kernel

/-- `k = 32767`: Overflow (6) inside the SUB — an accepted program that ends in a BASIC error raised in a procedure -/
example : progWfB (demo 32767) = true ∧
    (match (Proc.Ref.run 100 (demo 32767).toAst).2 with | .error 6 ⟨5, 11⟩ => true | _ => false) = true := by
  decide +kernel

end RbThm.C08Layers.Procs

namespace RbThm.C08Layers.Arrays
set_option linter.unusedVariables false
open RbModel RbModel.Num RbModel.ArrL RbModel.ArrL.Compile RbModel.ArrL.Vm
open RbModel.Ast (Pos)
open RbThm.ArrLSim (Steps)

/-- the layer's reference semantics finished: normally, with END, or with a BASIC error -/
def finished : ArrL.Ref.Outcome → Bool
  | .normal => true
  | .halted => true
  | .error _ _ => true
  | .inexact => false
  | .outOfFuel => false
  | .illFormed => false
  | .tooBig => false

abbrev Finished (o : ArrL.Ref.Outcome) : Prop := finished o = true

/-! `step` is a function, so a run that is known to end cannot get stuck earlier -/

theorem run_of_steps_halt (code : Code) {σ τ υ : Vm} (h : Steps code σ τ) (hh : Vm.step code τ = .halt υ) :
    ∀ m, Vm.run code m σ = .outOfFuel ∨ Vm.run code m σ = .halted υ := by
  induction h with
  | refl σ =>
    intro m
    cases m with
    | zero => exact .inl rfl
    | succ k => exact .inr (by simp [Vm.run, hh])
  | cons hs _ ih =>
    intro m
    cases m with
    | zero => exact .inl rfl
    | succ k =>
      rcases ih hh k with h1 | h1
      · exact .inl (by simp [Vm.run, hs, h1])
      · exact .inr (by simp [Vm.run, hs, h1])

theorem run_of_steps_err (code : Code) {σ τ υ : Vm} {c : Nat} {p : Pos} (h : Steps code σ τ)
    (hh : Vm.step code τ = .error c p υ) :
    ∀ m, Vm.run code m σ = .outOfFuel ∨ Vm.run code m σ = .error c p υ := by
  induction h with
  | refl σ =>
    intro m
    cases m with
    | zero => exact .inl rfl
    | succ k => exact .inr (by simp [Vm.run, hh])
  | cons hs _ ih =>
    intro m
    cases m with
    | zero => exact .inl rfl
    | succ k =>
      rcases ih hh k with h1 | h1
      · exact .inl (by simp [Vm.run, hs, h1])
      · exact .inr (by simp [Vm.run, hs, h1])

/-- **`no_internal_failure`** (arrays layer) — for every program the layer's premise checker accepts on which the
layer's reference semantics finishes, the VM model running the generated code never answers `stuck` (the model's
rendering of a Rust panic): whatever the step budget `m`, the run is still going, or has halted, or has stopped with a
BASIC error. -/
theorem no_internal_failure (prog : SProgram) (fuel : Nat) (hw : progWfB prog = true)
    (hfin : Finished (ArrL.Ref.run fuel prog.toAst).2) :
    ∀ m, Vm.run (compile prog) m (Vm.init prog.slots prog.arrs) ≠ .stuck := by
  have h := RbThm.ArrLSim.compile_correct_checked prog fuel hw
  intro m
  rcases hr : ArrL.Ref.run fuel prog.toAst with ⟨s', o⟩
  rw [hr] at h hfin
  cases o with
  | normal =>
    obtain ⟨τ, υ, hs, hh, _⟩ := h
    rcases run_of_steps_halt _ hs hh m with h1 | h1 <;> simp [h1]
  | halted =>
    obtain ⟨τ, υ, hs, hh, _⟩ := h
    rcases run_of_steps_halt _ hs hh m with h1 | h1 <;> simp [h1]
  | error c p =>
    obtain ⟨τ, υ, hs, hh, _⟩ := h
    rcases run_of_steps_err _ hs hh m with h1 | h1 <;> simp [h1]
  | inexact => simp [Finished, finished] at hfin
  | outOfFuel => simp [Finished, finished] at hfin
  | illFormed => simp [Finished, finished] at hfin
  | tooBig => simp [Finished, finished] at hfin

/-- **`basic_level_outcome`** (arrays layer) — ... and with a large enough budget the run ends at BASIC level:
halted (the reference ended normally or with END) or in exactly the BASIC error, code and position, the reference ends
in. -/
theorem basic_level_outcome (prog : SProgram) (fuel : Nat) (hw : progWfB prog = true)
    (hfin : Finished (ArrL.Ref.run fuel prog.toAst).2) :
    ∃ n, ∀ m, n ≤ m →
      (∃ ω, Vm.run (compile prog) m (Vm.init prog.slots prog.arrs) = .halted ω) ∨
      (∃ c p ω, Vm.run (compile prog) m (Vm.init prog.slots prog.arrs) = .error c p ω ∧
        (ArrL.Ref.run fuel prog.toAst).2 = .error c p) := by
  have h := RbThm.ArrLSim.compile_correct_checked prog fuel hw
  rcases hr : ArrL.Ref.run fuel prog.toAst with ⟨s', o⟩
  rw [hr] at h hfin
  cases o with
  | normal =>
    obtain ⟨τ, υ, hs, hh, _⟩ := h
    obtain ⟨n, hn⟩ := RbThm.ArrLSim.run_of_steps _ hs hh
    exact ⟨n, fun m hm => .inl ⟨υ, hn m hm⟩⟩
  | halted =>
    obtain ⟨τ, υ, hs, hh, _⟩ := h
    obtain ⟨n, hn⟩ := RbThm.ArrLSim.run_of_steps _ hs hh
    exact ⟨n, fun m hm => .inl ⟨υ, hn m hm⟩⟩
  | error c p =>
    obtain ⟨τ, υ, hs, hh, _⟩ := h
    obtain ⟨n, hn⟩ := RbThm.ArrLSim.run_of_steps_error _ hs hh
    exact ⟨n, fun m hm => .inr ⟨c, p, υ, hn m hm, rfl⟩⟩
  | inexact => simp [Finished, finished] at hfin
  | outOfFuel => simp [Finished, finished] at hfin
  | illFormed => simp [Finished, finished] at hfin
  | tooBig => simp [Finished, finished] at hfin

/-! non-vacuity: an accepted program on which the reference finishes normally, and one that ends in a BASIC error -/

/-- `DIM A%(1 TO 3) : FOR I% = 1 TO k : A%(I%) = I% * 2 : NEXT : PRINT A%(2) + UBOUND(A%)` -/
def demo (k : Int) : SProgram :=
  { slots := [.int], arrs := [.int],
    body := .seq (.dimArr 0 .int (.cons (some (.lit (.int 1) ⟨1, 8⟩)) (.lit (.int 3) ⟨1, 13⟩) .nil) ⟨1, 1⟩)
      (.seq (.forLoop 0 .int (.lit (.int 1) ⟨2, 10⟩) (.lit (.int k) ⟨2, 15⟩) none
              (.seq (.assignElem 0 .int (.cons (.var 0 .int ⟨3, 6⟩) .nil)
                  (.bin .multiply (.var 0 .int ⟨3, 12⟩) (.lit (.int 2) ⟨3, 17⟩) .int ⟨3, 15⟩) ⟨3, 3⟩) .skip) ⟨2, 1⟩)
        (.seq (.print [.expr (.bin .plus (.elem 0 (.cons (.lit (.int 2) ⟨5, 10⟩) .nil) .int ⟨5, 7⟩)
            (.bound true 0 .int ⟨5, 22⟩ ⟨5, 15⟩) .int ⟨5, 13⟩)] ⟨5, 1⟩) .skip)) }

example : progWfB (demo 3) = true ∧ Finished (ArrL.Ref.run 100 (demo 3).toAst).2 := by decide +kernel

/-- `k = 4`: Subscript out of range (9) at `A%(4) = …` — an accepted program that ends in a BASIC error -/
example : progWfB (demo 4) = true ∧
    (match (ArrL.Ref.run 100 (demo 4).toAst).2 with | .error 9 ⟨3, 3⟩ => true | _ => false) = true := by
  decide +kernel

/-- the exclusion is inhabited: `PRINT A%(1)` without a DIM that ran is accepted by `progWfB`, and the reference
answers `illFormed` (the real interpreter: the DIM-not-executed repair 37f5df4) — nothing is claimed there -/
private def noDim : SProgram :=
  { slots := [], arrs := [.int],
    body := .seq (.print [.expr (.elem 0 (.cons (.lit (.int 1) ⟨1, 10⟩) .nil) .int ⟨1, 7⟩)] ⟨1, 1⟩) .skip }

example : progWfB noDim = true ∧
    (match (ArrL.Ref.run 100 noDim.toAst).2 with | .illFormed => true | _ => false) = true := by decide +kernel

end RbThm.C08Layers.Arrays

namespace RbThm.C08Layers.Records
set_option linter.unusedVariables false
open RbModel RbModel.Num RbModel.RecL RbModel.RecL.Compile RbModel.RecL.Vm
open RbModel.Ast (Pos)
open RbThm.RecLSim (Steps)

/-- the layer's reference semantics finished: normally, with END, or with a BASIC error -/
def finished : RecL.Ref.Outcome → Bool
  | .normal => true
  | .halted => true
  | .error _ _ => true
  | .inexact => false
  | .outOfFuel => false
  | .illFormed => false

abbrev Finished (o : RecL.Ref.Outcome) : Prop := finished o = true

/-! `step` is a function, so a run that is known to end cannot get stuck earlier -/

theorem run_of_steps_halt (code : Code) {σ τ υ : Vm} (h : Steps code σ τ) (hh : Vm.step code τ = .halt υ) :
    ∀ m, Vm.run code m σ = .outOfFuel ∨ Vm.run code m σ = .halted υ := by
  induction h with
  | refl σ =>
    intro m
    cases m with
    | zero => exact .inl rfl
    | succ k => exact .inr (by simp [Vm.run, hh])
  | cons hs _ ih =>
    intro m
    cases m with
    | zero => exact .inl rfl
    | succ k =>
      rcases ih hh k with h1 | h1
      · exact .inl (by simp [Vm.run, hs, h1])
      · exact .inr (by simp [Vm.run, hs, h1])

theorem run_of_steps_err (code : Code) {σ τ υ : Vm} {c : Nat} {p : Pos} (h : Steps code σ τ)
    (hh : Vm.step code τ = .error c p υ) :
    ∀ m, Vm.run code m σ = .outOfFuel ∨ Vm.run code m σ = .error c p υ := by
  induction h with
  | refl σ =>
    intro m
    cases m with
    | zero => exact .inl rfl
    | succ k => exact .inr (by simp [Vm.run, hh])
  | cons hs _ ih =>
    intro m
    cases m with
    | zero => exact .inl rfl
    | succ k =>
      rcases ih hh k with h1 | h1
      · exact .inl (by simp [Vm.run, hs, h1])
      · exact .inr (by simp [Vm.run, hs, h1])

/-- **`no_internal_failure`** (records layer) — for every program the layer's premise checker accepts on which the
layer's reference semantics finishes, the VM model running the generated code never answers `stuck` (the model's
rendering of a Rust panic): whatever the step budget `m`, the run is still going, or has halted, or has stopped with a
BASIC error. -/
theorem no_internal_failure (prog : SProgram) (fuel : Nat) (hw : progWfB prog = true)
    (hfin : Finished (RecL.Ref.run fuel prog.toAst).2) :
    ∀ m, Vm.run (compile prog) m (Vm.init prog.types prog.slots) ≠ .stuck := by
  have h := RbThm.RecLSim.compile_correct_checked prog fuel hw
  intro m
  rcases hr : RecL.Ref.run fuel prog.toAst with ⟨s', o⟩
  rw [hr] at h hfin
  cases o with
  | normal =>
    obtain ⟨τ, υ, hs, hh, _⟩ := h
    rcases run_of_steps_halt _ hs hh m with h1 | h1 <;> simp [h1]
  | halted =>
    obtain ⟨τ, υ, hs, hh, _⟩ := h
    rcases run_of_steps_halt _ hs hh m with h1 | h1 <;> simp [h1]
  | error c p =>
    obtain ⟨τ, υ, hs, hh, _⟩ := h
    rcases run_of_steps_err _ hs hh m with h1 | h1 <;> simp [h1]
  | inexact => simp [Finished, finished] at hfin
  | outOfFuel => simp [Finished, finished] at hfin
  | illFormed => simp [Finished, finished] at hfin

/-- **`basic_level_outcome`** (records layer) — ... and with a large enough budget the run ends at BASIC level:
halted (the reference ended normally or with END) or in exactly the BASIC error, code and position, the reference ends
in. -/
theorem basic_level_outcome (prog : SProgram) (fuel : Nat) (hw : progWfB prog = true)
    (hfin : Finished (RecL.Ref.run fuel prog.toAst).2) :
    ∃ n, ∀ m, n ≤ m →
      (∃ ω, Vm.run (compile prog) m (Vm.init prog.types prog.slots) = .halted ω) ∨
      (∃ c p ω, Vm.run (compile prog) m (Vm.init prog.types prog.slots) = .error c p ω ∧
        (RecL.Ref.run fuel prog.toAst).2 = .error c p) := by
  have h := RbThm.RecLSim.compile_correct_checked prog fuel hw
  rcases hr : RecL.Ref.run fuel prog.toAst with ⟨s', o⟩
  rw [hr] at h hfin
  cases o with
  | normal =>
    obtain ⟨τ, υ, hs, hh, _⟩ := h
    obtain ⟨n, hn⟩ := RbThm.RecLSim.run_of_steps _ hs hh
    exact ⟨n, fun m hm => .inl ⟨υ, hn m hm⟩⟩
  | halted =>
    obtain ⟨τ, υ, hs, hh, _⟩ := h
    obtain ⟨n, hn⟩ := RbThm.RecLSim.run_of_steps _ hs hh
    exact ⟨n, fun m hm => .inl ⟨υ, hn m hm⟩⟩
  | error c p =>
    obtain ⟨τ, υ, hs, hh, _⟩ := h
    obtain ⟨n, hn⟩ := RbThm.RecLSim.run_of_steps_error _ hs hh
    exact ⟨n, fun m hm => .inr ⟨c, p, υ, hn m hm, rfl⟩⟩
  | inexact => simp [Finished, finished] at hfin
  | outOfFuel => simp [Finished, finished] at hfin
  | illFormed => simp [Finished, finished] at hfin

/-! non-vacuity: an accepted program on which the reference finishes normally, and one that ends in a BASIC error -/

/-- `TYPE T : N AS INTEGER : S AS STRING * 3 : END TYPE : DIM R AS T : R.N = k : R.S = "abcdef" : R.N = R.N + 1 :
PRINT R.S; R.N` -/
def demo (k : Int) : SProgram :=
  { types := [.cons "N" (.sc .int) (.cons "S" (.fix 3) .nil)], slots := [.udt 0],
    body := .seq (.dim 0 (.udt 0) ⟨5, 1⟩)
      (.seq (.assign 0 ["N"] (.sc .int) (.lit (.int k) ⟨6, 7⟩) ⟨6, 1⟩)
        (.seq (.assign 0 ["S"] (.fix 3) (.lit (.str ['a', 'b', 'c', 'd', 'e', 'f']) ⟨7, 7⟩) ⟨7, 1⟩)
          (.seq (.assign 0 ["N"] (.sc .int)
              (.bin .plus (.var 0 ["N"] (.sc .int) ⟨8, 7⟩) (.lit (.int 1) ⟨8, 13⟩) .int ⟨8, 11⟩) ⟨8, 1⟩)
            (.seq (.print [.expr (.var 0 ["S"] (.fix 3) ⟨9, 7⟩), .semicolon,
                .expr (.var 0 ["N"] (.sc .int) ⟨9, 12⟩)] ⟨9, 1⟩) .skip)))) }

example : progWfB (demo 3) = true ∧ Finished (RecL.Ref.run 100 (demo 3).toAst).2 := by decide +kernel

/-- `k = 32767`: Overflow (6) at `R.N = R.N + 1` — an accepted program that ends in a BASIC error -/
example : progWfB (demo 32767) = true ∧
    (match (RecL.Ref.run 100 (demo 32767).toAst).2 with | .error 6 ⟨8, 11⟩ => true | _ => false) = true := by
  decide +kernel

end RbThm.C08Layers.Records
